/*
 * f3: a trailing comment behind a section name whose opening brace is on
 * the following line turns a valid text into a parse error.
 *
 * build: cc -I../mptcore f3_demo.c -L../_build/mptcore -lmptcore -Wl,-rpath,$PWD/../_build/mptcore
 */
#include <stdio.h>
#include <stdlib.h>
#include <string.h>

#include "node.h"
#include "config.h"
#include "parse.h"

struct src { const char *s; size_t pos, len; };
static int src_getc(void *p)
{
	struct src *s = p;
	return (s->pos < s->len) ? (unsigned char) s->s[s->pos++] : -2;
}
/* parse text into children of root, all name characters permitted (default flags) */
static int parse_text(MPT_STRUCT(node) *root, const char *txt, const char *fmt)
{
	MPT_STRUCT(parser_context) parse = MPT_PARSER_INIT;
	struct src in;
	in.s = txt; in.pos = 0; in.len = strlen(txt);
	parse.src.getc = src_getc;
	parse.src.arg  = &in;
	return mpt_parse_node(root, &parse, fmt);
}
/* print tree in canonical form to buffer */
static void dump(const MPT_STRUCT(node) *n, int depth, char *out)
{
	for (; n; n = n->next) {
		const char *id = mpt_node_ident(n), *val = mpt_node_data(n, 0);
		out += strlen(out);
		sprintf(out, "%*s[%s]%s%s\n", depth * 2, "", id ? id : "", val ? "=" : "", val ? val : "");
		if (n->children) dump(n->children, depth + 1, out);
	}
}
static int check(const char *txt, const char *expect)
{
	MPT_STRUCT(node) root = MPT_NODE_INIT;
	char got[1024] = "";
	int ret;
	
	if ((ret = parse_text(&root, txt, 0)) < 0) {
		printf("FAIL: parse error %d for\n%s\n", ret, txt);
		return 1;
	}
	dump(root.children, 0, got);
	mpt_node_clear(&root);
	if (strcmp(got, expect)) {
		printf("FAIL: got\n%sexpected\n%s\n", got, expect);
		return 1;
	}
	return 0;
}
int main(void)
{
	static const char expect[] = "[sect]\n  [x]=1\n[y]=2\n";
	int bad = 0;
	/* accepted spellings of the same tree */
	bad += check("sect {\n  x = 1\n}\ny = 2\n", expect);
	bad += check("sect { # comment\n  x = 1 # comment\n} # comment\ny = 2\n", expect);
	bad += check("sect\n{\n  x = 1\n}\ny = 2\n", expect);
	bad += check("sect   \n\n# comment line\n  {\n  x = 1\n}\ny = 2\n", expect);
	/* comment added behind the name */
	bad += check("sect # comment\n{\n  x = 1\n}\ny = 2\n", expect);
	bad += check("sect#comment\n{\n  x = 1\n}\ny = 2\n", expect);
	printf("%d failures\n", bad);
	return bad ? 1 : 0;
}

/*
 * f2: names containing '.' (permitted by the name flags: "special" character)
 * make the whole text unreadable (BadOperation) in every section style.
 *
 * build: cc -I../mptcore f2_demo.c -L../_build/mptcore -lmptcore -Wl,-rpath,$PWD/../_build/mptcore
 */
#include <stdio.h>
#include <stdlib.h>
#include <string.h>

#include "node.h"
#include "config.h"
#include "parse.h"

struct src { const char *s; size_t pos, len; };
static int src_getc(void *p)
{
	struct src *s = p;
	return (s->pos < s->len) ? (unsigned char) s->s[s->pos++] : -2;
}
/* parse text into children of root, all name characters permitted (default flags) */
static int parse_text(MPT_STRUCT(node) *root, const char *txt, const char *fmt)
{
	MPT_STRUCT(parser_context) parse = MPT_PARSER_INIT;
	struct src in;
	in.s = txt; in.pos = 0; in.len = strlen(txt);
	parse.src.getc = src_getc;
	parse.src.arg  = &in;
	return mpt_parse_node(root, &parse, fmt);
}
/* print tree in canonical form to buffer */
static void dump(const MPT_STRUCT(node) *n, int depth, char *out)
{
	for (; n; n = n->next) {
		const char *id = mpt_node_ident(n), *val = mpt_node_data(n, 0);
		out += strlen(out);
		sprintf(out, "%*s[%s]%s%s\n", depth * 2, "", id ? id : "", val ? "=" : "", val ? val : "");
		if (n->children) dump(n->children, depth + 1, out);
	}
}
static int check(const char *txt, const char *fmt, const char *expect)
{
	MPT_STRUCT(node) root = MPT_NODE_INIT;
	char got[1024] = "";
	int ret;
	
	/* name check itself accepts the names */
	if (mpt_parse_ncheck("file.name", 9, MPT_NAMEFLAG(Special)) < 0) {
		printf("name flags do not permit '.'\n");
		return 0;
	}
	if ((ret = parse_text(&root, txt, fmt)) < 0) {
		printf("FAIL: parse error %d for\n%s\n", ret, txt);
		return 1;
	}
	dump(root.children, 0, got);
	mpt_node_clear(&root);
	if (strcmp(got, expect)) {
		printf("FAIL: got\n%sexpected\n%s\n", got, expect);
		return 1;
	}
	return 0;
}
int main(void)
{
	int bad = 0;
	/* control: other special characters are fine */
	bad += check("file-name = a.txt\nv1_2 {\n  x = 1\n}\n", 0, "[file-name]=a.txt\n[v1_2]\n  [x]=1\n");
	/* '.' in option name */
	bad += check("file.name = a.txt\n", 0, "[file.name]=a.txt\n");
	/* '.' in section name, all three styles */
	bad += check("v1.2 {\n  x = 1\n}\n", 0, "[v1.2]\n  [x]=1\n");
	bad += check("[v1.2]\n  x = 1\n", "[ ]", "[v1.2]\n  [x]=1\n");
	bad += check("<v1.2\n  x = 1\n>\n", "<x>", "[v1.2]\n  [x]=1\n");
	printf("%d failures\n", bad);
	return bad ? 1 : 0;
}

/*
 * f1: section/option names of 256 or more bytes are silently dropped
 * (node is created without any identifier) in all three section styles.
 *
 * build: cc -I../mptcore f1_demo.c -L../_build/mptcore -lmptcore -Wl,-rpath,$PWD/../_build/mptcore
 */
#include <stdio.h>
#include <stdlib.h>
#include <string.h>

#include "node.h"
#include "config.h"
#include "parse.h"

struct src { const char *s; size_t pos, len; };
static int src_getc(void *p)
{
	struct src *s = p;
	return (s->pos < s->len) ? (unsigned char) s->s[s->pos++] : -2;
}
static int check(size_t nlen, int style)
{
	static const char *fmts[] = { 0, "[ ]", "<x>" };
	static const char *desc[] = { "name { }", "[name]", "<name >" };
	MPT_STRUCT(parser_context) parse = MPT_PARSER_INIT;
	MPT_STRUCT(node) root = MPT_NODE_INIT, *sect, *opt;
	struct src in;
	char *sn, *on, *txt;
	const char *id;
	int ret, bad = 0;
	size_t i;
	
	sn = malloc(nlen + 1); on = malloc(nlen + 1); txt = malloc(2 * nlen + 64);
	for (i = 0; i < nlen; i++) { sn[i] = 'a' + i % 26; on[i] = 'A' + i % 26; }
	sn[nlen] = on[nlen] = 0;
	switch (style) {
	  case 0: sprintf(txt, "%s {\n  %s = value\n}\n", sn, on); break;
	  case 1: sprintf(txt, "[%s]\n  %s = value\n", sn, on); break;
	  default: sprintf(txt, "<%s\n  %s = value\n>\n", sn, on);
	}
	in.s = txt; in.pos = 0; in.len = strlen(txt);
	parse.src.getc = src_getc;
	parse.src.arg  = &in;
	
	if ((ret = mpt_parse_node(&root, &parse, fmts[style])) < 0) {
		printf("len %zu, style %s: parse error %d\n", nlen, desc[style], ret);
		return 1;
	}
	sect = root.children;
	opt  = sect ? sect->children : 0;
	if (!sect || !(id = mpt_node_ident(sect)) || strcmp(id, sn)) {
		printf("len %zu, style %s: section name lost (identifier length %d)\n", nlen, desc[style], sect ? sect->ident._len : -1);
		bad = 1;
	}
	if (!opt || !(id = mpt_node_ident(opt)) || strcmp(id, on)) {
		printf("len %zu, style %s: option name lost (identifier length %d)\n", nlen, desc[style], opt ? opt->ident._len : -1);
		bad = 1;
	}
	mpt_node_clear(&root);
	free(sn); free(on); free(txt);
	return bad;
}
int main(void)
{
	static const size_t len[] = { 254, 255, 256, 257, 1000, 65534 };
	int bad = 0, s;
	size_t i;
	for (i = 0; i < sizeof(len) / sizeof(*len); i++) {
		for (s = 0; s < 3; s++) bad += check(len[i], s);
	}
	printf("%d failures\n", bad);
	return bad ? 1 : 0;
}

/* e1: mpt_outdata_reply() with a reply payload larger than 256 - idlen bytes:
 * memcpy() from a NULL header pointer (SEGV); the first 256-idlen payload bytes would be lost too. */
#include <stdio.h>
#include <stdlib.h>
#include <string.h>
#include <unistd.h>
#include <poll.h>
#include <sys/socket.h>
#include <sys/uio.h>
#include "meta.h"
#include "types.h"
#include "message.h"
#include "event.h"
#include "output.h"
#include "connection.h"
int main(void)
{
	static uint8_t data[300];
	static const uint8_t id[2] = { 0x80, 5 };
	int sv[2], ret;
	size_t i;
	ssize_t n;
	MPT_STRUCT(socket) s1;
	MPT_STRUCT(connection) con = MPT_CONNECTION_INIT;
	MPT_STRUCT(message) msg = MPT_MESSAGE_INIT;
	uint8_t buf[1024];
	struct pollfd p;
	
	setvbuf(stdout, 0, _IONBF, 0);
	if (socketpair(AF_UNIX, SOCK_DGRAM, 0, sv) < 0) return 77;
	s1._id = sv[1];
	if (mpt_connection_assign(&con, &s1) < 0) return 77;
	con.out._idlen = 2;
	for (i = 0; i < sizeof(data); i++) data[i] = (uint8_t) (i + 1);
	msg.base = data; msg.used = sizeof(data);
	ret = mpt_outdata_reply(&con.out, 2, id, &msg);
	printf("reply = %d\n", ret);
	p.fd = sv[0]; p.events = POLLIN; p.revents = 0;
	if (poll(&p, 1, 100) <= 0) { printf("peer got nothing\n"); return ret < 0 ? 0 : 1; }
	n = read(sv[0], buf, sizeof(buf));
	printf("peer got %zd bytes: %02x %02x %02x %02x ...\n", n, buf[0], buf[1], buf[2], buf[3]);
	return (n == 302 && buf[0] == 0x80 && buf[1] == 5 && !memcmp(buf + 2, data, 300)) ? 0 : 1;
}

/* f3: datagram connection. mpt_outdata_recv() stores the datagram 64KiB behind the
 * buffer start (and overflows the heap for datagrams > 64 bytes) while
 * mpt_connection_dispatch() reads id + payload from the buffer start:
 *   - a request with non-zero id gets no reply context and no (default) reply,
 *   - dispatch without handler "answers" with an id that is NOT marked as reply.
 * Run with argument "big" to see the heap overflow (ASan). */
#include <stdio.h>
#include <stdlib.h>
#include <string.h>
#include <unistd.h>
#include <poll.h>
#include <sys/socket.h>
#include <sys/uio.h>
#include "meta.h"
#include "types.h"
#include "message.h"
#include "event.h"
#include "output.h"
#include "connection.h"

static MPT_INTERFACE(reply_context) *seen;
static uint8_t seenData[16]; static size_t seenLen;
static int handler(void *arg, MPT_STRUCT(event) *ev)
{
	(void) arg;
	seen = ev->reply;
	if (ev->msg) {
		MPT_STRUCT(message) tmp = *ev->msg;
		seenLen = mpt_message_read(&tmp, sizeof(seenData), seenData);
	}
	return 7; /* no explicit answer -> default reply expected */
}
static int sv[2];
static ssize_t peerRead(uint8_t *buf, size_t max)
{
	struct pollfd p;
	ssize_t n;
	size_t i;
	p.fd = sv[0]; p.events = POLLIN; p.revents = 0;
	if (poll(&p, 1, 100) <= 0) { printf("peer got nothing\n"); return -1; }
	n = read(sv[0], buf, max);
	printf("peer got %zd bytes:", n);
	for (i = 0; (ssize_t) i < n && i < 12; i++) printf(" %02x", buf[i]);
	printf("\n");
	return n;
}
int main(int argc, char **argv)
{
	MPT_STRUCT(socket) s1;
	MPT_STRUCT(connection) con = MPT_CONNECTION_INIT;
	uint8_t buf[1024];
	ssize_t n;
	int ret, bad = 0;
	
	setvbuf(stdout, 0, _IONBF, 0);
	if (socketpair(AF_UNIX, SOCK_DGRAM, 0, sv) < 0) return 77;
	s1._id = sv[1];
	if (mpt_connection_assign(&con, &s1) < 0) return 77;
	con.out._idlen = 2;
	
	if (argc > 1) {
		/* 200 byte request: recvmsg() writes behind the 64KiB+64 allocation */
		char big[200];
		memset(big, 1, sizeof(big)); big[0] = 0; big[1] = 5;
		if (write(sv[0], big, sizeof(big)) < 0) return 77;
		ret = mpt_outdata_recv(&con.out);
		printf("recv = %d\n", ret);
		return 0;
	}
	/* (a) request id 5 with handler that does not answer */
	if (write(sv[0], "\x00\x05hello", 7) != 7) return 77;
	ret = mpt_outdata_recv(&con.out);
	printf("recv = %d\n", ret);
	ret = mpt_connection_dispatch(&con, handler, 0);
	printf("dispatch = %d, reply context = %p, payload len = %zu '%.*s'\n", ret, (void *) seen, seenLen, (int) seenLen, seenData);
	n = peerRead(buf, sizeof(buf));
	if (!seen || n < 2 || buf[0] != 0x80 || buf[1] != 5) {
		printf("FAIL: request 5 got no (default) reply with id 0x8005\n");
		bad = 1;
	}
	/* (b) request id 6, dispatch without handler: must answer with id 0x8006 */
	if (write(sv[0], "\x00\x06hello", 7) != 7) return 77;
	mpt_outdata_recv(&con.out);
	ret = mpt_connection_dispatch(&con, 0, 0);
	printf("dispatch(no handler) = %d\n", ret);
	n = peerRead(buf, sizeof(buf));
	if (n < 2 || buf[0] != 0x80 || buf[1] != 6) {
		printf("FAIL: answer for discarded request 6 does not carry id 0x8006 (reply mark missing / wrong id)\n");
		bad = 1;
	}
	mpt_connection_fini(&con);
	return bad;
}

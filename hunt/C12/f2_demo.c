/* f2: mpt_stream_input(): default reply for an unanswered request echoes the request
 * (own id + payload) instead of a default answer, and the reply context is not disarmed:
 * a later reply attempt for the already answered request is accepted and sent. */
#include <stdio.h>
#include <stdlib.h>
#include <string.h>
#include <unistd.h>
#include <poll.h>
#include <sys/socket.h>
#include <sys/uio.h>
#include "meta.h"
#include "convert.h"
#include "types.h"
#include "message.h"
#include "event.h"
#include "output.h"
#include "connection.h"
#include "stream.h"
#include "notify.h"

static MPT_INTERFACE(reply_context) *saved;
static int handler(void *arg, MPT_STRUCT(event) *ev)
{
	(void) arg;
	saved = ev->reply;
	return 7; /* no explicit answer */
}
static int peerGot;
static uint8_t peerBuf[4][256]; static size_t peerLen[4];
static int peerMsg(void *arg, const MPT_STRUCT(message) *msg)
{
	MPT_STRUCT(message) tmp = *msg;
	size_t i;
	(void) arg;
	if (peerGot >= 4) return 0;
	peerLen[peerGot] = mpt_message_read(&tmp, sizeof(peerBuf[0]), peerBuf[peerGot]);
	printf("peer got message %d, len=%zu:", peerGot, peerLen[peerGot]);
	for (i = 0; i < peerLen[peerGot]; i++) printf(" %02x", peerBuf[peerGot][i]);
	printf("\n");
	++peerGot;
	return 0;
}
static MPT_STRUCT(stream) peer = MPT_STREAM_INIT;
static MPT_INTERFACE(input) *in;
static void drain(void)
{
	int ret;
	in->_vptr->next(in, POLLIN | POLLOUT); /* flush replies */
	if (mpt_stream_poll(&peer, POLLIN, 50) > 0) {
		do { ret = mpt_stream_dispatch(&peer, peerMsg, 0); } while (ret > 0 && (ret & MPT_EVENTFLAG(Retry)));
	}
}
int main(void)
{
	static const uint8_t id[2] = { 0, 5 };
	int sv[2], ret, bad = 0;
	MPT_STRUCT(socket) s0, s1;
	
	setvbuf(stdout, 0, _IONBF, 0);
	if (socketpair(AF_UNIX, SOCK_STREAM, 0, sv) < 0) return 77;
	s0._id = sv[0]; s1._id = sv[1];
	peer._wd._enc = mpt_message_encoder(MPT_ENUM(EncodingCobs));
	peer._rd._dec = mpt_message_decoder(MPT_ENUM(EncodingCobs));
	if (mpt_stream_dopen(&peer, &s0, MPT_STREAMFLAG(RdWr) | MPT_STREAMFLAG(Buffer)) < 0) return 77;
	in = mpt_stream_input(&s1, MPT_STREAMFLAG(Write) | MPT_STREAMFLAG(RdWr) | MPT_STREAMFLAG(Buffer), MPT_ENUM(EncodingCobs), 2);
	if (!in) return 77;
	
	/* request id 5, payload "hello" */
	mpt_stream_push(&peer, 2, id);
	mpt_stream_push(&peer, 5, "hello");
	mpt_stream_push(&peer, 0, 0);
	mpt_stream_flush(&peer);
	
	in->_vptr->next(in, POLLIN);
	ret = in->_vptr->dispatch(in, handler, 0);
	printf("dispatch = %d\n", ret);
	drain();
	
	if (peerGot != 1 || peerBuf[0][0] != 0x80 || peerBuf[0][1] != 5) {
		printf("FAIL: no single default reply with id 0x8005\n");
		return 1;
	}
	/* a default reply is { MPT_MESGTYPE(Answer), code } as built (and dropped) by streamMessage() */
	if (peerLen[0] != 2 + sizeof(MPT_STRUCT(msgtype)) || peerBuf[0][2] != MPT_MESGTYPE(Answer)) {
		printf("FAIL: default reply payload is the echoed request (id + data), not a default answer\n");
		bad = 1;
	}
	/* request 5 is answered: further reply attempts must be refused */
	ret = mpt_context_reply(saved, 1, "%s", "second answer");
	printf("second reply attempt = %d\n", ret);
	drain();
	if (ret >= 0 || peerGot != 1) {
		printf("FAIL: second reply for request 5 accepted (%d replies on the wire)\n", peerGot);
		bad = 1;
	}
	return bad;
}

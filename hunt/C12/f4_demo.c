/* f4: mpt_reply_deferrable(): releasing the context while a deferred handle is still
 * outstanding silently drops the request that is armed on the context itself
 * (no default reply although the transport is attached at release time), and the
 * deferred request is dropped as well. Variant: any ref()/unref() pair on the
 * context detaches the transport, later explicit replies "succeed" without being sent. */
#include <stdio.h>
#include <stdlib.h>
#include <string.h>
#include <sys/uio.h>
#include "meta.h"
#include "types.h"
#include "message.h"
#include "event.h"

static int nsent;
static int tsend(void *ptr, const MPT_STRUCT(reply_data) *rd, const MPT_STRUCT(message) *msg)
{
	(void) ptr;
	printf("  transport: reply id=%02x%02x (%s)\n", rd->val[0], rd->val[1], msg ? "explicit" : "default");
	++nsent;
	return 0;
}
int main(void)
{
	MPT_INTERFACE(metatype) *mt;
	MPT_INTERFACE(reply_context) *rc = 0;
	MPT_INTERFACE(reply_context_detached) *d;
	MPT_STRUCT(reply_data) *rd = 0;
	MPT_STRUCT(msgtype) hdr = { MPT_MESGTYPE(Answer), 0 };
	MPT_STRUCT(message) msg = MPT_MESSAGE_INIT;
	static const uint8_t idA[2] = { 0, 0xA }, idB[2] = { 0, 0xB }, idC[2] = { 0, 0xC };
	int token, ret, bad = 0;
	
	setvbuf(stdout, 0, _IONBF, 0);
	msg.base = &hdr; msg.used = sizeof(hdr);
	
	/* history 1: arm A, defer A, arm B, release context, release deferred handle */
	mt = mpt_reply_deferrable(2, tsend, &token);
	MPT_metatype_convert(mt, MPT_ENUM(TypeReplyPtr), &rc);
	MPT_metatype_convert(mt, MPT_ENUM(TypeReplyDataPtr), &rd);
	printf("arm A, defer A, arm B\n");
	mpt_reply_set(rd, 2, idA);
	d = rc->_vptr->defer(rc);
	mpt_reply_set(rd, 2, idB);
	printf("release context (B unanswered, transport attached)\n");
	mt->_vptr->unref(mt);
	if (nsent != 1) {
		printf("FAIL: no default reply for request B on context release\n");
		bad = 1;
	}
	printf("release deferred handle of A\n");
	d->_vptr->reply(d, 0);
	printf("replies seen by transport: %d\n", nsent);
	
	/* history 2: second reference is taken and dropped, owner still holds the context */
	nsent = 0;
	mt = mpt_reply_deferrable(2, tsend, &token);
	MPT_metatype_convert(mt, MPT_ENUM(TypeReplyPtr), &rc);
	MPT_metatype_convert(mt, MPT_ENUM(TypeReplyDataPtr), &rd);
	mt->_vptr->addref(mt);
	mt->_vptr->unref(mt);
	printf("arm C, explicit reply\n");
	mpt_reply_set(rd, 2, idC);
	ret = rc->_vptr->reply(rc, &msg);
	printf("reply = %d, replies seen by transport: %d\n", ret, nsent);
	if (ret >= 0 && nsent != 1) {
		printf("FAIL: reply for request C reported success but never reached the transport\n");
		bad = 1;
	}
	mt->_vptr->unref(mt);
	return bad;
}

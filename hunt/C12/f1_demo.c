/* f1: mpt_connection_dispatch() on a stream backed connection passes an uninitialised
 * struct _streamWrapper to streamWrapper(): the request is never dispatched/answered,
 * the process dereferences stack garbage (ASan: SEGV in streamWrapper). */
#include <stdio.h>
#include <stdlib.h>
#include <string.h>
#include <unistd.h>
#include <poll.h>
#include <sys/socket.h>
#include <sys/uio.h>
#include "meta.h"
#include "convert.h"
#include "message.h"
#include "event.h"
#include "output.h"
#include "connection.h"
#include "stream.h"

static int calls;
static int handler(void *arg, MPT_STRUCT(event) *ev)
{
	(void) arg;
	++calls;
	printf("handler called, reply context %p\n", (void *) ev->reply);
	return 0; /* no explicit answer -> default reply expected */
}
static int peerGot;
static uint8_t peerBuf[256];
static size_t peerLen;
static int peerMsg(void *arg, const MPT_STRUCT(message) *msg)
{
	MPT_STRUCT(message) tmp = *msg;
	(void) arg;
	peerLen = mpt_message_read(&tmp, sizeof(peerBuf), peerBuf);
	++peerGot;
	return 0;
}
int main(void)
{
	int sv[2];
	MPT_STRUCT(socket) s0, s1;
	MPT_STRUCT(stream) peer = MPT_STREAM_INIT, init = MPT_STREAM_INIT, *srm;
	MPT_STRUCT(connection) con = MPT_CONNECTION_INIT;
	uint8_t id[2] = { 0, 5 };
	size_t i;
	int ret;
	
	setvbuf(stdout, 0, _IONBF, 0);
	if (socketpair(AF_UNIX, SOCK_STREAM, 0, sv) < 0) return 77;
	s0._id = sv[0]; s1._id = sv[1];
	peer._wd._enc = mpt_message_encoder(MPT_ENUM(EncodingCobs));
	peer._rd._dec = mpt_message_decoder(MPT_ENUM(EncodingCobs));
	if (mpt_stream_dopen(&peer, &s0, MPT_STREAMFLAG(RdWr) | MPT_STREAMFLAG(Buffer)) < 0) return 77;
	/* same setup mpt_connection_open() performs for a stream target */
	if (!(srm = malloc(sizeof(*srm)))) return 77;
	*srm = init;
	srm->_wd._enc = mpt_message_encoder(MPT_ENUM(EncodingCobs));
	srm->_rd._dec = mpt_message_decoder(MPT_ENUM(EncodingCobs));
	if (mpt_stream_dopen(srm, &s1, MPT_STREAMFLAG(RdWr) | MPT_STREAMFLAG(Buffer)) < 0) return 77;
	con.out.buf._buf = (void *) srm;
	con.out._idlen = 2;
	
	/* peer sends request with id 5 */
	mpt_stream_push(&peer, 2, id);
	mpt_stream_push(&peer, 5, "hello");
	mpt_stream_push(&peer, 0, 0);
	mpt_stream_flush(&peer);
	
	mpt_stream_poll(srm, POLLIN, 100);
	ret = mpt_connection_dispatch(&con, handler, 0);
	printf("dispatch = %d, handler calls = %d\n", ret, calls);
	mpt_stream_flush(srm);
	mpt_stream_poll(&peer, POLLIN, 100);
	mpt_stream_dispatch(&peer, peerMsg, 0);
	printf("peer got %d message(s), len %zu:", peerGot, peerLen);
	for (i = 0; i < peerLen; i++) printf(" %02x", peerBuf[i]);
	printf("\n");
	/* expected: handler called once, exactly one default reply carrying id 0x8005 */
	return (calls == 1 && peerGot == 1 && peerLen >= 2 && peerBuf[0] == 0x80 && peerBuf[1] == 5) ? 0 : 1;
}

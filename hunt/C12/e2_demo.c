/* mpt_stream_sync: two outstanding requests, one reply arrives -> first call returns without
 * dispatching, second call dispatches the reply and then spins forever on the same message. */
#include <stdio.h>
#include <stdlib.h>
#include <string.h>
#include <unistd.h>
#include <signal.h>
#include <sys/socket.h>
#include <sys/uio.h>
#include "meta.h"
#include "convert.h"
#include "message.h"
#include "event.h"
#include "output.h"
#include "connection.h"
#include "stream.h"

static int calls[3];
static int onReply(void *arg, void *m)
{
	int i = (int)(long) arg;
	if (!m) { return 0; }
	++calls[i];
	printf("reply handler for request %d called\n", i);
	return 0;
}
static void onAlarm(int sig)
{
	(void) sig;
	printf("FAIL: mpt_stream_sync() did not return within 3s (calls: %d, %d)\n", calls[1], calls[2]);
	_exit(2);
}
int main(void)
{
	int sv[2];
	MPT_STRUCT(socket) s1;
	MPT_STRUCT(stream) srm = MPT_STREAM_INIT;
	MPT_STRUCT(array) wait = MPT_ARRAY_INIT;
	MPT_STRUCT(command) *cmd;
	int ret, bad = 0;
	setvbuf(stdout, 0, _IONBF, 0);
	if (socketpair(AF_UNIX, SOCK_STREAM, 0, sv) < 0) return 77;
	s1._id = sv[1];
	srm._wd._enc = mpt_message_encoder(MPT_ENUM(EncodingCobs));
	srm._rd._dec = mpt_message_decoder(MPT_ENUM(EncodingCobs));
	if (mpt_stream_dopen(&srm, &s1, MPT_STREAMFLAG(RdWr) | MPT_STREAMFLAG(Buffer)) < 0) return 79;
	
	cmd = mpt_command_reserve(&wait, 2); cmd->cmd = onReply; cmd->arg = (void *) 1L; /* id 1 */
	cmd = mpt_command_reserve(&wait, 2); cmd->cmd = onReply; cmd->arg = (void *) 2L; /* id 2 */
	/* COBS frame of reply { 0x80, 0x02, 'o','k' } */
	if (write(sv[0], "\x05\x80\x02\x6f\x6b\x00", 6) != 6) return 77;
	signal(SIGALRM, onAlarm);
	alarm(3);
	ret = mpt_stream_sync(&srm, 2, &wait, 100);
	printf("sync #1 = %d, calls = %d, %d\n", ret, calls[1], calls[2]);
	if (calls[2] != 1) { printf("FAIL: complete reply on the wire was not dispatched by sync #1\n"); bad = 1; }
	ret = mpt_stream_sync(&srm, 2, &wait, 100);
	printf("sync #2 = %d, calls = %d, %d\n", ret, calls[1], calls[2]);
	return (bad || calls[1] != 0 || calls[2] != 1 || ret != 1) ? 1 : 0;
}

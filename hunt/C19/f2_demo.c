/*
 * f2: text argument iterator (mpt_iterator_string) reports a further element for
 *     trailing white space; reading it as a number "succeeds" without a value,
 *     mpt_iterator_consume() then delivers indeterminate stack content.
 *
 * build (from worktree root WT):
 *   gcc -IWT/mptcore findings/f2_demo.c -o f2_demo \
 *       -LWT/_build/mptcore -lmptcore -Wl,-rpath,WT/_build/mptcore
 */
#include <stdio.h>
#include <string.h>

#include "meta.h"
#include "types.h"
#include "convert.h"

/* make the content of the dead stack area visible */
static void dirty(int c)
{
	volatile char buf[4096];
	memset((void *) buf, c, sizeof(buf));
}
static int walk(const char *txt, int fill, double *out, int max)
{
	MPT_INTERFACE(metatype) *src;
	MPT_INTERFACE(iterator) *it = 0;
	int n = 0;
	
	if (!(src = mpt_iterator_string(txt, 0))
	    || MPT_metatype_convert(src, MPT_ENUM(TypeIteratorPtr), &it) < 0
	    || !it) {
		return -1;
	}
	while (n < max) {
		double d = -777;
		int ret;
		dirty(fill);
		if ((ret = mpt_iterator_consume(it, 'd', &d)) < 0) {
			break;
		}
		out[n++] = d;
	}
	src->_vptr->unref(src);
	return n;
}
int main(void)
{
	double a[8], b[8];
	int na, nb, i, bad = 0;
	
	/* two numbers followed by two blanks: denotes the elements 3 and 2 */
	na = walk("3 2  ", 0x41, a, 8);
	nb = walk("3 2  ", 0x42, b, 8);
	
	printf("\"3 2  \": %d elements consumed:", na);
	for (i = 0; i < na; i++) printf(" %g", a[i]);
	printf("\n\"3 2  \": %d elements consumed:", nb);
	for (i = 0; i < nb; i++) printf(" %g", b[i]);
	fputc('\n', stdout);
	
	if (na != 2 || nb != 2) {
		puts("FAIL: more elements delivered than the text denotes");
		++bad;
	}
	if (na == nb && na > 2 && a[2] != b[2]) {
		puts("FAIL: replayed sequence differs (value of 3rd element is indeterminate)");
		++bad;
	}
	/* same thing without consume helper: conversion reports success but sets nothing */
	{
		MPT_INTERFACE(metatype) *src = mpt_iterator_string("  ", 0);
		MPT_INTERFACE(iterator) *it = 0;
		const MPT_STRUCT(value) *val;
		double d = -777;
		int ret;
		MPT_metatype_convert(src, MPT_ENUM(TypeIteratorPtr), &it);
		if ((val = it->_vptr->value(it))
		    && (ret = mpt_value_convert(val, 'd', &d)) >= 0) {
			printf("\"  \": element converted to double, ret = %d, target still %g\n", ret, d);
			puts("FAIL: blank text yields a numeric element without value");
			++bad;
		}
		src->_vptr->unref(src);
	}
	return bad ? 1 : 0;
}

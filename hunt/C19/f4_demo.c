/*
 * f4: value source descriptions with arbitrary text after the closing
 *     parenthesis are accepted by mpt_iterator_create().
 *
 * build (from worktree root WT):
 *   gcc -IWT/mptcore -IWT/mptplot findings/f4_demo.c -o f4_demo \
 *       -LWT/_build/mptplot -lmptplot -LWT/_build/mptcore -lmptcore \
 *       -Wl,-rpath,WT/_build/mptplot -Wl,-rpath,WT/_build/mptcore
 */
#include <stdio.h>

#include "meta.h"
#include "types.h"
#include "convert.h"
#include "values.h"

int main(void)
{
	static const char *malformed[] = {
		"lin(3:0 1)xyz",
		"lin(3:0 1) 5 6",
		"linear(3:0 1)(7:2 3)",
		"range(0 1:0.5))",
		"range(0 1:0.5):0.1",
		"fact(2:3)junk",
		"fact(2:3:3:1):4",
		0
	};
	/* control group: defects inside the parentheses are refused */
	static const char *refused[] = {
		"lin(3:0 1",
		"lin(3:0 1 2)",
		"lin(3:0 x)",
		"range(0 1:0.5",
		"fact(2:3:junk)",
		0
	};
	int i, bad = 0;
	
	for (i = 0; refused[i]; i++) {
		MPT_INTERFACE(metatype) *mt;
		if ((mt = mpt_iterator_create(refused[i]))) {
			printf("control accepted: \"%s\"\n", refused[i]);
			mt->_vptr->unref(mt);
		}
	}
	for (i = 0; malformed[i]; i++) {
		MPT_INTERFACE(metatype) *mt;
		MPT_INTERFACE(iterator) *it = 0;
		if (!(mt = mpt_iterator_create(malformed[i]))) {
			printf("refused : \"%s\"\n", malformed[i]);
			continue;
		}
		++bad;
		printf("ACCEPTED: \"%s\" ->", malformed[i]);
		MPT_metatype_convert(mt, MPT_ENUM(TypeIteratorPtr), &it);
		if (it) do {
			const MPT_STRUCT(value) *val;
			double d;
			if (!(val = it->_vptr->value(it)) || mpt_value_convert(val, 'd', &d) < 0) {
				break;
			}
			printf(" %g", d);
		} while (it->_vptr->advance(it) > 0);
		fputc('\n', stdout);
		mt->_vptr->unref(mt);
	}
	if (bad) {
		printf("FAIL: %d malformed descriptions accepted\n", bad);
		return 1;
	}
	return 0;
}

/*
 * f1: text argument iterator (mpt_iterator_string) loses characters when its
 *     elements are read as keys ('k') and are separated by a non-space separator.
 *
 * build (from worktree root WT):
 *   gcc -IWT/mptcore findings/f1_demo.c -o f1_demo \
 *       -LWT/_build/mptcore -lmptcore -Wl,-rpath,WT/_build/mptcore
 */
#include <stdio.h>
#include <string.h>

#include "meta.h"
#include "types.h"
#include "convert.h"

int main(void)
{
	static const char *expect[] = { "alpha", "beta", "gamma" };
	MPT_INTERFACE(metatype) *src;
	MPT_INTERFACE(iterator) *it = 0;
	int n = 0, bad = 0, adv;
	
	/* default separators are " ,;/:" */
	if (!(src = mpt_iterator_string("alpha,beta,gamma", 0))
	    || MPT_metatype_convert(src, MPT_ENUM(TypeIteratorPtr), &it) < 0
	    || !it) {
		fputs("setup failed\n", stderr);
		return 2;
	}
	/* documented loop: read current value, advance, stop when advance reports no further element */
	do {
		const MPT_STRUCT(value) *val;
		const char *key = 0;
		int ret;
		
		if (!(val = it->_vptr->value(it))) {
			break;
		}
		if ((ret = mpt_value_convert(val, 'k', &key)) < 0 || !key) {
			printf("element %d: conversion error %d\n", n, ret);
			++bad;
		}
		else {
			printf("element %d: '%s'", n, key);
			if (n >= 3 || strncmp(key, expect[n], strlen(expect[n]))) {
				printf("   <-- expected '%s'", n < 3 ? expect[n] : "(none)");
				++bad;
			}
			fputc('\n', stdout);
		}
		++n;
	} while ((adv = it->_vptr->advance(it)) > 0);
	
	if (n != 3) {
		printf("visited %d elements, expected 3\n", n);
		++bad;
	}
	src->_vptr->unref(src);
	
	if (bad) {
		puts("FAIL: key elements of text iterator are not the ones the text denotes");
		return 1;
	}
	puts("ok");
	return 0;
}

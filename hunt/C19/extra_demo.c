/*
 * additional (lower priority) observations, see additional.txt
 *   E: range element count truncated by floating point division
 *   F: linear source with finite bounds whose difference overflows yields NaN/inf
 *   G: polynomial with > 128 coefficients silently truncated; malformed tail accepted
 *
 * build (from worktree root WT):
 *   gcc -IWT/mptcore -IWT/mptplot findings/extra_demo.c -o extra_demo \
 *       -LWT/_build/mptplot -lmptplot -LWT/_build/mptcore -lmptcore \
 *       -Wl,-rpath,WT/_build/mptplot -Wl,-rpath,WT/_build/mptcore
 */
#include <stdio.h>
#include <string.h>
#include <math.h>

#include "meta.h"
#include "types.h"
#include "array.h"
#include "convert.h"
#include "values.h"

static int walk(const char *name, MPT_INTERFACE(metatype) *mt, double *out, int max)
{
	MPT_INTERFACE(iterator) *it = 0;
	int n = 0;
	printf("%-28s:", name);
	if (!mt || MPT_metatype_convert(mt, MPT_ENUM(TypeIteratorPtr), &it) < 0 || !it) {
		puts(" refused");
		return -1;
	}
	do {
		const MPT_STRUCT(value) *val;
		if (!(val = it->_vptr->value(it)) || n >= max
		    || mpt_value_convert(val, 'd', out + n) < 0) {
			break;
		}
		printf(" %g", out[n++]);
	} while (it->_vptr->advance(it) > 0);
	fputc('\n', stdout);
	mt->_vptr->unref(mt);
	return n;
}
int main(void)
{
	MPT_STRUCT(array) grid = MPT_ARRAY_INIT;
	double g[] = { 0, 1, 2, 3 };
	double v[32];
	char buf[1024];
	int n, i, len, bad = 0;
	
	/* E: same kind of description, end point present or missing by rounding luck */
	n = walk("range(0 0.4:0.1)", mpt_iterator_create("range(0 0.4:0.1)"), v, 32);
	if (n != 5) { puts("  unexpected"); ++bad; }
	n = walk("range(0 0.3:0.1)", mpt_iterator_create("range(0 0.3:0.1)"), v, 32);
	if (n != 4) { puts("  FAIL(E): 0.3 missing, 0.3/0.1 = 2.9999999999999996 truncated to 2"); ++bad; }
	n = walk("range(0 0.7:0.1)", mpt_iterator_create("range(0 0.7:0.1)"), v, 32);
	if (n != 8) { puts("  FAIL(E): 0.7 missing"); ++bad; }
	
	/* F: 2 equal steps from -1e308 to 1e308 are -1e308 0 1e308 */
	n = walk("linear(2:-1e308 1e308)", mpt_iterator_create("linear(2:-1e308 1e308)"), v, 32);
	if (n != 3 || v[0] != -1e308 || v[1] != 0 || v[2] != 1e308) {
		puts("  FAIL(F): finite bounds, non-finite elements (step = (end - start) / n overflows, 0 * inf = NaN)");
		++bad;
	}
	
	/* G: x + 5 written with 127 leading zero coefficients (129 total) */
	mpt_array_set(&grid, mpt_type_traits('d'), sizeof(g), g, 0);
	for (i = 0, len = 0; i < 127; i++) len += sprintf(buf + len, "0 ");
	sprintf(buf + len, "1 5");
	n = walk("poly, 129 coefficients x+5", mpt_iterator_poly(buf, &grid), v, 32);
	if (n != 4 || v[0] != 5 || v[3] != 8) {
		puts("  FAIL(G): coefficients after the 128th dropped without error");
		++bad;
	}
	n = walk("poly \"1 x\"", mpt_iterator_poly("1 x", &grid), v, 32);
	if (n >= 0) {
		puts("  FAIL(G): malformed coefficient list accepted");
		++bad;
	}
	mpt_array_clone(&grid, 0);
	return bad ? 1 : 0;
}

/*
 * f3: factor value source created from iterator arguments (count, base) does not
 *     default the factor to the base (documented, and done for the text form).
 *
 * build (from worktree root WT):
 *   gcc -IWT/mptcore -IWT/mptplot findings/f3_demo.c -o f3_demo \
 *       -LWT/_build/mptplot -lmptplot -LWT/_build/mptcore -lmptcore \
 *       -Wl,-rpath,WT/_build/mptplot -Wl,-rpath,WT/_build/mptcore
 */
#include <stdio.h>
#include <string.h>

#include "meta.h"
#include "types.h"
#include "convert.h"
#include "values.h"

static MPT_INTERFACE(iterator) *iter(MPT_INTERFACE(metatype) *mt)
{
	MPT_INTERFACE(iterator) *it = 0;
	if (mt) MPT_metatype_convert(mt, MPT_ENUM(TypeIteratorPtr), &it);
	return it;
}
static int walk(const char *name, MPT_INTERFACE(metatype) *mt, double *out, int max)
{
	MPT_INTERFACE(iterator) *it;
	int n = 0;
	printf("%-28s:", name);
	if (!(it = iter(mt))) {
		puts(" refused");
		return -1;
	}
	do {
		const MPT_STRUCT(value) *val;
		if (!(val = it->_vptr->value(it)) || n >= max
		    || mpt_value_convert(val, 'd', out + n) < 0) {
			break;
		}
		printf(" %g", out[n++]);
	} while (it->_vptr->advance(it) > 0);
	fputc('\n', stdout);
	mt->_vptr->unref(mt);
	return n;
}
static MPT_INTERFACE(metatype) *factor_args(const char *args)
{
	MPT_INTERFACE(metatype) *src, *ret;
	MPT_INTERFACE(iterator) *it;
	MPT_STRUCT(value) val = MPT_VALUE_INIT(0, 0);
	
	if (!(src = mpt_iterator_string(args, 0)) || !(it = iter(src))) {
		return 0;
	}
	MPT_value_set(&val, MPT_ENUM(TypeIteratorPtr), &it);
	ret = _mpt_iterator_factor(&val);
	src->_vptr->unref(src);
	return ret;
}
int main(void)
{
	double txt[16], arg[16];
	int nt, na, bad = 0;
	
	/* 3 multiplications, base 2, factor omitted -> 0 2 4 8 */
	nt = walk("text  \"fact(3:2)\"", mpt_iterator_create("fact(3:2)"), txt, 16);
	na = walk("args  (3, 2)", factor_args("3 2"), arg, 16);
	if (nt != na || memcmp(txt, arg, nt * sizeof(*txt))) {
		puts("FAIL: same parameters, different sequence (factor 10 used instead of base)");
		++bad;
	}
	/* explicit factor works for both */
	nt = walk("text  \"fact(3:2:2)\"", mpt_iterator_create("fact(3:2:2)"), txt, 16);
	na = walk("args  (3, 2, 2)", factor_args("3 2 2"), arg, 16);
	
	/* base without usable default factor is refused as text, accepted as arguments */
	nt = walk("text  \"fact(3:-2)\"", mpt_iterator_create("fact(3:-2)"), txt, 16);
	na = walk("args  (3, -2)", factor_args("3 -2"), arg, 16);
	if ((nt < 0) != (na < 0)) {
		puts("FAIL: invalid default factor (base <= 0) only refused for text form");
		++bad;
	}
	return bad ? 1 : 0;
}

/*
 * f2: mpt_array_slice() grows a typed buffer but ignores a failing
 *     element constructor; the unconstructed slots are counted as elements
 *     and later handed to the finalizer (here: stale bytes of elements
 *     that were already finalized by mpt_buffer_cut -> second finalization).
 */
#include <stdio.h>
#include <stdlib.h>
#include "array.h"
#include "types.h"

struct elem { long id; char *mem; };

static int fail_ctor = 0;
static long next_id = 0;
static int constructed[16], finalized[16];

static int elem_init(void *ptr, const void *src)
{
	struct elem *e = ptr;
	(void) src;
	if (fail_ctor) {
		return MPT_ERROR(BadOperation); /* nothing created */
	}
	e->id = next_id++;
	e->mem = malloc(8);
	++constructed[e->id];
	return 0;
}
static void elem_fini(void *ptr)
{
	struct elem *e = ptr;
	/* a real type frees e->mem on each call -> double free */
	if (++finalized[e->id] == 1) free(e->mem);
}
int main(void)
{
	static const MPT_STRUCT(type_traits) traits = { elem_init, elem_fini, sizeof(struct elem) };
	MPT_STRUCT(array) a = MPT_ARRAY_INIT;
	void *ptr;
	long i;
	int err = 0;
	
	/* three default-constructed elements (id 0,1,2) */
	if (!mpt_array_set(&a, &traits, 3 * sizeof(struct elem), 0, 0)) return 2;
	/* remove elements 1 and 2 (finalized once, as required) */
	if (mpt_buffer_cut(a._buf, sizeof(struct elem), 0) < 0) return 3;
	
	/* resize back to three elements while constructor fails */
	fail_ctor = 1;
	ptr = mpt_array_slice(&a, 0, 3 * sizeof(struct elem));
	fail_ctor = 0;
	printf("slice = %p, elements in buffer = %zu, constructed = %ld\n",
	       ptr, a._buf->_used / sizeof(struct elem), next_id);
	
	/* release last handle */
	mpt_array_clone(&a, 0);
	
	for (i = 0; i < next_id; i++) {
		printf("element %ld: constructed %d, finalized %d\n", i, constructed[i], finalized[i]);
		if (constructed[i] != finalized[i]) err = 1;
	}
	return err;
}

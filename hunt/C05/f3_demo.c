/*
 * f3: shared typed buffer whose element type has a finalizer but no
 *     copy/default constructor is duplicated byte-wise on detach;
 *     every element is finalized twice.
 */
#include <stdio.h>
#include <stdlib.h>
#include "array.h"
#include "types.h"

struct handle { int *res; long id; };

static int finalized[4];
static void handle_fini(void *ptr)
{
	struct handle *h = ptr;
	if (h->res) {
		/* a real type would free(h->res) on every call -> double free */
		if (++finalized[h->id] == 1) free(h->res);
	}
}
int main(void)
{
	/* type with destruction behaviour only (same shape as the traits of mpt::reference_array) */
	static const MPT_STRUCT(type_traits) traits = { 0, handle_fini, sizeof(struct handle) };
	MPT_STRUCT(array) a = MPT_ARRAY_INIT, b = MPT_ARRAY_INIT;
	struct handle h[2], add;
	int i, err = 0;
	
	for (i = 0; i < 2; i++) { h[i].res = malloc(sizeof(int)); h[i].id = i; }
	add.res = malloc(sizeof(int)); add.id = 2;
	
	/* ownership of h[0], h[1] moves into typed buffer */
	if (!mpt_array_set(&a, &traits, sizeof(h), h, 0)) return 2;
	/* second handle for same buffer -> shared */
	if (mpt_array_clone(&b, &a) < 0) return 3;
	/* modification through second handle forces copy of shared buffer */
	if (!mpt_array_set(&b, &traits, sizeof(add), &add, 2)) {
		fputs("copy of shared buffer refused (would be fine)\n", stderr);
		free(add.res);
	}
	/* release both handles */
	mpt_array_clone(&a, 0);
	mpt_array_clone(&b, 0);
	
	for (i = 0; i < 3; i++) {
		printf("element %d finalized %d time(s)\n", i, finalized[i]);
		if (finalized[i] != 1) err = 1;
	}
	return err;
}

/*
 * f4: mpt_array_reserve() keeps the elements of a private buffer when the
 *     new type shares the finalizer with the old one, but does not require
 *     equal element size. Kept data is re-interpreted with the wrong stride:
 *     elements are never finalized (and are overwritten without finalization).
 */
#include <stdio.h>
#include <stdlib.h>
#include "array.h"
#include "types.h"

/* both types start with the owned resource and use the same finalizer */
struct ref   { long *res; };
struct named { long *res; long tag; };

static int constructed[16], finalized[16];
static long next_id = 0;

static void res_fini(void *ptr)
{
	struct ref *r = ptr;
	if (r->res) {
		++finalized[*r->res];
		free(r->res);
		r->res = 0;
	}
}
static int ref_init(void *ptr, const void *src)
{
	struct ref *r = ptr;
	(void) src;
	r->res = malloc(sizeof(*r->res));
	*r->res = next_id++;
	++constructed[*r->res];
	return 0;
}
static int named_init(void *ptr, const void *src)
{
	struct named *n = ptr;
	n->tag = 0;
	return ref_init(ptr, src);
}
int main(void)
{
	static const MPT_STRUCT(type_traits) ref_traits   = { ref_init,   res_fini, sizeof(struct ref) };
	static const MPT_STRUCT(type_traits) named_traits = { named_init, res_fini, sizeof(struct named) };
	MPT_STRUCT(array) a = MPT_ARRAY_INIT;
	MPT_STRUCT(buffer) *buf;
	long i;
	int err = 0;
	
	/* three elements of first type (id 0,1,2) */
	if (!mpt_array_set(&a, &ref_traits, 3 * sizeof(struct ref), 0, 0)) return 2;
	
	/* switch element type: different size, same finalizer */
	if (!(buf = mpt_array_reserve(&a, 2 * sizeof(struct named), &named_traits))) return 3;
	printf("after reserve: used = %zu bytes, element size = %zu\n", buf->_used, buf->_content_traits->size);
	
	/* assign second element of new type (id 3): overwrites old element 2 */
	if (!mpt_array_set(&a, &named_traits, sizeof(struct named), 0, 1)) return 4;
	
	/* release last handle */
	mpt_array_clone(&a, 0);
	
	for (i = 0; i < next_id; i++) {
		printf("element %ld: constructed %d, finalized %d\n", i, constructed[i], finalized[i]);
		if (constructed[i] != finalized[i]) err = 1;
	}
	return err;
}

/*
 * f1: mpt::buffer::move() transfers raw bytes between buffers of different
 *     content type. Bytes that never were elements are finalized (a),
 *     and live elements end up in a buffer that never finalizes them (b).
 */
#include <cstdio>
#include <cstring>
#include "array.h"
#include "types.h"

using namespace mpt;

static int created = 0, destroyed = 0, bogus = 0;
struct tracked
{
	tracked() : self(this) { ++created; }
	tracked(const tracked &) : self(this) { ++created; }
	~tracked() { if (self == 0 || magic != 0x600DF00D) ++bogus; else { ++destroyed; magic = 0; } }
	tracked *self;
	unsigned long magic = 0x600DF00D;
};

int main()
{
	const type_traits *traits = type_properties<tracked>::traits();
	
	/* (a) raw bytes moved into typed buffer */
	buffer *typed = buffer::create(4 * sizeof(tracked), traits);
	buffer *raw = buffer::create(4 * sizeof(tracked));
	void *ptr = raw->append(2 * sizeof(tracked));
	memset(ptr, 0, 2 * sizeof(tracked)); /* plain data, no element was ever constructed */
	bool moved = typed->move(*raw);
	printf("move(raw -> typed) = %d\n", moved);
	raw->unref();
	typed->unref(); /* destructor runs on 2 slots that are no elements */
	printf("a) created=%d destroyed=%d destructor calls on non-elements=%d\n", created, destroyed, bogus);
	
	/* (b) elements moved into raw buffer */
	typed = buffer::create(4 * sizeof(tracked), traits);
	raw = buffer::create(4 * sizeof(tracked));
	ptr = typed->insert(0, 0); /* no-op */
	tracked *t = static_cast<tracked *>(typed->append(2 * sizeof(tracked)));
	new (t) tracked; new (t + 1) tracked;
	moved = raw->move(*typed);
	printf("move(typed -> raw) = %d\n", moved);
	typed->unref();
	raw->unref(); /* last handle gone */
	printf("b) created=%d destroyed=%d -> %d element(s) still alive\n", created, destroyed, created - destroyed);
	
	return (bogus || created != destroyed) ? 1 : 0;
}

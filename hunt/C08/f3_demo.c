/*
 * f3: deeply nested (unterminated) sections: the failing parse does not report an error, it crashes
 *     (stack exhaustion in mpt_node_clear() <-> mpt_node_destroy() recursion, one C recursion level pair per tree level).
 *
 * build: gcc -Imptcore findings/f3_demo.c -o f3_demo -L_build/mptcore -lmptcore -Wl,-rpath,$PWD/_build/mptcore
 * run:   ./f3_demo [depth]     (default 300000, i.e. 600 KB of input "a{a{a{...")
 * exit 0 = parse error reported cleanly, killed by SIGSEGV = violation
 */
#include <stdio.h>
#include <stdlib.h>
#include <string.h>

#include "types.h"
#include "config.h"
#include "node.h"
#include "parse.h"

struct src { const char *d; size_t len, pos; };
static int get(void *p)
{
	struct src *s = p;
	return s->pos < s->len ? (unsigned char) s->d[s->pos++] : -2;
}
int main(int argc, char *argv[])
{
	struct mpt_parser_context ctx = MPT_PARSER_INIT;
	struct mpt_node root = MPT_NODE_INIT;
	struct src s;
	size_t i, depth = argc > 1 ? strtoul(argv[1], 0, 0) : 300000;
	char *txt = malloc(2 * depth);
	int ret;
	
	for (i = 0; i < depth; i++) {
		txt[2 * i] = 'a';
		txt[2 * i + 1] = '{';
	}
	s.d = txt; s.len = 2 * depth; s.pos = 0;
	ctx.src.getc = get;
	ctx.src.arg  = &s;
	
	fprintf(stderr, "parsing %zu unterminated nested sections (must fail with an error code)\n", depth);
	ret = mpt_parse_node(&root, &ctx, "{*");
	fprintf(stderr, "mpt_parse_node returned %d, root.children=%p\n", ret, (void *) root.children);
	
	return (ret < 0 && !root.children) ? 0 : 1;
}

/*
 * f1: a value-only line (no option name) makes every following element a CHILD of that line's node.
 *
 * build (from worktree root, after cmake build in _build):
 *   gcc -Imptcore findings/f1_demo.c -o f1_demo -L_build/mptcore -lmptcore -Wl,-rpath,$PWD/_build/mptcore
 * exit 0 = tree matches the event nesting, exit 1 = violation
 * optional argument N: parse N value-only lines (flat file) and free the tree -> stack overflow for N ~ 100000
 */
#include <stdio.h>
#include <stdlib.h>
#include <string.h>

#include "types.h"
#include "config.h"
#include "node.h"
#include "parse.h"

struct src { const char *d; size_t len, pos; };
static int get(void *p)
{
	struct src *s = p;
	return s->pos < s->len ? (unsigned char) s->d[s->pos++] : -2;
}
static struct mpt_node *child(const struct mpt_node *parent, const char *name)
{
	struct mpt_node *n;
	for (n = parent->children; n; n = n->next) {
		const char *id = mpt_node_ident(n);
		if (id && !strcmp(id, name)) return n;
	}
	return 0;
}
static int depth_of(const struct mpt_node *n)
{
	int d = 0;
	while ((n = n->parent)) ++d;
	return d;
}
static int parse(struct mpt_node *root, const char *fmt, const char *txt, size_t len)
{
	struct mpt_parser_context ctx = MPT_PARSER_INIT; /* all name flags allowed, incl. empty names */
	struct src s;
	s.d = txt; s.len = len; s.pos = 0;
	ctx.src.getc = get;
	ctx.src.arg  = &s;
	return mpt_parse_node(root, &ctx, fmt);
}
int main(int argc, char *argv[])
{
	struct mpt_node root = MPT_NODE_INIT, *n;
	int bad = 0, ret;
	
	if (argc > 1) {
		size_t i, lines = strtoul(argv[1], 0, 0);
		char *txt = malloc(2 * lines);
		for (i = 0; i < lines; i++) { txt[2*i] = 'v'; txt[2*i+1] = '\n'; }
		ret = parse(&root, "{_", txt, 2 * lines);
		fprintf(stderr, "flat file with %lu lines: ret=%d, now clearing tree\n", (unsigned long) lines, ret);
		mpt_node_clear(&root); /* recursion depth == number of lines */
		fprintf(stderr, "survived\n");
		return 0;
	}
	/* (a) options-only format: there are no sections at all, result must be a flat list */
	{
		static const char txt[] = "x=1\nabc\ny=2\nz=3\n";
		ret = parse(&root, "{_", txt, sizeof(txt) - 1);
		printf("(a) ret=%d\n", ret);
		if (ret < 0) return 2;
		if ((n = child(&root, "y"))) {
			printf("(a) 'y' found on top level: ok\n");
		} else {
			printf("(a) 'y' is NOT on top level\n");
			bad = 1;
		}
		for (n = root.children; n; n = n->next) {
			if (n->children) {
				const char *id = mpt_node_ident(n);
				printf("(a) node '%s' (data '%s') has children in a format without sections; first child '%s' depth %d\n",
				       id ? id : "", mpt_node_data(n, 0), mpt_node_ident(n->children), depth_of(n->children));
				bad = 1;
			}
		}
		mpt_node_clear(&root);
	}
	/* (b) enclosed format: value-only line is last entry of section, 'y' comes after the section end */
	{
		static const char txt[] = "{sec\na=1\nfoo bar\n}\ny=2\n";
		ret = parse(&root, "{x", txt, sizeof(txt) - 1);
		printf("(b) ret=%d\n", ret);
		if (ret < 0) return 2;
		if (!(n = child(&root, "y"))) {
			printf("(b) 'y' (written after the section end) is NOT on top level\n");
			bad = 1;
		}
		if ((n = child(&root, "sec")) && child(n, "y")) {
			printf("(b) 'y' ended up inside closed section 'sec'\n");
			bad = 1;
		}
		mpt_node_clear(&root);
	}
	return bad;
}

/*
 * f4: a failed parse leaves parser_context.valid stale; the next parse with the same context
 *     (new input, mpt_parse_node() re-initialises only ctx.prev) reads that many bytes behind a fresh path buffer.
 *
 * build: gcc -fsanitize=address -Imptcore findings/f4_demo.c -o f4_demo -L_build/mptcore -lmptcore -Wl,-rpath,$PWD/_build/mptcore
 * exit 0 = ok, 1 = bogus element created from stale state, or killed (SEGV / ASan report) = invalid read
 */
#include <stdio.h>
#include <stdlib.h>
#include <string.h>

#include "types.h"
#include "config.h"
#include "node.h"
#include "parse.h"

struct src { const char *d; size_t len, pos; };
static int get(void *p)
{
	struct src *s = p;
	return s->pos < s->len ? (unsigned char) s->d[s->pos++] : -2;
}
int main(int argc, char *argv[])
{
	struct mpt_parser_context ctx = MPT_PARSER_INIT;
	struct mpt_node root = MPT_NODE_INIT;
	struct src s;
	size_t n = argc > 1 ? strtoul(argv[1], 0, 0) : 70000;
	char *big = malloc(n);
	int ret, bad = 0;
	
	ctx.src.getc = get;
	ctx.src.arg  = &s;
	
	/* 1st input: option name without assignment / line end -> parse must fail (and does) */
	memset(big, 'a', n);
	s.d = big; s.len = n; s.pos = 0;
	ret = mpt_parse_node(&root, &ctx, "{_");
	fprintf(stderr, "1st parse: ret=%d (error expected), ctx.valid=%u, children=%p\n", ret, (unsigned) ctx.valid, (void *) root.children);
	if (ret >= 0 || root.children) return 2;
	
	/* 2nd input: a single empty line -> no elements (or an error), certainly no read outside of buffers */
	s.d = "\n"; s.len = 1; s.pos = 0;
	ctx.src.line = 1;
	ret = mpt_parse_node(&root, &ctx, "{_");
	fprintf(stderr, "2nd parse: ret=%d, children=%p\n", ret, (void *) root.children);
	if (root.children) {
		size_t len = 0;
		mpt_node_data(root.children, &len);
		fprintf(stderr, "VIOLATION: input \"\\n\" created an element with %zu data bytes (1 byte was read from input)\n", len);
		bad = 1;
	}
	mpt_node_clear(&root);
	free(big);
	return bad;
}

/*
 * f2: section / option names of 256..65534 bytes: parse "succeeds", but the node is stored WITHOUT name.
 *
 * build: gcc -Imptcore findings/f2_demo.c -o f2_demo -L_build/mptcore -lmptcore -Wl,-rpath,$PWD/_build/mptcore
 * exit 0 = ok (name kept, or parse refused), 1 = violation
 */
#include <stdio.h>
#include <stdlib.h>
#include <string.h>

#include "types.h"
#include "config.h"
#include "node.h"
#include "parse.h"

struct src { const char *d; size_t len, pos; };
static int get(void *p)
{
	struct src *s = p;
	return s->pos < s->len ? (unsigned char) s->d[s->pos++] : -2;
}
static int events, maxname;
static int count(void *ctx, const struct mpt_path *p, const struct mpt_value *v, int last, int curr)
{
	(void) ctx; (void) v; (void) last;
	if (curr & MPT_ENUM(ParseSection)) { /* section or option: path ends with the new name */
		struct mpt_path tmp = *p;
		int len = mpt_path_last(&tmp);
		if (len > maxname) maxname = len;
		++events;
	}
	return 0;
}
static int run(size_t nlen)
{
	struct mpt_parser_context ctx = MPT_PARSER_INIT;
	struct mpt_parser_format fmt;
	struct mpt_node root = MPT_NODE_INIT, *n;
	struct src s;
	char *txt = malloc(2 * nlen + 64);
	size_t len = 0;
	int ret, bad = 0;
	
	/* "<name> = 1\n<name>b {\n x = 3\n}\n" */
	memset(txt + len, 'a', nlen); len += nlen;
	len += sprintf(txt + len, " = 1\n");
	memset(txt + len, 'a', nlen - 1); len += nlen - 1;
	len += sprintf(txt + len, "b {\n x = 3\n}\n");
	
	/* event level: names arrive complete */
	s.d = txt; s.len = len; s.pos = 0;
	ctx.src.getc = get; ctx.src.arg = &s;
	events = maxname = 0;
	ret = mpt_parse_config(mpt_parse_next_fcn(mpt_parse_format(&fmt, "{*")), &fmt, &ctx, count, 0);
	printf("name length %zu: events ret=%d, named elements=%d, longest name in events=%d\n", nlen, ret, events, maxname);
	
	/* tree level */
	{
		struct mpt_parser_context c2 = MPT_PARSER_INIT;
		s.pos = 0;
		c2.src.getc = get; c2.src.arg = &s;
		ret = mpt_parse_node(&root, &c2, "{*");
	}
	printf("name length %zu: mpt_parse_node ret=%d\n", nlen, ret);
	if (ret >= 0) {
		for (n = root.children; n; n = n->next) {
			const char *id = mpt_node_ident(n);
			size_t l = id ? strlen(id) : 0;
			printf("  top level node: name length %zu%s\n", l, n->children ? " (section)" : "");
			if (l != nlen) bad = 1;
		}
	}
	mpt_node_clear(&root);
	free(txt);
	return bad;
}
int main(void)
{
	int bad = 0;
	bad |= run(255);  /* fine */
	bad |= run(256);  /* names silently dropped */
	bad |= run(3000); /* names silently dropped */
	if (bad) printf("VIOLATION: successful parse produced nodes that lost their (long) name\n");
	return bad;
}

/* f2: mpt_queue_peek() reports N decoded bytes but does not deliver them */
#include <stdio.h>
#include <string.h>
#include <sys/uio.h>
#include "core.h"
#include "queue.h"
#include "convert.h"

static int run(size_t off, int complete)
{
	static uint8_t store[16] __attribute__((aligned(16)));
	MPT_STRUCT(decode_queue) qu = MPT_DECODE_QUEUE_INIT;
	uint8_t dst[16];
	ssize_t len;
	int ret, i, bad = 0;
	
	memset(store, 0xAA, sizeof(store));
	qu.data.base = store;
	qu.data.max  = sizeof(store);
	qu.data.off  = off;
	qu._dec = mpt_decode_cobs;
	
	/* well-formed COBS frame for "abcd" (optionally without terminator yet) */
	mpt_qpush(&qu.data, complete ? 6 : 5, "\x05" "abcd");
	ret = mpt_queue_recv(&qu);
	
	memset(dst, 0xEE, sizeof(dst));
	len = mpt_queue_peek(&qu, sizeof(dst), dst);
	printf("off=%zu complete=%d: recv=%d peek=%zd dst=", off, complete, ret, len);
	for (i = 0; i < 4; i++) printf("%02x ", dst[i]);
	if (len > 0 && memcmp(dst, "abcd", len < 4 ? len : 4)) {
		printf(" -> peek claims %zd bytes but destination was not filled", len);
		bad = 1;
	}
	printf("\n");
	return bad;
}
int main()
{
	int bad = 0;
	bad |= run(0, 0);   /* partial frame, linear queue: works (61 62 63 64) */
	bad |= run(0, 1);   /* complete frame pending: returns 4, nothing copied */
	bad |= run(13, 0);  /* partial frame whose decoded bytes span the queue wrap: returns 4, nothing copied */
	return bad;
}

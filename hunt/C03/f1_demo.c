/* f1: double delimiter after a non-empty frame corrupts decoder position (dec->curr = proc) */
#include <stdio.h>
#include <string.h>
#include <sys/uio.h>
#include "core.h"
#include "queue.h"
#include "convert.h"

static int direct(void)
{
	/* frame "a", stray delimiter, frame "b" */
	static uint8_t buf[] __attribute__((aligned(16))) = { 0x02, 'a', 0x00,  0x00,  0x02, 'b', 0x00 };
	MPT_STRUCT(decode_state) st = MPT_DECODE_INIT;
	struct iovec v = { buf, sizeof(buf) };
	int ret, i, bad = 0;
	
	ret = mpt_decode_cobs(&st, &v, 1);
	printf("direct #1: ret=%d curr=%zu pos=%zu msg=%zd\n", ret, st.curr, st.data.pos, st.data.msg);
	if (ret != 1 || st.data.msg != 1 || buf[st.data.pos] != 'a' || st.curr != 3) return 100;
	
	ret = mpt_decode_cobs(&st, &v, 1);
	printf("direct #2: ret=%d curr=%zu pos=%zu (expect BadValue, curr=4)\n", ret, st.curr, st.data.pos);
	if (ret != MPT_ERROR(BadValue)) return 101;
	if (st.curr != 4) { printf("  -> input position moved BACKWARDS from 3 to %zu\n", st.curr); bad = 1; }
	
	for (i = 0; i < 4; i++) {
		ret = mpt_decode_cobs(&st, &v, 1);
		printf("direct #%d: ret=%d curr=%zu pos=%zu len=%zu msg=%zd\n", i + 3, ret, st.curr, st.data.pos, st.data.len, st.data.msg);
		if (ret > 0 && st.data.msg == 1 && buf[st.data.pos] == 'b') { printf("  frame 'b' delivered\n"); return bad; }
	}
	printf("  -> well-formed frame 02 'b' 00 is never delivered\n");
	return 1;
}
static int queued(void)
{
	/* COBS/R: frame 02 00 encodes the single byte 02 */
	static const uint8_t in[] = { 0x02, 0x00,  0x00,  0x02, 'b', 0x00 };
	static uint8_t store[32] __attribute__((aligned(16)));
	MPT_STRUCT(decode_queue) qu = MPT_DECODE_QUEUE_INIT;
	int ret, i, n = 0;
	
	memset(store, 0xAA, sizeof(store));
	qu.data.base = store; qu.data.max = sizeof(store);
	qu._dec = mpt_decode_cobs_r;
	mpt_qpush(&qu.data, sizeof(in), in);
	
	for (i = 0; i < 6; i++) {
		uint8_t msg[32];
		ret = mpt_queue_recv(&qu);
		printf("queue #%d: ret=%d", i + 1, ret);
		if (ret > 0) {
			size_t j, len = qu._state.data.msg;
			mpt_queue_get(&qu.data, qu._state.data.pos, len, msg);
			printf(" message:");
			for (j = 0; j < len; j++) printf(" %02x", msg[j]);
			++n;
			/* only 02 and 'b' may ever be delivered from this stream */
			if (!((len == 1 && msg[0] == 0x02 && n == 1) || (len == 1 && msg[0] == 'b' && n == 2))) {
				printf("  -> INVENTED message\n");
				return 1;
			}
		}
		printf("\n");
	}
	return n == 2 ? 0 : 1;
}
/* decoder started with 16 byte scratch space in front of the encoded data (dec.curr = 16) */
static int scratch(void)
{
	static uint8_t buf[19] __attribute__((aligned(16)));
	MPT_STRUCT(decode_state) st = MPT_DECODE_INIT;
	struct iovec v = { buf, sizeof(buf) };
	int ret, i, n = 0;
	
	memset(buf, 0xAA, 16);
	buf[16] = 0x02; buf[17] = 0x00; /* COBS/R frame for single byte 02 */
	buf[18] = 0x00;                 /* stray delimiter */
	st.curr = 16;
	
	for (i = 0; i < 6; i++) {
		ret = mpt_decode_cobs_r(&st, &v, 1);
		printf("scratch #%d: ret=%d curr=%zu pos=%zu len=%zu msg=%zd", i + 1, ret, st.curr, st.data.pos, st.data.len, st.data.msg);
		if (ret > 0 && st.data.msg >= 0) {
			ssize_t j;
			printf(" message:");
			for (j = 0; j < st.data.msg; j++) printf(" %02x", buf[st.data.pos + j]);
			if (++n > 1) {
				printf("  -> INVENTED message (input holds exactly one frame)\n");
				return 1;
			}
		}
		printf("\n");
		if (!ret) break;
	}
	return 0;
}
/* two stray delimiters followed by a frame, queue data starts at odd address */
static int stray(void)
{
	static const uint8_t in[] = { 0x00, 0x00, 0x02, 'b', 0x00 };
	static uint8_t store[32] __attribute__((aligned(16)));
	MPT_STRUCT(decode_queue) qu = MPT_DECODE_QUEUE_INIT;
	int ret = 0, i;
	
	qu.data.base = store; qu.data.max = sizeof(store); qu.data.off = 1;
	qu._dec = mpt_decode_cobs;
	mpt_qpush(&qu.data, sizeof(in), in);
	
	/* skip stray delimiters: must need at most 2 iterations */
	for (i = 0; i < 1000; i++) {
		if ((ret = mpt_queue_recv(&qu)) != MPT_ERROR(BadValue)) break;
	}
	printf("stray: %d x BadValue, last ret=%d curr=%zu\n", i, ret, qu._state.curr);
	if (i > 2 || ret != 1) {
		printf("  -> decoder makes no progress on 00 00 (skip loop would never end)\n");
		return 1;
	}
	return 0;
}
int main()
{
	int a = direct(), b = queued(), c = scratch(), d = stray();
	printf("direct=%d queued=%d scratch=%d stray=%d\n", a, b, c, d);
	return (a || b || c || d) ? 1 : 0;
}

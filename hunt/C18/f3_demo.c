/* f3: mpt_linepart_linear treats the 65535 window limit like the end of the data and
 * swallows the out-of-range point the next part needs as start of its cut segment. */
#include <stdio.h>
#include <stdlib.h>
#include <mpt/values.h>
static int run(size_t lead)
{
	/* lead in-range points, one point above, two in-range points */
	size_t n = lead + 3, pos = 0, i; int bad = 0;
	double *v = malloc(n * sizeof(*v));
	struct mpt_range r = { 1.0, 2.0 };
	for (i = 0; i < n; i++) v[i] = 1.5;
	v[lead] = 3.5;
	while (pos < n) {
		struct mpt_linepart p;
		mpt_linepart_linear(&p, v + pos, n - pos, &r);
		printf("  lead=%zu part at %zu: raw=%u usr=%u cut=%u trim=%u\n", lead, pos, p.raw, p.usr, p._cut, p._trim);
		/* the line enters the range between v[lead] (3.5) and v[lead+1] (1.5) at fraction 0.75:
		 * some part has to start at 'lead' with cut ~ 0.75 */
		if (pos == lead + 1 && !p._cut) { printf("  -> entering crossing %zu->%zu has no cut fraction\n", lead, lead + 1); bad = 1; }
		pos += p.raw;
	}
	free(v);
	return bad;
}
int main(void)
{
	int a = run(65533);  /* fine: part 2 starts at the out-of-range point, cut = 0.75 */
	int b = run(65534);  /* out-of-range point is index 65534 = last of the capped window */
	printf("lead 65533: %s, lead 65534: %s\n", a ? "BAD" : "ok", b ? "BAD" : "ok");
	return (a || b) ? 1 : 0;
}

/* f2: merging a second dimension creates a 2-point part with cut AND trim on the
 * same segment although cut + trim >= 1: a line lying completely outside the
 * visible range is reported as drawn (reversed). */
#include <cstdio>
#include <mpt/values.h>
#include <mpt/layout.h>
using namespace mpt;
int main()
{
	layout::graph::transform3 tr;
	tr._dim[2].to.x = tr._dim[2].to.y = 0;
	struct ::mpt::range lim(1, 2);
	for (int d = 0; d < 2; d++) { tr._dim[d]._flags |= TransformLimit; tr._dim[d].limit = lim; }
	/* P(t) = (0.25 + 1.25 t, 1.2 - 0.95 t):  x in range for t >= 0.6, y in range for t <= 0.21
	 * -> no point of the segment is inside [1,2]x[1,2] */
	double x[2] = { 0.25, 1.5 }, y[2] = { 1.2, 0.25 };
	value_store vs[2];
	vs[0].set(span<const double>(x, 2));
	vs[1].set(span<const double>(y, 2));
	polyline pl;
	bool ok = pl.set(tr, span<const value_store>(vs, 2));
	printf("set=%d (nothing is visible, expected 0 / no drawn line)\n", ok);
	int bad = 0;
	for (polyline::iterator it = pl.begin(); it != pl.end(); ++it) {
		span<const polyline::point> l = (*it).line();
		for (const polyline::point *p = l.begin(); p != l.end(); ++p) {
			bool in = p->x >= 1 - 1e-3 && p->x <= 2 + 1e-3 && p->y >= 1 - 1e-3 && p->y <= 2 + 1e-3;
			printf("line point (%g, %g)%s\n", p->x, p->y, in ? "" : "  <- outside visible range");
			if (!in) bad++;
		}
	}
	for (auto p : pl.parts()) printf("{raw %u usr %u cut %u trim %u} cut+trim=%g\n", p.raw, p.usr, p._cut, p._trim, p.cut() + p.trim());
	return bad ? 1 : 0;
}

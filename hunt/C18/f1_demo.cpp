/* f1: polyline::set / linepart::array::apply / apply_data with a later dimension
 * that is shorter than the first one.
 * build: g++ -std=c++11 -I<inc> f1_demo.cpp -lmpt++ -lmptplot -lmptcore
 * (compile mpt++/polyline.cpp linepart.cpp transform.cpp with -fsanitize=address
 *  into the program to see the heap-buffer-overflow READ in apply_data) */
#include <cstdio>
#include <vector>
#include <mpt/values.h>
#include <mpt/layout.h>
using namespace mpt;
int main()
{
	layout::graph::transform3 tr;
	tr._dim[2].to.x = tr._dim[2].to.y = 0;           /* two dimensions */
	struct ::mpt::range lim(1, 2);
	for (int d = 0; d < 2; d++) { tr._dim[d]._flags |= TransformLimit; tr._dim[d].limit = lim; }

	std::vector<double> x(70000, 1.5), y(3, 1.5);    /* everything in range ...  */
	x[2000] = 3.5;                                   /* ... except x[2000]       */
	value_store vs[2];
	vs[0].set(span<const double>(x.data(), x.size()));
	vs[1].set(span<const double>(y.data(), y.size()));

	polyline pl;
	bool ok = pl.set(tr, span<const value_store>(vs, 2));
	printf("set=%d\n", ok);
	int bad = 0; long raw = 0;
	for (auto p : pl.parts()) {
		printf("start %ld {raw %u usr %u cut %u trim %u}\n", raw, p.raw, p.usr, p._cut, p._trim);
		/* point 2 is in range in x and y but is flagged as "trim end point" */
		if (raw == 0 && p.usr == 3 && p._trim) { printf(" -> in-range point 2 is the trimmed end of the part (not drawn, overwritten by interpolation)\n"); bad++; }
		/* parts that lie completely behind the end of y are still visible */
		if (p.usr && raw >= (long) y.size()) { printf(" -> %u points reported drawn, but y has only %zu values (apply_data reads y[%ld..])\n", p.usr, y.size(), raw); bad++; }
		raw += p.raw;
	}
	return bad ? 1 : 0;
}

#include <stdio.h>
#include <stdlib.h>
#include <string.h>
#include <sys/uio.h>
#include "array.h"
#include "message.h"
#include "event.h"

#define NID 40
#define MAXH 100000
struct hctx { uintptr_t id; int alive; int eol; int ret; int setid; uintptr_t newid; int calls; int isfallback; };
static struct hctx H[MAXH]; static int nh;
static struct hctx *last_called; static uintptr_t last_id;
static int fail;
#define FAIL(...) do { printf("FAIL: " __VA_ARGS__); printf("\n"); fail = 1; } while (0)

static int handler(void *arg, struct mpt_event *ev) {
	struct hctx *h = arg;
	if (!ev) { h->eol++; if (h->eol > 1) FAIL("double eol id=%lu", (unsigned long) h->id); h->alive = 0; return 0; }
	if (!h->alive) FAIL("call after eol id=%lu", (unsigned long)h->id);
	h->calls++; last_called = h; last_id = ev->id;
	if (h->setid) ev->id = h->newid;
	return h->ret;
}
static uintptr_t ids[NID];
static struct hctx *model[NID]; 
static struct hctx *fb;
static uintptr_t def;

static struct hctx *newh(uintptr_t id, unsigned *r) {
	static const int rets[] = {0,1,2,3,4,5,6,7,-1,-3, 0x10000, 0x10001};
	struct hctx *h = &H[nh++];
	memset(h, 0, sizeof(*h));
	h->id = id; h->alive = 1;
	h->ret = rets[rand_r(r) % 12];
	h->setid = rand_r(r) % 3 == 0;
	h->newid = (rand_r(r) % 2) ? 0 : ids[rand_r(r) % NID];
	return h;
}
static int idx(uintptr_t id) { int i; for (i = 0; i < NID; i++) if (ids[i] == id) return i; return -1; }

static void check_emit(struct mpt_dispatch *d, int ret, struct hctx *exp, uintptr_t evid, int isdef, const char *what)
{
	struct hctx *h = exp ? exp : fb;
	uintptr_t nid;
	int want;
	if (isdef && !exp) {
		/* missing default handler: by design error */
		if (last_called) FAIL("%s: default w/o handler called something", what);
		def = 0;
		if (d->_def) FAIL("%s def not cleared", what);
		return;
	}
	if (!h) { if (last_called) FAIL("%s: called w/o any handler", what); return; }
	if (last_called != h) { FAIL("%s: wrong handler called: got %p(id %lu) want id %lu evid %lu", what, (void*)last_called, last_called? (unsigned long)last_called->id:0, (unsigned long)h->id, (unsigned long) evid); return; }
	if (last_id != evid) FAIL("%s: handler saw id %lu want %lu", what, (unsigned long)last_id, (unsigned long)evid);
	nid = h->setid ? h->newid : evid;
	want = h->ret;
	if (want < 0) { if (ret != want) FAIL("%s: ret %d want %d", what, ret, want); }
	else {
		if (want & 1) { def = nid; want &= ~1; }
		if (def) want |= 1;
		if (ret != want) FAIL("%s: ret %x want %x", what, ret, want);
	}
	if (d->_def != def) FAIL("%s: def %lu want %lu", what, (unsigned long)d->_def, (unsigned long)def);
}

int main(int argc, char **argv)
{
	unsigned seed, r; int nseeds = argc > 1 ? atoi(argv[1]) : 2000; int steps = argc > 2 ? atoi(argv[2]) : 200;
	static const char *names[NID] = { "a", "start", "stop it", "x'y z'", "longer_command_name_here", "q" }; static char gen[NID][16];
	int i;
	freopen("/dev/null", "w", stderr); for (i = 6; i < NID; i++) { sprintf(gen[i], "cmd%d", i); names[i] = gen[i]; }
	for (seed = 1; seed <= (unsigned) nseeds && !fail; seed++) {
		struct mpt_dispatch d;
		int s;
		r = seed; nh = 0; def = 0; fb = 0;
		memset(model, 0, sizeof(model));
		for (i = 0; i < NID; i++) ids[i] = (seed & 1) ? (uintptr_t)(i + (seed % 3 ? 0 : 1)) : mpt_hash(names[i], strlen(names[i]));
		mpt_dispatch_init(&d);
		if (seed % 4 == 0) { d._err.cmd = handler; d._err.arg = fb = newh(9999, &r); fb->isfallback = 1; }
		else { d._err.cmd = 0; }
		for (s = 0; s < steps && !fail; s++) {
			int op = rand_r(&r) % 10;
			int k = rand_r(&r) % NID;
			uintptr_t id = ids[k];
			int ret;
			last_called = 0;
			if (op < 3) { /* set */
				struct hctx *h = newh(id, &r);
				ret = mpt_dispatch_set(&d, id, handler, h);
				if (model[k]) { if (ret >= 0) FAIL("set on used ok"); nh--; }
				else { if (ret < 0) FAIL("set failed %d", ret); else model[k] = h; }
			} else if (op == 3) { /* clear */
				ret = mpt_dispatch_set(&d, id, 0, 0);
				if (model[k]) { if (ret < 0) FAIL("clear failed"); if (model[k]->eol != 1) FAIL("clear no eol"); model[k] = 0; }
				else if (ret >= 0) FAIL("clear of missing ok");
			} else if (op == 4) { /* replace */
				struct hctx *h = newh(id, &r), *old = model[k];
				ret = mpt_command_set(&d._d, id, (int(*)(void*,void*))handler, h);
				if (ret < 0) FAIL("replace failed");
				if (old && old->eol != 1) FAIL("replace: old eol %d", old->eol);
				model[k] = h;
			} else if (op == 5) { /* emit id */
				struct mpt_event ev = MPT_EVENT_INIT;
				ev.id = id;
				ret = mpt_dispatch_emit(&d, &ev);
				check_emit(&d, ret, model[k], id, 0, "emit-id");
			} else if (op == 6) { /* emit msg */
				struct mpt_event ev = MPT_EVENT_INIT;
				struct mpt_message m = MPT_MESSAGE_INIT; struct iovec io[2];
				uint8_t b = rand_r(&r) % (NID + 2); uint8_t rest[2] = {1,2};
				int j = idx(b);
				ev.id = 77; ev.msg = &m;
				if (rand_r(&r) & 1) { m.base = &b; m.used = 1; }
				else { m.base = 0; m.used = 0; io[0].iov_base = &b; io[0].iov_len = 0; io[1].iov_base=&b; io[1].iov_len=1; m.cont = io; m.clen = 2; }
				(void) rest;
				ret = mpt_dispatch_emit(&d, &ev);
				check_emit(&d, ret, j >= 0 ? model[j] : 0, b, 0, "emit-msg");
			} else if (op == 7) { /* emit default */
				int j = idx(def);
				uintptr_t od = def;
				ret = mpt_dispatch_emit(&d, 0);
				if (!od) { if (ret || last_called) FAIL("emit none w/o default"); }
				else check_emit(&d, ret, j >= 0 ? model[j] : 0, od, 1, "emit-def");
			} else if (op == 8 && !(seed & 1)) { /* hash */
				struct mpt_event ev = MPT_EVENT_INIT;
				struct mpt_message m = MPT_MESSAGE_INIT; struct iovec io[4];
				char buf[256]; size_t len, cut;
				int sep = (k == 2) ? 0 : (rand_r(&r) % 2 ? ' ' : 0);
				buf[0] = MPT_MESGTYPE(Command); buf[1] = sep;
				len = 2;
				if (sep && rand_r(&r)%2) { buf[len++] = ' '; buf[len++]='\t'; }
				strcpy(buf + len, names[k]); len += strlen(names[k]);
				if (sep) { if (rand_r(&r)%2) { strcpy(buf+len, " arg1 arg2"); len += 10; } }
				else if (rand_r(&r)%2) { buf[len++] = 0; if (rand_r(&r)%2) { strcpy(buf+len, "arg1"); len += 5; } }
				cut = rand_r(&r) % (len + 1);
				m.base = buf; m.used = cut; io[0].iov_base = buf + cut; io[0].iov_len = 0; io[1].iov_base = buf+cut; io[1].iov_len = len - cut; m.cont = io; m.clen = 2;
				if (rand_r(&r)%2 && len - cut > 1) { size_t c2 = 1 + rand_r(&r) % (len-cut-1); io[1].iov_len = c2; io[2].iov_base = buf+cut+c2; io[2].iov_len = len-cut-c2; m.clen = 3; }
				ev.msg = &m;
				ret = mpt_dispatch_hash(&d, &ev);
				{ struct hctx *h = model[k] ? model[k] : fb;
				  if (h) { if (last_called != h) FAIL("hash: wrong handler (name '%s' sep %d cut %zu len %zu) got %p", names[k], sep, cut, len, (void*)last_called);
				           else if (last_id != id) FAIL("hash: id mismatch"); }
				  else if (last_called) FAIL("hash: called sth"); }
			} else if (op == 9 && rand_r(&r) % 10 == 0) { /* fini + reinit */
				int j;
				mpt_dispatch_fini(&d);
				for (j = 0; j < nh; j++) if (H[j].eol != 1) FAIL("after fini: handler %d id %lu eol %d", j, (unsigned long)H[j].id, H[j].eol);
				memset(model, 0, sizeof(model)); def = 0; fb = 0;
				mpt_dispatch_init(&d); d._err.cmd = 0;
			}
			/* invariants */
			for (i = 0; i < NID; i++) if (model[i] && (!model[i]->alive || model[i]->eol)) FAIL("live handler got eol");
		}
		mpt_dispatch_fini(&d);
		for (i = 0; i < nh; i++) if (H[i].eol != 1) FAIL("end: handler %d id %lu eol %d", i, (unsigned long)H[i].id, H[i].eol);
		if (fail) printf("seed %u\n", seed);
	}
	{ long c=0; for(i=0;i<nh;i++) c+=H[i].calls; printf("last seed nh=%d calls=%ld\n", nh, c);} return fail;
}

#include <stdio.h>
#include <stdlib.h>
#include <string.h>
#include "array.h"
#include "event.h"
struct hctx { uintptr_t id; int alive, eol; };
static struct hctx H[100000]; static int nh; static int fail;
#define FAIL(...) do { printf("FAIL: " __VA_ARGS__); printf("\n"); fail = 1; } while (0)
static int handler(void *arg, void *ev) { struct hctx *h = arg; if (!ev) { if (++h->eol > 1) FAIL("double eol"); h->alive = 0; } else if (!h->alive) FAIL("dead call"); return 0; }
int main(int argc, char **argv) {
	unsigned seed, r; int nseeds = argc > 1 ? atoi(argv[1]) : 2000, steps = argc > 2 ? atoi(argv[2]) : 300;
	freopen("/dev/null", "w", stderr);
	for (seed = 1; seed <= (unsigned) nseeds && !fail; seed++) {
		struct mpt_array arr = MPT_ARRAY_INIT; int s, i, j;
		static const uintptr_t big[] = { 0, 5, 126, 127, 128, 32766, 32767, 32768, (uintptr_t)-1, (uintptr_t)-2, INTPTR_MAX, (uintptr_t)INTPTR_MAX+1 };
		r = seed; nh = 0;
		if (seed % 3 == 0) mpt_command_set(&arr, 3, handler, &H[nh]), H[nh].id=3, H[nh].alive=1, H[nh].eol=0, nh++;
		for (s = 0; s < steps && !fail; s++) {
			int op = rand_r(&r) % 8;
			if (op < 3) {
				size_t max = 1 + rand_r(&r) % 2;
				struct mpt_command *c = mpt_command_reserve(&arr, (seed&4) ? 8 : max);
				if (c) { struct hctx *h = &H[nh++]; h->id = c->id; h->alive = 1; h->eol = 0; c->cmd = handler; c->arg = h;
					if ((intptr_t) c->id <= 0) FAIL("reserved id %lx", (unsigned long)c->id); }
			} else if (op < 5) {
				if (nh) { struct hctx *h = &H[rand_r(&r) % nh]; if (h->alive) { struct mpt_command *c = mpt_command_get(&arr, h->id); if (!c || c->arg != h) FAIL("lookup id %lx wrong", (unsigned long)h->id); else { c->cmd(c->arg, 0); c->cmd = 0; } } }
			} else if (op == 5 && (seed & 2)) {
				uintptr_t id = big[rand_r(&r) % 12];
				struct hctx *h = &H[nh]; struct mpt_command *c = mpt_command_get(&arr, id);
				if (!c) { h->id = id; h->alive = 1; h->eol = 0; if (mpt_command_set(&arr, id, handler, h) >= 0) nh++; }
			}
			/* check */
			if (arr._buf) { struct mpt_command *b = (void *)(arr._buf+1); size_t n = arr._buf->_used/sizeof(*b);
				for (i = 0; i < (int)n; i++) if (b[i].cmd) for (j = i+1; j < (int)n; j++) if (b[j].cmd && b[j].id == b[i].id) FAIL("dup live id %lx", (unsigned long)b[i].id);
				for (i = 0; i < nh; i++) if (H[i].alive) { struct mpt_command *c = mpt_command_get(&arr, H[i].id); if (!c || c->arg != &H[i]) FAIL("live handler id %lx lost", (unsigned long)H[i].id); }
			}
		}
		mpt_command_clear(&arr); mpt_array_clone(&arr, 0);
		for (i = 0; i < nh; i++) if (H[i].eol != 1) FAIL("end eol %d", H[i].eol);
		if (fail) printf("seed %u\n", seed);
	}
	return fail;
}

/* f1: mpt_command_reserve() hands out the same request id (0) twice
 * build: gcc -I../mptcore f1_demo.c -L../_build/mptcore -lmptcore -Wl,-rpath,$PWD/../_build/mptcore */
#include <stdio.h>
#include <stdint.h>
#include "array.h"
#include "event.h"

static int eol;
static int handler(void *arg, MPT_STRUCT(event) *ev) { (void) arg; if (!ev) ++eol; return 0; }
static int reply(void *arg, void *msg) { (void) arg; (void) msg; return 0; }

int main(void)
{
	MPT_STRUCT(dispatch) d;
	MPT_STRUCT(command) *c;
	uintptr_t id0, id1, id2;
	int bad = 0;
	
	mpt_dispatch_init(&d);
	/* outstanding reply #1 (creates the raw command table) */
	if (!(c = mpt_command_reserve(&d._d, 8))) return 2;
	c->cmd = reply; id0 = c->id;
	/* regular handler whose id is the largest possible value (e.g. a text hash) */
	if (mpt_dispatch_set(&d, UINTPTR_MAX, handler, 0) < 0) return 2;
	/* two more outstanding replies */
	if (!(c = mpt_command_reserve(&d._d, 8))) return 2;
	c->cmd = reply; id1 = c->id;
	if (!(c = mpt_command_reserve(&d._d, 8))) return 2;
	c->cmd = reply; id2 = c->id;
	
	printf("reserved ids: %lu %lu %lu\n", (unsigned long) id0, (unsigned long) id1, (unsigned long) id2);
	if (id1 == id2 || id1 == id0 || id2 == id0) {
		printf("VIOLATION: duplicate live request id\n");
		bad = 1;
	}
	if (!id1 || !id2) {
		printf("VIOLATION: request id 0 (= 'no reply expected') reserved\n");
		bad = 1;
	}
	mpt_dispatch_fini(&d);
	return bad;
}

#include <stdio.h>
#include <stdlib.h>
#include <string.h>
#include <sys/uio.h>
#include "message.h"
#include "event.h"
static uintptr_t seen; static int called;
static int fb(void *a, struct mpt_event *ev) { if (ev) { seen = ev->id; called++; } return 0; }
static int run(struct mpt_dispatch *d, struct mpt_message *m, uintptr_t *id) { struct mpt_event ev = MPT_EVENT_INIT; int r; ev.msg = m; called = 0; seen = 0; r = mpt_dispatch_hash(d, &ev); *id = seen; return called ? 1000 + r : r; }
int main(int argc, char **argv) {
	static const char alpha[] = { ' ', '\t', 'a', 'b', '\'', '"', '\\', 0, ',', 'c' };
	static const char seps[] = { 0, ' ', ',', '\n', '\t' };
	struct mpt_dispatch d; unsigned r = 1; long it, n = argc > 1 ? atol(argv[1]) : 2000000; int bad = 0;
	freopen("/dev/null", "w", stderr);
	mpt_dispatch_init(&d); d._err.cmd = fb;
	for (it = 0; it < n && bad < 10; it++) {
		char buf[40], c1[40], c2[40], c3[40]; size_t len = 2 + rand_r(&r) % 10, i, a, b;
		struct mpt_message m; struct iovec io[3]; uintptr_t id0, id1; int r0, r1;
		buf[0] = MPT_MESGTYPE(Command); buf[1] = seps[rand_r(&r) % 5];
		for (i = 2; i < len; i++) buf[i] = alpha[rand_r(&r) % 10];
		m.base = buf; m.used = len; m.cont = 0; m.clen = 0;
		r0 = run(&d, &m, &id0);
		a = rand_r(&r) % (len + 1); b = a + rand_r(&r) % (len - a + 1);
		memcpy(c1, buf, a); memcpy(c2, buf + a, b - a); memcpy(c3, buf + b, len - b);
		m.base = c1; m.used = a; io[0].iov_base = c2; io[0].iov_len = b - a; io[1].iov_base = c3; io[1].iov_len = len - b; m.cont = io; m.clen = 2;
		r1 = run(&d, &m, &id1);
		if (r0 != r1 || id0 != id1) { bad++; printf("MISMATCH sep=%d len=%zu a=%zu b=%zu r0=%d r1=%d id0=%lx id1=%lx data:", buf[1], len, a, b, r0, r1, (unsigned long)id0, (unsigned long)id1); for (i = 2; i < len; i++) printf(" %02x", (unsigned char)buf[i]); printf("\n"); }
	}
	return bad != 0;
}

/* f4: copying a mpt::dispatch (implicit copy ctor) double-finalizes handlers and leaves dead handlers callable
 * build: g++ -I../mptcore f4_demo.cpp -L../_build/mptcore -lmptcore -L../_build/mpt++ -lmpt++ -Wl,-rpath,... */
#include <stdio.h>
#include "event.h"
using namespace mpt;

static int calls[2], eol[2], dead_calls;
static int h(void *a, event *ev)
{
	long i = (long) a;
	if (!ev) { ++eol[i]; return 0; }
	if (eol[i]) ++dead_calls;
	++calls[i];
	return 0;
}
int main()
{
	int bad = 0;
	{
		dispatch d;
		d.set_handler(7, h, (void *) 0);
		d.set_error(h, (void *) 1);     /* fallback handler */
		{ dispatch copy(d); }           /* implicit copy constructor, then ~dispatch */
		printf("after destroying the copy: eol(handler 7)=%d eol(fallback)=%d\n", eol[0], eol[1]);
		event ev; ev.id = 7;
		mpt_dispatch_emit(&d, &ev);     /* id 7 table was wiped -> goes to fallback, which already got its end-of-life call */
	}
	printf("end: eol(handler 7)=%d eol(fallback)=%d calls after end-of-life=%d\n", eol[0], eol[1], dead_calls);
	if (eol[1] != 1) { printf("VIOLATION: fallback handler got %d end-of-life notifications\n", eol[1]); bad = 1; }
	if (dead_calls)  { printf("VIOLATION: handler invoked after its end-of-life notification\n"); bad = 1; }
	return bad;
}

/* f2: mpt::dispatch::set_default() checks table POSITION instead of handler id
 * build: g++ -I../mptcore f2_demo.cpp -L../_build/mptcore -lmptcore -L../_build/mpt++ -lmpt++ -Wl,-rpath,... */
#include <stdio.h>
#include "event.h"
using namespace mpt;

static int calls[2];
static int h(void *a, event *ev) { if (ev) ++calls[(long) a]; return 0; }

int main()
{
	int bad = 0;
	dispatch d;
	d.set_handler(1000, h, (void *) 0);
	d.set_handler(2000, h, (void *) 1);
	
	/* handler for id 1000 IS registered: must be accepted as default */
	if (!d.set_default(1000)) {
		printf("VIOLATION: set_default(1000) refused although a handler for id 1000 is registered\n");
		bad = 1;
	}
	/* no handler has id 1 (but table position 1 exists): must be refused */
	if (d.set_default(1)) {
		int ret = mpt_dispatch_emit(&d, 0);
		printf("VIOLATION: set_default(1) accepted without handler for id 1; emit(default) = %d, calls = %d/%d\n", ret, calls[0], calls[1]);
		bad = 1;
	}
	return bad;
}

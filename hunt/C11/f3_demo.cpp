/* f3: event delivered to a reserved slot is handed to log_reply(), which reads the event as a message (out-of-bounds read)
 * build: g++ -fsanitize=address -I../mptcore f3_demo.cpp -L../_build/mptcore -lmptcore -L../_build/mpt++ -lmpt++ -Wl,-rpath,... */
#include <stdio.h>
#include "event.h"
using namespace mpt;

int main()
{
	dispatch d;
	command *c = d.reserve(1);   /* public member inherited from command::array */
	if (!c) return 2;
	event *ev = new event;       /* 24 byte object */
	ev->id = c->id;              /* == 1; same effect for a message whose first byte is 1 */
	int r = mpt_dispatch_emit(&d, ev); /* ASan: heap-buffer-overflow READ of size 32 in log_reply */
	printf("emit = %d (no sanitizer: silent type confusion event/message)\n", r);
	delete ev;
	return 0;
}

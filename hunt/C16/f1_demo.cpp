/*
 * f1: implicit copy/move assignment of mpt::item<T> corrupts the copied name.
 *
 * build:
 *   g++ -g -I$WT/mptcore -I$WT/mpt++ f1_demo.cpp -L$WT/_build/mptcore -lmptcore \
 *       -L$WT/_build/mpt++ -lmpt++ -Wl,-rpath,$WT/_build/mptcore -Wl,-rpath,$WT/_build/mpt++ -o f1_demo
 */
#include <cstdio>
#include <cstring>
#include "meta.h"

using namespace mpt;

int main()
{
	int fails = 0;
	
	/* original item: inline capacity 20 (identifier + _post[8]) */
	item<metatype> orig;
	orig.set_name("ABCDEFGHIJKLMNOPQRS");   /* 19 chars, inline; bytes 12.. live in _post */
	
	/* copy-constructed item: identifier(const identifier &) resets capacity to 12,
	 * the default member-wise copy additionally clones _post ("MNOPQRS") */
	item<metatype> copy(orig);
	if (!copy.equal("ABCDEFGHIJKLMNOPQRS", -1)) {
		std::printf("copy ctor: got '%s'\n", copy.name());
		++fails;
	}
	/* rename the copy: 13..19 chars need a heap block in `copy` (capacity 12) */
	for (int len = 10; len <= 22; ++len) {
		char name[32];
		for (int i = 0; i < len; ++i) name[i] = 'a' + i;
		name[len] = 0;
		copy.set_name(name);
		
		item<metatype> dest;        /* capacity 20 */
		dest.set_name("previous");
		dest = copy;                /* implicit item::operator=(const item &) */
		
		if (!copy.equal(name, len)) {
			std::printf("len=%d: source changed: '%s'\n", len, copy.name());
			++fails;
		}
		if (!dest.equal(name, len) || std::strcmp(dest.name(), name)) {
			std::printf("len=%d: assigned item reads '%s', expected '%s'\n", len, dest.name(), name);
			++fails;
		}
		if (mpt_identifier_inequal(&dest, &copy)) {
			std::printf("len=%d: mpt_identifier_inequal(dest, source) != 0 after copy\n", len);
			++fails;
		}
	}
	std::printf("fails=%d\n", fails);
	return fails ? 1 : 0;
}

/*
 * f3: mpt_identifier_set() with a name that is part of the identifier's own inline
 *     content (e.g. stripping a prefix from the current name) calls memcpy() on
 *     overlapping ranges.
 *
 * build: gcc -g -fsanitize=address -I$WT/mptcore f3_demo.c $WT/mptcore/misc/identifier.c -o f3_demo
 * ASan: "memcpy-param-overlap" in mpt_identifier_set (identifier.c, inline branch).
 */
#include <stdio.h>
#include <string.h>

#include "core.h"

int main(void)
{
	MPT_STRUCT(identifier) *id = mpt_identifier_new(60); /* 64 byte storage, 60 inline */
	const char *cur;
	
	mpt_identifier_set(id, "mpt.a_rather_long_identifier_name_for_testing", -1);
	cur = mpt_identifier_data(id);
	
	/* strip the "mpt." prefix from the stored name */
	if (!mpt_identifier_set(id, cur + 4, -1)) {
		return 2;
	}
	puts(mpt_identifier_data(id));
	return mpt_identifier_compare(id, "a_rather_long_identifier_name_for_testing", -1) ? 1 : 0;
}

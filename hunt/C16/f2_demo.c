/*
 * f2: mpt_identifier_set() with a name of INT_MAX bytes overflows `len + 1`
 *     and smashes the heap instead of refusing the over-long name.
 *
 * build: gcc -g -I$WT/mptcore f2_demo.c -L$WT/_build/mptcore -lmptcore -Wl,-rpath,$WT/_build/mptcore -o f2_demo
 * needs 2 GiB of (lazily committed) address space; killed by SIGSEGV on the current tree.
 */
#include <stdio.h>
#include <string.h>
#include <limits.h>
#include <sys/mman.h>

#include "core.h"

int main(void)
{
	MPT_STRUCT(identifier) *id;
	size_t sz = (size_t) INT_MAX + 1;
	char *huge;
	void *r;
	
	huge = mmap(0, sz, PROT_READ | PROT_WRITE, MAP_PRIVATE | MAP_ANONYMOUS | MAP_NORESERVE, -1, 0);
	if (huge == MAP_FAILED) {
		perror("mmap");
		return 0; /* can not test here */
	}
	memset(huge, 'a', sz - 1); /* valid C string, strlen() == INT_MAX */
	
	if (!(id = mpt_identifier_new(0))) {
		return 0;
	}
	/* over-long name: documented limit is UINT16_MAX -> must be refused (return 0) */
	r = mpt_identifier_set(id, huge, -1);      /* same with explicit len = INT_MAX */
	
	printf("mpt_identifier_set() = %p, _len = %u\n", r, (unsigned) id->_len);
	return r ? 1 : 0;
}

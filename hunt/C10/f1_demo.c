/*
 * f1: mpt_node_query() does not restore path->first after a failed lookup.
 * With length-prefixed (SepBinary) paths this desynchronises the walk:
 * assigning "aa"/"c" after "aa"/"bbb" creates wrongly named nodes and reads
 * far outside the path buffer (ASan: heap-buffer-overflow, plain build: runaway).
 *
 * build: gcc -I$WT/mptcore f1_demo.c -L$WT/_build/mptcore -lmptcore -Wl,-rpath,$WT/_build/mptcore
 */
#include <stdio.h>
#include <string.h>
#include <stdlib.h>
#include <unistd.h>
#include <sys/wait.h>
#include <sys/resource.h>

#include "meta.h"
#include "types.h"
#include "node.h"
#include "config.h"

/* build length-prefixed path from zero-terminated element list */
static void build(MPT_STRUCT(path) *p, const char * const *el)
{
	static const MPT_STRUCT(path) init = MPT_PATH_INIT;
	*p = init;
	p->flags = MPT_PATHFLAG(SepBinary);
	for (; *el; ++el) {
		const char *s;
		int valid = 0;
		for (s = *el; *s; ++s) {
			if (mpt_path_addchar(p, *s) < 0) exit(100);
			valid = mpt_path_valid(p);
		}
		if (mpt_path_add(p, valid) < 0) exit(101);
	}
}
static int store_check(void)
{
	static const char * const p1[] = { "aa", "bbb", 0 }, * const p2[] = { "aa", "c", 0 };
	MPT_INTERFACE(metatype) *g = mpt_config_global(0);
	MPT_INTERFACE(config) *cfg = 0;
	MPT_STRUCT(path) p;
	MPT_STRUCT(value) val;
	const char *txt, *got;
	
	MPT_metatype_convert(g, MPT_ENUM(TypeConfigPtr), &cfg);
	
	build(&p, p1); txt = "v1"; MPT_value_set(&val, 's', &txt);
	if (cfg->_vptr->assign(cfg, &p, &val) < 0) return 10;
	mpt_path_fini(&p);
	
	build(&p, p2); txt = "v2"; MPT_value_set(&val, 's', &txt);
	if (cfg->_vptr->assign(cfg, &p, &val) < 0) return 11;
	got = 0;
	if (mpt_config_getp(cfg, &p, 's', &got) < 0 || !got || strcmp(got, "v2")) return 12;
	mpt_path_fini(&p);
	
	build(&p, p1);
	got = 0;
	if (mpt_config_getp(cfg, &p, 's', &got) < 0 || !got || strcmp(got, "v1")) return 13;
	mpt_path_fini(&p);
	return 0;
}
int main(void)
{
	static const char * const p1[] = { "aa", "bbb", 0 }, * const p2[] = { "aa", "c", 0 };
	MPT_STRUCT(node) *root = 0, *n;
	MPT_STRUCT(path) p, q;
	MPT_STRUCT(value) val;
	const char *txt = "v1";
	int fail = 0, status = 0;
	pid_t pid;
	
	/* direct check: tree has aa/bbb, query aa/c */
	build(&p, p1);
	MPT_value_set(&val, 's', &txt);
	if (!mpt_node_assign(&root, &p, &val)) return 102;
	mpt_path_fini(&p);
	
	build(&p, p2);
	q = p;
	n = mpt_node_query(root, &q);
	/* expected: n == node "aa", q describes remaining element "c" (first == 1) */
	printf("after failed lookup: off=%zu len=%zu first=%u (element at off has length %u)\n",
	       q.off, q.len, (unsigned) q.first, 1u);
	if (!n || q.len != 3 || q.first != 1) {
		printf("FAIL: remaining path is not the single element \"c\"\n");
		fail = 1;
	} else {
		int l = mpt_path_next(&q);
		if (l != 1) { printf("FAIL: next element has length %d\n", l); fail = 1; }
	}
	/* store level check in guarded child (may run away / crash) */
	fflush(stdout);
	if (!(pid = fork())) {
		struct rlimit lim = { 1UL << 30, 1UL << 30 };
		if (!getenv("ASAN_OPTIONS")) setrlimit(RLIMIT_AS, &lim);
		alarm(20);
		_exit(store_check());
	}
	waitpid(pid, &status, 0);
	if (WIFSIGNALED(status)) {
		printf("FAIL: global config assign of aa/c after aa/bbb killed by signal %d\n", WTERMSIG(status));
		fail = 1;
	} else if (WEXITSTATUS(status)) {
		printf("FAIL: global config with binary paths: code %d\n", WEXITSTATUS(status));
		fail = 1;
	}
	if (!fail) printf("ok\n");
	return fail;
}

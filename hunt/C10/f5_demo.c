/*
 * f5: mpt_path_del() on a partially consumed (off > 0) array-backed path truncates the buffer to
 *     `len` instead of `off + len`; the path's own bytes become "unused" and the next
 *     mpt_path_addchar() overwrites an element that is still part of the path.
 *
 * build: gcc -I$WT/mptcore f5_demo.c -L$WT/_build/mptcore -lmptcore -Wl,-rpath,$WT/_build/mptcore
 */
#include <stdio.h>
#include <string.h>
#include <stdlib.h>

#include "array.h"
#include "config.h"

static int add(MPT_STRUCT(path) *p, const char *s)
{
	int valid = 0;
	for (; *s; ++s) {
		if (mpt_path_addchar(p, *s) < 0) return -100;
		if ((valid = mpt_path_valid(p)) < 0) return valid;
	}
	return mpt_path_add(p, valid);
}
static int run(int binary)
{
	MPT_STRUCT(path) p = MPT_PATH_INIT, q;
	const char *cur;
	char got[64] = "";
	int len, r;
	
	if (binary) p.flags = MPT_PATHFLAG(SepBinary);
	if (add(&p, "aa") < 0 || add(&p, "bbb") < 0 || add(&p, "c") < 0) return 100;
	
	/* walk: consume "aa" */
	if (mpt_path_next(&p) != 2) return 101;
	/* rebuild: replace last element "c" by "dd" */
	if (mpt_path_del(&p) != 1) return 102;
	
	/* remaining path is "bbb": its bytes must still be covered by the buffer */
	if (!mpt_path_data(&p)) {
		printf("%s: FAIL: mpt_path_data() fails after next+del (buffer used size < off+len)\n", binary ? "binary" : "text");
	}
	r = add(&p, "dd");
	
	/* visit elements */
	q = p;
	cur = q.base + q.off;
	while ((len = mpt_path_next(&q)) >= 0) {
		strncat(got, "/", sizeof(got) - strlen(got) - 1);
		strncat(got, cur, len < 16 ? len : 16);
		cur = q.base + q.off;
	}
	printf("%s: add(dd)=%d elements after next, del, add(dd): %s (expected /bbb/dd)\n", binary ? "binary" : "text", r, got);
	return strcmp(got, "/bbb/dd") ? 1 : 0;
}
int main(void)
{
	int t = run(0), b = run(1);
	return (t || b) ? 1 : 0;
}

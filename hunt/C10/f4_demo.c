/*
 * f4: refused assignment through a sub-tree view leaves a child node without parent link;
 *     removing that child later leaves a dangling `children` pointer in the view's base node
 *     -> use after free on the next query/assign below the base.
 *
 * build: gcc -I$WT/mptcore f4_demo.c -L$WT/_build/mptcore -lmptcore -Wl,-rpath,$WT/_build/mptcore
 *        (ASan build of library + demo reports heap-use-after-free in mpt_node_locate)
 */
#include <stdio.h>
#include <string.h>
#include <stdlib.h>

#include "meta.h"
#include "types.h"
#include "node.h"
#include "config.h"

int main(void)
{
	MPT_STRUCT(path) p = MPT_PATH_INIT;
	MPT_INTERFACE(metatype) *mt;
	MPT_INTERFACE(config) *view = 0;
	MPT_STRUCT(node) *base = 0;
	const char *s = 0;
	size_t big = 70000; /* element longer than identifier limit (65534) -> refused */
	char *path;
	int r, fail = 0;
	
	setbuf(stdout, 0);
	
	if (!(path = malloc(big + 3))) return 100;
	strcpy(path, "x.");
	memset(path + 2, 'y', big);
	path[big + 2] = 0;
	
	/* existing entry "a" without children, view on "a" */
	r = mpt_config_set(0, "a", "base", '.', 0);
	printf("set a = base: %d\n", r);
	mpt_path_set(&p, "a", -1);
	if (!(mt = mpt_config_global(&p))
	 || MPT_metatype_convert(mt, MPT_ENUM(TypeConfigPtr), &view) < 0
	 || !view) return 101;
	MPT_metatype_convert(mt, MPT_ENUM(TypeNodePtr), &base);
	
	/* assignment via view is refused (second element too long) but has already created "a.x" */
	r = mpt_config_set(view, path, "v", '.', 0);
	printf("view: set x.<70000 bytes> = v: %d (refusal is fine)\n", r);
	if (base && base->children && base->children->parent != base) {
		printf("FAIL: node a.x exists but its parent link is %p, not node a (%p)\n",
		       (void *) base->children->parent, (void *) base);
		fail = 1;
	}
	/* remove a.x through the process-wide config */
	r = mpt_config_set(0, "a.x", 0, '.', 0);
	printf("remove a.x: %d\n", r);
	if (base && base->children) {
		printf("FAIL: a.x was destroyed but node a still points to it (dangling children pointer)\n");
		fail = 1;
	}
	if (fail && !getenv("F4_CONTINUE")) {
		return 1;
	}
	/* any further access below "a" touches freed memory */
	r = mpt_config_get(0, "a.x", 's', &s);
	printf("get a.x after remove: %d\n", r);
	if (r >= 0) fail = 1;
	r = mpt_config_set(0, "a.z", "new", '.', 0);
	r = mpt_config_get(0, "a.z", 's', &s);
	printf("get a.z: %d\n", r);
	return fail;
}

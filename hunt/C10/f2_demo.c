/*
 * f2: mpt_path_last() on a length-prefixed (SepBinary) path selects the wrong bytes.
 *
 * build: gcc -I$WT/mptcore f2_demo.c -L$WT/_build/mptcore -lmptcore -Wl,-rpath,$WT/_build/mptcore
 */
#include <stdio.h>
#include <string.h>
#include <stdlib.h>

#include "config.h"

static void add(MPT_STRUCT(path) *p, const char *s, size_t n)
{
	int valid = 0;
	size_t i;
	for (i = 0; i < n; ++i) {
		if (mpt_path_addchar(p, s[i]) < 0) exit(100);
		valid = mpt_path_valid(p);
	}
	if (mpt_path_add(p, valid) < 0) exit(101);
}
static int check(const char *what, MPT_STRUCT(path) *p, const char *want, size_t wlen)
{
	MPT_STRUCT(path) q = *p;
	int len = mpt_path_last(&q);
	if (len < 0) {
		printf("FAIL %s: mpt_path_last() = %d\n", what, len);
		return 1;
	}
	if ((size_t) len != wlen || memcmp(q.base + q.off, want, wlen)) {
		printf("FAIL %s: last element: len=%d off=%zu (expected len=%zu off=%zu), bytes differ\n",
		       what, len, q.off, wlen, p->off + p->len - 2 - wlen);
		return 1;
	}
	/* remaining path must be walkable as exactly one element */
	if (mpt_path_next(&q) != len || q.len) {
		printf("FAIL %s: path after mpt_path_last() is not a single element\n", what);
		return 1;
	}
	printf("ok   %s\n", what);
	return 0;
}
int main(void)
{
	MPT_STRUCT(path) p = MPT_PATH_INIT, t = MPT_PATH_INIT;
	char big[200];
	int fail = 0;
	
	/* reference: text path works */
	mpt_path_set(&t, "aa.bbb.c", -1);
	fail += check("text aa.bbb.c", &t, "c", 1);
	
	p.flags = MPT_PATHFLAG(SepBinary);
	add(&p, "aa", 2);
	add(&p, "bbb", 3);
	add(&p, "c", 1);
	fail += check("binary aa/bbb/c", &p, "c", 1);
	
	/* after consuming the first element */
	{
		MPT_STRUCT(path) q = p;
		mpt_path_next(&q);
		fail += check("binary (aa/)bbb/c", &q, "c", 1);
	}
	/* last element with 128..255 bytes: length byte read as signed char */
	memset(big, 'x', sizeof(big));
	add(&p, big, sizeof(big));
	fail += check("binary aa/bbb/c/<200 x>", &p, big, sizeof(big));
	
	return fail ? 1 : 0;
}

/*
 * f3: C++ mpt::path::add(n) ignores its argument (passes the member `len` instead).
 *
 * build: g++ -I$WT/mptcore f3_demo.cpp -L$WT/_build/mpt++ -lmpt++ -L$WT/_build/mptcore -lmptcore \
 *            -Wl,-rpath,$WT/_build/mpt++ -Wl,-rpath,$WT/_build/mptcore
 */
#include <cstdio>
#include <cstring>
#include <string>
#include <vector>

#include "config.h"

static bool append(mpt::path &p, const char *elem, bool cxx)
{
	int valid = 0;
	for (const char *s = elem; *s; ++s) {
		if (mpt_path_addchar(&p, *s) < 0) return false;
		valid = mpt_path_valid(&p);
	}
	/* C++ wrapper vs. C core function, same argument */
	return (cxx ? p.add(valid) : mpt_path_add(&p, valid)) >= 0;
}
static std::vector<std::string> walk(mpt::path p)
{
	std::vector<std::string> ret;
	while (!p.empty()) {
		mpt::span<const char> v = p.value();
		const char *start = v.begin();
		int len = mpt_path_next(&p);
		if (len < 0) break;
		ret.push_back(std::string(start, len));
	}
	return ret;
}
static int check(bool cxx)
{
	mpt::path p;
	if (!append(p, "aa", cxx) || !append(p, "bbb", cxx)) {
		printf("%s: add failed\n", cxx ? "path::add" : "mpt_path_add");
		return 1;
	}
	std::vector<std::string> e = walk(p);
	printf("%s:", cxx ? "path::add   " : "mpt_path_add");
	for (size_t i = 0; i < e.size(); ++i) printf(" '%s'", e[i].c_str());
	printf("\n");
	return (e.size() == 2 && e[0] == "aa" && e[1] == "bbb") ? 0 : 1;
}
int main()
{
	int c = check(false);
	int cxx = check(true);
	if (c) printf("FAIL: C core\n");
	if (cxx) printf("FAIL: path::add(n) did not append the n pending characters as element\n");
	return (c || cxx) ? 1 : 0;
}

// encode_array::push(const message &) ignores continuation fragments and never
// terminates for a non-empty first fragment.
#include <cstdio>
#include <cstring>
#include <unistd.h>
#include <sys/uio.h>
#include <sys/resource.h>

#include "message.h"
#include "array.h"

using namespace mpt;

static size_t pushed(const message &m, bool *ok)
{
	encode_array a;              // no encoder: raw append
	*ok = a.push(m);
	a.push(0, 0);                // terminate: scratch -> done
	return a.data().size();
}

int main()
{
	static const char text[] = "hello world";
	const size_t len = sizeof(text) - 1;
	int err = 0;
	setvbuf(stdout, 0, _IONBF, 0);
	bool ok;
	size_t got;

	/* (A) same bytes, first fragment empty, everything in the continuation */
	struct iovec cont[2];
	cont[0].iov_base = (void *) text;       cont[0].iov_len = 5;
	cont[1].iov_base = (void *) (text + 5); cont[1].iov_len = len - 5;
	message frag;                // base = 0, used = 0
	frag.cont = cont;
	frag.clen = 2;
	got = pushed(frag, &ok);
	printf("fragmented {0 | 5, 6}: push=%d, array holds %zu of %zu bytes\n", ok, got, frag.length());
	if (!ok || got != len) {
		printf("  VIOLATION: continuation fragments were not appended\n");
		err |= 1;
	}

	/* (B) contiguous message / non-empty first fragment: never returns.
	 * limit memory and time so the demo terminates. */
	struct rlimit rl = { 256UL << 20, 256UL << 20 };
	setrlimit(RLIMIT_AS, &rl);
	alarm(5);                    // killed by SIGALRM == did not terminate
	message flat(text, len);
	got = pushed(flat, &ok);
	printf("contiguous {11}: push=%d, array holds %zu of %zu bytes\n", ok, got, len);
	if (!ok || got != len) {
		printf("  VIOLATION: same data appended over and over until allocation failed\n");
		err |= 2;
	}
	return err;
}

// graphic::target(): the ':' search in a length-limited message depends on fragmentation
#include <cstdio>
#include <sys/uio.h>

#include "message.h"
#include "layout.h"
#include "graphic.h"

using namespace mpt;

int main()
{
	static char text[] = "ab:1:1";
	graphic g;                    // no layouts registered
	laydest d1, d2;
	int r1, r2;

	/* only the first two bytes ("ab") belong to the destination: no ':' in range */
	message flat(text, sizeof(text) - 1);
	r1 = g.target(d1, flat, 2);

	/* same bytes, cut as "a" | "b:1:1" */
	struct iovec cont;
	cont.iov_base = text + 1;
	cont.iov_len  = sizeof(text) - 2;
	message frag(text, 1);
	frag.cont = &cont;
	frag.clen = 1;
	r2 = g.target(d2, frag, 2);

	printf("contiguous: %d (MissingData = %d)\n", r1, MissingData);
	printf("fragmented: %d (BadValue    = %d)\n", r2, BadValue);
	if (r1 != r2) {
		printf("VIOLATION: ':' found beyond the 2-byte limit in the fragmented message\n");
		return 1;
	}
	return 0;
}

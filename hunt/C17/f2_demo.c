#include <stdio.h>
#include <string.h>
#include <sys/uio.h>
#include "message.h"
#include "queue.h"
#include "stream.h"

static size_t emit(const MPT_STRUCT(message) *m, char *out, size_t max, ssize_t *ret)
{
	MPT_STRUCT(stream) srm = MPT_STREAM_INIT;
	struct iovec o;
	size_t len;
	o.iov_base = out; o.iov_len = max;
	memset(out, 0, max);
	mpt_stream_memory(&srm, 0, &o);
	*ret = mpt_stream_append(&srm, m);
	mpt_stream_push(&srm, 0, 0);   /* terminate message */
	len = srm._wd.data.len;
	return len;
}
static void show(const char *t, const char *b, size_t n, ssize_t r)
{
	size_t i;
	printf("%-12s ret=%zd out[%zu]=\"", t, r, n);
	for (i = 0; i < n; i++) { if (b[i] == '\n') printf("\\n"); else if (b[i] < 32) printf("\\x%02x", b[i]); else putchar(b[i]); }
	printf("\"\n");
}
int main()
{
	static char text[] = "helloworld";
	char o1[64], o2[64], o3[64];
	size_t n1, n2, n3; ssize_t r1, r2, r3;
	MPT_STRUCT(message) flat = MPT_MESSAGE_INIT, frag = MPT_MESSAGE_INIT, lead = MPT_MESSAGE_INIT;
	struct iovec c[2], d[1];
	int err = 0;

	flat.base = text; flat.used = 10;

	frag.base = text; frag.used = 5;           /* "hello" | "" | "world" */
	c[0].iov_base = 0; c[0].iov_len = 0;
	c[1].iov_base = text + 5; c[1].iov_len = 5;
	frag.cont = c; frag.clen = 2;

	lead.base = 0; lead.used = 0;              /* "" | "helloworld" */
	d[0].iov_base = text; d[0].iov_len = 10;
	lead.cont = d; lead.clen = 1;

	n1 = emit(&flat, o1, sizeof(o1), &r1); show("contiguous", o1, n1, r1);
	n2 = emit(&frag, o2, sizeof(o2), &r2); show("5|0|5", o2, n2, r2);
	n3 = emit(&lead, o3, sizeof(o3), &r3); show("0|10", o3, n3, r3);
	if (n1 != n2 || memcmp(o1, o2, n1)) { printf("VIOLATION: empty inner fragment changes stream output\n"); err |= 1; }
	if (n1 != n3 || memcmp(o1, o3, n1)) { printf("VIOLATION: empty first fragment changes stream output\n"); err |= 2; }
	return err;
}

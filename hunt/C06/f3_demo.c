/* C06 f3: built-in scalar 'e' (long double) has no message value code
 * although the reverse mapping and the type registry know it. */
#include <stdio.h>
#include "types.h"
#include "convert.h"
#include "message.h"

int main(void)
{
	static const char types[] = "bnixyqutfde";
	const char *t;
	int bad = 0;
	for (t = types; *t; t++) {
		const MPT_STRUCT(type_traits) *traits = mpt_type_traits(*t);
		int code = mpt_msgvalfmt_code(*t);
		int back = code < 0 ? code : mpt_msgvalfmt_typeid(code);
		size_t size = code < 0 ? 0 : mpt_msgvalfmt_size(code);
		printf("'%c': registry size %zu, code %d, code size %zu, back '%c'\n",
		       *t, traits ? traits->size : 0, code, size, back > 0 ? back : '?');
		if (!traits || code < 0 || size != traits->size || back != *t) {
			bad = 1;
		}
	}
#ifdef _MPT_FLOAT_EXTENDED_H
	printf("typeid(code(Float, long double)) = '%c'\n",
	       mpt_msgvalfmt_typeid(MPT_message_value(Float, long double)));
#endif
	if (bad) {
		printf("VIOLATION: scalar type without matching size description\n");
		return 1;
	}
	return 0;
}

/* C06 f1: a successfully registered 4-character name that equals a built-in
 * short alias ("iter", "meta") can not be looked up: the full-name lookup
 * returns the identifier of a DIFFERENT type. */
#include <stdio.h>
#include <string.h>
#include "types.h"

int main(void)
{
	const MPT_STRUCT(named_traits) *reg, *got;
	int bad = 0, id;
	
	/* interface named "iter": 4 chars, not a duplicate -> accepted */
	if (!(reg = mpt_type_interface_add("iter"))) {
		printf("registration of \"iter\" refused (would be fine)\n");
	} else {
		printf("interface \"iter\" registered as 0x%x\n", (unsigned) reg->type);
		got = mpt_named_traits("iter", -1);
		printf("  mpt_named_traits(\"iter\", -1) -> 0x%x (%s)\n",
		       got ? (unsigned) got->type : 0, got && got->name ? got->name : "?");
		if (got != reg) bad |= 1;
		id = mpt_alias_typeid("iter", 0);
		printf("  mpt_alias_typeid(\"iter\")     -> 0x%x\n", id);
		if (id != (int) reg->type) bad |= 2;
		/* the length-limited form does find it: the two lookups disagree */
		got = mpt_named_traits("iter", 4);
		printf("  mpt_named_traits(\"iter\", 4)  -> 0x%x\n", got ? (unsigned) got->type : 0);
	}
	/* metatype named "meta" */
	if (!(reg = mpt_type_metatype_add("meta"))) {
		printf("registration of \"meta\" refused (would be fine)\n");
	} else {
		printf("metatype \"meta\" registered as 0x%x\n", (unsigned) reg->type);
		got = mpt_named_traits("meta", -1);
		printf("  mpt_named_traits(\"meta\", -1) -> 0x%x (%s)\n",
		       got ? (unsigned) got->type : 0, got && got->name ? got->name : "?");
		if (got != reg) bad |= 4;
	}
	if (bad) {
		printf("VIOLATION (mask %d): registered name resolves to a different identifier\n", bad);
		return 1;
	}
	return 0;
}

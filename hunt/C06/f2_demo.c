/* C06 f2: duplicate names are only refused within one kind.
 * A metatype may take the name of an (even built-in) interface and then
 * shadows it; an interface may take the name of a metatype and is then
 * never found by name. */
#include <stdio.h>
#include <string.h>
#include "types.h"

int main(void)
{
	const MPT_STRUCT(named_traits) *ifc, *reg, *got;
	int bad = 0;
	
	/* id -> name -> id for the built-in logger interface works at first */
	ifc = mpt_interface_traits(MPT_ENUM(TypeLoggerPtr));
	got = mpt_named_traits(ifc->name, -1);
	printf("before: \"%s\" -> 0x%x\n", ifc->name, got ? (unsigned) got->type : 0);
	if (got != ifc) return 2;
	
	/* duplicate of an existing registered name: must be refused */
	reg = mpt_type_metatype_add("logger");
	if (reg) {
		printf("metatype with duplicate name \"logger\" accepted as 0x%x\n", (unsigned) reg->type);
		bad |= 1;
	}
	got = mpt_named_traits(ifc->name, -1);
	printf("after:  \"%s\" -> 0x%x (interface id is 0x%x)\n", ifc->name,
	       got ? (unsigned) got->type : 0, (unsigned) ifc->type);
	if (got != ifc) bad |= 2;
	got = mpt_named_traits("logger", 6);
	if (got != ifc) bad |= 4;
	
	/* other direction: interface with the name of the (built-in) metatype */
	reg = mpt_type_interface_add("metatype");
	if (reg) {
		printf("interface with duplicate name \"metatype\" accepted as 0x%x\n", (unsigned) reg->type);
		bad |= 8;
		got = mpt_named_traits("metatype", -1);
		printf("  lookup \"metatype\" -> 0x%x\n", got ? (unsigned) got->type : 0);
		if (got != reg) bad |= 16;
	}
	if (bad) {
		printf("VIOLATION (mask %d)\n", bad);
		return 1;
	}
	return 0;
}

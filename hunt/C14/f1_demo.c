/* f1: mpt_tree_clone()/mpt_list_clone()/mpt_node_clone() do not reproduce node values:
 *     every clone of a small text value is one byte longer than its source.
 * build:
 *   cc -I/tmp/hunt-C14/mptcore f1_demo.c -o f1_demo -L/tmp/hunt-C14/_build/mptcore -lmptcore -Wl,-rpath,/tmp/hunt-C14/_build/mptcore
 */
#include <stdio.h>
#include <string.h>
#include "node.h"
#include "meta.h"
#include "types.h"

static struct mpt_node *mk(const char *name, const char *text)
{
	struct mpt_node *n = mpt_node_new(strlen(name) + 1);
	struct mpt_value val = MPT_VALUE_INIT('s', &text);
	mpt_identifier_set(&n->ident, name, -1);
	n->_meta = mpt_meta_new(&val);
	return n;
}
static int same_value(const struct mpt_node *a, const struct mpt_node *b, const char *where)
{
	size_t la = 0, lb = 0;
	const char *da = mpt_node_data(a, &la), *db = mpt_node_data(b, &lb);
	if (la != lb || memcmp(da, db, la)) {
		printf("%s: source value has %zu bytes, clone value has %zu bytes\n", where, la, lb);
		return 0;
	}
	return 1;
}
int main(void)
{
	struct mpt_node *root = mk("root", "r"), *sect = mk("sect", "some text"), *opt = mk("opt", "42");
	struct mpt_node *c1, *c2;
	int bad = 0;
	
	mpt_gnode_insert(root, 0, sect);
	mpt_gnode_insert(sect, 0, opt);   /* depth 2 */
	
	if (!(c1 = mpt_tree_clone(root)) || !(c2 = mpt_tree_clone(c1))) return 2;
	
	bad |= !same_value(root, c1, "depth 0");
	bad |= !same_value(root->children, c1->children, "depth 1");
	bad |= !same_value(root->children->children, c1->children->children, "depth 2");
	bad |= !same_value(root->children->children, c2->children->children, "depth 2, clone of clone");
	
	mpt_node_destroy(c2); mpt_node_destroy(c1); mpt_node_destroy(root);
	return bad ? 1 : 0;
}

/* f4: mpt_gnode_relink() does not restore the back link of first children.
 * build:
 *   cc -I/tmp/hunt-C14/mptcore f4_demo.c -o f4_demo -L/tmp/hunt-C14/_build/mptcore -lmptcore -Wl,-rpath,/tmp/hunt-C14/_build/mptcore
 */
#include <stdio.h>
#include <string.h>
#include "node.h"

static struct mpt_node *mk(const char *s)
{
	struct mpt_node *n = mpt_node_new(strlen(s) + 1);
	mpt_identifier_set(&n->ident, s, -1);
	return n;
}
static const char *nm(const struct mpt_node *n) { return n ? mpt_node_ident(n) : "0"; }

int main(void)
{
	struct mpt_node *z = mk("z"), *a = mk("a"), *b = mk("b"), *p = mk("p");
	int bad = 0;
	
	mpt_gnode_add(z, 0, a);
	mpt_gnode_add(z, 0, b);              /* top level list: z a b */
	
	/* manual concatenation (the documented use case of relink):
	 * cut the list behind z and hang the rest below p, only top->bottom / prev->next links are set */
	z->next = 0;
	p->children = a;
	mpt_gnode_relink(p);                 /* "restore links of node (current and all children)" */
	
	printf("after relink: a->parent=%s a->prev=%s | b->parent=%s b->prev=%s\n", nm(a->parent), nm(a->prev), nm(b->parent), nm(b->prev));
	if (a->prev) {
		printf("head of p's child list still has a predecessor ('%s'), whose next is %s\n", nm(a->prev), nm(a->prev->next));
		bad = 1;
	}
	/* consequence: a regular unlink of the first child now corrupts both lists */
	mpt_node_unlink(a);
	printf("after unlink(a): p->children=%s (expected b), z->next=%s (expected 0), b->prev=%s b->parent=%s\n",
	       nm(p->children), nm(z->next), nm(b->prev), nm(b->parent));
	if (p->children != b || z->next) {
		bad = 1;
	}
	return bad;
}

/* f2: mpt_node_clone() keeps using (and returns) the copy it has just destroyed when the name copy fails.
 * The failing allocation is provoked by interposing malloc() (plain glibc build, NOT with ASan):
 *   cc -I/tmp/hunt-C14/mptcore f2_demo.c -o f2_demo -L/tmp/hunt-C14/_build/mptcore -lmptcore -Wl,-rpath,/tmp/hunt-C14/_build/mptcore
 * exit 1 (or SIGSEGV/abort from the heap corruption) on the defective tree, 0 when fixed.
 */
#include <stdio.h>
#include <string.h>
#include <stdlib.h>
#include <errno.h>
#include "node.h"
#include "meta.h"
#include "types.h"

extern void *__libc_malloc(size_t);
extern void __libc_free(void *);

static size_t fail_size;          /* fail the next malloc() of exactly this size */
static void *freed[64]; static int nfreed, watch;

void *malloc(size_t n)
{
	if (fail_size && n == fail_size) { fail_size = 0; errno = ENOMEM; return 0; }
	return __libc_malloc(n);
}
void free(void *p)
{
	if (watch && p) {               /* quarantine: remember, do not recycle */
		int i;
		for (i = 0; i < nfreed; i++) if (freed[i] == p) { printf("double free of %p\n", p); _Exit(1); }
		if (nfreed < 64) freed[nfreed++] = p;
		return;
	}
	__libc_free(p);
}
static int was_freed(const void *p) { int i; for (i = 0; i < nfreed; i++) if (freed[i] == p) return 1; return 0; }

int main(void)
{
	static char name[300];
	const char *text = "value";
	struct mpt_value val = MPT_VALUE_INIT('s', &text);
	struct mpt_node *parent, *child, *copy;
	
	setvbuf(stdout, 0, _IONBF, 0);
	memset(name, 'n', sizeof(name) - 1);          /* 299 chars: too long for inline storage (max 212) */
	
	parent = mpt_node_new(2); mpt_identifier_set(&parent->ident, "p", -1);
	child  = mpt_node_new(sizeof(name)); mpt_identifier_set(&child->ident, name, -1);
	child->_meta = mpt_meta_new(&val);
	mpt_gnode_insert(parent, 0, child);
	
	watch = 1;
	fail_size = child->ident._len;                /* allocation made by mpt_identifier_copy() */
	copy = mpt_tree_clone(parent);                /* -> mpt_list_clone() -> mpt_node_clone(child) */
	watch = 0;
	
	if (fail_size) { puts("allocation was not reached"); return 2; }
	if (!copy) { puts("clone refused cleanly"); return 0; }
	/* clone 'succeeded' although an allocation failed: inspect what we got */
	if (copy->children && was_freed(copy->children)) {
		printf("tree clone links node %p that mpt_node_clone() already released\n", (void *) copy->children);
		if (copy->children->_meta && was_freed(copy->children->_meta)) {
			printf("... and that node references value %p that was already released too\n", (void *) copy->children->_meta);
		}
		return 1;
	}
	return 0;
}

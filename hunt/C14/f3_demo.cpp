// f3: C++ mpt::node is implicitly copyable; the copy aliases children and value of the source.
// build:
//   c++ -fsanitize=address -I/tmp/hunt-C14/mptcore f3_demo.cpp -o f3_demo -L/tmp/hunt-C14/_build/mpt++ -lmpt++ -L/tmp/hunt-C14/_build/mptcore -lmptcore \
//       -Wl,-rpath,/tmp/hunt-C14/_build/mpt++ -Wl,-rpath,/tmp/hunt-C14/_build/mptcore
// exits 1 after reporting the aliasing; without the early exit the two destructors release the same
// child list / value twice (ASan: heap-use-after-free in mpt_node_clear called from mpt::node::~node()).
#include <cstdio>
#include <cstdlib>
#include <sys/uio.h>
#include "node.h"
#include "meta.h"
#include "types.h"

int main(int argc, char *[])
{
	const char *text = "value";
	mpt::value val;
	val.set('s', &text);
	
	mpt::node a;
	a.set_metatype(mpt_meta_new(&val));
	mpt::node *child = mpt::node::create("child");
	mpt_gnode_insert(&a, 0, child);
	mpt_gnode_insert(child, 0, mpt::node::create("grandchild"));   // depth 2
	
	int bad = 0;
	{
		mpt::node b(a);   // "clone" of a tree node via the public (implicit) copy constructor
		if (b.children && b.children == a.children) {
			std::fprintf(stderr, "copy and source share child list %p; child names parent %s\n",
			            (void *) b.children, b.children->parent == &b ? "copy" : "source only");
			bad = 1;
		}
		if (b.meta().instance() && b.meta().instance() == a.meta().instance()) {
			std::fprintf(stderr, "copy and source share value %p without additional reference\n", (void *) b.meta().instance());
			bad = 1;
		}
		if (bad && argc < 2) std::_Exit(1);   // pass any argument to run into the double release instead
	}   // ~b: mpt_node_clear(&b) destroys a's children, unref of a's value
	// a.children / a._meta are dangling now; ~a releases them a second time
	return bad;
}

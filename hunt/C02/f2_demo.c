/*
 * f2: mpt_stream_append()/mpt_stream_reply() split ONE message into TWO frames
 *     when the message contains a zero-length data part.
 *
 * build (from worktree root):
 *   cc -Imptcore -Imptio findings/f2_demo.c -L_build/mptcore -lmptcore -L_build/mptio -lmptio \
 *      -Wl,-rpath,$PWD/_build/mptcore -Wl,-rpath,$PWD/_build/mptio -o f2_demo
 */
#include <stdio.h>
#include <stdlib.h>
#include <string.h>
#include <unistd.h>
#include <poll.h>
#include <sys/uio.h>

#include "core.h"
#include "queue.h"
#include "message.h"
#include "convert.h"
#include "event.h"
#include "stream.h"

static int count;
static int handler(void *ctx, const MPT_STRUCT(message) *msg)
{
	MPT_STRUCT(message) tmp = *msg;
	uint8_t buf[256];
	size_t i, len = mpt_message_read(&tmp, sizeof(buf), buf);
	(void) ctx;
	fprintf(stderr, "  received message %d, %zu bytes:", ++count, len);
	for (i = 0; i < len; i++) fprintf(stderr, " %02x", buf[i]);
	fputc('\n', stderr);
	return 0;
}
static int transfer(const char *name, const MPT_STRUCT(message) *msg)
{
	MPT_STRUCT(stream) out = MPT_STREAM_INIT, in = MPT_STREAM_INIT;
	int p[2], ret;
	
	fprintf(stderr, "%s (message length %zu)\n", name, mpt_message_length(msg));
	count = 0;
	if (pipe(p) < 0) { perror("pipe"); exit(2); }
	_mpt_stream_setfile(&out._info, -1, p[1]);
	mpt_stream_setmode(&out, MPT_STREAMFLAG(WriteBuf));
	out._wd._enc = mpt_encode_cobs;
	_mpt_stream_setfile(&in._info, p[0], -1);
	mpt_stream_setmode(&in, MPT_STREAMFLAG(ReadBuf));
	in._rd._dec = mpt_decode_cobs;
	
	/* send exactly ONE message (no id) */
	ret = mpt_stream_reply(&out, 0, 0, msg);
	fprintf(stderr, "  mpt_stream_reply() = %d\n", ret);
	mpt_stream_flush(&out);
	
	mpt_stream_poll(&in, POLLIN, 0);
	do {
		ret = mpt_stream_dispatch(&in, handler, 0);
	} while (ret >= 0 && (ret & MPT_EVENTFLAG(Retry)));
	fprintf(stderr, "  sent 1 message, received %d\n", count);
	
	mpt_stream_close(&out);
	mpt_stream_close(&in);
	return count == 1 ? 0 : 1;
}
int main(void)
{
	MPT_STRUCT(message) msg = MPT_MESSAGE_INIT;
	struct iovec part[2];
	int fail = 0;
	
	/* "abc" + "" + "def" */
	msg.base = "abc";
	msg.used = 3;
	part[0].iov_base = (void *) "";
	part[0].iov_len  = 0;
	part[1].iov_base = (void *) "def";
	part[1].iov_len  = 3;
	msg.cont = part;
	msg.clen = 2;
	fail |= transfer("A: message with empty middle part", &msg);
	
	/* empty message */
	msg.base = 0;
	msg.used = 0;
	msg.cont = 0;
	msg.clen = 0;
	fail |= transfer("B: empty message", &msg);
	
	return fail;
}

/*
 * f1: framed stream reader stalls forever on completely delivered data.
 *
 * build (from worktree root, after cmake build in _build):
 *   cc -Imptcore -Imptio findings/f1_demo.c -L_build/mptcore -lmptcore -L_build/mptio -lmptio \
 *      -Wl,-rpath,$PWD/_build/mptcore -Wl,-rpath,$PWD/_build/mptio -o f1_demo
 *
 * Case A (COBS/ZPE, no special segmentation at all):
 *   one message { 'x', 0, 0, 'a' * 60 } -> 64 wire bytes, delivered in ONE piece.
 * Case B (plain COBS, cut directly after a block code byte):
 *   one message { 0, 'a' * 62 } -> 65 wire bytes, delivered as 1 + 64 bytes.
 * In both cases all bytes of the frame are in the input queue, but
 * mpt_stream_dispatch() keeps returning MPT_ERROR(MissingBuffer) and
 * mpt_stream_poll() never enlarges the queue, no matter how often they are called.
 */
#include <stdio.h>
#include <stdlib.h>
#include <string.h>
#include <unistd.h>
#include <poll.h>
#include <sys/uio.h>

#include "core.h"
#include "queue.h"
#include "message.h"
#include "convert.h"
#include "event.h"
#include "stream.h"

static int received;
static const uint8_t *expect;
static size_t expect_len;

static int handler(void *ctx, const MPT_STRUCT(message) *msg)
{
	MPT_STRUCT(message) tmp = *msg;
	uint8_t buf[1024];
	size_t len = mpt_message_read(&tmp, sizeof(buf), buf);
	(void) ctx;
	if (len == expect_len && !memcmp(buf, expect, len)) {
		++received;
	} else {
		fprintf(stderr, "  received wrong message (len %zu)\n", len);
	}
	return 0;
}
/* encode a single message with the library's own framed output stream */
static size_t encode(MPT_TYPE(data_encoder) enc, const uint8_t *msg, size_t len, uint8_t *wire, size_t max)
{
	MPT_STRUCT(stream) out = MPT_STREAM_INIT;
	int p[2];
	ssize_t n;
	if (pipe(p) < 0) { perror("pipe"); exit(2); }
	_mpt_stream_setfile(&out._info, -1, p[1]);
	mpt_stream_setmode(&out, MPT_STREAMFLAG(WriteBuf));
	out._wd._enc = enc;
	if (mpt_stream_push(&out, len, msg) != (ssize_t) len
	    || mpt_stream_push(&out, 0, 0) < 0
	    || mpt_stream_flush(&out) < 0) {
		fprintf(stderr, "encode failed\n"); exit(2);
	}
	n = read(p[0], wire, max);
	close(p[0]);
	mpt_stream_close(&out);
	return n < 0 ? 0 : n;
}
static void deliver(MPT_STRUCT(stream) *in, int fd, const uint8_t *data, size_t len)
{
	int ret;
	if (write(fd, data, len) != (ssize_t) len) { perror("write"); exit(2); }
	ret = mpt_stream_poll(in, POLLIN, 0);
	fprintf(stderr, "  delivered %zu byte(s): poll() = %d, queue len/max = %zu/%zu\n",
	        len, ret, in->_rd.data.len, in->_rd.data.max);
	do {
		ret = mpt_stream_dispatch(in, handler, 0);
	} while (ret >= 0 && (ret & MPT_EVENTFLAG(Retry)));
	fprintf(stderr, "  dispatch() = %d, received = %d\n", ret, received);
}
static int run(const char *name, MPT_TYPE(data_encoder) enc, MPT_TYPE(data_decoder) dec,
               const uint8_t *msg, size_t len, size_t first)
{
	MPT_STRUCT(stream) in = MPT_STREAM_INIT;
	uint8_t wire[1024];
	size_t wlen, i;
	int p[2], ret = 0;
	
	fprintf(stderr, "%s\n", name);
	received = 0;
	expect = msg;
	expect_len = len;
	wlen = encode(enc, msg, len, wire, sizeof(wire));
	fprintf(stderr, "  message %zu bytes -> %zu wire bytes\n", len, wlen);
	
	if (pipe(p) < 0) { perror("pipe"); exit(2); }
	_mpt_stream_setfile(&in._info, p[0], -1);
	mpt_stream_setmode(&in, MPT_STREAMFLAG(ReadBuf));
	in._rd._dec = dec;
	
	if (first) {
		deliver(&in, p[1], wire, first);
	}
	deliver(&in, p[1], wire + first, wlen - first);
	
	/* complete frame has arrived; give the reader plenty of opportunities */
	for (i = 0; i < 1000 && !received; i++) {
		mpt_stream_poll(&in, POLLIN, 0);
		ret = mpt_stream_dispatch(&in, handler, 0);
	}
	if (!received) {
		fprintf(stderr, "  STALL: all %zu wire bytes delivered, 1000 poll/dispatch rounds, "
		        "last dispatch() = %d, queue len/max = %zu/%zu, message never delivered\n",
		        wlen, ret, in._rd.data.len, in._rd.data.max);
	}
	close(p[1]);
	mpt_stream_close(&in);
	return received ? 0 : 1;
}
int main(void)
{
	uint8_t a[63], b[63];
	int fail = 0;
	
	/* A: zero pair directly after first byte, total wire size == initial queue size (64) */
	memset(a, 'a', sizeof(a));
	a[0] = 'x'; a[1] = 0; a[2] = 0;
	fail |= run("A: COBS/ZPE, single segment", mpt_encode_cobs_zpe, mpt_decode_cobs_zpe, a, sizeof(a), 0);
	
	/* B: leading zero -> first wire byte is block code 0x01, cut directly after it */
	memset(b, 'a', sizeof(b));
	b[0] = 0;
	fail |= run("B: COBS, cut after block code byte", mpt_encode_cobs, mpt_decode_cobs, b, sizeof(b), 1);
	
	return fail;
}

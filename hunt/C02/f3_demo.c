/*
 * f3: aborting the message in progress ("push(1, 0)", used by mpt_stream_reply(),
 *     mpt_connection_push() and io::stream::push() on their error paths)
 *     a) queue level: leaves the already finished COBS blocks of the aborted message in the
 *        output queue -> they are merged into the NEXT message on the receiver side,
 *     b) stream level: mpt_stream_push(srm, 1, 0) misreads the return value of
 *        mpt_queue_push() as "bytes consumed", len underflows and the encoder is called
 *        with a wild source pointer -> SIGSEGV (earlier complete messages are lost with the process).
 *
 * build (from worktree root):
 *   cc -Imptcore -Imptio findings/f3_demo.c -L_build/mptcore -lmptcore -L_build/mptio -lmptio \
 *      -Wl,-rpath,$PWD/_build/mptcore -Wl,-rpath,$PWD/_build/mptio -o f3_demo
 */
#include <stdio.h>
#include <stdlib.h>
#include <string.h>
#include <unistd.h>
#include <sys/uio.h>

#include "core.h"
#include "queue.h"
#include "message.h"
#include "convert.h"
#include "stream.h"

static int queue_level(void)
{
	MPT_STRUCT(encode_queue) out = MPT_ENCODE_QUEUE_INIT;
	MPT_STRUCT(decode_queue) in  = MPT_DECODE_QUEUE_INIT;
	MPT_STRUCT(message) msg;
	struct iovec vec;
	uint8_t wire[64], buf[64];
	size_t wlen, len, i;
	int ret;
	
	out._enc = mpt_encode_cobs;
	in._dec  = mpt_decode_cobs;
	mpt_queue_prepare(&out.data, 64);
	mpt_queue_prepare(&in.data, 64);
	
	/* start message B = "x\0y...", abort it, send message C = "hello" */
	mpt_queue_push(&out, 3, "x\0y");
	ret = mpt_queue_push(&out, 1, 0);
	fprintf(stderr, "  abort = %d (done = %zu, scratch = %zu)\n", ret, out._state.done, out._state.scratch);
	mpt_queue_push(&out, 5, "hello");
	mpt_queue_push(&out, 0, 0);
	
	wlen = out._state.done;
	mpt_queue_get(&out.data, 0, wlen, wire);
	fprintf(stderr, "  wire:");
	for (i = 0; i < wlen; i++) fprintf(stderr, " %02x", wire[i]);
	fputc('\n', stderr);
	
	mpt_qpush(&in.data, wlen, wire);
	if ((ret = mpt_queue_recv(&in)) <= 0) {
		fprintf(stderr, "  recv = %d\n", ret);
		return 1;
	}
	mpt_message_get(&in.data, in._state.data.pos, in._state.data.msg, &msg, &vec);
	len = mpt_message_read(&msg, sizeof(buf), buf);
	fprintf(stderr, "  received %zu bytes:", len);
	for (i = 0; i < len; i++) fprintf(stderr, " %02x", buf[i]);
	fputc('\n', stderr);
	if (len != 5 || memcmp(buf, "hello", 5)) {
		fprintf(stderr, "  MISMATCH: sent \"hello\", remains of aborted message were merged in\n");
		return 1;
	}
	return 0;
}
static int stream_level(void)
{
	MPT_STRUCT(stream) out = MPT_STREAM_INIT;
	ssize_t ret;
	int p[2];
	
	if (pipe(p) < 0) { perror("pipe"); exit(2); }
	_mpt_stream_setfile(&out._info, -1, p[1]);
	mpt_stream_setmode(&out, MPT_STREAMFLAG(WriteBuf));
	out._wd._enc = mpt_encode_cobs;
	
	/* complete message A (not flushed yet), partial message B, abort B */
	mpt_stream_push(&out, 10, "abcdefghij");
	mpt_stream_push(&out, 0, 0);
	mpt_stream_push(&out, 3, "xyz");
	fprintf(stderr, "  aborting message B (finished data in queue: %zu bytes) ...\n", out._wd._state.done);
	ret = mpt_stream_push(&out, 1, 0);   /* <- SIGSEGV on current tree */
	fprintf(stderr, "  abort = %zd\n", ret);
	mpt_stream_close(&out);
	close(p[0]);
	return 0;
}
int main(void)
{
	int fail = 0;
	fprintf(stderr, "a) queue level: abort of partially encoded message\n");
	fail |= queue_level();
	fprintf(stderr, "b) stream level: mpt_stream_push(srm, 1, 0) with finished data in queue\n");
	fflush(stderr);
	fail |= stream_level();
	return fail;
}

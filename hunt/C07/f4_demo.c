/* f4: query-only call (dest == NULL) of mpt_convert_string() for target TypeValFmt dereferences NULL.
 * build: gcc -I$WT/mptcore f4_demo.c -L$WT/_build/mptcore -lmptcore -Wl,-rpath,$WT/_build/mptcore -o f4_demo
 */
#include <stdio.h>
#include <stdint.h>
#include "convert.h"
#include "types.h"
#include "meta.h"

int main(void)
{
	MPT_STRUCT(value_format) fmt;
	int ret;
	
	ret = mpt_convert_string("12", MPT_ENUM(TypeValFmt), &fmt);
	printf("with destination: ret=%d width=%d\n", ret, fmt.width);
	
	/* same through the string iterator element (query = no destination) */
	{
		MPT_INTERFACE(metatype) *mt = mpt_iterator_string("12", 0);
		MPT_INTERFACE(iterator) *it = 0;
		MPT_metatype_convert(mt, MPT_ENUM(TypeIteratorPtr), &it);
		fflush(stdout);
		ret = mpt_value_convert(it->_vptr->value(it), MPT_ENUM(TypeValFmt), 0); /* SIGSEGV */
		printf("query via iterator element: ret=%d\n", ret);
		mt->_vptr->unref(mt);
	}
	ret = mpt_convert_string("12", MPT_ENUM(TypeValFmt), 0); /* SIGSEGV */
	printf("query only: ret=%d\n", ret);
	return 0;
}

/* f2: file iterator (mpt_iterator_filename/mpt_iterator_file) + mpt_iterator_consume:
 * numeric text is parsed with fscanf(), out-of-range numerals wrap / saturate silently.
 * build: gcc -I$WT/mptcore -I$WT/mptplot f2_demo.c -L$WT/_build/mptcore -lmptcore -L$WT/_build/mptplot -lmptplot \
 *            -Wl,-rpath,$WT/_build/mptcore -Wl,-rpath,$WT/_build/mptplot -o f2_demo
 */
#include <stdio.h>
#include <stdlib.h>
#include <stdint.h>
#include <inttypes.h>
#include <string.h>
#include <math.h>
#include <unistd.h>
#include "convert.h"
#include "types.h"
#include "meta.h"
#include "values.h"

static char fname[] = "/tmp/f2_demo_XXXXXX";

/* returns 1 if text was accepted; *out receives value as long double */
static int get(const char *txt, int type, long double *out)
{
	union { int8_t b; uint8_t y; int16_t n; uint16_t q; int32_t i; uint32_t u; int64_t x; uint64_t t; float f; double d; } v;
	MPT_INTERFACE(metatype) *mt;
	MPT_INTERFACE(iterator) *it = 0;
	FILE *f;
	int r;
	
	f = fopen(fname, "w"); fputs(txt, f); fclose(f);
	if (!(mt = mpt_iterator_filename(fname))) { perror("iterator"); exit(2); }
	MPT_metatype_convert(mt, MPT_ENUM(TypeIteratorPtr), &it);
	memset(&v, 0, sizeof(v));
	r = mpt_iterator_consume(it, type, &v);
	mt->_vptr->unref(mt);
	if (r < 0) return 0;
	switch (type) {
	  case 'b': *out = v.b; break;  case 'y': *out = v.y; break;
	  case 'n': *out = v.n; break;  case 'q': *out = v.q; break;
	  case 'i': *out = v.i; break;  case 'u': *out = v.u; break;
	  case 'x': *out = v.x; break;  case 't': *out = v.t; break;
	  case 'f': *out = v.f; break;  case 'd': *out = v.d; break;
	}
	return 1;
}
int main(void)
{
	static const struct { const char *txt; int type; } tc[] = {
		{ "300", 'y' }, { "-1", 'y' }, { "128", 'b' }, { "70000", 'q' }, { "70000", 'n' },
		{ "4294967296", 'u' }, { "-1", 'u' }, { "2147483648", 'i' },
		{ "99999999999999999999", 'x' }, { "99999999999999999999", 't' }, { "-1", 't' },
		{ "1e39", 'f' }, { "1e400", 'd' }
	};
	int bad = 0;
	size_t k;
	int fd = mkstemp(fname);
	if (fd < 0) { perror("mkstemp"); return 2; }
	close(fd);
	
	for (k = 0; k < sizeof(tc)/sizeof(*tc); k++) {
		long double got = 0, ref = strtold(tc[k].txt, 0);
		if (!get(tc[k].txt, tc[k].type, &got)) {
			printf("'%s' -> '%c': refused (ok)\n", tc[k].txt, tc[k].type);
			continue;
		}
		if (got != ref) {
			printf("'%s' -> '%c': ACCEPTED, value %.21Lg  (text denotes %.21Lg)\n", tc[k].txt, tc[k].type, got, ref);
			++bad;
		}
	}
	unlink(fname);
	printf("%d silent wrap/saturate results\n", bad);
	return bad ? 1 : 0;
}

/* f1: whitespace-only text is reported as successfully converted, destination never written.
 * build: gcc -I$WT/mptcore f1_demo.c -L$WT/_build/mptcore -lmptcore -Wl,-rpath,$WT/_build/mptcore -o f1_demo
 */
#include <stdio.h>
#include <stdint.h>
#include <string.h>
#include "convert.h"
#include "types.h"
#include "meta.h"

static void dirty_stack(unsigned char fill)
{
	volatile unsigned char b[1024];
	size_t i;
	for (i = 0; i < sizeof(b); i++) b[i] = fill;
}
int main(void)
{
	int bad = 0;
	int32_t v;
	int ret;
	
	/* (a) direct: positive "consumed" length, but nothing stored */
	v = 0x11111111;
	ret = mpt_convert_string("  ", 'i', &v);
	printf("mpt_convert_string(\"  \", 'i') = %d, dest = 0x%x\n", ret, (unsigned) v);
	if (ret > 0 && v == 0x11111111) {
		printf("  -> success reported (consumed %d chars) but destination untouched\n", ret);
		bad |= 1;
	}
	/* reference behaviour of the layer below: 0 == nothing converted */
	printf("mpt_convert_number(\"  \", 'i') = %d\n", mpt_convert_number("  ", 'i', &v));
	
	/* (b) through the string iterator + mpt_iterator_consume: garbage value delivered */
	{
		MPT_INTERFACE(metatype) *mt = mpt_iterator_string("7  ", 0);
		MPT_INTERFACE(iterator) *it = 0;
		int32_t a = -1, b1 = -1, b2 = -1;
		int r1, r2;
		MPT_metatype_convert(mt, MPT_ENUM(TypeIteratorPtr), &it);
		r1 = mpt_iterator_consume(it, 'i', &a);
		printf("consume #1: ret=%d value=%d\n", r1, a);
		dirty_stack(0x5a);
		r2 = mpt_iterator_consume(it, 'i', &b1);
		printf("consume #2 (remaining text is \" \"): ret=%d value=%d (0x%x)\n", r2, b1, (unsigned) b1);
		if (r2 >= 0) {
			printf("  -> second element \" \" accepted as a number\n");
			bad |= 2;
		}
		mt->_vptr->unref(mt);
		
		/* same text, different stack content -> different "number" */
		mt = mpt_iterator_string("7  ", 0);
		MPT_metatype_convert(mt, MPT_ENUM(TypeIteratorPtr), &it);
		mpt_iterator_consume(it, 'i', &a);
		dirty_stack(0xa5);
		r2 = mpt_iterator_consume(it, 'i', &b2);
		printf("consume #2 again with other stack content: ret=%d value=%d (0x%x)\n", r2, b2, (unsigned) b2);
		if (r2 >= 0 && b1 != b2) {
			printf("  -> value depends on uninitialised stack memory\n");
			bad |= 4;
		}
		mt->_vptr->unref(mt);
	}
	return bad ? 1 : 0;
}

/* f3: conversions INTO floating point targets are neither exact nor refused.
 * build: gcc -I$WT/mptcore f3_demo.c -L$WT/_build/mptcore -lmptcore -Wl,-rpath,$WT/_build/mptcore -lm -o f3_demo
 */
#include <stdio.h>
#include <stdint.h>
#include <float.h>
#include <math.h>
#include "convert.h"
#include "types.h"

static int bad = 0;
static void report(const char *what, int ret, long double src, long double dst)
{
	if (ret < 0) { printf("%-28s refused (%d) - ok\n", what, ret); return; }
	if (src == dst) { printf("%-28s exact - ok\n", what); return; }
	printf("%-28s ACCEPTED: source %.21Lg -> target %.21Lg\n", what, src, dst);
	++bad;
}
#define CONV(label, stype, sid, sval, ttype, tid) do { \
	stype s_ = (sval); ttype t_ = 0; MPT_STRUCT(value) v_; int r_; \
	v_._addr = &s_; v_._type = (sid); \
	r_ = mpt_value_convert(&v_, (tid), &t_); \
	report(label, r_, (long double) s_, (long double) t_); } while (0)

int main(void)
{
	float f; double d;
	int r;
	
	/* integer sources: result is a different integer (for the *_MAX cases one the source type cannot even hold) */
	CONV("int32 16777217 -> float",    int32_t,  'i', 16777217,   float,  'f');
	CONV("uint32 UINT32_MAX -> float", uint32_t, 'u', UINT32_MAX, float,  'f');
	CONV("int64 2^53+1 -> double",     int64_t,  'x', (INT64_C(1) << 53) + 1, double, 'd');
	CONV("int64 INT64_MAX -> double",  int64_t,  'x', INT64_MAX,  double, 'd');
	CONV("uint64 UINT64_MAX -> double",uint64_t, 't', UINT64_MAX, double, 'd');
	CONV("uint64 UINT64_MAX -> float", uint64_t, 't', UINT64_MAX, float,  'f');
	/* narrowing float sources: only the upper range is checked */
	CONV("double 16777217 -> float",   double,   'd', 16777217.0, float,  'f');
	CONV("double 1e-50 -> float",      double,   'd', 1e-50,      float,  'f');
	CONV("ldouble 1+eps -> double",    long double, 'e', 1.0L + LDBL_EPSILON, double, 'd');
	CONV("ldouble 1e-400 -> double",   long double, 'e', 1e-400L, double, 'd');
	/* control: these are handled */
	CONV("double 1e39 -> float",       double,   'd', 1e39,       float,  'f');
	CONV("int32 300 -> uint8",         int32_t,  'i', 300,        uint8_t,'y');
	
	/* text: overflow is refused, total underflow is accepted as 0 */
	f = 1; r = mpt_convert_string("1e-50", 'f', &f);
	report("text \"1e-50\" -> float", r, 1e-50L, f);
	d = 1; r = mpt_convert_string("1e-400", 'd', &d);
	report("text \"1e-400\" -> double", r, 1e-400L, d);
	d = 1; r = mpt_convert_string("1e400", 'd', &d);
	report("text \"1e400\" -> double", r, 1e400L, d);
	
	printf("%d inexact conversions accepted\n", bad);
	return bad ? 1 : 0;
}

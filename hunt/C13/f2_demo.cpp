// io::queue::read() takes data from the wrong end: bytes come back in an order that depends on the
// segmentation (part size) of the read and disagrees with peek()/shift() on the same object
#include <cstdio>
#include <cstring>
#include "queue.h"
#include "io.h"

int main()
{
	int bad = 0;
	char a[9] = {0}, b[9] = {0};
	{
		mpt::io::queue q;
		mpt::io::interface *dev = &q;
		dev->write(8, "abcdefgh", 1);
		mpt::span<const uint8_t> p = dev->peek(8);
		std::printf("peek      : %.*s\n", (int) p.size(), (const char *) p.begin());
		int c = dev->getchar();              /* interface default: read(1, &c, 1) */
		std::printf("getchar   : %c (peek announced '%c')\n", c, *p.begin());
		if (c != 'a') bad = 1;
	}
	{
		mpt::io::queue q1, q2;
		q1.write(8, "abcdefgh", 1);
		q2.write(8, "abcdefgh", 1);
		q1.read(1, a, 8);   /* one element of 8 bytes */
		q2.read(8, b, 1);   /* eight elements of 1 byte */
		std::printf("read(1,8) : %s\nread(8,1) : %s\n", a, b);
		if (std::strcmp(a, "abcdefgh") || std::strcmp(b, "abcdefgh")) bad = 1;
	}
	{
		mpt::io::queue q;
		q.write(2, "abcdefgh", 4);  /* two records */
		q.read(1, a, 4); a[4] = 0;
		std::printf("first record read after writing 'abcd','efgh': %s\n", a);
		if (std::strcmp(a, "abcd")) bad = 1;
	}
	if (bad) std::printf("VIOLATION: read() does not return the stored byte sequence\n");
	return bad;
}

/* mpt_queue_resize(): shrinking below the stored length "succeeds" and silently drops the oldest bytes */
#include <stdio.h>
#include <stdint.h>
#include <string.h>
#include "queue.h"

int main(void)
{
	MPT_STRUCT(queue) q = MPT_QUEUE_INIT;
	char out[32] = { 0 };
	void *ret;
	
	mpt_queue_resize(&q, 16);
	mpt_qpush(&q, 12, "0123456789AB");
	
	ret = mpt_queue_resize(&q, 8);    /* less than the 12 bytes stored */
	mpt_queue_get(&q, 0, q.len, out);
	printf("resize(8) -> %p, max=%zu len=%zu content=\"%s\"\n", ret, q.max, q.len, out);
	
	if (ret && q.len != 12) {
		printf("VIOLATION: shrink accepted, %zu stored bytes dropped from the front\n", 12 - q.len);
		mpt_queue_resize(&q, 0);
		return 1;
	}
	mpt_queue_resize(&q, 0);
	return 0;
}

/* mpt_queue_prepare(): size overflow makes a request that must be refused shrink/free the storage and drop content */
#include <stdio.h>
#include <stdint.h>
#include <string.h>
#include "queue.h"

static int run(size_t cap, size_t fill, size_t ask)
{
	MPT_STRUCT(queue) q = MPT_QUEUE_INIT;
	uint8_t ref[256], out[256];
	size_t i, ret;
	int bad = 0;
	
	for (i = 0; i < fill; i++) ref[i] = (uint8_t) (i + 1);
	if (!mpt_queue_resize(&q, cap) || mpt_qpush(&q, fill, ref) < 0) return 2;
	
	ret = mpt_queue_prepare(&q, ask);
	printf("cap=%zu fill=%zu prepare(SIZE_MAX-%zu) -> %zu; now max=%zu len=%zu base=%p\n",
	       cap, fill, SIZE_MAX - ask, ret, q.max, q.len, q.base);
	if (ret >= ask) { printf("  claims success?!\n"); bad = 1; }
	if (q.len != fill) { printf("  VIOLATION: %zu of %zu stored bytes lost\n", fill - q.len, fill); bad = 1; }
	else if (mpt_queue_get(&q, 0, fill, out) < 0 || memcmp(out, ref, fill)) { printf("  VIOLATION: content changed\n"); bad = 1; }
	mpt_queue_resize(&q, 0);
	return bad;
}
int main(void)
{
	int bad = 0;
	/* full queue: len + used wraps to 43 -> MPT_align = 48 -> mpt_queue_resize() crops the 16 oldest bytes */
	bad |= run(64, 64, SIZE_MAX - 20);
	/* partly filled queue: wraps to 71 -> 72 < max -> shrink, 28 oldest bytes dropped */
	bad |= run(128, 100, SIZE_MAX - 28);
	/* len + used = SIZE_MAX -> MPT_align() wraps to 0 -> mpt_queue_resize(q, 0) frees everything */
	bad |= run(64, 64, SIZE_MAX - 64);
	return bad;
}

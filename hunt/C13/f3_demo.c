/* mpt_queue_find(): elements stored behind the storage wrap are not found when one element straddles the wrap;
 * element size 0 crashes with a division by zero */
#include <stdio.h>
#include <stdint.h>
#include <string.h>
#include <errno.h>
#include <signal.h>
#include <unistd.h>
#include <sys/wait.h>
#include "queue.h"

static int match(const void *elem, void *arg) { return memcmp(elem, arg, 3); }
static int any(const void *elem, void *arg) { (void) elem; (void) arg; return 0; }

int main(void)
{
	MPT_STRUCT(queue) q = MPT_QUEUE_INIT;
	uint8_t out[3];
	char want[] = "DDD";
	void *hit;
	int bad = 0, st = 0;
	pid_t pid;
	
	/* 16 byte storage, content starts at offset 14: "AAABBBCCCDDD", element 0 = bytes 14,15,0 */
	mpt_queue_resize(&q, 16);
	mpt_qpush(&q, 15, 0);
	mpt_qshift(&q, 14, 0);   /* off = 14, one byte left */
	mpt_qpop(&q, 1, 0);      /* empty, off stays 14 */
	mpt_qpush(&q, 12, "AAABBBCCCDDD");
	printf("max=%zu off=%zu len=%zu\n", q.max, q.off, q.len);
	
	/* the deque holds element "DDD" at byte position 9, contiguous at storage offset 7 */
	mpt_queue_get(&q, 9, 3, out);
	printf("get(9,3) = %.3s\n", out);
	errno = 0;
	hit = mpt_queue_find(&q, 3, match, want);
	printf("find(\"DDD\") = %p errno=%d (%s)\n", hit, errno, strerror(errno));
	if (!hit) { printf("VIOLATION: stored element not found because content wraps\n"); bad = 1; }
	
	/* same content, not wrapped: found */
	mpt_queue_align(&q, 0);
	hit = mpt_queue_find(&q, 3, match, want);
	printf("after align(0): find(\"DDD\") = %p (base+%td)\n", hit, hit ? (uint8_t *) hit - (uint8_t *) q.base : -1);
	
	/* element size 0 */
	fflush(stdout);
	if (!(pid = fork())) { mpt_queue_find(&q, 0, any, 0); _exit(0); }
	waitpid(pid, &st, 0);
	if (WIFSIGNALED(st)) { printf("VIOLATION: find(esz=0) killed by signal %d\n", WTERMSIG(st)); bad |= 2; }
	else if (WEXITSTATUS(st)) { printf("find(esz=0) aborted (status %d)\n", WEXITSTATUS(st)); bad |= 2; }
	
	mpt_queue_resize(&q, 0);
	return bad;
}

#!/bin/sh
# usage: sh build.sh fK_demo.cpp   (library must be built in ../_build first: cmake -G Ninja -S .. -B ../_build && cmake --build ../_build)
W=$(cd "$(dirname "$0")/.." && pwd); B=$W/_build
g++ -g -I$W/mptcore -I$W/mptplot -I$W/mpt++ -I$W/mptio -I$B/mptcore -I$B "$1" -o "${1%.cpp}" \
  -L$B/mpt++ -lmpt++ -L$B/mptplot -lmptplot -L$B/mptio -lmptio -L$B/mptcore -lmptcore \
  -Wl,-rpath,$B/mpt++:$B/mptplot:$B/mptio:$B/mptcore

/*
 * f3: copying a layout object onto itself through the generic assignment
 *     (property "" / C++ operator=) wipes it to the defaults.
 */
#include <cstdio>
#include <cstring>
#include "layout.h"
#include "object.h"
using namespace mpt;

int main()
{
	int bad = 0;
	
	{	/* generic assignment via object interface */
		layout::graph::axis a;
		mpt_object_set_string(&a, "title", "time", 0);
		mpt_object_set_string(&a, "end", "9", 0);
		mpt_object_set_string(&a, "dec", "2", 0);
		int r = a.set_property("", &a);
		printf("axis  self copy: ret=%d title=%s end=%g dec=%d\n", r, a.title() ? a.title() : "(null)", a.::mpt::axis::end, a.dec);
		if (!a.title() || strcmp(a.title(), "time") || a.::mpt::axis::end != 9 || a.dec != 2) ++bad;
	}
	{
		layout::text t;
		mpt_object_set_string(&t, "value", "label", 0);
		mpt_object_set_string(&t, "size", "33", 0);
		int r = t.set_property("", &t);
		const char *v = t.::mpt::text::value();
		printf("text  self copy: ret=%d value=%s size=%d\n", r, v ? v : "(null)", t.size);
		if (!v || strcmp(v, "label") || t.size != 33) ++bad;
	}
	{
		layout::graph g;
		mpt_object_set_string(&g, "axes", "x y", 0);
		mpt_object_set_string(&g, "grid", "3", 0);
		int r = g.set_property("", &g);
		const char *v = g.::mpt::graph::axes();
		printf("graph self copy: ret=%d axes=%s grid=%d\n", r, v ? v : "(null)", g.grid);
		if (!v || strcmp(v, "x y") || g.grid != 3) ++bad;
	}
	{
		layout::graph::world w;
		mpt_object_set_string(&w, "alias", "data", 0);
		mpt_object_set_string(&w, "cyc", "77", 0);
		int r = w.set_property(0, &w); /* auto-select variant */
		printf("world self copy: ret=%d alias=%s cyc=%u\n", r, w.alias() ? w.alias() : "(null)", w.cyc);
		if (!w.alias() || strcmp(w.alias(), "data") || w.cyc != 77) ++bad;
	}
	{	/* plain C++ assignment operator of the data structs */
		::mpt::world w;
		w.set_alias("data");
		w.cyc = 5;
		::mpt::world &ref = w;
		w = ref;
		printf("mpt::world w = w: alias=%s cyc=%u\n", w.alias() ? w.alias() : "(null)", w.cyc);
		if (!w.alias() || strcmp(w.alias(), "data") || w.cyc != 5) ++bad;
	}
	{	/* reference: line has no owned strings and survives */
		layout::line l;
		mpt_object_set_string(&l, "x1", "3", 0);
		l.set_property("", &l);
		printf("line  self copy: x1=%g\n", l.from.x);
		if (l.from.x != 3) ++bad;
	}
	printf("%s (%d objects lost their content)\n", bad ? "FAIL" : "ok", bad);
	return bad ? 1 : 0;
}

/*
 * f1: whole-object reset ("" property, empty value) of text and graph objects
 *     dereferences an uninitialized pointer.
 *
 * mpt_object_set_string(obj, "", NULL, 0) is the library's own way to say
 * "assign nothing to the object itself" (same call works for axis, world, line
 * and resets them to defaults).
 */
#include <cstdio>
#include <cstring>
#include <csignal>
#include <unistd.h>
#include <sys/wait.h>
#include "layout.h"
#include "object.h"
using namespace mpt;

/* make sure stale stack content is not accidentally zero */
__attribute__((noinline)) static void dirty()
{
	volatile char buf[8192];
	for (size_t i = 0; i < sizeof(buf); i++) buf[i] = 0x41;
}
static int check_text()
{
	layout::text t;
	mpt_object_set_string(&t, "value", "hello", 0);
	mpt_object_set_string(&t, "size", "33", 0);
	dirty();
	int r = mpt_object_set_string(&t, "", 0, 0);
	const char *v = t.::mpt::text::value();
	printf("text : ret=%d value=%s size=%d\n", r, v ? v : "(null)", t.size);
	return (r >= 0 && !v && t.size == 10) ? 0 : 1;
}
static int check_graph()
{
	layout::graph g;
	mpt_object_set_string(&g, "axes", "x y", 0);
	mpt_object_set_string(&g, "grid", "3", 0);
	dirty();
	int r = mpt_object_set_string(&g, "", 0, 0);
	const char *v = g.::mpt::graph::axes();
	printf("graph: ret=%d axes=%s grid=%d\n", r, v ? v : "(null)", g.grid);
	return (r >= 0 && !v && g.grid == 0) ? 0 : 1;
}
static int check_axis() /* reference: same operation is fine for axis */
{
	layout::graph::axis a;
	mpt_object_set_string(&a, "title", "hello", 0);
	dirty();
	int r = mpt_object_set_string(&a, "", 0, 0);
	printf("axis : ret=%d title=%s\n", r, a.title() ? a.title() : "(null)");
	return (r >= 0 && !a.title()) ? 0 : 1;
}
static int run(int (*fcn)())
{
	fflush(stdout);
	pid_t p = fork();
	if (!p) { int r = fcn(); fflush(stdout); _exit(r); }
	int st = 0;
	waitpid(p, &st, 0);
	if (WIFSIGNALED(st)) { printf("  -> killed by signal %d\n", WTERMSIG(st)); return 1; }
	return WEXITSTATUS(st);
}
int main()
{
	int bad = 0;
	bad += run(check_axis);
	bad += run(check_text);
	bad += run(check_graph);
	printf("%s\n", bad ? "FAIL" : "ok");
	return bad ? 1 : 0;
}

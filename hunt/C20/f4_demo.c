/*
 * f4: axis property aliases accepted by the setter are answered with a
 *     DIFFERENT property by the getter ("titlepos" / "title position" -> "title").
 *
 * build: gcc f4_demo.c -I../mptcore -I../mptplot -I../_build/mptcore -I../_build \
 *        -L../_build/mptplot -lmptplot -L../_build/mptcore -lmptcore \
 *        -Wl,-rpath,$PWD/../_build/mptplot:$PWD/../_build/mptcore -o f4_demo
 */
#include <stdio.h>
#include <string.h>

#include "types.h"
#include "object.h"
#include "layout.h"

/* minimal read-only string source */
struct strsrc {
	MPT_INTERFACE(convertable) _ctl;
	const char *val;
};
static int strConv(MPT_INTERFACE(convertable) *conv, MPT_TYPE(type) type, void *dest)
{
	struct strsrc *s = (void *) conv;
	if (type == 's' || type == 'k') {
		if (dest) *((const char **) dest) = s->val;
		return 's';
	}
	if (type == 'c') {
		return MPT_ERROR(BadType);
	}
	return MPT_ERROR(BadType);
}
static const MPT_INTERFACE_VPTR(convertable) strCtl = { strConv };

int main(void)
{
	static const char *alias[] = { "tpos", "titlepos", "title position" };
	MPT_STRUCT(axis) ax;
	struct strsrc src = { { &strCtl }, 0 };
	int bad = 0;
	size_t i;
	
	mpt_axis_init(&ax, 0);
	src.val = "time";
	mpt_axis_set(&ax, "title", &src._ctl);
	
	for (i = 0; i < sizeof(alias) / sizeof(*alias); i++) {
		MPT_STRUCT(property) pr = MPT_PROPERTY_INIT;
		int ret;
		
		src.val = "r";
		ret = mpt_axis_set(&ax, alias[i], &src._ctl);
		printf("set('%s', 'r') = %d, tpos = '%c'\n", alias[i], ret, ax.tpos ? ax.tpos : '0');
		if (ret < 0 || ax.tpos != 'r') {
			continue; /* alias not accepted: nothing promised */
		}
		pr.name = alias[i];
		ret = mpt_axis_get(&ax, &pr);
		if (ret < 0) {
			printf("  get('%s') = %d\n", alias[i], ret);
			continue;
		}
		printf("  get('%s') -> property '%s', type '%c'\n", alias[i], pr.name, (int) pr.val._type);
		if (strcmp(pr.name, "tpos") || pr.val._type != 'c' || *((const char *) pr.val._addr) != 'r') {
			printf("  !! accepted alias reads back another property\n");
			++bad;
		}
		ax.tpos = 0;
	}
	mpt_axis_fini(&ax);
	printf("%s\n", bad ? "FAIL" : "ok");
	return bad ? 1 : 0;
}

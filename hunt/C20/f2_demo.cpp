/*
 * f2: resetting a string-valued layout property through the string setter
 *     (value == NULL, i.e. "no value") crashes in strlen(NULL).
 *
 * mpt_object_set_property() itself calls mpt_object_set_string(obj, name, 0, 0)
 * when a node value converts to an empty string, so NULL is a regular input;
 * numeric properties (e.g. axis "dec") handle it and fall back to the default.
 */
#include <cstdio>
#include <cstring>
#include <unistd.h>
#include <sys/wait.h>
#include "layout.h"
#include "object.h"
using namespace mpt;

static int num_reset() /* reference: numeric property is reset fine */
{
	layout::graph::axis a;
	mpt_object_set_string(&a, "dec", "4", 0);
	int r = mpt_object_set_string(&a, "dec", 0, 0);
	printf("axis.dec   <- NULL: ret=%d dec=%d\n", r, a.dec);
	return (r >= 0 && a.dec == 0) ? 0 : 1;
}
static int axis_title()
{
	layout::graph::axis a;
	mpt_object_set_string(&a, "title", "hello", 0);
	int r = mpt_object_set_string(&a, "title", 0, 0);
	printf("axis.title <- NULL: ret=%d title=%s\n", r, a.title() ? a.title() : "(null)");
	return (r >= 0 && !a.title()) ? 0 : 1;
}
static int world_alias()
{
	layout::graph::world w;
	mpt_object_set_string(&w, "alias", "hello", 0);
	int r = mpt_object_set_string(&w, "alias", 0, 0);
	printf("world.alias <- NULL: ret=%d alias=%s\n", r, w.alias() ? w.alias() : "(null)");
	return (r >= 0 && !w.alias()) ? 0 : 1;
}
static int text_attr() /* same path via C++ attribute assignment */
{
	layout::text t;
	mpt_object_set_string(&t, "font", "Sans", 0);
	object::attribute at(t);
	at.select("font");
	at = (const char *) 0;
	const char *f = t.::mpt::text::font();
	printf("text[font] = NULL: font=%s\n", f ? f : "(null)");
	return !f ? 0 : 1;
}
static int run(int (*fcn)())
{
	fflush(stdout);
	pid_t p = fork();
	if (!p) { int r = fcn(); fflush(stdout); _exit(r); }
	int st = 0;
	waitpid(p, &st, 0);
	if (WIFSIGNALED(st)) { printf("  -> killed by signal %d\n", WTERMSIG(st)); return 1; }
	return WEXITSTATUS(st);
}
int main()
{
	int bad = 0;
	bad += run(num_reset);
	bad += run(axis_title);
	bad += run(world_alias);
	bad += run(text_attr);
	printf("%s\n", bad ? "FAIL" : "ok");
	return bad ? 1 : 0;
}

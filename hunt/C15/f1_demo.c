/*
 * C15 finding 1: element copy of "input reference" arrays ignores addref() failure.
 *
 * build:
 *   W=/tmp/hunt-C15; B=$W/_build
 *   gcc -g -fsanitize=address -I$W/mptcore -I$W/mptio f1_demo.c \
 *       -L$B/mptio -lmptio -L$B/mptcore -lmptcore \
 *       -Wl,-rpath,$B/mptio -Wl,-rpath,$B/mptcore -o f1_demo
 * exit code 1 (and message on stderr) == violation present
 */
#include <stdio.h>
#include <stdlib.h>
#include <string.h>

#include "types.h"
#include "array.h"
#include "notify.h"

/* unique (non-shareable) input, same pattern as `socketInput` in mptio/notify/notify_bind.c:
 * addref() reports failure (0), every unref() drops one (here: THE) reference. */
struct my_input {
	MPT_INTERFACE(input) _in;
	int released;
};
static int my_conv(MPT_INTERFACE(convertable) *val, MPT_TYPE(type) type, void *ptr)
{
	(void) val; (void) type; (void) ptr;
	return MPT_ERROR(BadType);
}
static void my_unref(MPT_INTERFACE(metatype) *mt)
{
	struct my_input *in = (void *) mt;
	++in->released; /* a real implementation does free()/close() here */
}
static uintptr_t my_addref(MPT_INTERFACE(metatype) *mt)
{
	(void) mt;
	return 0; /* counter can not be raised */
}
static MPT_INTERFACE(metatype) *my_clone(const MPT_INTERFACE(metatype) *mt)
{
	(void) mt;
	return 0;
}
static int my_next(MPT_INTERFACE(input) *in, int what)
{
	(void) in; (void) what;
	return 0;
}
static int my_dispatch(MPT_INTERFACE(input) *in, MPT_TYPE(event_handler) cmd, void *arg)
{
	(void) in; (void) cmd; (void) arg;
	return 0;
}
static const MPT_INTERFACE_VPTR(input) my_vptr = {
	{ { my_conv }, my_unref, my_addref, my_clone },
	my_next, my_dispatch
};

int main(void)
{
	const MPT_STRUCT(type_traits) *traits = mpt_input_reference_traits();
	MPT_STRUCT(array) a = MPT_ARRAY_INIT, b = MPT_ARRAY_INIT;
	struct my_input in = { { &my_vptr }, 0 };
	MPT_INTERFACE(input) *handle = &in._in; /* the one and only reference, owned by main() */
	MPT_INTERFACE(input) **elem;
	
	/* (1) copy-assign the reference into an array of input references:
	 *     addref() fails -> element must stay empty (or the call must fail) */
	elem = mpt_array_set(&a, traits, sizeof(handle), &handle, 0);
	fprintf(stderr, "mpt_array_set(): element = %p (handle %p, addref() returned 0)\n",
	        elem ? (void *) *elem : 0, (void *) handle);
	
	/* (2) array-of-references copy: share buffer, then force private copy */
	mpt_array_clone(&b, &a);
	mpt_array_slice(&b, 0, sizeof(handle));
	
	/* (3) drop both arrays, main() has NOT dropped its reference */
	mpt_array_clone(&a, 0);
	mpt_array_clone(&b, 0);
	
	fprintf(stderr, "references released by the arrays: %d (references they obtained: 0)\n", in.released);
	if (in.released) {
		fprintf(stderr, "FAIL: input released %d time(s) while the only counted handle is still held\n", in.released);
		return 1;
	}
	return 0;
}

/*
 * C15 finding 1 (variant using only library objects):
 * the listening-socket input created by mpt_notify_bind() is unique (addref() == 0, unref() == close+free).
 * Copying the notifier slot array duplicates the pointer without a reference -> double destroy.
 *
 * build: like f1_demo.c (needs -lmptio -lmptcore), run inside a writable directory (creates 2 unix sockets).
 * Expected on current tree: AddressSanitizer error (use after free / SEGV in _input_ref_fini) or crash.
 */
#include <stdio.h>
#include <unistd.h>

#include "types.h"
#include "array.h"
#include "notify.h"

int main(void)
{
	MPT_STRUCT(notify) no = MPT_NOTIFY_INIT;
	MPT_STRUCT(array) copy = MPT_ARRAY_INIT;
	
	unlink("./f1_sock1");
	unlink("./f1_sock2");
	if (mpt_notify_bind(&no, "Unix:./f1_sock1", 2) < 0) {
		fprintf(stderr, "unable to create unix socket, demo not applicable\n");
		return 0;
	}
	/* second handle on the slot array (shared buffer, buffer count 2) */
	mpt_array_clone(&copy, &no._slot);
	/* registering a further input makes the notifier detach -> element-wise copy of references */
	if (mpt_notify_bind(&no, "Unix:./f1_sock2", 2) < 0) {
		return 0;
	}
	fprintf(stderr, "slot buffer detached: %d\n", copy._buf != no._slot._buf);
	mpt_array_clone(&copy, 0);  /* destroys listener 1 (close + free) */
	fprintf(stderr, "copy dropped\n");
	mpt_notify_fini(&no);       /* destroys listener 1 AGAIN */
	fprintf(stderr, "notifier dropped\n");
	unlink("./f1_sock1");
	unlink("./f1_sock2");
	return 0;
}

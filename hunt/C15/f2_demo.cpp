/*
 * C15 finding 2: mpt::add_items() drops the reference it just took for the group item.
 *
 * build (no -fsanitize=undefined: the C/C++ buffer class overlay triggers unrelated vptr reports):
 *   W=/tmp/hunt-C15; B=$W/_build
 *   g++ -g -fsanitize=address -I$W/mptcore -I$W/mptplot f2_demo.cpp \
 *       -L$B/mpt++ -lmpt++ -L$B/mptplot -lmptplot -L$B/mptcore -lmptcore \
 *       -Wl,-rpath,$B/mpt++ -Wl,-rpath,$B/mptplot -Wl,-rpath,$B/mptcore -o f2_demo
 * exit code 1 == violation present
 */
#include <cstdio>

#include "meta.h"
#include "node.h"
#include "collection.h"
#include "layout.h"

using namespace mpt;

static long handles = 1;  /* reference counter of the tracked object */
static int destroyed = 0; /* number of times the counter reached (or went below) zero */

class tracked : public metatype
{
public:
	void unref() __MPT_OVERRIDE
	{
		if (--handles <= 0) ++destroyed;
	}
	uintptr_t addref() __MPT_OVERRIDE
	{
		return ++handles;
	}
	metatype *clone() const __MPT_OVERRIDE
	{
		return 0;
	}
	virtual ~tracked()
	{ }
};

int main()
{
	static tracked obj;                 /* counter == 1: this reference is handed to the node */
	item_group *grp = new item_group;
	
	node *head = node::create("entry");
	head->set_metatype(&obj);
	
	bool ok = add_items(*grp, head, 0, 0);
	long items = grp->items().size();
	fprintf(stderr, "add_items() = %d: node holds 1 handle, group holds %ld, counter = %ld\n", ok, items, handles);
	
	int fail = 0;
	if (handles != 1 + items) {
		fprintf(stderr, "FAIL: %ld handles exist, counter is %ld\n", 1 + items, handles);
		fail = 1;
	}
	grp->unref(); /* group releases its items */
	fprintf(stderr, "group dropped: counter = %ld, destroyed = %d (node still holds its handle)\n", handles, destroyed);
	if (destroyed) {
		fprintf(stderr, "FAIL: object destroyed before the last reference (node) was dropped\n");
		fail = 1;
	}
	mpt_node_destroy(head);
	fprintf(stderr, "node dropped:  counter = %ld, destroyed = %d\n", handles, destroyed);
	return fail;
}

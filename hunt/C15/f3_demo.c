/*
 * C15 finding 3: raw data store (plot data) never releases stage buffers when
 * advance() ran before the first modify().
 *
 * build:
 *   W=/tmp/hunt-C15; B=$W/_build
 *   gcc -g -fsanitize=address -I$W/mptcore -I$W/mptplot f3_demo.c \
 *       -L$B/mptplot -lmptplot -L$B/mptcore -lmptcore \
 *       -Wl,-rpath,$B/mptplot -Wl,-rpath,$B/mptcore -o f3_demo
 * Without sanitizer the program checks the content type of the stage buffer itself (exit 1),
 * with ASan LeakSanitizer additionally reports the 2 shared buffers that are never destroyed.
 */
#include <stdio.h>
#include <stdlib.h>
#include <sys/uio.h>

#include "types.h"
#include "meta.h"
#include "array.h"
#include "values.h"

int main(int argc, char *argv[])
{
	MPT_INTERFACE(metatype) *mt;
	MPT_INTERFACE(rawdata) *rd = 0;
	const MPT_STRUCT(named_traits) *probe;
	const MPT_STRUCT(value_store) *store;
	MPT_STRUCT(buffer) *values;
	MPT_STRUCT(array) keep = MPT_ARRAY_INIT;
	MPT_STRUCT(value) val;
	struct iovec vec;
	double d[4] = { 1, 2, 3, 4 };
	int advance_first = argc < 2; /* any argument: control run without advance() */
	int ret;
	
	if (!(mt = mpt_rawdata_create(4))) {
		return 2;
	}
	/* mpt_rawdata_type_traits() lacks a `static` and registers "mpt.rawdata" only on its FIRST call,
	 * every later call (also the one inside rd_conv) yields 0.  The interface ID therefore has to be
	 * predicted: next dynamic interface ID after a probe registration. */
	if (!(probe = mpt_type_interface_add("f3.probe"))) {
		return 2;
	}
	if (mt->_vptr->convertable.convert((void *) mt, probe->type + 1, &rd) < 0 || !rd) {
		fprintf(stderr, "raw data interface not reachable, demo not applicable\n");
		return 0;
	}
	if (advance_first) {
		ret = rd->_vptr->advance(rd);
		fprintf(stderr, "advance() = %d, stages = %d\n", ret, rd->_vptr->stage_count(rd));
	}
	vec.iov_base = d;
	vec.iov_len  = sizeof(d);
	MPT_value_set(&val, MPT_type_toVector('d'), &vec);
	ret = rd->_vptr->modify(rd, 0, &val, 0);
	fprintf(stderr, "modify()  = %d, stages = %d\n", ret, rd->_vptr->stage_count(rd));
	
	/* take a second handle on the value buffer (current stage, dimension 0) to observe its reference count */
	if (!(store = rd->_vptr->values(rd, 0, -1)) || !(values = store->_d._buf)) {
		return 2;
	}
	mpt_array_clone(&keep, &store->_d);
	fprintf(stderr, "value buffer shared before drop: %d\n",
	        (values->_vptr->get_flags(values) & MPT_ENUM(BufferShared)) != 0);
	
	/* drop last reference to raw data store: must release stage -> value_store -> value buffer */
	mt->_vptr->unref(mt);
	
	ret = (values->_vptr->get_flags(values) & MPT_ENUM(BufferShared)) != 0;
	fprintf(stderr, "value buffer shared after raw data destruction: %d\n", ret);
	mpt_array_clone(&keep, 0);
	if (ret) {
		fprintf(stderr, "FAIL: destroyed raw data store still holds its reference to the value buffer (never released)\n");
		return 1;
	}
	return 0;
}

/*
 * C15 finding 4: dropping a NON-last reference of a deferrable reply context tears the object down.
 *
 * build:
 *   W=/tmp/hunt-C15; B=$W/_build
 *   gcc -g -fsanitize=address,undefined -I$W/mptcore f4_demo.c -L$B/mptcore -lmptcore -Wl,-rpath,$B/mptcore -o f4_demo
 * exit code 1 == violation present
 */
#include <stdio.h>
#include <string.h>
#include "types.h"
#include "meta.h"
#include "message.h"
#include "event.h"

static int sent = 0;
static int do_send(void *ptr, const MPT_STRUCT(reply_data) *rd, const MPT_STRUCT(message) *msg)
{
	(void) ptr; (void) rd; (void) msg;
	++sent;
	return 0;
}
int main(void)
{
	static const uint8_t id[2] = { 0x12, 0x34 };
	MPT_INTERFACE(metatype) *ctx, *second;
	MPT_INTERFACE(reply_context) *rc = 0;
	MPT_STRUCT(reply_data) *rd = 0;
	MPT_STRUCT(message) msg = MPT_MESSAGE_INIT;
	int target, ret;
	
	if (!(ctx = mpt_reply_deferrable(sizeof(id), do_send, &target))) return 2;
	/* take a second handle, e.g. what a generic TypeMetaRef assignment does */
	second = ctx;
	if (!second->_vptr->addref(second)) { fprintf(stderr, "addref refused\n"); return 3; }
	/* ... and drop it again: count is back to 1, ctx is the last and only reference */
	second->_vptr->unref(second);
	
	ctx->_vptr->convertable.convert((void *) ctx, MPT_ENUM(TypeReplyPtr), &rc);
	ctx->_vptr->convertable.convert((void *) ctx, MPT_ENUM(TypeReplyDataPtr), &rd);
	if (!rc || !rd) return 4;
	mpt_reply_set(rd, sizeof(id), id);
	ret = rc->_vptr->reply(rc, &msg);
	fprintf(stderr, "reply() = %d, send callback invoked %d time(s)\n", ret, sent);
	ctx->_vptr->unref(ctx);
	if (!sent) {
		fprintf(stderr, "FAIL: context lost its reply target although a reference was still held\n");
		return 1;
	}
	return 0;
}

/* f2: pointer_array<T>::swap() writes into a buffer shared with other handles.
 *
 * build: g++ -g -I/tmp/hunt-C04 -I/tmp/hunt-C04/mptcore f2_demo.cpp -L/tmp/hunt-C04/_build/mptcore -lmptcore -L/tmp/hunt-C04/_build/mpt++ -lmpt++ -Wl,-rpath,/tmp/hunt-C04/_build/mptcore -Wl,-rpath,/tmp/hunt-C04/_build/mpt++
 */
#include <cstdio>
#include <mptcore/array.h>

using namespace mpt;

int main()
{
	int x = 1, y = 2;
	pointer_array<int> a;
	a.insert(0, &x);
	a.insert(1, &y);
	
	pointer_array<int> b(a);  /* copy: shares buffer with a */
	
	/* reference behaviour: set() through b detaches, a keeps its values */
	pointer_array<int> c(a);
	c.set(0, &y);
	if (*a.get(0) != &x) {
		fputs("unexpected: set() changed other handle\n", stderr);
		return 2;
	}
	/* swap through b */
	if (!b.swap(0, 1)) {
		return 3;
	}
	printf("a = { %d, %d } (expected 1, 2)   b = { %d, %d } (expected 2, 1)\n",
	       **a.get(0), **a.get(1), **b.get(0), **b.get(1));
	if (*a.get(0) != &x || *a.get(1) != &y) {
		fputs("FAIL: swap through handle b changed what handle a reads\n", stderr);
		return 1;
	}
	return 0;
}

/* f1: mpt_array_reserve() on a handle whose buffer is shared (or immutable / no-copy)
 * does not keep the handle's content.
 *
 * build: gcc -g -I/tmp/hunt-C04 -I/tmp/hunt-C04/mptcore f1_demo.c -L/tmp/hunt-C04/_build/mptcore -lmptcore -Wl,-rpath,/tmp/hunt-C04/_build/mptcore
 */
#include <stdio.h>
#include <string.h>
#include <stdint.h>
#include <mptcore/array.h>

static int same(const MPT_STRUCT(array) *arr, const char *txt)
{
	const MPT_STRUCT(buffer) *b = arr->_buf;
	size_t len = strlen(txt);
	return b && b->_used == len && !memcmp(b + 1, txt, len);
}
int main(void)
{
	static const char txt[] = "0123456789";
	MPT_STRUCT(array) a = MPT_ARRAY_INIT, b = MPT_ARRAY_INIT, c = MPT_ARRAY_INIT, u = MPT_ARRAY_INIT;
	MPT_STRUCT(buffer) *buf;
	int err = 0;
	
	mpt_array_append(&a, 10, txt);
	mpt_array_append(&u, 10, txt);
	mpt_array_clone(&b, &a);  /* b shares buffer of a */
	mpt_array_clone(&c, &a);  /* c shares buffer of a */
	
	/* reference: private buffer keeps data for both calls */
	if (!mpt_array_reserve(&u, 0, 0) || !same(&u, txt)
	 || !mpt_array_reserve(&u, 100, 0) || !same(&u, txt)) {
		fputs("unexpected: reserve on private array changed data\n", stderr);
		return 2;
	}
	/* (1) same operation on shared handle: reports success, but handle lost its 10 bytes */
	buf = mpt_array_reserve(&b, 0, 0);
	printf("reserve(b, 0): %s, b length = %zu (expected 10), a length = %zu\n",
	       buf ? "ok" : "refused", b._buf ? b._buf->_used : 0, a._buf->_used);
	if (buf && !same(&b, txt)) {
		fputs("FAIL: successful reserve dropped content of the modified handle\n", stderr);
		err |= 1;
	}
	/* (2) any size on a shared, non-empty handle is refused (the copy can never succeed) */
	buf = mpt_array_reserve(&c, 100, 0);
	printf("reserve(c, 100): %s, c length = %zu\n", buf ? "ok" : "refused", c._buf ? c._buf->_used : 0);
	if (!buf) {
		fputs("FAIL: reserve on shared handle with data is always refused\n", stderr);
		err |= 2;
	}
	else if (!same(&c, txt)) {
		fputs("FAIL: reserve changed content\n", stderr);
		err |= 4;
	}
	/* (3) unshared buffer with immutable + no-copy flags: success, content gone */
	{
		MPT_STRUCT(array) n = MPT_ARRAY_INIT;
		n._buf = _mpt_buffer_alloc(10, MPT_ENUM(BufferImmutable) | MPT_ENUM(BufferNoCopy));
		memcpy(n._buf + 1, txt, 10);
		n._buf->_used = 10;
		buf = mpt_array_reserve(&n, 100, 0);
		printf("reserve(n, 100) [immutable|nocopy]: %s, n length = %zu (expected 10 or refusal)\n",
		       buf ? "ok" : "refused", n._buf ? n._buf->_used : 0);
		if (buf && !same(&n, txt)) {
			fputs("FAIL: successful reserve dropped content of no-copy buffer\n", stderr);
			err |= 8;
		}
	}
	/* other handle must be untouched in any case */
	if (!same(&a, txt)) {
		err |= 16;
	}
	return err;
}

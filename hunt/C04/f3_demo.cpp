/* f3: typed_array<T>::insert(pos, const T &val) with `val` referring to an element of the
 * same array: the buffer is shifted / reallocated BEFORE val is copied.
 *  (1) no reallocation: the wrong (shifted) element is inserted
 *  (2) reallocation: read from freed buffer (ASan: heap-use-after-free)
 *
 * build: g++ -g [-fsanitize=address] -I/tmp/hunt-C04 -I/tmp/hunt-C04/mptcore f3_demo.cpp -L/tmp/hunt-C04/_build/mptcore -lmptcore -L/tmp/hunt-C04/_build/mpt++ -lmpt++ -Wl,-rpath,/tmp/hunt-C04/_build/mptcore -Wl,-rpath,/tmp/hunt-C04/_build/mpt++
 */
#include <cstdio>
#include <vector>
#include <mptcore/array.h>

using namespace mpt;

int main()
{
	int err = 0;
	typed_array<int> a;
	std::vector<int> v;
	for (int i = 0; i < 3; i++) {
		a.insert(i, i + 1);
		v.push_back(i + 1);
	}
	/* prepend copy of last element: { 3, 1, 2, 3 } for value semantics vector */
	a.insert(0, *a.get(2));
	v.insert(v.begin(), v[2]);
	
	printf("mpt:");
	for (long i = 0; i < a.length(); i++) printf(" %d", *a.get(i));
	printf("\nstd:");
	for (size_t i = 0; i < v.size(); i++) printf(" %d", v[i]);
	printf("\n");
	fflush(stdout);
	if (a.length() != (long) v.size()) {
		err |= 1;
	}
	else for (size_t i = 0; i < v.size(); i++) {
		if (*a.get(i) != v[i]) err |= 1;
	}
	if (err) {
		fputs("FAIL: inserted value is not the referenced element\n", stderr);
	}
	/* 16 int = 64 byte fill the first allocation, next insert moves the buffer */
	typed_array<int> b;
	for (int i = 0; i < 16; i++) b.insert(i, 100 + i);
	b.insert(16, *b.get(0));  /* reads *b.get(0) after old buffer was freed */
	printf("b[16] = %d (expected 100)\n", *b.get(16));
	if (*b.get(16) != 100) err |= 2;
	return err;
}

/* f4b (related to f4): _mpt_buffer_alloc() adds its header size and rounds up without
 * overflow check. A length just below SIZE_MAX yields a 64 byte buffer, callers then
 * copy/zero `len` bytes into it -> heap overflow instead of a refusal.
 *
 * build: gcc -g -fsanitize=address -I/tmp/hunt-C04 -I/tmp/hunt-C04/mptcore f4b_demo.c -L/tmp/hunt-C04/_build/mptcore -lmptcore -Wl,-rpath,/tmp/hunt-C04/_build/mptcore
 */
#include <stdio.h>
#include <stdint.h>
#include <mptcore/array.h>

int main(int argc, char **argv)
{
	MPT_STRUCT(array) a = MPT_ARRAY_INIT;
	MPT_STRUCT(buffer) *b;
	void *ptr;
	
	/* backend hands out a block that is (much) smaller than requested */
	if ((b = _mpt_buffer_alloc(SIZE_MAX - 10, 0))) {
		printf("requested %zu bytes, got buffer with size %zu\n", SIZE_MAX - 10, b->_size); fflush(stdout);
		b->_vptr->unref(b);
	}
	if (argc > 1) {
		/* same for reserving a zeroed slice */
		ptr = mpt_array_slice(&a, 0, SIZE_MAX - 10);
	} else {
		/* append of zero bytes: memset(dest, 0, SIZE_MAX - 10) on the 64 byte block */
		ptr = mpt_array_append(&a, SIZE_MAX - 10, 0);
	}
	printf("returned %p\n", ptr);
	return ptr ? 1 : 0;
}

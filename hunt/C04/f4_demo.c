/* f4: mpt_array_insert() with a position above LONG_MAX is not refused: the range check
 * wraps, the needed size wraps to a small value and mpt_buffer_insert() zero fills
 * "the gap" [used, pos) -> write far beyond the buffer (SIGSEGV / ASan error).
 *
 * build: gcc -g -I/tmp/hunt-C04 -I/tmp/hunt-C04/mptcore f4_demo.c -L/tmp/hunt-C04/_build/mptcore -lmptcore -Wl,-rpath,/tmp/hunt-C04/_build/mptcore
 */
#include <stdio.h>
#include <stdint.h>
#include <string.h>
#include <errno.h>
#include <mptcore/array.h>

int main(int argc, char **argv)
{
	MPT_STRUCT(array) a = MPT_ARRAY_INIT;
	void *ptr;
	size_t before;
	
	if (!mpt_array_append(&a, 10, "0123456789")) {
		return 2;
	}
	before = a._buf->_used;
	/* position is (far) outside the data, there is no way to provide SIZE_MAX bytes */
	errno = 0;
	ptr = mpt_array_insert(&a, argc > 1 ? SIZE_MAX : SIZE_MAX - 1, 10);
	
	/* not reached on current tree (SIGSEGV in memset above); a fixed tree must refuse */
	printf("insert returned %p, length %zu -> %zu, size %zu\n", ptr, before, a._buf->_used, a._buf->_size);
	if (ptr || a._buf->_used != before) {
		fputs("out-of-range insert was not refused\n", stderr);
		return 1;
	}
	return 0;
}

/* f4c (related to f4): element index * sizeof(T) wraps in the C++ templates.
 *  - typed_array<double>::resize(1L << 61) reports success and EMPTIES the array
 *  - typed_array<double>::insert(1L << 61, v) reports success and inserts at index 0
 *
 * build: g++ -g -I/tmp/hunt-C04 -I/tmp/hunt-C04/mptcore f4c_demo.cpp -L/tmp/hunt-C04/_build/mptcore -lmptcore -L/tmp/hunt-C04/_build/mpt++ -lmpt++ -Wl,-rpath,/tmp/hunt-C04/_build/mptcore -Wl,-rpath,/tmp/hunt-C04/_build/mpt++
 */
#include <cstdio>
#include <mptcore/array.h>

using namespace mpt;

int main()
{
	int err = 0;
	typed_array<double> d;
	for (int i = 0; i < 3; i++) d.insert(i, i + 1.0);
	bool r = d.resize(1L << 61);
	printf("resize(2^61) = %d, length 3 -> %ld\n", r, d.length());
	if (r || d.length() != 3) err |= 1;
	
	typed_array<double> e;
	for (int i = 0; i < 3; i++) e.insert(i, i + 1.0);
	r = e.insert(1L << 61, 9.0);
	printf("insert(2^61, 9) = %d, length 3 -> %ld, e[0] = %g\n", r, e.length(), *e.get(0));
	if (r || e.length() != 3 || *e.get(0) != 1.0) err |= 2;
	return err;
}

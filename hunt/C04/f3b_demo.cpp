/* f3b (related to f3): array::operator+=(const content &) with the array's own content
 * ("double the data"): mpt_array_append() moves the buffer, then the stale content
 * reference is used as memcpy source -> heap-use-after-free (ASan).
 *
 * build: g++ -g -fsanitize=address -I/tmp/hunt-C04 -I/tmp/hunt-C04/mptcore f3b_demo.cpp -L/tmp/hunt-C04/_build/mptcore -lmptcore -L/tmp/hunt-C04/_build/mpt++ -lmpt++ -Wl,-rpath,/tmp/hunt-C04/_build/mptcore -Wl,-rpath,/tmp/hunt-C04/_build/mpt++
 */
#include <cstdio>
#include <cstring>
#include <mptcore/array.h>

using namespace mpt;

int main()
{
	char data[60];
	memset(data, 'x', sizeof(data));
	array a;
	a.append(sizeof(data), data);  /* 60 of 64 bytes used */
	a += *a.data();                 /* append own content */
	const array::content *c = a.data();
	printf("length = %zu (expected 120)\n", c->length());
	for (size_t i = 0; i < c->length(); i++) {
		if (((char *) c->data())[i] != 'x') { printf("byte %zu differs\n", i); return 1; }
	}
	return c->length() == 120 ? 0 : 1;
}

/*
 * mpt.py: encode_command() is meant to reject messages with an inline zero byte
 * (zero-terminated command framing cannot carry them), but its own ValueError is
 * swallowed by the surrounding "except Exception: pass".
 * The produced "frame" contains a zero byte in front of the terminating delimiter
 * and mpt_decode_command() splits it into two different messages.
 *
 * build (WT = worktree):
 *  gcc -g -I$WT/mptcore f3_demo.c -o f3_demo -L$WT/_build/mptcore -lmptcore -Wl,-rpath,$WT/_build/mptcore
 * run:
 *  ./f3_demo $WT        (directory containing mpt.py, default "..")
 */
#include <stdio.h>
#include <stdlib.h>
#include <string.h>
#include <sys/uio.h>

#include "convert.h"
#include "message.h"

int main(int argc, char *argv[])
{
	static const uint8_t msg[] = { 's', 'e', 't', 0, 'x', '=', '1' };
	MPT_STRUCT(decode_state) st = MPT_DECODE_INIT;
	struct iovec v;
	uint8_t buf[64];
	char cmd[1024];
	const char *dir = argc > 1 ? argv[1] : "..";
	FILE *p;
	size_t flen, i, zeros = 0;
	int r;
	
	snprintf(cmd, sizeof(cmd),
	         "python3 -B -c \"import sys; sys.path.insert(0, '%s'); import mpt; "
	         "sys.stdout.buffer.write(bytes(mpt.encode_command(bytearray(b'set\\x00x=1'))))\"", dir);
	if (!(p = popen(cmd, "r"))) {
		perror("popen");
		return 2;
	}
	/* leave space for command header in front of encoded data */
	flen = fread(buf + 2, 1, sizeof(buf) - 2, p);
	r = pclose(p);
	if (r != 0 && !flen) {
		fprintf(stderr, "encoder rejected message (expected behaviour), status %d\n", r);
		return 0;
	}
	fprintf(stderr, "python frame:");
	for (i = 0; i < flen; i++) {
		fprintf(stderr, " %02x", buf[2 + i]);
		if (!buf[2 + i] && i + 1 < flen) ++zeros;
	}
	fprintf(stderr, "\n");
	if (zeros) {
		fprintf(stderr, "frame has %zu zero byte(s) in front of the terminating delimiter\n", zeros);
	}
	st.curr = 2;
	v.iov_base = buf;
	v.iov_len  = 2 + flen;
	r = mpt_decode_command(&st, &v, 1);
	if (r != 1 || st.data.msg < 2) {
		fprintf(stderr, "decode failed: %d\n", r);
		return 1;
	}
	if ((size_t) st.data.msg - 2 != sizeof(msg)
	    || memcmp(buf + st.data.pos + 2, msg, sizeof(msg))) {
		fprintf(stderr, "decoded message has %zd payload bytes ('%.*s'), original has %zu\n",
		        st.data.msg - 2, (int) (st.data.msg - 2), buf + st.data.pos + 2, sizeof(msg));
		return 1;
	}
	return zeros ? 1 : 0;
}

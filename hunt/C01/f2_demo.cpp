/*
 * encode_array::shift(0) ("move used segment to buffer front") computes the
 * source offset from a boolean: `(max = _d.length() <= len)`.
 * With consumed data in front of the active segment it copies from *before*
 * the buffer start, so the pending (unterminated) part of the current message
 * is replaced by foreign heap bytes; the finished frame no longer decodes to
 * the pushed message.
 *
 * build:
 *  g++ -g -fsanitize=address -I$WT/mptcore -I$WT/mpt++ f2_demo.cpp -o f2_demo \
 *      -L$WT/_build/mpt++ -lmpt++ -L$WT/_build/mptcore -lmptcore \
 *      -Wl,-rpath,$WT/_build/mpt++ -Wl,-rpath,$WT/_build/mptcore
 *  (ASan reports the out-of-bounds read in memcpy; without ASan the program
 *   detects the broken round trip / missing compaction and exits 1)
 */
#include <cstdio>
#include <cstring>
#include <sys/uio.h>

#include "array.h"
#include "message.h"
#include "convert.h"

int main()
{
	mpt::encode_array arr(mpt::mpt_encode_cobs);
	uint8_t first[40], second[48];
	size_t i;
	
	for (i = 0; i < sizeof(first);  i++) first[i]  = 0x10 + i;
	for (i = 0; i < sizeof(second); i++) second[i] = 0x80 + i;
	
	/* first message: encode, terminate, hand out and mark as consumed */
	if (arr.push(sizeof(first), first) != (ssize_t) sizeof(first) || arr.push(0, 0) < 0) {
		return 2;
	}
	size_t sent = arr.data().size();   /* 42 byte frame */
	if (!arr.shift(sent)) {
		return 2;
	}
	/* second message: first half is pushed ... */
	if (arr.push(24, second) != 24) {
		return 2;
	}
	/* ... consumed frame is dropped from buffer front ... */
	bool moved = arr.shift();
	
	/* ... and the rest of the message follows */
	if (arr.push(24, second + 24) != 24 || arr.push(0, 0) < 0) {
		return 2;
	}
	mpt::span<const uint8_t> f = arr.data();
	
	uint8_t buf[256];
	struct iovec v;
	mpt::decode_state st;
	std::memcpy(buf, f.begin(), f.size());
	v.iov_base = buf;
	v.iov_len  = f.size();
	int r = mpt::mpt_decode_cobs(&st, &v, 1);
	
	if (r != 1 || st.data.msg != (ssize_t) sizeof(second)
	    || std::memcmp(buf + st.data.pos, second, sizeof(second))) {
		std::fprintf(stderr, "shift() returned %d; frame of second message decodes (ret %d) to %zd bytes:", (int) moved, r, st.data.msg);
		for (i = 0; st.data.msg > 0 && i < (size_t) st.data.msg; i++) std::fprintf(stderr, " %02x", buf[st.data.pos + i]);
		std::fprintf(stderr, "\nexpected %zu bytes 80 81 82 ...\n", sizeof(second));
		return 1;
	}
	return 0;
}

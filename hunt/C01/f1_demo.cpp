/*
 * encode_array::push(const message &) never advances through the message:
 * - a non-empty first segment is pushed over and over (endless loop, memory grows until killed)
 * - continuation segments (msg.cont[]) are never loaded at all
 *
 * build:
 *  g++ -g -I$WT/mptcore -I$WT/mpt++ f1_demo.cpp -o f1_demo \
 *      -L$WT/_build/mpt++ -lmpt++ -L$WT/_build/mptcore -lmptcore \
 *      -Wl,-rpath,$WT/_build/mpt++ -Wl,-rpath,$WT/_build/mptcore
 */
#include <cstdio>
#include <cstring>
#include <cstdlib>
#include <unistd.h>
#include <sys/uio.h>
#include <sys/resource.h>

#include "array.h"
#include "message.h"
#include "convert.h"

static int decode_and_compare(const mpt::span<const uint8_t> &f, const uint8_t *want, size_t wlen)
{
	mpt::decode_state st;
	uint8_t buf[256];
	struct iovec v;
	if ((size_t) f.size() > sizeof(buf)) {
		std::fprintf(stderr, "frame too large: %zu\n", (size_t) f.size());
		return 1;
	}
	std::memcpy(buf, f.begin(), f.size());
	v.iov_base = buf;
	v.iov_len  = f.size();
	int r = mpt::mpt_decode_cobs(&st, &v, 1);
	if (r != 1 || st.data.msg < 0) {
		std::fprintf(stderr, "decode failed: %d\n", r);
		return 1;
	}
	if ((size_t) st.data.msg != wlen || std::memcmp(buf + st.data.pos, want, wlen)) {
		std::fprintf(stderr, "decoded %zd bytes, expected %zu: message differs\n", st.data.msg, wlen);
		return 1;
	}
	return 0;
}

int main()
{
	static const uint8_t part1[] = { 'h', 'e', 'l', 'l', 'o', 0 };
	static const uint8_t part2[] = { 'w', 'o', 'r', 'l', 'd' };
	static const uint8_t all[]   = { 'h', 'e', 'l', 'l', 'o', 0, 'w', 'o', 'r', 'l', 'd' };
	int fail = 0;
	
	/* case A: message with empty head and all data in continuation segments */
	{
		mpt::encode_array arr(mpt::mpt_encode_cobs);
		struct iovec cont[2];
		cont[0].iov_base = (void *) part1; cont[0].iov_len = sizeof(part1);
		cont[1].iov_base = (void *) part2; cont[1].iov_len = sizeof(part2);
		mpt::message msg;
		msg.cont = cont;
		msg.clen = 2;
		if (!arr.push(msg)) {
			std::fprintf(stderr, "A: push(message) refused\n");
			fail |= 1;
		}
		else if (arr.push(0, 0) < 0) {
			std::fprintf(stderr, "A: terminate failed\n");
			fail |= 1;
		}
		else if (decode_and_compare(arr.data(), all, sizeof(all))) {
			std::fprintf(stderr, "A: push(message) reported success but continuation data was dropped\n");
			fail |= 1;
		}
	}
	/* case B: plain single-segment message -> push() does not return */
	{
		struct rlimit lim;
		lim.rlim_cur = lim.rlim_max = 512UL * 1024 * 1024;
		setrlimit(RLIMIT_AS, &lim);  /* keep runaway allocation bounded */
		alarm(5);                    /* SIGALRM kills the process if push() never returns */
		
		mpt::encode_array arr(mpt::mpt_encode_cobs);
		mpt::message msg(part2, sizeof(part2));
		bool ok = arr.push(msg);
		alarm(0);
		if (!ok) {
			std::fprintf(stderr, "B: push(message) failed for 5 byte message (buffer grew to %zu bytes)\n", (size_t) arr.data().size());
			fail |= 2;
		}
		else if (arr.push(0, 0) < 0 || decode_and_compare(arr.data(), part2, sizeof(part2))) {
			std::fprintf(stderr, "B: wrong frame\n");
			fail |= 2;
		}
	}
	return fail;
}

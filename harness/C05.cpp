// C05 — managed elements in typed buffers are finalised exactly once.
//
// History BFS on the real code (fresh objects per history, canonical-state dedupe, checked
// teardown after every new transition).  Three system families:
//   buf:<kind>:<init>   C level + buffer:: methods on two array handles; element kinds:
//        serial  harness traits {init,fini,16}: init() stamps a fresh serial INTO the element and
//                registers it in a live table, fini() looks the serial up (the library relocates
//                elements bitwise, so identity is the serial, not the address); init() can be told
//                to fail by the explorer (<= 2 injected failures per history)
//        finionly  harness traits {0,fini,16} (shape of reference_array's traits): such content can not be copy-constructed;
//                elements are constructed in place after insert/append, an all-zero slot is the valid empty value
//        array / meta / ident / conf / cmd   the library's own managed element types
//                (mpt_array_traits, mpt_meta_reference_traits, mpt_identifier_traits,
//                mpt_config_item_traits, mpt_command_traits) holding counting tokens / long names;
//                oracle = token reference accounting + allocation ledger + ASan
//   uarr / tarr         unique_array<Elem> / typed_array<Elem> (C++ templates) with a serial-stamped Elem
//   refs:<n> / items    reference_array<T> (sizeof(T)=n) / item_array<T> with a counting T
#include <cerrno>
#include <cstdlib>
#include <algorithm>
#include <sanitizer/asan_interface.h>
#include "core.h"
#include "types.h"
#include "array.h"
#include "meta.h"
#include "config.h"
#include "event.h"
#include "mc.hpp"

using namespace mc;
const char *mc_id = "C05";
const char *mc_rule = "history BFS with canonical-state dedupe: op sequences (set/insert/slice/cut/reserve(same, other, compatible, same-finaliser-other-size, untyped)/detach/clone/release/reduce/trim/skip/copy/move(also between element types)/set_length/append, "
                      "front/middle/end/past-the-end, shared/unshared, <=2 injected constructor failures) from 8 preloaded start states per element kind, plus C++ template arrays; "
                      "nontrivial = distinct (state,op) transitions in which library code constructed, destroyed or (de)referenced at least one element";

// =====================================================================================================
// shared callback state
// =====================================================================================================
struct NoLib { int d; NoLib() : d(mc::lib_depth) { mc::lib_depth = 0; } ~NoLib() { mc::lib_depth = d; } };

static bool g_active;            // library code of the current operation is running
static int g_calls;              // failable calls (constructors / addref) made by the library in this operation
static int g_arm;                // 0 = none, k>0 = k-th failable call fails, -1 = all fail
static int g_failed;             // failures injected in this operation
static uint64_t g_events;        // callbacks made by the library in this operation
static uint64_t g_made, g_copied, g_destroyed;   // per operation: constructions / copy constructions / destructions by library code
static std::string g_cbgroup, g_cbdetail;        // first violation noticed inside a callback
static void cbviol(const char *group, const std::string &d) { if (g_cbgroup.empty()) { g_cbgroup = group; g_cbdetail = d; } }
static bool g_nofail_;
static uint64_t g_assign_outside;
static bool arm_hit() { if (!g_active || g_nofail_) return false; ++g_calls; if (g_arm < 0 || g_arm == g_calls) { ++g_failed; return true; } return false; }

// ------------------------------------------------------------------ serial stamped elements
static const uint32_t MAGIC16 = 0xE1E50016u, MAGIC8 = 0xE1E50008u, DEAD = 0xDEAD0000u, FAILED = 0xFA11ED00u;
struct Rec { uint8_t live, owner, tr; uint32_t origin; };
static std::vector<Rec> g_tab;   // index = serial; owner 0 = belongs to a buffer, 1 = harness object
static int g_owner;              // owner of elements constructed right now

static int elem_init(void *ptr, const void *src, int tr)
{
	NoLib nl;
	size_t sz = tr == 2 ? 8 : (tr == 4 ? 32 : 16);
	uint32_t magic = tr == 2 ? MAGIC8 : MAGIC16;
	if (g_active) ++g_events;
	if ((uintptr_t) ptr % sz) cbviol("misaligned-construct", "init() called on an address that is not a multiple of the element size");
	if (__asan_region_is_poisoned(ptr, sz)) { cbviol("construct-outside-allocation", "init() called on memory outside any live allocation"); return -1; }
	if (arm_hit()) { memcpy(ptr, &FAILED, 4); return -1; }
	uint32_t origin = 0;
	if (src) {
		uint32_t s[2];
		if (__asan_region_is_poisoned((void *) src, sz)) { cbviol("copy-from-outside-allocation", "init() got a source outside any live allocation"); return -1; }
		memcpy(s, src, 8);
		if (s[0] != magic || s[1] >= g_tab.size() || !g_tab[s[1]].live) cbviol("copy-from-non-element", s[0] == (DEAD | (magic & 0xffff)) ? fmt("copy-construction from element #%u that was destroyed before", s[1]) : std::string("copy-construction from memory that is not an element"));
		else origin = g_tab[s[1]].origin ? g_tab[s[1]].origin : s[1];
		if (g_active) ++g_copied;
	}
	if (g_active) ++g_made;
	uint32_t e[4] = { magic, (uint32_t) g_tab.size(), origin, (uint32_t) tr };
	g_tab.push_back(Rec{1, (uint8_t) (g_active ? 0 : g_owner), (uint8_t) tr, origin});
	memcpy(ptr, e, sz > 16 ? 16 : sz);
	if (sz > 16) memset((uint8_t *) ptr + 16, 0, sz - 16);
	return 0;
}
static void elem_fini(void *ptr, int tr)
{
	NoLib nl;
	size_t sz = tr == 2 ? 8 : 16;     // 32-byte elements share the finaliser of the 16-byte ones (stamp in the first half)
	uint32_t magic = tr == 2 ? MAGIC8 : MAGIC16;
	if (g_active) ++g_events;
	if ((uintptr_t) ptr % sz) cbviol("misaligned-destroy", "fini() called on an address that is not a multiple of the element size");
	if (__asan_region_is_poisoned(ptr, sz)) { cbviol("destroy-outside-allocation", "fini() called on memory outside any live allocation (freed or past the buffer)"); return; }
	uint32_t s[2]; memcpy(s, ptr, 8);
	if (s[0] == (DEAD | (magic & 0xffff))) { cbviol("double-destroy", fmt("fini() called again on element #%u", s[1])); return; }
	if (s[0] != magic) { cbviol("non-element-destroyed", s[0] == FAILED ? std::string("fini() called on a slot whose constructor failed") : std::string("fini() called on memory that never was an element")); return; }
	if (s[1] >= g_tab.size() || !g_tab[s[1]].live) { cbviol("double-destroy", fmt("fini() called on a bitwise copy of element #%u which was destroyed before", s[1])); return; }
	if (g_active && g_tab[s[1]].owner) { cbviol("raw-copy-of-source-destroyed", fmt("fini() called on a raw byte copy of the caller's source element #%u", s[1])); return; }
	g_tab[s[1]].live = 0;
	if (g_active) ++g_destroyed;
	uint32_t d = DEAD | (magic & 0xffff); memcpy(ptr, &d, 4);
}
static int init16(void *p, const void *s) { return elem_init(p, s, 0); }
static int init16b(void *p, const void *s) { return elem_init(p, s, 1); }
static int init8(void *p, const void *s) { return elem_init(p, s, 2); }
static void fini16(void *p) { elem_fini(p, 0); }
static void fini8(void *p) { elem_fini(p, 2); }
static int init32(void *p, const void *s) { return elem_init(p, s, 4); }
// element type with a finaliser only (shape of reference_array's traits): an all-zero slot is the valid empty value,
// elements are constructed in place by the caller after insert/append; the type cannot be copied
static void finiF(void *p)
{
	static const uint8_t zero[16] = { 0 };
	if (!__asan_region_is_poisoned(p, 16) && !((uintptr_t) p % 16) && !memcmp(p, zero, 16)) { if (g_active) ++g_events; return; }
	elem_fini(p, 3);
}
// T16B: compatible with T16 (same finaliser, same size); T32: same finaliser but another size; T8: unrelated type
static const mpt::type_traits T16(16, fini16, init16), T16B(16, fini16, init16b), T8(8, fini8, init8), T32(32, fini16, init32), TF(16, finiF, 0);

// ------------------------------------------------------------------ counting tokens (never freed while a system lives)
struct CountBuf : public mpt::buffer
{
	long refs; int over;
	CountBuf() : buffer(0), refs(1), over(0) { }
	uint32_t get_flags() const override { return refs > 1 ? mpt::BufferShared : 0; }
	void unref() override { if (g_active) { ++g_events; ++g_destroyed; } if (refs <= 0) ++over; else --refs; }
	uintptr_t addref() override { if (g_active) ++g_events; if (refs <= 0) { ++over; return 0; } if (arm_hit()) return 0; if (g_active) ++g_copied; return ++refs; }
	mpt::buffer *detach(size_t) override { return 0; }
};
struct CountMeta : public mpt::metatype
{
	long refs; int over;
	CountMeta() : refs(1), over(0) { }
	virtual ~CountMeta() { }
	int convert(mpt::type_t, void *) override { return mpt::BadType; }
	void unref() override { if (g_active) { ++g_events; ++g_destroyed; } if (refs <= 0) ++over; else --refs; }
	uintptr_t addref() override { if (g_active) ++g_events; if (refs <= 0) { ++over; return 0; } if (arm_hit()) return 0; if (g_active) ++g_copied; return ++refs; }
	mpt::metatype *clone() const override { return 0; }
};
struct CmdRec { int finalised, called; };
static std::vector<CmdRec *> g_recs;
static int cmd_handler(void *arg, void *ev)
{
	NoLib nl;
	CmdRec *rec = 0;
	for (CmdRec *c : g_recs) if (c == arg) rec = c;
	if (g_active) ++g_events;
	if (!rec) { cbviol("non-element-destroyed", "command handler called with a context that is not a registered command"); return 0; }
	if (ev) { ++rec->called; return 0; }
	if (g_active) ++g_destroyed;
	++rec->finalised;
	return 0;
}

enum How { RUN, QUIET, PROBE };   // full step with oracle / step without oracle (replay of a verified prefix) / enabledness only
// failure groups of the signatures (the fine group stays in the detail text)
static std::string coarse(const std::string &g)
{
	static const char *twice[] = { "double-destroy", "destroyed-element-in-use", 0 };
	static const char *nonel[] = { "non-element-destroyed", "destroy-outside-allocation", "misaligned-destroy", "non-element-in-use", "construct-outside-allocation", "misaligned-construct",
	                               "raw-copy-of-source-destroyed", "dangling-element", "partial-element", "used-beyond-size", 0 };
	static const char *never[] = { "lost-element", "leak", "token-count", 0 };
	static const char *dup[] = { "duplicate", 0 };
	static const char *cpy[] = { "copy-from-non-element", "copy-from-outside-allocation", 0 };
	for (const char **p = twice; *p; ++p) if (g == *p) return "destroyed-twice";
	for (const char **p = nonel; *p; ++p) if (g == *p) return "not-an-element";
	for (const char **p = never; *p; ++p) if (g == *p) return "never-destroyed";
	for (const char **p = dup; *p; ++p) if (g == *p) return "raw-duplicate";
	for (const char **p = cpy; *p; ++p) if (g == *p) return "copy-from-non-element";
	return g;
}

// =====================================================================================================
// buffer level system
// =====================================================================================================
enum Kind { K_SERIAL, K_ARR, K_META, K_IDENT, K_CONF, K_CMD, K_FINI, NKINDS };
static const char *kind_name[] = { "serial", "array", "meta", "ident", "conf", "cmd", "finionly" };
static const char LONGNAME[] = "a-name-that-does-not-fit-inline-0123456789";
static const char LONGNAME2[] = "another-long-name-for-sub-items-0123456789";

// mirror of the private header in front of buffers made by _mpt_buffer_alloc (64 bytes: refcount, psize, flags, pad, buffer)
static uintptr_t alloc_refs(const mpt::buffer *b) { return *(const uintptr_t *) ((const char *) b - 32); }

enum Code { SET, BSET, INS, CUT, RESERVE, DETACH, CLONE, RELEASE, REDUCE, NEWBUF, TRIM, SKIP, COPY, MOVE, SETLEN, APPEND, ARM, ARMSLOT, SUBBUF, SLICE, SETOWN, NCODES };
static const char *code_name[] = { "array_set", "buffer_set", "array_insert", "buffer_cut", "array_reserve", "detach", "array_clone", "release", "array_reduce", "new_buffer",
                                   "buffer::trim", "buffer::skip", "buffer::copy", "buffer::move", "content::set_length", "buffer::append", "arm-ctor-failure", "set-handler", "add-subitems", "array_slice", "array_set" };
enum Pos { P0, P1, PEND, PPAST, PLAST, PBEFORE };     // 0, 1, N, N+1, -1 (relative to end), N-1
static const char *pos_name[] = { "0", "1", "end", "end+1", "-1", "end-1" };
struct OpDef { int code, h, a, b, c; };

template <size_t N> struct Blob { uint8_t b[N]; };

struct BSys {
	Run &r;
	int kind;
	const mpt::type_traits *KT;    // element traits of the kind
	const mpt::type_traits *KT2;   // compatible traits (same fini and size, other init) or 0
	size_t ks;                     // element size
	int maxe;
	mpt::buffer *hb[2];
	size_t lbase;
	int fails_used, arm;
	bool violated, torn, counting;
	// harness owned source elements (2) in an exactly sized block
	uint8_t *src;
	CountBuf *cb[2]; CountMeta *cm[2];
	static std::vector<OpDef> ops;

	mpt::array *H(int h) { return reinterpret_cast<mpt::array *>(&hb[h]); }

	// full = false: without the two "compatible type" reserve letters (they double the serial state space; the closure job
	// of the thorough tier runs without them, every depth-bounded job with them)
	static void build_ops(int kind, bool full = true)
	{
		ops.clear();
		for (int h = 0; h < 2; ++h) {
			for (int p : {P0, P1, PEND, PPAST, PLAST}) for (int c = 1; c <= 2; ++c) for (int d = 1; d >= 0; --d) ops.push_back(OpDef{SET, h, p, c, d});
			for (int p : {P0, PEND}) ops.push_back(OpDef{BSET, h, p, 1, 1});
			// source elements inside the target array: shift down (overlapping), append a copy of the first, self assignment, disjoint
			for (int shape = 0; shape < 4; ++shape) ops.push_back(OpDef{SETOWN, h, shape, 0, 0});
			for (int p : {P0, P1, PEND, PPAST}) for (int c = 1; c <= 2; ++c) ops.push_back(OpDef{INS, h, p, c, 0});
			for (auto pc : {std::make_pair(P0, 1), std::make_pair(P1, 1), std::make_pair(PBEFORE, 1), std::make_pair(P0, 2), std::make_pair(P1, 0), std::make_pair(P0, 0), std::make_pair(PEND, 1)}) ops.push_back(OpDef{CUT, h, pc.first, pc.second, 0});
			// byte-granular requests on a typed buffer: c=1 offset half an element further (length whole elements), c=2 length half an element longer (offset aligned)
			for (auto pc : {std::make_pair(P0, 1), std::make_pair(P1, 1), std::make_pair(P0, 2), std::make_pair(P0, 0)}) ops.push_back(OpDef{CUT, h, pc.first, pc.second, 1});
			for (auto pc : {std::make_pair(P0, 0), std::make_pair(P1, 1)}) ops.push_back(OpDef{CUT, h, pc.first, pc.second, 2});
			for (int n : {0, 1, 2}) for (int t = 0; t < (kind == K_SERIAL && full ? 5 : 3); ++t) ops.push_back(OpDef{RESERVE, h, n, t, 0});     // n: 0 elements / current / capacity+1 ; t: same / other / untyped / compatible (same finaliser+size) / same finaliser, other size
			for (auto pc : {std::make_pair(P0, 1), std::make_pair(P0, -1), std::make_pair(PEND, 1), std::make_pair(PPAST, 1)}) ops.push_back(OpDef{SLICE, h, pc.first, pc.second, 0});   // (0,1) / (0,N+1) / (N,1) / (N+1,1)
			for (int n : {0, 1, 2}) ops.push_back(OpDef{DETACH, h, n, 0, 0});                                    // smaller / equal / larger than capacity
			ops.push_back(OpDef{CLONE, h, 0, 0, 0}); ops.push_back(OpDef{RELEASE, h, 0, 0, 0}); ops.push_back(OpDef{REDUCE, h, 0, 0, 0});
			for (int f : {0, (int) mpt::BufferNoCopy, (int) mpt::BufferImmutable}) ops.push_back(OpDef{NEWBUF, h, f, 0, 0});
			for (int n : {0, 1, 2}) { ops.push_back(OpDef{TRIM, h, n, 0, 0}); ops.push_back(OpDef{SKIP, h, n, 0, 0}); }   // 0 / 1 / all elements
			ops.push_back(OpDef{COPY, h, 0, 0, 0}); ops.push_back(OpDef{MOVE, h, 0, 0, 0});
			for (int n : {0, 1, 2}) ops.push_back(OpDef{SETLEN, h, n, 0, 0});                                   // 0 / N-1 / N+1
			ops.push_back(OpDef{APPEND, h, 1, 0, 0});
			if (kind == K_CMD) for (int p : {P0, PLAST}) ops.push_back(OpDef{ARMSLOT, h, p, 0, 0});
			if (kind == K_CONF) ops.push_back(OpDef{SUBBUF, h, 0, 0, 0});
		}
		if (kind == K_SERIAL || kind == K_ARR || kind == K_META || kind == K_CONF) for (int k : {1, 2, 3, -1}) ops.push_back(OpDef{ARM, 0, k, 0, 0});
	}
	int nops() { return (int) ops.size(); }
	std::string opbase(int i) { return code_name[ops[i].code]; }
	std::string opname(int i)
	{
		const OpDef &o = ops[i];
		std::string s = code_name[o.code];
		switch (o.code) {
		case SET: return fmt("h%d.array_set(off=%s,n=%d,%s)", o.h, pos_name[o.a], o.b, o.c ? "data" : "NULL");
		case BSET: return fmt("h%d.buffer_set(compatible traits,pos=%s,n=1)", o.h, pos_name[o.a]);
		case SETOWN: { static const char *sn[] = { "off=0,n=2,data=&own[1]", "off=end,n=1,data=&own[0]", "off=0,n=1,data=&own[0]", "off=1,n=1,data=&own[0]" }; return fmt("h%d.array_set(%s)", o.h, sn[o.a]); }
		case INS: return fmt("h%d.array_insert(pos=%s,n=%d)+construct", o.h, pos_name[o.a], o.b);
		case CUT: return o.c ? fmt("h%d.buffer_cut(off=%s%s,n=%d%s) [byte counts, not element aligned]", o.h, pos_name[o.a], o.c == 1 ? "+half" : "", o.b, o.c == 2 ? "+half" : "")
		                     : fmt("h%d.buffer_cut(off=%s,n=%d)", o.h, pos_name[o.a], o.b);
		case RESERVE: { static const char *tn[] = { "same traits", "other traits", "untyped", "compatible traits", "traits with the same finaliser but twice the size" };
			return fmt("h%d.array_reserve(%s,%s)", o.h, o.a == 0 ? "0" : (o.a == 1 ? "N" : "capacity+1"), tn[o.b]); }
		case SLICE: return o.b < 0 ? fmt("h%d.array_slice(off=0,n=N+1)", o.h) : fmt("h%d.array_slice(off=%s,n=%d)", o.h, pos_name[o.a], o.b);
		case DETACH: return fmt("h%d.detach(%s)", o.h, o.a == 0 ? "N-1" : (o.a == 1 ? "N" : "capacity+1"));
		case CLONE: return fmt("array_clone(h%d <- h%d)", o.h, 1 - o.h);
		case RELEASE: return fmt("h%d.release", o.h);
		case REDUCE: return fmt("h%d.array_reduce", o.h);
		case NEWBUF: return fmt("h%d = new buffer(flags=%d)", o.h, o.a);
		case TRIM: case SKIP: return fmt("h%d.%s(%s)", o.h, code_name[o.code], o.a == 0 ? "0" : (o.a == 1 ? "1" : "all"));
		case COPY: case MOVE: return fmt("h%d.%s(h%d)", o.h, code_name[o.code], 1 - o.h);
		case SETLEN: return fmt("h%d.set_length(%s)", o.h, o.a == 0 ? "0" : (o.a == 1 ? "N-1" : "N+1"));
		case APPEND: return fmt("h%d.buffer::append(1)+construct", o.h);
		case ARM: return o.a < 0 ? std::string("next op: every constructor fails") : fmt("next op: constructor call %d fails", o.a);
		case ARMSLOT: return fmt("h%d.set-handler(slot %s)", o.h, pos_name[o.a]);
		case SUBBUF: return fmt("h%d.slot0.add-subitems", o.h);
		}
		return s;
	}

	// ------------------------------------------------------------------ harness side construction
	void make_src()
	{
		NoLib nl;
		src = (uint8_t *) malloc(2 * ks);
		memset(src, 0, 2 * ks);
		g_owner = 1;
		switch (kind) {
		case K_SERIAL: elem_init(src, 0, 0); elem_init(src + 16, 0, 0); break;
		case K_FINI: elem_init(src, 0, 3); elem_init(src + 16, 0, 3); break;
		case K_ARR: ((mpt::buffer **) src)[0] = cb[0]; ((mpt::buffer **) src)[1] = cb[1]; break;
		case K_META: ((mpt::metatype **) src)[0] = cm[0]; ((mpt::metatype **) src)[1] = cm[1]; break;
		case K_IDENT: for (int i = 0; i < 2; ++i) { mpt::identifier *id = (mpt::identifier *) (src + i * ks); mpt::mpt_identifier_init(id, ks); mpt::mpt_identifier_set(id, i ? "short" : LONGNAME, -1); } break;
		case K_CONF: for (int i = 0; i < 2; ++i) {
				uint8_t *it = src + i * ks;   // { elements(8), value(8), identifier(16) }
				*(mpt::metatype **) (it + 8) = cm[i];
				mpt::identifier *id = (mpt::identifier *) (it + 16); mpt::mpt_identifier_init(id, 16); mpt::mpt_identifier_set(id, i ? "short" : LONGNAME, -1);
			} break;
		case K_CMD: { mpt::command *c = (mpt::command *) src; CmdRec *rec = new CmdRec{0, 0}; g_recs.push_back(rec); c[0].id = 7; c[0].cmd = cmd_handler; c[0].arg = rec; } break;
		}
		g_owner = 0;
	}
	void drop_src()
	{
		NoLib nl;
		switch (kind) {
		case K_SERIAL: elem_fini(src, 0); elem_fini(src + 16, 0); break;
		case K_FINI: elem_fini(src, 3); elem_fini(src + 16, 3); break;
		case K_CMD: g_recs[0]->finalised++; break;    // the source command is the harness' own: it is never handed to the library as an element
		default: break;
		}
		if (kind == K_IDENT) for (int i = 0; i < 2; ++i) mpt::mpt_identifier_set((mpt::identifier *) (src + i * ks), 0, 0);
		if (kind == K_CONF) for (int i = 0; i < 2; ++i) mpt::mpt_identifier_set((mpt::identifier *) (src + i * ks + 16), 0, 0);
		cb[0]->unref(); cb[1]->unref(); cm[0]->unref(); cm[1]->unref();
		free(src); src = 0;
	}
	// exactly sized block of n source elements for mpt_array_set/mpt_buffer_set: a bytewise copy of the harness' own source
	// elements (they stay the harness' own: the library has to copy-construct them, or - for the finaliser-only kind, which
	// cannot be copied - to refuse; its elements get into a buffer by insert + construction in place only)
	uint8_t *make_data(int n)
	{
		NoLib nl;
		uint8_t *data = (uint8_t *) malloc(n * ks);
		memcpy(data, src, n * ks);
		return data;
	}
	void settle_data(uint8_t *data, int, bool) { NoLib nl; free(data); }
	// construct elements in a region the library handed out uninitialised (insert / append)
	void construct(const mpt::type_traits *t, void *ptr, size_t bytes, int first)
	{
		if (!t || !ptr) return;
		uint8_t *p = (uint8_t *) ptr;
		int n = first;
		for (size_t o = 0; o + t->size <= bytes; o += t->size, ++n) {
			if (t == &T16 || t == &T16B) elem_init(p + o, 0, 0);
			else if (t == &T8) elem_init(p + o, 0, 2);
			else if (t == &T32) elem_init(p + o, 0, 4);
			else if (t == &TF) { if (n & 1) memset(p + o, 0, 16); else elem_init(p + o, 0, 3); }
			else if (t == KT) {
				// even slots copy the first source element, odd ones are default constructed; allocations count as library ones
				if (kind == K_CMD || (n & 1) || LIB(KT->init(p + o, src)) < 0) LIB(KT->init(p + o, 0));
			}
		}
	}

	BSys(Run &run, int k, uint64_t init) : r(run), kind(k), lbase(0), fails_used(0), arm(0), violated(false), torn(false), counting(false), src(0), nontriv(false)
	{
		static unsigned nsys = 0;
		if (ledger_live() || (++nsys & 1023) == 0) ledger_reset();
		lbase = ledger_live();
		g_tab.clear(); g_tab.reserve(256); g_tab.push_back(Rec{0, 0, 0, 0});
		for (CmdRec *c : g_recs) delete c; g_recs.clear();
		g_active = false; g_arm = 0; g_cbgroup.clear(); g_cbdetail.clear();
		hb[0] = hb[1] = 0;
		cb[0] = new CountBuf; cb[1] = new CountBuf; cm[0] = new CountMeta; cm[1] = new CountMeta;
		KT2 = 0; maxe = 4;
		switch (kind) {
		case K_SERIAL: KT = &T16; KT2 = &T16B; maxe = (run.tier == Thorough && init == 0) ? 5 : 6; break;   // closure job: 5 elements (one capacity growth) keep the single long job short
		case K_ARR: KT = mpt::mpt_array_traits(); break;
		case K_META: KT = mpt::mpt_meta_reference_traits(); break;
		case K_IDENT: KT = mpt::mpt_identifier_traits(); break;
		case K_CONF: KT = mpt::mpt_config_item_traits(); break;
		case K_CMD: KT = mpt::mpt_command_traits(); break;
		case K_FINI: KT = &TF; break;
		}
		ks = KT->size;
		make_src();
		asan_error();
		preload(init);
	}
	~BSys()
	{
		if (!torn && !violated) release_all();
		// violated systems are abandoned: their buffers may be inconsistent (leaked on purpose)
		NoLib nl;
		if (src && !violated) drop_src();
		delete cb[0]; delete cb[1]; delete cm[0]; delete cm[1];
		asan_error();
	}
	void release_all()
	{
		g_active = true;
		for (int h = 0; h < 2; ++h) if (hb[h]) LIB(mpt::mpt_array_clone(H(h), 0));
		g_active = false;
		torn = true;
	}

	// start states, built with the plainest calls (append one element at a time)
	static const int NINIT = 8;
	static const char *init_name(uint64_t i)
	{
		static const char *n[] = { "empty", "h0=3", "h0=h1=3(shared)", "h0=5(grown)", "h0=h1=5(shared,grown)", "h0=2(nocopy)", "h0=2(immutable)", "h0=3,h1=2" };
		return n[i];
	}
	void fill(int h, int n, int flags)
	{
		g_active = true;
		if (flags >= 0) { hb[h] = LIB(mpt::_mpt_buffer_alloc(n * ks, flags)); hb[h]->_content_traits = KT; }
		if (kind == K_FINI && flags < 0 && !hb[h]) LIB(mpt::mpt_array_reserve(H(h), ks, KT));   // mpt_array_insert on an empty array would make a raw buffer
		for (int i = 0; i < n && kind == K_FINI; ++i) {
			void *at = flags >= 0 ? LIB(mpt::mpt_buffer_insert(hb[h], i * ks, ks)) : LIB(mpt::mpt_array_insert(H(h), i * ks, ks));
			g_active = false; construct(KT, at, ks, i); g_active = true;
		}
		for (int i = 0; i < n && kind != K_FINI; ++i) {
			uint8_t *d = (i & 1) ? 0 : make_data(1);
			bool ok;
			if (flags >= 0) ok = LIB(mpt::mpt_buffer_set(hb[h], KT, i * ks, d, ks)) >= 0;
			else ok = LIB(mpt::mpt_array_set(H(h), KT, ks, d, i)) != 0;
			if (d) settle_data(d, 1, ok);
		}
		g_active = false;
	}
	void preload(uint64_t init)
	{
		switch (init) {
		case 0: break;
		case 1: fill(0, 3, -1); break;
		case 2: fill(0, 3, -1); LIB(mpt::mpt_array_clone(H(1), H(0))); break;
		case 3: fill(0, 5, -1); break;
		case 4: fill(0, 5, -1); LIB(mpt::mpt_array_clone(H(1), H(0))); break;
		case 5: fill(0, 2, mpt::BufferNoCopy); break;
		case 6: fill(0, 2, mpt::BufferImmutable); break;
		case 7: fill(0, 3, -1); fill(1, 2, -1); break;
		}
		std::string g, d;
		if (!oracle(g, d)) { violated = true; r.violation(std::string("preload|") + kind_name[kind] + "," + init_name(init) + "|append-one-by-one|" + coarse(g), "[" + g + "] " + std::string("building the start state ") + init_name(init) + " with mpt_array_set/mpt_buffer_set appends: " + d); }
	}

	// ------------------------------------------------------------------ observation
	size_t N(int h) const { return hb[h] ? hb[h]->_used / ks : 0; }
	int traits_id(const mpt::type_traits *t) const { return !t ? 0 : (t == KT ? 1 : (t == KT2 ? 2 : (t == &T8 ? 3 : (t == &T32 ? 5 : 4)))); }
	bool is_alloc(const mpt::buffer *b) const { return ledger_is_live((const char *) b - 32); }

	struct Scan { std::set<uint32_t> seen; std::set<const void *> blocks; size_t nblocks; long tok[4]; std::map<CmdRec *, int> recs; std::string cls; std::string g, d; };
	void bad(Scan &sc, const char *g, const std::string &d) { if (sc.g.empty()) { sc.g = g; sc.d = d; } }
	bool ident_slot(Scan &sc, const uint8_t *p, size_t max, const std::string &where, char &c)
	{
		const mpt::identifier *id = (const mpt::identifier *) p;
		if (id->_max != max) { bad(sc, "non-element-in-use", where + " is not an initialised identifier"); return false; }
		c = id->_len ? 's' : 'e';
		if (id->_len > id->_max) {
			c = 'L';
			if (!ledger_is_live(id->_base)) { bad(sc, "dangling-element", where + " refers to a name block that is not allocated (freed, or the caller's source block copied bytewise)"); return false; }
			if (!sc.blocks.insert(id->_base).second) { bad(sc, "duplicate", where + " shares its name block with another element (raw byte duplication)"); return false; }
			++sc.nblocks;
		}
		return true;
	}
	void scan_buffer(const mpt::buffer *b, Scan &sc, int depth)
	{
		const mpt::type_traits *t = b->_content_traits;
		if (!t) { sc.cls += fmt("raw%zu", b->_used); return; }
		size_t sz = t->size;
		if (b->_used > b->_size) { bad(sc, "used-beyond-size", fmt("buffer reports %zu used bytes of %zu", b->_used, b->_size)); return; }
		if (b->_used % sz) { bad(sc, "partial-element", fmt("buffer of %zu-byte elements reports %zu used bytes", sz, b->_used)); return; }
		const uint8_t *p = (const uint8_t *) (b + 1);
		for (size_t i = 0; i * sz < b->_used; ++i, p += sz) {
			std::string where = fmt("slot %zu", i);
			if (t == &T16 || t == &T16B || t == &T8 || t == &T32 || t == &TF) {
				uint32_t magic = t == &T8 ? MAGIC8 : MAGIC16, s[2]; memcpy(s, p, 8);
				if (t == &TF) { static const uint8_t zero[16] = { 0 }; if (!memcmp(p, zero, 16)) { sc.cls += 'e'; continue; } }
				sc.cls += 'x';
				if (s[0] == (DEAD | (magic & 0xffff))) bad(sc, "destroyed-element-in-use", where + fmt(" still counts as used but holds element #%u which was destroyed", s[1]));
				else if (s[0] != magic) bad(sc, "non-element-in-use", where + (s[0] == FAILED ? " counts as used although its constructor failed" : " counts as used but was never constructed"));
				else if (s[1] >= g_tab.size() || !g_tab[s[1]].live) bad(sc, "destroyed-element-in-use", where + fmt(" holds a bitwise copy of element #%u which was destroyed", s[1]));
				else if (g_tab[s[1]].owner) bad(sc, "duplicate", where + fmt(" holds a raw byte copy of the caller's source element #%u (not copy-constructed)", s[1]));
				else if (!sc.seen.insert(s[1]).second) bad(sc, "duplicate", where + fmt(": element #%u is visible in two places (raw byte duplication)", s[1]));
				continue;
			}
			if (t != KT) { bad(sc, "unknown-traits", "buffer has unexpected content traits"); return; }
			char c = 'e';
			switch (kind) {
			case K_ARR: { const mpt::buffer *e = *(mpt::buffer *const *) p; if (e) { int k = e == cb[0] ? 0 : (e == cb[1] ? 1 : -1); if (k < 0) bad(sc, "non-element-in-use", where + " holds a pointer that is no buffer"); else { ++sc.tok[k]; c = 't'; } } break; }
			case K_META: { const mpt::metatype *e = *(mpt::metatype *const *) p; if (e) { int k = e == cm[0] ? 0 : (e == cm[1] ? 1 : -1); if (k < 0) bad(sc, "non-element-in-use", where + " holds a pointer that is no metatype"); else { ++sc.tok[k]; c = 't'; } } break; }
			case K_IDENT: ident_slot(sc, p, 12, where, c); break;
			case K_CONF: {
				const mpt::buffer *sub = *(mpt::buffer *const *) p; const mpt::metatype *e = *(mpt::metatype *const *) (p + 8);
				char ci = 'e';
				if (!ident_slot(sc, p + 16, 12, where + " identifier", ci)) break;
				c = ci;
				if (e) { int k = e == cm[0] ? 0 : (e == cm[1] ? 1 : -1); if (k < 0) { bad(sc, "non-element-in-use", where + " value is no metatype"); break; } ++sc.tok[k]; c = ci == 'L' ? 'V' : (ci == 's' ? 'v' : 'w'); }
				if (sub) {
					if (depth || !is_alloc(sub)) { bad(sc, "dangling-element", where + " sub-item buffer is not allocated (any more)"); break; }
					if (!sc.blocks.insert(sub).second) { bad(sc, "duplicate", where + " shares its sub-item buffer pointer with another element without a reference"); break; }
					++sc.nblocks; sc.cls += '['; scan_buffer(sub, sc, depth + 1); sc.cls += ']';
				}
				break; }
			case K_CMD: {
				const mpt::command *cmd = (const mpt::command *) p;
				if (cmd->cmd) {
					CmdRec *rec = 0; for (CmdRec *x : g_recs) if (x == cmd->arg) rec = x;
					if (cmd->cmd != cmd_handler || !rec) bad(sc, "non-element-in-use", where + " holds a handler that was never registered");
					else { ++sc.recs[rec]; c = 't'; }
				}
				break; }
			}
			sc.cls += c;
		}
	}
	// full consistency check of everything reachable; false + (group, detail) when violated
	bool oracle(std::string &g, std::string &d)
	{
		if (!g_cbgroup.empty()) { g = g_cbgroup; d = g_cbdetail; return false; }
		if (asan_error()) { g = "asan"; d = "AddressSanitizer reported an invalid access inside the operation"; return false; }
		Scan sc; sc.nblocks = 0; memset(sc.tok, 0, sizeof sc.tok);
		size_t nbuf = 0;
		std::string newcls[2];
		for (int h = 0; h < 2; ++h) {
			if (!hb[h] || (h && hb[1] == hb[0])) continue;
			if (!is_alloc(hb[h])) { g = "dangling-buffer"; d = fmt("the buffer of handle %d is not allocated (any more)", h); return false; }
			++nbuf;
			uintptr_t holders = 1 + (hb[0] == hb[1] ? 1 : 0);
			if (alloc_refs(hb[h]) != holders) { g = "holder-count"; d = fmt("buffer has %zu holder(s) but its reference count is %zu", (size_t) holders, (size_t) alloc_refs(hb[h])); return false; }
			sc.cls.clear();
			scan_buffer(hb[h], sc, 0);
			newcls[h] = sc.cls;
			if (asan_error()) { g = "asan"; d = "reading the buffer content faults"; return false; }
		}
		if (!sc.g.empty()) { g = sc.g; d = sc.d; return false; }
		for (size_t s = 1; s < g_tab.size(); ++s) if (g_tab[s].live && !g_tab[s].owner && !sc.seen.count((uint32_t) s)) { g = "lost-element"; d = fmt("element #%zu is in no buffer any more but was never destroyed", s); return false; }
		for (int k = 0; k < 2; ++k) {
			long have = kind == K_ARR ? cb[k]->refs : cm[k]->refs; int over = kind == K_ARR ? cb[k]->over : cm[k]->over;
			if (kind != K_ARR && kind != K_META && kind != K_CONF) break;
			if (over) { g = "double-destroy"; d = fmt("token %d was released more often than it was referenced", k); return false; }
			long want = (src ? 1 : 0) + sc.tok[k];
			if (have != want) { g = have > want ? "lost-element" : "double-destroy"; d = fmt("token %d: %ld reference(s) held, %ld element(s) refer to it (+%d harness)", k, have, sc.tok[k], src ? 1 : 0); return false; }
		}
		if (kind == K_CMD) for (size_t i = 1; i < g_recs.size(); ++i) {
			CmdRec *c = g_recs[i]; int vis = sc.recs.count(c) ? sc.recs[c] : 0;
			if (c->finalised > 1) { g = "double-destroy"; d = fmt("command %zu was finalised %d times", i, c->finalised); return false; }
			if (vis > 1) { g = "duplicate"; d = fmt("command %zu is visible in %d elements", i, vis); return false; }
			if (c->finalised && vis) { g = "destroyed-element-in-use"; d = fmt("command %zu was finalised but is still stored in a used element", i); return false; }
			if (!c->finalised && !vis) { g = "lost-element"; d = fmt("command %zu is in no buffer any more but was never finalised", i); return false; }
		}
		size_t live = ledger_live() - lbase;
		if (live != nbuf + sc.nblocks) { g = live > nbuf + sc.nblocks ? "leak" : "missing-block"; d = fmt("%zu library allocation(s) live, reachable: %zu buffer(s) + %zu element-owned block(s)", live, nbuf, sc.nblocks); return false; }
		lastcls[0] = newcls[0]; lastcls[1] = newcls[1];
		return true;
	}
	std::string lastcls[2];
	// the two handles are interchangeable: the canonical form orders them
	std::string canon()
	{
		std::string s = fmt("arm=%d fails=%d ", arm, fails_used), hs[2];
		for (int h = 0; h < 2; ++h) {
			const mpt::buffer *b = hb[h];
			if (!b) { hs[h] = "-"; continue; }
			hs[h] = fmt("size=%zu,used=%zu,t=%d,f=%x:", b->_size, b->_used, traits_id(b->_content_traits), (unsigned) b->get_flags()) + lastcls[hb[0] == hb[1] ? 0 : h];
		}
		if (hb[0] && hb[0] == hb[1]) return s + "both{" + hs[0] + "}";
		return s + (hs[0] <= hs[1] ? "{" + hs[0] + "} {" + hs[1] + "}" : "{" + hs[1] + "} {" + hs[0] + "}");
	}
	bool refresh() { std::string g, d; g_cbgroup.clear(); asan_error(); return oracle(g, d); }

	// ------------------------------------------------------------------ operations
	std::string stcls(int h) const
	{
		const mpt::buffer *b = hb[h];
		if (!b) return "nobuf";
		uint32_t f = b->get_flags();
		return (f & mpt::BufferShared) ? "shared" : "unshared";
	}
	std::string stdetail(int h) const
	{
		const mpt::buffer *b = hb[h];
		if (!b) return "no buffer";
		uint32_t f = b->get_flags();
		std::string s = (f & mpt::BufferShared) ? "shared" : "unshared";
		if (f & mpt::BufferNoCopy) s += ",nocopy";
		if (f & mpt::BufferImmutable) s += ",immutable";
		if (b->_content_traits != KT) s += b->_content_traits ? ",other element type" : ",untyped";
		return s;
	}
	bool apply(int opi, int how = RUN)
	{
		const OpDef &o = ops[opi];
		int h = o.h;
		mpt::buffer *b = hb[h], *ob = hb[1 - h];
		long n = (long) N(h);
		size_t capel = b ? b->_size / ks : 0;
		std::string st = stcls(h), ac = "-";
		long pos = 0;
		switch (o.a) { case P0: pos = 0; break; case P1: pos = 1; break; case PEND: pos = n; break; case PPAST: pos = n + 1; break; case PLAST: pos = -1; break; case PBEFORE: pos = n - 1; break; }
		auto poscls = [&](long p, long c) { return std::string(p > n ? "past-end" : (p == n ? "append" : (p + c < n ? "inside,tail-kept" : "inside,to-end"))); };
		// ---- enabledness (bounds of the exploration, no library call)
		switch (o.code) {
		case SET: { long p = pos < 0 ? n + pos : pos; if (p < 0 && b) return false; if (p + o.b > maxe) return false; ac = poscls(p, o.b) + (o.c ? "" : ",default"); break; }
		case BSET: if (!b || !KT2 || b->_content_traits != KT || (pos + 1) * ks > b->_size) return false; ac = poscls(pos, 1) + ",compatible-traits"; break;
		case SETOWN: {
			static const long need[] = { 3, 1, 1, 2 };
			if (!b || b->_content_traits != KT || n < need[o.a] || (o.a == 1 && n + 1 > maxe)) return false;
			ac = o.a == 0 ? "own-source,overlapping" : (o.a == 1 ? "own-source,append" : (o.a == 2 ? "own-source,self" : "own-source,disjoint"));
			break; }
		case INS: if (std::max(pos, n) + o.b > maxe) return false; ac = pos > n ? "past-end" : (pos == n ? "append" : "inside"); break;
		case CUT: if (!b || pos < 0) return false; ac = o.b == 0 ? "truncate" : (pos + o.b > n ? "out-of-range" : (pos + o.b == n ? "inside,to-end" : "inside,tail-kept"));
			if (o.c) {
				// misaligned requests only where the element grid is the kind's own (typed buffer, used length a whole number of elements)
				if (b->_content_traits != KT || b->_used % ks) return false;
				size_t boff = pos * ks + (o.c == 1 ? ks / 2 : 0), blen = o.b * ks + (o.c == 2 ? ks / 2 : 0);
				ac = std::string(o.c == 1 ? "misaligned-offset" : "misaligned-length") + (o.b == 0 && o.c == 1 ? ",truncate" : (boff + blen > b->_used ? ",out-of-range" : (boff + blen + ks > b->_used ? ",inside,to-end" : ",inside,tail-kept")));
			}
			break;
		case RESERVE: if (o.a == 2 && b && b->_size > 64) return false; ac = std::string(o.b == 0 ? "same-type" : (o.b == 1 ? "other-type" : (o.b == 2 ? "untyped" : (o.b == 3 ? "compatible-type" : "same-finaliser-other-size")))) + (o.a == 2 ? ",grow" : (o.a == 1 ? ",fit" : ",zero")); break;
		case SLICE: { long cnt = o.b < 0 ? n + 1 : o.b; if (pos + cnt > maxe) return false; ac = pos + cnt <= n ? "inside" : (pos > n ? "grow,past-end" : "grow"); break; }
		case DETACH: if (!b || (o.a == 2 && b->_size > 64) || (o.a == 0 && !n)) return false; ac = o.a == 0 ? "smaller" : (o.a == 1 ? "equal" : "larger"); break;
		case CLONE: if (!ob) return false; ac = b ? "replace" : "assign"; break;
		case RELEASE: case REDUCE: if (!b) return false; break;
		case NEWBUF: if (b) return false; ac = fmt("flags=%d", o.a); break;
		case TRIM: case SKIP: if (!b || (o.a == 1 && n < 1)) return false; ac = o.a == 0 ? "none" : ((o.a == 1 && n > 1) ? "part" : "all"); break;
		case COPY: if (!b || !ob) return false; ac = N(1 - h) < (size_t) n ? "shorter-source" : (N(1 - h) == (size_t) n ? "same-length" : "longer-source"); break;
		case MOVE: if (!b || !ob) return false; ac = b == ob ? "self" : (b->_content_traits == ob->_content_traits ? "other" : "other,type-mismatch"); break;
		case SETLEN: if (!b || (o.a == 1 && !n) || (o.a == 2 && n + 1 > maxe)) return false; ac = o.a == 2 ? "grow" : "shrink"; break;
		case APPEND: if (!b || n + 1 > maxe) return false; break;
		case ARM: if (arm || fails_used >= 2) return false; break;
		case ARMSLOT: { long p = pos < 0 ? n + pos : pos; if (!b || b->_content_traits != KT || p < 0 || p >= n || ((mpt::command *) (b + 1))[p].cmd) return false; pos = p; break; }
		case SUBBUF: if (!b || b->_content_traits != KT || n < 1 || *(void **) (b + 1)) return false; break;
		}
		if (how == PROBE) return true;
		nontriv = false;
		if (o.code == ARM) { arm = o.a; ++fails_used; if (how == RUN) refresh(); return true; }
		const char *opbase_c = code_name[o.code];
		std::string predetail = how == RUN ? stdetail(h) : std::string();
		r.hint(opbase_c);
		// ---- execute
		g_cbgroup.clear(); g_cbdetail.clear(); asan_error();
		g_calls = 0; g_failed = 0; g_events = 0; g_made = g_copied = g_destroyed = 0;
		g_arm = arm; arm = 0;
		size_t lbefore = ledger_live();
		bool refused = false, was_shared = b && (b->get_flags() & mpt::BufferShared);
		errno = 0;
		g_active = true;
		switch (o.code) {
		case SET: {
			uint8_t *data = o.c ? make_data(o.b) : 0;
			void *ret = LIB(mpt::mpt_array_set(H(h), KT, o.b * ks, data, pos));
			refused = !ret;
			if (data) settle_data(data, o.b, !refused);
			break; }
		case SETOWN: {
			static const long soff[] = { 0, -2, 0, 1 }, scnt[] = { 2, 1, 1, 1 }, ssrc[] = { 1, 0, 0, 0 };
			long off = soff[o.a] == -2 ? n : soff[o.a];
			const uint8_t *own = (const uint8_t *) (b + 1) + ssrc[o.a] * ks;    // stays inside the used elements of the handle's own buffer
			refused = !LIB(mpt::mpt_array_set(H(h), KT, scnt[o.a] * ks, own, off));
			break; }
		case SLICE: { long cnt = o.b < 0 ? n + 1 : o.b; refused = !LIB(mpt::mpt_array_slice(H(h), pos * ks, cnt * ks)); break; }
		case BSET: refused = LIB(mpt::mpt_buffer_set(b, KT2, pos * ks, src, ks)) < 0; break;
		case INS: {
			void *ret = LIB(mpt::mpt_array_insert(H(h), pos * ks, o.b * ks));
			refused = !ret;
			g_active = false;
			if (ret) construct(hb[h]->_content_traits, ret, o.b * ks, 0);
			break; }
		case CUT: refused = LIB(mpt::mpt_buffer_cut(b, pos * ks + (o.c == 1 ? ks / 2 : 0), o.b * ks + (o.c == 2 ? ks / 2 : 0))) < 0; break;
		case RESERVE: {
			size_t len = o.a == 0 ? 0 : (o.a == 1 ? n * ks : (capel + 1) * ks);
			refused = !LIB(mpt::mpt_array_reserve(H(h), len, o.b == 0 ? KT : (o.b == 1 ? (kind == K_SERIAL ? &T8 : &T16) : (o.b == 2 ? 0 : (o.b == 3 ? KT2 : &T32)))));
			break; }
		case DETACH: {
			size_t len = o.a == 0 ? (n - 1) * ks : (o.a == 1 ? n * ks : (capel + 1) * ks);
			mpt::buffer *nb = LIB(b->detach(len));
			if (nb) hb[h] = nb; else refused = true;
			break; }
		case CLONE: refused = LIB(mpt::mpt_array_clone(H(h), H(1 - h))) < 0; break;
		case RELEASE: LIB(mpt::mpt_array_clone(H(h), 0)); break;
		case REDUCE: LIB(mpt::mpt_array_reduce(H(h))); break;
		case NEWBUF: hb[h] = LIB(mpt::_mpt_buffer_alloc(2 * ks, o.a)); hb[h]->_content_traits = KT; break;
		case TRIM: refused = !LIB(b->trim(o.a == 0 ? 0 : (o.a == 1 ? ks : b->_used))); break;
		case SKIP: refused = !LIB(b->skip(o.a == 0 ? 0 : (o.a == 1 ? ks : b->_used))); break;
		case COPY: refused = !LIB(b->copy(*ob)); break;
		case MOVE: refused = !LIB(b->move(*ob)); break;
		case SETLEN: {
			long len = o.a == 0 ? 0 : (o.a == 1 ? n - 1 : n + 1);
			switch (ks) {
			case 8: refused = !LIB(static_cast<mpt::content<Blob<8> > *>(b)->set_length(len)); break;
			case 16: refused = !LIB(static_cast<mpt::content<Blob<16> > *>(b)->set_length(len)); break;
			case 24: refused = !LIB(static_cast<mpt::content<Blob<24> > *>(b)->set_length(len)); break;
			case 32: refused = !LIB(static_cast<mpt::content<Blob<32> > *>(b)->set_length(len)); break;
			default: refused = true;
			}
			break; }
		case APPEND: {
			void *ret = LIB(b->append(ks));
			refused = !ret;
			g_active = false;
			if (ret) construct(b->_content_traits, ret, ks, 0);
			break; }
		case ARMSLOT: {
			g_active = false;
			NoLib nl;
			mpt::command *c = (mpt::command *) (b + 1) + pos;
			CmdRec *rec = new CmdRec{0, 0}; g_recs.push_back(rec);
			c->id = g_recs.size(); c->cmd = cmd_handler; c->arg = rec;
			break; }
		case SUBBUF: {
			mpt::array *sub = (mpt::array *) (b + 1);
			refused = !LIB(mpt::mpt_array_set(sub, KT, ks, 0, 0));
			g_active = false;
			if (!refused) { mpt::identifier *id = (mpt::identifier *) ((uint8_t *) (sub->_buf._ref + 1) + 16); LIB(mpt::mpt_identifier_set(id, LONGNAME2, -1)); }
			break; }
		}
		g_active = false; g_arm = 0;
		if (how == QUIET) return true;
		// ---- oracle
		std::string g, d;
		bool ok = oracle(g, d);
		if (g_failed) ac += ",ctor-fail";
		std::string opbase = opbase_c;
		if (!ok) {
			violated = true;
			std::string desc = opname(opi) + fmt(" [%s elements; handle h%d: %s, %ld element(s), capacity %zu]", kind_name[kind], h, predetail.c_str(), n, capel);
			r.violation(opbase + "|" + kind_name[kind] + "," + st + "|" + ac + "|" + coarse(g), desc + ": [" + g + "] " + d + (g_failed ? fmt(" (%d injected constructor failure(s))", g_failed) : std::string()));
			return false;
		}
		// ---- counters
		if (!counting) return true;
		bool changed = g_events || ledger_live() != lbefore;
		if (changed) nontriv = true; else nontriv = false;
		r.count(opbase + (refused ? ": refused" : ": done"));
		if (g_destroyed) r.count("elements destroyed by " + opbase, g_destroyed);
		if (g_made) r.count("elements constructed by " + opbase, g_made);
		if (g_failed) r.count("injected constructor failures", g_failed);
		if (was_shared && g_copied && !refused) r.count("shared buffer: elements copy-constructed into a private copy", g_copied);
		if (o.code == SET && !refused && g_destroyed && ac.find("tail-kept") != std::string::npos) r.count("overwrite in the middle, tail kept");
		if (o.code == MOVE && ac.find("mismatch") != std::string::npos) { r.count("buffer::move between different element types (accepted or refused)"); r.count(refused ? "buffer::move between different element types: refused" : "buffer::move between different element types: accepted"); }
		if (o.code == SLICE && g_failed) r.count("array_slice with a failing constructor");
		if (kind == K_FINI && (o.code == SETOWN || (o.code == SET && o.c))) r.count("finaliser-only elements: array_set with managed source elements (own or foreign)");
		if (o.code == CUT && o.c) {
			// the request addresses memory that is no element: whatever the return value, the generic scan above has shown that no
			// destructor saw non-element memory and every used slot still holds exactly one live element
			r.count(std::string("buffer_cut on a typed buffer, ") + (o.c == 1 ? "offset" : "length") + " not element aligned" + (refused ? ": refused" : ": accepted"));
			if (o.c == 1 && o.b > 0 && ac.find("out-of-range") == std::string::npos) r.count("buffer_cut on a typed buffer, offset inside an element, whole-element length in range");
		}
		if (o.code == SETOWN) { r.count("array_set with source elements inside the target array"); r.count(std::string("array_set with own source, ") + ac.substr(11) + (refused ? ": refused" : ": done")); }
		if (o.code == RESERVE && o.b == 4 && !refused && n) r.count("array_reserve to a type with the same finaliser but another size on a non-empty buffer");
		if (kind == K_FINI && was_shared && n && (refused || hb[h] != b) && (o.code == SET || o.code == INS || o.code == SLICE || o.code == DETACH)) {
			r.count("finaliser-only elements: write through a shared handle (private copy made or refused)");
			r.count(refused ? "finaliser-only elements: private copy of a shared buffer refused" : "finaliser-only elements: shared buffer replaced by a private one");
		}
		if ((o.code == SET || o.code == INS || o.code == SETLEN) && !refused && ac.find(o.code == SETLEN ? "grow" : "past-end") != std::string::npos && g_made) r.count("gap default-constructed");
		return true;
	}
	bool nontriv;
	// checked teardown: when the last handle is gone nothing may stay alive
	bool teardown(const std::string &after)
	{
		g_cbgroup.clear(); g_cbdetail.clear(); asan_error();
		g_calls = 0; g_failed = 0; g_arm = 0;
		r.hint("release-all");
		release_all();
		hb[0] = hb[1] = 0;
		std::string g, d;
		bool ok = oracle(g, d);
		if (ok) {
			drop_src();
			for (size_t s = 1; s < g_tab.size() && ok; ++s) if (g_tab[s].live) { ok = false; g = "lost-element"; d = fmt("element #%zu is still alive", s); }
			for (int k = 0; k < 2 && ok; ++k) if (cb[k]->refs || cm[k]->refs || cb[k]->over || cm[k]->over) { ok = false; g = "token-count"; d = "a token is still referenced / over-released"; }
			if (ok && ledger_live() != lbase) { ok = false; g = "leak"; d = fmt("%zu library allocation(s) survive", ledger_live() - lbase); }
		}
		if (!ok) { violated = true; r.violation(std::string("release-all|") + kind_name[kind] + ",after " + after + "|-|" + coarse(g), "[" + g + "] releasing every handle after [" + after + "]: " + d); return false; }
		r.count("teardown: last handle gone, nothing alive");
		return true;
	}
};
std::vector<OpDef> BSys::ops;

// =====================================================================================================
// C++ template arrays
// =====================================================================================================
#define g_nofail g_nofail_
// C++ constructors cannot report failure: never inject one there
struct Elem {
	uint32_t w[4];
	Elem() { bool a = g_nofail; g_nofail = true; elem_init(this, 0, 0); g_nofail = a; }
	Elem(const Elem &o) { bool a = g_nofail; g_nofail = true; elem_init(this, &o, 0); g_nofail = a; }
	~Elem() { elem_fini(this, 0); }
	Elem &operator=(const Elem &o)
	{
		NoLib nl;
		if (g_active) ++g_events;
		// the property speaks about destroyed elements being used; an assignment outside the used range is a value-semantics matter (C04): counted only
		bool tdead = w[0] == (DEAD | (MAGIC16 & 0xffff)) || (w[0] == MAGIC16 && (w[1] >= g_tab.size() || !g_tab[w[1]].live));
		bool sdead = o.w[0] == (DEAD | (MAGIC16 & 0xffff)) || (o.w[0] == MAGIC16 && (o.w[1] >= g_tab.size() || !g_tab[o.w[1]].live));
		if (tdead) cbviol("destroyed-element-in-use", "assignment to an element that was destroyed before");
		else if (sdead) cbviol("copy-from-non-element", "assignment from an element that was destroyed before");
		else if (w[0] != MAGIC16 || o.w[0] != MAGIC16) ++g_assign_outside;
		else w[2] = o.w[2] ? o.w[2] : o.w[1];
		return *this;
	}
};
namespace mpt {
template <> inline const struct type_traits *type_properties<Elem>::traits() { return &T16; }
}
// counting referenced type of configurable size (reference_array<T> derives its element size from sizeof(T))
struct CTok { long refs; int over; };
static CTok g_ct[2];
static void *g_ctaddr[2];
static int ct_index(const void *p) { return p == g_ctaddr[0] ? 0 : (p == g_ctaddr[1] ? 1 : -1); }
template <size_t SZ> struct CT {
	uint8_t blob[SZ];
	void unref()
	{
		NoLib nl;
		if (g_active) { ++g_events; ++g_destroyed; }
		int k = ct_index(this);
		if (k < 0) { cbviol("non-element-destroyed", "unref() through a pointer that is no element of the array (element size mismatch / not a reference)"); return; }
		if (g_ct[k].refs <= 0) ++g_ct[k].over; else --g_ct[k].refs;
	}
	uintptr_t addref()
	{
		NoLib nl;
		if (g_active) ++g_events;
		int k = ct_index(this);
		if (k < 0) { cbviol("copy-from-non-element", "addref() through a pointer that is no element of the array"); return 0; }
		if (g_ct[k].refs <= 0) { ++g_ct[k].over; return 0; }
		if (arm_hit()) return 0;
		if (g_active) ++g_copied;
		return ++g_ct[k].refs;
	}
};
template <size_t SZ> static CT<SZ> *ct_obj(int k) { static CT<SZ> o[2]; return &o[k]; }

enum CMode { M_UARR, M_TARR, M_REF4, M_REF8, M_REF24, M_ITEM };
enum CCode { C_INS, C_TINS, C_SET, C_RESIZE, C_RESERVE, C_DETACH, C_ASSIGN, C_RELEASE, C_ARM, C_CLEAR, C_COMPACT, C_APPEND, C_HOLE, C_NCODES };
static const char *ccode_name[] = { "insert", "insert(value)", "set", "resize", "reserve", "detach", "assign", "release", "arm-ctor-failure", "clear", "compact", "append", "drop-instance" };

struct CSys {
	Run &r;
	int mode;
	size_t es;                     // real element size
	int maxe;
	size_t lbase;
	int fails_used, arm;
	bool violated, torn, counting, nontriv;
	std::string lastcls[2];
	static std::vector<OpDef> ops;
	// handles (exactly one pair is used)
	mpt::unique_array<Elem> *ua[2]; mpt::typed_array<Elem> *ta[2];
	mpt::reference_array<CT<4> > *r4[2]; mpt::reference_array<CT<8> > *r8[2]; mpt::reference_array<CT<24> > *r24[2];
	mpt::item_array<CT<8> > *ia[2];

	static const char *mode_name(int m) { static const char *n[] = { "unique_array", "typed_array", "reference_array<4>", "reference_array<8>", "reference_array<24>", "item_array" }; return n[m]; }
	bool is_ref() const { return mode == M_REF4 || mode == M_REF8 || mode == M_REF24; }
	bool serial() const { return mode == M_UARR || mode == M_TARR; }

	static void build_ops(int mode)
	{
		ops.clear();
		for (int h = 0; h < 2; ++h) {
			if (mode == M_UARR || mode == M_TARR) {
				for (int p : {P0, P1, PEND, PPAST, PLAST}) ops.push_back(OpDef{C_INS, h, p, 0, 0});
				if (mode == M_TARR) for (int p : {P0, PEND, PPAST}) ops.push_back(OpDef{C_TINS, h, p, 0, 0});
				if (mode == M_TARR) for (int p : {P0, PEND}) ops.push_back(OpDef{C_TINS, h, p, 1, 0});      // value = first element of the same array
				for (int p : {P0, PLAST, PEND}) ops.push_back(OpDef{C_SET, h, p, 0, 0});
				for (int n : {0, 1, 2, 3}) ops.push_back(OpDef{C_RESIZE, h, n, 0, 0});      // 0 / N-1 / N+1 / N+2
			} else if (mode == M_ITEM) {
				for (int t : {0, 1}) for (int id : {0, 1, 2}) ops.push_back(OpDef{C_APPEND, h, t, id, 0});   // token / none ; no name / short / long
				for (int p : {P0, PLAST}) ops.push_back(OpDef{C_HOLE, h, p, 0, 0});
				ops.push_back(OpDef{C_COMPACT, h, 0, 0, 0});
				for (int n : {0, 1, 2}) ops.push_back(OpDef{C_RESIZE, h, n, 0, 0});
			} else {
				for (int p : {P0, P1, PEND, PPAST, PLAST}) for (int t : {0, 1}) ops.push_back(OpDef{C_INS, h, p, t, 0});
				for (int p : {P0, PLAST}) for (int t : {0, 1, 2}) ops.push_back(OpDef{C_SET, h, p, t, 0});    // first token / none / second token
				for (int n : {0, 1, 2}) ops.push_back(OpDef{C_RESIZE, h, n, 0, 0});
				ops.push_back(OpDef{C_CLEAR, h, 0, 0, 0}); ops.push_back(OpDef{C_COMPACT, h, 0, 0, 0});
			}
			for (int n : {0, 1, 2}) ops.push_back(OpDef{C_RESERVE, h, n, 0, 0});       // N+1 / capacity+1 / -1
			ops.push_back(OpDef{C_DETACH, h, 0, 0, 0}); ops.push_back(OpDef{C_ASSIGN, h, 0, 0, 0}); ops.push_back(OpDef{C_RELEASE, h, 0, 0, 0});
		}
		if (mode == M_UARR || mode == M_TARR) for (int k : {1, 2, 3, -1}) ops.push_back(OpDef{C_ARM, 0, k, 0, 0});
	}
	int nops() { return (int) ops.size(); }
	std::string opbase(int i) { return ccode_name[ops[i].code]; }
	std::string opname(int i)
	{
		const OpDef &o = ops[i];
		static const char *tn[] = { "token A", "no instance", "token B" }, *idn[] = { "no name", "short name", "long name" }, *rs[] = { "0", "N-1", "N+1", "N+2" }, *rv[] = { "N+1", "capacity+1", "-1" };
		switch (o.code) {
		case C_INS: return is_ref() ? fmt("h%d.insert(%s,%s)", o.h, pos_name[o.a], tn[o.b]) : fmt("h%d.insert(%s)", o.h, pos_name[o.a]);
		case C_TINS: return fmt("h%d.insert(%s,%s)", o.h, pos_name[o.a], o.b ? "own[0]" : "value");
		case C_SET: return is_ref() ? fmt("h%d.set(%s,%s)", o.h, pos_name[o.a], tn[o.b]) : fmt("h%d.set(%s,value)", o.h, pos_name[o.a]);
		case C_RESIZE: return fmt("h%d.resize(%s)", o.h, rs[o.a]);
		case C_RESERVE: return fmt("h%d.reserve(%s)", o.h, rv[o.a]);
		case C_DETACH: return fmt("h%d.detach()", o.h);
		case C_ASSIGN: return fmt("h%d = h%d", o.h, 1 - o.h);
		case C_RELEASE: return fmt("h%d = empty array", o.h);
		case C_ARM: return o.a < 0 ? std::string("next op: every constructor fails") : fmt("next op: constructor call %d fails", o.a);
		case C_CLEAR: return fmt("h%d.clear()", o.h);
		case C_COMPACT: return fmt("h%d.compact()", o.h);
		case C_APPEND: return fmt("h%d.append(%s,%s)", o.h, tn[o.a], idn[o.b]);
		case C_HOLE: return fmt("h%d[%s].set_instance(0)", o.h, pos_name[o.a]);
		}
		return "?";
	}
	mpt::buffer *buf(int h) const
	{
		switch (mode) {
		case M_UARR: return ua[h]->_ref._ref;
		case M_TARR: return ta[h]->_ref._ref;
		case M_REF4: return r4[h]->_ref._ref;
		case M_REF8: return r8[h]->_ref._ref;
		case M_REF24: return r24[h]->_ref._ref;
		case M_ITEM: return ia[h]->_ref._ref;
		}
		return 0;
	}
	bool real(const mpt::buffer *b) const { return b && b->_size; }
	size_t N(int h) const { const mpt::buffer *b = buf(h); return real(b) ? b->_used / es : 0; }
	void *tokptr(int k) const { return g_ctaddr[k]; }

	CSys(Run &run, int m, uint64_t init) : r(run), mode(m), lbase(0), fails_used(0), arm(0), violated(false), torn(false), counting(false), nontriv(false)
	{
		static unsigned nsys = 0;
		if (ledger_live() || (++nsys & 1023) == 0) ledger_reset();
		g_tab.clear(); g_tab.reserve(256); g_tab.push_back(Rec{0, 0, 0, 0});
		g_active = false; g_arm = 0; g_nofail = false; g_owner = 1; g_cbgroup.clear(); g_cbdetail.clear();
		for (int k = 0; k < 2; ++k) { g_ct[k].refs = 1; g_ct[k].over = 0; }
		for (int h = 0; h < 2; ++h) { ua[h] = 0; ta[h] = 0; r4[h] = 0; r8[h] = 0; r24[h] = 0; ia[h] = 0; }
		es = 8; maxe = 6;
		switch (mode) {
		case M_UARR: es = 16; for (int h = 0; h < 2; ++h) ua[h] = new mpt::unique_array<Elem>(); break;
		case M_TARR: es = 16; for (int h = 0; h < 2; ++h) ta[h] = new mpt::typed_array<Elem>(); break;
		case M_REF4: for (int k = 0; k < 2; ++k) g_ctaddr[k] = ct_obj<4>(k); for (int h = 0; h < 2; ++h) r4[h] = new mpt::reference_array<CT<4> >(); break;
		case M_REF8: maxe = 9; for (int k = 0; k < 2; ++k) g_ctaddr[k] = ct_obj<8>(k); for (int h = 0; h < 2; ++h) r8[h] = new mpt::reference_array<CT<8> >(); break;
		case M_REF24: for (int k = 0; k < 2; ++k) g_ctaddr[k] = ct_obj<24>(k); for (int h = 0; h < 2; ++h) r24[h] = new mpt::reference_array<CT<24> >(); break;
		case M_ITEM: es = 32; maxe = 4; for (int k = 0; k < 2; ++k) g_ctaddr[k] = ct_obj<8>(k); for (int h = 0; h < 2; ++h) ia[h] = new mpt::item_array<CT<8> >(); break;
		}
		lbase = ledger_live();
		asan_error();
		preload(init);
	}
	void drop_handles()
	{
		g_active = true;
		for (int h = 0; h < 2; ++h) {
			if (ua[h]) LIB((delete ua[h], 0)); if (ta[h]) LIB((delete ta[h], 0)); if (r4[h]) LIB((delete r4[h], 0));
			if (r8[h]) LIB((delete r8[h], 0)); if (r24[h]) LIB((delete r24[h], 0)); if (ia[h]) LIB((delete ia[h], 0));
			ua[h] = 0; ta[h] = 0; r4[h] = 0; r8[h] = 0; r24[h] = 0; ia[h] = 0;
		}
		g_active = false;
		torn = true;
	}
	~CSys() { if (!torn && !violated) drop_handles(); asan_error(); }

	static const int NINIT = 5;
	static const char *init_name(uint64_t i) { static const char *n[] = { "empty", "h0=3", "h0=h1=3(shared)", "h0=5", "h0=3,h1=2" }; return n[i]; }
	bool raw_add(int h, int i)
	{
		// plain append of one element (token / default constructed alternate)
		long n = (long) N(h);
		switch (mode) {
		case M_UARR: return LIB(ua[h]->insert(n)) != 0;
		case M_TARR: return LIB(ta[h]->mpt::unique_array<Elem>::insert(n)) != 0;
		case M_ITEM: { void *t = (i & 1) ? 0 : tokptr(0); if (t) ++g_ct[0].refs; bool ok = LIB(ia[h]->append((CT<8> *) t, (i & 1) ? "short" : LONGNAME)) != 0; if (!ok && t) --g_ct[0].refs; return ok; }
		default: { void *t = (i & 1) ? 0 : tokptr(0); if (t) ++g_ct[0].refs; bool ok = ref_insert(h, n, t); if (!ok && t) --g_ct[0].refs; return ok; }
		}
	}
	bool ref_insert(int h, long pos, void *t)
	{
		switch (mode) {
		case M_REF4: return LIB(r4[h]->insert(pos, (CT<4> *) t));
		case M_REF8: return LIB(r8[h]->insert(pos, (CT<8> *) t));
		case M_REF24: return LIB(r24[h]->insert(pos, (CT<24> *) t));
		}
		return false;
	}
	void assign(int h)
	{
		switch (mode) {
		case M_UARR: LIB((*ua[h] = *ua[1 - h], 0)); break;
		case M_TARR: LIB((*ta[h] = *ta[1 - h], 0)); break;
		case M_REF4: LIB((*r4[h] = *r4[1 - h], 0)); break;
		case M_REF8: LIB((*r8[h] = *r8[1 - h], 0)); break;
		case M_REF24: LIB((*r24[h] = *r24[1 - h], 0)); break;
		case M_ITEM: LIB((*ia[h] = *ia[1 - h], 0)); break;
		}
	}
	void preload(uint64_t init)
	{
		g_active = true;
		bool ok = true;
		int n0 = init == 0 ? 0 : (init == 3 ? 5 : 3), n1 = init == 4 ? 2 : 0;
		if (mode == M_ITEM && n0 > 3) n0 = 3;
		for (int i = 0; i < n0 && ok; ++i) ok = raw_add(0, i);
		for (int i = 0; i < n1 && ok; ++i) ok = raw_add(1, i);
		if (init == 2) assign(1);
		g_active = false;
		std::string g, d;
		if (!oracle(g, d)) { violated = true; r.violation(std::string("preload|") + mode_name(mode) + "," + init_name(init) + "|append-one-by-one|" + coarse(g), "[" + g + "] building the start state " + init_name(init) + " with appends: " + d); }
		else if (!ok) r.count(std::string(mode_name(mode)) + ": start state could not be filled (append refused)");
	}

	struct Scan { std::set<uint32_t> seen; std::set<const void *> blocks; size_t nblocks; long tok[2]; std::string cls, g, d; };
	void bad(Scan &sc, const char *g, const std::string &d) { if (sc.g.empty()) { sc.g = g; sc.d = d; } }
	void scan(const mpt::buffer *b, Scan &sc)
	{
		if (b->_used > b->_size) { bad(sc, "used-beyond-size", fmt("buffer reports %zu used bytes of %zu", b->_used, b->_size)); return; }
		if (b->_used % es) { bad(sc, "partial-element", fmt("buffer of %zu-byte elements reports %zu used bytes", es, b->_used)); return; }
		const uint8_t *p = (const uint8_t *) (b + 1);
		for (size_t i = 0; i * es < b->_used; ++i, p += es) {
			std::string where = fmt("slot %zu", i);
			if (serial()) {
				uint32_t s[2]; memcpy(s, p, 8);
				sc.cls += 'x';
				if (s[0] == (DEAD | (MAGIC16 & 0xffff))) bad(sc, "destroyed-element-in-use", where + fmt(" still counts as used but holds element #%u which was destroyed", s[1]));
				else if (s[0] != MAGIC16) bad(sc, "non-element-in-use", where + (s[0] == FAILED ? " counts as used although its constructor failed" : " counts as used but was never constructed"));
				else if (s[1] >= g_tab.size() || !g_tab[s[1]].live) bad(sc, "destroyed-element-in-use", where + fmt(" holds a bitwise copy of element #%u which was destroyed", s[1]));
				else if (g_tab[s[1]].owner) bad(sc, "duplicate", where + fmt(" holds a raw byte copy of the caller's element #%u (not copy-constructed)", s[1]));
				else if (!sc.seen.insert(s[1]).second) bad(sc, "duplicate", where + fmt(": element #%u is visible in two places (raw byte duplication)", s[1]));
				continue;
			}
			const void *inst = *(void *const *) p;
			char c = 'e';
			if (inst) { int k = ct_index(inst); if (k < 0) { bad(sc, "non-element-in-use", where + " holds a pointer that is no referenced object"); continue; } ++sc.tok[k]; c = 't'; }
			if (mode == M_ITEM) {
				const mpt::identifier *id = (const mpt::identifier *) (p + 8);
				if (id->_max != 20) { bad(sc, "non-element-in-use", where + " is not a constructed item"); continue; }
				if (id->_len > id->_max) {
					c = c == 't' ? 'T' : 'E';
					if (!ledger_is_live(id->_base)) { bad(sc, "dangling-element", where + " refers to a name block that is not allocated"); continue; }
					if (!sc.blocks.insert(id->_base).second) { bad(sc, "duplicate", where + " shares its name block with another item (raw byte duplication)"); continue; }
					++sc.nblocks;
				} else if (id->_len) c = c == 't' ? 's' : 'n';
			}
			sc.cls += c;
		}
	}
	bool oracle(std::string &g, std::string &d)
	{
		if (!g_cbgroup.empty()) { g = g_cbgroup; d = g_cbdetail; return false; }
		if (asan_error()) { g = "asan"; d = "AddressSanitizer reported an invalid access inside the operation"; return false; }
		Scan sc; sc.nblocks = 0; sc.tok[0] = sc.tok[1] = 0;
		size_t nbuf = 0;
		std::string newcls[2];
		const mpt::buffer *b0 = torn ? 0 : buf(0), *b1 = torn ? 0 : buf(1);
		for (int h = 0; h < 2; ++h) {
			const mpt::buffer *b = h ? b1 : b0;
			if (!real(b) || (h && b1 == b0)) continue;
			if (!ledger_is_live((const char *) b - 32)) { g = "dangling-buffer"; d = fmt("the buffer of handle %d is not allocated (any more)", h); return false; }
			++nbuf;
			uintptr_t holders = 1 + (b0 == b1 ? 1 : 0);
			if (alloc_refs(b) != holders) { g = "holder-count"; d = fmt("buffer has %zu holder(s) but its reference count is %zu", (size_t) holders, (size_t) alloc_refs(b)); return false; }
			sc.cls.clear();
			scan(b, sc);
			newcls[h] = sc.cls;
			if (asan_error()) { g = "asan"; d = "reading the buffer content faults"; return false; }
		}
		if (!sc.g.empty()) { g = sc.g; d = sc.d; return false; }
		if (serial()) for (size_t s = 1; s < g_tab.size(); ++s) if (g_tab[s].live && !g_tab[s].owner && !sc.seen.count((uint32_t) s)) { g = "lost-element"; d = fmt("element #%zu is in no buffer any more but was never destroyed", s); return false; }
		if (!serial()) for (int k = 0; k < 2; ++k) {
			if (g_ct[k].over) { g = "double-destroy"; d = fmt("token %d was released more often than it was referenced", k); return false; }
			long want = 1 + sc.tok[k];
			if (g_ct[k].refs != want) { g = g_ct[k].refs > want ? "lost-element" : "double-destroy"; d = fmt("token %d: %ld reference(s) held, %ld element(s) refer to it (+1 harness)", k, g_ct[k].refs, sc.tok[k]); return false; }
		}
		size_t live = ledger_live() - lbase;
		if (live != nbuf + sc.nblocks) { g = live > nbuf + sc.nblocks ? "leak" : "missing-block"; d = fmt("%zu library allocation(s) live, reachable: %zu buffer(s) + %zu element-owned block(s)", live, nbuf, sc.nblocks); return false; }
		lastcls[0] = newcls[0]; lastcls[1] = newcls[1];
		return true;
	}
	std::string canon()
	{
		const mpt::buffer *bb[2] = { buf(0), buf(1) };
		std::string s = fmt("arm=%d fails=%d ", arm, fails_used), hs[2];
		bool same = real(bb[0]) && bb[0] == bb[1];
		for (int h = 0; h < 2; ++h) {
			const mpt::buffer *b = bb[h];
			if (!real(b)) { hs[h] = "-"; continue; }
			hs[h] = fmt("size=%zu,used=%zu,f=%x:", b->_size, b->_used, (unsigned) b->get_flags()) + lastcls[same ? 0 : h];
		}
		if (same) return s + "both{" + hs[0] + "}";
		return s + (hs[0] <= hs[1] ? "{" + hs[0] + "} {" + hs[1] + "}" : "{" + hs[1] + "} {" + hs[0] + "}");
	}
	bool refresh() { std::string g, d; g_cbgroup.clear(); asan_error(); return oracle(g, d); }
	template <class A> bool generic_op(A *a, A *other, const OpDef &o, long n, size_t capel, bool &refused)
	{
		switch (o.code) {
		case C_RESIZE: { long len = o.a == 0 ? 0 : (o.a == 1 ? n - 1 : (o.a == 2 ? n + 1 : n + 2)); refused = !LIB(a->resize(len)); return true; }
		case C_RESERVE: { long len = o.a == 0 ? n + 1 : (o.a == 1 ? (long) capel + 1 : -1); refused = !LIB(a->reserve(len)); return true; }
		case C_DETACH: refused = !LIB(a->detach()); return true;
		case C_ASSIGN: LIB((*a = *other, 0)); return true;
		case C_RELEASE: { A *e; { NoLib nl; e = new A(); } LIB((*a = *e, 0)); LIB((delete e, 0)); return true; }
		}
		return false;
	}
	bool apply(int opi, int how = RUN)
	{
		const OpDef &o = ops[opi];
		int h = o.h;
		const mpt::buffer *b = buf(h);
		long n = (long) N(h);
		size_t capel = real(b) ? b->_size / es : 0;
		bool shared = real(b) && (b->get_flags() & mpt::BufferShared);
		std::string st = !real(b) ? "nobuf" : (shared ? "shared" : "unshared"), ac = "-";
		long pos = 0;
		switch (o.a) { case P0: pos = 0; break; case P1: pos = 1; break; case PEND: pos = n; break; case PPAST: pos = n + 1; break; case PLAST: pos = -1; break; }
		long apos = pos < 0 ? n + pos : pos;
		nontriv = false;
		switch (o.code) {
		case C_INS: case C_TINS: if (apos < 0 || std::max(apos, n) + 1 > maxe) return false; if (o.code == C_TINS && o.b && n < 1) return false;
			ac = std::string(apos > n ? "past-end" : (apos == n ? "append" : "inside")) + (o.code == C_TINS && o.b ? ",own-element" : ""); break;
		case C_SET: ac = apos < 0 || apos >= n ? "out-of-range" : "inside"; break;
		case C_RESIZE: { long len = o.a == 0 ? 0 : (o.a == 1 ? n - 1 : (o.a == 2 ? n + 1 : n + 2)); if (len < 0 || len > maxe) return false; ac = len < n ? "shrink" : (len == n ? "same" : "grow"); break; }
		case C_RESERVE: if (o.a == 1 && (!real(b) || b->_size > 64)) return false; if (o.a == 0 && n + 1 > maxe) return false; ac = o.a == 0 ? "N+1" : (o.a == 1 ? "grow" : "negative"); break;
		case C_ASSIGN: if (!real(buf(1 - h))) return false; break;
		case C_RELEASE: case C_DETACH: case C_CLEAR: case C_COMPACT: if (!real(b)) return false; break;
		case C_ARM: if (arm || fails_used >= 2) return false; if (how != PROBE) { arm = o.a; ++fails_used; if (how == RUN) refresh(); } return true;
		case C_APPEND: if (n + 1 > maxe) return false; ac = std::string(o.a ? "no-instance" : "instance") + (o.b == 2 ? ",long-name" : (o.b == 1 ? ",short-name" : ",no-name")); break;
		case C_HOLE: if (apos < 0 || apos >= n || !*(void **) ((uint8_t *) (b + 1) + apos * es)) return false; break;
		}
		if (how == PROBE) return true;
		std::string opbase = ccode_name[o.code];
		std::string hint = std::string(mode_name(mode)) + "::" + opbase;
		r.hint(hint.c_str());
		g_cbgroup.clear(); g_cbdetail.clear(); asan_error();
		g_calls = 0; g_failed = 0; g_events = 0; g_made = g_copied = g_destroyed = 0;
		g_arm = arm; arm = 0;
		size_t lbefore = ledger_live();
		bool refused = false;
		g_active = true;
		bool done = false;
		switch (mode) {
		case M_UARR: done = generic_op(ua[h], ua[1 - h], o, n, capel, refused); break;
		case M_TARR: done = generic_op(ta[h], ta[1 - h], o, n, capel, refused); break;
		case M_REF4: done = generic_op(r4[h], r4[1 - h], o, n, capel, refused); break;
		case M_REF8: done = generic_op(r8[h], r8[1 - h], o, n, capel, refused); break;
		case M_REF24: done = generic_op(r24[h], r24[1 - h], o, n, capel, refused); break;
		case M_ITEM: done = generic_op(ia[h], ia[1 - h], o, n, capel, refused); break;
		}
		if (!done) switch (o.code) {
		case C_INS:
			if (mode == M_UARR) refused = !LIB(ua[h]->insert(pos));
			else if (mode == M_TARR) refused = !LIB(ta[h]->mpt::unique_array<Elem>::insert(pos));
			else { void *t = o.b ? 0 : tokptr(0); if (t) ++g_ct[0].refs; refused = !ref_insert(h, pos, t); if (refused && t) --g_ct[0].refs; }
			break;
		case C_TINS:
			if (o.b) { refused = !LIB(ta[h]->insert(pos, *ta[h]->get(0))); if (counting) r.count("typed_array::insert(value) of an element of the same array"); break; }
			{ g_active = false; Elem *v = new Elem(); g_active = true; refused = !LIB(ta[h]->insert(pos, *v)); g_active = false; delete v; break; }
		case C_SET:
			if (serial()) { g_active = false; Elem *v = new Elem(); g_active = true; refused = !(mode == M_UARR ? LIB(ua[h]->set(pos, *v)) : LIB(ta[h]->set(pos, *v))); g_active = false; delete v; }
			else {
				int k = o.b == 0 ? 0 : (o.b == 2 ? 1 : -1); void *t = k < 0 ? 0 : tokptr(k); if (t) ++g_ct[k].refs;
				refused = !(mode == M_REF4 ? LIB(r4[h]->set(pos, (CT<4> *) t)) : (mode == M_REF8 ? LIB(r8[h]->set(pos, (CT<8> *) t)) : LIB(r24[h]->set(pos, (CT<24> *) t))));
				if (refused && t) --g_ct[k].refs;
			}
			break;
		case C_CLEAR: if (mode == M_REF4) LIB(r4[h]->clear()); else if (mode == M_REF8) LIB(r8[h]->clear()); else LIB(r24[h]->clear()); break;
		case C_COMPACT:
			if (mode == M_REF4) LIB((r4[h]->compact(), 0)); else if (mode == M_REF8) LIB((r8[h]->compact(), 0)); else if (mode == M_REF24) LIB((r24[h]->compact(), 0));
			else refused = !LIB(ia[h]->compact());
			break;
		case C_APPEND: { void *t = o.a ? 0 : tokptr(0); if (t) ++g_ct[0].refs; refused = !LIB(ia[h]->append((CT<8> *) t, o.b == 0 ? (const char *) 0 : (o.b == 1 ? "short" : LONGNAME))); if (refused && t) --g_ct[0].refs; break; }
		case C_HOLE: LIB((ia[h]->get(pos)->set_instance(0), 0)); break;
		}
		g_active = false; g_arm = 0;
		if (how == QUIET) return true;
		std::string g, d;
		bool ok = oracle(g, d);
		if (g_failed) ac += ",ctor-fail";
		if (!ok) {
			violated = true;
			std::string desc = opname(opi) + fmt(" [%s; handle h%d: %s, %ld element(s), capacity %zu]", mode_name(mode), h, st.c_str(), n, capel);
			r.violation(std::string(mode_name(mode)) + "::" + opbase + "|" + st + "|" + ac + "|" + coarse(g), desc + ": [" + g + "] " + d + (g_failed ? fmt(" (%d injected constructor failure(s))", g_failed) : std::string()));
			return false;
		}
		if (!counting) return true;
		nontriv = g_events || ledger_live() != lbefore;
		std::string key = std::string(mode_name(mode)) + "::" + opbase;
		r.count(key + (refused ? ": refused" : ": done"));
		if (g_destroyed) r.count("elements destroyed by " + key, g_destroyed);
		if (g_made) r.count("elements constructed by " + key, g_made);
		if (g_failed) r.count("injected constructor failures", g_failed);
		if (g_assign_outside) { r.count("assignment to never-constructed memory after a truncated private copy (not flagged)", g_assign_outside); g_assign_outside = 0; }
		return true;
	}
	bool teardown(const std::string &after)
	{
		g_cbgroup.clear(); g_cbdetail.clear(); asan_error();
		g_calls = 0; g_failed = 0; g_arm = 0;
		r.hint("release-all");
		drop_handles();
		std::string g, d;
		bool ok = oracle(g, d);
		if (ok) for (size_t s = 1; s < g_tab.size() && ok; ++s) if (g_tab[s].live) { ok = false; g = "lost-element"; d = fmt("element #%zu is still alive", s); }
		if (!ok) { violated = true; r.violation(std::string("release-all|") + mode_name(mode) + ",after " + after + "|-|" + coarse(g), "[" + g + "] destroying every array after [" + after + "]: " + d); return false; }
		r.count("teardown: last handle gone, nothing alive");
		return true;
	}
};
std::vector<OpDef> CSys::ops;

// =====================================================================================================
// generic history BFS with checked teardown
// =====================================================================================================
template <class S, class Make>
static void bfs(Run &r, Make make, int depth)
{
	r.additive = false;
	struct Node { Vec hist; Hash128 h; };
	std::unordered_set<Hash128, Hash128H> seen;
	std::deque<Node> frontier;
	uint64_t nontrivial = 0;
	int nops = 0;
	bool cut = false;      // some state at the depth bound was left unexpanded
	{
		Vec v(1, 0);
		if (r.enter(v, "init")) {
			S *s = make();
			nops = s->nops();
			if (!s->violated) {
				Hash128 h = hash128(s->canon());
				seen.insert(h); frontier.push_back(Node{v, h}); ++r.states;
				s->teardown("start state");
			}
			delete s;
		}
	}
	while (!frontier.empty()) {
		Node n = frontier.front(); frontier.pop_front();
		if ((int) n.hist.size() - 1 >= depth) { cut = true; continue; }
		if (r.expired()) { cut = true; break; }
		// one system replays the (already verified) prefix and tells which letters are enabled in this state
		auto prefix = [&](bool verify) -> S * {
			S *s = make();
			bool ok = !s->violated;
			for (size_t i = 1; i < n.hist.size() && ok; ++i) ok = s->apply((int) n.hist[i], QUIET);
			if (ok && verify) ok = s->refresh() && hash128(s->canon()) == n.h;
			if (!ok) { delete s; return 0; }
			return s;
		};
		r.enter(n.hist, "");
		S *s = prefix(true);
		if (!s) {
			r.violation("ENGINE|nondeterministic-replay", "history prefix did not reproduce its canonical state");
			r.incomplete("nondeterministic replay");
			return;
		}
		std::vector<int> en;
		for (int op = 0; op < nops; ++op) if (s->apply(op, PROBE)) en.push_back(op);
		for (size_t k = 0; k < en.size(); ++k) {
			int op = en[k];
			Vec v = n.hist; v.push_back(op);
			if (!r.enter(v, "")) continue;
			if (!s && !(s = prefix(false))) { r.violation("ENGINE|nondeterministic-replay", "history prefix could not be replayed"); r.incomplete("nondeterministic replay"); return; }
			s->counting = true;
			++r.transitions;
			if (s->apply(op, RUN)) {
				if (s->nontriv) ++nontrivial;
				Hash128 h = hash128(s->canon());
				if (seen.insert(h).second) {
					if (r.samples.size() < 4 && v.size() >= 4) { std::string t; for (size_t i = 1; i < v.size(); ++i) t += (i > 1 ? " ; " : "") + s->opname((int) v[i]); r.sample(t); }
					// every new state is also torn down completely (checked): nothing may survive the last handle
					if (s->teardown(s->opbase(op))) { frontier.push_back(Node{v, h}); ++r.states; r.count(fmt("new states at depth %02zu", v.size() - 1)); }
				}
			}
			delete s; s = 0;
		}
		delete s;
	}
	r.count("nontrivial", nontrivial);
	r.count(cut ? "jobs cut at the depth bound" : "jobs explored to closure (every reachable bounded state expanded)");
}
template <class S, class Make>
static void bfs_replay_one(Run &r, Make make, const Vec &v)
{
	r.enter(v, "");
	S *s = make();
	r.note("start: %s", s->canon().c_str());
	bool ok = !s->violated;
	std::string last = "start state";
	for (size_t i = 1; i < v.size() && ok; ++i) {
		r.note("op %s", s->opname((int) v[i]).c_str());
		s->counting = i + 1 == v.size();
		ok = s->apply((int) v[i]);
		last = s->opbase((int) v[i]);
		r.note("  -> %s %s", ok ? "ok" : (s->violated ? "VIOLATION" : "not enabled"), s->canon().c_str());
	}
	if (ok) { r.note("release every handle"); s->teardown(last); }
	delete s;
}

// =====================================================================================================
// jobs
// =====================================================================================================
// depth per job family.  In the thorough tier the bounded state spaces of the serial-stamped kind, the command kind and
// unique/typed_array are explored to CLOSURE from the empty start state (the bound 64 is never reached: the frontier runs
// empty at depth 17 / 16 / 8, see the counters "new states at depth NN" and "jobs explored to closure"); their other start
// states add breadth in parallel.  meta mirrors array (pointer + addref/unref) and conf multiplies the content classes:
// both stay one level below array / ident.
static int depth_of(Tier t, const std::string &job)
{
	bool q = t == Quick;
	bool first = job.size() > 2 && !job.compare(job.size() - 2, 2, ":0");
	if (!job.compare(0, 10, "buf:serial") || !job.compare(0, 7, "buf:cmd")) return q ? 3 : (first ? 64 : 4);
	if (!job.compare(0, 8, "buf:conf") || !job.compare(0, 8, "buf:meta")) return q ? 2 : 4;
	if (!job.compare(0, 12, "buf:finionly")) return q ? 3 : 4;
	if (!job.compare(0, 4, "buf:")) return q ? 3 : 5;
	if (!job.compare(0, 6, "cxx:0:") || !job.compare(0, 6, "cxx:1:")) return q ? 4 : (first ? 64 : 5);
	return q ? 3 : 6;     // reference_array / item_array
}
void mc_jobs(Tier t, std::vector<std::string> &jobs)
{
	(void) t;
	for (int k = 0; k < NKINDS; ++k) for (int i = 0; i < BSys::NINIT; ++i) jobs.push_back(std::string("buf:") + kind_name[k] + ":" + std::to_string(i));
	for (int m = 0; m <= M_ITEM; ++m) for (int i = 0; i < CSys::NINIT; ++i) jobs.push_back("cxx:" + std::to_string(m) + ":" + std::to_string(i));
}
static bool parse_cxx(const std::string &job, int &mode, uint64_t &init)
{
	if (job.compare(0, 4, "cxx:")) return false;
	mode = atoi(job.c_str() + 4);
	init = strtoul(job.c_str() + job.find(':', 4) + 1, 0, 10);
	return mode >= 0 && mode <= M_ITEM;
}
static bool parse_buf(const std::string &job, int &kind, uint64_t &init)
{
	if (job.compare(0, 4, "buf:")) return false;
	size_t c = job.find(':', 4);
	std::string kn = job.substr(4, c - 4);
	kind = -1;
	for (int k = 0; k < NKINDS; ++k) if (kn == kind_name[k]) kind = k;
	init = strtoul(job.c_str() + c + 1, 0, 10);
	return kind >= 0;
}
static void requires_(Run &r)
{
	r.require("nontrivial");
	for (const char *k : { "elements destroyed by array_set", "elements destroyed by buffer_cut", "elements destroyed by buffer::trim", "elements destroyed by buffer::skip", "elements destroyed by release",
	                       "elements destroyed by array_reserve", "elements destroyed by detach", "elements destroyed by buffer::copy", "elements destroyed by content::set_length",
	                       "elements constructed by array_set", "elements constructed by array_insert", "elements constructed by detach", "elements constructed by buffer::copy",
	                       "injected constructor failures", "shared buffer: elements copy-constructed into a private copy", "overwrite in the middle, tail kept", "gap default-constructed",
	                       "array_set with source elements inside the target array", "finaliser-only elements: array_set with managed source elements (own or foreign)", "typed_array::insert(value) of an element of the same array",
	                       "buffer::move between different element types (accepted or refused)", "array_slice with a failing constructor",
	                       "array_reserve to a type with the same finaliser but another size on a non-empty buffer",
	                       "finaliser-only elements: write through a shared handle (private copy made or refused)",
	                       "buffer_cut on a typed buffer, offset inside an element, whole-element length in range",
	                       "buffer_cut on a typed buffer, length not element aligned: refused",
	                       "teardown: last handle gone, nothing alive" })
		r.require(k);
	if (r.tier == Thorough) r.require("jobs explored to closure (every reachable bounded state expanded)");
}
void mc_explore(Run &r, const std::string &job)
{
	requires_(r);
	int kind; uint64_t init;
	if (parse_buf(job, kind, init)) {
		BSys::build_ops(kind, !(r.tier == Thorough && kind == K_SERIAL && init == 0));
		bfs<BSys>(r, [&]() { return new BSys(r, kind, init); }, depth_of(r.tier, job));
		return;
	}
	int mode;
	if (parse_cxx(job, mode, init)) {
		CSys::build_ops(mode);
		bfs<CSys>(r, [&]() { return new CSys(r, mode, init); }, depth_of(r.tier, job));
		return;
	}
	r.incomplete("unknown job " + job);
}
void mc_replay(Run &r, const std::string &job, const Vec &v)
{
	int kind; uint64_t init;
	if (parse_buf(job, kind, init)) {
		BSys::build_ops(kind, !(r.tier == Thorough && kind == K_SERIAL && init == 0));
		bfs_replay_one<BSys>(r, [&]() { return new BSys(r, kind, init); }, v);
		return;
	}
	int mode;
	if (parse_cxx(job, mode, init)) {
		CSys::build_ops(mode);
		bfs_replay_one<CSys>(r, [&]() { return new CSys(r, mode, init); }, v);
	}
}

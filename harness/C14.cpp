// C14 — node trees stay structurally sound.
// History BFS (mc::bfs_histories) over a pool of <= 5 real mpt nodes that own counting
// metatypes implemented here.  After every operation the raw links of every live node are
// read back (by pool index, never by address), the link invariants of the property are
// checked on the whole population, the result is compared with a small forest model
// (exact position only where the code documents one, otherwise "inserted once, order of
// the others kept"), the allocation ledger / metatype counters must show that exactly the
// expected nodes were released exactly once, and the library's own traversals must visit
// the structure in the documented order.  Clones are verified recursively and torn down
// inside the same step.  A second job family (stateless DFS) drives mpt_parse_node:
// parse into an empty root, then merge a second text into the populated root.
#include <csignal>
#include <csetjmp>
#include <cstdlib>
#include <algorithm>
#include <type_traits>
#include <sys/uio.h>
#include "node.h"
#include "meta.h"
#include "parse.h"
#include "mc.hpp"

using namespace mc;
const char *mc_id = "C14";
const char *mc_rule = "pool of <=5 real nodes named from {a,b,unnamed} with counting metatypes, one job family per name multiset (a/b interchangeable): "
                      "snap jobs = EVERY state of the pool (all forests x all root-list partitions x all live subsets, up to renaming equally named slots) is a start state and every op instance "
                      "(after/before x all pairs, gnode_add/node_add/gnode_insert/node_insert x all pairs x pos{0,1,2,3,-1,-2}, unlink, move, node/list/tree clone, clear, destroy, swap, switch, relink, relink-after-manual-concatenation, new) "
                      "is executed from each; hist jobs = BFS over histories from hand-made start states (3- and 4-node pools, reaches the same closed state set); "
                      "cxx jobs = the same snapshot exploration with pool nodes created by mpt::node::create plus ~node() at every list position, set_metatype, operator=(reference), destruction of a stack / new'ed parent node; "
                      "values job = DFS over text lengths x 4 shapes x node/list/tree clone x {copy, copy of copy} with library text metatypes (mpt_meta_new), byte-exact value comparison; "
                      "parse jobs = DFS over all ordered pairs of config texts with <=3 (quick) / <=4 (thorough) entries, nesting <=3, names {a,b}: parse into the empty root, then merge the second text; "
                      "nontrivial = distinct (state,op) transitions executed on the real code whose pre- or post-state contains at least one linked node, resp. parse cases that merge a non-empty text into a populated root";

static const int MAXN = 5;

// ------------------------------------------------------------------ fault containment
// A NULL dereference inside one op must not kill the BFS job (the engine would restart the
// whole job for every faulting case): catch it here and report it as a violation of the case.
static sigjmp_buf g_jmp;
static volatile sig_atomic_t g_guard = 0;
static const int g_sigs[] = { SIGSEGV, SIGBUS, SIGFPE };
static struct sigaction g_old[3];
static bool g_installed = false;
static void on_fault(int s)
{
	if (g_guard) { g_guard = 0; siglongjmp(g_jmp, s); }
	for (int k = 0; k < 3; ++k) sigaction(g_sigs[k], &g_old[k], 0);   // not ours: hand back to the engine and re-fault
}
static void guard_install()
{
	if (g_installed) return;
	g_installed = true;
	for (int k = 0; k < 3; ++k) {
		struct sigaction sa; memset(&sa, 0, sizeof sa);
		sa.sa_handler = on_fault; sa.sa_flags = SA_ONSTACK | SA_NODEFER; sigemptyset(&sa.sa_mask);
		sigaction(g_sigs[k], &sa, &g_old[k]);
	}
}
template <class F> static int guarded(F f)
{
	int s = sigsetjmp(g_jmp, 0);   // handler runs with SA_NODEFER and an empty mask: nothing to restore
	if (s) { mc::lib_depth = 0; return s; }
	g_guard = 1; f(); g_guard = 0;
	return 0;
}
static const char *signame(int s) { return s == SIGSEGV ? "SIGSEGV" : (s == SIGBUS ? "SIGBUS" : (s == SIGFPE ? "SIGFPE" : "SIGNAL")); }

// ------------------------------------------------------------------ counting metatype
struct CountMeta;
static std::vector<CountMeta *> g_metas;   // every metatype created for the current system
struct CountMeta : public mpt::metatype
{
	int val; long refs; int released; int bad; bool is_clone;
	CountMeta(int v, bool c) : val(v), refs(1), released(0), bad(0), is_clone(c) { g_metas.push_back(this); }
	// harness objects must not show up in the ledger of library allocations (clone() runs inside a LIB scope)
	static CountMeta *make(int v, bool c) { int d = mc::lib_depth; mc::lib_depth = 0; CountMeta *m = new CountMeta(v, c); mc::lib_depth = d; return m; }
	virtual ~CountMeta() { }
	int convert(mpt::type_t t, void *ptr) override
	{
		if (!t) { static const uint8_t fmt[] = { 'i', 0 }; if (ptr) *(const uint8_t **) ptr = fmt; return 'i'; }
		if (t == 'i') { if (ptr) *(int32_t *) ptr = val; return 'i'; }
		return mpt::BadType;
	}
	void unref() override { if (released) { ++bad; return; } if (--refs == 0) released = 1; }
	uintptr_t addref() override { if (released) { ++bad; return 0; } return ++refs; }
	mpt::metatype *clone() const override;
};
static const CountMeta *g_refuse = 0;   // the value that currently refuses to be cloned (failed-clone ops)
mpt::metatype *CountMeta::clone() const { return this == g_refuse ? 0 : make(val, true); }
static CountMeta *as_count(mpt::metatype *m)
{
	for (CountMeta *c : g_metas) if (c == m) return c;
	return 0;
}
static void metas_clear() { for (CountMeta *c : g_metas) delete c; g_metas.clear(); }

// ------------------------------------------------------------------ forest model
struct Forest {
	bool alive[MAXN]; int par[MAXN]; std::vector<int> kids[MAXN]; std::vector<std::vector<int> > rl;
	Forest() { for (int i = 0; i < MAXN; ++i) { alive[i] = false; par[i] = -1; } }
	std::vector<int> &list_of(int i)
	{
		if (par[i] >= 0) return kids[par[i]];
		for (auto &l : rl) if (std::find(l.begin(), l.end(), i) != l.end()) return l;
		rl.push_back(std::vector<int>(1, i)); return rl.back();
	}
	const std::vector<int> &list_of(int i) const { return const_cast<Forest *>(this)->list_of(i); }
	int index_of(int i) const { const std::vector<int> &l = list_of(i); return (int) (std::find(l.begin(), l.end(), i) - l.begin()); }
	bool anc(int a, int b) const { for (int n = 0; b >= 0 && n <= MAXN; b = par[b], ++n) if (a == b) return true; return false; }   // a is b or above b
	int top(int i) const { int n = 0; while (par[i] >= 0 && n++ <= MAXN) i = par[i]; return i; }
	bool single(int i) const { return alive[i] && par[i] < 0 && list_of(i).size() == 1; }
	bool linked(int i) const { return par[i] >= 0 || list_of(i).size() > 1; }
	bool any_link() const { for (int i = 0; i < MAXN; ++i) if (alive[i] && linked(i)) return true; return false; }
	void detach(int i)
	{
		std::vector<int> &l = list_of(i);
		l.erase(std::find(l.begin(), l.end(), i));
		if (par[i] < 0) for (size_t k = 0; k < rl.size(); ++k) if (rl[k].empty()) { rl.erase(rl.begin() + k); break; }
		par[i] = -1;
	}
	void subtree(int i, std::vector<int> &out) const { out.push_back(i); for (int c : kids[i]) subtree(c, out); }
	int depth_below(int i) const { int d = 0; for (int c : kids[i]) d = std::max(d, 1 + depth_below(c)); return d; }
	void norm() { std::sort(rl.begin(), rl.end()); }
};
static int g_N = 0;
static int g_name[MAXN];                     // 0 = "a", 1 = "b", 2 = unnamed
static const char NAMECH[] = "ab-";
static std::string nn(int i) { return i < 0 ? std::string(i == -1 ? "0" : "?") : fmt("n%d(%c)", i, NAMECH[g_name[i]]); }
static std::string list_str(const std::vector<int> &l) { std::string s = "["; for (size_t i = 0; i < l.size(); ++i) s += (i ? " " : "") + nn(l[i]); return s + "]"; }
static std::string tree_str(const Forest &f, int i) { std::string s = nn(i); if (!f.kids[i].empty()) { s += "{"; for (size_t k = 0; k < f.kids[i].size(); ++k) s += (k ? " " : "") + tree_str(f, f.kids[i][k]); s += "}"; } return s; }
static std::string forest_str(const Forest &f)
{
	std::string s;
	for (auto &l : f.rl) { s += "["; for (size_t k = 0; k < l.size(); ++k) s += (k ? " " : "") + tree_str(f, l[k]); s += "]"; }
	return s.empty() ? "(empty)" : s;
}
// canonical text that does not mention slot numbers: states that differ only by exchanging
// equally named slots are the same state (the alphabet is symmetric in the slots)
static std::string sym_tree(const Forest &f, int i) { std::string s(1, NAMECH[g_name[i]]); if (!f.kids[i].empty()) { s += "("; for (int c : f.kids[i]) s += sym_tree(f, c); s += ")"; } return s; }
static std::string sym_canon(const Forest &f)
{
	std::vector<std::string> ls;
	for (auto &l : f.rl) { std::string s = "["; for (int i : l) s += sym_tree(f, i); ls.push_back(s + "]"); }
	std::sort(ls.begin(), ls.end());
	std::string s; for (auto &x : ls) s += x;
	int dead[3] = { 0, 0, 0 };
	for (int i = 0; i < g_N; ++i) if (!f.alive[i]) ++dead[g_name[i]];
	return s + fmt(" dead:a%d,b%d,-%d", dead[0], dead[1], dead[2]);
}

// compare expectation with observation; nodes in `freepos` may sit anywhere in the list they were put into
static bool cmp_forest(const Forest &e, const Forest &g, const std::set<int> &freepos, std::string &kind, std::string &why)
{
	for (int i = 0; i < g_N; ++i) if (e.alive[i] && e.par[i] != g.par[i]) {
		kind = "wrong-structure"; why = fmt("%s should be below %s, is below %s", nn(i).c_str(), nn(e.par[i]).c_str(), nn(g.par[i]).c_str()); return false; }
	for (int i = 0; i < g_N; ++i) if (e.alive[i]) {
		const std::vector<int> &le = e.list_of(i), &lg = g.list_of(i);
		std::vector<int> se(le), sg(lg); std::sort(se.begin(), se.end()); std::sort(sg.begin(), sg.end());
		if (se != sg) { kind = "wrong-structure"; why = "list of " + nn(i) + " should hold " + list_str(le) + ", holds " + list_str(lg); return false; }
		std::vector<int> fe, fg;
		for (int x : le) if (!freepos.count(x)) fe.push_back(x);
		for (int x : lg) if (!freepos.count(x)) fg.push_back(x);
		if (fe != fg) { kind = "wrong-position"; why = "list should read " + list_str(le) + ", reads " + list_str(lg); return false; }
	}
	return true;
}

// ------------------------------------------------------------------ the system under exploration
enum K { CREATE, AFTER, BEFORE, GADD, NADD, GINS, NINS, UNLINK, MOVE, NCLONE, LCLONE, TCLONE, CLEAR, DESTROY, SWAP, SWITCH, RELINK, RESTORE, DTOR, SETMETA, ASSIGN, SCOPE, COPY, NK };
static bool g_cxx = false;   // pool nodes are C++ mpt::node objects (node::create) and the C++ members are part of the alphabet
static const char *kname[] = { "mpt_node_new", "mpt_gnode_after", "mpt_gnode_before", "mpt_gnode_add", "mpt_node_add", "mpt_gnode_insert", "mpt_node_insert",
	"mpt_node_unlink", "mpt_node_move", "mpt_node_clone", "mpt_list_clone", "mpt_tree_clone", "mpt_node_clear", "mpt_node_destroy",
	"mpt_gnode_swap", "mpt_gnode_switch", "mpt_gnode_relink", "mpt_gnode_relink(restore)",
	"mpt::node::~node", "mpt::node::set_metatype", "mpt::node::operator=", "mpt::node scope end", "mpt::node copy" };
static const int POS[] = { 0, 1, 2, 3, -1, -2 };
struct OpD { int k, a, b, pos; };
static std::vector<OpD> g_ops;
static void build_ops()
{
	g_ops.clear();
	for (int a = 0; a < g_N; ++a) {
		for (int k : { CREATE, UNLINK, NCLONE, LCLONE, TCLONE, CLEAR, DESTROY, RELINK, RESTORE }) g_ops.push_back(OpD{k, a, -1, 0});
		g_ops.push_back(OpD{RESTORE, a, -1, 1});
		if (g_cxx) { for (int k : { DTOR, SETMETA, ASSIGN }) g_ops.push_back(OpD{k, a, -1, 0}); g_ops.push_back(OpD{SCOPE, a, -1, 0}); g_ops.push_back(OpD{SCOPE, a, -1, 1}); g_ops.push_back(OpD{COPY, a, -1, 0}); g_ops.push_back(OpD{COPY, a, -1, 1}); }
		g_ops.push_back(OpD{NCLONE, a, a, 0});   // clone while the value of b refuses to be cloned (b anywhere in the cloned region)
		for (int b = 0; b < g_N; ++b) {
			for (int k : { AFTER, BEFORE, SWAP, SWITCH, LCLONE, TCLONE }) g_ops.push_back(OpD{k, a, b, 0});
			if (a == b) continue;
			g_ops.push_back(OpD{MOVE, a, b, 0});   // source passed the natural way: &parent->children, or a local head for roots
			g_ops.push_back(OpD{MOVE, a, b, 1});   // child list passed through a separate local head variable
			for (int k : { GADD, NADD, GINS, NINS }) for (int p : POS) g_ops.push_back(OpD{k, a, b, p});
		}
	}
}
static std::string op_str(const OpD &d)
{
	switch (d.k) {
	case GADD: case NADD: return fmt("%s(first=%s, pos=%d, %s)", kname[d.k], nn(d.a).c_str(), d.pos, nn(d.b).c_str());
	case GINS: case NINS: return fmt("%s(parent=%s, pos=%d, %s)", kname[d.k], nn(d.a).c_str(), d.pos, nn(d.b).c_str());
	case MOVE: return fmt("mpt_node_move(&%s headed by %s, dst=%s)", d.pos ? "local copy of parent->children" : "list", nn(d.a).c_str(), nn(d.b).c_str());
	case AFTER: case BEFORE: return fmt("%s(position=%s, insert=%s)", kname[d.k], nn(d.a).c_str(), nn(d.b).c_str());
	case SWAP: case SWITCH: return fmt("%s(%s, %s)", kname[d.k], nn(d.a).c_str(), nn(d.b).c_str());
	case RESTORE: return fmt("back links below %s %s, then mpt_gnode_relink(%s)", nn(d.a).c_str(), d.pos ? "left stale (pointing at wrong nodes)" : "zeroed", nn(d.a).c_str());
	case COPY: return d.pos ? fmt("{ mpt::node b; b = *%s; }", nn(d.a).c_str()) : fmt("{ mpt::node b(*%s); }", nn(d.a).c_str());
	case NCLONE: case LCLONE: case TCLONE: if (d.b < 0) return fmt("%s(%s)", kname[d.k], nn(d.a).c_str()); return fmt("%s(%s) while the value of %s refuses clone()", kname[d.k], nn(d.a).c_str(), nn(d.b).c_str());
	case DTOR: return fmt("%s->~node(); free()", nn(d.a).c_str());
	case SCOPE: return fmt("%s made the child of a %s mpt::node which is then destroyed", nn(d.a).c_str(), d.pos ? "new'ed" : "stack");
	default: return fmt("%s(%s)", kname[d.k], nn(d.a).c_str());
	}
}

// mpt::node by-value copies (only compiled when the class allows them): the copy must be an independent node
template <class N> static typename std::enable_if<std::is_copy_constructible<N>::value, bool>::type copy_construct(N *src) { N b(*src); return true; }
template <class N> static typename std::enable_if<!std::is_copy_constructible<N>::value, bool>::type copy_construct(N *) { return false; }
template <class N> static typename std::enable_if<std::is_copy_assignable<N>::value, bool>::type copy_assign(N *src) { N b; b = *src; return true; }
template <class N> static typename std::enable_if<!std::is_copy_assignable<N>::value, bool>::type copy_assign(N *) { return false; }
static const bool g_copyable[2] = { std::is_copy_constructible<mpt::node>::value, std::is_copy_assignable<mpt::node>::value };

// ------------------------------------------------------------------ all states of a pool (snapshot jobs)
// A state up to renaming of equally named slots is a set of root lists; a list is a sequence of trees;
// a tree is a name plus a sequence of trees.  Everything over a given multiset of names is generated,
// written in the same text form as sym_canon() and sorted: the index in that table is the init code.
struct MS { int c[3]; bool operator<(const MS &o) const { return std::lexicographical_compare(c, c + 3, o.c, o.c + 3); } bool zero() const { return !c[0] && !c[1] && !c[2]; } };
static const std::vector<std::string> &gen_seq(const MS &m)
{
	static std::map<MS, std::vector<std::string> > memo;
	auto it = memo.find(m);
	if (it != memo.end()) return it->second;
	std::vector<std::string> out;
	if (m.zero()) out.push_back("");
	else for (int x = 0; x < 3; ++x) if (m.c[x]) {
		MS rest = m; --rest.c[x];
		for (int k0 = 0; k0 <= rest.c[0]; ++k0) for (int k1 = 0; k1 <= rest.c[1]; ++k1) for (int k2 = 0; k2 <= rest.c[2]; ++k2) {
			MS K = { { k0, k1, k2 } }, R = { { rest.c[0] - k0, rest.c[1] - k1, rest.c[2] - k2 } };
			const std::vector<std::string> ks = gen_seq(K), rs = gen_seq(R);
			for (auto &a : ks) for (auto &b : rs) out.push_back(std::string(1, NAMECH[x]) + (a.empty() ? std::string() : "(" + a + ")") + b);
		}
	}
	return memo[m] = out;
}
static void gen_lists(const MS &m, std::vector<std::string> &lists, std::set<std::string> &out)
{
	if (m.zero()) { std::vector<std::string> l(lists); std::sort(l.begin(), l.end()); std::string s; for (auto &x : l) s += x; out.insert(s); return; }
	for (int k0 = 0; k0 <= m.c[0]; ++k0) for (int k1 = 0; k1 <= m.c[1]; ++k1) for (int k2 = 0; k2 <= m.c[2]; ++k2) {
		if (!k0 && !k1 && !k2) continue;
		MS K = { { k0, k1, k2 } }, R = { { m.c[0] - k0, m.c[1] - k1, m.c[2] - k2 } };
		for (auto &q : gen_seq(K)) { lists.push_back("[" + q + "]"); gen_lists(R, lists, out); lists.pop_back(); }
	}
}
static std::vector<std::string> g_table;
static void build_table()
{
	g_table.clear();
	MS all = { { 0, 0, 0 } }; for (int i = 0; i < g_N; ++i) ++all.c[g_name[i]];
	for (int k0 = 0; k0 <= all.c[0]; ++k0) for (int k1 = 0; k1 <= all.c[1]; ++k1) for (int k2 = 0; k2 <= all.c[2]; ++k2) {
		MS A = { { k0, k1, k2 } }; std::set<std::string> out; std::vector<std::string> lists;
		gen_lists(A, lists, out);
		for (auto &st : out) g_table.push_back(st + fmt(" dead:a%d,b%d,-%d", all.c[0] - k0, all.c[1] - k1, all.c[2] - k2));
	}
	std::sort(g_table.begin(), g_table.end());
}
static const uint64_t SNAP = 100;   // init codes >= SNAP are table indices, below: hand-made start topologies of the history jobs

struct Lk { int next, prev, parent, child; };
struct Trav { std::vector<std::pair<int, int> > seen; struct HSys *sys; };

struct HSys {
	Run &r;
	mpt::node *p[MAXN];
	CountMeta *meta[MAXN];
	Forest cur;                 // structure (verified consistent after every step)
	bool broken;
	uint64_t t0;                // r.transitions at construction: the engine bumps it right before the step under test
	// counters and the read-only observers only for the step under test, not while a history prefix is re-executed
	bool live() const { return r.replaying || r.transitions != t0; }
	void cnt(const std::string &k) { if (live()) r.count(k); }

	int idx(const mpt::node *q) const { if (!q) return -1; for (int i = 0; i < g_N; ++i) if (cur.alive[i] && p[i] == q) return i; return -2; }

	void make(int i)
	{
		static const char *txt[] = { "a", "b" };
		meta[i] = CountMeta::make(100 + i, false);
		if (g_cxx) {
			p[i] = g_name[i] < 2 ? LIB(mpt::node::create(txt[g_name[i]], -1)) : LIB(mpt::node::create((size_t) 0));
			p[i]->set_metatype(meta[i]);
		} else {
			p[i] = LIB(mpt::mpt_node_new(g_name[i] < 2 ? 2 : 0));
			if (g_name[i] < 2) mpt::mpt_identifier_set(&p[i]->ident, txt[g_name[i]], 1);
			p[i]->_meta = meta[i];
		}
		cur.alive[i] = true; cur.par[i] = -1; cur.kids[i].clear();
	}
	void raw_children(int parent, const std::vector<int> &l)
	{
		for (size_t k = 0; k < l.size(); ++k) {
			mpt::node *n = p[l[k]];
			n->parent = parent >= 0 ? p[parent] : 0;
			n->prev = k ? p[l[k - 1]] : 0; n->next = k + 1 < l.size() ? p[l[k + 1]] : 0;
			cur.par[l[k]] = parent;
		}
		if (parent >= 0) { p[parent]->children = l.empty() ? 0 : p[l[0]]; cur.kids[parent] = l; }
		else if (!l.empty()) cur.rl.push_back(l);
	}
	size_t lbase;
	// build the state written as table text: slots are handed out in index order per name
	int take_slot(char c) { for (int i = 0; i < g_N; ++i) if (!cur.alive[i] && NAMECH[g_name[i]] == c) { make(i); return i; } return -1; }
	void build_seq(const char *&t, int parent, char close)
	{
		std::vector<int> l;
		while (*t && *t != close) { int i = take_slot(*t++); if (*t == '(') { ++t; build_seq(t, i, ')'); ++t; } l.push_back(i); }
		raw_children(parent, l);
	}
	void build_state(const std::string &txt)
	{
		const char *t = txt.c_str();
		while (*t == '[') { ++t; build_seq(t, -1, ']'); ++t; }
	}
	HSys(Run &run, uint64_t init) : r(run), broken(false), t0(run.transitions)
	{
		guard_install();
		metas_clear();
		// resetting the ledger clears a 4 MB table: only when tombstones pile up or an earlier (violating) case leaked
		static unsigned nsys = 0;
		if (ledger_live() || (++nsys & 1023) == 0) ledger_reset();
		lbase = ledger_live();
		for (int i = 0; i < MAXN; ++i) { p[i] = 0; meta[i] = 0; }
		if (init >= SNAP) { build_state(g_table[init - SNAP]); cur.norm(); if (sym_canon(cur) != g_table[init - SNAP]) { broken = true; r.incomplete("init state does not reproduce its table entry"); } return; }
		for (int i = 0; i < g_N; ++i) make(i);
		std::vector<int> all; for (int i = 0; i < g_N; ++i) all.push_back(i);
		std::vector<bool> placed(g_N, false);
		auto kids = [&](int par, std::vector<int> l) { std::vector<int> k; for (int x : l) if (x < g_N) { k.push_back(x); placed[x] = true; } raw_children(par, k); };
		switch (init) {
		case 0: break;                                                    // all nodes unlinked
		case 1: for (int i = 0; i + 1 < g_N; ++i) kids(i, { i + 1 }); break;   // chain: maximal depth
		case 2: kids(0, { 1, 2, 3, 4 }); break;                           // star
		case 3: kids(-1, { 0, 1, 2, 3, 4 }); break;                       // one list of roots
		case 4: kids(0, { 1, 3, 4 }); kids(1, { 2 }); break;              // depth 3 with siblings
		case 5: kids(0, { 1, 4 }); kids(2, { 3 }); break;                 // two trees (move / merge)
		case 6: kids(-1, { 0, 1 }); kids(0, { 2 }); kids(1, { 3, 4 }); break;   // list of two roots with children
		}
		for (int i = 0; i < g_N; ++i) if (cur.par[i] < 0 && !placed[i]) cur.rl.push_back(std::vector<int>(1, i));
		// (roots placed in a root list by kids(-1, ..) are already recorded)
		cur.norm();
	}
	~HSys()
	{
		// raw teardown that does not depend on the (possibly corrupted) links
		for (int i = 0; i < g_N; ++i) if (p[i] && ledger_is_live(p[i])) free(p[i]);
		metas_clear();
		asan_error();
	}
	int nops() { return (int) g_ops.size(); }
	std::string opname(int op) { return op_str(g_ops[op]); }
	std::string canon() { return broken ? std::string("broken") : sym_canon(cur); }

	// ---- observation -------------------------------------------------------
	void read_links(Lk L[]) const
	{
		for (int i = 0; i < g_N; ++i) if (cur.alive[i]) { L[i].next = idx(p[i]->next); L[i].prev = idx(p[i]->prev); L[i].parent = idx(p[i]->parent); L[i].child = idx(p[i]->children); }
	}
	// the invariants of the property, on the whole population
	bool invariants(const Lk L[], std::string &kind, std::string &why) const
	{
		const bool *al = cur.alive;
		for (int i = 0; i < g_N; ++i) if (al[i]) {
			if (L[i].next == -2 || L[i].prev == -2 || L[i].parent == -2 || L[i].child == -2) {
				kind = "dangling-link";
				why = fmt("%s has a %s link to something that is not a live node of the population", nn(i).c_str(), L[i].next == -2 ? "next" : (L[i].prev == -2 ? "prev" : (L[i].parent == -2 ? "parent" : "children")));
				return false; }
			if (L[i].next == i || L[i].prev == i || L[i].parent == i || L[i].child == i) { kind = "cycle"; why = nn(i) + " links to itself"; return false; }
		}
		for (int c = 0; c < g_N; ++c) if (al[c]) {
			int in = 0; std::string from;
			for (int m = 0; m < g_N; ++m) if (al[m]) { if (L[m].next == c) { ++in; from += " next-of-" + nn(m); } if (L[m].child == c) { ++in; from += " children-of-" + nn(m); } }
			if (in > 1) { kind = "double-reach"; why = nn(c) + " is reachable from two places:" + from; return false; }
		}
		for (int i = 0; i < g_N; ++i) if (al[i]) {
			if (L[i].next >= 0 && L[L[i].next].prev != i) { kind = "sibling-links"; why = fmt("%s->next is %s but its prev is %s", nn(i).c_str(), nn(L[i].next).c_str(), nn(L[L[i].next].prev).c_str()); return false; }
			if (L[i].prev >= 0 && L[L[i].prev].next != i) { kind = "sibling-links"; why = fmt("%s->prev is %s but its next is %s", nn(i).c_str(), nn(L[i].prev).c_str(), nn(L[L[i].prev].next).c_str()); return false; }
		}
		for (int i = 0; i < g_N; ++i) if (al[i] && L[i].child >= 0 && L[L[i].child].prev != -1) {
			kind = "children-not-list-head"; why = fmt("%s->children is %s which has a predecessor %s", nn(i).c_str(), nn(L[i].child).c_str(), nn(L[L[i].child].prev).c_str()); return false; }
		for (int i = 0; i < g_N; ++i) if (al[i]) {
			if (L[i].child >= 0 && L[L[i].child].parent != i) { kind = "child-parent"; why = fmt("%s is the first child of %s but names %s as parent", nn(L[i].child).c_str(), nn(i).c_str(), nn(L[L[i].child].parent).c_str()); return false; }
			if (L[i].next >= 0 && L[L[i].next].parent != L[i].parent) { kind = "child-parent"; why = fmt("siblings %s and %s name different parents (%s, %s)", nn(i).c_str(), nn(L[i].next).c_str(), nn(L[i].parent).c_str(), nn(L[L[i].next].parent).c_str()); return false; }
		}
		for (int i = 0; i < g_N; ++i) if (al[i]) {     // chains terminate
			int n = 0, q = i; while (q >= 0 && n <= g_N) { q = L[q].parent; ++n; }
			if (q >= 0) { kind = "cycle"; why = "parent chain of " + nn(i) + " does not end"; return false; }
			n = 0; q = i; while (q >= 0 && n <= g_N) { q = L[q].next; ++n; }
			if (q >= 0) { kind = "cycle"; why = "sibling chain of " + nn(i) + " does not end"; return false; }
		}
		for (int i = 0; i < g_N; ++i) if (al[i] && L[i].parent >= 0) {   // a child must be in its parent's list
			int q = i, n = 0; while (L[q].prev >= 0 && n++ <= g_N) q = L[q].prev;
			if (L[L[i].parent].child != q) { kind = "parent-without-child-link"; why = fmt("%s names %s as parent but is not in its child list", nn(i).c_str(), nn(L[i].parent).c_str()); return false; }
		}
		return true;
	}
	void to_forest(const Lk L[], Forest &f) const
	{
		for (int i = 0; i < g_N; ++i) { f.alive[i] = cur.alive[i]; f.par[i] = cur.alive[i] ? L[i].parent : -1; f.kids[i].clear(); }
		f.rl.clear();
		for (int i = 0; i < g_N; ++i) if (cur.alive[i] && L[i].prev < 0) {
			std::vector<int> l; for (int q = i; q >= 0; q = L[q].next) l.push_back(q);
			if (L[i].parent >= 0) f.kids[L[i].parent] = l; else f.rl.push_back(l);
		}
		f.norm();
	}

	// ---- reporting ---------------------------------------------------------
	std::string pre_desc, op_desc, sig_op, sig_cls;
	bool fail(const std::string &kind, const std::string &why)
	{
		r.violation(sig_op + "|" + sig_cls + "|" + kind, op_desc + " on " + pre_desc + " [" + sig_cls + "; " + kind + "]: " + why);
		broken = true;
		return false;
	}

	// ---- clone verification (by pointer walk; clones are not pool members) -----
	// src list starting at s against copy list starting at c; `all` = follow siblings
	bool same_clone(const mpt::node *s, const mpt::node *c, const mpt::node *cparent, bool all, std::set<const void *> &fresh, int &count, std::string &kind, std::string &why)
	{
		const mpt::node *cprev = 0;
		for (; s; s = all ? s->next : 0) {
			std::string sn = nn(idx(s));
			if (!c) { kind = "shape"; why = "copy of " + sn + " is missing"; return false; }
			if (idx(c) != -2 || !ledger_is_live(c) || fresh.count(c) || ++count > 2 * MAXN) { kind = "not-a-fresh-node"; why = "copy of " + sn + " is not a distinct new node"; return false; }
			fresh.insert(c);
			if (c->ident._len != s->ident._len || c->ident._charset != s->ident._charset
			    || memcmp(mpt::mpt_identifier_data(&c->ident), mpt::mpt_identifier_data(&s->ident), s->ident._len)) { kind = "names"; why = "copy of " + sn + " carries a different name"; return false; }
			CountMeta *sm = as_count(s->_meta), *cm = as_count(c->_meta);
			if (!cm || cm == sm || !cm->is_clone || cm->released || cm->val != sm->val) { kind = "values"; why = "copy of " + sn + " does not own a clone of the source value"; return false; }
			if (c->parent != cparent) { kind = "child-parent"; why = "copy of " + sn + (c->parent ? " names a wrong parent" : " has no parent link") + (cparent ? " (expected: the copy of its source's parent)" : " (expected: none)"); return false; }
			if (c->prev != cprev) { kind = "sibling-links"; why = "copy of " + sn + " has a wrong prev link"; return false; }
			if (!all && c->next) { kind = "shape"; why = "copy of the single node " + sn + " has a successor"; return false; }
			if (!same_clone(s->children, c->children, c, true, fresh, count, kind, why)) return false;
			cprev = c; c = c->next;
		}
		if (all && c) { kind = "shape"; why = "copy has more nodes than the source list"; return false; }
		return true;
	}

	// ---- traversal observers -------------------------------------------------
	static int trav_cb(mpt::node *n, void *ctx, size_t depth)
	{
		Trav *t = (Trav *) ctx;
		if (t->seen.size() < 64) t->seen.push_back(std::make_pair(t->sys->idx(n), (int) depth));
		return 0;
	}
	void order(int i, int d, int mode, int flags, std::vector<std::pair<int, int> > &out) const
	{
		const std::vector<int> &k = cur.kids[i];
		bool me = k.empty() ? (flags & mpt::TraverseLeafs) : (flags & mpt::TraverseNonLeafs);
		if (mode == mpt::TraversePreOrder && me) out.push_back(std::make_pair(i, d));
		for (size_t c = 0; c < k.size(); ++c) {
			order(k[c], d + 1, mode, flags, out);
			if (mode == mpt::TraverseInOrder && c == 0 && me) out.push_back(std::make_pair(i, d));
		}
		if (mode == mpt::TraverseInOrder && k.empty() && me) out.push_back(std::make_pair(i, d));
		if (mode == mpt::TraversePostOrder && me) out.push_back(std::make_pair(i, d));
	}
	static std::string seq_str(const std::vector<std::pair<int, int> > &v) { std::string s; for (auto &e : v) s += fmt("%s%s@%d", s.empty() ? "" : " ", nn(e.first).c_str(), e.second); return s.empty() ? "(nothing)" : s; }
	bool traversals()
	{
		static const int modes[] = { mpt::TraversePreOrder, mpt::TraversePostOrder, mpt::TraverseInOrder, mpt::TraverseLevelOrder };
		static const char *mname[] = { "pre-order", "post-order", "in-order", "level-order" };
		static const int fl[] = { mpt::TraverseAll, mpt::TraverseLeafs, mpt::TraverseNonLeafs };
		for (const std::vector<int> &l : cur.rl) for (int m = 0; m < 4; ++m) for (int f = 0; f < 3; ++f) {
			std::vector<std::pair<int, int> > want;
			if (modes[m] != mpt::TraverseLevelOrder) for (int i : l) order(i, 0, modes[m], fl[f], want);
			else {
				std::vector<int> lev(l); int d = 0;
				while (!lev.empty()) { std::vector<int> nx; for (int i : lev) { bool me = cur.kids[i].empty() ? (fl[f] & mpt::TraverseLeafs) : (fl[f] & mpt::TraverseNonLeafs); if (me) want.push_back(std::make_pair(i, d)); for (int c : cur.kids[i]) nx.push_back(c); } lev = nx; ++d; }
			}
			Trav t; t.sys = this;
			int s = guarded([&] { LIB(mpt::mpt_gnode_traverse(p[l[0]], modes[m] | fl[f], trav_cb, &t)); });
			sig_op = "mpt_gnode_traverse"; sig_cls = mname[m];
			std::string od = op_desc; op_desc = fmt("mpt_gnode_traverse(%s, %s%s) after ", nn(l[0]).c_str(), mname[m], f == 0 ? "" : (f == 1 ? ", leafs" : ", non-leafs")) + od;
			if (s) return fail(signame(s), "traversal faults on a consistent structure");
			if (asan_error()) return fail("asan", "traversal touches released memory");
			if (t.seen != want) return fail("wrong-sequence", "visited " + seq_str(t.seen) + ", documented order gives " + seq_str(want));
			op_desc = od;
		}
		cnt("observer:traversals(4 orders x 3 filters per root list)");
		return true;
	}

	// ---- one step -------------------------------------------------------------
	static const char *poscls(int pos) { return pos == 0 ? "pos=0" : (pos == 1 ? "pos=1" : (pos > 1 ? "pos>1" : "pos<0")); }
	bool name_in(const std::vector<int> &l, int name) const { for (int x : l) if (g_name[x] == name) return true; return false; }

	// model of mpt_node_move: elements of S without a namesake in D go to D, namesakes merge their children
	struct MoveInfo { size_t moved; bool reparent, recursive, kepthead; std::set<int> freepos; };
	void model_move(Forest &f, std::vector<int> &S, std::vector<int> &D, int dpar, MoveInfo &mi) const
	{
		std::vector<int> src(S); bool kept = false;
		for (int s : src) {
			int d = -1; for (int x : D) if (g_name[x] == g_name[s]) { d = x; break; }
			if (d < 0) {
				S.erase(std::find(S.begin(), S.end(), s)); D.push_back(s); f.par[s] = dpar; ++mi.moved; mi.freepos.insert(s);
				if (kept) mi.kepthead = true;
				continue;
			}
			kept = true;
			if (f.kids[s].empty()) continue;
			if (!f.kids[d].empty()) { mi.recursive = true; model_move(f, f.kids[s], f.kids[d], d, mi); }
			else { mi.reparent = true; f.kids[d] = f.kids[s]; f.kids[s].clear(); for (int c : f.kids[d]) { f.par[c] = d; ++mi.moved; } }
		}
	}

	bool apply(int op)
	{
		if (broken) return false;
		const OpD d = g_ops[op];
		const int a = d.a, b = d.b;
		Forest &F = cur;
		// ---------------- enabledness
		if (d.k == CREATE) { if (F.alive[a]) return false; }
		else {
			if (!F.alive[a] || (b >= 0 && !F.alive[b])) return false;
			switch (d.k) {
			case AFTER: case BEFORE: if (a != b && (!F.single(b) || F.anc(b, a))) return false; break;
			case GADD: case NADD: case GINS: case NINS: if (!F.single(b) || F.anc(b, a)) return false; break;
			case MOVE: {
				if (F.index_of(a) != 0 || F.index_of(b) != 0) return false;
				if (d.pos && F.par[a] < 0) return false;   // for root lists the head is a local variable anyway
				const std::vector<int> &ra = F.list_of(F.top(a)), &rb = F.list_of(F.top(b));
				if (&ra == &rb) return false;          // lists must live in different trees
				break; }
			case SWAP: case SWITCH: if (a != b && (F.anc(a, b) || F.anc(b, a))) return false; break;
			case RESTORE: if (F.kids[a].empty()) return false; break;
			case TCLONE: if (b >= 0 && !F.anc(a, b)) return false; break;
			case LCLONE: if (b >= 0) {
				// b must lie in the cloned region: below (or equal to) a or one of its successors
				int t = b; while (F.par[t] != F.par[a] && F.par[t] >= 0) t = F.par[t];
				if (F.par[t] != F.par[a] || &F.list_of(t) != &F.list_of(a) || F.index_of(t) < F.index_of(a)) return false;
				} break;
			case DTOR: case SETMETA: case ASSIGN: if (!g_cxx) return false; break;
			case SCOPE: if (!g_cxx || !F.single(a)) return false; break;
			case COPY: if (!g_cxx || !g_copyable[d.pos]) return false; break;
			}
		}
		// ---------------- expectation
		Forest E = F; std::set<int> freepos; std::vector<int> deaths;
		bool pre_linked = F.any_link();
		if (live()) { pre_desc = forest_str(F); op_desc = op_str(d); }   // texts only for the step under test
		sig_op = kname[d.k]; sig_cls = "";
		mpt::node *pa = d.k == CREATE ? 0 : p[a], *pb = b >= 0 ? p[b] : 0;
		r.hint(kname[d.k]);
		asan_error();
		int sig = 0; long move_ret = -1, move_want = -1;
		auto place = [&](std::vector<int> &l, int head_idx, int pos, bool exact_family) {
			// where does pos put b in list l when counting from l[head_idx]?  exact only where the code states it
			int n = (int) l.size();
			if (exact_family && pos == 0) { l.push_back(b); cnt("insert:exact position checked"); return; }
			if (exact_family && pos >= 1 && head_idx == 0 && pos - 1 <= n) { l.insert(l.begin() + (pos - 1), b); cnt("insert:exact position checked"); return; }
			l.push_back(b); freepos.insert(b); cnt("insert:position free (only link invariants + membership)");
		};
		switch (d.k) {
		case CREATE: {
			sig_cls = "fresh";
			sig = guarded([&] { make(a); });
			E.alive[a] = true; E.par[a] = -1; E.kids[a].clear(); E.rl.push_back(std::vector<int>(1, a));
			break; }
		case AFTER: case BEFORE: {
			if (a == b) { sig_cls = "self"; cnt("insert:self reference ignored"); }
			else {
				E.detach(b);
				std::vector<int> &l = E.list_of(a); int i = E.index_of(a);
				sig_cls = std::string(F.par[a] >= 0 ? "child-list" : "root-list") + (d.k == AFTER ? (i + 1 == (int) l.size() ? ",at-tail" : ",inner") : (i == 0 ? ",at-head" : ",inner"));
				l.insert(l.begin() + i + (d.k == AFTER ? 1 : 0), b); E.par[b] = E.par[a];
			}
			mpt::node *ret = 0;
			sig = guarded([&] { ret = d.k == AFTER ? LIB(mpt::mpt_gnode_after(pa, pb)) : LIB(mpt::mpt_gnode_before(pa, pb)); });
			break; }
		case GADD: case NADD: {
			E.detach(b);
			std::vector<int> &l = E.list_of(a); int i = E.index_of(a);
			sig_cls = std::string(poscls(d.pos)) + (F.par[a] >= 0 ? ",child-list" : ",root-list") + (i ? ",first-is-inner" : ",first-is-head");
			if (d.k == NADD) sig_cls += name_in(l, g_name[b]) ? ",name-present" : ",name-absent";
			place(l, i, d.pos, d.k == GADD); E.par[b] = E.par[a];
			sig = guarded([&] { if (d.k == GADD) LIB(mpt::mpt_gnode_add(pa, d.pos, pb)); else LIB(mpt::mpt_node_add(pa, d.pos, pb)); });
			break; }
		case GINS: case NINS: {
			E.detach(b);
			std::vector<int> &l = E.kids[a];
			sig_cls = std::string(poscls(d.pos)) + (l.empty() ? ",no-children" : ",has-children");
			if (d.k == NINS && !l.empty()) sig_cls += name_in(l, g_name[b]) ? ",name-present" : ",name-absent";
			if (l.empty()) { l.push_back(b); cnt("insert:first child"); } else place(l, 0, d.pos, d.k == GINS);
			E.par[b] = a;
			int ret = 0;
			sig = guarded([&] { ret = d.k == GINS ? LIB(mpt::mpt_gnode_insert(pa, d.pos, pb)) : LIB(mpt::mpt_node_insert(pa, d.pos, pb)); });
			if (!sig && ret < 0) return fail("refused", "insertion of a valid node was refused");
			break; }
		case UNLINK: {
			sig_cls = F.par[a] >= 0 ? (F.index_of(a) == 0 ? "first-child" : "inner-child") : (F.list_of(a).size() > 1 ? "root-in-list" : "single-root");
			E.detach(a); E.rl.push_back(std::vector<int>(1, a));
			sig = guarded([&] { LIB(mpt::mpt_node_unlink(pa)); });
			break; }
		case MOVE: {
			MoveInfo mi; mi.moved = 0; mi.reparent = mi.recursive = mi.kepthead = false;
			std::vector<int> S = E.list_of(a);   // work on a copy: the root list entry may vanish
			// detach the whole source list from the model, merge, put the remainder back
			int spar = E.par[a];
			if (spar >= 0) E.kids[spar].clear(); else for (size_t k = 0; k < E.rl.size(); ++k) if (E.rl[k] == S) { E.rl.erase(E.rl.begin() + k); break; }
			model_move(E, S, E.list_of(b), E.par[b], mi);
			if (spar >= 0) E.kids[spar] = S; else if (!S.empty()) E.rl.push_back(S);
			freepos = mi.freepos;
			sig_cls = mi.moved ? "" : "nothing-to-move";
			if (mi.kepthead) sig_cls += std::string(sig_cls.empty() ? "" : "+") + "later-element-moved";
			if (mi.reparent) sig_cls += std::string(sig_cls.empty() ? "" : "+") + "children-reparented";
			if (mi.recursive) sig_cls += std::string(sig_cls.empty() ? "" : "+") + "children-merged";
			if (sig_cls.empty()) sig_cls = "leading-elements-moved";
			cnt("move:" + sig_cls);
			const bool local = spar < 0 || d.pos;
			cnt(spar < 0 ? "move:root list, local head" : (d.pos ? "move:child list, separate local head" : "move:child list, &parent->children"));
			if (spar >= 0 && d.pos && (S.empty() || S[0] != a)) cnt("move:child list, separate local head, first element moved");
			if (spar >= 0 && d.pos) sig_cls += ",separate-head";
			mpt::node *handle = pa, **from = local ? &handle : &p[spar]->children;
			size_t ret = 0;
			sig = guarded([&] { ret = LIB(mpt::mpt_node_move(from, pb)); });
			if (!sig && !asan_peek()) {
				// the caller only keeps *from and dst: everything must stay reachable through them
				int h = idx(*from);
				if (S.empty() ? h != -1 : h != S[0]) {
					// (for from == &parent->children the link invariants below report it)
					if (local) return fail("source-handle", fmt("caller's list pointer is left at %s, the remaining source list is %s", nn(h).c_str(), list_str(S).c_str()));
				}
				move_ret = (long) ret; move_want = (long) mi.moved;
			}
			break; }
		case NCLONE: case LCLONE: case TCLONE: {
			int depth = 0;
			if (d.k == NCLONE) sig_cls = F.kids[a].empty() ? "leaf" : "node-with-children";
			else {
				if (d.k == TCLONE) depth = F.depth_below(a);
				else { const std::vector<int> &l = F.list_of(a); for (size_t k = F.index_of(a); k < l.size(); ++k) depth = std::max(depth, F.depth_below(l[k])); }
				sig_cls = depth == 0 ? "flat" : (depth == 1 ? "one-level-of-children" : "children-of-children");
				if (depth >= 1) cnt(std::string(d.k == TCLONE ? "tree_clone" : "list_clone") + ":with children");
				if (depth >= 2) cnt(std::string(d.k == TCLONE ? "tree_clone" : "list_clone") + ":depth>=2 below the cloned level");
			}
			mpt::node *cpy = 0;
			if (b >= 0) {
				// failed clone: the value of b refuses; nothing may be returned, nothing may stay behind (accounting below)
				int rd = 0; if (d.k != NCLONE) for (int t = b; t != a && F.par[t] >= 0 && !(d.k == LCLONE && F.par[t] == F.par[a]); t = F.par[t]) ++rd;
				bool later = d.k == LCLONE && rd == 0 && b != a;
				if (d.k == LCLONE && rd > 0) { int t = b; while (F.par[t] != F.par[a]) t = F.par[t]; later = t != a; }
				sig_cls += fmt(",value-refused-at-depth%s%s", rd == 0 ? "0" : (rd == 1 ? "1" : ">=2"), later ? ",after-copied-siblings" : "");
				cnt(fmt("%s:value refused at depth%s", d.k == NCLONE ? "node_clone" : (d.k == TCLONE ? "tree_clone" : "list_clone"), rd == 0 ? "0" : (rd == 1 ? "1" : ">=2")));
				g_refuse = meta[b];
				sig = guarded([&] { cpy = d.k == NCLONE ? LIB(mpt::mpt_node_clone(pa)) : (d.k == LCLONE ? LIB(mpt::mpt_list_clone(pa)) : LIB(mpt::mpt_tree_clone(pa))); });
				g_refuse = 0;
				if (sig) break;
				if (asan_error()) return fail("asan", "failed clone touches memory outside live nodes");
				if (cpy) return fail("values", "a clone was returned although the value of " + nn(b) + " could not be cloned");
				break;
			}
			sig = guarded([&] { cpy = d.k == NCLONE ? LIB(mpt::mpt_node_clone(pa)) : (d.k == LCLONE ? LIB(mpt::mpt_list_clone(pa)) : LIB(mpt::mpt_tree_clone(pa))); });
			if (sig) break;
			if (asan_error()) return fail("asan", "cloning touches memory outside live nodes");
			if (!cpy) return fail("refused", "clone failed without an allocation failure");
			std::set<const void *> fresh; int count = 0; std::string kind, why; bool ok;
			if (d.k == NCLONE) {
				// a node clone is shallow: same attributes, no relations
				ok = cpy->children == 0 && cpy->next == 0;
				if (!ok) { kind = "shape"; why = "node clone carries links"; }
				else {
					// compare as a one-element list without children
					mpt::node *kc = pa->children; pa->children = 0;
					ok = same_clone(pa, cpy, 0, false, fresh, count, kind, why);
					pa->children = kc;
				}
			}
			else ok = same_clone(pa, cpy, 0, d.k == LCLONE, fresh, count, kind, why);
			// tear the copy down through the library (exactly-once release is checked by the accounting below)
			int tsig = guarded([&] {
				int n = 0;
				for (mpt::node *c = cpy, *nx; c && n++ < 2 * MAXN; c = nx) { nx = c->next; c->next = c->prev = c->parent = 0; if (nx) nx->prev = 0; if (LIB(mpt::mpt_node_destroy(c))) { ok = false; kind = "destroy-refused"; why = "unlinked copy cannot be destroyed"; } }
			});
			if (!ok) return fail(kind, why);
			if (tsig) return fail(signame(tsig), "destroying the copy faults");
			break; }
		case CLEAR: {
			sig_cls = F.kids[a].empty() ? "leaf" : (F.depth_below(a) > 1 ? "children-of-children" : "children");
			if (F.depth_below(a) > 1) cnt("clear:recursive");
			for (int c : F.kids[a]) F.subtree(c, deaths);
			E.kids[a].clear();
			sig = guarded([&] { LIB(mpt::mpt_node_clear(pa)); });
			break; }
		case DESTROY: {
			bool linked = F.linked(a);
			sig_cls = std::string(linked ? (F.par[a] >= 0 ? "child" : "root-in-list") : "free") + (F.kids[a].empty() ? ",leaf" : ",with-children");
			if (!linked) { F.subtree(a, deaths); E.detach(a); cnt(F.kids[a].empty() ? "destroy:leaf" : "destroy:subtree"); }
			else cnt("destroy:linked node (must be refused)");
			mpt::node *ret = 0;
			sig = guarded([&] { ret = LIB(mpt::mpt_node_destroy(pa)); });
			if (!sig && !asan_peek()) {
				if (linked && ret != pa) return fail("accepted-linked", "destroy of a linked node was not refused");
				if (!linked && ret) return fail("refused", "destroy of an unlinked node was refused");
			}
			break; }
		case SWAP: {
			sig_cls = a == b ? "self" : fmt("%s/%s", F.kids[a].empty() ? "no-children" : "children", F.kids[b].empty() ? "no-children" : "children");
			if (a != b) { std::swap(E.kids[a], E.kids[b]); for (int c : E.kids[a]) E.par[c] = a; for (int c : E.kids[b]) E.par[c] = b; }
			sig = guarded([&] { LIB((mpt::mpt_gnode_swap(pa, pb), 0)); });
			break; }
		case SWITCH: {
			if (a == b) sig_cls = "self";
			else {
				std::vector<int> &la = E.list_of(a), &lb = E.list_of(b);
				int ia = E.index_of(a), ib = E.index_of(b);
				bool lasta = ia + 1 == (int) la.size(), lastb = ib + 1 == (int) lb.size();
				sig_cls = &la == &lb ? (std::abs(ia - ib) == 1 ? "same-list,adjacent" : "same-list,apart") : std::string("different-lists") + (lasta && lastb ? ",both-last" : (lasta || lastb ? ",one-last" : ",none-last"));
				la[ia] = b; lb[ib] = a; std::swap(E.par[a], E.par[b]);
			}
			sig = guarded([&] { LIB((mpt::mpt_gnode_switch(pa, pb), 0)); });
			break; }
		case RELINK: case RESTORE: {
			int dep = F.depth_below(a);
			sig_cls = std::string(dep == 0 ? "leaf" : (dep == 1 ? "children" : "children-of-children")) + (F.index_of(a) + 1 < (int) F.list_of(a).size() ? ",has-successor" : ",no-successor");
			if (d.k == RESTORE) {
				// "can be used after manual concatenation": forward links (children/next) are the reference
				std::vector<int> sub; for (int c : F.kids[a]) F.subtree(c, sub);
				// after concatenating by hand the back links are either unset or still those of the old place
				for (int x : sub) { p[x]->prev = d.pos ? p[x] : 0; p[x]->parent = d.pos ? p[x] : 0; }
				if (d.pos) sig_cls += ",stale-back-links";
				if (dep > 1) cnt("relink:restore below depth 1");
				if (d.pos) cnt("relink:restore with stale back links");
			}
			sig = guarded([&] { LIB((mpt::mpt_gnode_relink(pa), 0)); });
			break; }
		case DTOR: {
			// a C++ node may be destroyed at any position: it has to take itself out of its list and release its subtree
			const std::vector<int> &l = F.list_of(a); int i = F.index_of(a), n = (int) l.size();
			sig_cls = std::string(F.par[a] >= 0 ? "child" : "root") + (n == 1 ? ",only" : (i == 0 ? ",first" : (i + 1 == n ? ",last" : ",middle"))) + (F.kids[a].empty() ? ",leaf" : ",with-children");
			cnt("dtor:" + sig_cls);
			F.subtree(a, deaths); E.detach(a);
			sig = guarded([&] { LIB((pa->~node(), 0)); free(pa); });
			break; }
		case SETMETA: case ASSIGN: {
			sig_cls = "replace-value";
			CountMeta *nm = CountMeta::make(200 + a, false);
			if (d.k == SETMETA) sig = guarded([&] { LIB((pa->set_metatype(nm), 0)); });
			else sig = guarded([&] { mpt::reference<mpt::metatype> ref(nm); LIB((*pa = ref, 0)); });
			meta[a] = nm;   // the old value must have been released exactly once (counted below)
			break; }
		case COPY: {
			// a by-value copy and its destruction must leave the source and its surroundings alone
			sig_cls = std::string(d.pos ? "assign" : "construct") + (F.kids[a].empty() ? ",leaf" : ",with-children") + (F.linked(a) ? ",linked" : ",free");
			sig = guarded([&] { if (d.pos) copy_assign(pa); else copy_construct(pa); });
			break; }
		case SCOPE: {
			sig_cls = std::string(d.pos ? "new/delete" : "stack") + (F.kids[a].empty() ? ",leaf" : ",with-children");
			F.subtree(a, deaths); E.detach(a);
			CountMeta *tm = CountMeta::make(300 + a, false);
			sig = guarded([&] {
				if (d.pos) { mpt::node *t = new mpt::node(tm); LIB(mpt::mpt_gnode_insert(t, 0, pa)); LIB((delete t, 0)); }
				else { mpt::node t(tm); LIB(mpt::mpt_gnode_insert(&t, 0, pa)); }
			});
			break; }
		}
		cnt(std::string("op:") + kname[d.k]);
		if (sig) return fail(signame(sig), "the call faults");
		// ---------------- observation
		for (int x : deaths) { E.alive[x] = false; E.par[x] = -1; E.kids[x].clear(); }
		mpt::node *oldp[MAXN]; for (int i = 0; i < g_N; ++i) oldp[i] = p[i];
		for (int i = 0; i < g_N; ++i) cur.alive[i] = E.alive[i];     // idx() must not resolve released nodes
		if (asan_error()) return fail("asan", "memory error reported by AddressSanitizer (use after release / double release / out of bounds)");
		Lk L[MAXN]; read_links(L);
		if (asan_error()) return fail("asan", "a node that must still exist was released");
		std::string kind, why;
		if (!invariants(L, kind, why)) return fail(kind, why);
		Forest G; to_forest(L, G);
		E.norm();
		if (!cmp_forest(E, G, freepos, kind, why)) {
			// by-name add with `first` inside the list: namesakes before `first` make the code give up; the header does not
			// say what must happen then, the node simply stays unlinked (links stay sound): counted, not flagged
			std::string k2, w2;
			if (d.k == NADD && cur.index_of(a) != 0 && cmp_forest(cur, G, std::set<int>(), k2, w2)) cnt("node_add:first is not the list head, node left unlinked (not flagged)");
			else return fail(kind, why + "; expected " + forest_str(E) + ", got " + forest_str(G));
		}
		if (move_ret != move_want) return fail("count", fmt("returned %ld moved elements, %ld were moved", move_ret, move_want));
		// ---------------- release accounting
		size_t nalive = 0;
		for (int i = 0; i < g_N; ++i) {
			if (E.alive[i]) {
				++nalive;
				if (!ledger_is_live(p[i])) return fail("released-early", nn(i) + " was released although it is still part of the population");
				if (meta[i]->released || meta[i]->refs != 1 || meta[i]->bad) return fail("value-refcount", fmt("value of %s: refs=%ld released=%d calls-after-release=%d", nn(i).c_str(), meta[i]->refs, meta[i]->released, meta[i]->bad));
			}
			else if (oldp[i]) {
				if (ledger_is_live(oldp[i])) return fail("not-released", nn(i) + " was dropped from the structure but never released");
				if (meta[i]->released != 1 || meta[i]->bad) return fail("value-refcount", fmt("value of destroyed %s: released=%d calls-after-release=%d", nn(i).c_str(), meta[i]->released, meta[i]->bad));
				p[i] = 0;
			}
		}
		if (ledger_live() - lbase != nalive) return fail("not-released", fmt("%zu node allocations are live, population has %zu nodes", ledger_live() - lbase, nalive));
		size_t mlive = 0; for (CountMeta *c : g_metas) { if (!c->released) ++mlive; if (c->bad) return fail("value-refcount", "a value was unreferenced after its release"); }
		if (mlive != nalive) return fail("value-refcount", fmt("%zu values are live, population has %zu nodes", mlive, nalive));
		cur = G;
		// ---------------- the library's own walkers must agree with the structure
		if (live() && !traversals()) return false;
		if (pre_linked || cur.any_link()) cnt("nontrivial");
		return true;
	}
};

// ------------------------------------------------------------------ mpt_parse_node (stateless DFS)
// config text = list of entries; entry = option "name = v" or section "name { entries }"
struct PEnt { int name; bool sect; int val; std::vector<PEnt> kids; };
static std::string ptext(const std::vector<PEnt> &l, int ind = 0)
{
	std::string s;
	for (const PEnt &e : l) {
		s += std::string(ind, ' ') + NAMECH[e.name];
		if (e.sect) s += " {\n" + ptext(e.kids, ind + 1) + std::string(ind, ' ') + "}\n";
		else s += fmt(" = %d\n", e.val);
	}
	return s;
}
static std::string pshow(const std::vector<PEnt> &l)
{
	std::string s;
	for (const PEnt &e : l) { s += (s.empty() ? "" : " ") + std::string(1, NAMECH[e.name]); if (e.sect) s += "{" + pshow(e.kids) + "}"; else s += fmt("=%d", e.val); }
	return s;
}
static bool g_pdup;   // the choice vector repeats a text that a shorter vector already produced
static void pchoose(Ctx &x, std::vector<PEnt> &l, int maxn, int depth, int &val, int &budget)
{
	int n = (int) x.choose(maxn + 1);
	if (n > budget) g_pdup = true;
	for (int i = 0; i < n && budget > 0; ++i) {
		PEnt e; e.name = (int) x.choose(2); e.sect = depth > 0 && x.choose(2); e.val = val++; --budget;
		if (e.sect) pchoose(x, e.kids, 2, depth - 1, val, budget);
		l.push_back(e);
	}
}
struct SrcText { const std::string *s; size_t pos; };
static int text_getc(void *ctx) { SrcText *t = (SrcText *) ctx; return t->pos < t->s->size() ? (unsigned char) (*t->s)[t->pos++] : -1; }

// model of the merge: new entries win, old entries without a namesake survive, namesake sections merge
struct MNode { std::string name; std::string val; bool hasval; std::vector<MNode> kids; };
static void to_model(const std::vector<PEnt> &l, std::vector<MNode> &out)
{
	for (const PEnt &e : l) { MNode m; m.name = std::string(1, NAMECH[e.name]); m.hasval = !e.sect; if (!e.sect) m.val = std::to_string(e.val); to_model(e.kids, m.kids); out.push_back(m); }
}
static void model_merge(std::vector<MNode> &oldl, std::vector<MNode> &newl)
{
	for (MNode &o : oldl) {
		MNode *d = 0; for (MNode &n : newl) if (n.name == o.name) { d = &n; break; }
		if (!d) { newl.push_back(o); continue; }
		if (o.kids.empty()) continue;
		if (d->kids.empty()) d->kids = o.kids; else model_merge(o.kids, d->kids);
	}
}
static std::string mshow(const std::vector<MNode> &l, bool sorted)
{
	std::vector<std::string> v;
	for (const MNode &m : l) v.push_back(m.name + (m.hasval ? "=" + m.val : std::string()) + (m.kids.empty() ? std::string() : "{" + mshow(m.kids, sorted) + "}"));
	if (sorted) std::sort(v.begin(), v.end());
	std::string s; for (auto &x : v) s += (s.empty() ? "" : " ") + x;
	return s;
}
// pointer walk of a parsed tree: invariants + content
static bool pwalk(const mpt::node *parent, const mpt::node *first, std::set<const void *> &seen, std::vector<MNode> &out, std::string &kind, std::string &why, int depth = 0)
{
	const mpt::node *prev = 0;
	for (const mpt::node *n = first; n; prev = n, n = n->next) {
		if (depth > 8 || seen.size() > 64) { kind = "cycle"; why = "walk does not end"; return false; }
		if (!ledger_is_live(n)) { kind = "dangling-link"; why = "link to a node that is not allocated (any more)"; return false; }
		if (!seen.insert(n).second) { kind = "double-reach"; why = "a node is reachable from two places"; return false; }
		const char *id = mpt::mpt_node_ident(n);
		std::string name = id ? id : "";
		if (n->parent != parent) { kind = "child-parent"; why = "node '" + name + "' at depth " + std::to_string(depth) + (n->parent ? " names something else than the node that lists it as parent" : " has no parent link"); return false; }
		if (n->prev != prev) { kind = "sibling-links"; why = "node '" + name + "' has a wrong prev link"; return false; }
		MNode m; m.name = name; m.hasval = false;
		size_t len = 0; const char *data = mpt::mpt_node_data(n, &len);
		if (data) { while (len && !data[len - 1]) --len; m.hasval = true; m.val.assign(data, len); }   // stored text may carry its terminator
		if (!pwalk(n, n->children, seen, m.kids, kind, why, depth + 1)) return false;
		out.push_back(m);
	}
	return true;
}
static void parse_case(Run &r, Ctx &x, int part, int parts)
{
	guard_install();
	const int nodes = r.tier == Quick ? 3 : 4;      // entries per text
	std::vector<PEnt> A, B; int val = 1, budget = nodes;
	g_pdup = false;
	pchoose(x, A, 2, 2, val, budget);
	budget = nodes; val = 11;
	pchoose(x, B, 2, 2, val, budget);
	if (g_pdup) return;
	std::string ta = ptext(A), tb = ptext(B);
	if ((int) (fnv(ta.data(), ta.size()) % parts) != part) return;   // the pairs are dealt out to the parse jobs by their first text
	std::string desc = "mpt_parse_node: first text {" + pshow(A) + "}, second text {" + pshow(B) + "}";
	r.note("%s", desc.c_str());
	++r.states;
	static bool warm = false;
	if (!warm) {   // lazily created library singletons (type registry ..) must not count as leaks
		warm = true;
		std::string t = "a {\n b = 1\n}\n"; SrcText src = { &t, 0 };
		mpt::parser_context ctx; ctx.src.getc = text_getc; ctx.src.arg = &src; ctx.src.line = 1;
		mpt::node *w = mpt::mpt_node_new(0);
		mpt::mpt_parse_node(w, &ctx, 0); mpt::mpt_node_clear(w); free(w);
	}
	static unsigned ncase = 0;
	if (ledger_live() || (++ncase & 255) == 0) ledger_reset();
	asan_error();
	size_t lbase = ledger_live();
	mpt::node *root = LIB(mpt::mpt_node_new(0));
	std::string kind, why, stage = "first-parse", cls;
	auto fail = [&](const std::string &k, const std::string &w) { r.violation("mpt_parse_node|" + cls + "|" + k, desc + " [" + stage + "; " + cls + "; " + k + "]: " + w); };
	bool bad = false;
	for (int round = 0; round < 2 && !bad; ++round) {
		const std::string &txt = round ? tb : ta;
		const std::vector<PEnt> &ents = round ? B : A;
		stage = round ? "second-parse" : "first-parse";
		bool populated = root->children != 0;
		cls = populated ? (ents.empty() ? "populated-root,empty-text" : "merge-into-populated-root") : "empty-root";
		std::vector<MNode> before, want, incoming;
		{ std::set<const void *> s0; std::string k0, w0; pwalk(root, root->children, s0, before, k0, w0); }
		to_model(ents, incoming);
		if (!populated) want = incoming; else if (incoming.empty()) want = before; else { want = incoming; model_merge(before, want); }
		SrcText src = { &txt, 0 };
		mpt::parser_context ctx;
		ctx.src.getc = text_getc; ctx.src.arg = &src; ctx.src.line = 1;
		int ret = 0;
		r.hint("mpt_parse_node"); ++r.transitions;
		int sig = guarded([&] { ret = LIB(mpt::mpt_parse_node(root, &ctx, 0)); });
		if (sig) { fail(signame(sig), "the call faults"); bad = true; break; }
		if (asan_error()) { fail("asan", "memory error reported by AddressSanitizer (use after release / double release)"); bad = true; break; }
		if (ret < 0) { r.count("parse:refused(not flagged)"); break; }
		std::set<const void *> seen; std::vector<MNode> got;
		if (!pwalk(root, root->children, seen, got, kind, why)) { fail(kind, why); bad = true; break; }
		if (asan_error()) { fail("asan", "walking the result touches released memory"); bad = true; break; }
		if (mshow(got, true) != mshow(want, true)) { fail("wrong-structure", "tree is {" + mshow(got, false) + "}, merge of old and new entries gives {" + mshow(want, false) + "}"); bad = true; break; }
		r.count(populated ? (ents.empty() ? "parse:empty text into populated root" : "parse:merge into populated root") : "parse:into empty root");
		if (populated && !ents.empty()) r.count("nontrivial");
	}
	// teardown through the library; everything must be released exactly once
	if (!bad) {
		cls = "teardown"; stage = "clear";
		int sig = guarded([&] { LIB(mpt::mpt_node_clear(root)); });
		if (sig) fail(signame(sig), "mpt_node_clear of the parsed tree faults");
		else if (asan_error()) fail("asan", "clearing the parsed tree: memory error");
		else if (ledger_live() - lbase != 1) fail("not-released", fmt("%zu allocations survive mpt_node_clear of the root", ledger_live() - lbase - 1));
		else free(root);
	}
	asan_error();
}

// ------------------------------------------------------------------ clone values of library metatypes (stateless DFS)
// nodes carry text values made by mpt_meta_new (what the parser and mpt_node_append produce): small texts live in the
// "geninfo" metatype, texts of >= 250 bytes in a buffer metatype; the clone must report the very same bytes, length included
static bool same_values(const mpt::node *s, const mpt::node *c, const mpt::node *cparent, bool all, bool deep, int depth, std::string &kind, std::string &why)
{
	const mpt::node *cprev = 0;
	for (; s; s = all ? s->next : 0) {
		std::string where = fmt("depth %d, node '%s'", depth, mpt::mpt_node_ident(s) ? mpt::mpt_node_ident(s) : "");
		if (!c) { kind = "shape"; why = where + ": copy is missing"; return false; }
		if (c == s || !ledger_is_live(c)) { kind = "not-a-fresh-node"; why = where + ": copy is not a new node"; return false; }
		if (c->ident._len != s->ident._len || c->ident._charset != s->ident._charset || memcmp(mpt::mpt_identifier_data(&c->ident), mpt::mpt_identifier_data(&s->ident), s->ident._len)) { kind = "names"; why = where + ": name differs"; return false; }
		if (c->parent != cparent) { kind = "child-parent"; why = where + ": copy names a wrong parent"; return false; }
		if (c->prev != cprev) { kind = "sibling-links"; why = where + ": wrong prev link"; return false; }
		size_t ls = 0, lc = 0; const char *ds = mpt::mpt_node_data(s, &ls), *dc = mpt::mpt_node_data(c, &lc);
		if (!ds != !dc || ls != lc || (ds && memcmp(ds, dc, ls))) { kind = "values"; why = where + fmt(": source value has %zu bytes, copy has %zu bytes%s", ls, lc, ls == lc ? " with different content" : ""); return false; }
		const char *ts = mpt::mpt_node_data(s, 0), *tc = mpt::mpt_node_data(c, 0);
		if (!ts != !tc || (ts && strcmp(ts, tc))) { kind = "values"; why = where + ": text of the copy differs"; return false; }
		if (deep ? !same_values(s->children, c->children, c, true, true, depth + 1, kind, why) : c->children != 0) { if (kind.empty()) { kind = "shape"; why = where + ": shallow copy has children"; } return false; }
		cprev = c; c = c->next;
	}
	if (all && c) { kind = "shape"; why = "copy has more nodes than the source"; return false; }
	return true;
}
static void destroy_list(mpt::node *n)
{
	for (mpt::node *nx; n; n = nx) { nx = n->next; n->next = n->prev = n->parent = 0; if (nx) nx->prev = 0; mpt::mpt_node_destroy(n); }
}
// kind 0: mpt_meta_new(text) - NOTE: a binary that links mpt++ gets the C++ overrides of mpt_meta_new / mpt_meta_buffer /
//         mpt_node_new (metatype::basic up to 254 bytes, io::buffer::metatype above), this harness is such a binary;
// kind 1: the C "geninfo" metatype (mpt_meta_geninfo + _mpt_geninfo_set), cloned by mptcore/misc/geninfo_clone.c
static mpt::node *text_node(const char *name, size_t len, int salt, int kind)
{
	std::string txt(len, 'x'); for (size_t i = 0; i < len; ++i) txt[i] = (char) ('A' + (i + salt) % 26);
	struct iovec vec; vec.iov_base = (void *) txt.data(); vec.iov_len = len;
	mpt::value val; val._type = mpt::type_properties<mpt::span<const char> >::id(true); val._addr = &vec;
	mpt::metatype *mt;
	const char *none = 0; mpt::value sval; sval._type = 's'; sval._addr = &none;
	if (kind == 0) mt = mpt::mpt_meta_new(&val);
	else if (kind == 2) mt = mpt::mpt_meta_geninfo(len);        // text value that was never assigned ('s' conversion gives NULL)
	else if (kind == 3) mt = mpt::mpt_meta_new(&sval);           // string value without text
	else if ((mt = mpt::mpt_meta_geninfo(len)) && mpt::_mpt_geninfo_set(mt + 1, txt.data(), (int) len) < 0) { mt->unref(); mt = 0; }
	if (!mt) return 0;
	mpt::node *n = mpt::mpt_node_new(2);
	mpt::mpt_identifier_set(&n->ident, name, 1);
	n->_meta = mt;
	return n;
}
static void value_case(Run &r, Ctx &x)
{
	guard_install();
	static std::vector<size_t> lens;
	if (lens.empty()) {
		if (r.tier == Quick) { for (size_t l = 0; l <= 6; ++l) lens.push_back(l); for (size_t l : { 17, 100, 200, 244, 245, 246, 247, 248, 249, 250, 251, 252, 255, 256, 300 }) lens.push_back(l); }
		else for (size_t l = 0; l <= 320; ++l) lens.push_back(l);
	}
	size_t L = lens[x.choose(lens.size())];
	int shape = (int) x.choose(4), op = (int) x.choose(3), gens = 1 + (int) x.choose(2), kind = (int) x.choose(4);
	if (kind == 1 && L + 2 > 249) return;     // the C geninfo metatype holds at most 249 bytes of text
	if (kind >= 2 && L > 2) return;           // unset values: the length only is the reserved capacity
	static const char *shp[] = { "a", "a{b}", "a{b{c}}", "[a b{c}]" };
	static const char *opn[] = { "mpt_node_clone", "mpt_list_clone", "mpt_tree_clone" };
	static const char *kn[] = { "mpt_meta_new", "mpt_meta_geninfo", "mpt_meta_geninfo (text never assigned)", "mpt_meta_new (string value without text)" };
	std::string cls = kind >= 2 ? std::string(kind == 2 ? "geninfo,unset-text" : "meta_new,unset-text") : std::string(kind ? "geninfo," : "meta_new,") + (L == 0 ? "empty-text" : (L < 250 ? "small-text" : "large-text"));
	std::string desc = fmt("%s of %s whose values are texts of %zu.. bytes made by %s, %s", opn[op], shp[shape], L, kn[kind], gens == 1 ? "copy compared with source" : "copy of the copy compared with source");
	r.note("%s", desc.c_str());
	++r.states;
	static bool warm = false;
	if (!warm) { warm = true; mpt::node *w = text_node("w", 3, 0, 0), *w2 = text_node("w", 300, 0, 0), *w3 = text_node("w", 3, 0, 1); if (w3) { mpt::node *c = mpt::mpt_node_clone(w3); if (c) mpt::mpt_node_destroy(c); mpt::mpt_node_destroy(w3); } if (w) { mpt::node *c = mpt::mpt_node_clone(w); if (c) mpt::mpt_node_destroy(c); mpt::mpt_node_destroy(w); } if (w2) { mpt::node *c = mpt::mpt_node_clone(w2); if (c) mpt::mpt_node_destroy(c); mpt::mpt_node_destroy(w2); } }
	static unsigned ncase = 0;
	if (ledger_live() || (++ncase & 255) == 0) ledger_reset();
	asan_error();
	size_t lbase = ledger_live();
	auto fail = [&](const std::string &k, const std::string &w) { r.violation(std::string(opn[op]) + "|" + cls + "|" + k, desc + " [" + cls + "; " + k + "]: " + w); };
	mpt::node *a = 0, *b = 0, *c = 0;
	r.hint(opn[op]);
	int sig = guarded([&] {
		Lib l;
		a = text_node("a", L, 0, kind);
		if (shape >= 1) b = text_node("b", L + 1, 7, kind);
		if (shape >= 2) c = text_node("c", L + 2, 13, kind);
	});
	if (sig || !a || (shape >= 1 && !b) || (shape >= 2 && !c)) { r.count("value:creation refused (not flagged)"); { Lib l; if (a) mpt::mpt_node_destroy(a); if (b) mpt::mpt_node_destroy(b); if (c) mpt::mpt_node_destroy(c); } return; }
	{ Lib l;
	  if (shape == 1) mpt::mpt_gnode_insert(a, 0, b);
	  if (shape == 2) { mpt::mpt_gnode_insert(a, 0, b); mpt::mpt_gnode_insert(b, 0, c); }
	  if (shape == 3) { mpt::mpt_gnode_add(a, 0, b); mpt::mpt_gnode_insert(b, 0, c); } }
	std::vector<mpt::node *> copies; const mpt::node *from = a; bool bad = false;
	++r.transitions;
	for (int g = 0; g < gens && !bad; ++g) {
		mpt::node *cp = 0;
		sig = guarded([&] { cp = op == 0 ? LIB(mpt::mpt_node_clone(from)) : (op == 1 ? LIB(mpt::mpt_list_clone(from)) : LIB(mpt::mpt_tree_clone(from))); });
		if (sig) { fail(signame(sig), "the call faults"); bad = true; break; }
		if (asan_error()) { fail("asan", "memory error while cloning"); bad = true; break; }
		if (!cp) { fail("refused", "clone failed without an allocation failure"); bad = true; break; }
		copies.push_back(cp); from = cp;
	}
	if (!bad) {
		std::string kind, why;
		if (!same_values(a, copies.back(), 0, op == 1, op != 0, 0, kind, why)) { fail(kind, why); bad = true; }
		else if (asan_error()) { fail("asan", "memory error while reading the values"); bad = true; }
		else { r.count("value:" + cls + " clone compared byte-exact"); if (gens > 1) r.count("value:clone of clone"); if (shape >= 2 && op != 0) r.count("nontrivial"); }
	}
	sig = guarded([&] { Lib l; for (mpt::node *cp : copies) destroy_list(cp); destroy_list(a); });
	if (!bad) {
		if (sig) fail(signame(sig), "destroying source and copies faults");
		else if (asan_error()) fail("asan", "memory error while destroying source and copies");
		else if (ledger_live() != lbase) fail("not-released", fmt("%zu allocations survive the destruction of source and copies", ledger_live() - lbase));
	}
	asan_error();
}

// ------------------------------------------------------------------ jobs
// job "hist:<names>:<init>,<init>..:<depth>"   /   "parse"
static void multisets(int n, std::vector<std::string> &out, std::string cur = "", int from = 0)
{
	if ((int) cur.size() == n) { out.push_back(cur); return; }
	for (int c = from; c < 3; ++c) multisets(n, out, cur + NAMECH[c], c);
}
void mc_jobs(Tier t, std::vector<std::string> &jobs)
{
	// names "a" and "b" are interchangeable for the code: one job per multiset with #a >= #b
	auto canon_ms = [](const std::vector<std::string> &in) { std::vector<std::string> o; for (auto &s : in) if (std::count(s.begin(), s.end(), 'a') >= std::count(s.begin(), s.end(), 'b')) o.push_back(s); return o; };
	std::vector<std::string> m3, m4, m5;
	multisets(3, m3); multisets(4, m4); multisets(5, m5);
	m3 = canon_ms(m3); m4 = canon_ms(m4); m5 = canon_ms(m5);
	// hist: BFS over histories from hand-made start states (reaches every state of the 3- and 4-node pools);
	// snap: every state of the pool is a start state, every op instance is run from each (depth 1), dealt out in slices
	for (auto &s : m3) jobs.push_back("hist:" + s + ":0,1,2,3:" + (t == Quick ? "6" : "8"));
	for (auto &s : m4) jobs.push_back("hist:" + s + ":0,1,2,3,4,5,6:" + (t == Quick ? "4" : "7"));
	for (auto &s : m4) jobs.push_back("snap:" + s + ":0/1");
	// cxx: same snapshot exploration with pool nodes that are C++ mpt::node objects; adds ~node() at every position, set_metatype, operator=, scope end
	for (auto &s : m4) jobs.push_back("cxx:" + s + ":0/1");
	if (t == Thorough) for (const char *s : { "aab--", "aabb-", "ab---" }) for (int k = 0; k < 8; ++k) jobs.push_back(fmt("cxx:%s:%d/8", s, k));
	if (t == Quick) for (int k = 0; k < 16; ++k) jobs.push_back(fmt("snap:aab--:%d/16", k));
	else for (auto &s : m5) for (int k = 0; k < 8; ++k) jobs.push_back(fmt("snap:%s:%d/8", s.c_str(), k));
	jobs.push_back("values");
	for (int k = 0; k < 16; ++k) jobs.push_back(fmt("parse:%d/16", k));
}
static int setup(const std::string &job, std::vector<uint64_t> &inits)
{
	// hist:names:inits:depth   snap:names:slice/slices
	size_t p1 = job.find(':'), p2 = job.find(':', p1 + 1), p3 = job.find(':', p2 + 1);
	std::string names = job.substr(p1 + 1, p2 - p1 - 1), in = job.substr(p2 + 1, p3 == std::string::npos ? p3 : p3 - p2 - 1);
	g_N = (int) names.size();
	for (int i = 0; i < g_N; ++i) g_name[i] = names[i] == 'a' ? 0 : (names[i] == 'b' ? 1 : 2);
	g_cxx = job.compare(0, 4, "cxx:") == 0;
	build_ops();
	if (job.compare(0, 5, "snap:") == 0 || g_cxx) {
		build_table();
		size_t k = atoi(in.c_str()), n = atoi(in.c_str() + in.find('/') + 1);
		for (size_t i = k; i < g_table.size(); i += n) inits.push_back(SNAP + i);
		return 1;
	}
	for (size_t p = 0; p < in.size(); p += 2) inits.push_back(in[p] - '0');
	return atoi(job.c_str() + p3 + 1);
}
static const char *required[] = {
	"nontrivial", "insert:exact position checked", "insert:position free (only link invariants + membership)", "insert:first child", "insert:self reference ignored",
	"destroy:linked node (must be refused)", "destroy:subtree", "destroy:leaf", "clear:recursive",
	"tree_clone:depth>=2 below the cloned level", "list_clone:depth>=2 below the cloned level", "tree_clone:with children", "list_clone:with children",
	"move:leading-elements-moved", "move:children-reparented", "move:children-merged", "move:later-element-moved", "move:nothing-to-move",
	"move:root list, local head", "move:child list, separate local head", "move:child list, &parent->children", "move:child list, separate local head, first element moved",
	"dtor:root,first,leaf", "dtor:root,first,with-children", "dtor:root,middle,leaf", "dtor:root,last,leaf", "dtor:root,only,with-children", "dtor:child,first,leaf", "dtor:child,middle,leaf", "dtor:child,last,with-children", "dtor:child,only,leaf",
	"relink:restore below depth 1", "relink:restore with stale back links",
	"value:meta_new,small-text clone compared byte-exact", "value:meta_new,large-text clone compared byte-exact", "value:meta_new,empty-text clone compared byte-exact",
	"value:geninfo,small-text clone compared byte-exact", "value:geninfo,empty-text clone compared byte-exact", "value:clone of clone",
	"value:geninfo,unset-text clone compared byte-exact", "value:meta_new,unset-text clone compared byte-exact", "observer:traversals(4 orders x 3 filters per root list)",
	"parse:into empty root", "parse:merge into populated root" };
void mc_explore(Run &r, const std::string &job)
{
	for (const char *k : required) r.require(k);
	for (int k = 0; k < NK; ++k) if (k != COPY || g_copyable[0] || g_copyable[1]) r.require(std::string("op:") + kname[k]);
	if (!g_copyable[0] && !g_copyable[1]) r.count("cxx:mpt::node is not copyable (by-value copy refused at compile time)");
	if (job == "values") { dfs(r, [&](Ctx &x) { value_case(r, x); }); return; }
	if (job.compare(0, 6, "parse:") == 0) { int k = atoi(job.c_str() + 6), n = atoi(job.c_str() + job.find('/') + 1); dfs(r, [&](Ctx &x) { parse_case(r, x, k, n); }); return; }
	std::vector<uint64_t> inits;
	int depth = setup(job, inits);
	struct timespec t0, t1; clock_gettime(CLOCK_MONOTONIC, &t0);
	bfs_histories<HSys>(r, inits, depth);
	clock_gettime(CLOCK_MONOTONIC, &t1); if (getenv("C14_TIME")) fprintf(stderr, "TIME %s table=%zu inits=%zu %.1f s, %llu transitions\n", job.c_str(), g_table.size(), inits.size(), (t1.tv_sec - t0.tv_sec) + 1e-9 * (t1.tv_nsec - t0.tv_nsec), (unsigned long long) r.transitions);
}
void mc_replay(Run &r, const std::string &job, const Vec &v)
{
	if (job == "values") { dfs_replay(r, [&](Ctx &x) { value_case(r, x); }, v); return; }
	if (job.compare(0, 6, "parse:") == 0) { int k = atoi(job.c_str() + 6), n = atoi(job.c_str() + job.find('/') + 1); dfs_replay(r, [&](Ctx &x) { parse_case(r, x, k, n); }, v); return; }
	std::vector<uint64_t> inits;
	setup(job, inits);
	bfs_replay<HSys>(r, v);
}

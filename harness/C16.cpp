// C16 — names are stored and compared faithfully at every length.
// Two identifiers A (under test) and B (the other side of copies) live in real
// storages of every kind the library hands out (embedded 16-byte struct,
// mpt_identifier_new size classes, mpt_node_new nodes, C++ identifier /
// item<T> / node::create, traits-initialised).  Every pair of canonical
// pre-states (A content, B content) is an initial state; every operation
// instance of the alphabet is executed on the real code from each, compared
// with a (charset, byte string) reference, and the observable state (header,
// data, all comparison entry points, allocation ledger, ASan) is re-read after
// every step.  Post-states whose raw storage image differs from every initial
// state (stale inline bytes after copy, non-text content, ...) are expanded
// again with the full alphabet.
#include <cerrno>
#include <cstdlib>
#include <csignal>
#include <algorithm>
#include "core.h"
#include "types.h"
#include "meta.h"
#include "node.h"
#include "convert.h"
#include <sys/uio.h>
#include <sys/mman.h>
#include <climits>
#include "mc.hpp"

// The C constructor mptcore/node/node_new.c cannot be reached by name: libmpt++ defines mpt_node_new() as well
// (mpt++/node_new.cpp forwards to node::create) and wins at link time.  The source file itself is compiled into the
// harness under another name (its headers are already included above; only the implicit void* conversion of C needs help).
namespace mpt {
#define mpt_node_new mpt_node_new_csource
#define malloc(n) ((MPT_STRUCT(node) *) (malloc)(n))
#include "node/node_new.c"
#undef malloc
#undef mpt_node_new
}

using namespace mc;
const char *mc_id = "C16";
const char *mc_rule = "snapshot exploration per storage pair (A,B): all (content A, content B) pre-states over boundary lengths (0,1,3,4,5 | pointer overlay 8,11,12 | cap-1,cap,cap+1 of both storages | 253, 300, 65534) "
                      "x all op instances on the real code (set, set(strlen), set(embedded NUL), set(NULL,n), over-long, copy A<-B / B<-A / A<-A / A<-NULL, operator=, set to own data, traits / C++ copy construction) vs a (charset, byte string) model; "
                      "post-states whose raw storage image is not an initial state are expanded with the full alphabet again; "
                      "list jobs: sibling lists of 1..3 named nodes x every key x start x position of mpt_node_locate / mpt_node_find / mpt_node_next vs a positional model; "
                      "nontrivial = executed cases whose last operation moves the destination between unset/inline and external storage or replaces an external block, plus (list jobs) key/name pairs where a longer name continues with a zero byte at the key length";

// ------------------------------------------------------------------ fault containment
// free() of something that is not a live heap block is fatal for ASan, and its symptom (report, SIGSEGV inside the
// allocator, silent release of a foreign block with arbitrary later damage) depends on heap addresses.  The free hook
// below runs before the allocator looks at the pointer: inside a library call only blocks that were allocated inside
// a library call may be released; anything else (wild or double free) is turned into one deterministic harness-level
// report by leaving the call.  Direct faults of a library call (NULL source handed to memcpy, ...) are contained the
// same way, so that one defect does not cost one worker process per case.
extern "C" int __sanitizer_install_malloc_and_free_hooks(void (*)(const volatile void *, size_t), void (*)(const volatile void *));
static sigjmp_buf guard_jmp;
static volatile int guard_armed = 0;
static struct sigaction old_segv, old_bus;
static const volatile void *libblk[256]; static int nlibblk = 0;
static void guard_malloc(const volatile void *p, size_t)
{
	if (mc::lib_depth > 0 && p && nlibblk < 256) libblk[nlibblk++] = p;
}
static void guard_free(const volatile void *p)
{
	if (!p) return;
	for (int i = nlibblk; i-- > 0;) if (libblk[i] == p) { libblk[i] = libblk[--nlibblk]; return; }
	if (guard_armed && mc::lib_depth > 0) { guard_armed = 0; siglongjmp(guard_jmp, 1000); }
}
static void guard_sig(int sig)
{
	if (guard_armed && mc::lib_depth > 0) { guard_armed = 0; siglongjmp(guard_jmp, sig); }
	struct sigaction &o = sig == SIGBUS ? old_bus : old_segv;
	if (o.sa_handler && o.sa_handler != SIG_DFL && o.sa_handler != SIG_IGN) o.sa_handler(sig);
	else { signal(sig, SIG_DFL); raise(sig); }
}
static void guard_install()
{
	static bool done = false;
	if (done) return;
	done = true;
	__sanitizer_install_malloc_and_free_hooks(guard_malloc, guard_free);
	struct sigaction sa; memset(&sa, 0, sizeof sa);
	sa.sa_handler = guard_sig; sa.sa_flags = SA_ONSTACK | SA_NODEFER;
	sigaction(SIGSEGV, &sa, &old_segv);
	sigaction(SIGBUS, &sa, &old_bus);
}
// run fn (library calls + observation) contained: "" / "group\tdetail"
template <class F> static std::string guarded(F fn)
{
	int depth = mc::lib_depth;
	int sig = sigsetjmp(guard_jmp, 0);
	if (sig == 0) { guard_armed = 1; std::string res = fn(); guard_armed = 0; return res; }
	guard_armed = 0; mc::lib_depth = depth;
	if (sig == 1000) return "memory\tthe library call handed free() a pointer that is not a live library allocation (wild or double free)";
	return std::string("memory\tthe library call faulted (") + (sig == SIGBUS ? "SIGBUS" : "SIGSEGV") + ")";
}

// ------------------------------------------------------------------ storages
enum Kind { EMB16, NEW32, NEW64, NEW128, NEW256, NODE64, NODE128, NODE256, CXX16, ITEM32, CXXNODE, TRAITS, CXXNODE16, ITEMCOPY, NKINDS };
static const char *kname[] = { "emb16", "new32", "new64", "new128", "new256", "node64", "node128", "node256", "cxx16", "item32", "cxxnode", "traits", "cxxnode16", "itemcopy" };
static int kind_of(const std::string &n) { for (int k = 0; k < NKINDS; ++k) if (n == kname[k]) return k; return -1; }

struct H {
	int kind; void *obj; mpt::identifier *id; mpt::node *node; size_t cap;
	H() : kind(-1), obj(0), id(0), node(0), cap(0) {}
};
static bool make(H &h, int kind)
{
	h.kind = kind; h.obj = 0; h.id = 0; h.node = 0;
	switch (kind) {
	case EMB16: h.obj = malloc(sizeof(mpt::identifier)); h.id = (mpt::identifier *) h.obj; LIB((mpt::mpt_identifier_init(h.id, sizeof(mpt::identifier)), 0)); break;
	case NEW32: case NEW64: case NEW128: case NEW256: {
		static const size_t req[] = { 28, 60, 124, 252 };
		h.id = LIB(mpt::mpt_identifier_new(req[kind - NEW32])); h.obj = h.id; break; }
	case NODE64: case NODE128: case NODE256: {
		static const size_t req[] = { 0, 88, 216 };
		h.node = LIB(mpt::mpt_node_new_csource(req[kind - NODE64])); h.obj = h.node; if (h.node) h.id = &h.node->ident; break; }
	case CXXNODE16: h.node = LIB(mpt::mpt_node_new(0)); h.obj = h.node; if (h.node) h.id = &h.node->ident; break;    // as linked: mpt++ override -> node::create(0)
	case CXX16: h.id = LIB(new mpt::identifier()); h.obj = h.id; break;
	case ITEM32: { mpt::item<mpt::metatype> *it = LIB(new mpt::item<mpt::metatype>()); h.obj = it; h.id = it; break; }
	case ITEMCOPY: {
		// item<T> produced by the (implicit or user-defined) item copy constructor from an item that held a 19 character
		// name; the name is cleared again, so the result is an unset item with whatever capacity / tail bytes the copy left
		typedef mpt::item<mpt::metatype> item_t;
		item_t *src = LIB(new item_t());
		LIB(src->set_name("ABCDEFGHIJKLMNOPQRS", 19));
		item_t *it = LIB(new item_t(*src));
		LIB((delete src, 0));
		LIB(it->set_name(0, 0));
		h.obj = it; h.id = it; break; }
	case CXXNODE: h.node = LIB(mpt::node::create((size_t) 40)); h.obj = h.node; if (h.node) h.id = &h.node->ident; break;
	case TRAITS: {
		const mpt::type_traits *t = mpt::mpt_identifier_traits();
		h.obj = malloc(t->size); h.id = (mpt::identifier *) h.obj;
		int rc = LIB(t->init(h.obj, 0));
		if (rc < 0) return false;
		break; }
	}
	if (!h.id) return false;
	h.cap = h.id->_max;
	return true;
}
static void destroy(H &h)
{
	if (!h.obj) return;
	switch (h.kind) {
	case EMB16: case NEW32: case NEW64: case NEW128: case NEW256:
		LIB(mpt::mpt_identifier_set(h.id, 0, 0)); free(h.obj); break;           // as the `ident` example does
	case NODE64: case NODE128: case NODE256: case CXXNODE16: LIB(mpt::mpt_node_destroy(h.node)); break;
	case CXX16: LIB((delete h.id, 0)); break;
	case ITEM32: case ITEMCOPY: LIB((delete (mpt::item<mpt::metatype> *) h.obj, 0)); break;
	case CXXNODE: LIB((h.node->~node(), 0)); free(h.obj); break;
	case TRAITS: LIB((mpt::mpt_identifier_traits()->fini(h.obj), 0)); free(h.obj); break;
	}
	h.obj = 0; h.id = 0; h.node = 0;
}

// ------------------------------------------------------------------ contents
static const int UTF8 = 1;   // MPT_CHARSET(UTF8)
// families of byte strings: P(len) prefix-closed pattern, Q(len) = P with another last byte, N(len) = P with an
// embedded NUL, Z(n) = n zero bytes (what set(NULL,n) stores).  Stored bytes of a text = text + NUL.
enum Fam { FP, FQ, FN, FZ };
struct Bytes { std::string stored; char *arg; size_t arglen; Bytes() : arg(0), arglen(0) {} };   // arg: exactly sized malloc'd copy of the text (plus NUL for the strlen form)
static std::map<std::pair<int, size_t>, Bytes> &pool() { static std::map<std::pair<int, size_t>, Bytes> p; return p; }
static const Bytes &bytes(int fam, size_t len)
{
	std::pair<int, size_t> k(fam, len);
	auto it = pool().find(k);
	if (it != pool().end()) return it->second;
	Bytes &b = pool()[k];
	if (fam == FZ) b.stored.assign(len, 0);
	else {
		b.stored.resize(len + 1);
		for (size_t i = 0; i < len; ++i) b.stored[i] = (char) (1 + (i * 31 + 7) % 253);    // 1..253
		if (fam == FQ && len) b.stored[len - 1] = (char) 0xFE;
		if (fam == FN && len) b.stored[len / 2] = 0;
		b.stored[len] = 0;
		b.arglen = len;
		b.arg = (char *) malloc(len ? len : 1); memcpy(b.arg, b.stored.data(), len);
	}
	return b;
}
static const std::string empty_bytes;
struct M {
	int cs; const std::string *b; int cid;     // cid: index into the job's contents table when the content is one of them
	M() : cs(0), b(&empty_bytes), cid(0) {}
	size_t size() const { return b->size(); }
	bool operator==(const M &o) const { return cs == o.cs && (b == o.b || *b == *o.b); }
};
struct Content { bool unset; size_t len; int fam; };

enum OpT { SET, SETZ, SETNUL, SETOVER, SETNULL, COPY_AB, COPY_BA, COPY_AA, COPY_ANULL, ASSIGN_AB, SELF, CLONE_TRAITS, CLONE_CXX, ASSIGN_AA, CTOR_BACK, SETNAME_OWN, ITEM_ASSIGN, ITEM_MOVE, ITEM_CTOR };
static const char *opname[] = { "set", "set(strlen)", "set(embedded NUL)", "set(over-long)", "set(NULL,n)", "copy", "copy", "copy(self)", "copy(NULL)", "operator=", "set(own data)", "traits-init(copy)", "copy-constructor", "operator=(self)", "copy-construct+assign back", "set_name(own name)", "item::operator=(item)", "item::operator=(item&&)", "item copy-constructor" };
struct OpInst { int t; long a; };

struct Alphabet {
	std::vector<Content> contents;     // [0] = unset
	std::vector<OpInst> ops;
	std::vector<uint64_t> knownA, knownB;    // per content: image (header + inline bytes) of the initial state
	int find(int fam, size_t len) const { for (size_t i = 1; i < contents.size(); ++i) if (contents[i].fam == fam && contents[i].len == len) return (int) i; return -1; }
};
static M model_of(const Alphabet &al, int cid)
{
	M m; m.cid = cid;
	if (cid > 0) { m.cs = UTF8; m.b = &bytes(al.contents[cid].fam, al.contents[cid].len).stored; }
	return m;
}

static void add(std::vector<size_t> &v, long x) { if (x >= 0 && x <= 65534 && std::find(v.begin(), v.end(), (size_t) x) == v.end()) v.push_back((size_t) x); }
static bool is_item(int k) { return k == ITEM32 || k == ITEMCOPY; }
static void build_alphabet(Tier t, size_t capA, size_t capB, Alphabet &al, int ka = -1, int kb = -1)
{
	std::vector<size_t> L;
	for (long x : {0, 1, 3, 4, 5, 8, 11, 12}) add(L, x);
	for (size_t c : {capA, capB}) { add(L, (long) c - 1); add(L, (long) c); add(L, (long) c + 1); }   // a text of cap-1 bytes (+NUL) is the last inline one
	add(L, 253); add(L, 300); add(L, 65534);
	if (t == Thorough) {
		for (long x : {7, 10, 4080, 65533}) add(L, x);
		for (size_t c : {capA, capB}) add(L, (long) c - 2);
	}
	std::sort(L.begin(), L.end());
	al.contents.clear(); al.ops.clear();
	al.contents.push_back(Content{true, 0, FP});
	for (size_t l : L) al.contents.push_back(Content{false, l, FP});
	std::vector<size_t> Q;
	for (long x : {1L, 5L, (long) capA, 65534L}) add(Q, x);
	if (t == Thorough) { add(Q, (long) capA - 1); add(Q, 12); }
	for (size_t l : Q) al.contents.push_back(Content{false, l, FQ});
	for (size_t i = 1; i < al.contents.size(); ++i) al.ops.push_back(OpInst{SET, (long) i});
	for (long l : {0L, (long) capA - 1, 65534L}) al.ops.push_back(OpInst{SETZ, l});
	if (t == Thorough) for (long l : {(long) capA, 300L}) al.ops.push_back(OpInst{SETZ, l});
	for (long l : {3L, (long) capA + 1}) al.ops.push_back(OpInst{SETNUL, l});
	if (t == Thorough) al.ops.push_back(OpInst{SETNUL, (long) capA - 1});
	for (int form = 0; form < 4; ++form) al.ops.push_back(OpInst{SETOVER, form});
	{ std::vector<long> N = {0, 1, 5, (long) capA, (long) capA + 1, 65535, 65536};
	  if (t == Thorough) { N.push_back(4); N.push_back((long) capA - 1); N.push_back(300); }
	  for (long n : N) al.ops.push_back(OpInst{SETNULL, n}); }
	for (int o : {COPY_AB, COPY_BA, COPY_AA, COPY_ANULL, ASSIGN_AB}) al.ops.push_back(OpInst{o, 0});
	for (int mode = 0; mode < 3; ++mode) al.ops.push_back(OpInst{SELF, mode});
	al.ops.push_back(OpInst{CLONE_TRAITS, 0});
	al.ops.push_back(OpInst{CLONE_CXX, 0});
	// C++ self references: a = a through a reference (item<T>: its own identifier base), T(a); a = T, set_name(name())
	al.ops.push_back(OpInst{ASSIGN_AA, 0});
	al.ops.push_back(OpInst{CTOR_BACK, 0});
	for (int form = 0; form < 2; ++form) al.ops.push_back(OpInst{SETNAME_OWN, form});
	// new name = a suffix of the identifier's own content (source overlaps the inline bytes)
	for (int mode = 3; mode < 5; ++mode) al.ops.push_back(OpInst{SELF, mode});
	// whole-object copies of item<T> (identifier base + trailing _post[] bytes)
	if (is_item(ka)) al.ops.push_back(OpInst{ITEM_CTOR, 0});
	if (is_item(ka) && is_item(kb)) { al.ops.push_back(OpInst{ITEM_ASSIGN, 0}); al.ops.push_back(OpInst{ITEM_MOVE, 0}); }
}

// ------------------------------------------------------------------ observation helpers
static const char *stclass(size_t n, size_t cap) { return n == 0 ? "unset" : (n <= cap ? "inline" : "ext"); }
static const char *lencls(size_t n, size_t cap) { return n == 0 ? "len=0" : (n <= 4 ? "len<=4" : (n <= cap ? "len<=cap" : "len>cap")); }

static uint64_t fasthash(const void *p, size_t n)
{
	const uint8_t *b = (const uint8_t *) p; uint64_t h = 0x9e3779b97f4a7c15ULL ^ n;
	while (n >= 8) { uint64_t w; memcpy(&w, b, 8); h = (h ^ w) * 0xff51afd7ed558ccdULL; h ^= h >> 29; b += 8; n -= 8; }
	uint64_t w = 0; memcpy(&w, b, n); h = (h ^ w) * 0xc4ceb9fe1a85ec53ULL; h ^= h >> 32;
	return h;
}
// image of the identifier storage: header + all inline bytes, the bytes holding the address of an external block masked.
// (external content is compared with the model byte by byte by light())
static uint64_t image(const mpt::identifier *id)
{
	uint8_t buf[4 + 256];
	size_t n = 4 + (size_t) id->_max;
	memcpy(buf, id, n);
	if (id->_len > id->_max) for (size_t i = 8; i < 16 && i < n; ++i) buf[i] = 'P';
	return fasthash(buf, n);
}
static std::string imgdesc(const mpt::identifier *id)
{
	std::string s = fmt("len=%u charset=%u max=%u inline=", (unsigned) id->_len, (unsigned) id->_charset, (unsigned) id->_max);
	bool ext = id->_len > id->_max;
	for (size_t i = 0; i < id->_max && i < 32; ++i) s += (ext && i >= 4 && i < 12) ? std::string("PP") : hex(id->_val + i, 1);
	return s;
}

enum Cnt { C_CMP_EQ, C_CMP_NE, C_CMP_NONTEXT, C_CMP_NODE, C_INEQ_EQ, C_INEQ_NE, C_SETNAME, C_REFUSED, C_OWN, C_CLONE_T, C_CLONE_X, C_SELFCXX, C_ITEM, C_LONGEST, C_NOT_ENABLED, C_NEW_BOUND, C_EXPANDED, C_NCNT };
static const char *cntname[] = { "compare:equal", "compare:unequal", "compare:nontext", "compare:node_locate", "inequal:equal", "inequal:different", "via identifier::set_name", "refused:over-long",
                                 "set:own data", "clone:traits", "clone:c++", "c++ self assignment / own name", "item<T> whole-object copy", "path stored the longest permitted content (65535 bytes)", "op not enabled in this state",
                                 "new states at the depth bound (not expanded)", "states beyond the initial ones (expanded)" };
struct Tally {
	uint64_t c[C_NCNT]; uint64_t path[2][3][3];
	Tally() { memset(c, 0, sizeof c); memset(path, 0, sizeof path); }
	void flush(Run &r)
	{
		static const char *cl[] = { "unset", "inline", "ext" };
		for (int i = 0; i < C_NCNT; ++i) if (c[i]) r.count(cntname[i], c[i]);
		for (int f = 0; f < 2; ++f) for (int a = 0; a < 3; ++a) for (int b = 0; b < 3; ++b) if (path[f][a][b]) r.count(std::string("path ") + (f ? "copy:" : "set:") + cl[a] + "->" + cl[b], path[f][a][b]);
		memset(c, 0, sizeof c); memset(path, 0, sizeof path);
	}
};
static int clsidx(size_t n, size_t cap) { return n == 0 ? 0 : (n <= cap ? 1 : 2); }

struct Sys {
	H a, b; M ma, mb; size_t base; size_t l0;
	Tally *tally;
	Sys(Tally *t) : base(0), l0(0), tally(t) {}
	bool init(int ka, int kb) { l0 = ledger_live(); bool ok = make(a, ka) && make(b, kb); base = ledger_live() - l0; return ok; }
	void fini() { destroy(a); destroy(b); }

	// memory oracle: no sanitizer report, exactly the expected number of live library blocks
	std::string memcheck(size_t extra = 0)
	{
		if (asan_error()) return "memory\tAddressSanitizer reported an invalid memory access";
		size_t want = l0 + base + extra + (ma.size() > a.cap) + (mb.size() > b.cap);
		size_t live = ledger_live();
		if (live != want) return fmt("memory\t%zu library allocations live, expected %zu (%s)", live - l0, want - l0, live > want ? "leak" : "a block that is still needed was released");
		return "";
	}
	// header + data read back byte-exact
	std::string light(const H &h, const M &m, const char *who)
	{
		const mpt::identifier *id = h.id;
		if (id->_max != h.cap) return fmt("content\t%s: capacity field changed from %zu to %u", who, h.cap, (unsigned) id->_max);
		if (id->_len != m.size()) return fmt("content\t%s: stored length %u, expected %zu", who, (unsigned) id->_len, m.size());
		if (id->_charset != m.cs) return fmt("content\t%s: charset %u, expected %d", who, (unsigned) id->_charset, m.cs);
		const char *data = (const char *) LIB(mpt::mpt_identifier_data(id));
		if (m.size() <= h.cap) { if (data != id->_val) return fmt("memory\t%s: short content is not reported at the inline bytes", who); }
		else if (!data || !ledger_is_live(data)) return fmt("memory\t%s: long content pointer is not a live allocation", who);
		if (m.size() && memcmp(data, m.b->data(), m.size())) {
			size_t i = 0; while (data[i] == (*m.b)[i]) ++i;
			return fmt("content\t%s: content differs from what was stored at byte %zu of %zu (got %02x, expected %02x)", who, i, m.size(), (unsigned) (uint8_t) data[i], (unsigned) (uint8_t) (*m.b)[i]);
		}
		if (asan_error()) return fmt("memory\t%s: reading the content back touches invalid memory (AddressSanitizer)", who);
		return "";
	}
	// every comparison entry point against the model
	std::string compares(const H &h, const M &m, const char *who0)
	{
		std::string whos = std::string(m.cs == UTF8 ? "text " : "non-text ") + stclass(m.size(), h.cap) + ": " + who0;
		const char *who = whos.c_str();
		const mpt::identifier *id = h.id;
		const char *data = (const char *) mpt::mpt_identifier_data(id);
		if (m.cs == UTF8) {
			size_t len = m.size() - 1;
			// exactly sized argument buffers
			char *s = (char *) malloc(len + 2); memcpy(s, m.b->data(), len + 1); s[len + 1] = 0;
			char *ex = (char *) malloc(len ? len : 1); memcpy(ex, m.b->data(), len);
			std::string bad;
			int c;
			if ((c = LIB(mpt::mpt_identifier_compare(id, ex, (int) len))) != 0) bad = fmt("compare\t%s: compare with the stored text (len %zu) returns %d", who, len, c);
			else if (!memchr(s, 0, len) && (c = LIB(mpt::mpt_identifier_compare(id, s, -1))) != 0) bad = fmt("compare\t%s: compare(text,-1) with the stored text returns %d", who, c);
			else if (!LIB(id->equal(ex, (int) len))) bad = fmt("compare\t%s: identifier::equal is false for the stored text", who);
			else if (LIB(id->name()) != data) bad = fmt("compare\t%s: identifier::name() is not the stored text", who);
			++tally->c[C_CMP_EQ];
			if (bad.empty() && len) {
				ex[len - 1] ^= 0x40;
				if (LIB(mpt::mpt_identifier_compare(id, ex, (int) len)) == 0) bad = fmt("compare\t%s: text differing in the last byte compares equal (len %zu)", who, len);
				ex[len - 1] ^= 0x40; ex[0] ^= 0x40;
				if (bad.empty() && LIB(mpt::mpt_identifier_compare(id, ex, (int) len)) == 0) bad = fmt("compare\t%s: text differing in the first byte compares equal (len %zu)", who, len);
				if (bad.empty() && LIB(id->equal(ex, (int) len))) bad = fmt("compare\t%s: identifier::equal is true for different text", who);
				ex[0] ^= 0x40;
				if (bad.empty() && LIB(mpt::mpt_identifier_compare(id, ex, (int) len - 1)) == 0) bad = fmt("compare\t%s: proper prefix compares equal (len %zu)", who, len);
				tally->c[C_CMP_NE] += 3;
			}
			if (bad.empty()) {
				s[len] = 'x';    // one byte longer
				if (LIB(mpt::mpt_identifier_compare(id, s, (int) len + 1)) == 0) bad = fmt("compare\t%s: longer text compares equal (len %zu)", who, len);
				s[len] = 0;
				++tally->c[C_CMP_NE];
			}
			if (bad.empty() && h.node) {
				const char *ni = LIB(mpt::mpt_node_ident(h.node));
				if (ni != data) bad = fmt("compare\t%s: mpt_node_ident does not report the stored text", who);
				else if (LIB(mpt::mpt_node_locate(h.node, 1, ex, len, -1)) != h.node) bad = fmt("compare\t%s: mpt_node_locate does not find the node by its stored name (len %zu)", who, len);
				else if (len) {
					ex[len - 1] ^= 0x40;
					if (LIB(mpt::mpt_node_locate(h.node, 1, ex, len, -1)) != 0) bad = fmt("compare\t%s: mpt_node_locate matches a name differing in the last byte", who);
					ex[len - 1] ^= 0x40;
					if (bad.empty() && LIB(mpt::mpt_node_locate(h.node, 1, ex, len - 1, -1)) != 0) bad = fmt("compare\t%s: mpt_node_locate matches a proper prefix", who);
				}
				++tally->c[C_CMP_NODE];
			}
			free(s); free(ex);
			if (!bad.empty()) return bad;
		} else {
			// not text: no text compares equal, name() is not offered
			char one[1] = { 0 };
			if (LIB(mpt::mpt_identifier_compare(id, one, 0)) == 0 && m.size()) return fmt("compare\t%s: non-text content compares equal to the empty text", who);
			if (LIB(id->name()) != 0) return fmt("compare\t%s: identifier::name() offered for non-text content", who);
			++tally->c[C_CMP_NONTEXT];
		}
		if (LIB(mpt::mpt_identifier_inequal(id, id)) != 0) return fmt("compare\t%s: inequal(x,x) != 0", who);
		if (asan_error()) return fmt("compare\t%s: a comparison reads outside its arguments (AddressSanitizer)", who);
		return "";
	}
	std::string pair_compare(const H &x, const M &mx, const H &y, const M &my, const char *who)
	{
		bool eq = mx == my;
		int d1 = LIB(mpt::mpt_identifier_inequal(x.id, y.id)), d2 = LIB(mpt::mpt_identifier_inequal(y.id, x.id));
		if ((d1 == 0) != eq || (d2 == 0) != eq) return fmt("compare\tinequal %s/%s: inequal(%s)=%d, reversed=%d but the contents are %s", stclass(mx.size(), x.cap), stclass(my.size(), y.cap), who, d1, d2, eq ? "equal" : "different");
		++tally->c[eq ? C_INEQ_EQ : C_INEQ_NE];
		return "";
	}
	// complete observation of the current state (comparison sweep only for the identifiers named)
	std::string full(bool sweepA = true, bool sweepB = true)
	{
		std::string e = memcheck(); if (!e.empty()) return e;
		e = light(a, ma, "A"); if (!e.empty()) return e;
		e = light(b, mb, "B"); if (!e.empty()) return e;
		if (sweepA) { e = compares(a, ma, "A"); if (!e.empty()) return e; }
		if (sweepB) { e = compares(b, mb, "B"); if (!e.empty()) return e; }
		return (sweepA || sweepB) ? pair_compare(a, ma, b, mb, "A,B") : std::string();
	}

	// classification of an op instance in the current state: "opname|pre->post|argclass"
	std::string classify(const Alphabet &al, const OpInst &op) const
	{
		const char *pre = stclass(ma.size(), a.cap);
		size_t n = 0, cap = a.cap; bool refuse = false;
		switch (op.t) {
		case SET: n = al.contents[op.a].len + 1; break;
		case SETZ: case SETNUL: n = op.a + 1; break;
		case SETOVER: refuse = true; break;
		case SETNULL: n = op.a; refuse = op.a > 65535; break;
		case COPY_AB: case ASSIGN_AB: case ITEM_ASSIGN: case ITEM_MOVE: n = mb.size(); break;
		case COPY_BA: n = ma.size(); pre = stclass(mb.size(), b.cap); cap = b.cap; break;
		case COPY_AA: case ASSIGN_AA: case CTOR_BACK: n = ma.size(); break;
		case SETNAME_OWN: n = ma.size() ? (op.a ? ma.size() : strlen(ma.b->c_str()) + 1) : 0; break;
		case COPY_ANULL: n = 0; break;
		case SELF: n = ma.size() ? (op.a == 0 ? ma.size() - 1 : (op.a == 1 ? 2 : (op.a == 2 ? ma.size() : (op.a == 3 ? ma.size() - 1 : strlen(ma.b->c_str() + 4) + 1)))) : 0; break;
		case CLONE_TRAITS: case CLONE_CXX: case ITEM_CTOR: n = ma.size(); pre = "fresh16"; cap = 12; break;
		}
		const char *post = refuse ? "refused" : stclass(n, cap);
		return std::string(opname[op.t]) + "|" + pre + "->" + post + "|" + (refuse ? "over-long" : lencls(n, cap));
	}

	void set_model(const Alphabet &al, M &m, int cs, int fam, size_t len)
	{
		m.cs = cs; m.b = &bytes(fam, len).stored;
		m.cid = fam == FZ ? (len ? -1 : 0) : al.find(fam, len);
		if (fam == FZ && !len) m.b = &empty_bytes;
	}
	// execute one op instance on implementation + model, memory oracle, bystanders untouched, destination read back
	std::string apply(const Alphabet &al, const OpInst &op)
	{
		asan_error();
		std::string e;
		bool destA = true, destB = false;
		uint64_t imgA = 0, imgB = 0;
		if (op.t == COPY_BA) { destA = false; destB = true; }
		if (op.t == COPY_AA || op.t == ASSIGN_AA || op.t == CLONE_TRAITS || op.t == CLONE_CXX || op.t == ITEM_CTOR) destA = false;
		if (!destA) imgA = image(a.id);
		if (!destB) imgB = image(b.id);
		switch (op.t) {
		case SET: case SETZ: case SETNUL: case SETOVER: {
			int fam = FP; size_t tl; int len; bool permitted = true;
			if (op.t == SET) { fam = al.contents[op.a].fam; tl = al.contents[op.a].len; len = (int) tl; }
			else if (op.t == SETZ) { tl = op.a; len = -1; }
			else if (op.t == SETNUL) { fam = FN; tl = op.a; len = (int) tl; }
			else { permitted = false; tl = op.a == 2 ? 70000 : 65535; len = op.a == 1 ? -1 : (int) tl; }
			const Bytes &bt = bytes(fam, tl);
			void *ret;
			const char *arg = bt.arg;
			char *tmp = 0;
			if (len < 0) { tmp = (char *) malloc(tl + 1); memcpy(tmp, bt.stored.data(), tl + 1); arg = tmp; }      // strlen form needs the terminator
			if (op.t == SETOVER && op.a == 3) { ret = LIB(mpt::mpt_identifier_set(a.id, 0, -1)); }     // negative length without text
			else if ((a.kind >= CXX16 && a.kind <= ITEM32) || a.kind == ITEMCOPY) { bool okc = LIB(a.id->set_name(arg, len)); ret = okc ? (void *) a.id : 0; ++tally->c[C_SETNAME]; }
			else ret = LIB(mpt::mpt_identifier_set(a.id, arg, len));
			free(tmp);
			if (permitted) {
				if (!ret) e = "refused\ta text of permitted length was refused";
				else set_model(al, ma, UTF8, fam, tl);
			} else {
				if (ret) e = "accepted\tover-long / negative length was not refused";
				++tally->c[C_REFUSED];
			}
			break; }
		case SETNULL: {
			void *ret = LIB(mpt::mpt_identifier_set(a.id, 0, (int) op.a));
			if (op.a <= 65535) {
				if (!ret) e = "refused\tset(NULL,n) with a permitted length was refused";
				else set_model(al, ma, 0, FZ, (size_t) op.a);
			} else { if (ret) e = "accepted\tover-long non-text length was not refused"; ++tally->c[C_REFUSED]; }
			break; }
		case COPY_AB: case ASSIGN_AB: {
			void *ret;
			if (op.t == COPY_AB) ret = LIB(mpt::mpt_identifier_copy(a.id, b.id));
			else { LIB((*a.id = *b.id, 0)); ret = a.id; }
			if (!ret) e = "refused\tcopy failed";
			else ma = mb;
			break; }
		case COPY_BA: {
			void *ret = LIB(mpt::mpt_identifier_copy(b.id, a.id));
			if (!ret) e = "refused\tcopy failed";
			else mb = ma;
			break; }
		case COPY_AA: {
			void *ret = LIB(mpt::mpt_identifier_copy(a.id, a.id));
			if (!ret) e = "refused\tself copy failed";
			break; }
		case COPY_ANULL: {
			void *ret = LIB(mpt::mpt_identifier_copy(a.id, 0));
			if (!ret) e = "refused\tcopy(NULL) failed";
			else ma = M();
			break; }
		case SELF: if (op.a >= 3) {
			// suffix of the own content: k = 1 with explicit length, k = 4 in the strlen form
			size_t len = ma.size() - 1, k = op.a == 3 ? 1 : 4;
			const char *own = (const char *) LIB(mpt::mpt_identifier_data(a.id));
			size_t nl = op.a == 3 ? len - k : strlen(ma.b->c_str() + k);
			std::string want(*ma.b, k, nl); want.push_back(0);
			void *ret = LIB(mpt::mpt_identifier_set(a.id, own + k, op.a == 3 ? (int) nl : -1));
			if (!ret) e = "refused\tsetting an identifier to a suffix of its own text was refused";
			else { static std::set<std::string> other3; ma.b = &*other3.insert(want).first; ma.cid = -1; }
			++tally->c[C_OWN];
			break; }
		else {
			size_t len = ma.size() - 1, nl = op.a == 0 ? len - 1 : (op.a == 1 ? 1 : len);
			const char *own = (const char *) LIB(mpt::mpt_identifier_data(a.id));
			void *ret = LIB(mpt::mpt_identifier_set(a.id, own, (int) nl));
			if (!ret) e = "refused\tsetting an identifier to a prefix of its own text was refused";
			else if (nl != len) {
				// prefix of the old text: P(nl) unless the embedded NUL of an N text survives
				std::string want(*ma.b, 0, nl); want.push_back(0);
				if (want == bytes(FP, nl).stored) set_model(al, ma, UTF8, FP, nl);
				else { static std::set<std::string> other; ma.b = &*other.insert(want).first; ma.cid = -1; }
			}
			++tally->c[C_OWN];
			break; }
		case ITEM_ASSIGN: case ITEM_MOVE: {
			typedef mpt::item<mpt::metatype> item_t;
			item_t *ia = (item_t *) a.obj, *ib = (item_t *) b.obj;
			if (op.t == ITEM_ASSIGN) LIB((*ia = *ib, 0)); else LIB((*ia = std::move(*ib), 0));
			ma = mb;
			++tally->c[C_ITEM];
			break; }
		case ITEM_CTOR: {
			typedef mpt::item<mpt::metatype> item_t;
			item_t *t = LIB(new item_t(*(item_t *) a.obj));
			H th; th.kind = ITEM32; th.obj = t; th.id = t; th.cap = t->_max;
			std::string m = memcheck(1 + (ma.size() > th.cap));
			if (!m.empty()) return m;
			e = light(th, ma, "T"); if (!e.empty()) return e;
			e = compares(th, ma, "T"); if (!e.empty()) return e;
			e = pair_compare(th, ma, a, ma, "T,A"); if (!e.empty()) return e;
			destroy(th);
			++tally->c[C_ITEM];
			break; }
		case ASSIGN_AA: {
			// self assignment through a reference; item<T> is assigned its own identifier base
			const mpt::identifier &self = *a.id;
			if (a.kind == ITEM32 || a.kind == ITEMCOPY) { mpt::item<mpt::metatype> *it = (mpt::item<mpt::metatype> *) a.obj; LIB((*it = self, 0)); }
			else LIB((*a.id = self, 0));
			++tally->c[C_SELFCXX];
			break; }
		case CTOR_BACK: {
			mpt::identifier *t = LIB(new mpt::identifier(*a.id));
			std::string m = memcheck(1 + (ma.size() > t->_max));
			if (!m.empty()) return m;
			LIB((*a.id = *t, 0));
			LIB((delete t, 0));
			++tally->c[C_SELFCXX];
			break; }
		case SETNAME_OWN: {
			size_t len = ma.size() - 1, nl = op.a ? len : strlen(ma.b->c_str());
			const char *own = LIB(a.id->name());
			if (!own) { e = "compare\ttext inline: A: identifier::name() is NULL for text content"; break; }
			bool okc = LIB(a.id->set_name(own, op.a ? (int) len : -1));
			if (!okc) e = "refused\tset_name() with the identifier's own name() was refused";
			else if (nl != len) {
				std::string want(*ma.b, 0, nl); want.push_back(0);
				if (want == bytes(FP, nl).stored) set_model(al, ma, UTF8, FP, nl);
				else { static std::set<std::string> other2; ma.b = &*other2.insert(want).first; ma.cid = -1; }
			}
			++tally->c[C_SELFCXX];
			break; }
		case CLONE_TRAITS: case CLONE_CXX: {
			H th; size_t extra = 0;
			void *mem = 0;
			if (op.t == CLONE_TRAITS) {
				const mpt::type_traits *t = mpt::mpt_identifier_traits();
				mem = malloc(t->size);
				int rc = LIB(t->init(mem, a.id));
				th.kind = TRAITS; th.obj = mem; th.id = (mpt::identifier *) mem;
				if (rc < 0) e = fmt("status\ttraits init(copy) reports error %d although the copy was made", rc);
				++tally->c[C_CLONE_T];
			} else {
				th.kind = CXX16; th.id = LIB(new mpt::identifier(*a.id)); th.obj = th.id; extra = 1;
				++tally->c[C_CLONE_X];
			}
			th.cap = th.id->_max;
			extra += ma.size() > th.cap;
			std::string m = memcheck(extra);
			if (!m.empty()) return m;
			if (!e.empty()) return e;
			if (th.cap != 12) return "content\tcopy-initialised identifier has a wrong capacity";
			e = light(th, ma, "T"); if (!e.empty()) return e;
			e = compares(th, ma, "T"); if (!e.empty()) return e;
			e = pair_compare(th, ma, a, ma, "T,A"); if (!e.empty()) return e;
			destroy(th);
			break; }
		}
		std::string m = memcheck();
		if (!m.empty()) return m;
		if (!e.empty()) return e;
		const char *who = (op.t == COPY_AB || op.t == ASSIGN_AB || op.t == COPY_BA || op.t == CLONE_TRAITS || op.t == CLONE_CXX || op.t >= ITEM_ASSIGN) ? "source" : "bystander";
		if (!destA && image(a.id) != imgA) return fmt("%s\tA was changed although it is only the %s of this operation", who, (op.t == COPY_AA || op.t == ASSIGN_AA) ? "source and target of a self copy / self assignment" : "source");
		if (!destB && image(b.id) != imgB) return fmt("%s\tB was changed although it is %s", who, who[0] == 's' ? "only the source of this operation" : "not involved in this operation");
		e = light(a, ma, "A"); if (!e.empty()) return e;
		return light(b, mb, "B");
	}
};

static std::string opdesc(const Alphabet &al, const OpInst &op)
{
	switch (op.t) {
	case SET: return fmt("set(A, %s(%zu), %zu)", al.contents[op.a].fam == FQ ? "Q" : "P", al.contents[op.a].len, al.contents[op.a].len);
	case SETZ: return fmt("set(A, P(%ld), -1)", op.a);
	case SETNUL: return fmt("set(A, N(%ld) with embedded NUL, %ld)", op.a, op.a);
	case SETOVER: return op.a == 0 ? "set(A, P(65535), 65535)" : (op.a == 1 ? "set(A, P(65535), -1)" : (op.a == 2 ? "set(A, P(70000), 70000)" : "set(A, NULL, -1)"));
	case SETNULL: return fmt("set(A, NULL, %ld)", op.a);
	case COPY_AB: return "copy(A <- B)";
	case COPY_BA: return "copy(B <- A)";
	case COPY_AA: return "copy(A <- A)";
	case COPY_ANULL: return "copy(A <- NULL)";
	case ASSIGN_AB: return "A = B (identifier::operator=)";
	case SELF: return op.a == 0 ? "set(A, data(A), len-1)" : (op.a == 1 ? "set(A, data(A), 1)" : (op.a == 2 ? "set(A, data(A), len)" : (op.a == 3 ? "set(A, data(A)+1, len-1)" : "set(A, data(A)+4, -1)")));
	case ITEM_ASSIGN: return "item A = item B (item<T> copy assignment)";
	case ITEM_MOVE: return "item A = std::move(item B) (item<T> move assignment)";
	case ITEM_CTOR: return "item<T> T(A); ~T";
	case CLONE_TRAITS: return "traits->init(T, A); traits->fini(T)";
	case CLONE_CXX: return "identifier T(A); ~T";
	case ASSIGN_AA: return "A = A (identifier::operator= through a reference; item<T>: own identifier base)";
	case CTOR_BACK: return "identifier T(A); A = T; ~T";
	case SETNAME_OWN: return op.a ? "A.set_name(A.name(), len)" : "A.set_name(A.name())";
	}
	return "?";
}
static std::string mdesc(const M &m, size_t cap)
{
	if (!m.size()) return "unset";
	return fmt("%s %zu bytes%s", m.cs == UTF8 ? "text," : "non-text,", m.size(), m.size() > cap ? " (external)" : " (inline)");
}
static std::string cdesc(const Content &c) { return c.unset ? std::string("unset") : fmt("%s(%zu)", c.fam == FQ ? "Q" : "P", c.len); }

// ------------------------------------------------------------------ exploration of one storage pair
struct PairJob {
	int ka, kb; Alphabet al; Tally tally;
	uint64_t nontrivial, execs;
	PairJob() : nontrivial(0), execs(0) {}
};

static bool set_content(const Alphabet &al, H &h, M &m, int cid)
{
	if (!cid) return true;
	const Bytes &bt = bytes(al.contents[cid].fam, al.contents[cid].len);
	void *ret = LIB(mpt::mpt_identifier_set(h.id, bt.arg, (int) bt.arglen));
	if (!ret) return false;
	m = model_of(al, cid);
	return true;
}
static void prepare(Run &r, PairJob &pj, const std::string &job)
{
	guard_install();
	size_t p = job.find(",B=");
	pj.ka = kind_of(job.substr(2, p - 2)); pj.kb = kind_of(job.substr(p + 3));
	r.hint("storage creation");
	H ha, hb; make(ha, pj.ka); make(hb, pj.kb);
	build_alphabet(r.tier, ha.cap, hb.cap, pj.al, pj.ka, pj.kb);
	destroy(ha); destroy(hb);
	// images of all initial states (real code: fresh storage + one set)
	r.hint("initial state construction");
	for (int side = 0; side < 2; ++side) for (size_t c = 0; c < pj.al.contents.size(); ++c) {
		H h; M m; make(h, side ? pj.kb : pj.ka);
		set_content(pj.al, h, m, (int) c);
		(side ? pj.al.knownB : pj.al.knownA).push_back(image(h.id));
		destroy(h);
	}
	ledger_reset(); nlibblk = 0;
}

static void report(Run &r, const std::string &cls, const std::string &res, const std::string &where)
{
	size_t t = res.find('\t');
	std::string group = res.substr(0, t), detail = t == std::string::npos ? "" : res.substr(t + 1);
	// a wrong comparison result is a property of the state that is compared, not of the operation that led there
	if (group == "compare") r.violation("compare|" + detail.substr(0, detail.find(':')), where + ": " + detail);
	else r.violation(cls + "|" + group, where + ": " + detail);
	ledger_reset(); nlibblk = 0;      // the storages of a violating execution are abandoned, not released
}

static const int DEPTH = 2;
static void pair_body(Run &r, PairJob &pj, Ctx &x)
{
	const Alphabet &al = pj.al;
	size_t ia = x.choose(al.contents.size()), ib = x.choose(al.contents.size());
	size_t oi = x.choose(al.ops.size());
	if ((++pj.execs & 1023) == 0) { ledger_reset(); pj.tally.flush(r); }
	nlibblk = 0;
	Sys s(&pj.tally);
	r.hint("storage creation");
	asan_error();
	if (!s.init(pj.ka, pj.kb)) { r.violation(std::string("create|") + kname[pj.ka] + "|failed", "storage could not be created"); return; }
	if (asan_error()) { r.violation("create|memory", fmt("creating A=%s B=%s: AddressSanitizer reported an invalid memory access", kname[pj.ka], kname[pj.kb])); ledger_reset(); nlibblk = 0; return; }
	std::vector<size_t> done;      // op instances executed so far
	auto where = [&]() {
		std::string w = fmt("A=%s(cap %zu) B=%s(cap %zu): A:=%s B:=%s", kname[pj.ka], s.a.cap, kname[pj.kb], s.b.cap, cdesc(al.contents[ia]).c_str(), cdesc(al.contents[ib]).c_str());
		for (size_t o : done) w += " ; " + opdesc(al, al.ops[o]);
		return w; };
	r.hint("initial set");
	asan_error();
	for (int side = 0; side < 2; ++side) {
		int cid = (int) (side ? ib : ia);
		H &h = side ? s.b : s.a; M &m = side ? s.mb : s.ma;
		bool okset = false;
		std::string e = guarded([&]() { okset = set_content(al, h, m, cid); return std::string(); });
		if (e.empty() && !okset) e = "refused\ta text of permitted length was refused";
		if (e.empty()) e = guarded([&]() { std::string t = s.memcheck(); return t.empty() ? s.light(h, m, side ? "B" : "A") : t; });
		if (!e.empty()) { size_t n = model_of(al, cid).size(); report(r, std::string("set|unset->") + stclass(n, h.cap) + "|" + lencls(n, h.cap), e, where() + (side ? " (setting B)" : " (setting A)")); return; }
	}
	if (oi == 0) {
		// first visit of this initial state: complete observation
		++r.states;
		if (ia == 4 && ib == al.contents.size() - 1) r.sample(where() + " x {" + std::to_string(al.ops.size()) + " op instances}");
		std::string e = guarded([&]() { return s.full(); });
		if (!e.empty()) { report(r, "set|initial-state", e, where()); return; }
	}
	bool last_nontrivial = false, dirtyA = false, dirtyB = false;
	for (int depth = 1;; ++depth) {
		const OpInst &op = al.ops[oi];
		if ((op.t == SELF && (s.ma.cs != UTF8 || s.ma.size() < 2 || (op.a == 4 && (s.ma.size() < 6 || s.ma.size() > s.a.cap)))) || (op.t == SETNAME_OWN && s.ma.cs != UTF8)) { ++pj.tally.c[C_NOT_ENABLED]; break; }
		std::string pre;
		if (r.replaying) { pre = fmt(" [A %s, B %s]", mdesc(s.ma, s.a.cap).c_str(), mdesc(s.mb, s.b.cap).c_str()); r.note("%s ; %s%s", where().c_str(), opdesc(al, op).c_str(), pre.c_str()); }
		std::string cls = s.classify(al, op);        // state class before the op
		int preA = clsidx(s.ma.size(), s.a.cap);
		r.hint(cls.c_str());
		done.push_back(oi);
		std::string res = guarded([&]() { return s.apply(al, op); });
		++r.transitions;
		if (!res.empty()) { report(r, cls, res, where()); return; }
		{
			int postA = clsidx(s.ma.size(), s.a.cap);
			bool replaces = op.t == SET || op.t == SETZ || op.t == SETNUL || (op.t == SETNULL && op.a <= 65535) || op.t == COPY_AB || op.t == ASSIGN_AB || op.t == SELF || op.t == CTOR_BACK || op.t == SETNAME_OWN || op.t == ITEM_ASSIGN || op.t == ITEM_MOVE;
			last_nontrivial = (preA == 2) != (postA == 2) || (preA == 2 && postA == 2 && replaces);
			if (op.t <= SETNULL || op.t == SELF) ++pj.tally.path[0][preA][postA];
			else if (op.t <= ASSIGN_AB && op.t != COPY_BA) ++pj.tally.path[1][preA][postA];
			if (s.ma.size() == 65535) ++pj.tally.c[C_LONGEST];
		}
		// states that are initial states are explored from there; others are expanded here.  (light() has just compared the
		// complete content with the model, so image + content index identify the state.)
		bool knownA = s.ma.cid >= 0 && image(s.a.id) == al.knownA[s.ma.cid], knownB = s.mb.cid >= 0 && image(s.b.id) == al.knownB[s.mb.cid];
		bool known = knownA && knownB;
		if (op.t == COPY_BA) dirtyB = true; else if ((op.t != COPY_AA && op.t < CLONE_TRAITS) || op.t == CTOR_BACK || op.t == SETNAME_OWN || op.t == ITEM_ASSIGN || op.t == ITEM_MOVE) dirtyA = true;
		bool expand = !known && depth < DEPTH;
		if (!known && !expand) ++pj.tally.c[C_NEW_BOUND];
		if (expand) {
			if (r.replaying) r.note("  state is not an initial state: A %s | B %s", imgdesc(s.a.id).c_str(), imgdesc(s.b.id).c_str());
			oi = x.choose(al.ops.size());
			if (oi == 0) { ++r.states; ++pj.tally.c[C_EXPANDED]; }
		}
		if (!known && (!expand || oi == 0)) {
			// complete observation of the state just reached (once per state).  A post-state whose image equals an initial
			// state has been read back byte-exact above; the comparison functions depend on nothing but that image and were
			// observed completely on the initial state itself.
			// An identifier that no operation wrote to since its last sweep is not swept again.
			bool sa = dirtyA && !knownA, sb = dirtyB && !knownB;
			std::string e = guarded([&]() { return s.full(sa, sb); });
			if (!e.empty()) { report(r, cls, e, where()); return; }
			if (sa) dirtyA = false;
			if (sb) dirtyB = false;
		}
		if (!expand) break;
	}
	if (last_nontrivial) ++pj.nontrivial;
	// release: everything the library allocated must be gone
	r.hint("release");
	std::string e = guarded([&]() { s.fini(); return std::string(); });
	if (e.empty() && asan_error()) e = "memory\tAddressSanitizer report while releasing the identifiers";
	if (e.empty() && ledger_live() != s.l0) e = fmt("memory\t%zu library allocations left after release", ledger_live() - s.l0);
	if (!e.empty()) { report(r, "release", e, where()); return; }
}

// ------------------------------------------------------------------ allocation job: requested length -> storage
static void alloc_body(Run &r, Ctx &x, uint64_t &nontrivial, Tally &tally)
{
	guard_install();
	int fam = (int) x.choose(5);
	static const char *fn[] = { "mpt_identifier_new", "mpt_node_new", "node::create(name)", "traits-init(NULL)", "mpt_node_new(mpt++ override)" };
	std::vector<long> lens;
	if (fam == 0) { for (long l = 0; l <= 300; ++l) lens.push_back(l); lens.push_back(65535); lens.push_back(65536); lens.push_back(1L << 20); }
	else if (fam == 1 || fam == 4) for (long l = 0; l <= 300; ++l) lens.push_back(l);
	else if (fam == 2) for (long l = 0; l <= 140; ++l) lens.push_back(l);
	else lens.push_back(0);
	long len = lens[x.choose(lens.size())];
	if (!len) ++r.states;
	++r.transitions;
	nlibblk = 0;
	std::string where = fmt("%s(%ld)", fn[fam], len);
	r.note("%s", where.c_str());
	r.hint(fn[fam]);
	asan_error();
	Alphabet al;
	al.contents.push_back(Content{true, 0, FP});
	Sys s(&tally);
	s.l0 = ledger_live();
	H h;
	std::string sig = std::string(fn[fam]) + "|";
	if (fam == 0) {
		h.kind = NEW32; h.id = LIB(mpt::mpt_identifier_new(len)); h.obj = h.id;
		if (len > 65535) { if (h.id) { r.violation(sig + "over-long|accepted", where + ": length above the 65535 limit was not refused"); free(h.id); } else r.count("refused:alloc over-long"); return; }
	} else if (fam == 1 || fam == 4) { h.kind = NODE64; h.node = fam == 1 ? LIB(mpt::mpt_node_new_csource(len)) : LIB(mpt::mpt_node_new(len)); h.obj = h.node; h.id = h.node ? &h.node->ident : 0; }
	else if (fam == 2) {
		const Bytes &bt = bytes(FP, len);
		h.kind = CXXNODE; h.node = LIB(mpt::node::create(bt.arg, (int) len)); h.obj = h.node; h.id = h.node ? &h.node->ident : 0;
		if (h.id) s.set_model(al, s.ma, UTF8, FP, len);
	} else { if (!make(h, TRAITS)) { r.violation(sig + "status", "traits init without source reports an error"); return; } }
	if (!h.id) { r.violation(sig + "failed", where + ": no storage returned"); return; }
	h.cap = h.id->_max;
	s.base = ledger_live() - s.l0 - (s.ma.size() > h.cap);
	s.a = h;
	{ size_t l1 = ledger_live(); make(s.b, EMB16); s.base += ledger_live() - l1; }
	std::string e = guarded([&]() { return s.full(); });
	if (fam <= 1 || fam == 4) { if (len <= 252 && h.cap >= (size_t) len) r.count("alloc: inline capacity >= requested length"); else r.count("alloc: inline capacity < requested length (not flagged)"); }
	// fill the inline bytes completely, then go external, then the empty text, then clear
	for (long l : {(long) h.cap - 1, (long) h.cap, 0L}) {
		if (!e.empty()) break;
		al.contents.resize(1); al.contents.push_back(Content{false, (size_t) l, FP});
		r.hint((std::string(fn[fam]) + " then set").c_str());
		e = guarded([&]() { std::string t = s.apply(al, OpInst{SET, 1}); return t.empty() ? s.full() : t; });
		++r.transitions;
	}
	if (e.empty()) e = guarded([&]() { std::string t = s.apply(al, OpInst{COPY_ANULL, 0}); return t.empty() ? s.full() : t; });
	if (!e.empty()) { report(r, std::string(fn[fam]) + "|" + (len + 4 <= 256 ? "size-class" : "fallback"), e, where); return; }
	++nontrivial;
	r.hint("release");
	e = guarded([&]() { s.fini(); return std::string(); });
	if (e.empty() && (asan_error() || ledger_live() != s.l0)) e = "memory\tallocation left or invalid access while releasing";
	if (!e.empty()) { report(r, "release", e, where); return; }
}

// ------------------------------------------------------------------ list jobs: searching nodes by name
// Sibling lists of 1..3 nodes under a parent, names drawn from texts (with and without embedded NUL, around the inline
// capacity) and non-text zero-filled identifiers of different lengths.  Every key (text, text in the explicit-charset form,
// non-text) x every start node x every position (>0 forward, 0 = last, <0 backward) of mpt_node_locate, plus mpt_node_find
// and mpt_node_next for C-string keys, is compared with a positional model: a node matches iff charset, length and all
// bytes of its name equal the key.
struct Name { int fam; size_t len; };
static std::vector<Name> list_names(Tier t)
{
	std::vector<Name> v = { {FZ, 0}, {FP, 0}, {FP, 1}, {FP, 2}, {FN, 3}, {FN, 5}, {FP, 5}, {FQ, 5}, {FZ, 1}, {FZ, 3}, {FZ, 6}, {FP, 19}, {FN, 39}, {FZ, 21} };
	if (t == Thorough) for (Name n : { Name{FP, 20}, Name{FN, 41}, Name{FP, 300}, Name{FN, 601}, Name{FZ, 2}, Name{FZ, 20} }) v.push_back(n);
	return v;
}
static std::string ndesc(const Name &n) { return n.fam == FZ ? (n.len ? fmt("Z(%zu)", n.len) : std::string("unset")) : fmt("%s(%zu)", n.fam == FQ ? "Q" : (n.fam == FN ? "N" : "P"), n.len); }
struct ListCounters { uint64_t lists, calls, match, nomatch, discriminating; };

static void list_body(Run &r, Ctx &x, const std::string &job, ListCounters &lc)
{
	guard_install();
	std::vector<Name> names = list_names(r.tier);
	size_t first = strtoul(job.c_str() + 5, 0, 10);
	size_t n = 1 + x.choose(3);
	std::vector<Name> nm(1, names[first]);
	for (size_t i = 1; i < n; ++i) nm.push_back(names[x.choose(names.size())]);
	nlibblk = 0;
	if ((++lc.lists & 1023) == 0) ledger_reset();
	++r.states;
	std::string where = "siblings [";
	for (size_t i = 0; i < n; ++i) where += (i ? ", " : "") + ndesc(nm[i]);
	where += "]";
	if (n == 3 && lc.lists % 97 == 5) r.sample(where + " x all keys x start node x pos -3..3 (mpt_node_locate), mpt_node_find, mpt_node_next");
	r.note("%s", where.c_str());
	r.hint("list construction");
	asan_error();
	size_t l0 = ledger_live();
	// build: parent + n children (C constructor, the middle one through the linked mpt++ override), names via mpt_identifier_set
	mpt::node *parent = LIB(mpt::mpt_node_new_csource(0));
	std::vector<mpt::node *> nd(n);
	std::vector<M> model(n);
	std::string e;
	for (size_t i = 0; i < n && e.empty(); ++i) {
		nd[i] = i == 1 ? LIB(mpt::mpt_node_new(0)) : LIB(mpt::mpt_node_new_csource(0));
		const Bytes &bt = bytes(nm[i].fam, nm[i].len);
		e = guarded([&]() {
			void *ret = nm[i].fam == FZ ? (nm[i].len ? LIB(mpt::mpt_identifier_set(&nd[i]->ident, 0, (int) nm[i].len)) : (void *) nd[i])
			                            : LIB(mpt::mpt_identifier_set(&nd[i]->ident, bt.arg, (int) bt.arglen));
			return ret ? std::string() : std::string("refused\tname of permitted length was refused"); });
		model[i].cs = nm[i].fam == FZ ? 0 : UTF8;
		model[i].b = nm[i].fam == FZ && !nm[i].len ? &empty_bytes : &bt.stored;
	}
	if (!e.empty() || asan_error()) { report(r, "node name|set", e.empty() ? "memory\tAddressSanitizer report while naming the nodes" : e, where); return; }
	for (size_t i = 0; i < n; ++i) { nd[i]->parent = parent; nd[i]->prev = i ? nd[i - 1] : 0; nd[i]->next = i + 1 < n ? nd[i + 1] : 0; }
	parent->children = nd[0];
	auto idx = [&](const mpt::node *p) -> int { if (!p) return -1; for (size_t i = 0; i < n; ++i) if (nd[i] == p) return (int) i; return -2; };
	// keys: every name of the table in its native form, texts additionally in the explicit-charset form
	bool bad = false;
	for (size_t k = 0; k < names.size() && !bad; ++k) for (int form = 0; form < 2 && !bad; ++form) {
		const Name &kn = names[k];
		if (form == 1 && kn.fam == FZ) continue;
		const Bytes &kb = bytes(kn.fam, kn.len);
		M key; key.cs = kn.fam == FZ ? 0 : UTF8; key.b = kn.fam == FZ && !kn.len ? &empty_bytes : &kb.stored;
		// exactly sized argument
		size_t klen = kn.fam == FZ ? kn.len : (form ? kn.len + 1 : kn.len);
		char *arg = (char *) malloc(klen ? klen : 1); memcpy(arg, key.b->data(), klen);
		int charset = kn.fam == FZ ? 0 : (form ? UTF8 : -1);
		const char *kcls = kn.fam == FZ ? "non-text key" : (form ? "text key (explicit charset)" : "text key");
		std::vector<int> hit;
		for (size_t i = 0; i < n; ++i) {
			if (model[i] == key) hit.push_back((int) i);
			else if (model[i].cs == key.cs && model[i].size() > key.size() && key.size() && !memcmp(model[i].b->data(), key.b->data(), key.size() - (key.cs == UTF8)) && (*model[i].b)[key.size() - (key.cs == UTF8)] == 0) ++lc.discriminating;
		}
		for (size_t s = 0; s < n && !bad; ++s) for (int pos = -3; pos <= 3 && !bad; ++pos) {
			int want = -1;
			if (pos > 0) { int c = 0; for (int h : hit) if (h >= (int) s && ++c == pos) { want = h; break; } }
			else if (pos == 0) { if (!hit.empty()) want = hit.back(); }
			else { int c = 0; for (size_t j = hit.size(); j-- > 0;) if (hit[j] < (int) s && ++c == -pos) { want = hit[j]; break; } }
			r.hint("mpt_node_locate");
			int got = -3;
			e = guarded([&]() { got = idx(LIB(mpt::mpt_node_locate(nd[s], pos, arg, klen, charset))); return std::string(); });
			++lc.calls; ++r.transitions;
			if (e.empty() && asan_error()) e = "memory\tAddressSanitizer: the search reads outside the key or a name";
			if (e.empty() && got != want) e = fmt("wrong-node\treturned %s, expected %s", got < 0 ? (got == -1 ? "no node" : "a foreign pointer") : fmt("node %d", got).c_str(), want < 0 ? "no node" : fmt("node %d", want).c_str());
			if (!e.empty()) { report(r, std::string("node_locate|") + (pos > 0 ? "forward" : (pos ? "backward" : "last")) + "|" + kcls, e, where + fmt(": mpt_node_locate(node %zu, pos %d, key %s len %zu, charset %d)", s, pos, ndesc(kn).c_str(), klen, charset)); bad = true; }
			else ++(want >= 0 ? lc.match : lc.nomatch);
		}
		// C string interfaces
		if (!bad && form == 0 && kn.fam != FZ && !memchr(key.b->data(), 0, kn.len)) {
			const char *cstr = key.b->c_str();
			for (int pos = -3; pos <= 3 && !bad; ++pos) {
				int want = -1;
				if (pos > 0) { if ((size_t) pos <= hit.size()) want = hit[pos - 1]; }
				else if (pos == 0) { if (!hit.empty()) want = hit.back(); }
				else if (hit.size() > (size_t) -pos) want = hit[hit.size() - 1 + pos];
				r.hint("mpt_node_find");
				int got = -3;
				e = guarded([&]() { got = idx(LIB(mpt::mpt_node_find(parent, cstr, pos))); return std::string(); });
				++lc.calls; ++r.transitions;
				if (e.empty() && asan_error()) e = "memory\tAddressSanitizer: the search reads outside the key or a name";
				if (e.empty() && got != want) e = fmt("wrong-node\treturned %s, expected %s", got < 0 ? (got == -1 ? "no node" : "a foreign pointer") : fmt("node %d", got).c_str(), want < 0 ? "no node" : fmt("node %d", want).c_str());
				if (!e.empty()) { report(r, std::string("node_find|") + (pos > 0 ? "forward" : (pos ? "backward" : "last")) + "|text key", e, where + fmt(": mpt_node_find(parent, %s, %d)", ndesc(kn).c_str(), pos)); bad = true; }
				else ++(want >= 0 ? lc.match : lc.nomatch);
			}
			for (size_t s = 0; s < n && !bad; ++s) {
				int want = -1; for (int h : hit) if (h >= (int) s) { want = h; break; }
				r.hint("mpt_node_next");
				int got = -3;
				e = guarded([&]() { got = idx(LIB(mpt::mpt_node_next(nd[s], cstr))); return std::string(); });
				++lc.calls; ++r.transitions;
				if (e.empty() && asan_error()) e = "memory\tAddressSanitizer: the search reads outside the key or a name";
				if (e.empty() && got != want) e = fmt("wrong-node\treturned %s, expected %s", got < 0 ? (got == -1 ? "no node" : "a foreign pointer") : fmt("node %d", got).c_str(), want < 0 ? "no node" : fmt("node %d", want).c_str());
				if (!e.empty()) { report(r, "node_next|forward|text key", e, where + fmt(": mpt_node_next(node %zu, %s)", s, ndesc(kn).c_str())); bad = true; }
				else ++(want >= 0 ? lc.match : lc.nomatch);
			}
		}
		free(arg);
	}
	if (bad) return;
	// release
	r.hint("release");
	parent->children = 0;
	for (size_t i = 0; i < n; ++i) { nd[i]->parent = nd[i]->next = nd[i]->prev = 0; }
	e = guarded([&]() { for (size_t i = 0; i < n; ++i) LIB(mpt::mpt_node_destroy(nd[i])); LIB(mpt::mpt_node_destroy(parent)); return std::string(); });
	if (e.empty() && (asan_error() || ledger_live() != l0)) e = "memory\tallocation left or invalid access while releasing the nodes";
	if (!e.empty()) { report(r, "release", e, where); return; }
}

// ------------------------------------------------------------------ over-long job: lengths far beyond the limit
// Lengths above the 65535 limit are outside what an identifier can hold; the function documents a refusal ("max length
// exceeded").  Every storage kind x {unset, short text, long text} x lengths {65535, 65536, 2^20, INT_MAX-1, INT_MAX} with a name
// and {65536, 2^20, INT_MAX-1, INT_MAX, -2, INT_MIN} without must be refused with the identifier unchanged.  The name is a 2 GiB readable mapping (lazily
// mapped zero pages, nothing is committed) so that a call that is not refused reads valid memory; each probe runs in a
// forked child because a copy of 2 GiB destroys the heap of the process that executes it.
static void overlong_body(Run &r, Ctx &x, uint64_t &nontrivial)
{
	guard_install();
	static const long lens[] = { 65535, 65536, 1L << 20, (long) INT_MAX - 1, INT_MAX, -2, INT_MIN };
	static char *big = 0;
	if (!big) { big = (char *) mmap(0, (size_t) 1 << 31, PROT_READ, MAP_PRIVATE | MAP_ANONYMOUS | MAP_NORESERVE, -1, 0); if (big == (char *) MAP_FAILED) { big = 0; r.incomplete("cannot map 2 GiB of address space"); return; } }
	int kind = (int) x.choose(NKINDS), pre = (int) x.choose(3), li = (int) x.choose(sizeof lens / sizeof *lens), null = (int) x.choose(2);
	long len = lens[li];
	if (!null && len < 0) return;       // a negative length with a name is the strlen form, not an excess length
	static const size_t prelen[] = { 0, 3, 300 };
	std::string where = fmt("%s: A:=%s ; set(A, %s, %ld)", kname[kind], pre ? fmt("P(%zu)", prelen[pre]).c_str() : "unset", null ? "NULL" : "<2 GiB readable>", len);
	r.note("%s", where.c_str());
	r.hint("set(over-long)");
	if (!li && !null) ++r.states;
	++r.transitions;
	bool permitted = null && len == 65535;       // 65535 zero bytes is the longest permitted non-text content
	std::string out = in_child([&]() -> std::string {
		Tally tally; Sys s(&tally); Alphabet al;
		al.contents.push_back(Content{true, 0, FP}); al.contents.push_back(Content{false, prelen[pre], FP});
		if (!s.init(kind, EMB16)) return "create";
		if (pre && !set_content(al, s.a, s.ma, 1)) return "pre-state";
		uint64_t img = image(s.a.id);
		asan_error();
		void *ret = LIB(mpt::mpt_identifier_set(s.a.id, null ? 0 : big, (int) len));
		if (permitted) { if (!ret) return "refused"; s.set_model(al, s.ma, 0, FZ, 65535); }
		else if (ret) return "accepted";
		else if (image(s.a.id) != img) return "changed";
		if (asan_error()) return "asan";
		std::string e = s.light(s.a, s.ma, "A");
		return e.empty() ? std::string("OK") : e;
	}, 60);
	if (out == "OK") { if (len == INT_MAX || len == INT_MIN) ++nontrivial; r.count(permitted ? "over-long: longest permitted accepted" : "over-long: refused unchanged"); return; }
	std::string what = out.empty() ? "forked probe ended without a result" : (out[0] == '\x01' ? "the call crashed the process (" + out.substr(1) + ")" : "probe reports: " + out);
	r.violation(std::string("set(over-long)|") + (pre == 0 ? "unset" : (pre == 1 ? "inline" : "ext")) + "->refused|" + (len == INT_MAX ? "len=INT_MAX" : (len < 0 ? "len<0" : "len>65535")) + "|not-refused",
	            where + ": a length beyond the limit must be refused and leave the identifier unchanged; " + what);
}

// ------------------------------------------------------------------ jobs
void mc_jobs(Tier t, std::vector<std::string> &jobs)
{
	std::vector<int> bk;
	// A runs through every storage kind; B (source / second target of copies) through storages of inline capacity 12, 84, 212, 252 (quick: 12, 252); capacity 20 in the item<T> pairs
	if (t == Quick) bk = { EMB16, NEW256 };
	else bk = { EMB16, CXXNODE, NODE256, NEW256 };
	for (int a = 0; a < NKINDS; ++a) {
		if (t == Quick && (a == NEW64 || a == NEW128 || a == NODE128)) continue;    // middle size classes: thorough only
		for (int b : bk) jobs.push_back(std::string("A=") + kname[a] + ",B=" + kname[b]);
	}
	// item<T> against item<T> (default-constructed and copy-constructed): whole-object copy operations
	for (int a : {ITEM32, ITEMCOPY}) for (int b : {ITEM32, ITEMCOPY}) {
		std::string j = std::string("A=") + kname[a] + ",B=" + kname[b];
		if (std::find(jobs.begin(), jobs.end(), j) == jobs.end()) jobs.push_back(j);
	}
	jobs.push_back("alloc");
	jobs.push_back("overlong");
	for (size_t i = 0; i < list_names(t).size(); ++i) jobs.push_back("list=" + std::to_string(i));
}

static void declare(Run &r, bool pair)
{
	r.require("nontrivial");
	if (!pair) return;
	for (const char *k : {"path set:unset->inline", "path set:unset->ext", "path set:inline->inline", "path set:inline->ext", "path set:ext->inline", "path set:ext->ext", "path set:ext->unset", "path set:inline->unset",
	                      "path copy:unset->inline", "path copy:unset->ext", "path copy:inline->inline", "path copy:inline->ext", "path copy:ext->inline", "path copy:ext->ext", "path copy:ext->unset", "path copy:inline->unset",
	                      "path stored the longest permitted content (65535 bytes)", "refused:over-long", "compare:equal", "compare:unequal", "compare:nontext", "compare:node_locate", "inequal:equal", "inequal:different",
	                      "set:own data", "clone:traits", "clone:c++", "c++ self assignment / own name", "item<T> whole-object copy", "via identifier::set_name", "states beyond the initial ones (expanded)"})
		r.require(k);
}

void mc_explore(Run &r, const std::string &job)
{
	if (job == "alloc") {
		declare(r, false);
		uint64_t nt = 0; Tally tally;
		dfs(r, [&](Ctx &x) { alloc_body(r, x, nt, tally); });
		tally.flush(r);
		r.count("nontrivial", nt);
		return;
	}
	if (job == "overlong") {
		declare(r, false);
		r.require("over-long: refused unchanged"); r.require("over-long: longest permitted accepted");
		uint64_t nt = 0;
		dfs(r, [&](Ctx &x) { overlong_body(r, x, nt); });
		r.count("nontrivial", nt);
		return;
	}
	if (job.compare(0, 5, "list=") == 0) {
		declare(r, false);
		for (const char *k : {"locate: key matches a node", "locate: key matches no node", "locate: a longer name continues with a zero byte at the key length (must not match)"}) r.require(k);
		ListCounters lc = {0, 0, 0, 0, 0};
		dfs(r, [&](Ctx &x) { list_body(r, x, job, lc); });
		r.count("locate: key matches a node", lc.match); r.count("locate: key matches no node", lc.nomatch);
		r.count("locate: a longer name continues with a zero byte at the key length (must not match)", lc.discriminating);
		r.count("locate: sibling lists", lc.lists);
		r.count("nontrivial", lc.discriminating);
		return;
	}
	declare(r, true);
	PairJob pj;
	prepare(r, pj, job);
	dfs(r, [&](Ctx &x) { pair_body(r, pj, x); });
	pj.tally.flush(r);
	r.count("nontrivial", pj.nontrivial);
}

void mc_replay(Run &r, const std::string &job, const Vec &v)
{
	if (job == "alloc") { uint64_t nt = 0; Tally tally; dfs_replay(r, [&](Ctx &x) { alloc_body(r, x, nt, tally); }, v); return; }
	if (job == "overlong") { uint64_t nt = 0; dfs_replay(r, [&](Ctx &x) { overlong_body(r, x, nt); }, v); return; }
	if (job.compare(0, 5, "list=") == 0) { ListCounters lc = {0, 0, 0, 0, 0}; dfs_replay(r, [&](Ctx &x) { list_body(r, x, job, lc); }, v); return; }
	PairJob pj;
	prepare(r, pj, job);
	dfs_replay(r, [&](Ctx &x) { pair_body(r, pj, x); }, v);
}

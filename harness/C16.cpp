// C16 — names are stored and compared faithfully at every length.
// Two identifiers A (under test) and B (the other side of copies) live in real
// storages of every kind the library hands out (embedded 16-byte struct,
// mpt_identifier_new size classes, mpt_node_new nodes, C++ identifier /
// item<T> / node::create, traits-initialised).  Every pair of canonical
// pre-states (A content, B content) is an initial state; every operation
// instance of the alphabet is executed on the real code from each, compared
// with a (charset, std::string) reference, and the observable state (header,
// data, all comparison entry points, allocation ledger, ASan) is re-read after
// every step.  Post-states whose raw storage image differs from every initial
// state (stale inline bytes after copy, non-text content, ...) are expanded
// again with the full alphabet.
#include <cerrno>
#include <cstdlib>
#include <csignal>
#include <algorithm>
#include "core.h"
#include "types.h"
#include "meta.h"
#include "node.h"
#include "mc.hpp"

using namespace mc;
const char *mc_id = "C16";
const char *mc_rule = "snapshot exploration per storage pair (A,B): all (content A, content B) pre-states over boundary lengths (0,1,3,4,5 | pointer overlay 8,11,12 | cap-1,cap,cap+1 of both storages | 253, 300, 65534) "
                      "x all op instances on the real code (set, set(strlen), set(embedded NUL), set(NULL,n), over-long, copy A<-B / B<-A / A<-A / A<-NULL, operator=, set to own data, traits / C++ copy construction) vs a (charset, byte string) model; "
                      "post-states whose raw storage image is not an initial state are expanded with the full alphabet again; "
                      "nontrivial = executed cases whose last operation moves the destination between unset/inline and external storage or replaces an external block";

// ------------------------------------------------------------------ fault containment
// free() of something that is not a live heap block is fatal for ASan, and its symptom (report, SIGSEGV inside the
// allocator, silent release of a foreign block with arbitrary later damage) depends on heap addresses.  The free hook
// below runs before the allocator looks at the pointer: inside a library call only blocks that were allocated inside
// a library call may be released; anything else (wild or double free) is turned into one deterministic harness-level
// report by leaving the call.  Direct faults of a library call (NULL source handed to memcpy, ...) are contained the
// same way, so that one defect does not cost one worker process per case.
extern "C" int __sanitizer_install_malloc_and_free_hooks(void (*)(const volatile void *, size_t), void (*)(const volatile void *));
static sigjmp_buf guard_jmp;
static volatile int guard_armed = 0;
static struct sigaction old_segv, old_bus;
static const volatile void *libblk[256]; static int nlibblk = 0;
static void guard_malloc(const volatile void *p, size_t)
{
	if (mc::lib_depth > 0 && p && nlibblk < 256) libblk[nlibblk++] = p;
}
static void guard_free(const volatile void *p)
{
	if (!p) return;
	for (int i = nlibblk; i-- > 0;) if (libblk[i] == p) { libblk[i] = libblk[--nlibblk]; return; }
	if (guard_armed && mc::lib_depth > 0) { guard_armed = 0; siglongjmp(guard_jmp, 1000); }
}
static void guard_sig(int sig)
{
	if (guard_armed && mc::lib_depth > 0) { guard_armed = 0; siglongjmp(guard_jmp, sig); }
	struct sigaction &o = sig == SIGBUS ? old_bus : old_segv;
	if (o.sa_handler && o.sa_handler != SIG_DFL && o.sa_handler != SIG_IGN) o.sa_handler(sig);
	else { signal(sig, SIG_DFL); raise(sig); }
}
static void guard_install()
{
	static bool done = false;
	if (done) return;
	done = true;
	__sanitizer_install_malloc_and_free_hooks(guard_malloc, guard_free);
	struct sigaction sa; memset(&sa, 0, sizeof sa);
	sa.sa_handler = guard_sig; sa.sa_flags = SA_ONSTACK | SA_NODEFER;
	sigaction(SIGSEGV, &sa, &old_segv);
	sigaction(SIGBUS, &sa, &old_bus);
}
// run fn (library calls + observation) contained: "" / "group\tdetail"
template <class F> static std::string guarded(F fn)
{
	int depth = mc::lib_depth;
	int sig = sigsetjmp(guard_jmp, 0);
	if (sig == 0) { guard_armed = 1; std::string res = fn(); guard_armed = 0; return res; }
	guard_armed = 0; mc::lib_depth = depth;
	if (sig == 1000) return "memory\tthe library call handed free() a pointer that is not a live library allocation (wild or double free)";
	return std::string("memory\tthe library call faulted (") + (sig == SIGBUS ? "SIGBUS" : "SIGSEGV") + ")";
}

// ------------------------------------------------------------------ storages
enum Kind { EMB16, NEW32, NEW64, NEW128, NEW256, NODE64, NODE128, NODE256, CXX16, ITEM32, CXXNODE, TRAITS, NKINDS };
static const char *kname[] = { "emb16", "new32", "new64", "new128", "new256", "node64", "node128", "node256", "cxx16", "item32", "cxxnode", "traits" };
static int kind_of(const std::string &n) { for (int k = 0; k < NKINDS; ++k) if (n == kname[k]) return k; return -1; }

struct H {
	int kind; void *obj; mpt::identifier *id; mpt::node *node; size_t cap;
	H() : kind(-1), obj(0), id(0), node(0), cap(0) {}
};
static bool make(H &h, int kind)
{
	h.kind = kind; h.obj = 0; h.id = 0; h.node = 0;
	switch (kind) {
	case EMB16: h.obj = malloc(sizeof(mpt::identifier)); h.id = (mpt::identifier *) h.obj; LIB((mpt::mpt_identifier_init(h.id, sizeof(mpt::identifier)), 0)); break;
	case NEW32: case NEW64: case NEW128: case NEW256: {
		static const size_t req[] = { 28, 60, 124, 252 };
		h.id = LIB(mpt::mpt_identifier_new(req[kind - NEW32])); h.obj = h.id; break; }
	case NODE64: case NODE128: case NODE256: {
		static const size_t req[] = { 0, 88, 216 };
		h.node = LIB(mpt::mpt_node_new(req[kind - NODE64])); h.obj = h.node; if (h.node) h.id = &h.node->ident; break; }
	case CXX16: h.id = LIB(new mpt::identifier()); h.obj = h.id; break;
	case ITEM32: { mpt::item<mpt::metatype> *it = LIB(new mpt::item<mpt::metatype>()); h.obj = it; h.id = it; break; }
	case CXXNODE: h.node = LIB(mpt::node::create((size_t) 40)); h.obj = h.node; if (h.node) h.id = &h.node->ident; break;
	case TRAITS: {
		const mpt::type_traits *t = mpt::mpt_identifier_traits();
		h.obj = malloc(t->size); h.id = (mpt::identifier *) h.obj;
		int rc = LIB(t->init(h.obj, 0));
		if (rc < 0) return false;
		break; }
	}
	if (!h.id) return false;
	h.cap = h.id->_max;
	return true;
}
static void destroy(H &h)
{
	if (!h.obj) return;
	switch (h.kind) {
	case EMB16: case NEW32: case NEW64: case NEW128: case NEW256:
		LIB(mpt::mpt_identifier_set(h.id, 0, 0)); free(h.obj); break;           // as the `ident` example does
	case NODE64: case NODE128: case NODE256: LIB(mpt::mpt_node_destroy(h.node)); break;
	case CXX16: LIB((delete h.id, 0)); break;
	case ITEM32: LIB((delete (mpt::item<mpt::metatype> *) h.obj, 0)); break;
	case CXXNODE: LIB((h.node->~node(), 0)); free(h.obj); break;
	case TRAITS: LIB((mpt::mpt_identifier_traits()->fini(h.obj), 0)); free(h.obj); break;
	}
	h.obj = 0; h.id = 0; h.node = 0;
}

// ------------------------------------------------------------------ contents
static const int UTF8 = 1;   // MPT_CHARSET(UTF8)
struct M { int cs; std::string b; bool operator==(const M &o) const { return cs == o.cs && b == o.b; } };
static const std::string &pattern()
{
	static std::string p;
	if (p.empty()) { p.resize(70001); for (size_t i = 0; i < p.size(); ++i) p[i] = (char) (1 + (i * 31 + 7) % 253); }   // 1..253, prefix closed
	return p;
}
static std::string text(size_t len, int variant)   // 0: P(len)  1: Q(len) = P with another last byte  2: N(len) = P with an embedded NUL
{
	std::string s(pattern(), 0, len);
	if (variant == 1 && len) s[len - 1] = (char) 0xFE;
	if (variant == 2 && len) s[len / 2] = 0;
	return s;
}
struct Content { bool unset; size_t len; int variant; };
static M model_of(const Content &c) { M m; if (c.unset) { m.cs = 0; } else { m.cs = UTF8; m.b = text(c.len, c.variant); m.b.push_back(0); } return m; }

enum OpT { SET, SETZ, SETNUL, SETOVER, SETNULL, COPY_AB, COPY_BA, COPY_AA, COPY_ANULL, ASSIGN_AB, SELF, CLONE_TRAITS, CLONE_CXX };
struct OpInst { int t; long a; };

struct Alphabet {
	std::vector<Content> contents;
	std::vector<OpInst> ops;
	std::set<std::string> knownA, knownB;    // raw storage images of the initial states
};

static void add(std::vector<size_t> &v, long x) { if (x >= 0 && x <= 65534 && std::find(v.begin(), v.end(), (size_t) x) == v.end()) v.push_back((size_t) x); }
static void build_alphabet(Tier t, size_t capA, size_t capB, Alphabet &al)
{
	std::vector<size_t> L;
	for (long x : {0, 1, 3, 4, 5, 8, 11, 12}) add(L, x);
	for (size_t c : {capA, capB}) { add(L, (long) c - 1); add(L, (long) c); add(L, (long) c + 1); }   // a text of cap-1 bytes (+NUL) is the last inline one
	add(L, 253); add(L, 300); add(L, 65534);
	if (t == Thorough) {
		for (long x : {2, 7, 10, 13, 251, 252, 4080, 65533}) add(L, x);
		for (size_t c : {capA, capB}) add(L, (long) c - 2);
	}
	std::sort(L.begin(), L.end());
	al.contents.clear(); al.ops.clear();
	al.contents.push_back(Content{true, 0, 0});
	for (size_t l : L) al.contents.push_back(Content{false, l, 0});
	std::vector<size_t> Q;
	for (long x : {1L, 5L, (long) capA, 65534L}) add(Q, x);
	if (t == Thorough) { add(Q, (long) capA - 1); add(Q, 12); }
	for (size_t l : Q) al.contents.push_back(Content{false, l, 1});
	for (size_t i = 1; i < al.contents.size(); ++i) al.ops.push_back(OpInst{SET, (long) i});
	for (long l : {0L, (long) capA - 1, 65534L}) al.ops.push_back(OpInst{SETZ, l});
	if (t == Thorough) for (long l : {(long) capA, 300L}) al.ops.push_back(OpInst{SETZ, l});
	for (long l : {3L, (long) capA + 1}) al.ops.push_back(OpInst{SETNUL, l});
	if (t == Thorough) al.ops.push_back(OpInst{SETNUL, (long) capA - 1});
	for (int form = 0; form < 4; ++form) al.ops.push_back(OpInst{SETOVER, form});
	{ std::vector<long> N = {0, 1, 5, (long) capA, (long) capA + 1, 65535, 65536};
	  if (t == Thorough) { N.push_back(4); N.push_back((long) capA - 1); N.push_back(300); }
	  for (long n : N) al.ops.push_back(OpInst{SETNULL, n}); }
	for (int o : {COPY_AB, COPY_BA, COPY_AA, COPY_ANULL, ASSIGN_AB}) al.ops.push_back(OpInst{o, 0});
	for (int mode = 0; mode < 3; ++mode) al.ops.push_back(OpInst{SELF, mode});
	al.ops.push_back(OpInst{CLONE_TRAITS, 0});
	al.ops.push_back(OpInst{CLONE_CXX, 0});
}

// ------------------------------------------------------------------ observation helpers
static const char *stclass(const M &m, size_t cap) { return m.b.empty() ? "unset" : (m.b.size() <= cap ? "inline" : "ext"); }
static const char *lencls(size_t n, size_t cap) { return n == 0 ? "len=0" : (n <= 4 ? "len<=4" : (n <= cap ? "len<=cap" : "len>cap")); }

static uint64_t fasthash(const void *p, size_t n)
{
	const uint8_t *b = (const uint8_t *) p; uint64_t h = 0x9e3779b97f4a7c15ULL ^ n;
	while (n >= 8) { uint64_t w; memcpy(&w, b, 8); h = (h ^ w) * 0xff51afd7ed558ccdULL; h ^= h >> 29; b += 8; n -= 8; }
	uint64_t w = 0; memcpy(&w, b, n); h = (h ^ w) * 0xc4ceb9fe1a85ec53ULL; h ^= h >> 32;
	return h;
}
// raw image of the identifier storage (pointer bytes masked) + external content
static std::string rawimage(const mpt::identifier *id)
{
	std::string s((const char *) id, 4 + (size_t) id->_max);
	bool ext = id->_len > id->_max;
	if (ext) {
		for (size_t i = 4; i < 12 && i < id->_max; ++i) s[4 + i] = 'P';
		uint64_t h = 0xBADBADBADBADULL;
		if (id->_base && ledger_is_live(id->_base)) h = fasthash(id->_base, id->_len);
		s.append((const char *) &h, 8);
	}
	return s;
}
static std::string imgdesc(const mpt::identifier *id)
{
	std::string s = fmt("len=%u charset=%u max=%u inline=", (unsigned) id->_len, (unsigned) id->_charset, (unsigned) id->_max);
	bool ext = id->_len > id->_max;
	for (size_t i = 0; i < id->_max && i < 32; ++i) s += (ext && i >= 4 && i < 12) ? std::string("PP") : hex(id->_val + i, 1);
	return s;
}

struct Tally { std::map<std::string, uint64_t> c; void operator()(const char *k, uint64_t n = 1) { c[k] += n; } };

struct Sys {
	H a, b; M ma, mb; size_t base; size_t l0;
	Tally tally;
	Sys() : base(0), l0(0) {}
	bool init(int ka, int kb) { l0 = ledger_live(); bool ok = make(a, ka) && make(b, kb); base = ledger_live() - l0; ma.cs = mb.cs = 0; ma.b.clear(); mb.b.clear(); return ok; }
	void fini() { destroy(a); destroy(b); }

	// memory oracle: no sanitizer report, exactly the expected number of live library blocks
	std::string memcheck(size_t extra = 0)
	{
		if (asan_error()) return "memory\tAddressSanitizer reported an invalid memory access";
		size_t want = l0 + base + extra + (ma.b.size() > a.cap) + (mb.b.size() > b.cap);
		size_t live = ledger_live();
		if (live != want) return fmt("memory\t%zu library allocations live, expected %zu (%s)", live - l0, want - l0, live > want ? "leak" : "a block that is still needed was released");
		return "";
	}
	// header + data read back byte-exact
	std::string light(const H &h, const M &m, const char *who)
	{
		const mpt::identifier *id = h.id;
		if (id->_max != h.cap) return fmt("content\t%s: capacity field changed from %zu to %u", who, h.cap, (unsigned) id->_max);
		if (id->_len != m.b.size()) return fmt("content\t%s: stored length %u, expected %zu", who, (unsigned) id->_len, m.b.size());
		if (id->_charset != m.cs) return fmt("content\t%s: charset %u, expected %d", who, (unsigned) id->_charset, m.cs);
		const char *data = (const char *) LIB(mpt::mpt_identifier_data(id));
		if (m.b.size() <= h.cap) { if (data != id->_val) return fmt("memory\t%s: short content is not reported at the inline bytes", who); }
		else if (!data || !ledger_is_live(data)) return fmt("memory\t%s: long content pointer is not a live allocation", who);
		if (m.b.size() && memcmp(data, m.b.data(), m.b.size())) {
			size_t i = 0; while (data[i] == m.b[i]) ++i;
			return fmt("content\t%s: content differs from what was stored at byte %zu of %zu (got %02x, expected %02x)", who, i, m.b.size(), (unsigned) (uint8_t) data[i], (unsigned) (uint8_t) m.b[i]);
		}
		if (asan_error()) return fmt("memory\t%s: reading the content back touches invalid memory (AddressSanitizer)", who);
		return "";
	}
	// every comparison entry point against the model
	std::string compares(const H &h, const M &m, const char *who)
	{
		const mpt::identifier *id = h.id;
		const char *data = (const char *) mpt::mpt_identifier_data(id);
		if (m.cs == UTF8) {
			size_t len = m.b.size() - 1;
			// exactly sized argument buffers
			char *s = (char *) malloc(len + 2); memcpy(s, m.b.data(), len + 1); s[len + 1] = 0;
			char *ex = (char *) malloc(len ? len : 1); memcpy(ex, m.b.data(), len);
			std::string bad;
			int c;
			if ((c = LIB(mpt::mpt_identifier_compare(id, ex, (int) len))) != 0) bad = fmt("compare\t%s: compare with the stored text (len %zu) returns %d", who, len, c);
			else if (!memchr(s, 0, len) && (c = LIB(mpt::mpt_identifier_compare(id, s, -1))) != 0) bad = fmt("compare\t%s: compare(text,-1) with the stored text returns %d", who, c);
			else if (!LIB(id->equal(ex, (int) len))) bad = fmt("compare\t%s: identifier::equal is false for the stored text", who);
			else if (LIB(id->name()) != data) bad = fmt("compare\t%s: identifier::name() is not the stored text", who);
			tally("compare:equal");
			if (bad.empty() && len) {
				ex[len - 1] ^= 0x40;
				if (LIB(mpt::mpt_identifier_compare(id, ex, (int) len)) == 0) bad = fmt("compare\t%s: text differing in the last byte compares equal (len %zu)", who, len);
				ex[len - 1] ^= 0x40; ex[0] ^= 0x40;
				if (bad.empty() && LIB(mpt::mpt_identifier_compare(id, ex, (int) len)) == 0) bad = fmt("compare\t%s: text differing in the first byte compares equal (len %zu)", who, len);
				if (bad.empty() && LIB(id->equal(ex, (int) len))) bad = fmt("compare\t%s: identifier::equal is true for different text", who);
				ex[0] ^= 0x40;
				if (bad.empty() && LIB(mpt::mpt_identifier_compare(id, ex, (int) len - 1)) == 0) bad = fmt("compare\t%s: proper prefix compares equal (len %zu)", who, len);
				tally("compare:unequal", 3);
			}
			if (bad.empty()) {
				s[len] = 'x';    // one byte longer
				if (LIB(mpt::mpt_identifier_compare(id, s, (int) len + 1)) == 0) bad = fmt("compare\t%s: longer text compares equal (len %zu)", who, len);
				s[len] = 0;
				tally("compare:unequal");
			}
			if (bad.empty() && h.node) {
				const char *ni = LIB(mpt::mpt_node_ident(h.node));
				if (ni != data) bad = fmt("compare\t%s: mpt_node_ident does not report the stored text", who);
				else if (LIB(mpt::mpt_node_locate(h.node, 1, ex, len, -1)) != h.node) bad = fmt("compare\t%s: mpt_node_locate does not find the node by its stored name (len %zu)", who, len);
				else if (len) {
					ex[len - 1] ^= 0x40;
					if (LIB(mpt::mpt_node_locate(h.node, 1, ex, len, -1)) != 0) bad = fmt("compare\t%s: mpt_node_locate matches a name differing in the last byte", who);
					ex[len - 1] ^= 0x40;
					if (bad.empty() && LIB(mpt::mpt_node_locate(h.node, 1, ex, len - 1, -1)) != 0) bad = fmt("compare\t%s: mpt_node_locate matches a proper prefix", who);
				}
				tally("compare:node_locate");
			}
			free(s); free(ex);
			if (!bad.empty()) return bad;
		} else {
			// not text: no text compares equal, name() is not offered
			char one[1] = { 0 };
			if (LIB(mpt::mpt_identifier_compare(id, one, 0)) == 0 && m.b.size()) return fmt("compare\t%s: non-text content compares equal to the empty text", who);
			if (LIB(id->name()) != 0) return fmt("compare\t%s: identifier::name() offered for non-text content", who);
			tally("compare:nontext");
		}
		if (LIB(mpt::mpt_identifier_inequal(id, id)) != 0) return fmt("compare\t%s: inequal(x,x) != 0", who);
		if (asan_error()) return fmt("compare\t%s: a comparison reads outside its arguments (AddressSanitizer)", who);
		return "";
	}
	std::string pair_compare(const H &x, const M &mx, const H &y, const M &my, const char *who)
	{
		bool eq = mx == my;
		int d1 = LIB(mpt::mpt_identifier_inequal(x.id, y.id)), d2 = LIB(mpt::mpt_identifier_inequal(y.id, x.id));
		if ((d1 == 0) != eq || (d2 == 0) != eq) return fmt("compare\tinequal(%s)=%d, reversed=%d but the contents are %s", who, d1, d2, eq ? "equal" : "different");
		tally(eq ? "inequal:equal" : "inequal:different");
		return "";
	}
	// complete observation of the current state
	std::string full()
	{
		std::string e = memcheck(); if (!e.empty()) return e;
		e = light(a, ma, "A"); if (!e.empty()) return e;
		e = light(b, mb, "B"); if (!e.empty()) return e;
		e = compares(a, ma, "A"); if (!e.empty()) return e;
		e = compares(b, mb, "B"); if (!e.empty()) return e;
		return pair_compare(a, ma, b, mb, "A,B");
	}

	// classification of an op instance in the current state: "opname|pre->post|argclass"
	std::string classify(const Alphabet &al, const OpInst &op) const
	{
		const char *pre = stclass(ma, a.cap);
		std::string name;
		size_t n = 0, cap = a.cap; bool refuse = false;
		switch (op.t) {
		case SET: n = al.contents[op.a].len + 1; name = "set"; break;
		case SETZ: n = op.a + 1; name = "set(strlen)"; break;
		case SETNUL: n = op.a + 1; name = "set(embedded NUL)"; break;
		case SETOVER: name = "set(over-long)"; refuse = true; break;
		case SETNULL: n = op.a; name = "set(NULL,n)"; refuse = op.a > 65535; break;
		case COPY_AB: n = mb.b.size(); name = "copy"; break;
		case ASSIGN_AB: n = mb.b.size(); name = "operator="; break;
		case COPY_BA: n = ma.b.size(); name = "copy"; pre = stclass(mb, b.cap); cap = b.cap; break;
		case COPY_AA: n = ma.b.size(); name = "copy(self)"; break;
		case COPY_ANULL: n = 0; name = "copy(NULL)"; break;
		case SELF: name = "set(own data)"; n = ma.b.size() ? (op.a == 0 ? ma.b.size() - 1 : (op.a == 1 ? 2 : ma.b.size())) : 0; break;
		case CLONE_TRAITS: name = "traits-init(copy)"; n = ma.b.size(); pre = "fresh16"; cap = 12; break;
		case CLONE_CXX: name = "copy-constructor"; n = ma.b.size(); pre = "fresh16"; cap = 12; break;
		}
		std::string post = refuse ? "refused" : (n == 0 ? "unset" : (n <= cap ? "inline" : "ext"));
		return name + "|" + pre + "->" + post + "|" + (refuse ? "over-long" : lencls(n, cap));
	}

	// execute one op instance on implementation + model, memory oracle, bystanders untouched, destination read back
	std::string apply(const Alphabet &al, const OpInst &op)
	{
		asan_error();
		std::string e;
		bool destA = true, destB = false;
		std::string imgA, imgB;
		if (op.t == COPY_BA) { destA = false; destB = true; }
		if (op.t == COPY_AA || op.t == CLONE_TRAITS || op.t == CLONE_CXX) destA = false;
		if (!destA) imgA = rawimage(a.id);
		if (!destB) imgB = rawimage(b.id);
		switch (op.t) {
		case SET: case SETZ: case SETNUL: case SETOVER: {
			std::string s; int len; bool permitted = true;
			if (op.t == SET) { s = text(al.contents[op.a].len, al.contents[op.a].variant); len = (int) s.size(); }
			else if (op.t == SETZ) { s = text(op.a, 0); len = -1; }
			else if (op.t == SETNUL) { s = text(op.a, 2); len = (int) s.size(); }
			else { permitted = false; s = text(op.a == 2 ? 70000 : 65535, 0); len = op.a == 1 ? -1 : (int) s.size(); }
			char *buf = (char *) malloc(s.size() + (len < 0 ? 1 : 0) + (s.empty() && len >= 0 ? 1 : 0));
			memcpy(buf, s.data(), s.size()); if (len < 0) buf[s.size()] = 0;
			void *ret;
			if (op.t == SETOVER && op.a == 3) { ret = LIB(mpt::mpt_identifier_set(a.id, 0, -1)); }     // negative length without text
			else if (a.kind >= CXX16 && a.kind <= ITEM32) { bool okc = LIB(a.id->set_name(buf, len)); ret = okc ? (void *) a.id : 0; tally("via identifier::set_name"); }
			else ret = LIB(mpt::mpt_identifier_set(a.id, buf, len));
			free(buf);
			if (permitted) {
				if (!ret) e = "refused\ta text of permitted length was refused";
				else { ma.cs = UTF8; ma.b = s; ma.b.push_back(0); }
			} else {
				if (ret) e = "accepted\tover-long / negative length was not refused";
				tally("refused:over-long");
			}
			break; }
		case SETNULL: {
			void *ret = LIB(mpt::mpt_identifier_set(a.id, 0, (int) op.a));
			if (op.a <= 65535) {
				if (!ret) e = "refused\tset(NULL,n) with a permitted length was refused";
				else { ma.cs = 0; ma.b.assign((size_t) op.a, 0); }
			} else { if (ret) e = "accepted\tover-long non-text length was not refused"; tally("refused:over-long"); }
			break; }
		case COPY_AB: case ASSIGN_AB: {
			void *ret;
			if (op.t == COPY_AB) ret = LIB(mpt::mpt_identifier_copy(a.id, b.id));
			else { LIB((*a.id = *b.id, 0)); ret = a.id; }
			if (!ret) e = "refused\tcopy failed";
			else ma = mb;
			break; }
		case COPY_BA: {
			void *ret = LIB(mpt::mpt_identifier_copy(b.id, a.id));
			if (!ret) e = "refused\tcopy failed";
			else mb = ma;
			break; }
		case COPY_AA: {
			void *ret = LIB(mpt::mpt_identifier_copy(a.id, a.id));
			if (!ret) e = "refused\tself copy failed";
			break; }
		case COPY_ANULL: {
			void *ret = LIB(mpt::mpt_identifier_copy(a.id, 0));
			if (!ret) e = "refused\tcopy(NULL) failed";
			else { ma.cs = 0; ma.b.clear(); }
			break; }
		case SELF: {
			size_t len = ma.b.size() - 1, nl = op.a == 0 ? len - 1 : (op.a == 1 ? 1 : len);
			const char *own = (const char *) LIB(mpt::mpt_identifier_data(a.id));
			void *ret = LIB(mpt::mpt_identifier_set(a.id, own, (int) nl));
			if (!ret) e = "refused\tsetting an identifier to a prefix of its own text was refused";
			else { ma.b.resize(nl); ma.b.push_back(0); }
			tally("set:own data");
			break; }
		case CLONE_TRAITS: case CLONE_CXX: {
			H th; size_t extra = 0;
			void *mem = 0;
			if (op.t == CLONE_TRAITS) {
				const mpt::type_traits *t = mpt::mpt_identifier_traits();
				mem = malloc(t->size);
				int rc = LIB(t->init(mem, a.id));
				th.kind = TRAITS; th.obj = mem; th.id = (mpt::identifier *) mem;
				if (rc < 0) e = fmt("status\ttraits init(copy) reports error %d although the copy was made", rc);
				tally("clone:traits");
			} else {
				th.kind = CXX16; th.id = LIB(new mpt::identifier(*a.id)); th.obj = th.id; extra = 1;
				tally("clone:c++");
			}
			th.cap = th.id->_max;
			extra += ma.b.size() > th.cap;
			std::string m = memcheck(extra);
			if (!m.empty()) return m;
			if (!e.empty()) return e;
			if (th.cap != 12) return "content\tcopy-initialised identifier has a wrong capacity";
			e = light(th, ma, "T"); if (!e.empty()) return e;
			e = compares(th, ma, "T"); if (!e.empty()) return e;
			e = pair_compare(th, ma, a, ma, "T,A"); if (!e.empty()) return e;
			destroy(th);
			break; }
		}
		std::string m = memcheck();
		if (!m.empty()) return m;
		if (!e.empty()) return e;
		const char *who = (op.t == COPY_AB || op.t == ASSIGN_AB || op.t == COPY_BA || op.t >= CLONE_TRAITS) ? "source" : "bystander";
		if (!destA && rawimage(a.id) != imgA) return fmt("%s\tA was changed although it is only the %s of this operation", who, op.t == COPY_AA ? "target of a self copy" : "source");
		if (!destB && rawimage(b.id) != imgB) return fmt("%s\tB was changed although it is %s", who, who[0] == 's' ? "only the source of this operation" : "not involved in this operation");
		e = light(a, ma, "A"); if (!e.empty()) return e;
		return light(b, mb, "B");
	}
};

static std::string opdesc(const Alphabet &al, const OpInst &op)
{
	switch (op.t) {
	case SET: return fmt("set(A, %s(%zu), %zu)", al.contents[op.a].variant ? "Q" : "P", al.contents[op.a].len, al.contents[op.a].len);
	case SETZ: return fmt("set(A, P(%ld), -1)", op.a);
	case SETNUL: return fmt("set(A, N(%ld) with embedded NUL, %ld)", op.a, op.a);
	case SETOVER: return op.a == 0 ? "set(A, P(65535), 65535)" : (op.a == 1 ? "set(A, P(65535), -1)" : (op.a == 2 ? "set(A, P(70000), 70000)" : "set(A, NULL, -1)"));
	case SETNULL: return fmt("set(A, NULL, %ld)", op.a);
	case COPY_AB: return "copy(A <- B)";
	case COPY_BA: return "copy(B <- A)";
	case COPY_AA: return "copy(A <- A)";
	case COPY_ANULL: return "copy(A <- NULL)";
	case ASSIGN_AB: return "A = B (identifier::operator=)";
	case SELF: return op.a == 0 ? "set(A, data(A), len-1)" : (op.a == 1 ? "set(A, data(A), 1)" : "set(A, data(A), len)");
	case CLONE_TRAITS: return "traits->init(T, A); traits->fini(T)";
	case CLONE_CXX: return "identifier T(A); ~T";
	}
	return "?";
}
static std::string mdesc(const M &m, size_t cap)
{
	if (m.b.empty()) return "unset";
	return fmt("%s %zu bytes%s", m.cs == UTF8 ? "text," : "non-text,", m.b.size(), m.b.size() > cap ? " (external)" : " (inline)");
}
static std::string cdesc(const Content &c) { return c.unset ? std::string("unset") : fmt("%s(%zu)", c.variant ? "Q" : "P", c.len); }

// ------------------------------------------------------------------ exploration of one storage pair
struct PairJob {
	int ka, kb; Alphabet al;
	uint64_t nontrivial, execs;
	PairJob() : nontrivial(0), execs(0) {}
};

static bool set_content(H &h, M &m, const Content &c)
{
	if (c.unset) return true;
	std::string t = text(c.len, c.variant);
	char *buf = (char *) malloc(t.size() ? t.size() : 1); memcpy(buf, t.data(), t.size());
	void *ret = LIB(mpt::mpt_identifier_set(h.id, buf, (int) t.size()));
	free(buf);
	if (!ret) return false;
	m = model_of(c);
	return true;
}
static void prepare(Run &r, PairJob &pj, const std::string &job)
{
	guard_install();
	size_t p = job.find(",B=");
	pj.ka = kind_of(job.substr(2, p - 2)); pj.kb = kind_of(job.substr(p + 3));
	r.hint("storage creation");
	H ha, hb; make(ha, pj.ka); make(hb, pj.kb);
	build_alphabet(r.tier, ha.cap, hb.cap, pj.al);
	destroy(ha); destroy(hb);
	// raw images of all initial states (real code: fresh storage + one set)
	r.hint("initial state construction");
	for (int side = 0; side < 2; ++side) for (const Content &c : pj.al.contents) {
		H h; M m; make(h, side ? pj.kb : pj.ka);
		set_content(h, m, c);
		(side ? pj.al.knownB : pj.al.knownA).insert(rawimage(h.id));
		destroy(h);
	}
	ledger_reset(); nlibblk = 0;
}

static void report(Run &r, const std::string &cls, const std::string &res, const std::string &where)
{
	size_t t = res.find('\t');
	std::string group = res.substr(0, t), detail = t == std::string::npos ? "" : res.substr(t + 1);
	r.violation(cls + "|" + group, where + ": " + detail);
	ledger_reset(); nlibblk = 0;      // the storages of a violating execution are abandoned, not released
}

static const int DEPTH = 2;
static void pair_body(Run &r, PairJob &pj, Ctx &x)
{
	const Alphabet &al = pj.al;
	size_t ia = x.choose(al.contents.size()), ib = x.choose(al.contents.size());
	size_t oi = x.choose(al.ops.size());
	if ((++pj.execs & 1023) == 0) ledger_reset();
	nlibblk = 0;
	Sys s;
	r.hint("storage creation");
	if (!s.init(pj.ka, pj.kb)) { r.violation(std::string("create|") + kname[pj.ka] + "|failed", "storage could not be created"); return; }
	std::string where = fmt("A=%s(cap %zu) B=%s(cap %zu): A:=%s B:=%s", kname[pj.ka], s.a.cap, kname[pj.kb], s.b.cap, cdesc(al.contents[ia]).c_str(), cdesc(al.contents[ib]).c_str());
	r.hint("initial set");
	asan_error();
	for (int side = 0; side < 2; ++side) {
		const Content &c = al.contents[side ? ib : ia];
		H &h = side ? s.b : s.a; M &m = side ? s.mb : s.ma;
		bool okset = false;
		std::string e = guarded([&]() { okset = set_content(h, m, c); return std::string(); });
		if (e.empty() && !okset) e = "refused\ta text of permitted length was refused";
		if (e.empty()) e = guarded([&]() { std::string t = s.memcheck(); return t.empty() ? s.light(h, m, side ? "B" : "A") : t; });
		if (!e.empty()) { M want = model_of(c); report(r, std::string("set|unset->") + stclass(want, h.cap) + "|" + lencls(want.b.size(), h.cap), e, where + (side ? " (setting B)" : " (setting A)")); return; }
	}
	if (oi == 0) {
		// first visit of this initial state: complete observation
		++r.states;
		if (ia == 4 && ib == al.contents.size() - 1) r.sample(where + " x {" + std::to_string(al.ops.size()) + " op instances}");
		std::string e = guarded([&]() { return s.full(); });
		if (!e.empty()) { report(r, "set|initial-state", e, where); return; }
	}
	bool last_nontrivial = false;
	for (int depth = 1;; ++depth) {
		const OpInst &op = al.ops[oi];
		if (op.t == SELF && (s.ma.cs != UTF8 || s.ma.b.size() < 2)) { r.count("op not enabled in this state"); break; }
		std::string cls = s.classify(al, op);
		std::string step = where + " ; " + opdesc(al, op) + fmt(" [A %s, B %s]", mdesc(s.ma, s.a.cap).c_str(), mdesc(s.mb, s.b.cap).c_str());
		where += " ; " + opdesc(al, op);
		r.note("%s", step.c_str());
		std::string preA = stclass(s.ma, s.a.cap);
		r.hint(cls.c_str());
		std::string res = guarded([&]() { return s.apply(al, op); });
		++r.transitions;
		if (!res.empty()) { report(r, cls, res, step); return; }
		{
			std::string postA = stclass(s.ma, s.a.cap);
			bool replaces = op.t == SET || op.t == SETZ || op.t == SETNUL || (op.t == SETNULL && op.a <= 65535) || op.t == COPY_AB || op.t == ASSIGN_AB || op.t == SELF;
			last_nontrivial = (preA == "ext") != (postA == "ext") || (preA == "ext" && postA == "ext" && replaces);
			const char *fam = op.t <= SETNULL || op.t == SELF ? "set" : (op.t <= ASSIGN_AB ? "copy" : "clone");
			if (op.t != COPY_BA && fam[1] != 'l') r.count(std::string("path ") + fam + ":" + preA + "->" + postA);
			if (s.ma.b.size() == 65535) r.count("path stored the longest permitted content (65535 bytes)");
		}
		// states that are initial states are explored from there; others are expanded here
		bool known = al.knownA.count(rawimage(s.a.id)) && al.knownB.count(rawimage(s.b.id));
		bool expand = !known && depth < DEPTH;
		if (!known && !expand) r.count("new states at the depth bound (not expanded)");
		if (expand) {
			r.note("  state is not an initial state: A %s | B %s", imgdesc(s.a.id).c_str(), imgdesc(s.b.id).c_str());
			oi = x.choose(al.ops.size());
			if (oi == 0) { ++r.states; r.count("states beyond the initial ones (expanded)"); }
		}
		if (!known && (!expand || oi == 0)) {
			// complete observation of the state just reached (once per state).  A post-state whose raw image equals an initial
			// state has been read back byte-exact above; the comparison functions depend on nothing but that image and were
			// observed completely on the initial state itself.
			std::string e = guarded([&]() { return s.full(); });
			if (!e.empty()) { report(r, cls, e, step); return; }
		}
		if (!expand) break;
	}
	if (last_nontrivial) ++pj.nontrivial;
	// release: everything the library allocated must be gone
	r.hint("release");
	std::string e = guarded([&]() { s.fini(); return std::string(); });
	if (e.empty() && asan_error()) e = "memory\tAddressSanitizer report while releasing the identifiers";
	if (e.empty() && ledger_live() != s.l0) e = fmt("memory\t%zu library allocations left after release", ledger_live() - s.l0);
	if (!e.empty()) { report(r, "release", e, where); return; }
	for (auto &c : s.tally.c) r.count(c.first, c.second);
}

// ------------------------------------------------------------------ allocation job: requested length -> storage
static void alloc_body(Run &r, Ctx &x, uint64_t &nontrivial)
{
	guard_install();
	int fam = (int) x.choose(4);
	static const char *fn[] = { "mpt_identifier_new", "mpt_node_new", "node::create(name)", "traits-init(NULL)" };
	std::vector<long> lens;
	if (fam == 0) { for (long l = 0; l <= 300; ++l) lens.push_back(l); lens.push_back(65535); lens.push_back(65536); lens.push_back(1L << 20); }
	else if (fam == 1) for (long l = 0; l <= 300; ++l) lens.push_back(l);
	else if (fam == 2) for (long l = 0; l <= 140; ++l) lens.push_back(l);
	else lens.push_back(0);
	long len = lens[x.choose(lens.size())];
	if (!len) ++r.states;
	++r.transitions;
	nlibblk = 0;
	std::string where = fmt("%s(%ld)", fn[fam], len);
	r.note("%s", where.c_str());
	r.hint(fn[fam]);
	asan_error();
	Sys s; s.ma.cs = s.mb.cs = 0;
	s.l0 = ledger_live();
	H h;
	std::string sig = std::string(fn[fam]) + "|";
	if (fam == 0) {
		h.kind = NEW32; h.id = LIB(mpt::mpt_identifier_new(len)); h.obj = h.id;
		if (len > 65535) { if (h.id) { r.violation(sig + "over-long|accepted", where + ": length above the 65535 limit was not refused"); free(h.id); } else r.count("refused:alloc over-long"); return; }
	} else if (fam == 1) { h.kind = NODE64; h.node = LIB(mpt::mpt_node_new(len)); h.obj = h.node; h.id = h.node ? &h.node->ident : 0; }
	else if (fam == 2) {
		std::string t = text(len, 0);
		char *buf = (char *) malloc(len ? len : 1); memcpy(buf, t.data(), len);
		h.kind = CXXNODE; h.node = LIB(mpt::node::create(buf, (int) len)); h.obj = h.node; h.id = h.node ? &h.node->ident : 0;
		free(buf);
		if (h.id) { s.ma.cs = UTF8; s.ma.b = t; s.ma.b.push_back(0); }
	} else { if (!make(h, TRAITS)) { r.violation(sig + "status", "traits init without source reports an error"); return; } }
	if (!h.id) { r.violation(sig + "failed", where + ": no storage returned"); return; }
	h.cap = h.id->_max;
	s.base = ledger_live() - s.l0 - (s.ma.b.size() > h.cap);
	s.a = h;
	{ size_t l1 = ledger_live(); make(s.b, EMB16); s.base += ledger_live() - l1; }
	std::string e = guarded([&]() { return s.full(); });
	if (fam <= 1) { if (len <= 252 && h.cap >= (size_t) len) r.count("alloc: inline capacity >= requested length"); else r.count("alloc: inline capacity < requested length (not flagged)"); }
	// fill the inline bytes completely, then go external, then clear
	Alphabet al;
	for (long l : {(long) h.cap - 1, (long) h.cap, 0L}) {
		if (!e.empty()) break;
		al.contents.assign(1, Content{false, (size_t) l, 0});
		r.hint((std::string(fn[fam]) + " then set").c_str());
		e = guarded([&]() { std::string t = s.apply(al, OpInst{SET, 0}); return t.empty() ? s.full() : t; });
		++r.transitions;
	}
	if (e.empty()) e = guarded([&]() { std::string t = s.apply(al, OpInst{COPY_ANULL, 0}); return t.empty() ? s.full() : t; });
	if (!e.empty()) { report(r, std::string(fn[fam]) + "|" + (len + 4 <= 256 ? "size-class" : "fallback"), e, where); return; }
	++nontrivial;
	r.hint("release");
	e = guarded([&]() { s.fini(); return std::string(); });
	if (e.empty() && (asan_error() || ledger_live() != s.l0)) e = "memory\tallocation left or invalid access while releasing";
	if (!e.empty()) { report(r, "release", e, where); return; }
	for (auto &c : s.tally.c) r.count(c.first, c.second);
}

// ------------------------------------------------------------------ jobs
void mc_jobs(Tier t, std::vector<std::string> &jobs)
{
	std::vector<int> bk;
	if (t == Quick) bk = { EMB16, NEW64, NEW256, ITEM32 };
	else for (int k = 0; k < NKINDS; ++k) bk.push_back(k);
	for (int a = 0; a < NKINDS; ++a) for (int b : bk) jobs.push_back(std::string("A=") + kname[a] + ",B=" + kname[b]);
	jobs.push_back("alloc");
	if (getenv("C16_DEV_JOBS")) { std::vector<std::string> f; for (auto &j : jobs) if (j.find(getenv("C16_DEV_JOBS")) != std::string::npos) f.push_back(j); jobs = f; }
}

static void declare(Run &r, bool pair)
{
	r.require("nontrivial");
	if (!pair) return;
	for (const char *k : {"path set:unset->inline", "path set:unset->ext", "path set:inline->inline", "path set:inline->ext", "path set:ext->inline", "path set:ext->ext", "path set:ext->unset", "path set:inline->unset",
	                      "path copy:unset->inline", "path copy:unset->ext", "path copy:inline->inline", "path copy:inline->ext", "path copy:ext->inline", "path copy:ext->ext", "path copy:ext->unset", "path copy:inline->unset",
	                      "path stored the longest permitted content (65535 bytes)", "refused:over-long", "compare:equal", "compare:unequal", "compare:nontext", "compare:node_locate", "inequal:equal", "inequal:different",
	                      "set:own data", "clone:traits", "clone:c++", "via identifier::set_name", "states beyond the initial ones (expanded)"})
		r.require(k);
}

void mc_explore(Run &r, const std::string &job)
{
	if (job == "alloc") {
		declare(r, false);
		uint64_t nt = 0;
		dfs(r, [&](Ctx &x) { alloc_body(r, x, nt); });
		r.count("nontrivial", nt);
		return;
	}
	declare(r, true);
	PairJob pj;
	prepare(r, pj, job);
	dfs(r, [&](Ctx &x) { pair_body(r, pj, x); });
	r.count("nontrivial", pj.nontrivial);
}

void mc_replay(Run &r, const std::string &job, const Vec &v)
{
	if (job == "alloc") { uint64_t nt = 0; dfs_replay(r, [&](Ctx &x) { alloc_body(r, x, nt); }, v); return; }
	PairJob pj;
	prepare(r, pj, job);
	dfs_replay(r, [&](Ctx &x) { pair_body(r, pj, x); }, v);
}

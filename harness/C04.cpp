// C04 — copy-on-write arrays behave as independent values.
// History BFS (mc::bfs_histories) over three handles that may share buffers.
//   family "c": C API   — two mpt arrays + one mpt slice (array/buffer/slice functions)
//   family "x": C++ API — two mpt::array + one mpt::slice
//   family "t": typed_array<int> x2 + unique_array<int>
//   family "p": pointer_array<int> x2 + typed_array<int*>
//   family "m": map<int,int> x3
// Every handle has its own value model (std::vector).  Before every operation the content of
// every distinct buffer is relabelled with distinct non-zero bytes and the slack is filled with
// junk (the array code is content-oblivious: it moves bytes by index only), the operation runs on
// the real code, and then EVERY handle is read back and compared with its model: the modified
// handle must read what a plain vector would contain, every other handle must read what it read
// before.  A refusal (NULL / negative / false) is never a violation, but the state must be
// unchanged; arguments outside the data must be refused.  States are deduplicated by structure
// (share partition, traits, flags, used/slack/capacity classes), arguments are relative to
// used size and capacity so that every boundary is hit from every structural state.
#include <csignal>
#include <csetjmp>
#include <cstdlib>
#include <cerrno>
#include <algorithm>
#include <sys/uio.h>
#include "types.h"
#include "array.h"
#include "mc.hpp"

using namespace mc;
const char *mc_id = "C04";
const char *mc_rule = "history BFS over 3 handles (2 arrays + 1 slice; typed/pointer arrays; maps) from initial buffers with flags {0,Immutable,NoCopy,both} x traits {raw,'c','y'} x fill {3,63 of 64}; "
                      "alphabet = every API operation x positions {0,1,used-1,used,used+2} x lengths {0,1,3,left-1,left,left+1} (relative to used size / capacity) x data|NULL, clone/assign between all handles; "
                      "content relabelled before every step, all handles read back after every step; states deduplicated by structure (share partition, traits, flags, used/slack/capacity class); "
                      "nontrivial = executed transitions whose target buffer is shared or immutable, or that change the capacity (reallocation)";

// ------------------------------------------------------------------ fault containment (a NULL dereference inside one op must not restart the BFS job)
static sigjmp_buf g_jmp;
static volatile sig_atomic_t g_guard = 0;
static const int g_sigs[] = { SIGSEGV, SIGBUS, SIGFPE };
static struct sigaction g_old[3];
static bool g_installed = false;
static void on_fault(int s)
{
	if (g_guard) { g_guard = 0; siglongjmp(g_jmp, s); }
	for (int k = 0; k < 3; ++k) sigaction(g_sigs[k], &g_old[k], 0);
}
static void guard_install()
{
	if (g_installed) return;
	g_installed = true;
	for (int k = 0; k < 3; ++k) {
		struct sigaction sa; memset(&sa, 0, sizeof sa);
		sa.sa_handler = on_fault; sa.sa_flags = SA_ONSTACK | SA_NODEFER; sigemptyset(&sa.sa_mask);
		sigaction(g_sigs[k], &sa, &g_old[k]);
	}
}
template <class F> static int guarded(F f)
{
	int s = sigsetjmp(g_jmp, 0);
	if (s) { mc::lib_depth = 0; return s; }
	g_guard = 1; f(); g_guard = 0;
	return 0;
}
static const char *signame(int s) { return s == SIGSEGV ? "SIGSEGV" : (s == SIGBUS ? "SIGBUS" : (s == SIGFPE ? "SIGFPE" : "SIGNAL")); }

// ------------------------------------------------------------------ common helpers
static const mpt::type_traits *T_C, *T_Y, *T_I;
static void warm()
{
	static bool done = false;
	if (done) return;
	done = true;
	guard_install();
	T_C = mpt::mpt_type_traits('c'); T_Y = mpt::mpt_type_traits('y'); T_I = mpt::mpt_type_traits('i');
	mpt::buffer *b = mpt::_mpt_buffer_alloc(1, 0); if (b) b->unref();   // allocation granularity singleton
}
// the ledger table is 4 MB: clearing it for every system would dominate the run; systems never overlap in time,
// so the live count at construction is the baseline and the table is cleared only now and then
static size_t g_lbase = 0;
static void ledger_base() { static unsigned n = 0; if ((n++ & 2047) == 0) ledger_reset(); g_lbase = ledger_live(); }
static int trid(const mpt::type_traits *t) { return !t ? 0 : (t == T_C ? 1 : (t == T_Y ? 2 : (t == T_I ? 3 : 9))); }
static const char *trname(const mpt::type_traits *t) { static const char *n[] = { "raw", "'c'", "'y'", "'i'" }; int i = trid(t); return i < 4 ? n[i] : "other"; }
static const mpt::type_traits *trsel(int i) { return i == 1 ? T_C : (i == 2 ? T_Y : (i == 3 ? T_I : 0)); }
static uint8_t *bdata(mpt::buffer *b) { return (uint8_t *) (b + 1); }
static const size_t PATN = 1024;
static uint8_t PAT[PATN], ZERO[PATN];
static void pat_init() { for (size_t i = 0; i < PATN; ++i) { PAT[i] = (uint8_t) (0x80 + i % 0x70); ZERO[i] = 0; } }
static uint8_t lab(int g, size_t i) { return (uint8_t) (1 + (i + 43 * g) % 0x7f); }
static const uint8_t JUNK = 0xEE;
static const char *cls5(size_t v, size_t top) { static char buf[8][8]; static int k = 0; char *s = buf[k = (k + 1) % 8]; if (v < top) snprintf(s, 8, "%zu", v); else snprintf(s, 8, "%zu+", top); return s; }
// relative value tables: negative or duplicate (of a lower index) -> the instance is not enabled
static bool pick(const long *vals, int idx, long &out)
{
	out = vals[idx];
	if (out < 0) return false;
	for (int j = 0; j < idx; ++j) if (vals[j] == out) return false;
	return true;
}
static std::string bufcanon(mpt::buffer *b)
{
	if (!b) return "-";
	size_t used = b->_used, size = b->_size;
	uint32_t fl = b->get_flags();
	size_t left = size >= used ? size - used : 0;
	std::string s = fmt("{t%d f%x%s u%s l%s c%zu", trid(b->_content_traits), fl & 0xff, (fl & mpt::BufferShared) ? "S" : "", cls5(used, 5), cls5(left, 6), std::min((size + 64) / 128, (size_t) 3));
	if (used > size) s += " OVER";
	return s + "}";
}
static std::string hexs(const std::vector<uint8_t> &v) { return v.size() > 24 ? hex(v.data(), 24) + fmt("..(%zu)", v.size()) : hex(v.data(), v.size()); }
static std::string diffdesc(const std::vector<uint8_t> &got, const std::vector<uint8_t> &want)
{
	size_t i = 0; while (i < got.size() && i < want.size() && got[i] == want[i]) ++i;
	return fmt("length %zu (model %zu), first difference at byte %zu; reads %s, model %s", got.size(), want.size(), i, hexs(got).c_str(), hexs(want).c_str());
}

// ------------------------------------------------------------------ pre-screening in a separate process
// An out-of-bounds write performed by the real code (ASan reports it and lets it happen) corrupts the heap
// of the exploring process and makes unrelated later cases die.  Therefore a step whose (operation,
// structural class of the buffers it touches) pair has not yet been seen clean is first executed in a
// throw-away process: a small "zygote" forked from the worker before its heap grows forks one grandchild
// per request, the grandchild rebuilds the state from the history and runs the step.  Only when it saw
// no violation is the step executed in the exploring process itself; a violating step is reported from the
// grandchild's verdict and never executed here.  Replays run the case directly.
#include <unistd.h>
#include <sys/wait.h>
#include <sys/time.h>
static bool g_child = false, g_expired = false;
static std::string g_child_out;
static std::set<std::string> g_clean;
static void report(Run &r, const std::string &sig, const std::string &detail)
{
	if (g_child) { if (g_child_out.empty()) g_child_out = sig + "\t" + detail; }
	else r.violation(sig, detail);
}
static std::string run_case(char fam, const Vec &v);     // defined behind the families
static int z_req = -1, z_resp = -1; static pid_t z_owner = 0;
static bool rd_all(int fd, void *p, size_t n) { char *c = (char *) p; while (n) { ssize_t k = read(fd, c, n); if (k < 0 && errno == EINTR) continue; if (k <= 0) return false; c += k; n -= k; } return true; }
static bool wr_all(int fd, const void *p, size_t n) { const char *c = (const char *) p; while (n) { ssize_t k = write(fd, c, n); if (k < 0 && errno == EINTR) continue; if (k <= 0) return false; c += k; n -= k; } return true; }
static void wr_msg(int fd, std::string s) { if (s.size() > 3000) s.resize(3000); uint32_t n = s.size(); std::string m((char *) &n, 4); m += s; wr_all(fd, m.data(), m.size()); }
static void zygote_start()
{
	if (z_owner == getpid()) return;
	int a[2], b[2];
	if (pipe(a) < 0 || pipe(b) < 0) return;
	fflush(stdout); fflush(stderr);
	pid_t pid = fork();
	if (pid < 0) return;
	if (pid == 0) {
		close(a[1]); close(b[0]);
		int sigs[] = { SIGSEGV, SIGBUS, SIGFPE, SIGILL, SIGABRT, SIGALRM, SIGPIPE };
		for (int sg : sigs) signal(sg, SIG_DFL);
		g_installed = false;
		struct itimerval it; memset(&it, 0, sizeof it); setitimer(ITIMER_REAL, &it, 0);
		for (;;) {
			uint32_t hd[2];
			if (!rd_all(a[0], hd, sizeof hd)) _exit(0);
			Vec v(hd[1]);
			if (hd[1] && !rd_all(a[0], v.data(), hd[1] * sizeof(uint64_t))) _exit(0);
			pid_t c = fork();
			if (c == 0) {
				alarm(20);
				std::string res = run_case((char) hd[0], v);
				wr_msg(b[1], res);
				_exit(0);
			}
			int st = 0;
			while (waitpid(c, &st, 0) < 0 && errno == EINTR) {}
			if (c < 0) wr_msg(b[1], "\x01" "FORK");
			else if (WIFSIGNALED(st)) wr_msg(b[1], WTERMSIG(st) == SIGALRM ? std::string("\x01HANG") : "\x01SIG" + std::to_string(WTERMSIG(st)));
			else if (WEXITSTATUS(st) != 0) wr_msg(b[1], "\x01" "EXIT" + std::to_string(WEXITSTATUS(st)));
		}
	}
	close(a[0]); close(b[1]);
	if (z_req >= 0) { close(z_req); close(z_resp); }
	z_req = a[1]; z_resp = b[0]; z_owner = getpid();
}
// returns true when the step may be executed in this process; false when the throw-away process observed a violation (reported here)
static bool screened(Run &r, char fam, const std::string &key, const std::string &hint, const std::string &desc)
{
	if (g_child || r.replaying || g_clean.count(key)) return true;
	if (z_owner != getpid()) return true;       // no zygote: run directly
	uint32_t hd[2] = { (uint32_t) fam, (uint32_t) r.cur.size() };
	std::string m((char *) hd, sizeof hd); m.append((const char *) r.cur.data(), r.cur.size() * sizeof(uint64_t));
	uint32_t n = 0; std::string res;
	if (!wr_all(z_req, m.data(), m.size()) || !rd_all(z_resp, &n, 4)) { z_owner = 0; return true; }
	res.resize(n);
	if (n && !rd_all(z_resp, &res[0], n)) { z_owner = 0; return true; }
	r.beat(); r.count("screened-in-child");
	if (r.expired()) g_expired = true;
	if (res == "OK") { g_clean.insert(key); return true; }
	if (!res.empty() && res[0] == '\x01') {
		std::string why = res.substr(1);
		if (why == "SIG11") why = "SIGSEGV"; else if (why == "SIG7") why = "SIGBUS"; else if (why == "SIG8") why = "SIGFPE"; else if (why == "SIG6") why = "SIGABRT"; else if (why == "EXIT99") why = "ASAN-FATAL";
		r.violation(hint + "|" + why, desc + ": the process died (" + why + ") while executing this step");
		return false;
	}
	size_t t = res.find('\t');
	r.violation(res.substr(0, t), t == std::string::npos ? "" : res.substr(t + 1));
	return false;
}

struct Stats { std::map<std::string, uint64_t> c; void add(const std::string &k) { ++c[k]; } };
static Stats *g_stats = 0;
static void stat(const std::string &k) { if (g_stats) g_stats->add(k); }

// ================================================================== family c / x : byte arrays + slice
struct H { mpt::buffer *b; uintptr_t off, len; };
static_assert(sizeof(mpt::slice) == sizeof(H), "slice layout");
static_assert(sizeof(mpt::array) == sizeof(mpt::buffer *), "array layout");
struct Mdl { const mpt::type_traits *tr; std::vector<uint8_t> b; };

enum RK { C_APPEND, C_INSERT, C_SLICE, C_SET, C_RESERVE, C_REDUCE, C_PRINTF, C_STRING, C_CUT, C_BINSERT, C_BSET, C_CLONE, R_SWAP, S_ASSIGN, S_CLEAR, S_WRITE,
          X_APPEND, X_INSERT, X_PREPEND, X_SET, X_ASSIGN, X_CLEAR, X_FROMSLICE, X_ADD, X_PRINTF, X_STRING, X_SETVALUE, X_SETREF, XS_FROM, XS_CLEAR, XS_SHIFT, XS_TRIM, XS_WRITE };
struct Inst { int k, a, b, c; };
static const char *Pn[] = { "0", "1", "used-1", "used", "used+2" };
static const char *Ln[] = { "0", "1", "3", "left-1", "left", "left+1" };

static std::vector<Inst> g_tab[2];
static void build_tables()
{
	if (!g_tab[0].empty()) return;
	pat_init();
	std::vector<Inst> &c = g_tab[0], &x = g_tab[1];
	for (int li = 0; li < 6; ++li) c.push_back(Inst{C_APPEND, li, 1, 0});
	c.push_back(Inst{C_APPEND, 1, 0, 0}); c.push_back(Inst{C_APPEND, 5, 0, 0});
	for (int pi = 0; pi < 5; ++pi) for (int li = 0; li < 6; ++li) c.push_back(Inst{C_INSERT, pi, li, 0});
	for (int pi = 0; pi < 5; ++pi) for (int li = 0; li < 6; ++li) c.push_back(Inst{C_SLICE, pi, li, 0});
	{ int ls[] = {0, 1, 2, 5}; for (int l : ls) for (int oi = 0; oi < 6; ++oi) c.push_back(Inst{C_SET, l, oi, 1}); c.push_back(Inst{C_SET, 2, 0, 0}); c.push_back(Inst{C_SET, 2, 5, 0}); }
	for (int li = 0; li < 5; ++li) for (int t = 0; t < 3; ++t) c.push_back(Inst{C_RESERVE, li, t, (li + t) % 2});
	c.push_back(Inst{C_REDUCE, 0, 0, 0});
	for (int t = 0; t < 7; ++t) c.push_back(Inst{C_PRINTF, t, 0, 0});
	c.push_back(Inst{C_STRING, 0, 0, 0});
	for (int pi = 0; pi < 5; ++pi) for (int ci = 0; ci < 5; ++ci) c.push_back(Inst{C_CUT, pi, ci, 0});
	for (int pi = 0; pi < 5; ++pi) for (int li = 0; li < 6; ++li) c.push_back(Inst{C_BINSERT, pi, li, 0});
	for (int pi = 0; pi < 5; ++pi) for (int li = 0; li < 6; ++li) c.push_back(Inst{C_BSET, pi, li, (pi + li) % 3 ? 1 : 0});
	for (int d = 0; d < 2; ++d) for (int s = 0; s < 3; ++s) c.push_back(Inst{C_CLONE, d, s, 0});
	c.push_back(Inst{R_SWAP, 0, 0, 0});
	for (int w = 0; w < 2; ++w) for (int win = 0; win < 4; ++win) c.push_back(Inst{S_ASSIGN, w, win, 0});
	c.push_back(Inst{S_CLEAR, 0, 0, 0});
	for (int ni = 0; ni < 4; ++ni) for (int zi = 0; zi < 6; ++zi) c.push_back(Inst{S_WRITE, ni, zi, 1});
	c.push_back(Inst{S_WRITE, 1, 1, 0}); c.push_back(Inst{S_WRITE, 2, 2, 0}); c.push_back(Inst{S_WRITE, 1, 5, 0});

	for (int li = 0; li < 6; ++li) x.push_back(Inst{X_APPEND, li, 1, 0});
	x.push_back(Inst{X_APPEND, 1, 0, 0}); x.push_back(Inst{X_APPEND, 5, 0, 0});
	for (int pi = 0; pi < 5; ++pi) for (int li = 0; li < 6; ++li) x.push_back(Inst{X_INSERT, pi, li, (pi * 6 + li) % 5 ? 1 : 0});
	x.push_back(Inst{X_PREPEND, 1, 1, 0}); x.push_back(Inst{X_PREPEND, 2, 0, 0});
	for (int si = 0; si < 7; ++si) x.push_back(Inst{X_SET, si, si % 3 ? 1 : 0, 0});
	x.push_back(Inst{X_ASSIGN, 0, 1, 0}); x.push_back(Inst{X_ASSIGN, 1, 0, 0}); x.push_back(Inst{X_CLEAR, 0, 0, 0}); x.push_back(Inst{X_CLEAR, 1, 0, 0});
	x.push_back(Inst{X_FROMSLICE, 0, 0, 0}); x.push_back(Inst{X_ADD, 0, 0, 0});
	for (int t = 0; t < 7; ++t) x.push_back(Inst{X_PRINTF, t, 0, 0});
	x.push_back(Inst{X_STRING, 0, 0, 0});
	x.push_back(Inst{X_SETVALUE, 0, 0, 0}); x.push_back(Inst{X_SETVALUE, 1, 0, 0}); x.push_back(Inst{X_SETVALUE, 2, 0, 0});
	x.push_back(Inst{X_SETREF, 0, 0, 0});
	x.push_back(Inst{R_SWAP, 0, 0, 0});
	x.push_back(Inst{XS_FROM, 0, 0, 0}); x.push_back(Inst{XS_FROM, 1, 0, 0}); x.push_back(Inst{XS_CLEAR, 0, 0, 0});
	for (int n = 0; n < 6; ++n) { x.push_back(Inst{XS_SHIFT, n, 0, 0}); x.push_back(Inst{XS_TRIM, n, 0, 0}); }
	for (int ni = 0; ni < 4; ++ni) for (int zi = 0; zi < 6; ++zi) x.push_back(Inst{XS_WRITE, ni, zi, 1});
	x.push_back(Inst{XS_WRITE, 1, 1, 0}); x.push_back(Inst{XS_WRITE, 2, 2, 0}); x.push_back(Inst{XS_WRITE, 1, 5, 0});
}

template <int API>
struct RawSys {
	Run &r; H h[3]; Mdl m[3]; bool dead; int fault; size_t nap;
	void V(const std::string &sig, const std::string &detail) { report(r, sig, detail); }
	mpt::array *arr(int i) { return reinterpret_cast<mpt::array *>(&h[i]); }
	mpt::slice *sl() { return reinterpret_cast<mpt::slice *>(&h[2]); }

	RawSys(Run &run, uint64_t init) : r(run), dead(false), fault(0), nap(0)
	{
		warm(); build_tables(); if (!g_child && !r.replaying) zygote_start();
		memset(h, 0, sizeof h);
		for (int i = 0; i < 3; ++i) m[i].tr = 0;
		ledger_base(); asan_error();
		if (init) {
			uint64_t c = init - 1; int flags = c % 4, tr = (c / 4) % 3, fill = (c / 12) % 2;
			size_t used = fill ? 63 : 3;
			mpt::buffer *b = LIB(mpt::_mpt_buffer_alloc(used, flags));
			b->_content_traits = trsel(tr); b->_used = used;
			h[0].b = b; m[0].tr = trsel(tr); m[0].b.assign(used, 1);
		}
		relabel();
	}
	~RawSys()
	{
		if (dead) return;
		for (int i = 0; i < 3; ++i) if (h[i].b) { mpt::buffer *b = h[i].b; h[i].b = 0; guarded([&] { b->unref(); }); }
	}
	int nops() { return (int) g_tab[API].size(); }
	int groups(int g[3], mpt::buffer *bs[3])
	{
		int n = 0;
		for (int i = 0; i < 3; ++i) {
			g[i] = -1;
			if (!h[i].b) continue;
			for (int j = 0; j < n; ++j) if (bs[j] == h[i].b) g[i] = j;
			if (g[i] < 0) { bs[n] = h[i].b; g[i] = n++; }
		}
		return n;
	}
	void relabel()
	{
		int g[3]; mpt::buffer *bs[3]; int n = groups(g, bs);
		for (int j = 0; j < n; ++j) {
			mpt::buffer *b = bs[j]; uint8_t *d = bdata(b);
			if (b->_used > b->_size) continue;
			for (size_t i = 0; i < b->_used; ++i) d[i] = lab(j, i);
			memset(d + b->_used, JUNK, b->_size - b->_used);
		}
		for (int i = 0; i < 3; ++i) {
			m[i].b.clear();
			if (!h[i].b) continue;
			for (size_t k = 0; k < h[i].b->_used; ++k) m[i].b.push_back(lab(g[i], k));
		}
	}
	std::string canon()
	{
		int g[3]; mpt::buffer *bs[3]; int n = groups(g, bs);
		std::string s;
		for (int j = 0; j < n; ++j) s += fmt("g%d", j) + bufcanon(bs[j]) + " ";
		for (int i = 0; i < 3; ++i) s += fmt("%s=%s ", i == 2 ? "s" : (i ? "a1" : "a0"), g[i] < 0 ? "-" : fmt("g%d", g[i]).c_str());
		if (h[2].b || h[2].off || h[2].len) {
			size_t used = h[2].b ? h[2].b->_used : 0, end = h[2].off + h[2].len;
			s += fmt("win(o%s n%s %s)", cls5(h[2].off, 2), cls5(h[2].len, 2), end == used ? "E" : (end < used ? "I" : "X"));
		}
		return s;
	}
	// ---- reading back
	bool read(int i, std::vector<uint8_t> &out, std::string &why)
	{
		out.clear();
		mpt::buffer *b = h[i].b;
		if (!b) return true;
		if (b->_used > b->_size) { why = fmt("used size %zu exceeds capacity %zu", (size_t) b->_used, (size_t) b->_size); return false; }
		out.assign(bdata(b), bdata(b) + b->_used);
		return true;
	}
	std::vector<uint8_t> view(const std::vector<uint8_t> &full, size_t off, size_t len, bool &ok)
	{
		ok = off <= full.size() && len <= full.size() - off;
		return ok ? std::vector<uint8_t>(full.begin() + off, full.begin() + off + len) : std::vector<uint8_t>();
	}
	static const char *hname(int i) { return i == 2 ? "slice" : (i ? "array1" : "array0"); }
	std::string stcls(mpt::buffer *b)
	{
		if (!b) return "null";
		uint32_t f = b->get_flags();
		bool sh = f & mpt::BufferShared, im = f & mpt::BufferImmutable;
		return sh ? "shared" : (im ? "immutable" : "sole");
	}
	// compare every handle with its model; w = modified handle (-1: none)
	bool check(const std::string &base, const std::string &desc, int w, bool refused, bool must_refuse = false)
	{
		if (fault) { V(base + signame(fault), desc + ": the call faulted"); dead = true; return false; }
		if (asan_error()) { V(base + "memory-error", desc + ": access outside the buffer / freed memory (AddressSanitizer)"); dead = true; return false; }
		if (must_refuse && !refused) { V(base + "accepted-out-of-range", desc + ": arguments outside the data were not refused"); return false; }
		stat(base.substr(0, base.find('|')) + (refused ? ":refused" : ":ok"));
		for (int pass = 0; pass < 2; ++pass) for (int i = 0; i < 3; ++i) {
			if ((pass == 0) != (i != w)) continue;      // other handles first: a change seen through another handle is the primary finding
			std::vector<uint8_t> got; std::string why;
			const char *grp = i != w ? "other-handle-changed" : (refused ? "refused-but-changed" : "wrong-content");
			if (!read(i, got, why)) { V(base + grp, desc + fmt(": %s: ", hname(i)) + why); dead = true; return false; }
			if (got != m[i].b) { V(base + grp, desc + fmt(": %s %s", hname(i), diffdesc(got, m[i].b).c_str())); return false; }
			if (i != w && h[i].b && h[i].b->_content_traits != m[i].tr) { V(base + grp, desc + fmt(": %s content type changed", hname(i))); return false; }
		}
		if (asan_error()) { V(base + "memory-error", desc + ": reading a handle back touches freed memory"); dead = true; return false; }
		int g[3]; mpt::buffer *bs[3]; size_t n = groups(g, bs), live = ledger_live() - g_lbase;
		if (live != n) {
			V(base + (live > n ? "leak" : "released-while-referenced"), desc + fmt(": %zu buffers allocated, %zu reachable from the handles", live, n));
			if (live < n) dead = true;
			return false;
		}
		for (int i = 0; i < 3; ++i) m[i].tr = h[i].b ? h[i].b->_content_traits : 0;
		return true;
	}
	std::string opname(int op);
	bool apply(int op);
	bool apply_c(const Inst &in, std::string &name);
	bool apply_x(const Inst &in, std::string &name);
	bool slice_write(const Inst &in, bool cxx);
	void nontrivial(mpt::buffer *b) { if (b && (b->get_flags() & (mpt::BufferShared | mpt::BufferImmutable))) { r.count("nontrivial"); stat("target-shared-or-immutable"); } }
};

static std::string argcls(size_t pos, size_t len, size_t used, size_t cap, bool overwrite)
{
	size_t total = overwrite ? pos + len : (pos > used ? pos : used) + len;
	return std::string(!len ? "len=0" : (total <= cap ? "fits" : "exceeds-capacity")) + (pos > used ? ",behind-gap" : "");
}

template <int API> std::string RawSys<API>::opname(int op)
{
	const Inst &in = g_tab[API][op];
	switch (in.k) {
	case C_APPEND: return fmt("mpt_array_append(a0,%s,%s)", Ln[in.a], in.b ? "data" : "NULL");
	case C_INSERT: return fmt("mpt_array_insert(a0,%s,%s)", Pn[in.a], Ln[in.b]);
	case C_SLICE: return fmt("mpt_array_slice(a0,%s,%s)+write", Pn[in.a], Ln[in.b]);
	case C_SET: { static const char *on[] = { "0", "1", "-1", "-(used+1)", "used", "used+2" }; return fmt("mpt_array_set(a0,'y',%s,%s,%s)", Ln[in.a], in.c ? "data" : "NULL", on[in.b]); }
	case C_RESERVE: { static const char *rn[] = { "0", "used-1", "used", "cap", "cap+1" }; return fmt("mpt_array_reserve(a0,%s,%s)%s", rn[in.a], trname(trsel(in.b)), in.c ? "+buffer_set" : ""); }
	case C_REDUCE: return "mpt_array_reduce(a0)";
	case C_PRINTF: case X_PRINTF: { static const char *tn[] = { "0", "5", "left-1", "left", "left+1", "70", "%d" }; return fmt("%s(a0,text:%s)", in.k == C_PRINTF ? "mpt_printf" : "array::printf", tn[in.a]); }
	case C_STRING: return "mpt_array_string(a0)";
	case C_CUT: { static const char *cn[] = { "0", "1", "used-off", "used-off+1", "used+1" }; return fmt("mpt_buffer_cut(a0.buf,%s,%s)", Pn[in.a], cn[in.b]); }
	case C_BINSERT: return fmt("mpt_buffer_insert(a0.buf,%s,%s)", Pn[in.a], Ln[in.b]);
	case C_BSET: return fmt("mpt_buffer_set(a0.buf,%s,%s,%s)", Pn[in.a], in.c ? "data" : "NULL", Ln[in.b]);
	case C_CLONE: return fmt("mpt_array_clone(a%d,%s)", in.a, in.b == 0 ? fmt("a%d", 1 - in.a).c_str() : (in.b == 1 ? "NULL" : "slice.array"));
	case R_SWAP: return "swap(a0,a1)";
	case S_ASSIGN: { static const char *wn[] = { "all", "inner", "empty-at-end", "prefix" }; return fmt("slice=a%d[%s]", in.a, wn[in.b]); }
	case S_CLEAR: case XS_CLEAR: return "slice=empty";
	case S_WRITE: case XS_WRITE: { static const char *zn[] = { "0", "1", "3", "avail-1", "avail", "avail+1" }; return fmt("%s(%d,%s,%s)", in.k == S_WRITE ? "mpt_slice_write" : "slice::write", in.a, in.c ? "data" : "NULL", zn[in.b]); }
	case X_APPEND: return fmt("array::append(%s,%s)", Ln[in.a], in.b ? "data" : "NULL");
	case X_INSERT: return fmt("array::insert(%s,%s,%s)", Pn[in.a], Ln[in.b], in.c ? "data" : "NULL");
	case X_PREPEND: return fmt("array::prepend(%s,%s)", Ln[in.a], in.b ? "data" : "NULL");
	case X_SET: { static const char *sn[] = { "0", "1", "used-1", "used", "used+1", "cap", "cap+1" }; return fmt("array::set(%s,%s)", sn[in.a], in.b ? "data" : "NULL"); }
	case X_ASSIGN: return fmt("a%d=a%d", in.a, in.b);
	case X_CLEAR: return fmt("a%d=array()", in.a);
	case X_FROMSLICE: return "a0=slice";
	case X_ADD: return "a0+=*a1.data()";
	case X_STRING: return "array::string()";
	case X_SETVALUE: return fmt("array::set(value:%s)", in.a == 0 ? "string" : (in.a == 1 ? "empty-string" : "vector"));
	case X_SETREF: return "a0.set(reference<buffer>(a1))";
	case XS_FROM: return fmt("slice=slice(a%d)", in.a);
	case XS_SHIFT: case XS_TRIM: { static const char *nn[] = { "-1", "0", "1", "len", "len+1", "-(off+1)" }; return fmt("slice::%s(%s)", in.k == XS_SHIFT ? "shift" : "trim", nn[in.a]); }
	}
	return "?";
}

// ------------------------------------------------------------------ applying one letter
template <int API> bool RawSys<API>::apply(int op)
{
	const Inst &in = g_tab[API][op];
	relabel();
	fault = 0;
	asan_error();
	std::string name = opname(op);
	if (in.k == R_SWAP) {
		if (h[0].b == h[1].b) return false;
		std::swap(h[0].b, h[1].b); std::swap(m[0], m[1]);
		return true;
	}
	std::string hint = name.substr(0, name.find('('));
	r.hint(hint.c_str());
	// structural class of everything the step can touch
	std::string key = fmt("%d/%d/", API, op);
	if (in.k == S_WRITE || in.k == XS_WRITE || in.k == XS_SHIFT || in.k == XS_TRIM) key += bufcanon(h[2].b) + fmt("o%s n%s e%d", cls5(h[2].off, 3), cls5(h[2].len, 3), h[2].b ? (h[2].off + h[2].len == h[2].b->_used) : 0);
	else if (in.k == C_CLONE || in.k == X_ASSIGN || in.k == X_ADD || in.k == X_SETREF) key += bufcanon(h[0].b) + bufcanon(h[1].b) + bufcanon(h[2].b) + (h[0].b == h[1].b ? "=" : "") + (h[0].b == h[2].b ? "~" : "");
	else if (in.k == S_ASSIGN || in.k == S_CLEAR || in.k == XS_FROM || in.k == XS_CLEAR || in.k == X_FROMSLICE) key += bufcanon(h[0].b) + bufcanon(h[1].b) + bufcanon(h[2].b) + fmt("o%s n%s", cls5(h[2].off, 3), cls5(h[2].len, 3)) + (h[0].b == h[2].b ? "~" : "");
	else key += bufcanon(h[0].b);
	bool frontier = r.cur.size() == nap + 2;
	++nap;
	if (frontier && g_expired) return false;     // deadline / violation cap reached: drain the queue without executing
	if (frontier && !screened(r, API ? 'x' : 'c', key, hint, name + " in state " + canon())) return false;
	++r.executions;
	return API == 0 ? apply_c(in, name) : apply_x(in, name);
}

template <int API> bool RawSys<API>::slice_write(const Inst &in, bool cxx)
{
	mpt::buffer *b = h[2].b;
	size_t cap = b ? (size_t) b->_size : 64, off = h[2].off, len = h[2].len, end = off + len;
	long avail = cap >= end ? (long) (cap - end) : 0;
	long Z[6] = { 0, 1, 3, avail - 1, avail, avail + 1 }, size;
	size_t N = in.a;
	if (!pick(Z, in.b, size) || N * size > PATN) return false;
	bool okv; std::vector<uint8_t> oldview = view(m[2].b, off, len, okv);
	if (!okv) return false;
	const uint8_t *src = in.c ? PAT : ZERO;
	std::string st = stcls(b) + (b ? (end == b->_used ? ",window-at-end" : ",window-inside") : "");
	std::string arg = !N ? "nblk=0" : (!size ? "size=0" : ((long) (N * size) <= avail ? "fits" : ((long) size <= avail ? "partly-fits" : "exceeds-capacity")));
	std::string base = std::string("slice_write|") + st + "|" + arg + "|";
	std::string desc = fmt("%s(nblk=%zu, %s, size=%ld) [window off=%zu len=%zu, capacity %zu] in state %s", cxx ? "slice::write" : "mpt_slice_write", N, in.c ? "data" : "NULL", size, off, len, cap, canon().c_str());
	r.note("%s", desc.c_str());
	nontrivial(b);
	ssize_t ret = -1;
	fault = guarded([&] { mc::Lib l; ret = cxx ? sl()->write(N, in.c ? PAT : 0, size) : mpt::mpt_slice_write(sl(), N, in.c ? PAT : 0, size); });
	bool refused = ret < 0;
	if (!fault && !asan_peek()) {
		mpt::buffer *nb = h[2].b;
		if (b && nb && nb->_size != cap) { r.count("nontrivial"); stat("reallocated"); }
		if (refused) {
			if (h[2].off != off || h[2].len != len) { V(base + "refused-but-changed", desc + fmt(": refused (%zd) but the window is now off=%zu len=%zu", ret, (size_t) h[2].off, (size_t) h[2].len)); return false; }
		} else {
			std::vector<uint8_t> full; std::string why;
			if (nb ? (h[2].off + h[2].len > nb->_used || nb->_used > nb->_size) : (h[2].off || h[2].len)) {
				V(base + "wrong-result", desc + fmt(": returned %zd; slice window off=%zu len=%zu lies outside the buffer data (used %zu, capacity %zu)", ret, (size_t) h[2].off, (size_t) h[2].len, nb ? (size_t) nb->_used : 0, nb ? (size_t) nb->_size : 0));
				return false;
			}
			read(2, full, why);
			bool ok2; std::vector<uint8_t> nv = view(full, h[2].off, h[2].len, ok2), want = oldview;
			if (size) {
				if ((size_t) ret > N) { V(base + "wrong-result", desc + fmt(": returned %zd elements for %zu offered", ret, N)); return false; }
				want.insert(want.end(), src, src + ret * size);
			}
			if (nv != want) { V(base + "wrong-content", desc + fmt(": returned %zd; slice %s", ret, diffdesc(nv, want).c_str())); return false; }
			m[2].b = full;
		}
	}
	return check(base, desc, 2, refused);
}

template <int API> bool RawSys<API>::apply_c(const Inst &in, std::string &name)
{
	using namespace mpt;
	mpt::buffer *b = h[0].b;
	size_t used = b ? (size_t) b->_used : 0, cap = b ? (size_t) b->_size : 64, left = cap - used;
	long P[5] = { 0, 1, (long) used - 1, (long) used, (long) used + 2 };
	long L[6] = { 0, 1, 3, (long) left - 1, (long) left, (long) left + 1 };
	std::string st = stcls(b), pre = canon();
	bool sole = b && st == "sole";
	long pos = 0, len = 0;
	std::string base, desc;
	auto mk = [&](const char *op, const std::string &arg) {
		base = std::string(op) + "|" + st + "|" + arg + "|";
		desc = fmt("%s [used=%zu capacity=%zu pos=%ld len=%ld] in state %s", name.c_str(), used, cap, pos, len, pre.c_str());
		r.note("%s", desc.c_str());
	};
	auto realloc_seen = [&]() { if (b && h[0].b && h[0].b->_size != cap) { r.count("nontrivial"); stat("reallocated"); } };
	auto ptr_ok = [&](void *ret, size_t off) { return h[0].b && ret == bdata(h[0].b) + off; };
	auto bad_ptr = [&](size_t off) { V(base + "wrong-result", desc + fmt(": returned address is not buffer data + %zu", off)); return false; };
	auto writable = [&](size_t off, size_t n) { mpt::buffer *nb = h[0].b; return nb && nb->_used <= nb->_size && off + n <= nb->_used; };
	std::vector<uint8_t> &mb = m[0].b;

	switch (in.k) {
	case C_APPEND: {
		if (!pick(L, in.a, len) || (size_t) len > PATN) return false;
		pos = used; mk("array_append", argcls(used, len, used, cap, false)); nontrivial(b);
		void *ret = 0;
		fault = guarded([&] { mc::Lib l; ret = mpt_array_append(arr(0), len, in.b ? PAT : 0); });
		if (!fault && ret) {
			realloc_seen();
			if (!ptr_ok(ret, used)) return bad_ptr(used);
			mb.insert(mb.end(), in.b ? PAT : ZERO, (in.b ? PAT : ZERO) + len);
		}
		return check(base, desc, 0, !ret); }
	case C_INSERT: case C_BINSERT: {
		if (!pick(P, in.a, pos) || !pick(L, in.b, len) || (size_t) len > PATN) return false;
		if (in.k == C_BINSERT && !sole) return false;
		mk(in.k == C_INSERT ? "array_insert" : "buffer_insert", argcls(pos, len, used, cap, false)); nontrivial(b);
		void *ret = 0;
		fault = guarded([&] { mc::Lib l; ret = in.k == C_INSERT ? mpt_array_insert(arr(0), pos, len) : mpt_buffer_insert(b, pos, len); });
		if (!fault && ret) {
			realloc_seen();
			if (!ptr_ok(ret, pos)) return bad_ptr(pos);
			if ((size_t) pos > mb.size()) mb.resize(pos, 0);
			mb.insert(mb.begin() + pos, PAT, PAT + len);
			if (writable(pos, len)) memcpy(ret, PAT, len);      // the inserted region is documented as uninitialised: the caller fills it
			else { V(base + "wrong-result", desc + ": the returned region does not lie inside the buffer data"); return false; }
		}
		return check(base, desc, 0, !ret); }
	case C_SLICE: {
		if (!pick(P, in.a, pos) || !pick(L, in.b, len) || (size_t) len > PATN) return false;
		mk("array_slice", argcls(pos, len, used, cap, true)); nontrivial(b);
		void *ret = 0;
		fault = guarded([&] { mc::Lib l; ret = mpt_array_slice(arr(0), pos, len); });
		if (fault || !ret) return check(base, desc, 0, true);
		realloc_seen();
		if (!ptr_ok(ret, pos)) return bad_ptr(pos);
		if ((size_t) (pos + len) > mb.size()) mb.resize(pos + len, 0);
		if (!check(base, desc, 0, false)) return false;     // new area must read zero before the caller writes
		memcpy(ret, PAT, len); std::copy(PAT, PAT + len, mb.begin() + pos);
		return check(base, desc + " (after writing through the returned address)", 0, false); }
	case C_SET: case C_BSET: {
		const uint8_t *src; long p;
		if (in.k == C_SET) {
			if (!pick(L, in.a, len)) return false;
			long O[6] = { 0, 1, -1, -(long) used - 1, (long) used, (long) used + 2 };
			for (int j = 0; j < in.b; ++j) if (O[j] == O[in.b]) return false;
			pos = O[in.b]; p = pos < 0 ? (long) used + pos : pos;
		} else {
			if (!sole || !pick(P, in.a, pos) || !pick(L, in.b, len)) return false;
			p = pos;
		}
		if ((size_t) len > PATN) return false;
		src = in.c ? PAT : ZERO;
		mk(in.k == C_SET ? "array_set" : "buffer_set", p < 0 ? "pos<0" : argcls(p, len, used, cap, true)); nontrivial(b);
		void *ret = 0; long rc = -1;
		if (in.k == C_SET) fault = guarded([&] { mc::Lib l; ret = mpt_array_set(arr(0), T_Y, len, in.c ? PAT : 0, pos); });
		else fault = guarded([&] { mc::Lib l; rc = mpt_buffer_set(b, b->_content_traits, pos, in.c ? PAT : 0, len); });
		bool refused = in.k == C_SET ? !ret : rc < 0;
		if (!fault && !refused && p >= 0) {
			realloc_seen();
			if (in.k == C_SET && !ptr_ok(ret, p)) return bad_ptr(p);
			if ((size_t) p > mb.size()) mb.resize(p, 0);
			if ((size_t) (p + len) > mb.size()) mb.resize(p + len, 0);
			std::copy(src, src + len, mb.begin() + p);
		}
		return check(base, desc, 0, refused, p < 0); }
	case C_RESERVE: {
		long R[5] = { 0, (long) used - 1, (long) used, (long) cap, (long) cap + 1 };
		if (!pick(R, in.a, len)) return false;
		const type_traits *T = trsel(in.b), *old = b ? b->_content_traits : 0;
		bool nocopy_shared = b && (b->get_flags() & BufferNoCopy) && (b->get_flags() & (BufferShared | BufferImmutable));
		mk("array_reserve", std::string(T == old ? "same-type" : "type-change") + ((size_t) len < used ? ",len<used" : ((size_t) len <= cap ? ",fits" : ",exceeds-capacity"))); nontrivial(b);
		mpt::buffer *ret = 0;
		fault = guarded([&] { mc::Lib l; ret = mpt_array_reserve(arr(0), len, T); });
		if (!fault && ret) {
			realloc_seen();
			if (ret != h[0].b || ret->_content_traits != T || ret->_size < (size_t) len) { V(base + "wrong-result", desc + ": returned buffer is not installed / has the wrong type / is too small"); return false; }
			std::vector<uint8_t> got; std::string why;
			if (!read(0, got, why)) { V(base + "wrong-content", desc + ": " + why); dead = true; return false; }
			bool prefix = got.size() <= mb.size() && std::equal(got.begin(), got.end(), mb.begin()) && got.size() >= std::min(used, (size_t) len);
			if (!prefix && !(got.empty() && (T != old || nocopy_shared))) { V(base + "wrong-content", desc + ": content after reserve is neither the old content (possibly cut to the reserved size) nor empty after a type change: " + diffdesc(got, mb)); return false; }
			if (got.size() < mb.size()) stat(got.empty() ? "reserve:content-dropped(not flagged)" : "reserve:content-cut(not flagged)");
			mb = got;
			if (in.c && len >= 1) {      // documented use: the caller fills the reserved buffer through the buffer-level calls (meta_new.c)
				long rc = -1;
				fault = guarded([&] { mc::Lib l; rc = mpt_buffer_set(ret, T, 0, PAT, 1); });
				if (!fault && rc >= 0) { if (mb.empty()) mb.resize(1); mb[0] = PAT[0]; }
			}
		}
		return check(base, desc, 0, !ret); }
	case C_REDUCE: {
		mk("array_reduce", "-"); nontrivial(b);
		size_t ret = 0;
		fault = guarded([&] { mc::Lib l; ret = mpt_array_reduce(arr(0)); });
		if (!fault) { realloc_seen(); if (ret != (h[0].b ? h[0].b->_size : 0)) { V(base + "wrong-result", desc + fmt(": returned %zu, capacity is %zu", ret, h[0].b ? (size_t) h[0].b->_size : 0)); return false; } }
		return check(base, desc, 0, false); }
	case C_PRINTF: {
		long TL[6] = { 0, 5, (long) left - 1, (long) left, (long) left + 1, 70 };
		if (in.a < 6) { if (!pick(TL, in.a, len) || len > 1000) return false; } else len = 5;
		std::string text; for (long i = 0; i < len; ++i) text += in.a < 6 ? (char) ('a' + i % 26) : (char) ('1' + i);
		pos = used; mk("printf", (size_t) len < left ? "fits" : ((size_t) len == left ? "fills-capacity" : "exceeds-capacity")); nontrivial(b);
		int ret = -1;
		fault = guarded([&] { mc::Lib l; ret = in.a < 6 ? mpt_printf(arr(0), "%s", text.c_str()) : mpt_printf(arr(0), "%d", 12345); });
		if (!fault && ret >= 0) {
			realloc_seen();
			if (ret != len) { V(base + "wrong-result", desc + fmt(": returned %d for %ld characters", ret, len)); return false; }
			mb.insert(mb.end(), text.begin(), text.end());
		}
		return check(base, desc, 0, ret < 0); }
	case C_STRING: {
		mk("array_string", "-"); nontrivial(b);
		char *ret = 0;
		fault = guarded([&] { mc::Lib l; ret = mpt_array_string(arr(0)); });
		if (!fault && ret) {
			realloc_seen();
			if (std::find(mb.begin(), mb.end(), 0) == mb.end()) mb.push_back(0);
			if (!check(base, desc, 0, false)) return false;
			if (!ptr_ok(ret, 0)) return bad_ptr(0);
			return true;
		}
		return check(base, desc, 0, true); }
	case C_CUT: {
		if (!sole || !pick(P, in.a, pos)) return false;
		long C[5] = { 0, 1, (long) used - pos, (long) used - pos + 1, (long) used + 1 };
		if (!pick(C, in.b, len)) return false;
		bool must = (size_t) pos > used || (len && (size_t) (pos + len) > used);
		mk("buffer_cut", std::string((size_t) pos < used ? "pos<used" : ((size_t) pos == used ? "pos=used" : "pos>used")) + (!len ? ",len=0" : (must ? ",beyond-data" : ",inside")));
		ssize_t rc = -1;
		fault = guarded([&] { mc::Lib l; rc = mpt_buffer_cut(b, pos, len); });
		if (!fault && rc >= 0 && !must) { if (!len) mb.resize(pos); else mb.erase(mb.begin() + pos, mb.begin() + pos + len); }
		return check(base, desc, 0, rc < 0, must); }
	case C_CLONE: {
		int d = in.a, s = in.b == 0 ? 1 - d : (in.b == 2 ? 2 : -1);
		mpt::buffer *db = h[d].b, *sb = s >= 0 ? h[s].b : 0;
		st = stcls(db);
		mk("array_clone", s < 0 ? "source-pointer-null" : (!sb ? "source-empty" : (sb == db ? "same-buffer" : "other-buffer")));
		int rc = -1;
		fault = guarded([&] { mc::Lib l; rc = mpt_array_clone(arr(d), s < 0 ? 0 : reinterpret_cast<mpt::array *>(&h[s])); });
		if (!fault && rc >= 0) {
			int want = sb == db ? 0 : (!db ? 1 : (!sb ? 2 : 3));
			if (s >= 0) { m[d].b = m[s].b; m[d].tr = m[s].tr; } else { m[d].b.clear(); m[d].tr = 0; }
			if (rc != want) { V(base + "wrong-result", desc + fmt(": returned %d, documented result is %d", rc, want)); return false; }
		}
		return check(base, desc, d, rc < 0); }
	case S_ASSIGN: case S_CLEAR: {
		int w = in.k == S_ASSIGN ? in.a : -1;
		mpt::buffer *nb = w >= 0 ? h[w].b : 0;
		size_t u = nb ? (size_t) nb->_used : 0, o = 0, n = u;
		if (in.k == S_ASSIGN) {
			if (in.b == 1) { if (u < 3) return false; o = 1; n = u - 2; }
			else if (in.b == 2) { if (u < 1) return false; o = u; n = 0; }
			else if (in.b == 3) { if (u < 1) return false; n = u - 1; }
		} else if (!h[2].b && !h[2].off && !h[2].len) return false;
		mk("slice-assign", "-");
		if (nb) nb->addref();
		if (h[2].b) { mpt::buffer *ob = h[2].b; guarded([&] { ob->unref(); }); }
		h[2].b = nb; h[2].off = o; h[2].len = n;
		if (w >= 0) { m[2].b = m[w].b; m[2].tr = m[w].tr; } else { m[2].b.clear(); m[2].tr = 0; }
		return check(base, desc, 2, false); }
	case S_WRITE: return slice_write(in, false);
	}
	return false;
}

template <int API> bool RawSys<API>::apply_x(const Inst &in, std::string &name)
{
	mpt::buffer *b = h[0].b;
	size_t used = b ? (size_t) b->_used : 0, cap = b ? (size_t) b->_size : 64, left = cap - used;
	long P[5] = { 0, 1, (long) used - 1, (long) used, (long) used + 2 };
	long L[6] = { 0, 1, 3, (long) left - 1, (long) left, (long) left + 1 };
	std::string st = stcls(b), pre = canon();
	long pos = 0, len = 0;
	std::string base, desc;
	auto mk = [&](const char *op, const std::string &arg) {
		base = std::string(op) + "|" + st + "|" + arg + "|";
		desc = fmt("%s [used=%zu capacity=%zu pos=%ld len=%ld] in state %s", name.c_str(), used, cap, pos, len, pre.c_str());
		r.note("%s", desc.c_str());
	};
	auto realloc_seen = [&]() { if (b && h[0].b && h[0].b->_size != cap) { r.count("nontrivial"); stat("reallocated"); } };
	auto ptr_ok = [&](void *ret, size_t off) { return h[0].b && ret == bdata(h[0].b) + off; };
	auto bad_ptr = [&](size_t off) { V(base + "wrong-result", desc + fmt(": returned address is not buffer data + %zu", off)); return false; };
	std::vector<uint8_t> &mb = m[0].b;

	switch (in.k) {
	case X_APPEND: {
		if (!pick(L, in.a, len) || (size_t) len > PATN) return false;
		pos = used; mk("array::append", argcls(used, len, used, cap, false)); nontrivial(b);
		void *ret = 0;
		fault = guarded([&] { mc::Lib l; ret = arr(0)->append(len, in.b ? PAT : 0); });
		if (!fault && ret) {
			realloc_seen();
			mb.insert(mb.end(), in.b ? PAT : ZERO, (in.b ? PAT : ZERO) + len);
			if (!check(base, desc, 0, false)) return false;
			return ptr_ok(ret, used) ? true : bad_ptr(used);
		}
		return check(base, desc, 0, true); }
	case X_INSERT: case X_PREPEND: {
		bool data;
		if (in.k == X_INSERT) { if (!pick(P, in.a, pos) || !pick(L, in.b, len)) return false; data = in.c; }
		else { if (!pick(L, in.a, len)) return false; pos = 0; data = in.b; }
		if ((size_t) len > PATN) return false;
		mk("array::insert", argcls(pos, len, used, cap, false)); nontrivial(b);
		void *ret = 0;
		fault = guarded([&] { mc::Lib l; ret = in.k == X_INSERT ? arr(0)->insert(pos, len, data ? PAT : 0) : arr(0)->prepend(len, data ? PAT : 0); });
		if (!fault && ret) {
			realloc_seen();
			if ((size_t) pos > mb.size()) mb.resize(pos, 0);
			mb.insert(mb.begin() + pos, data ? PAT : ZERO, (data ? PAT : ZERO) + len);
			m[0].tr = 0;
			if (!check(base, desc, 0, false)) return false;
			return ptr_ok(ret, pos) ? true : bad_ptr(pos);
		}
		return check(base, desc, 0, true); }
	case X_SET: {
		long S[7] = { 0, 1, (long) used - 1, (long) used, (long) used + 1, (long) cap, (long) cap + 1 };
		if (!pick(S, in.a, len) || (size_t) len > PATN) return false;
		mk("array::set", (size_t) len <= used ? "len<=used" : ((size_t) len <= cap ? "fits" : "exceeds-capacity")); nontrivial(b);
		void *ret = 0;
		fault = guarded([&] { mc::Lib l; ret = arr(0)->set(len, in.b ? PAT : 0); });
		if (!fault && ret) {
			realloc_seen();
			mb.assign(in.b ? PAT : ZERO, (in.b ? PAT : ZERO) + len);
			if (!check(base, desc, 0, false)) return false;
			return ptr_ok(ret, 0) ? true : bad_ptr(0);
		}
		return check(base, desc, 0, true); }
	case X_ASSIGN: case X_CLEAR: {
		int d = in.a, s = in.k == X_ASSIGN ? in.b : -1;
		st = stcls(h[d].b);
		if (s < 0 && !h[d].b) return false;
		mk("array::operator=", s < 0 ? "empty" : (h[s].b == h[d].b ? "same-buffer" : "other-buffer"));
		fault = guarded([&] { mc::Lib l; if (s >= 0) *arr(d) = *arr(s); else *arr(d) = mpt::array(); });
		if (!fault) { if (s >= 0) { m[d].b = m[s].b; m[d].tr = m[s].tr; } else { m[d].b.clear(); m[d].tr = 0; } }
		return check(base, desc, d, false); }
	case X_FROMSLICE: {
		bool okv; std::vector<uint8_t> v = view(m[2].b, h[2].off, h[2].len, okv);
		if (!okv) return false;
		mk("array::operator=(slice)", h[2].b == b ? "same-buffer" : "other-buffer"); nontrivial(b);
		fault = guarded([&] { mc::Lib l; *arr(0) = *sl(); });
		if (!fault) { realloc_seen(); mb = v; }
		return check(base, desc, 0, false); }
	case X_ADD: {
		if (!h[1].b) return false;
		len = h[1].b->_used; pos = used;
		mk("array::operator+=", argcls(used, len, used, cap, false) + (h[1].b == b ? ",same-buffer" : "")); nontrivial(b);
		fault = guarded([&] { mc::Lib l; *arr(0) += *arr(1)->data(); });
		bool refused = !fault && (h[0].b ? (size_t) h[0].b->_used : 0) == used && len;   // no result is reported: unchanged length = refused
		if (!fault && !refused) { realloc_seen(); std::vector<uint8_t> add = m[1].b; mb.insert(mb.end(), add.begin(), add.end()); }
		return check(base, desc, 0, refused); }
	case X_PRINTF: {
		long TL[6] = { 0, 5, (long) left - 1, (long) left, (long) left + 1, 70 };
		if (in.a < 6) { if (!pick(TL, in.a, len) || len > 1000) return false; } else len = 5;
		std::string text; for (long i = 0; i < len; ++i) text += in.a < 6 ? (char) ('a' + i % 26) : (char) ('1' + i);
		pos = used; mk("printf", (size_t) len < left ? "fits" : ((size_t) len == left ? "fills-capacity" : "exceeds-capacity")); nontrivial(b);
		int ret = -1;
		fault = guarded([&] { mc::Lib l; ret = in.a < 6 ? arr(0)->printf("%s", text.c_str()) : arr(0)->printf("%d", 12345); });
		if (!fault && ret >= 0) {
			realloc_seen();
			if (ret != len) { V(base + "wrong-result", desc + fmt(": returned %d for %ld characters", ret, len)); return false; }
			mb.insert(mb.end(), text.begin(), text.end());
		}
		return check(base, desc, 0, ret < 0); }
	case X_STRING: {
		mk("array_string", "-"); nontrivial(b);
		char *ret = 0;
		fault = guarded([&] { mc::Lib l; ret = arr(0)->string(); });
		if (!fault && ret) {
			realloc_seen();
			if (std::find(mb.begin(), mb.end(), 0) == mb.end()) mb.push_back(0);
			if (!check(base, desc, 0, false)) return false;
			return ptr_ok(ret, 0) ? true : bad_ptr(0);
		}
		return check(base, desc, 0, true); }
	case X_SETVALUE: {
		static const char *txt[2] = { "hey", "" };
		struct iovec vec; vec.iov_base = PAT; vec.iov_len = 3;
		mpt::value v;
		if (in.a < 2) v.set('s', &txt[in.a]); else v.set(mpt::TypeVector, &vec);
		mk("array::set(value)", in.a == 2 ? "vector" : "string"); nontrivial(b);
		int rc = -1;
		fault = guarded([&] { mc::Lib l; rc = arr(0)->set(v); });
		if (!fault && rc >= 0) {
			realloc_seen();
			if (in.a < 2) { mb.assign(txt[in.a], txt[in.a] + strlen(txt[in.a]) + 1); }
			else mb.assign(PAT, PAT + 3);
		}
		return check(base, desc, 0, rc < 0); }
	case X_SETREF: {
		if (h[1].b == b) return false;
		mk("array::set(reference)", "-");
		bool ok = false;
		fault = guarded([&] { mc::Lib l; mpt::reference<mpt::buffer> ref; if (h[1].b) { h[1].b->addref(); ref.set_instance(h[1].b); } ok = arr(0)->set(ref); });
		if (!fault && ok) { m[0].b = m[1].b; m[0].tr = m[1].tr; }
		return check(base, desc, 0, !ok); }
	case XS_FROM: case XS_CLEAR: {
		int w = in.k == XS_FROM ? in.a : -1;
		if (w < 0 && !h[2].b && !h[2].off && !h[2].len) return false;
		st = stcls(h[2].b);
		mk("slice-assign", "-");
		fault = guarded([&] { mc::Lib l; if (w >= 0) *sl() = mpt::slice(*arr(w)); else *sl() = mpt::slice(); });
		if (!fault) {
			if (w >= 0) { m[2].b = m[w].b; m[2].tr = m[w].tr; } else { m[2].b.clear(); m[2].tr = 0; }
			size_t want = w >= 0 && h[w].b && !h[w].b->_content_traits ? (size_t) h[w].b->_used : 0;
			if (h[2].off != 0 || h[2].len != want) { V(base + "wrong-result", desc + fmt(": window off=%zu len=%zu, expected 0/%zu", (size_t) h[2].off, (size_t) h[2].len, want)); return false; }
		}
		return check(base, desc, 2, false); }
	case XS_SHIFT: case XS_TRIM: {
		size_t off = h[2].off, n = h[2].len;
		size_t dlen = h[2].b && !h[2].b->_content_traits ? (size_t) h[2].b->_used : 0;
		long N[6] = { -1, 0, 1, (long) n, (long) n + 1, -(long) off - 1 }, a = N[in.a];
		for (int j = 0; j < in.a; ++j) if (N[j] == a) return false;
		bool shift = in.k == XS_SHIFT, must;
		size_t woff = off, wlen = n;
		if (shift) { must = a >= 0 ? (size_t) a > n : (size_t) -a > off; woff = off + a; wlen = n - a; }
		else { must = a >= 0 ? (size_t) a > n : off + n + (size_t) -a > dlen; wlen = n - a; }
		st = stcls(h[2].b); pos = a;
		mk(shift ? "slice::shift" : "slice::trim", a < 0 ? (must ? "grow,beyond-data" : "grow,inside") : (must ? "beyond-window" : "inside"));
		bool ok = false;
		fault = guarded([&] { mc::Lib l; ok = shift ? sl()->shift(a) : sl()->trim(a); });
		if (!fault && ok && !must && (h[2].off != woff || h[2].len != wlen)) { V(base + "wrong-result", desc + fmt(": window off=%zu len=%zu, expected %zu/%zu", (size_t) h[2].off, (size_t) h[2].len, woff, wlen)); return false; }
		if (!fault && !ok && (h[2].off != off || h[2].len != n)) { V(base + "refused-but-changed", desc + ": refused but the window moved"); return false; }
		return check(base, desc, 2, !ok, must); }
	case XS_WRITE: return slice_write(in, true);
	}
	return false;
}

//@@FAMILIES@@

// ------------------------------------------------------------------ one case in a throw-away process (see screened())
template <class Sys> static std::string run_case_t(const Vec &v)
{
	Run r; r.cur = v;
	g_child = true; g_child_out.clear();
	Sys s(r, v[0]);
	for (size_t i = 1; i < v.size() && g_child_out.empty(); ++i) if (!s.apply((int) v[i])) break;
	return g_child_out.empty() ? std::string("OK") : g_child_out;
}
static std::string run_case(char fam, const Vec &v)
{
	switch (fam) {
	case 'c': return run_case_t<RawSys<0> >(v);
	case 'x': return run_case_t<RawSys<1> >(v);
	}
	return "OK";
}

// ------------------------------------------------------------------ jobs
static int depth_of(Tier t, char fam)
{
	switch (fam) {
	case 'c': return t == Quick ? 3 : 4;
	case 'x': return t == Quick ? 3 : 4;
	}
	return 3;
}
void mc_jobs(Tier t, std::vector<std::string> &jobs)
{
	for (const char *fam : { "c", "x" }) {
		jobs.push_back(std::string(fam) + ":0");
		for (int fill = 0; fill < 2; ++fill) for (int tr = 0; tr < 3; ++tr) for (int fl = 0; fl < 4; ++fl) {
			if (t == Quick && !((tr == 0 && fill == 0) || (fl == 0 && fill == 0) || (fl == 0 && tr == 0))) continue;
			jobs.push_back(fmt("%s:%d", fam, 1 + fl + 4 * tr + 12 * fill));
		}
	}
}
static void required(Run &r, char fam)
{
	r.require("nontrivial");
}
void mc_explore(Run &r, const std::string &job)
{
	Stats st; g_stats = &st; g_expired = false;
	char fam = job[0]; uint64_t init = strtoull(job.c_str() + 2, 0, 10);
	required(r, fam);
	std::vector<uint64_t> inits(1, init);
	if (fam == 'c') bfs_histories<RawSys<0> >(r, inits, depth_of(r.tier, fam));
	else if (fam == 'x') bfs_histories<RawSys<1> >(r, inits, depth_of(r.tier, fam));
	for (auto &kv : st.c) r.count(std::string(1, fam) + ":" + kv.first, kv.second);
	g_stats = 0;
}
void mc_replay(Run &r, const std::string &job, const Vec &v)
{
	char fam = job[0];
	if (fam == 'c') bfs_replay<RawSys<0> >(r, v);
	else if (fam == 'x') bfs_replay<RawSys<1> >(r, v);
}

// C04 — copy-on-write arrays behave as independent values.
// History BFS (mc::bfs_histories) over three handles that may share buffers.
//   family "c": C API   — two mpt arrays + one mpt slice (array/buffer/slice functions)
//   family "x": C++ API — two mpt::array + one mpt::slice
//   family "t": typed_array<int> x2 + unique_array<int>
//   family "p": pointer_array<int> x2 + typed_array<int*>
//   family "m": map<int,int> x3
// Every handle has its own value model (std::vector).  Before every operation the content of
// every distinct buffer is relabelled with distinct non-zero bytes and the slack is filled with
// junk (the array code is content-oblivious: it moves bytes by index only), the operation runs on
// the real code, and then EVERY handle is read back and compared with its model: the modified
// handle must read what a plain vector would contain, every other handle must read what it read
// before.  A refusal (NULL / negative / false) is never a violation, but the state must be
// unchanged; arguments outside the data must be refused.  States are deduplicated by structure
// (share partition, traits, flags, used/slack/capacity classes), arguments are relative to
// used size and capacity so that every boundary is hit from every structural state.
// Steps not yet known to be harmless are first executed in a throw-away process (see "pre-screening"),
// so that a heap overflow of a defective tree is observed there and cannot corrupt the explorer.
#include <csignal>
#include <csetjmp>
#include <cstdlib>
#include <cerrno>
#include <climits>
#include <algorithm>
#include <sys/uio.h>
#include "types.h"
#include "array.h"
#include "mc.hpp"

using namespace mc;
const char *mc_id = "C04";
const char *mc_rule = "history BFS over 3 handles (2 arrays + 1 slice; typed/pointer arrays; maps) from initial buffers with flags {0,Immutable,NoCopy,both} x traits {raw,'c','y'} x fill {3,63 of 64}; "
                      "alphabet = every API operation x positions {0,1,used-1,used,used+2} x lengths {0,1,3,left-1,left,left+1} (relative to used size / capacity) x data|NULL, clone/assign between all handles; "
                      "content relabelled before every step, all handles read back after every step; states deduplicated by structure (share partition, traits, flags, used/slack/capacity class); "
                      "nontrivial = executed transitions whose target buffer is shared or immutable, or that change the capacity (reallocation)";

// ------------------------------------------------------------------ fault containment (a NULL dereference inside one op must not restart the BFS job)
static sigjmp_buf g_jmp;
static volatile sig_atomic_t g_guard = 0;
static const int g_sigs[] = { SIGSEGV, SIGBUS, SIGFPE };
static struct sigaction g_old[3];
static bool g_installed = false;
static void on_fault(int s)
{
	if (g_guard) { g_guard = 0; siglongjmp(g_jmp, s); }
	for (int k = 0; k < 3; ++k) sigaction(g_sigs[k], &g_old[k], 0);
}
static void guard_install()
{
	if (g_installed) return;
	g_installed = true;
	for (int k = 0; k < 3; ++k) {
		struct sigaction sa; memset(&sa, 0, sizeof sa);
		sa.sa_handler = on_fault; sa.sa_flags = SA_ONSTACK | SA_NODEFER; sigemptyset(&sa.sa_mask);
		sigaction(g_sigs[k], &sa, &g_old[k]);
	}
}
template <class F> static int guarded(F f)
{
	int s = sigsetjmp(g_jmp, 0);
	if (s) { mc::lib_depth = 0; return s; }
	g_guard = 1; f(); g_guard = 0;
	return 0;
}
static const char *signame(int s) { return s == SIGSEGV ? "SIGSEGV" : (s == SIGBUS ? "SIGBUS" : (s == SIGFPE ? "SIGFPE" : "SIGNAL")); }

// ------------------------------------------------------------------ common helpers
static const mpt::type_traits *T_C, *T_Y, *T_I, *T_N, *T_D;
static void warm()
{
	static bool done = false;
	if (done) return;
	done = true;
	guard_install();
	T_C = mpt::mpt_type_traits('c'); T_Y = mpt::mpt_type_traits('y'); T_I = mpt::mpt_type_traits('i'); T_N = mpt::mpt_type_traits('n'); T_D = mpt::mpt_type_traits('d');
	mpt::buffer *b = mpt::_mpt_buffer_alloc(1, 0); if (b) b->unref();   // allocation granularity singleton
}
// the ledger table is 4 MB: clearing it for every system would dominate the run; systems never overlap in time,
// so the live count at construction is the baseline and the table is cleared only now and then
static size_t g_lbase = 0;
static void ledger_base() { static unsigned n = 0; if ((n++ & 2047) == 0) ledger_reset(); g_lbase = ledger_live(); }
static int trid(const mpt::type_traits *t) { return !t ? 0 : (t == T_C ? 1 : (t == T_Y ? 2 : (t == T_N ? 3 : (t == T_I ? 4 : (t == T_D ? 5 : 9))))); }
static const char *trname(const mpt::type_traits *t) { static const char *n[] = { "raw", "'c'", "'y'", "'n'", "'i'", "'d'" }; int i = trid(t); return i < 6 ? n[i] : "other"; }
static const mpt::type_traits *trsel(int i) { return i == 1 ? T_C : (i == 2 ? T_Y : (i == 3 ? T_N : (i == 4 ? T_I : (i == 5 ? T_D : 0)))); }
static size_t esize_of(mpt::buffer *b) { return b && b->_content_traits && b->_content_traits->size > 1 ? b->_content_traits->size : 1; }
static uint8_t *bdata(mpt::buffer *b) { return (uint8_t *) (b + 1); }
static const size_t PATN = 1024;
static uint8_t PAT[PATN], ZERO[PATN];
static void pat_init() { for (size_t i = 0; i < PATN; ++i) { PAT[i] = (uint8_t) (0x80 + i % 0x70); ZERO[i] = 0; } }
static uint8_t lab(int g, size_t i) { return (uint8_t) (1 + (i + 43 * g) % 0x7f); }
static const uint8_t JUNK = 0xEE;
static const char *cls5(size_t v, size_t top) { static char buf[8][8]; static int k = 0; char *s = buf[k = (k + 1) % 8]; if (v < top) snprintf(s, 8, "%zu", v); else snprintf(s, 8, "%zu+", top); return s; }
// relative value tables: negative or duplicate (of a lower index) -> the instance is not enabled
static bool pick(const long *vals, int idx, long &out)
{
	out = vals[idx];
	if (out < 0) return false;
	for (int j = 0; j < idx; ++j) if (vals[j] == out) return false;
	return true;
}
// allocation-free text building: canonical states and screening keys are built for every step
struct Out {
	char buf[640]; size_t n;
	Out() : n(0) { buf[0] = 0; }
	void c(char ch) { if (n + 1 < sizeof buf) { buf[n++] = ch; buf[n] = 0; } }
	void s(const char *t) { while (*t) c(*t++); }
	void u(size_t v) { char t[24]; int k = 0; do { t[k++] = (char) ('0' + v % 10); v /= 10; } while (v); while (k) c(t[--k]); }
	void x(unsigned v) { static const char hx[] = "0123456789abcdef"; if (v >= 16) x(v / 16); c(hx[v % 16]); }
	void cls(size_t v, size_t top) { if (v < top) u(v); else { u(top); c('+'); } }
};
static void bufcanon_w(Out &o, mpt::buffer *b)
{
	if (!b) { o.c('-'); return; }
	size_t used = b->_used, size = b->_size;
	uint32_t fl = b->get_flags();
	size_t left = size >= used ? size - used : 0;
	o.s("{t"); o.u(trid(b->_content_traits)); o.s(" f"); o.x(fl & 0xff); if (fl & mpt::BufferShared) o.c('S');
	o.s(" u"); o.cls(used, 5); if (used > 64) o.c(used > 192 ? 'C' : 'B'); o.s(" l"); o.cls(left, 6); o.s(" c"); o.u(std::min((size + 64) / 128, (size_t) 3));
	if (used > size) o.s(" OVER");
	o.c('}');
}
// lazily formatted description of the running step (only needed when a violation is reported or a case is replayed)
struct Desc {
	std::string (*namefn)(int fam, int op); int fam, op; bool slice;
	size_t used, cap; long pos, len; char pre[640];
	std::string str() const
	{
		if (slice) return fmt("%s [nblk=%ld size=%ld; window off=%zu, capacity %zu] in state %s", namefn(fam, op).c_str(), len, pos, used, cap, pre);
		return fmt("%s [used=%zu capacity=%zu pos=%ld len=%ld] in state %s", namefn(fam, op).c_str(), used, cap, pos, len, pre);
	}
};
static std::string operator+(const Desc &d, const std::string &t) { return d.str() + t; }
static std::string operator+(const Desc &d, const char *t) { return d.str() + t; }
static std::string to_str(const Desc &d) { return d.str(); }
static std::string to_str(const std::string &d) { return d; }
static std::string hexs(const std::vector<uint8_t> &v) { return v.size() > 24 ? hex(v.data(), 24) + fmt("..(%zu)", v.size()) : hex(v.data(), v.size()); }
static std::string diffdesc(const std::vector<uint8_t> &got, const std::vector<uint8_t> &want)
{
	size_t i = 0; while (i < got.size() && i < want.size() && got[i] == want[i]) ++i;
	return fmt("length %zu (model %zu), first difference at byte %zu; reads %s, model %s", got.size(), want.size(), i, hexs(got).c_str(), hexs(want).c_str());
}

// ------------------------------------------------------------------ pre-screening in a separate process
// An out-of-bounds write performed by the real code (ASan reports it and lets it happen) corrupts the heap
// of the exploring process and makes unrelated later cases die.  Therefore a step whose (operation,
// structural class of the buffers it touches) pair has not yet been seen clean is first executed in a
// throw-away process: a small "zygote" forked from the worker before its heap grows forks one grandchild
// per request, the grandchild rebuilds the state from the history and runs the step.  Only when it saw
// no violation is the step executed in the exploring process itself; a violating step is reported from the
// grandchild's verdict and never executed here.  Replays run the case directly.
#include <unistd.h>
#include <sys/wait.h>
#include <sys/time.h>
static bool g_child = false, g_expired = false, g_suspect = false;   // g_suspect: the heap of this process may be corrupted
static std::string g_child_out;
static std::unordered_set<uint64_t> g_clean;
static void report(Run &r, const std::string &sig, const std::string &detail)
{
	if (g_child) { if (g_child_out.empty()) g_child_out = sig + "\t" + detail; }
	else r.violation(sig, detail);
}
static std::string run_case(char fam, const Vec &v);     // defined behind the families
static int z_req = -1, z_resp = -1; static pid_t z_owner = 0;
static bool rd_all(int fd, void *p, size_t n) { char *c = (char *) p; while (n) { ssize_t k = read(fd, c, n); if (k < 0 && errno == EINTR) continue; if (k <= 0) return false; c += k; n -= k; } return true; }
static bool wr_all(int fd, const void *p, size_t n) { const char *c = (const char *) p; while (n) { ssize_t k = write(fd, c, n); if (k < 0 && errno == EINTR) continue; if (k <= 0) return false; c += k; n -= k; } return true; }
static void wr_msg(int fd, std::string s) { if (s.size() > 3000) s.resize(3000); uint32_t n = s.size(); std::string m((char *) &n, 4); m += s; wr_all(fd, m.data(), m.size()); }
static void zygote_start()
{
	if (z_owner == getpid()) return;
	int a[2], b[2];
	if (pipe(a) < 0 || pipe(b) < 0) return;
	fflush(stdout); fflush(stderr);
	pid_t pid = fork();
	if (pid < 0) return;
	if (pid == 0) {
		close(a[1]); close(b[0]);
		int sigs[] = { SIGSEGV, SIGBUS, SIGFPE, SIGILL, SIGABRT, SIGALRM, SIGPIPE };
		for (int sg : sigs) signal(sg, SIG_DFL);
		g_installed = false;
		struct itimerval it; memset(&it, 0, sizeof it); setitimer(ITIMER_REAL, &it, 0);
		for (;;) {
			// the screener serves requests until a step corrupts or kills it; then a fresh one is forked from this small process
			pid_t c = fork();
			if (c == 0) {
				g_installed = false; guard_install();
				g_child = true;
				for (;;) {
					uint32_t hd[2];
					if (!rd_all(a[0], hd, sizeof hd)) _exit(0);
					Vec v(hd[1]);
					if (hd[1] && !rd_all(a[0], v.data(), hd[1] * sizeof(uint64_t))) _exit(0);
					alarm(20);
					g_suspect = false;
					std::string res = run_case((char) hd[0], v);
					alarm(0);
					wr_msg(b[1], res);
					if (g_suspect) _exit(7);
				}
			}
			int st = 0;
			while (waitpid(c, &st, 0) < 0 && errno == EINTR) {}
			if (c < 0) _exit(1);
			if (WIFSIGNALED(st)) wr_msg(b[1], WTERMSIG(st) == SIGALRM ? std::string("\x01HANG") : "\x01SIG" + std::to_string(WTERMSIG(st)));
			else if (WEXITSTATUS(st) == 0) _exit(0);
			else if (WEXITSTATUS(st) != 7) wr_msg(b[1], "\x01" "EXIT" + std::to_string(WEXITSTATUS(st)));
		}
	}
	close(a[0]); close(b[1]);
	if (z_req >= 0) { close(z_req); close(z_resp); }
	z_req = a[1]; z_resp = b[0]; z_owner = getpid();
}
// returns true when the step may be executed in this process; false when the throw-away process observed a violation (reported here)
template <class DS> static bool screened(Run &r, char fam, uint64_t key, const std::string &hint, const DS &dsc)
{
	if (g_child || r.replaying || g_clean.count(key)) return true;
	if (z_owner != getpid()) return true;       // no zygote: run directly
	uint32_t hd[2] = { (uint32_t) fam, (uint32_t) r.cur.size() };
	std::string m((char *) hd, sizeof hd); m.append((const char *) r.cur.data(), r.cur.size() * sizeof(uint64_t));
	uint32_t n = 0; std::string res;
	if (!wr_all(z_req, m.data(), m.size()) || !rd_all(z_resp, &n, 4)) { z_owner = 0; return true; }
	res.resize(n);
	if (n && !rd_all(z_resp, &res[0], n)) { z_owner = 0; return true; }
	r.beat();
	if (r.expired()) g_expired = true;
	if (res == "OK") { g_clean.insert(key); return true; }
	if (!res.empty() && res[0] == '\x01') {
		std::string why = res.substr(1);
		if (why == "SIG11") why = "SIGSEGV"; else if (why == "SIG7") why = "SIGBUS"; else if (why == "SIG8") why = "SIGFPE"; else if (why == "SIG6") why = "SIGABRT"; else if (why == "EXIT99") why = "ASAN-FATAL";
		r.violation(hint + "|" + why, to_str(dsc) + ": the process died (" + why + ") while executing this step");
		return false;
	}
	size_t t = res.find('\t');
	r.violation(res.substr(0, t), t == std::string::npos ? "" : res.substr(t + 1));
	return false;
}

struct Stats {
	std::map<const char *, uint64_t> lit; std::map<std::pair<const char *, bool>, uint64_t> ops;
	std::map<std::string, uint64_t> merged() const
	{
		std::map<std::string, uint64_t> c;
		for (auto &kv : lit) c[kv.first] += kv.second;
		for (auto &kv : ops) c[std::string(kv.first.first) + (kv.first.second ? ":refused" : ":ok")] += kv.second;
		return c;
	}
};
static Stats *g_stats = 0;
static void stat(const char *k) { if (g_stats) ++g_stats->lit[k]; }
static void statop(const char *op, bool refused) { if (g_stats) ++g_stats->ops[std::make_pair(op, refused)]; }

// ================================================================== family c / x : byte arrays + slice
struct H { mpt::buffer *b; uintptr_t off, len; };
static_assert(sizeof(mpt::slice) == sizeof(H), "slice layout");
static_assert(sizeof(mpt::array) == sizeof(mpt::buffer *), "array layout");
struct Mdl { const mpt::type_traits *tr; std::vector<uint8_t> b; };

enum RK { C_APPEND, C_INSERT, C_SLICE, C_SET, C_RESERVE, C_REDUCE, C_PRINTF, C_STRING, C_CUT, C_BINSERT, C_BSET, C_CLONE, R_SWAP, S_ASSIGN, S_CLEAR, S_WRITE, S_TAKE, S_CONSUME,
          X_APPEND, X_INSERT, X_PREPEND, X_SET, X_ASSIGN, X_CLEAR, X_FROMSLICE, X_ADD, X_PRINTF, X_STRING, X_SETVALUE, X_SETREF, XS_FROM, XS_CLEAR, XS_SHIFT, XS_TRIM, XS_WRITE, XS_TAKE, C_DETACH, C_HUGE, S_HUGE, X_HUGE, X_PREPARE, X_INSOWN, X_SETOWN, X_ESHIFT };
struct Inst { int k, a, b, c; };
static const char *Pn[] = { "0", "1", "used-1", "used", "used+2", "used/2" };
static const char *Ln[] = { "0", "1", "3", "left-1", "left", "left+1" };

static std::vector<Inst> g_tab[2];
static void build_tables()
{
	if (!g_tab[0].empty()) return;
	pat_init();
	std::vector<Inst> &c = g_tab[0], &x = g_tab[1];
	for (int li = 0; li < 6; ++li) c.push_back(Inst{C_APPEND, li, 1, 0});
	c.push_back(Inst{C_APPEND, 1, 0, 0}); c.push_back(Inst{C_APPEND, 5, 0, 0}); c.push_back(Inst{C_APPEND, 0, 2, 0}); c.push_back(Inst{C_APPEND, 1, 2, 0});
	for (int pi = 0; pi < 6; ++pi) for (int li = 0; li < 6; ++li) c.push_back(Inst{C_INSERT, pi, li, 0});
	for (int pi = 0; pi < 6; ++pi) for (int li = 0; li < 6; ++li) c.push_back(Inst{C_SLICE, pi, li, 0});
	for (int di = 0; di < 7; ++di) c.push_back(Inst{C_DETACH, di, 0, 0});
	for (int hi = 0; hi < 15; ++hi) c.push_back(Inst{C_HUGE, hi, 0, 0});
	c.push_back(Inst{S_HUGE, 0, 0, 0}); c.push_back(Inst{S_HUGE, 2, 0, 0});      // (a block count whose source the caller cannot own is no test input)
	{ int ls[] = {0, 1, 2, 5}; for (int l : ls) for (int oi = 0; oi < 7; ++oi) c.push_back(Inst{C_SET, l, oi, 1}); c.push_back(Inst{C_SET, 2, 0, 0}); c.push_back(Inst{C_SET, 2, 5, 0}); }
	for (int li = 0; li < 5; ++li) for (int t = 0; t < 4; ++t) c.push_back(Inst{C_RESERVE, li, t, (li + t) % 2});
	c.push_back(Inst{C_REDUCE, 0, 0, 0});
	for (int t = 0; t < 7; ++t) c.push_back(Inst{C_PRINTF, t, 0, 0});
	c.push_back(Inst{C_STRING, 0, 0, 0});
	for (int pi = 0; pi < 5; ++pi) for (int ci = 0; ci < 5; ++ci) c.push_back(Inst{C_CUT, pi, ci, 0});
	for (int pi = 0; pi < 5; ++pi) for (int li = 0; li < 6; ++li) c.push_back(Inst{C_BINSERT, pi, li, 0});
	for (int pi = 0; pi < 5; ++pi) for (int li = 0; li < 6; ++li) c.push_back(Inst{C_BSET, pi, li, (pi + li) % 3 ? 1 : 0});
	for (int d = 0; d < 2; ++d) for (int s = 0; s < 3; ++s) c.push_back(Inst{C_CLONE, d, s, 0});
	c.push_back(Inst{R_SWAP, 0, 0, 0});
	for (int w = 0; w < 2; ++w) for (int win = 0; win < 4; ++win) c.push_back(Inst{S_ASSIGN, w, win, 0});
	c.push_back(Inst{S_CLEAR, 0, 0, 0});
	for (int win = 0; win < 4; ++win) c.push_back(Inst{S_TAKE, 0, win, 0});
	c.push_back(Inst{S_CONSUME, 0, 0, 0}); c.push_back(Inst{S_CONSUME, 1, 0, 0});
	for (int ni = 0; ni < 4; ++ni) for (int zi = 0; zi < 7; ++zi) c.push_back(Inst{S_WRITE, ni, zi, 1});
	c.push_back(Inst{S_WRITE, 1, 1, 0}); c.push_back(Inst{S_WRITE, 2, 2, 0}); c.push_back(Inst{S_WRITE, 1, 5, 0});

	for (int li = 0; li < 6; ++li) x.push_back(Inst{X_APPEND, li, 1, 0});
	x.push_back(Inst{X_APPEND, 1, 0, 0}); x.push_back(Inst{X_APPEND, 5, 0, 0}); x.push_back(Inst{X_APPEND, 0, 2, 0}); x.push_back(Inst{X_APPEND, 1, 2, 0}); x.push_back(Inst{X_APPEND, 0, 3, 0});
	x.push_back(Inst{X_PREPARE, 0, 0, 0}); x.push_back(Inst{X_PREPARE, 1, 0, 0});
	for (int pi = 0; pi < 3; ++pi) for (int si = 0; si < 2; ++si) x.push_back(Inst{X_INSOWN, pi, si, 0});
	x.push_back(Inst{X_SETOWN, 0, 0, 0}); x.push_back(Inst{X_SETOWN, 1, 0, 0}); x.push_back(Inst{X_SETOWN, 2, 0, 0});
	x.push_back(Inst{X_ESHIFT, 0, 0, 0});
	for (int pi = 0; pi < 5; ++pi) for (int li = 0; li < 6; ++li) x.push_back(Inst{X_INSERT, pi, li, (pi * 6 + li) % 5 ? 1 : 0});
	x.push_back(Inst{X_PREPEND, 1, 1, 0}); x.push_back(Inst{X_PREPEND, 2, 0, 0});
	for (int si = 0; si < 7; ++si) x.push_back(Inst{X_SET, si, si % 3 ? 1 : 0, 0});
	x.push_back(Inst{X_ASSIGN, 0, 1, 0}); x.push_back(Inst{X_ASSIGN, 1, 0, 0}); x.push_back(Inst{X_CLEAR, 0, 0, 0}); x.push_back(Inst{X_CLEAR, 1, 0, 0});
	x.push_back(Inst{X_FROMSLICE, 0, 0, 0}); x.push_back(Inst{X_ADD, 0, 0, 0}); x.push_back(Inst{X_ADD, 1, 0, 0});
	for (int t = 0; t < 7; ++t) x.push_back(Inst{X_PRINTF, t, 0, 0});
	x.push_back(Inst{X_STRING, 0, 0, 0});
	x.push_back(Inst{X_SETVALUE, 0, 0, 0}); x.push_back(Inst{X_SETVALUE, 1, 0, 0}); x.push_back(Inst{X_SETVALUE, 2, 0, 0});
	x.push_back(Inst{X_SETREF, 0, 0, 0});
	x.push_back(Inst{R_SWAP, 0, 0, 0});
	x.push_back(Inst{XS_FROM, 0, 0, 0}); x.push_back(Inst{XS_FROM, 1, 0, 0}); x.push_back(Inst{XS_CLEAR, 0, 0, 0});
	for (int n = 0; n < 6; ++n) { x.push_back(Inst{XS_SHIFT, n, 0, 0}); x.push_back(Inst{XS_TRIM, n, 0, 0}); }
	x.push_back(Inst{XS_TAKE, 0, 0, 0});
	for (int hi = 0; hi < 4; ++hi) x.push_back(Inst{X_HUGE, hi, 0, 0});
	x.push_back(Inst{S_HUGE, 0, 1, 0}); x.push_back(Inst{S_HUGE, 2, 1, 0});
	for (int ni = 0; ni < 4; ++ni) for (int zi = 0; zi < 7; ++zi) x.push_back(Inst{XS_WRITE, ni, zi, 1});
	x.push_back(Inst{XS_WRITE, 1, 1, 0}); x.push_back(Inst{XS_WRITE, 2, 2, 0}); x.push_back(Inst{XS_WRITE, 1, 5, 0});
}

template <int API>
struct RawSys {
	Run &r; H h[3]; Mdl m[3]; bool dead; int fault; size_t nap; const char *cur_opn; Desc dsc;
	void V(const std::string &sig, const std::string &detail) { report(r, sig, detail); }
	mpt::array *arr(int i) { return reinterpret_cast<mpt::array *>(&h[i]); }
	mpt::slice *sl() { return reinterpret_cast<mpt::slice *>(&h[2]); }

	RawSys(Run &run, uint64_t init) : r(run), dead(false), fault(0), nap(0)
	{
		warm(); build_tables(); if (!g_child && !r.replaying) zygote_start();
		memset(h, 0, sizeof h);
		for (int i = 0; i < 3; ++i) m[i].tr = 0;
		ledger_base(); asan_error();
		if (init) {
			uint64_t c = init - 1; int flags = c % 4, tr = (c / 4) % 3, fill = (c / 12) % 2;
			size_t used = fill ? 63 : 3;
			bool share = false;
			if (init >= 100) {    // content larger than one allocation unit can hold after a smaller request: used {60,64,65,130,200} x {sole, immutable, shared, shared+immutable} x {raw,'y','n','d'}
				static const size_t US[5] = { 60, 64, 65, 130, 200 }; static const int KS[4] = { 0, 2, 3, 5 };
				c = init - 100; int mode = c % 4, ui = (c / 4) % 5; tr = KS[(c / 20) % 4];
				flags = (mode & 1) ? mpt::BufferImmutable : 0; share = mode & 2;
				size_t e = trsel(tr) ? trsel(tr)->size : 1; used = US[ui];
				used = ui == 2 ? (used + e - 1) / e * e : used / e * e;
			}
			else if (init > 24) {      // typed content with element size 2, 4, 8: three elements, or one element short of the capacity
				c = init - 25; flags = 0; tr = 3 + c % 3; fill = (c / 3) % 2;
				size_t e = trsel(tr)->size; used = fill ? 64 - e : 3 * e;
			}
			mpt::buffer *b = LIB(mpt::_mpt_buffer_alloc(used, flags));
			b->_content_traits = trsel(tr); b->_used = used;
			h[0].b = b; m[0].tr = trsel(tr); m[0].b.assign(used, 1);
			if (share) { b->addref(); h[1].b = b; m[1] = m[0]; }
		}
		relabel();
	}
	~RawSys()
	{
		if (dead) { g_suspect = true; return; }
		for (int i = 0; i < 3; ++i) if (h[i].b) { mpt::buffer *b = h[i].b; h[i].b = 0; guarded([&] { b->unref(); }); }
	}
	int nops() { return (int) g_tab[API].size(); }
	int groups(int g[3], mpt::buffer *bs[3])
	{
		int n = 0;
		for (int i = 0; i < 3; ++i) {
			g[i] = -1;
			if (!h[i].b) continue;
			for (int j = 0; j < n; ++j) if (bs[j] == h[i].b) g[i] = j;
			if (g[i] < 0) { bs[n] = h[i].b; g[i] = n++; }
		}
		return n;
	}
	void relabel()
	{
		int g[3]; mpt::buffer *bs[3]; int n = groups(g, bs);
		for (int j = 0; j < n; ++j) {
			mpt::buffer *b = bs[j]; uint8_t *d = bdata(b);
			if (b->_used > b->_size) continue;
			for (size_t i = 0; i < b->_used; ++i) d[i] = lab(j, i);
			memset(d + b->_used, JUNK, b->_size - b->_used);
		}
		for (int i = 0; i < 3; ++i) {
			m[i].b.clear();
			if (!h[i].b) continue;
			for (size_t k = 0; k < h[i].b->_used; ++k) m[i].b.push_back(lab(g[i], k));
		}
	}
	std::string canon()
	{
		int g[3]; mpt::buffer *bs[3]; int n = groups(g, bs);
		Out o;
		for (int j = 0; j < n; ++j) { o.c('g'); o.u(j); bufcanon_w(o, bs[j]); o.c(' '); }
		for (int i = 0; i < 3; ++i) { o.s(i == 2 ? "s=" : (i ? "a1=" : "a0=")); if (g[i] < 0) o.c('-'); else { o.c('g'); o.u(g[i]); } o.c(' '); }
		if (h[2].b || h[2].off || h[2].len) {
			size_t used = h[2].b ? h[2].b->_used : 0, end = h[2].off + h[2].len;
			o.s("win(o"); o.cls(h[2].off, 2); o.s(" n"); o.cls(h[2].len, 2); o.c(' '); o.c(end == used ? 'E' : (end < used ? 'I' : 'X')); o.c(')');
		}
		return std::string(o.buf, o.n);
	}
	// ---- reading back
	bool read(int i, std::vector<uint8_t> &out, std::string &why)
	{
		out.clear();
		mpt::buffer *b = h[i].b;
		if (!b) return true;
		if (b->_used > b->_size) { why = fmt("used size %zu exceeds capacity %zu", (size_t) b->_used, (size_t) b->_size); return false; }
		out.assign(bdata(b), bdata(b) + b->_used);
		return true;
	}
	std::vector<uint8_t> view(const std::vector<uint8_t> &full, size_t off, size_t len, bool &ok)
	{
		ok = off <= full.size() && len <= full.size() - off;
		return ok ? std::vector<uint8_t>(full.begin() + off, full.begin() + off + len) : std::vector<uint8_t>();
	}
	static const char *hname(int i) { return i == 2 ? "slice" : (i ? "array1" : "array0"); }
	const char *stcls(mpt::buffer *b)
	{
		if (!b) return "null";
		uint32_t f = b->get_flags();
		bool sh = f & mpt::BufferShared, im = f & mpt::BufferImmutable;
		return sh ? "shared" : (im ? "immutable" : "sole");
	}
	// compare every handle with its model; w = modified handle (-1: none)
	template <class DS> bool check(const std::string &base, const DS &desc, int w, bool refused, bool must_refuse = false)
	{
		if (fault) { V(base + signame(fault), desc + ": the call faulted"); dead = true; return false; }
		if (asan_error()) { V(base + "memory-error", desc + ": access outside the buffer / freed memory (AddressSanitizer)"); dead = true; return false; }
		if (must_refuse && !refused) { V(base + "accepted-out-of-range", desc + ": arguments outside the data were not refused"); return false; }
		statop(cur_opn, refused);
		for (int pass = 0; pass < 2; ++pass) for (int i = 0; i < 3; ++i) {
			if ((pass == 0) != (i != w)) continue;      // other handles first: a change seen through another handle is the primary finding
			mpt::buffer *hb = h[i].b;
			if (hb && hb->_used <= hb->_size && hb->_used == m[i].b.size() && !memcmp(bdata(hb), m[i].b.data(), hb->_used) && (i == w || hb->_content_traits == m[i].tr)) continue;
			if (!hb && m[i].b.empty()) continue;
			std::vector<uint8_t> got; std::string why;
			const char *grp = i != w ? "other-handle-changed" : (refused ? "refused-but-changed" : "wrong-content");
			if (!read(i, got, why)) { V(base + grp, desc + fmt(": %s: ", hname(i)) + why); dead = true; return false; }
			if (got != m[i].b) { V(base + grp, desc + fmt(": %s %s", hname(i), diffdesc(got, m[i].b).c_str())); return false; }
			if (i != w && h[i].b && h[i].b->_content_traits != m[i].tr) { V(base + grp, desc + fmt(": %s content type changed", hname(i))); return false; }
		}
		if (asan_error()) { V(base + "memory-error", desc + ": reading a handle back touches freed memory"); dead = true; return false; }
		int g[3]; mpt::buffer *bs[3]; size_t n = groups(g, bs), live = ledger_live() - g_lbase;
		if (live != n) {
			V(base + (live > n ? "leak" : "released-while-referenced"), desc + fmt(": %zu buffers allocated, %zu reachable from the handles", live, n));
			if (live < n) dead = true;
			return false;
		}
		for (int i = 0; i < 3; ++i) m[i].tr = h[i].b ? h[i].b->_content_traits : 0;
		return true;
	}
	static std::string opname(int op);
	bool apply(int op);
	bool apply_c(const Inst &in);
	bool apply_x(const Inst &in);
	bool slice_write(const Inst &in, bool cxx);
	void nontrivial(mpt::buffer *b) { if (b && (b->get_flags() & (mpt::BufferShared | mpt::BufferImmutable))) { r.count("nontrivial"); stat("target-shared-or-immutable"); } }
};

static std::string argcls(size_t pos, size_t len, size_t used, size_t cap, bool overwrite)
{
	size_t total = overwrite ? pos + len : (pos > used ? pos : used) + len;
	return std::string(!len ? "len=0" : (total <= cap ? "fits" : "exceeds-capacity")) + (pos > used ? ",behind-gap" : "");
}

template <int API> std::string RawSys<API>::opname(int op)
{
	const Inst &in = g_tab[API][op];
	switch (in.k) {
	case C_APPEND: return in.b == 2 ? fmt("mpt_array_append(a0,%s,a0's own data)", in.a ? "1" : "used") : fmt("mpt_array_append(a0,%s,%s)", Ln[in.a], in.b ? "data" : "NULL");
	case C_INSERT: return fmt("mpt_array_insert(a0,%s,%s)", Pn[in.a], Ln[in.b]);
	case C_SLICE: return fmt("mpt_array_slice(a0,%s,%s)+write", Pn[in.a], Ln[in.b]);
	case C_SET: { static const char *on[] = { "0", "1", "-1", "-(n+1)", "n", "n+2", "n/2" }; return fmt("mpt_array_set(a0,type,%s,%s,%s)", Ln[in.a], in.c ? "data" : "NULL", on[in.b]); }
	case C_RESERVE: { static const char *rn[] = { "0", "used-1", "used", "cap", "cap+1" }; return fmt("mpt_array_reserve(a0,%s,%s)%s", rn[in.a], in.b == 3 ? "current type" : trname(trsel(in.b)), in.c ? "+buffer_set" : ""); }
	case C_REDUCE: return "mpt_array_reduce(a0)";
	case C_PRINTF: case X_PRINTF: { static const char *tn[] = { "0", "5", "left-1", "left", "left+1", "70", "%d" }; return fmt("%s(a0,text:%s)", in.k == C_PRINTF ? "mpt_printf" : "array::printf", tn[in.a]); }
	case C_STRING: return "mpt_array_string(a0)";
	case C_CUT: { static const char *cn[] = { "0", "1", "used-off", "used-off+1", "used+1" }; return fmt("mpt_buffer_cut(a0.buf,%s,%s)", Pn[in.a], cn[in.b]); }
	case C_BINSERT: return fmt("mpt_buffer_insert(a0.buf,%s,%s)", Pn[in.a], Ln[in.b]);
	case C_BSET: return fmt("mpt_buffer_set(a0.buf,%s,%s,%s)", Pn[in.a], in.c ? "data" : "NULL", Ln[in.b]);
	case C_DETACH: { static const char *dn[] = { "0", "1 element", "used-1 element", "used", "used+1", "64", "65" }; return fmt("a0.buf->detach(%s)", dn[in.a]); }
	case C_HUGE: { static const char *hn[] = { "mpt_array_insert(a0,SIZE_MAX-1,10)", "mpt_array_insert(a0,SIZE_MAX,1)", "mpt_array_insert(a0,LONG_MAX+1,1)", "mpt_buffer_insert(a0.buf,SIZE_MAX-1,10)", "mpt_buffer_insert(a0.buf,SIZE_MAX,1)",
		"mpt_array_append(a0,SIZE_MAX-used,NULL)", "mpt_array_append(a0,SIZE_MAX-used-70,NULL)", "mpt_array_slice(a0,0,SIZE_MAX-10)", "mpt_array_slice(a0,used,SIZE_MAX-used-70)", "mpt_array_set(a0,type,1 element,data,LONG_MAX/size-100)",
		"mpt_array_reserve(a0,SIZE_MAX-10,current type)", "a0.buf->detach(SIZE_MAX-10)", "mpt_buffer_cut(a0.buf,SIZE_MAX-1,2)", "mpt_buffer_set(a0.buf,SIZE_MAX-1,data,10)", "mpt_array_set(a0,type,1 element,data,2^64/size)" }; return hn[in.a]; }
	case S_HUGE: { static const char *hn[] = { "(2,data,2^63)", "(2^62+1,data,4)", "(SIZE_MAX-window end,NULL,0)" }; return std::string(in.b ? "slice::write" : "mpt_slice_write") + hn[in.a]; }
	case X_HUGE: { static const char *hn[] = { "array::insert(SIZE_MAX-1,10,data)", "array::append(SIZE_MAX-used,NULL)", "array::set(SIZE_MAX-10,NULL)", "array::prepend(SIZE_MAX-10,NULL)" }; return hn[in.a]; }
	case C_CLONE: return fmt("mpt_array_clone(a%d,%s)", in.a, in.b == 0 ? fmt("a%d", 1 - in.a).c_str() : (in.b == 1 ? "NULL" : "slice.array"));
	case R_SWAP: return "swap(a0,a1)";
	case S_ASSIGN: { static const char *wn[] = { "all", "inner", "empty-at-end", "prefix" }; return fmt("slice=a%d[%s]", in.a, wn[in.b]); }
	case S_CLEAR: case XS_CLEAR: return "slice=empty";
	case S_TAKE: { static const char *wn[] = { "all", "inner", "empty-at-end", "prefix" }; return fmt("slice=a0[%s];a0=empty", wn[in.b]); }
	case XS_TAKE: return "slice=slice(a0);a0=array()";
	case S_CONSUME: return in.a ? "slice.off+=len,len=0" : "slice.off+=1,len-=1";
	case S_WRITE: case XS_WRITE: { static const char *zn[] = { "0", "1", "3", "avail-1", "avail", "avail+1", "avail+off" }; return fmt("%s(%d,%s,%s)", in.k == S_WRITE ? "mpt_slice_write" : "slice::write", in.a, in.c ? "data" : "NULL", zn[in.b]); }
	case X_APPEND: return in.b == 3 ? std::string("a0+=span(a0.base(),used)") : (in.b == 2 ? fmt("array::append(%s,a0.base())", in.a ? "1" : "used") : fmt("array::append(%s,%s)", Ln[in.a], in.b ? "data" : "NULL"));
	case X_PREPARE: return fmt("encode_array(a0)::prepare(%s)", in.a ? "left+1" : "1");
	case X_INSOWN: { static const char *pn[] = { "0", "used/2", "used" }; return fmt("array::insert(%s,n,a0's own %s bytes)", pn[in.a], in.b ? "last" : "first"); }
	case X_SETOWN: { static const char *sn[] = { "array::set(used-2,own data+2)", "array::set(2,own data)", "array::set(used/2,own data+used/2)" }; return sn[in.a]; }
	case X_ESHIFT: return "encode_array(a0,done=2)::shift(0)";
	case X_INSERT: return fmt("array::insert(%s,%s,%s)", Pn[in.a], Ln[in.b], in.c ? "data" : "NULL");
	case X_PREPEND: return fmt("array::prepend(%s,%s)", Ln[in.a], in.b ? "data" : "NULL");
	case X_SET: { static const char *sn[] = { "0", "1", "used-1", "used", "used+1", "cap", "cap+1" }; return fmt("array::set(%s,%s)", sn[in.a], in.b ? "data" : "NULL"); }
	case X_ASSIGN: return fmt("a%d=a%d", in.a, in.b);
	case X_CLEAR: return fmt("a%d=array()", in.a);
	case X_FROMSLICE: return "a0=slice";
	case X_ADD: return in.a ? "a0+=*a0.data()" : "a0+=*a1.data()";
	case X_STRING: return "array::string()";
	case X_SETVALUE: return fmt("array::set(value:%s)", in.a == 0 ? "string" : (in.a == 1 ? "empty-string" : "vector"));
	case X_SETREF: return "a0.set(reference<buffer>(a1))";
	case XS_FROM: return fmt("slice=slice(a%d)", in.a);
	case XS_SHIFT: case XS_TRIM: { static const char *nn[] = { "-1", "0", "1", "len", "len+1", "-(off+1)" }; return fmt("slice::%s(%s)", in.k == XS_SHIFT ? "shift" : "trim", nn[in.a]); }
	}
	return "?";
}

// ------------------------------------------------------------------ applying one letter
static std::string raw_opname(int fam, int op);
static const char *raw_hint(int k)
{
	static const char *n[] = { "mpt_array_append", "mpt_array_insert", "mpt_array_slice", "mpt_array_set", "mpt_array_reserve", "mpt_array_reduce", "mpt_printf", "mpt_array_string",
		"mpt_buffer_cut", "mpt_buffer_insert", "mpt_buffer_set", "mpt_array_clone", "swap", "slice=", "slice=", "mpt_slice_write", "slice=", "slice.off+=",
		"array::append", "array::insert", "array::prepend", "array::set", "array::operator=", "array::operator=", "array::operator=(slice)", "array::operator+=", "array::printf", "array::string",
		"array::set(value)", "array::set(reference)", "slice=", "slice=", "slice::shift", "slice::trim", "slice::write", "slice=", "buffer::detach", "huge-argument", "mpt_slice_write", "huge-argument", "encode_array::prepare", "array::insert", "array::set", "encode_array::shift" };
	return n[k];
}
template <int API> bool RawSys<API>::apply(int op)
{
	const Inst &in = g_tab[API][op];
	relabel();
	fault = 0;
	asan_error();
	if (in.k == R_SWAP) {
		++nap;
		if (h[0].b == h[1].b) return false;
		std::swap(h[0].b, h[1].b); std::swap(m[0], m[1]);
		return true;
	}
	r.hint(raw_hint(in.k));
	bool frontier = r.cur.size() == nap + 2;
	++nap;
	if (frontier && g_expired) return false;     // deadline / violation cap reached: drain the queue without executing
	// description of the step (formatted only when needed) with the state before it
	{
		int g[3]; mpt::buffer *bs[3]; int n = groups(g, bs);
		Out o;
		for (int j = 0; j < n; ++j) { o.c('g'); o.u(j); bufcanon_w(o, bs[j]); o.c(' '); }
		for (int i = 0; i < 3; ++i) { o.s(i == 2 ? "s=" : (i ? "a1=" : "a0=")); if (g[i] < 0) o.c('-'); else { o.c('g'); o.u(g[i]); } o.c(' '); }
		if (h[2].b || h[2].off || h[2].len) { o.s("win(off="); o.u(h[2].off); o.s(" len="); o.u(h[2].len); o.c(')'); }
		dsc.namefn = raw_opname; dsc.fam = API; dsc.op = op; dsc.slice = false; dsc.used = dsc.cap = 0; dsc.pos = dsc.len = 0;
		memcpy(dsc.pre, o.buf, o.n + 1);
	}
	if (frontier && !g_child && !r.replaying) {
		// structural class of everything the step can touch
		Out k; k.u(API); k.c('/'); k.u(op); k.c('/');
		if (in.k == S_WRITE || in.k == XS_WRITE || in.k == XS_SHIFT || in.k == XS_TRIM || in.k == S_CONSUME || in.k == S_HUGE) { bufcanon_w(k, h[2].b); k.c('o'); k.cls(h[2].off, 3); k.c('n'); k.cls(h[2].len, 3); k.c(h[2].b && h[2].off + h[2].len == h[2].b->_used ? 'E' : 'I'); }
		else if (in.k == C_CLONE || in.k == X_ASSIGN || in.k == X_ADD || in.k == X_SETREF || in.k == S_ASSIGN || in.k == S_CLEAR || in.k == XS_FROM || in.k == XS_CLEAR || in.k == X_FROMSLICE || in.k == S_TAKE || in.k == XS_TAKE) {
			bufcanon_w(k, h[0].b); bufcanon_w(k, h[1].b); bufcanon_w(k, h[2].b); k.c('o'); k.cls(h[2].off, 3); k.c('n'); k.cls(h[2].len, 3);
			if (h[0].b == h[1].b) k.c('='); if (h[0].b == h[2].b) k.c('~'); if (h[1].b == h[2].b) k.c('^');
		}
		else bufcanon_w(k, h[0].b);
		if (!screened(r, API ? 'x' : 'c', fnv(k.buf, k.n), raw_hint(in.k), dsc)) return false;
	}
	++r.executions;
	return API == 0 ? apply_c(in) : apply_x(in);
}

template <int API> bool RawSys<API>::slice_write(const Inst &in, bool cxx)
{
	mpt::buffer *b = h[2].b;
	size_t cap = b ? (size_t) b->_size : 64, off = h[2].off, len = h[2].len, end = off + len;
	long avail = cap >= end ? (long) (cap - end) : 0;
	long Z[7] = { 0, 1, 3, avail - 1, avail, avail + 1, avail + (long) off }, size;
	size_t N = in.a;
	if (!pick(Z, in.b, size) || N * size > PATN) return false;
	bool okv; std::vector<uint8_t> oldview = view(m[2].b, off, len, okv);
	if (!okv) return false;
	const uint8_t *src = in.c ? PAT : ZERO;
	std::string st = std::string(stcls(b)) + (b ? (end == b->_used ? ",window-at-end" : ",window-inside") : "");
	std::string arg = !N ? "nblk=0" : (!size ? "size=0" : ((long) (N * size) <= avail ? "fits" : ((long) size <= avail ? "partly-fits" : ((long) size <= avail + (long) off ? "fits-after-compaction" : "exceeds-capacity"))));
	bool consumed = b && !len && off, solew = b && !(b->get_flags() & (mpt::BufferShared | mpt::BufferImmutable));
	const std::vector<uint8_t> oldfull = m[2].b;
	std::string base = std::string("slice_write|") + st + "|" + arg + "|";
	Desc &desc = dsc; desc.slice = true; desc.used = off; desc.cap = cap; desc.pos = size; desc.len = N;
	cur_opn = "slice_write";
	if (r.replaying) r.note("%s", desc.str().c_str());
	nontrivial(b);
	ssize_t ret = -1;
	fault = guarded([&] { mc::Lib l; ret = cxx ? sl()->write(N, in.c ? PAT : 0, size) : mpt::mpt_slice_write(sl(), N, in.c ? PAT : 0, size); });
	bool refused = ret < 0;
	if (!fault && !asan_peek()) {
		mpt::buffer *nb = h[2].b;
		if (b && nb && nb->_size != cap) { r.count("nontrivial"); stat("reallocated"); }
		if (refused) {
			if (h[2].off != off || h[2].len != len) { V(base + "refused-but-changed", desc + fmt(": refused (%zd) but the window is now off=%zu len=%zu", ret, (size_t) h[2].off, (size_t) h[2].len)); return false; }
		} else {
			std::vector<uint8_t> full; std::string why;
			if (nb ? (h[2].off + h[2].len > nb->_used || nb->_used > nb->_size) : (h[2].off || h[2].len)) {
				V(base + "wrong-result", desc + fmt(": returned %zd; slice window off=%zu len=%zu lies outside the buffer data (used %zu, capacity %zu)", ret, (size_t) h[2].off, (size_t) h[2].len, nb ? (size_t) nb->_used : 0, nb ? (size_t) nb->_size : 0));
				return false;
			}
			read(2, full, why);
			bool ok2; std::vector<uint8_t> nv = view(full, h[2].off, h[2].len, ok2), want = oldview;
			if (size) {
				if ((size_t) ret > N) { V(base + "wrong-result", desc + fmt(": returned %zd elements for %zu offered", ret, N)); return false; }
				want.insert(want.end(), src, src + ret * size);
			}
			if (nv != want) { V(base + "wrong-content", desc + fmt(": returned %zd; slice %s", ret, diffdesc(nv, want).c_str())); return false; }
			// the array behind the slice: either updated in place (window keeps its offset, bytes outside the written range untouched)
			// or reduced to the window content (compaction / private copy); when only space was prepared: unchanged or cut at the window end
			std::vector<uint8_t> inplace = oldfull;
			size_t take = size ? (size_t) ret * size : 0;
			if (end + take > inplace.size()) inplace.resize(end + take, 0);
			std::copy(src, src + take, inplace.begin() + end);
			bool a_ok = h[2].off == off && full == inplace;
			bool b_ok = h[2].off == 0 && full == want;
			bool c_ok = !size && h[2].off == off && end <= oldfull.size() && full == std::vector<uint8_t>(oldfull.begin(), oldfull.begin() + end);
			if (!a_ok && !b_ok && !c_ok) {
				V(base + "wrong-content", desc + fmt(": returned %zd; the window reads correctly but the array behind the slice (window now off=%zu len=%zu) is neither updated in place nor reduced to the window: %s", ret, (size_t) h[2].off, (size_t) h[2].len, diffdesc(full, h[2].off ? inplace : want).c_str()));
				return false;
			}
			if (size && N) {
				if (consumed) stat(solew ? "slice-write:consumed-window,sole" : "slice-write:consumed-window,shared");
				if (solew && (long) size > avail && (long) size <= avail + (long) off) stat(take < oldfull.size() ? "slice-write:compaction,shorter-than-old-data" : "slice-write:compaction,longer-than-old-data");
			}
			m[2].b = full;
		}
	}
	return check(base, desc, 2, refused);
}

template <int API> bool RawSys<API>::apply_c(const Inst &in)
{
	using namespace mpt;
	mpt::buffer *b = h[0].b;
	size_t used = b ? (size_t) b->_used : 0, cap = b ? (size_t) b->_size : 64, left = cap - used;
	const size_t E = esize_of(b);
	long P[6] = { 0, 1, (long) used - 1, (long) used, (long) used + 2, (long) (used / 2 / E * E) };
	long L[6] = { 0, 1, 3, (long) left - 1, (long) left, (long) left + 1 };
	if (E > 1) {      // multi-byte elements: mix of element multiples and values that are not
		long la = (long) (left - left % E);
		long Pe[6] = { 0, 1, (long) used - (long) E, (long) used, (long) used + 2, P[5] }, Le[6] = { 0, 1, (long) E, la - (long) E, la, la + (long) E };
		memcpy(P, Pe, sizeof P); memcpy(L, Le, sizeof L);
	}
	auto aligned = [&](long a, long n) { return E == 1 || (a % (long) E == 0 && n % (long) E == 0); };
	auto typed_stat = [&](long a, long n, bool refused) { if (E > 1) stat(aligned(a, n) ? (refused ? "typed-elements:aligned,refused" : "typed-elements:aligned,ok") : (refused ? "typed-elements:misaligned,refused" : "typed-elements:misaligned,accepted(not flagged)")); };
	auto acls = [&](size_t a, size_t n, bool ow) { return argcls(a, n, used, cap, ow) + (aligned(a, n) ? "" : ",misaligned"); };
	const char *st = stcls(b);
	bool sole = b && !strcmp(st, "sole");
	long pos = 0, len = 0;
	std::string base; Desc &desc = dsc;
	auto mk = [&](const char *op, const std::string &arg) {
		cur_opn = op;
		base.reserve(96); base = op; base += '|'; base += st; base += '|'; base += arg; base += '|';
		desc.used = used; desc.cap = cap; desc.pos = pos; desc.len = len;
		if (r.replaying) r.note("%s", desc.str().c_str());
	};
	auto realloc_seen = [&]() { if (b && h[0].b && h[0].b->_size != cap) { r.count("nontrivial"); stat("reallocated"); } };
	auto ptr_ok = [&](void *ret, size_t off) { return h[0].b && ret == bdata(h[0].b) + off; };
	auto bad_ptr = [&](size_t off) { V(base + "wrong-result", desc + fmt(": returned address is not buffer data + %zu", off)); return false; };
	auto writable = [&](size_t off, size_t n) { mpt::buffer *nb = h[0].b; return nb && nb->_used <= nb->_size && off + n <= nb->_used; };
	std::vector<uint8_t> &mb = m[0].b;

	switch (in.k) {
	case C_APPEND: {
		bool own = in.b == 2;      // source inside the array's own data (v.insert(v.end(), v.begin(), v.begin() + n) for a vector)
		if (own) { if (!b || !used) return false; len = in.a ? 1 : (long) used; }
		else if (!pick(L, in.a, len)) return false;
		if ((size_t) len > PATN) return false;
		const std::vector<uint8_t> add(own ? mb.begin() : mb.end(), own ? mb.begin() + len : mb.end());
		pos = used; mk("array_append", argcls(used, len, used, cap, false) + (own ? ",own-content" : "")); nontrivial(b);
		void *ret = 0;
		fault = guarded([&] { mc::Lib l; ret = mpt_array_append(arr(0), len, own ? bdata(b) : (in.b ? PAT : 0)); });
		if (!fault && ret) {
			realloc_seen();
			if (!ptr_ok(ret, used)) return bad_ptr(used);
			if (own) { mb.insert(mb.end(), add.begin(), add.end()); stat(used + len > cap ? "append-own-content,reallocating" : "append-own-content,in-place"); }
			else mb.insert(mb.end(), in.b ? PAT : ZERO, (in.b ? PAT : ZERO) + len);
		}
		return check(base, desc, 0, !ret); }
	case C_INSERT: case C_BINSERT: {
		if (!pick(P, in.a, pos) || !pick(L, in.b, len) || (size_t) len > PATN) return false;
		if (in.k == C_BINSERT && !sole) return false;
		mk(in.k == C_INSERT ? "array_insert" : "buffer_insert", acls(pos, len, false)); nontrivial(b);
		void *ret = 0;
		fault = guarded([&] { mc::Lib l; ret = in.k == C_INSERT ? mpt_array_insert(arr(0), pos, len) : mpt_buffer_insert(b, pos, len); });
		if (!fault && ret) {
			realloc_seen();
			if (!ptr_ok(ret, pos)) return bad_ptr(pos);
			if ((size_t) pos > mb.size()) mb.resize(pos, 0);
			mb.insert(mb.begin() + pos, PAT, PAT + len);
			if (writable(pos, len)) memcpy(ret, PAT, len);      // the inserted region is documented as uninitialised: the caller fills it
			else { V(base + "wrong-result", desc + ": the returned region does not lie inside the buffer data"); return false; }
		}
		if (!fault) typed_stat(pos, len, !ret);
		return check(base, desc, 0, !ret); }
	case C_SLICE: {
		if (!pick(P, in.a, pos) || !pick(L, in.b, len) || (size_t) len > PATN) return false;
		mk("array_slice", acls(pos, len, true)); nontrivial(b);
		void *ret = 0;
		fault = guarded([&] { mc::Lib l; ret = mpt_array_slice(arr(0), pos, len); });
		if (!fault) typed_stat(pos, len, !ret);
		if (fault || !ret) return check(base, desc, 0, true);
		realloc_seen();
		if (!ptr_ok(ret, pos)) return bad_ptr(pos);
		if ((size_t) (pos + len) > mb.size()) mb.resize(pos + len, 0);
		if (!check(base, desc, 0, false)) return false;     // new area must read zero before the caller writes
		memcpy(ret, PAT, len); std::copy(PAT, PAT + len, mb.begin() + pos);
		return check(base, desc + " (after writing through the returned address)", 0, false); }
	case C_SET: case C_BSET: {
		const uint8_t *src; long p;
		const type_traits *ST = E > 1 ? b->_content_traits : T_Y;      // element type of the data: the buffer's own when it holds multi-byte elements
		if (in.k == C_SET) {
			if (!pick(L, in.a, len)) return false;
			long n = (long) (used / E);
			long O[7] = { 0, 1, -1, -n - 1, n, n + 2, n / 2 };
			for (int j = 0; j < in.b; ++j) if (O[j] == O[in.b]) return false;
			pos = O[in.b]; p = (pos < 0 ? (long) used : 0) + pos * (long) E;
		} else {
			if (!sole || !pick(P, in.a, pos) || !pick(L, in.b, len)) return false;
			p = pos;
		}
		if ((size_t) len > PATN) return false;
		src = in.c ? PAT : ZERO;
		mk(in.k == C_SET ? "array_set" : "buffer_set", p < 0 ? "pos<0" : acls(p, len, true)); nontrivial(b);
		void *ret = 0; long rc = -1;
		if (in.k == C_SET) fault = guarded([&] { mc::Lib l; ret = mpt_array_set(arr(0), ST, len, in.c ? PAT : 0, pos); });
		else fault = guarded([&] { mc::Lib l; rc = mpt_buffer_set(b, b->_content_traits, pos, in.c ? PAT : 0, len); });
		bool refused = in.k == C_SET ? !ret : rc < 0;
		if (!fault && p >= 0) typed_stat(p, len, refused);
		if (!fault && !refused && p >= 0 && used > 64 && (size_t) (p + len) + 64 < used) stat("set:front-of-large-content");
		if (!fault && !refused && p >= 0) {
			realloc_seen();
			if (in.k == C_SET && !ptr_ok(ret, p)) return bad_ptr(p);
			if ((size_t) p > mb.size()) mb.resize(p, 0);
			if ((size_t) (p + len) > mb.size()) mb.resize(p + len, 0);
			std::copy(src, src + len, mb.begin() + p);
		}
		return check(base, desc, 0, refused, p < 0); }
	case C_RESERVE: {
		long R[5] = { 0, (long) used - 1, (long) used, (long) cap, (long) cap + 1 };
		if (!pick(R, in.a, len)) return false;
		const type_traits *old = b ? b->_content_traits : 0, *T = in.b == 3 ? old : trsel(in.b);
		if (in.b == 3 && trid(old) < 3) return false;      // raw, 'c', 'y' have their own letters
		mk("array_reserve", std::string(T == old ? "same-type" : "type-change") + ((size_t) len < used ? ",len<used" : ((size_t) len <= cap ? ",fits" : ",exceeds-capacity"))); nontrivial(b);
		mpt::buffer *ret = 0;
		fault = guarded([&] { mc::Lib l; ret = mpt_array_reserve(arr(0), len, T); });
		if (!fault && ret) {
			realloc_seen();
			if (ret != h[0].b || ret->_content_traits != T || ret->_size < (size_t) len) { V(base + "wrong-result", desc + ": returned buffer is not installed / has the wrong type / is too small"); return false; }
			std::vector<uint8_t> got; std::string why;
			if (!read(0, got, why)) { V(base + "wrong-content", desc + ": " + why); dead = true; return false; }
			// reserving space never changes what a value vector contains: with the element type unchanged the content must be kept whatever the
			// size, flags or share state; only a change of the element type resets it (documented: "change buffer content type")
			if (T == old ? got != mb : (!got.empty() && got != mb)) { V(base + "wrong-content", desc + ": successful reserve changed the content: " + diffdesc(got, mb)); return false; }
			if (got.size() < mb.size()) stat("reserve:content-reset-on-type-change(not flagged)");
			if (T == old && used && b && ret != b) stat("reserve:same-type,private-copy-keeps-content");
			mb = got;
			if (in.c && len >= 1) {      // documented use: the caller fills the reserved buffer through the buffer-level calls (meta_new.c)
				long rc = -1;
				fault = guarded([&] { mc::Lib l; rc = mpt_buffer_set(ret, T, 0, PAT, 1); });
				if (!fault && rc >= 0) { if (mb.empty()) mb.resize(1); mb[0] = PAT[0]; }
			}
		}
		return check(base, desc, 0, !ret); }
	case C_REDUCE: {
		mk("array_reduce", "-"); nontrivial(b);
		size_t ret = 0;
		fault = guarded([&] { mc::Lib l; ret = mpt_array_reduce(arr(0)); });
		if (!fault) { realloc_seen(); if (ret != (h[0].b ? h[0].b->_size : 0)) { V(base + "wrong-result", desc + fmt(": returned %zu, capacity is %zu", ret, h[0].b ? (size_t) h[0].b->_size : 0)); return false; } }
		return check(base, desc, 0, false); }
	case C_PRINTF: {
		long TL[6] = { 0, 5, (long) left - 1, (long) left, (long) left + 1, 70 };
		if (in.a < 6) { if (!pick(TL, in.a, len) || len > 1000) return false; } else len = 5;
		std::string text; for (long i = 0; i < len; ++i) text += in.a < 6 ? (char) ('a' + i % 26) : (char) ('1' + i);
		pos = used; mk("printf", (size_t) len < left ? "fits" : ((size_t) len == left ? "fills-capacity" : "exceeds-capacity")); nontrivial(b);
		int ret = -1;
		fault = guarded([&] { mc::Lib l; ret = in.a < 6 ? mpt_printf(arr(0), "%s", text.c_str()) : mpt_printf(arr(0), "%d", 12345); });
		if (!fault && ret >= 0) {
			realloc_seen();
			if (ret != len) { V(base + "wrong-result", desc + fmt(": returned %d for %ld characters", ret, len)); return false; }
			mb.insert(mb.end(), text.begin(), text.end());
		}
		return check(base, desc, 0, ret < 0); }
	case C_STRING: {
		mk("array_string", "-"); nontrivial(b);
		char *ret = 0;
		fault = guarded([&] { mc::Lib l; ret = mpt_array_string(arr(0)); });
		if (!fault && ret) {
			realloc_seen();
			if (std::find(mb.begin(), mb.end(), 0) == mb.end()) mb.push_back(0);
			if (!check(base, desc, 0, false)) return false;
			if (!ptr_ok(ret, 0)) return bad_ptr(0);
			return true;
		}
		return check(base, desc, 0, true); }
	case C_CUT: {
		if (!sole || !pick(P, in.a, pos)) return false;
		long C[5] = { 0, 1, (long) used - pos, (long) used - pos + 1, (long) used + 1 };
		if (!pick(C, in.b, len)) return false;
		bool must = (size_t) pos > used || (len && (size_t) (pos + len) > used);
		mk("buffer_cut", std::string((size_t) pos < used ? "pos<used" : ((size_t) pos == used ? "pos=used" : "pos>used")) + (!len ? ",len=0" : (must ? ",beyond-data" : ",inside")));
		ssize_t rc = -1;
		fault = guarded([&] { mc::Lib l; rc = mpt_buffer_cut(b, pos, len); });
		if (!fault && !must) typed_stat(pos, len, rc < 0);
		if (!fault && rc >= 0 && !must) { if (!len) mb.resize(pos); else mb.erase(mb.begin() + pos, mb.begin() + pos + len); }
		return check(base, desc, 0, rc < 0, must); }
	case C_DETACH: {
		if (!b) return false;
		long D[7] = { 0, (long) E, (long) used - (long) E, (long) used, (long) used + 1, 64, 65 };
		if (!pick(D, in.a, len)) return false;
		const type_traits *old = b->_content_traits;
		mk("buffer_detach", (size_t) len < used ? ((size_t) len + 64 < used ? "shrink,below-allocation-unit" : "shrink") : ((size_t) len <= cap ? "fits" : "grow")); nontrivial(b);
		mpt::buffer *ret = 0;
		fault = guarded([&] { mc::Lib l; ret = b->detach(len); if (ret) h[0].b = ret; });      // the caller owns the result (as in mpt_array_reduce)
		if (!fault && ret) {
			realloc_seen();
			uint32_t fl = ret->get_flags();
			if (ret->_content_traits != old || ret->_size < (size_t) len || (fl & (BufferShared | BufferImmutable))) { V(base + "wrong-result", desc + ": detached buffer has another content type, is too small, or is still shared / immutable"); return false; }
			std::vector<uint8_t> got; std::string why;
			if (!read(0, got, why)) { V(base + "wrong-content", desc + ": " + why); dead = true; return false; }
			// a request below the used size may cut the content (it does for reallocating detaches, it does not in place): any prefix not shorter than the request
			bool prefix = got.size() <= mb.size() && std::equal(got.begin(), got.end(), mb.begin()) && got.size() >= std::min(used, (size_t) len);
			if (!prefix) { V(base + "wrong-content", desc + ": content after detach is not the old content (possibly cut to the requested size): " + diffdesc(got, mb)); return false; }
			if (got.size() < mb.size()) stat("detach:content-cut(not flagged)");
			if (used > 64 && (size_t) len + 64 < used) stat("detach:request-more-than-a-unit-below-used");
			mb = got;
		}
		return check(base, desc, 0, !ret); }
	case C_HUGE: {
		// offsets / lengths near SIZE_MAX or LONG_MAX: nothing of the kind lies inside any data, the size arithmetic must not wrap; all must be refused
		const size_t SM = SIZE_MAX;
		const type_traits *ST = b && b->_content_traits ? b->_content_traits : T_Y;
		static const char *on[] = { "array_insert", "array_insert", "array_insert", "buffer_insert", "buffer_insert", "array_append", "array_append", "array_slice", "array_slice", "array_set", "array_reserve", "buffer_detach", "buffer_cut", "buffer_set", "array_set" };
		if (in.a == 14 && b && E == 1) return false;      // needs an element size above one byte for the product to wrap
		if ((in.a == 3 || in.a == 4 || in.a == 12 || in.a == 13) && !sole) return false;
		if (in.a == 11 && !b) return false;
		mk(on[in.a], "beyond-address-range"); nontrivial(b);
		bool accepted = false;
		fault = guarded([&] { mc::Lib l;
			switch (in.a) {
			case 0: accepted = mpt_array_insert(arr(0), SM - 1, 10) != 0; break;
			case 1: accepted = mpt_array_insert(arr(0), SM, 1) != 0; break;
			case 2: accepted = mpt_array_insert(arr(0), (size_t) LONG_MAX + 1, 1) != 0; break;
			case 3: accepted = mpt_buffer_insert(b, SM - 1, 10) != 0; break;
			case 4: accepted = mpt_buffer_insert(b, SM, 1) != 0; break;
			case 5: accepted = mpt_array_append(arr(0), SM - used, 0) != 0; break;
			case 6: accepted = mpt_array_append(arr(0), SM - used - 70, 0) != 0; break;
			case 7: accepted = mpt_array_slice(arr(0), 0, SM - 10) != 0; break;
			case 8: accepted = mpt_array_slice(arr(0), used, SM - used - 70) != 0; break;
			case 9: accepted = mpt_array_set(arr(0), ST, ST->size, PAT, LONG_MAX / (long) ST->size - 100) != 0; break;
			case 10: accepted = mpt_array_reserve(arr(0), SM - 10, b ? b->_content_traits : 0) != 0; break;
			case 11: { mpt::buffer *nb = b->detach(SM - 10); if (nb) { h[0].b = nb; accepted = true; } break; }
			case 12: accepted = mpt_buffer_cut(b, SM - 1, 2) >= 0; break;
			case 13: accepted = mpt_buffer_set(b, b->_content_traits, SM - 1, PAT, 10) >= 0; break;
			default: { const type_traits *WT = b ? b->_content_traits : T_I;      // element offset whose byte position is 2^64
				accepted = mpt_array_set(arr(0), WT, WT->size, PAT, (long) (((size_t) 1 << 63) / (WT->size / 2))) != 0; } } });
		if (!fault) stat(accepted ? "huge-argument:accepted" : "huge-argument:refused");
		return check(base, desc, 0, !accepted, true); }
	case S_HUGE: {
		const size_t NB[3] = { 2, ((size_t) 1 << 62) + 1, SIZE_MAX - (h[2].off + h[2].len) }, SZ[3] = { (size_t) 1 << 63, 4, 0 };
		st = stcls(h[2].b);
		mk("slice_write", "beyond-address-range"); nontrivial(h[2].b);
		size_t off = h[2].off, n = h[2].len; ssize_t ret = -1;
		fault = guarded([&] { mc::Lib l; ret = mpt_slice_write(sl(), NB[in.a], in.a < 2 ? PAT : 0, SZ[in.a]); });
		// preparing space (size 0) reports how often the request fits: 0 = it does not; data writes report the elements taken: none of this size can be
		bool accepted = ret > 0;
		if (!fault) stat(accepted ? "huge-argument:accepted" : "huge-argument:refused");
		if (!fault && !accepted && (h[2].off != off || h[2].len != n)) { V(base + "refused-but-changed", desc + ": refused but the window changed"); return false; }
		return check(base, desc, 2, !accepted, true); }
	case C_CLONE: {
		int d = in.a, s = in.b == 0 ? 1 - d : (in.b == 2 ? 2 : -1);
		mpt::buffer *db = h[d].b, *sb = s >= 0 ? h[s].b : 0;
		st = stcls(db);
		mk("array_clone", s < 0 ? "source-pointer-null" : (!sb ? "source-empty" : (sb == db ? "same-buffer" : "other-buffer")));
		int rc = -1;
		fault = guarded([&] { mc::Lib l; rc = mpt_array_clone(arr(d), s < 0 ? 0 : reinterpret_cast<mpt::array *>(&h[s])); });
		if (!fault && rc >= 0) {
			int want = sb == db ? 0 : (!db ? 1 : (!sb ? 2 : 3));
			if (s >= 0) { m[d].b = m[s].b; m[d].tr = m[s].tr; } else { m[d].b.clear(); m[d].tr = 0; }
			if (rc != want) { V(base + "wrong-result", desc + fmt(": returned %d, documented result is %d", rc, want)); return false; }
		}
		return check(base, desc, d, rc < 0); }
	case S_ASSIGN: case S_CLEAR: {
		int w = in.k == S_ASSIGN ? in.a : -1;
		mpt::buffer *nb = w >= 0 ? h[w].b : 0;
		size_t u = nb ? (size_t) nb->_used : 0, o = 0, n = u;
		if (in.k == S_ASSIGN) {
			if (in.b == 1) { if (u < 3) return false; o = 1; n = u - 2; }
			else if (in.b == 2) { if (u < 1) return false; o = u; n = 0; }
			else if (in.b == 3) { if (u < 1) return false; n = u - 1; }
		} else if (!h[2].b && !h[2].off && !h[2].len) return false;
		mk("slice-assign", "-");
		if (nb) nb->addref();
		if (h[2].b) { mpt::buffer *ob = h[2].b; guarded([&] { ob->unref(); }); }
		h[2].b = nb; h[2].off = o; h[2].len = n;
		if (w >= 0) { m[2].b = m[w].b; m[2].tr = m[w].tr; } else { m[2].b.clear(); m[2].tr = 0; }
		return check(base, desc, 2, false); }
	case S_TAKE: {
		// the slice takes the array's buffer over (reference moved): the slice becomes the only holder if the array was
		mpt::buffer *nb = h[0].b;
		if (!nb) return false;
		size_t u = nb->_used, o = 0, n = u;
		if (in.b == 1) { if (u < 3) return false; o = 1; n = u - 2; }
		else if (in.b == 2) { if (u < 1) return false; o = u; n = 0; }
		else if (in.b == 3) { if (u < 1) return false; n = u - 1; }
		mk("slice-assign", "-");
		if (h[2].b) { mpt::buffer *ob = h[2].b; guarded([&] { ob->unref(); }); }
		h[2].b = nb; h[2].off = o; h[2].len = n; h[0].b = 0;
		m[2].b = m[0].b; m[2].tr = m[0].tr; m[0].b.clear(); m[0].tr = 0;
		return check(base, desc, 2, false); }
	case S_CONSUME: {
		// a reader that has processed data advances the window the way C callers (and slice::shift) do
		size_t n = in.a ? h[2].len : 1;
		if (!h[2].b || !h[2].len || (!in.a && h[2].len < 2)) return false;
		mk("slice-consume", "-");
		h[2].off += n; h[2].len -= n;
		return check(base, desc, 2, false); }
	case S_WRITE: return slice_write(in, false);
	}
	return false;
}

template <int API> bool RawSys<API>::apply_x(const Inst &in)
{
	mpt::buffer *b = h[0].b;
	size_t used = b ? (size_t) b->_used : 0, cap = b ? (size_t) b->_size : 64, left = cap - used;
	long P[5] = { 0, 1, (long) used - 1, (long) used, (long) used + 2 };
	long L[6] = { 0, 1, 3, (long) left - 1, (long) left, (long) left + 1 };
	const char *st = stcls(b);
	long pos = 0, len = 0;
	std::string base; Desc &desc = dsc;
	auto mk = [&](const char *op, const std::string &arg) {
		cur_opn = op;
		base.reserve(96); base = op; base += '|'; base += st; base += '|'; base += arg; base += '|';
		desc.used = used; desc.cap = cap; desc.pos = pos; desc.len = len;
		if (r.replaying) r.note("%s", desc.str().c_str());
	};
	auto realloc_seen = [&]() { if (b && h[0].b && h[0].b->_size != cap) { r.count("nontrivial"); stat("reallocated"); } };
	auto ptr_ok = [&](void *ret, size_t off) { return h[0].b && ret == bdata(h[0].b) + off; };
	auto bad_ptr = [&](size_t off) { V(base + "wrong-result", desc + fmt(": returned address is not buffer data + %zu", off)); return false; };
	std::vector<uint8_t> &mb = m[0].b;

	switch (in.k) {
	case X_APPEND: {
		bool own = in.b >= 2;
		if (own) { if (!b || !used || b->_content_traits) return false; len = in.a ? 1 : (long) used; }
		else if (!pick(L, in.a, len)) return false;
		if ((size_t) len > PATN) return false;
		const std::vector<uint8_t> add(own ? mb.begin() : mb.end(), own ? mb.begin() + len : mb.end());
		pos = used; mk(in.b == 3 ? "array::operator+=" : "array::append", argcls(used, len, used, cap, false) + (own ? ",own-content" : "")); nontrivial(b);
		void *ret = 0;
		if (in.b == 3) fault = guarded([&] { mc::Lib l; *arr(0) += mpt::span<uint8_t>((uint8_t *) arr(0)->base(), arr(0)->length()); ret = h[0].b && h[0].b->_used == used + len ? bdata(h[0].b) + used : 0; });
		else fault = guarded([&] { mc::Lib l; ret = arr(0)->append(len, own ? arr(0)->base() : (in.b ? PAT : 0)); });
		if (!fault && ret) {
			realloc_seen();
			if (own) { mb.insert(mb.end(), add.begin(), add.end()); stat(used + len > cap ? "append-own-content,reallocating" : "append-own-content,in-place"); }
			else mb.insert(mb.end(), in.b ? PAT : ZERO, (in.b ? PAT : ZERO) + len);
			if (!check(base, desc, 0, false)) return false;
			return ptr_ok(ret, used) ? true : bad_ptr(used);
		}
		return check(base, desc, 0, true); }
	case X_INSERT: case X_PREPEND: {
		bool data;
		if (in.k == X_INSERT) { if (!pick(P, in.a, pos) || !pick(L, in.b, len)) return false; data = in.c; }
		else { if (!pick(L, in.a, len)) return false; pos = 0; data = in.b; }
		if ((size_t) len > PATN) return false;
		mk("array::insert", argcls(pos, len, used, cap, false)); nontrivial(b);
		void *ret = 0;
		fault = guarded([&] { mc::Lib l; ret = in.k == X_INSERT ? arr(0)->insert(pos, len, data ? PAT : 0) : arr(0)->prepend(len, data ? PAT : 0); });
		if (!fault && ret) {
			realloc_seen();
			if ((size_t) pos > mb.size()) mb.resize(pos, 0);
			mb.insert(mb.begin() + pos, data ? PAT : ZERO, (data ? PAT : ZERO) + len);
			m[0].tr = 0;
			if (!check(base, desc, 0, false)) return false;
			return ptr_ok(ret, pos) ? true : bad_ptr(pos);
		}
		return check(base, desc, 0, true); }
	case X_SET: {
		long S[7] = { 0, 1, (long) used - 1, (long) used, (long) used + 1, (long) cap, (long) cap + 1 };
		if (!pick(S, in.a, len) || (size_t) len > PATN) return false;
		mk("array::set", (size_t) len <= used ? "len<=used" : ((size_t) len <= cap ? "fits" : "exceeds-capacity")); nontrivial(b);
		void *ret = 0;
		fault = guarded([&] { mc::Lib l; ret = arr(0)->set(len, in.b ? PAT : 0); });
		if (!fault && ret) {
			realloc_seen();
			mb.assign(in.b ? PAT : ZERO, (in.b ? PAT : ZERO) + len);
			if (!check(base, desc, 0, false)) return false;
			return ptr_ok(ret, 0) ? true : bad_ptr(0);
		}
		return check(base, desc, 0, true); }
	case X_ASSIGN: case X_CLEAR: {
		int d = in.a, s = in.k == X_ASSIGN ? in.b : -1;
		st = stcls(h[d].b);
		if (s < 0 && !h[d].b) return false;
		mk("array::operator=", s < 0 ? "empty" : (h[s].b == h[d].b ? "same-buffer" : "other-buffer"));
		fault = guarded([&] { mc::Lib l; if (s >= 0) *arr(d) = *arr(s); else *arr(d) = mpt::array(); });
		if (!fault) { if (s >= 0) { m[d].b = m[s].b; m[d].tr = m[s].tr; } else { m[d].b.clear(); m[d].tr = 0; } }
		return check(base, desc, d, false); }
	case X_FROMSLICE: {
		bool okv; std::vector<uint8_t> v = view(m[2].b, h[2].off, h[2].len, okv);
		if (!okv) return false;
		mk("array::operator=(slice)", h[2].b == b ? "same-buffer" : "other-buffer"); nontrivial(b);
		fault = guarded([&] { mc::Lib l; *arr(0) = *sl(); });
		if (!fault) { realloc_seen(); mb = v; }
		return check(base, desc, 0, false); }
	case X_ADD: {
		int src = in.a ? 0 : 1;      // appending the array's own content is what v.insert(v.end(), v.begin(), v.end()) does for a vector
		if (!h[src].b) return false;
		len = h[src].b->_used; pos = used;
		mk("array::operator+=", argcls(used, len, used, cap, false) + (in.a ? ",own-content" : (h[1].b == b ? ",same-buffer" : ""))); nontrivial(b);
		fault = guarded([&] { mc::Lib l; *arr(0) += *arr(src)->data(); });
		bool refused = !fault && (h[0].b ? (size_t) h[0].b->_used : 0) == used && len;   // no result is reported: unchanged length = refused
		if (in.a && !fault && !refused) stat(used + len > cap ? "append-own-content,reallocating" : "append-own-content,in-place");
		if (!fault && !refused) { realloc_seen(); std::vector<uint8_t> add = m[src].b; mb.insert(mb.end(), add.begin(), add.end()); }
		return check(base, desc, 0, refused); }
	case X_PRINTF: {
		long TL[6] = { 0, 5, (long) left - 1, (long) left, (long) left + 1, 70 };
		if (in.a < 6) { if (!pick(TL, in.a, len) || len > 1000) return false; } else len = 5;
		std::string text; for (long i = 0; i < len; ++i) text += in.a < 6 ? (char) ('a' + i % 26) : (char) ('1' + i);
		pos = used; mk("printf", (size_t) len < left ? "fits" : ((size_t) len == left ? "fills-capacity" : "exceeds-capacity")); nontrivial(b);
		int ret = -1;
		fault = guarded([&] { mc::Lib l; ret = in.a < 6 ? arr(0)->printf("%s", text.c_str()) : arr(0)->printf("%d", 12345); });
		if (!fault && ret >= 0) {
			realloc_seen();
			if (ret != len) { V(base + "wrong-result", desc + fmt(": returned %d for %ld characters", ret, len)); return false; }
			mb.insert(mb.end(), text.begin(), text.end());
		}
		return check(base, desc, 0, ret < 0); }
	case X_STRING: {
		mk("array_string", "-"); nontrivial(b);
		char *ret = 0;
		fault = guarded([&] { mc::Lib l; ret = arr(0)->string(); });
		if (!fault && ret) {
			realloc_seen();
			if (std::find(mb.begin(), mb.end(), 0) == mb.end()) mb.push_back(0);
			if (!check(base, desc, 0, false)) return false;
			return ptr_ok(ret, 0) ? true : bad_ptr(0);
		}
		return check(base, desc, 0, true); }
	case X_SETVALUE: {
		static const char *txt[2] = { "hey", "" };
		struct iovec vec; vec.iov_base = PAT; vec.iov_len = 3;
		mpt::value v;
		if (in.a < 2) v.set('s', &txt[in.a]); else v.set(mpt::TypeVector, &vec);
		mk("array::set(value)", in.a == 2 ? "vector" : "string"); nontrivial(b);
		int rc = -1;
		fault = guarded([&] { mc::Lib l; rc = arr(0)->set(v); });
		if (!fault && rc >= 0) {
			realloc_seen();
			if (in.a < 2) { mb.assign(txt[in.a], txt[in.a] + strlen(txt[in.a]) + 1); }
			else mb.assign(PAT, PAT + 3);
		}
		return check(base, desc, 0, rc < 0); }
	case X_SETREF: {
		if (h[1].b == b) return false;
		mk("array::set(reference)", "-");
		bool ok = false;
		fault = guarded([&] { mc::Lib l; mpt::reference<mpt::buffer> ref; if (h[1].b) { h[1].b->addref(); ref.set_instance(h[1].b); } ok = arr(0)->set(ref); });
		if (!fault && ok) { m[0].b = m[1].b; m[0].tr = m[1].tr; }
		return check(base, desc, 0, !ok); }
	case XS_FROM: case XS_CLEAR: {
		int w = in.k == XS_FROM ? in.a : -1;
		if (w < 0 && !h[2].b && !h[2].off && !h[2].len) return false;
		st = stcls(h[2].b);
		mk("slice-assign", "-");
		fault = guarded([&] { mc::Lib l; if (w >= 0) *sl() = mpt::slice(*arr(w)); else *sl() = mpt::slice(); });
		if (!fault) {
			if (w >= 0) { m[2].b = m[w].b; m[2].tr = m[w].tr; } else { m[2].b.clear(); m[2].tr = 0; }
			size_t want = w >= 0 && h[w].b && !h[w].b->_content_traits ? (size_t) h[w].b->_used : 0;
			if (h[2].off != 0 || h[2].len != want) { V(base + "wrong-result", desc + fmt(": window off=%zu len=%zu, expected 0/%zu", (size_t) h[2].off, (size_t) h[2].len, want)); return false; }
		}
		return check(base, desc, 2, false); }
	case XS_SHIFT: case XS_TRIM: {
		size_t off = h[2].off, n = h[2].len;
		size_t dlen = h[2].b && !h[2].b->_content_traits ? (size_t) h[2].b->_used : 0;
		long N[6] = { -1, 0, 1, (long) n, (long) n + 1, -(long) off - 1 }, a = N[in.a];
		for (int j = 0; j < in.a; ++j) if (N[j] == a) return false;
		bool shift = in.k == XS_SHIFT, must;
		size_t woff = off, wlen = n;
		if (shift) { must = a >= 0 ? (size_t) a > n : (size_t) -a > off; woff = off + a; wlen = n - a; }
		else { must = a >= 0 ? (size_t) a > n : off + n + (size_t) -a > dlen; wlen = n - a; }
		st = stcls(h[2].b); pos = a;
		mk(shift ? "slice::shift" : "slice::trim", a < 0 ? (must ? "grow,beyond-data" : "grow,inside") : (must ? "beyond-window" : "inside"));
		bool ok = false;
		fault = guarded([&] { mc::Lib l; ok = shift ? sl()->shift(a) : sl()->trim(a); });
		if (!fault && ok && !must && (h[2].off != woff || h[2].len != wlen)) { V(base + "wrong-result", desc + fmt(": window off=%zu len=%zu, expected %zu/%zu", (size_t) h[2].off, (size_t) h[2].len, woff, wlen)); return false; }
		if (!fault && !ok && (h[2].off != off || h[2].len != n)) { V(base + "refused-but-changed", desc + ": refused but the window moved"); return false; }
		return check(base, desc, 2, !ok, must); }
	case X_PREPARE: {
		// reserving space in an encode_array without encoder (plain byte store on top of array) must keep the stored bytes
		if (b && b->_content_traits) return false;
		len = in.a ? (long) left + 1 : 1;
		mk("encode_array::prepare", (size_t) len <= left ? "fits" : "exceeds-capacity"); nontrivial(b);
		bool ok = false;
		fault = guarded([&] { mc::Lib l; mpt::encode_array e;
			e._d._buf._ref = (mpt::array::content *) h[0].b; h[0].b = 0;
			ok = e.prepare(len);
			h[0].b = e._d._buf._ref; e._d._buf._ref = 0; });
		if (!fault) realloc_seen();
		return check(base, desc, 0, !ok); }
	case X_INSOWN: {
		// the inserted bytes are a range of the array itself (v.insert(v.begin() + pos, v.begin() + k, v.begin() + k + n) for a vector)
		if (!b || b->_content_traits || used < 2) return false;
		len = (left + 1 <= used) ? (long) left + 1 : 2;      // nearly full buffers: the insert has to reallocate
		if ((size_t) len > used || (size_t) len > PATN) return false;
		long PI[3] = { 0, (long) (used / 2), (long) used };
		pos = PI[in.a]; size_t so = in.b ? used - len : 0;
		const std::vector<uint8_t> add(mb.begin() + so, mb.begin() + so + len);
		mk("array::insert", argcls(pos, len, used, cap, false) + ",own-content"); nontrivial(b);
		void *ret = 0;
		fault = guarded([&] { mc::Lib l; ret = arr(0)->insert(pos, len, bdata(b) + so); });
		if (!fault && ret) {
			realloc_seen();
			mb.insert(mb.begin() + pos, add.begin(), add.end());
			stat(used + len > cap ? "insert-own-content,reallocating" : "insert-own-content,in-place");
		}
		return check(base, desc, 0, !ret); }
	case X_SETOWN: {
		// assign a range of the array's own bytes (v.assign(...) from the old content: drop leading bytes / keep a prefix / keep the tail half)
		if (!b || used < 4) return false;
		size_t so = in.a == 0 ? 2 : (in.a == 1 ? 0 : used / 2);
		len = in.a == 0 ? (long) used - 2 : (in.a == 1 ? 2 : (long) (used - used / 2));
		const std::vector<uint8_t> keep(mb.begin() + so, mb.begin() + so + len);
		mk("array::set", std::string(b->_content_traits ? "typed-source" : "raw-source") + ",own-content"); nontrivial(b);
		void *ret = 0;
		fault = guarded([&] { mc::Lib l; ret = arr(0)->set(len, bdata(b) + so); });
		if (!fault && ret) { realloc_seen(); mb = keep; stat(h[0].b != b ? "set-own-content,new-buffer" : "set-own-content,in-place"); }
		return check(base, desc, 0, !ret); }
	case X_ESHIFT: {
		// encode_array without encoder: two finished bytes at the end of the data are moved to the front, the rest is dropped
		if (!b || b->_content_traits || used < 3) return false;
		const std::vector<uint8_t> keep(mb.end() - 2, mb.end());
		mk("encode_array::shift", "-"); nontrivial(b);
		bool ok = false;
		fault = guarded([&] { mc::Lib l; mpt::encode_array e;
			e._d._buf._ref = (mpt::array::content *) h[0].b; h[0].b = 0; e._state.done = 2; e._state.scratch = 0;
			ok = e.shift(0);
			h[0].b = e._d._buf._ref; e._d._buf._ref = 0; });
		if (!fault && ok) { realloc_seen(); mb = keep; }
		return check(base, desc, 0, !ok); }
	case X_HUGE: {
		static const char *on[] = { "array::insert", "array::append", "array::set", "array::insert" };
		mk(on[in.a], "beyond-address-range"); nontrivial(b);
		bool accepted = false;
		fault = guarded([&] { mc::Lib l;
			switch (in.a) {
			case 0: accepted = arr(0)->insert(SIZE_MAX - 1, 10, PAT) != 0; break;
			case 1: accepted = arr(0)->append(SIZE_MAX - used, 0) != 0; break;
			case 2: accepted = arr(0)->set(SIZE_MAX - 10, 0) != 0; break;
			default: accepted = arr(0)->prepend(SIZE_MAX - 10, 0) != 0; } });
		if (!fault) stat(accepted ? "huge-argument:accepted" : "huge-argument:refused");
		return check(base, desc, 0, !accepted, true); }
	case S_HUGE: {
		const size_t NB[3] = { 2, ((size_t) 1 << 62) + 1, SIZE_MAX - (h[2].off + h[2].len) }, SZ[3] = { (size_t) 1 << 63, 4, 0 };
		st = stcls(h[2].b);
		mk("slice_write", "beyond-address-range"); nontrivial(h[2].b);
		size_t off = h[2].off, n = h[2].len; ssize_t ret = -1;
		fault = guarded([&] { mc::Lib l; ret = sl()->write(NB[in.a], in.a < 2 ? PAT : 0, SZ[in.a]); });
		bool accepted = ret > 0;
		if (!fault) stat(accepted ? "huge-argument:accepted" : "huge-argument:refused");
		if (!fault && !accepted && (h[2].off != off || h[2].len != n)) { V(base + "refused-but-changed", desc + ": refused but the window changed"); return false; }
		return check(base, desc, 2, !accepted, true); }
	case XS_TAKE: {
		if (!b) return false;
		st = stcls(h[2].b);
		mk("slice-assign", "-");
		fault = guarded([&] { mc::Lib l; *sl() = mpt::slice(*arr(0)); *arr(0) = mpt::array(); });
		if (!fault) {
			size_t want = !b->_content_traits ? used : 0;
			m[2].b = m[0].b; m[2].tr = m[0].tr; m[0].b.clear(); m[0].tr = 0;
			if (h[2].off != 0 || h[2].len != want) { V(base + "wrong-result", desc + fmt(": window off=%zu len=%zu, expected 0/%zu", (size_t) h[2].off, (size_t) h[2].len, want)); return false; }
		}
		return check(base, desc, 2, false); }
	case XS_WRITE: return slice_write(in, true);
	}
	return false;
}

// ================================================================== families t / p / m : typed C++ templates
// handles are single pointers (reference<content<T> >) kept in raw slots, so that a system that has seen a
// violation can be abandoned without running destructors on damaged state
static bool heap_buf(mpt::buffer *b) { return b && ledger_is_live((const char *) b - (64 - sizeof(mpt::buffer))); }
struct Slots {
	void *p[3];
	mpt::buffer *buf(int i) const { return (mpt::buffer *) p[i]; }
	int groups(int g[3], mpt::buffer *bs[3]) const
	{
		int n = 0;
		for (int i = 0; i < 3; ++i) {
			g[i] = -1;
			if (!buf(i)) continue;
			for (int j = 0; j < n; ++j) if (bs[j] == buf(i)) g[i] = j;
			if (g[i] < 0) { bs[n] = buf(i); g[i] = n++; }
		}
		return n;
	}
	size_t heap_groups() const { int g[3]; mpt::buffer *bs[3]; int n = groups(g, bs); size_t k = 0; for (int j = 0; j < n; ++j) if (heap_buf(bs[j])) ++k; return k; }
};
static std::string tstate(mpt::buffer *b)
{
	if (!b) return "null";
	uint32_t f = b->get_flags();
	if (!heap_buf(b)) return "default";
	return (f & mpt::BufferShared) ? "shared" : "sole";
}
static std::string tcanon(mpt::buffer *b, size_t esz)
{
	if (!b) return "-";
	if (!heap_buf(b)) return "D";
	size_t used = b->_used, size = b->_size; uint32_t fl = b->get_flags();
	return fmt("{f%x%s u%s%s l%s c%zu}", fl & 0xff, (fl & mpt::BufferShared) ? "S" : "", cls5(used / esz, 4), used % esz ? "!" : "", cls5(size >= used ? (size - used) / esz : 0, 3), std::min((size + 64) / 128, (size_t) 3));
}
template <class T> static std::string vecs(const std::vector<T> &v) { std::string s = "["; for (size_t i = 0; i < v.size() && i < 24; ++i) s += (i ? "," : "") + std::to_string((long) v[i]); if (v.size() > 24) s += fmt(",..(%zu)", v.size()); return s + "]"; }

// ---- typed_array<int> x2 + unique_array<int>
enum TK { TK_INSERT, TK_SET, TK_GET, TK_RESIZE, TK_RESERVE, TK_DETACH, TK_OFFSET, TK_ASSIGN, TK_SWAP, TK_INSOWN, TK_HUGE };
static std::vector<Inst> g_ttab;
static void build_ttab()
{
	if (!g_ttab.empty()) return;
	for (int w = 0; w < 3; w += 2) {
		for (int i = 0; i < 8; ++i) g_ttab.push_back(Inst{TK_INSERT, w, i, 0});
		for (int i = 0; i < 5; ++i) { g_ttab.push_back(Inst{TK_SET, w, i, 0}); g_ttab.push_back(Inst{TK_GET, w, i, 0}); }
		for (int i = 0; i < 7; ++i) g_ttab.push_back(Inst{TK_RESIZE, w, i, 0});
		for (int i = 0; i < 5; ++i) g_ttab.push_back(Inst{TK_RESERVE, w, i, 0});
		g_ttab.push_back(Inst{TK_DETACH, w, 0, 0});
		for (int i = 0; i < 3; ++i) g_ttab.push_back(Inst{TK_OFFSET, w, i, 0});
	}
	for (int i = 0; i < 6; ++i) g_ttab.push_back(Inst{TK_ASSIGN, i, 0, 0});
	for (int i = 0; i < 3; ++i) for (int k = 0; k < 2; ++k) g_ttab.push_back(Inst{TK_INSOWN, 0, i, k});
	for (int w = 0; w < 3; w += 2) for (int i = 0; i < 5; ++i) g_ttab.push_back(Inst{TK_HUGE, w, i, 0});
	g_ttab.push_back(Inst{TK_SWAP, 0, 0, 0});
}
struct TSys {
	typedef mpt::typed_array<int> TA; typedef mpt::unique_array<int> UA;
	Run &r; Slots h; std::vector<int> m[3]; bool dead; int fault; size_t nap; const char *cur_opn;
	TA *t(int i) { return reinterpret_cast<TA *>(&h.p[i]); }
	UA *u(int i) { return reinterpret_cast<UA *>(&h.p[i]); }
	void V(const std::string &sig, const std::string &detail) { report(r, sig, detail); }
	TSys(Run &run, uint64_t) : r(run), dead(false), fault(0), nap(0)
	{
		warm(); build_ttab(); if (!g_child && !r.replaying) zygote_start();
		ledger_base(); asan_error();
		{ mc::Lib l; new (&h.p[0]) TA(); new (&h.p[1]) TA(); new (&h.p[2]) UA(); }
	}
	~TSys()
	{
		if (dead) { g_suspect = true; return; }
		guarded([&] { t(0)->~TA(); t(1)->~TA(); u(2)->~UA(); });
	}
	int nops() { return (int) g_ttab.size(); }
	static const char *hname(int i) { return i == 2 ? "unique_array" : (i ? "typed_array1" : "typed_array0"); }
	void relabel()
	{
		int g[3]; mpt::buffer *bs[3]; int n = h.groups(g, bs);
		for (int j = 0; j < n; ++j) {
			mpt::buffer *b = bs[j];
			if (!heap_buf(b) || b->_used > b->_size) continue;
			int *d = (int *) (b + 1);
			for (size_t i = 0; i < b->_used / 4; ++i) d[i] = (j + 1) * 1000 + (int) i + 1;
			memset((uint8_t *) d + b->_used, JUNK, b->_size - b->_used);
		}
		for (int i = 0; i < 3; ++i) { m[i].clear(); mpt::buffer *b = h.buf(i); if (b && heap_buf(b)) for (size_t k = 0; k < b->_used / 4; ++k) m[i].push_back((g[i] + 1) * 1000 + (int) k + 1); }
	}
	std::string canon()
	{
		int g[3]; mpt::buffer *bs[3]; int n = h.groups(g, bs);
		std::string s;
		for (int j = 0; j < n; ++j) s += fmt("g%d", j) + tcanon(bs[j], 4) + " ";
		for (int i = 0; i < 3; ++i) s += fmt("%s=g%d ", i == 2 ? "u" : (i ? "t1" : "t0"), g[i]);
		return s;
	}
	bool check(const std::string &base, const std::string &desc, int w, bool refused, bool must_refuse = false)
	{
		if (fault) { V(base + signame(fault), desc + ": the call faulted"); dead = true; return false; }
		if (asan_error()) { V(base + "memory-error", desc + ": access outside the buffer / freed memory (AddressSanitizer)"); dead = true; return false; }
		if (must_refuse && !refused) { V(base + "accepted-out-of-range", desc + ": arguments outside the data were not refused"); return false; }
		statop(cur_opn, refused);
		for (int pass = 0; pass < 2; ++pass) for (int i = 0; i < 3; ++i) {
			if ((pass == 0) != (i != w)) continue;
			const char *grp = i != w ? "other-handle-changed" : (refused ? "refused-but-changed" : "wrong-content");
			mpt::buffer *b = h.buf(i);
			if (!b) { V(base + grp, desc + fmt(": %s lost its buffer", hname(i))); dead = true; return false; }
			if (b->_used > b->_size || b->_used % 4) { V(base + grp, desc + fmt(": %s used size %zu / capacity %zu", hname(i), (size_t) b->_used, (size_t) b->_size)); dead = true; return false; }
			std::vector<int> got((int *) (b + 1), (int *) (b + 1) + b->_used / 4);
			if (got != m[i]) { V(base + grp, desc + fmt(": %s reads %s, model %s", hname(i), vecs(got).c_str(), vecs(m[i]).c_str())); return false; }
		}
		if (asan_error()) { V(base + "memory-error", desc + ": reading a handle back touches freed memory"); dead = true; return false; }
		size_t n = h.heap_groups(), live = ledger_live() - g_lbase;
		if (live != n) { V(base + (live > n ? "leak" : "released-while-referenced"), desc + fmt(": %zu buffers allocated, %zu reachable from the handles", live, n)); if (live < n) dead = true; return false; }
		return true;
	}
	std::string opname(int op)
	{
		const Inst &in = g_ttab[op];
		const char *w = in.a == 2 ? "u" : "t0";
		static const char *ipos[] = { "0", "1", "n-1", "n", "n+2", "cap", "-1", "-(n+1)" }, *spos[] = { "0", "n-1", "n", "-1", "-(n+1)" };
		static const char *rs[] = { "0", "n-1", "n", "n+1", "cap", "cap+1", "-1" }, *rv[] = { "0", "n", "cap+1", "-1", "-(n+1)" }, *of[] = { "first", "last", "absent" };
		static const char *as[] = { "t0=t1", "t1=t0", "t0=typed_array()", "(unique_array&)t0=u", "u=t0", "u=unique_array()" };
		switch (in.k) {
		case TK_INSERT: return fmt("%s.insert(%s)", w, ipos[in.b]);
		case TK_SET: return fmt("%s.set(%s)", w, spos[in.b]);
		case TK_GET: return fmt("%s.get(%s)", w, spos[in.b]);
		case TK_RESIZE: return fmt("%s.resize(%s)", w, rs[in.b]);
		case TK_RESERVE: return fmt("%s.reserve(%s)", w, rv[in.b]);
		case TK_DETACH: return fmt("%s.detach()", w);
		case TK_OFFSET: return fmt("%s.offset(%s)", w, of[in.b]);
		case TK_ASSIGN: return as[in.a];
		case TK_INSOWN: { static const char *ip[] = { "0", "n", "n/2" }; return fmt("t0.insert(%s,*t0.get(%s))", ip[in.b], in.c ? "n-1" : "0"); }
		case TK_HUGE: { static const char *hn[] = { "insert(2^62)", "set(2^62)", "get(2^62)", "resize(2^62)", "reserve(2^62)" }; return fmt("%s.%s", w, hn[in.b]); }
		case TK_SWAP: return "swap(t0,t1)";
		}
		return "?";
	}
	bool apply(int op)
	{
		const Inst &in = g_ttab[op];
		relabel(); fault = 0; asan_error();
		if (in.k == TK_SWAP) { ++nap; if (h.p[0] == h.p[1]) return false; std::swap(h.p[0], h.p[1]); std::swap(m[0], m[1]); return true; }
		std::string name = opname(op), hint = name.substr(0, name.find('('));
		r.hint(hint.c_str());
		bool frontier = r.cur.size() == nap + 2; ++nap;
		if (frontier && g_expired) return false;
		std::string key = fmt("t/%d/", op) + tcanon(h.buf(0), 4) + tcanon(h.buf(1), 4) + tcanon(h.buf(2), 4) + (h.p[0] == h.p[1] ? "=" : "") + (h.p[0] == h.p[2] ? "~" : "") + (h.p[1] == h.p[2] ? "^" : "");
		if (frontier && !screened(r, 't', fnv(key.data(), key.size()), hint, name + " in state " + canon())) return false;
		++r.executions;
		int w = in.k == TK_ASSIGN ? 0 : in.a;
		mpt::buffer *b = h.buf(w);
		long n = b ? (long) (b->_used / 4) : 0, cap = b && heap_buf(b) ? (long) (b->_size / 4) : 16;
		std::string st = tstate(b), pre = canon(), base, desc;
		long pos = 0;
		auto mk = [&](const char *opn, const std::string &arg) { cur_opn = opn; base = std::string(opn) + "|" + st + "|" + arg + "|"; desc = fmt("%s [n=%ld capacity=%ld arg=%ld] in state %s", name.c_str(), n, cap, pos, pre.c_str()); r.note("%s", desc.c_str()); };
		auto touched = [&]() { if (b && heap_buf(b) && (b->get_flags() & mpt::BufferShared)) { r.count("nontrivial"); stat("target-shared-or-immutable"); } };
		auto moved = [&]() { if (h.buf(w) != b && heap_buf(b)) { r.count("nontrivial"); stat("reallocated"); } };
		auto dedupe = [&](const long *vals, int idx) { for (int j = 0; j < idx; ++j) if (vals[j] == vals[idx]) return false; return true; };
		std::vector<int> &mv = m[w];
		switch (in.k) {
		case TK_INSERT: {
			long I[8] = { 0, 1, n - 1, n, n + 2, cap, -1, -(n + 1) };
			if (!dedupe(I, in.b) || (I[in.b] == n - 1 && n < 1) || I[in.b] > 400) return false;
			pos = I[in.b]; long p = pos < 0 ? pos + n : pos;
			mk("insert", p < 0 ? "before-start" : (p < n ? "inside" : (p == n ? "at-end" : "behind-gap")) + std::string(std::max(p, n) + 1 > cap ? ",exceeds-capacity" : "")); touched();
			bool ok = false;
			if (w == 0) fault = guarded([&] { mc::Lib l; ok = t(0)->insert(pos, 777); });
			// unique_array::insert(pos) hands out the new element: every second letter leaves it as constructed (a vector's emplace(pos) value-initialises)
			bool assign = !(w == 2 && (in.b & 1));
			if (w != 0) fault = guarded([&] { mc::Lib l; int *e = u(2)->insert(pos); if (e) { if (assign) *e = 777; ok = true; } });
			if (!fault && ok && p >= 0) { moved(); if ((size_t) p > mv.size()) mv.resize(p, 0); mv.insert(mv.begin() + p, assign ? 777 : 0); if (!assign) stat("insert:new-element-left-as-constructed"); }
			return check(base, desc, w, !ok, p < 0); }
		case TK_SET: case TK_GET: {
			long S[5] = { 0, n - 1, n, -1, -(n + 1) };
			if (!dedupe(S, in.b)) return false;
			pos = S[in.b]; long p = pos < 0 ? pos + n : pos;
			bool must = p < 0 || p >= n;
			mk(in.k == TK_SET ? "set" : "get", must ? "outside" : "inside");
			if (in.k == TK_SET) {
				touched();
				bool ok = false;
				fault = guarded([&] { mc::Lib l; ok = u(w)->set(pos, 555); });
				if (!fault && ok && !must) { moved(); mv[p] = 555; }
				return check(base, desc, w, !ok, must);
			}
			int *e = 0;
			fault = guarded([&] { mc::Lib l; e = u(w)->get(pos); });
			if (!fault && e && !must && (e != (int *) (h.buf(w) + 1) + p)) { V(base + "wrong-result", desc + ": returned address is not the element"); return false; }
			return check(base, desc, w, !e, must); }
		case TK_RESIZE: {
			long R[7] = { 0, n - 1, n, n + 1, cap, cap + 1, -1 };
			if (!dedupe(R, in.b) || (in.b == 1 && n < 1) || R[in.b] > 400) return false;
			pos = R[in.b];
			mk("resize", pos < 0 ? "negative" : (pos < n ? "shrink" : (pos == n ? "same" : (pos <= cap ? "grow" : "grow,exceeds-capacity")))); touched();
			bool ok = false;
			fault = guarded([&] { mc::Lib l; ok = u(w)->resize(pos); });
			if (!fault && ok && pos >= 0) { moved(); mv.resize(pos, 0); }
			return check(base, desc, w, !ok); }
		case TK_RESERVE: {
			long R[5] = { 0, n, cap + 1, -1, -(n + 1) };
			if (!dedupe(R, in.b) || R[in.b] > 400) return false;
			pos = R[in.b];
			mk("reserve", pos < 0 ? "negative" : (pos < n ? "below-length" : (pos <= cap ? "fits" : "exceeds-capacity"))); touched();
			bool ok = false;
			fault = guarded([&] { mc::Lib l; ok = u(w)->reserve(pos); });
			if (!fault) moved();
			return check(base, desc, w, !ok); }
		case TK_DETACH: {
			mk("detach", "-"); touched();
			bool ok = false;
			fault = guarded([&] { mc::Lib l; ok = u(w)->detach(); });
			if (!fault) moved();
			return check(base, desc, w, !ok); }
		case TK_INSOWN: {
			// the value argument refers to an element of the array itself (std::vector::insert(pos, v[k]) inserts the value v[k] had before the call)
			if (n < 2) return false;
			long I[3] = { 0, n, n / 2 };
			if (!dedupe(I, in.b)) return false;
			pos = I[in.b]; long k = in.c ? n - 1 : 0; int val = mv[k];
			mk("insert-own-element", std::string(pos < n ? "inside" : "at-end") + (n + 1 > cap ? ",exceeds-capacity" : "")); touched();
			bool ok = false;
			fault = guarded([&] { mc::Lib l; ok = t(0)->insert(pos, *t(0)->get(k)); });
			if (!fault && ok) { moved(); mv.insert(mv.begin() + pos, val); stat(n + 1 > cap ? "insert-own-element,reallocating" : "insert-own-element,in-place"); }
			return check(base, desc, 0, !ok); }
		case TK_HUGE: {
			// an index whose byte offset does not fit the address range lies outside the data
			pos = 1L << 62;
			static const char *hn[] = { "insert", "set", "get", "resize", "reserve" };
			mk(hn[in.b], "beyond-address-range"); touched();
			bool ok = false;
			fault = guarded([&] { mc::Lib l;
				switch (in.b) {
				case 0: if (w == 0) ok = t(0)->insert(pos, 777); else { int *e = u(2)->insert(pos); if (e) { ok = true; if (e >= (int *) (h.buf(w) + 1) && e < (int *) ((uint8_t *) (h.buf(w) + 1) + h.buf(w)->_used)) *e = 777; } } break;
				case 1: ok = u(w)->set(pos, 555); break;
				case 2: ok = u(w)->get(pos) != 0; break;
				case 3: ok = u(w)->resize(pos); break;
				default: ok = u(w)->reserve(pos); } });
			if (!fault) { moved(); stat(ok ? "index-beyond-address-range:accepted" : "index-beyond-address-range:refused"); }
			return check(base, desc, w, !ok, in.b != 4); }
		case TK_OFFSET: {
			if (in.b < 2 && !n) return false;
			if (in.b == 1 && n < 2) return false;
			int ref = in.b == 0 ? mv[0] : (in.b == 1 ? mv[n - 1] : -5);
			long want = in.b == 0 ? 0 : (in.b == 1 ? n - 1 : -1), got = -2;
			mk("offset", "-");
			fault = guarded([&] { mc::Lib l; got = u(w)->offset(ref); });
			if (!fault && got != want) { V(base + "wrong-result", desc + fmt(": returned %ld, expected %ld", got, want)); return false; }
			return check(base, desc, -1, false); }
		case TK_ASSIGN: {
			int d, s;
			switch (in.a) { case 0: d = 0; s = 1; break; case 1: d = 1; s = 0; break; case 2: d = 0; s = -1; break; case 3: d = 0; s = 2; break; case 4: d = 2; s = 0; break; default: d = 2; s = -1; }
			if (s >= 0 && h.p[d] == h.p[s]) return false;
			if (s < 0 && !heap_buf(h.buf(d))) return false;
			st = tstate(h.buf(d));
			mk("assign", s < 0 ? "fresh" : "copy");
			fault = guarded([&] { mc::Lib l;
				switch (in.a) {
				case 0: *t(0) = *t(1); break; case 1: *t(1) = *t(0); break; case 2: *t(0) = TA(); break;
				case 3: *u(0) = *u(2); break; case 4: *u(2) = *u(0); break; default: *u(2) = UA(); } });
			if (!fault) { if (s >= 0) m[d] = m[s]; else m[d].clear(); }
			return check(base, desc, d, false); }
		}
		return false;
	}
};

// ---- pointer_array<int> x2 + typed_array<int*>
enum PK { PK_INSERT, PK_SET, PK_COMPACT, PK_SWAPEL, PK_UNUSED, PK_OFFSET, PK_ASSIGN, PK_SWAP };
static std::vector<Inst> g_ptab;
static int g_cell[4];
static void build_ptab()
{
	if (!g_ptab.empty()) return;
	for (int i = 0; i < 4; ++i) for (int k = 0; k < 3; ++k) g_ptab.push_back(Inst{PK_INSERT, i, k, 0});
	for (int i = 0; i < 2; ++i) for (int k = 0; k < 2; ++k) g_ptab.push_back(Inst{PK_SET, i, k, 0});
	g_ptab.push_back(Inst{PK_COMPACT, 0, 0, 0});
	for (int i = 0; i < 4; ++i) for (int j = 0; j < 2; ++j) g_ptab.push_back(Inst{PK_SWAPEL, i, j, 0});
	g_ptab.push_back(Inst{PK_UNUSED, 0, 0, 0});
	g_ptab.push_back(Inst{PK_OFFSET, 1, 0, 0}); g_ptab.push_back(Inst{PK_OFFSET, 2, 0, 0});
	for (int i = 0; i < 5; ++i) g_ptab.push_back(Inst{PK_ASSIGN, i, 0, 0});
	g_ptab.push_back(Inst{PK_SWAP, 0, 0, 0});
}
struct PSys {
	typedef mpt::pointer_array<int> PA; typedef mpt::typed_array<int *> DA;
	Run &r; Slots h; std::vector<int> m[3]; bool dead; int fault; size_t nap; const char *cur_opn;
	PA *p(int i) { return reinterpret_cast<PA *>(&h.p[i]); }
	DA *d(int i) { return reinterpret_cast<DA *>(&h.p[i]); }
	void V(const std::string &sig, const std::string &detail) { report(r, sig, detail); }
	PSys(Run &run, uint64_t) : r(run), dead(false), fault(0), nap(0)
	{
		warm(); build_ptab(); if (!g_child && !r.replaying) zygote_start();
		ledger_base(); asan_error();
		{ mc::Lib l; new (&h.p[0]) PA(); new (&h.p[1]) PA(); new (&h.p[2]) DA(); }
	}
	~PSys()
	{
		if (dead) { g_suspect = true; return; }
		guarded([&] { p(0)->~PA(); p(1)->~PA(); d(2)->~DA(); });
	}
	int nops() { return (int) g_ptab.size(); }
	static const char *hname(int i) { return i == 2 ? "typed_array<int*>" : (i ? "pointer_array1" : "pointer_array0"); }
	static int cellidx(int *q) { if (!q) return 0; for (int k = 1; k < 4; ++k) if (q == &g_cell[k]) return k; return 9; }
	bool read(int i, std::vector<int> &out)
	{
		mpt::buffer *b = h.buf(i); out.clear();
		if (!b || b->_used > b->_size || b->_used % sizeof(int *)) return false;
		int **e = (int **) (b + 1);
		for (size_t k = 0; k < b->_used / sizeof(int *); ++k) out.push_back(cellidx(e[k]));
		return true;
	}
	std::string canon()
	{
		int g[3]; mpt::buffer *bs[3]; int n = h.groups(g, bs);
		std::string s;
		for (int j = 0; j < n; ++j) {
			s += fmt("g%d", j) + tcanon(bs[j], sizeof(int *));
			for (int i = 0; i < 3; ++i) if (g[i] == j) { std::vector<int> v; if (read(i, v)) s += vecs(v); break; }
			s += " ";
		}
		for (int i = 0; i < 3; ++i) s += fmt("%s=g%d ", i == 2 ? "d" : (i ? "p1" : "p0"), g[i]);
		return s;
	}
	bool check(const std::string &base, const std::string &desc, int w, bool refused, bool must_refuse = false)
	{
		if (fault) { V(base + signame(fault), desc + ": the call faulted"); dead = true; return false; }
		if (asan_error()) { V(base + "memory-error", desc + ": access outside the buffer / freed memory (AddressSanitizer)"); dead = true; return false; }
		if (must_refuse && !refused) { V(base + "accepted-out-of-range", desc + ": arguments outside the data were not refused"); dead = true; return false; }
		statop(cur_opn, refused);
		for (int pass = 0; pass < 2; ++pass) for (int i = 0; i < 3; ++i) {
			if ((pass == 0) != (i != w)) continue;
			const char *grp = i != w ? "other-handle-changed" : (refused ? "refused-but-changed" : "wrong-content");
			std::vector<int> got;
			if (!read(i, got)) { V(base + grp, desc + fmt(": %s has an invalid used size", hname(i))); dead = true; return false; }
			if (got != m[i]) { V(base + grp, desc + fmt(": %s reads %s, model %s (0 = null, 9 = not a stored pointer)", hname(i), vecs(got).c_str(), vecs(m[i]).c_str())); return false; }
		}
		if (asan_error()) { V(base + "memory-error", desc + ": reading a handle back touches freed memory"); dead = true; return false; }
		size_t n = h.heap_groups(), live = ledger_live() - g_lbase;
		if (live != n) { V(base + (live > n ? "leak" : "released-while-referenced"), desc + fmt(": %zu buffers allocated, %zu reachable from the handles", live, n)); if (live < n) dead = true; return false; }
		return true;
	}
	std::string opname(int op)
	{
		const Inst &in = g_ptab[op];
		static const char *ip[] = { "0", "n", "n+2", "-1" }, *sp[] = { "0", "n-1" }, *sw[] = { "0", "n-1", "n", "-1" };
		static const char *as[] = { "p0=p1", "p1=p0", "p0=pointer_array()", "p0=d", "d=p0" };
		switch (in.k) {
		case PK_INSERT: return fmt("p0.insert(%s,%s)", ip[in.a], in.b ? fmt("&cell%d", in.b).c_str() : "null");
		case PK_SET: return fmt("p0.set(%s,%s)", sp[in.a], in.b ? "&cell1" : "null");
		case PK_COMPACT: return "p0.compact()";
		case PK_SWAPEL: return fmt("p0.swap(%s,%s)", sw[in.a], sp[in.b]);
		case PK_UNUSED: return "p0.unused()";
		case PK_OFFSET: return fmt("p0.offset(&cell%d)", in.a);
		case PK_ASSIGN: return as[in.a];
		case PK_SWAP: return "swap(p0,p1)";
		}
		return "?";
	}
	bool apply(int op)
	{
		const Inst &in = g_ptab[op];
		fault = 0; asan_error();
		if (in.k == PK_SWAP) { ++nap; if (h.p[0] == h.p[1]) return false; std::swap(h.p[0], h.p[1]); std::swap(m[0], m[1]); return true; }
		std::string name = opname(op), hint = name.substr(0, name.find('('));
		r.hint(hint.c_str());
		bool frontier = r.cur.size() == nap + 2; ++nap;
		if (frontier && g_expired) return false;
		std::string pre = canon();
		if (frontier && !screened(r, 'p', fnv(pre.data(), pre.size(), 77 + op), hint, name + " in state " + pre)) return false;
		++r.executions;
		mpt::buffer *b = h.buf(0);
		long n = b ? (long) (b->_used / sizeof(int *)) : 0, cap = b ? (long) (b->_size / sizeof(int *)) : 0;
		std::string st = tstate(b), base, desc;
		auto mk = [&](const char *opn, const std::string &arg) { cur_opn = opn; base = std::string(opn) + "|" + st + "|" + arg + "|"; desc = fmt("%s [n=%ld capacity=%ld] in state %s", name.c_str(), n, cap, pre.c_str()); r.note("%s", desc.c_str()); };
		auto touched = [&]() { if (b && (b->get_flags() & mpt::BufferShared)) { r.count("nontrivial"); stat("target-shared-or-immutable"); } };
		auto moved = [&]() { if (h.buf(0) != b) { r.count("nontrivial"); stat("reallocated"); } };
		std::vector<int> &mv = m[0];
		switch (in.k) {
		case PK_INSERT: {
			long I[4] = { 0, n, n + 2, -1 };
			for (int j = 0; j < in.a; ++j) if (I[j] == I[in.a]) return false;
			if (n >= 10) return false;
			long pos = I[in.a], p2 = pos < 0 ? pos + n : pos;
			mk("pointer_array::insert", p2 < 0 ? "before-start" : (p2 < n ? "inside" : (p2 == n ? "at-end" : "behind-gap")) + std::string(std::max(p2, n) + 1 > cap ? ",exceeds-capacity" : "")); touched();
			bool ok = false;
			fault = guarded([&] { mc::Lib l; ok = p(0)->insert(pos, in.b ? &g_cell[in.b] : 0); });
			if (!fault && ok && p2 >= 0) { moved(); if ((size_t) p2 > mv.size()) mv.resize(p2, 0); mv.insert(mv.begin() + p2, in.b); }
			return check(base, desc, 0, !ok, p2 < 0); }
		case PK_SET: {
			if (in.a == 1 && n < 2) return false;
			long pos = in.a ? n - 1 : 0; bool must = pos >= n;
			mk("pointer_array::set", must ? "outside" : "inside"); touched();
			bool ok = false;
			fault = guarded([&] { mc::Lib l; ok = p(0)->set(pos, in.b ? &g_cell[1] : 0); });
			if (!fault && ok && !must) { moved(); mv[pos] = in.b ? 1 : 0; }
			return check(base, desc, 0, !ok, must); }
		case PK_COMPACT: {
			mk("pointer_array::compact", std::count(mv.begin(), mv.end(), 0) ? "has-null" : "no-null"); touched();
			fault = guarded([&] { mc::Lib l; p(0)->compact(); });
			if (!fault) { moved(); mv.erase(std::remove(mv.begin(), mv.end(), 0), mv.end()); }
			return check(base, desc, 0, false); }
		case PK_SWAPEL: {
			long A[4] = { 0, n - 1, n, -1 }, B[2] = { 0, n - 1 };
			for (int j = 0; j < in.a; ++j) if (A[j] == A[in.a]) return false;
			if (in.b == 1 && n < 2) return false;
			long i1 = A[in.a], i2 = B[in.b];
			bool must = i1 < 0 || i1 >= n || i2 < 0 || i2 >= n;
			mk("pointer_array::swap", must ? "outside" : "inside"); touched();
			bool ok = false, was_shared = b && (b->get_flags() & mpt::BufferShared);
			fault = guarded([&] { mc::Lib l; ok = p(0)->swap(i1, i2); });
			if (!fault && ok && !must) {
				// two element assignments through this handle: handles sharing the buffer must keep their order
				std::swap(mv[i1], mv[i2]);
				if (was_shared && i1 != i2 && mv[i1] != mv[i2]) stat("swap-on-shared-buffer");
			}
			return check(base, desc, 0, !ok, must); }
		case PK_UNUSED: {
			mk("pointer_array::unused", "-");
			long got = -1, want = std::count(mv.begin(), mv.end(), 0);
			fault = guarded([&] { mc::Lib l; got = p(0)->unused(); });
			if (!fault && got != want) { V(base + "wrong-result", desc + fmt(": returned %ld, expected %ld", got, want)); return false; }
			return check(base, desc, -1, false); }
		case PK_OFFSET: {
			mk("pointer_array::offset", "-");
			long got = -2, want = -1;
			for (size_t k = 0; k < mv.size(); ++k) if (mv[k] == in.a) { want = k; break; }
			fault = guarded([&] { mc::Lib l; got = p(0)->offset(&g_cell[in.a]); });
			if (!fault && got != want) { V(base + "wrong-result", desc + fmt(": returned %ld, expected %ld", got, want)); return false; }
			return check(base, desc, -1, false); }
		case PK_ASSIGN: {
			int dd, s;
			switch (in.a) { case 0: dd = 0; s = 1; break; case 1: dd = 1; s = 0; break; case 2: dd = 0; s = -1; break; case 3: dd = 0; s = 2; break; default: dd = 2; s = 0; }
			if (s >= 0 && h.p[dd] == h.p[s]) return false;
			if (s < 0 && !m[dd].size()) return false;
			st = tstate(h.buf(dd));
			mk("assign", s < 0 ? "fresh" : "copy");
			fault = guarded([&] { mc::Lib l;
				switch (in.a) { case 0: *p(0) = *p(1); break; case 1: *p(1) = *p(0); break; case 2: *p(0) = PA(); break; case 3: *p(0) = *d(2); break; default: *d(2) = *d(0); } });
			if (!fault) { if (s >= 0) m[dd] = m[s]; else m[dd].clear(); }
			return check(base, desc, dd, false); }
		}
		return false;
	}
};

// ---- map<int,int> x3
enum MK { MK_SET, MK_APPEND, MK_GET, MK_VALUES, MK_ASSIGN, MK_SWAP };
static std::vector<Inst> g_mtab;
static void build_mtab()
{
	if (!g_mtab.empty()) return;
	for (int k = 1; k <= 2; ++k) for (int v = 7; v <= 8; ++v) g_mtab.push_back(Inst{MK_SET, k, v, 0});
	for (int k = 1; k <= 2; ++k) g_mtab.push_back(Inst{MK_APPEND, k, 9, 0});
	for (int k = 1; k <= 3; ++k) g_mtab.push_back(Inst{MK_GET, k, 0, 0});
	for (int k = 0; k <= 2; ++k) g_mtab.push_back(Inst{MK_VALUES, k, 0, 0});
	for (int i = 0; i < 4; ++i) g_mtab.push_back(Inst{MK_ASSIGN, i, 0, 0});
	g_mtab.push_back(Inst{MK_SWAP, 0, 0, 0});
}
struct MSys {
	typedef mpt::map<int, int> MP; typedef MP::entry EN;
	typedef std::vector<std::pair<int, int> > MV;
	Run &r; Slots h; MV m[3]; bool dead; int fault; size_t nap; const char *cur_opn;
	MP *mp(int i) { return reinterpret_cast<MP *>(&h.p[i]); }
	void V(const std::string &sig, const std::string &detail) { report(r, sig, detail); }
	MSys(Run &run, uint64_t) : r(run), dead(false), fault(0), nap(0)
	{
		static_assert(sizeof(MP) == sizeof(void *), "map layout");
		warm(); build_mtab(); if (!g_child && !r.replaying) zygote_start();
		ledger_base(); asan_error();
		{ mc::Lib l; for (int i = 0; i < 3; ++i) new (&h.p[i]) MP(); }
	}
	~MSys()
	{
		if (dead) { g_suspect = true; return; }
		guarded([&] { for (int i = 0; i < 3; ++i) mp(i)->~MP(); });
	}
	int nops() { return (int) g_mtab.size(); }
	bool read(int i, MV &out)
	{
		mpt::buffer *b = h.buf(i); out.clear();
		if (!b || b->_used > b->_size || b->_used % sizeof(EN)) return false;
		EN *e = (EN *) (b + 1);
		for (size_t k = 0; k < b->_used / sizeof(EN); ++k) out.push_back(std::make_pair(e[k].key, e[k].value));
		return true;
	}
	static std::string mvs(const MV &v) { std::string s = "{"; for (size_t i = 0; i < v.size(); ++i) s += fmt("%s%d:%d", i ? "," : "", v[i].first, v[i].second); return s + "}"; }
	std::string canon()
	{
		int g[3]; mpt::buffer *bs[3]; int n = h.groups(g, bs);
		std::string s;
		for (int j = 0; j < n; ++j) {
			s += fmt("g%d", j) + tcanon(bs[j], sizeof(EN));
			for (int i = 0; i < 3; ++i) if (g[i] == j) { MV v; if (read(i, v)) s += mvs(v); break; }
			s += " ";
		}
		for (int i = 0; i < 3; ++i) s += fmt("m%d=g%d ", i, g[i]);
		return s;
	}
	bool check(const std::string &base, const std::string &desc, int w, bool refused)
	{
		if (fault) { V(base + signame(fault), desc + ": the call faulted"); dead = true; return false; }
		if (asan_error()) { V(base + "memory-error", desc + ": access outside the buffer / freed memory (AddressSanitizer)"); dead = true; return false; }
		statop(cur_opn, refused);
		for (int pass = 0; pass < 2; ++pass) for (int i = 0; i < 3; ++i) {
			if ((pass == 0) != (i != w)) continue;
			const char *grp = i != w ? "other-handle-changed" : (refused ? "refused-but-changed" : "wrong-content");
			MV got;
			if (!read(i, got)) { V(base + grp, desc + fmt(": map%d has an invalid used size", i)); dead = true; return false; }
			if (got != m[i]) { V(base + grp, desc + fmt(": map%d reads %s, model %s", i, mvs(got).c_str(), mvs(m[i]).c_str())); return false; }
		}
		size_t n = h.heap_groups(), live = ledger_live() - g_lbase;
		if (live != n) { V(base + (live > n ? "leak" : "released-while-referenced"), desc + fmt(": %zu buffers allocated, %zu reachable from the handles", live, n)); if (live < n) dead = true; return false; }
		return true;
	}
	std::string opname(int op)
	{
		const Inst &in = g_mtab[op];
		static const char *as[] = { "m0=m1", "m1=m0", "m0=map()", "m2=m0" };
		switch (in.k) {
		case MK_SET: return fmt("m0.set(%d,%d)", in.a, in.b);
		case MK_APPEND: return fmt("m0.append(%d,%d)", in.a, in.b);
		case MK_GET: return fmt("m0.get(%d)", in.a);
		case MK_VALUES: return in.a ? fmt("m0.values(%d)", in.a) : std::string("m0.values()");
		case MK_ASSIGN: return as[in.a];
		case MK_SWAP: return "swap(m0,m1)";
		}
		return "?";
	}
	bool apply(int op)
	{
		const Inst &in = g_mtab[op];
		fault = 0; asan_error();
		if (in.k == MK_SWAP) { ++nap; if (h.p[0] == h.p[1]) return false; std::swap(h.p[0], h.p[1]); std::swap(m[0], m[1]); return true; }
		std::string name = opname(op), hint = name.substr(0, name.find('('));
		r.hint(hint.c_str());
		bool frontier = r.cur.size() == nap + 2; ++nap;
		if (frontier && g_expired) return false;
		std::string pre = canon();
		if (frontier && !screened(r, 'm', fnv(pre.data(), pre.size(), 99 + op), hint, name + " in state " + pre)) return false;
		++r.executions;
		mpt::buffer *b = h.buf(0);
		std::string st = tstate(b), base, desc;
		MV &mv = m[0];
		auto find = [&](int k) { for (size_t i = 0; i < mv.size(); ++i) if (mv[i].first == k) return (long) i; return -1L; };
		auto mk = [&](const char *opn, const std::string &arg) { cur_opn = opn; base = std::string(opn) + "|" + st + "|" + arg + "|"; desc = name + " in state " + pre; r.note("%s", desc.c_str()); };
		auto touched = [&]() { if (b && heap_buf(b) && (b->get_flags() & mpt::BufferShared)) { r.count("nontrivial"); stat("target-shared-or-immutable"); } };
		switch (in.k) {
		case MK_SET: case MK_APPEND: {
			if (mv.size() >= 6) return false;
			long at = in.k == MK_SET ? find(in.a) : -1;
			mk(in.k == MK_SET ? "map::set" : "map::append", at >= 0 ? "existing-key" : "new-key"); touched();
			bool ok = false;
			fault = guarded([&] { mc::Lib l; ok = in.k == MK_SET ? mp(0)->set(in.a, in.b) : mp(0)->append(in.a, in.b); });
			if (!fault && ok) { if (h.buf(0) != b && heap_buf(b)) { r.count("nontrivial"); stat("reallocated"); } if (at >= 0) mv[at].second = in.b; else mv.push_back(std::make_pair(in.a, in.b)); }
			return check(base, desc, 0, !ok); }
		case MK_GET: {
			long at = find(in.a);
			mk("map::get", at >= 0 ? "existing-key" : "new-key");
			int *got = 0;
			fault = guarded([&] { mc::Lib l; got = mp(0)->get(in.a); });
			if (!fault) {
				EN *e = (EN *) (h.buf(0) + 1);
				if ((at >= 0) != (got != 0)) { V(base + "wrong-result", desc + (got ? ": returned a value for an absent key" : ": returned nothing for a stored key")); return false; }
				if (got && got != &e[at].value) { V(base + "wrong-result", desc + fmt(": returned address is not the value of the first entry with this key (entry %ld of %zu)", at, mv.size())); return false; }
			}
			return check(base, desc, -1, false); }
		case MK_VALUES: {
			mk("map::values", in.a ? "key" : "all");
			std::vector<int> want, got;
			for (auto &kv : mv) if (!in.a || kv.first == in.a) want.push_back(kv.second);
			fault = guarded([&] { mpt::typed_array<int> v; { mc::Lib l; v = in.a ? mp(0)->values(in.a) : mp(0)->values(); } got.assign(v.begin(), v.end()); });
			if (!fault && got != want) { V(base + "wrong-result", desc + ": returned " + vecs(got) + ", expected " + vecs(want)); return false; }
			return check(base, desc, -1, false); }
		case MK_ASSIGN: {
			int d, s;
			switch (in.a) { case 0: d = 0; s = 1; break; case 1: d = 1; s = 0; break; case 2: d = 0; s = -1; break; default: d = 2; s = 0; }
			if (s >= 0 && h.p[d] == h.p[s]) return false;
			if (s < 0 && !heap_buf(h.buf(d))) return false;
			st = tstate(h.buf(d));
			mk("assign", s < 0 ? "fresh" : "copy");
			fault = guarded([&] { mc::Lib l; if (s >= 0) *mp(d) = *mp(s); else *mp(d) = MP(); });
			if (!fault) { if (s >= 0) m[d] = m[s]; else m[d].clear(); }
			return check(base, desc, d, false); }
		}
		return false;
	}
};



// ---- reference_array<Obj> x3 (unique_array instantiation with reference elements; buffers cannot be copied, so modifiers on a shared buffer must refuse)
struct RObj { int id; long refs; uintptr_t addref() { return ++refs; } void unref() { --refs; } };
static RObj g_robj[4] = { { 0, 0 }, { 1, 0 }, { 2, 0 }, { 3, 0 } };
enum QK { QK_INSERT, QK_SET, QK_CLEAR, QK_COMPACT, QK_ASSIGN, QK_SWAP };
static std::vector<Inst> g_qtab;
static void build_qtab()
{
	if (!g_qtab.empty()) return;
	for (int i = 0; i < 2; ++i) for (int k = 0; k < 3; ++k) g_qtab.push_back(Inst{QK_INSERT, i, k, 0});
	for (int i = 0; i < 2; ++i) for (int k = 0; k < 2; ++k) g_qtab.push_back(Inst{QK_SET, i, k, 0});
	g_qtab.push_back(Inst{QK_CLEAR, 0, 0, 0}); g_qtab.push_back(Inst{QK_CLEAR, 1, 0, 0});
	g_qtab.push_back(Inst{QK_COMPACT, 0, 0, 0});
	for (int i = 0; i < 4; ++i) g_qtab.push_back(Inst{QK_ASSIGN, i, 0, 0});
	g_qtab.push_back(Inst{QK_SWAP, 0, 0, 0});
}
struct QSys {
	typedef mpt::reference_array<RObj> RA;
	Run &r; Slots h; std::vector<int> m[3]; bool dead; int fault; size_t nap; const char *cur_opn;
	RA *ra(int i) { return reinterpret_cast<RA *>(&h.p[i]); }
	void V(const std::string &sig, const std::string &detail) { report(r, sig, detail); }
	QSys(Run &run, uint64_t) : r(run), dead(false), fault(0), nap(0)
	{
		static_assert(sizeof(RA) == sizeof(void *), "reference_array layout");
		warm(); build_qtab(); if (!g_child && !r.replaying) zygote_start();
		ledger_base(); asan_error();
		{ mc::Lib l; for (int i = 0; i < 3; ++i) new (&h.p[i]) RA(); }
	}
	~QSys()
	{
		if (dead) { g_suspect = true; return; }
		guarded([&] { for (int i = 0; i < 3; ++i) ra(i)->~RA(); });
	}
	int nops() { return (int) g_qtab.size(); }
	static int oid(RObj *o) { if (!o) return 0; for (int k = 1; k < 4; ++k) if (o == &g_robj[k]) return k; return 9; }
	bool read(int i, std::vector<int> &out)
	{
		mpt::buffer *b = h.buf(i); out.clear();
		if (!b || b->_used > b->_size || b->_used % sizeof(void *)) return false;
		RObj **e = (RObj **) (b + 1);
		for (size_t k = 0; k < b->_used / sizeof(void *); ++k) out.push_back(oid(e[k]));
		return true;
	}
	std::string canon()
	{
		int g[3]; mpt::buffer *bs[3]; int n = h.groups(g, bs);
		std::string s;
		for (int j = 0; j < n; ++j) {
			s += fmt("g%d", j) + tcanon(bs[j], sizeof(void *));
			for (int i = 0; i < 3; ++i) if (g[i] == j) { std::vector<int> v; if (read(i, v)) s += vecs(v); break; }
			s += " ";
		}
		for (int i = 0; i < 3; ++i) s += fmt("r%d=g%d ", i, g[i]);
		return s;
	}
	bool check(const std::string &base, const std::string &desc, int w, bool refused)
	{
		if (fault) { V(base + signame(fault), desc + ": the call faulted"); dead = true; return false; }
		if (asan_error()) { V(base + "memory-error", desc + ": access outside the buffer / freed memory (AddressSanitizer)"); dead = true; return false; }
		statop(cur_opn, refused);
		for (int pass = 0; pass < 2; ++pass) for (int i = 0; i < 3; ++i) {
			if ((pass == 0) != (i != w)) continue;
			const char *grp = i != w ? "other-handle-changed" : (refused ? "refused-but-changed" : "wrong-content");
			std::vector<int> got;
			if (!read(i, got)) { V(base + grp, desc + fmt(": reference_array%d has an invalid used size", i)); dead = true; return false; }
			if (got != m[i]) { V(base + grp, desc + fmt(": reference_array%d reads %s, model %s (0 = empty reference)", i, vecs(got).c_str(), vecs(m[i]).c_str())); return false; }
		}
		size_t n = h.heap_groups(), live = ledger_live() - g_lbase;
		if (live != n) { V(base + (live > n ? "leak" : "released-while-referenced"), desc + fmt(": %zu buffers allocated, %zu reachable from the handles", live, n)); if (live < n) dead = true; return false; }
		return true;
	}
	std::string opname(int op)
	{
		const Inst &in = g_qtab[op];
		static const char *as[] = { "r0=r1", "r1=r0", "r0=reference_array()", "r2=r0" };
		switch (in.k) {
		case QK_INSERT: return fmt("r0.insert(%s,%s)", in.a ? "n" : "0", in.b ? fmt("&obj%d", in.b).c_str() : "null");
		case QK_SET: return fmt("r0.set(%s,%s)", in.a ? "n-1" : "0", in.b ? "&obj3" : "null");
		case QK_CLEAR: return in.a ? "r0.clear(&obj1)" : "r0.clear()";
		case QK_COMPACT: return "r0.compact()";
		case QK_ASSIGN: return as[in.a];
		case QK_SWAP: return "swap(r0,r1)";
		}
		return "?";
	}
	bool apply(int op)
	{
		const Inst &in = g_qtab[op];
		fault = 0; asan_error();
		if (in.k == QK_SWAP) { ++nap; if (h.p[0] == h.p[1]) return false; std::swap(h.p[0], h.p[1]); std::swap(m[0], m[1]); return true; }
		std::string name = opname(op), hint = name.substr(0, name.find('('));
		r.hint(hint.c_str());
		bool frontier = r.cur.size() == nap + 2; ++nap;
		if (frontier && g_expired) return false;
		std::string pre = canon();
		if (frontier && !screened(r, 'r', fnv(pre.data(), pre.size(), 55 + op), hint, name + " in state " + pre)) return false;
		++r.executions;
		mpt::buffer *b = h.buf(0);
		long n = b ? (long) (b->_used / sizeof(void *)) : 0;
		bool shared = b && heap_buf(b) && (b->get_flags() & mpt::BufferShared);
		std::string st = tstate(b), base, desc;
		auto mk = [&](const char *opn, const std::string &arg) { cur_opn = opn; base = std::string(opn) + "|" + st + "|" + arg + "|"; desc = name + " in state " + pre; r.note("%s", desc.c_str()); if (shared) { r.count("nontrivial"); stat("target-shared-or-immutable"); } };
		std::vector<int> &mv = m[0];
		switch (in.k) {
		case QK_INSERT: {
			if (n >= 5) return false;
			long pos = in.a ? n : 0;
			if (in.a && !n) return false;
			mk("reference_array::insert", in.b ? "object" : "null");
			bool ok = false;
			fault = guarded([&] { mc::Lib l; ok = ra(0)->insert(pos, in.b ? &g_robj[in.b] : 0); });
			if (!fault && ok) mv.insert(mv.begin() + pos, in.b);
			return check(base, desc, 0, !ok); }
		case QK_SET: {
			if (!n || (in.a && n < 2)) return false;
			long pos = in.a ? n - 1 : 0;
			mk("reference_array::set", in.b ? "object" : "null");
			bool ok = false;
			fault = guarded([&] { mc::Lib l; ok = ra(0)->set(pos, in.b ? &g_robj[3] : 0); });
			if (!fault && ok) { mv[pos] = in.b ? 3 : 0; if (shared) stat("modifier-on-shared-buffer:accepted"); }
			if (!fault && !ok && shared) stat("modifier-on-shared-buffer:refused");
			return check(base, desc, 0, !ok); }
		case QK_CLEAR: {
			long want = 0; std::vector<int> after = mv;
			for (int &v : after) if (v && (!in.a || v == 1)) { v = 0; ++want; }
			if (!want) return false;
			mk("reference_array::clear", in.a ? "one-object" : "all");
			long got = -1;
			fault = guarded([&] { mc::Lib l; got = ra(0)->clear(in.a ? &g_robj[1] : 0); });
			bool refused = got <= 0;      // nothing cleared although references match: refusal (no private copy available)
			if (!fault && !refused) { mv = after; if (got != want) { V(base + "wrong-result", desc + fmt(": returned %ld, expected %ld", got, want)); return false; } }
			if (!fault && shared) stat(refused ? "modifier-on-shared-buffer:refused" : "modifier-on-shared-buffer:accepted");
			return check(base, desc, 0, refused); }
		case QK_COMPACT: {
			std::vector<int> after; for (int v : mv) if (v) after.push_back(v);
			if (after.size() == mv.size() || std::equal(after.begin(), after.end(), mv.begin())) return false;
			after.resize(mv.size(), 0);
			mk("reference_array::compact", "-");
			fault = guarded([&] { mc::Lib l; ra(0)->compact(); });
			std::vector<int> got; bool refused = !fault && read(0, got) && got == mv;      // no result is reported: unchanged = refused
			if (!fault && !refused) mv = after;
			if (!fault && shared) stat(refused ? "modifier-on-shared-buffer:refused" : "modifier-on-shared-buffer:accepted");
			return check(base, desc, 0, refused); }
		case QK_ASSIGN: {
			int d, s;
			switch (in.a) { case 0: d = 0; s = 1; break; case 1: d = 1; s = 0; break; case 2: d = 0; s = -1; break; default: d = 2; s = 0; }
			if (s >= 0 && h.p[d] == h.p[s]) return false;
			if (s < 0 && !heap_buf(h.buf(d))) return false;
			st = tstate(h.buf(d));
			mk("assign", s < 0 ? "fresh" : "copy");
			fault = guarded([&] { mc::Lib l; if (s >= 0) *ra(d) = *ra(s); else *ra(d) = RA(); });
			if (!fault) { if (s >= 0) m[d] = m[s]; else m[d].clear(); }
			return check(base, desc, d, false); }
		}
		return false;
	}
};

static std::string raw_opname(int fam, int op)
{
	return fam == 0 ? RawSys<0>::opname(op) : RawSys<1>::opname(op);
}

// ------------------------------------------------------------------ one case in a throw-away process (see screened())
template <class Sys> static std::string run_case_t(const Vec &v)
{
	Run r; r.cur = v;
	g_child = true; g_child_out.clear();
	Sys s(r, v[0]);
	for (size_t i = 1; i < v.size() && g_child_out.empty(); ++i) if (!s.apply((int) v[i])) break;
	return g_child_out.empty() ? std::string("OK") : g_child_out;
}
static std::string run_case(char fam, const Vec &v)
{
	switch (fam) {
	case 'c': return run_case_t<RawSys<0> >(v);
	case 'x': return run_case_t<RawSys<1> >(v);
	case 't': return run_case_t<TSys>(v);
	case 'p': return run_case_t<PSys>(v);
	case 'm': return run_case_t<MSys>(v);
	case 'r': return run_case_t<QSys>(v);
	}
	return "OK";
}

// ------------------------------------------------------------------ jobs
// thorough: the byte families go one level deeper from the empty system and from selected initial buffers (C API: each flag
// combination; C++ API, whose alphabet is smaller: also each content type and the nearly full buffer); all others keep depth 4
static bool deep_init(uint64_t init)
{
	if (!init) return true;
	uint64_t c = init - 1; int fl = c % 4, tr = (c / 4) % 3, fill = (c / 12) % 2;
	return (tr == 0 && fill == 0) || (fl == 0 && fill == 0) || (fl == 0 && tr == 0);
}
static int depth_of(Tier t, char fam, uint64_t init)
{
	switch (fam) {
	case 'c': return t == Quick ? 3 : (init < 100 ? 4 : ((((init - 100) / 4) % 5) % 2 ? 4 : 3));      // large initial buffers: depth 4 for used 64 and 130, 3 for 60, 65, 200
	case 'x': return t == Quick ? 3 : (deep_init(init) ? 5 : 4);
	case 't': return t == Quick ? 5 : 6;
	case 'p': return t == Quick ? 5 : 6;
	case 'm': return t == Quick ? 6 : 7;
	case 'r': return t == Quick ? 5 : 7;
	}
	return 3;
}
void mc_jobs(Tier t, std::vector<std::string> &jobs)
{
	jobs.push_back("t:0"); jobs.push_back("p:0"); jobs.push_back("m:0"); jobs.push_back("r:0");      // short jobs first: they are not cut off when a defective tree slows the byte families down
	for (const char *fam : { "c", "x" }) {
		jobs.push_back(std::string(fam) + ":0");
		for (int fill = 0; fill < 2; ++fill) for (int tr = 0; tr < 3; ++tr) for (int fl = 0; fl < 4; ++fl) {
			jobs.push_back(fmt("%s:%d", fam, 1 + fl + 4 * tr + 12 * fill));
		}
	}
	for (int k = 0; k < 80; ++k) {
		int mode = k % 4, ui = (k / 4) % 5, kind = (k / 20) % 4;
		// quick: sizes just above one and two allocation units for raw, 1- and 8-byte elements in all four modes, the other sizes for 'y' immutable / shared only
		if (t == Quick && !(((ui == 2 || ui == 3) && kind != 2) || (kind == 1 && (mode == 1 || mode == 2)))) continue;
		jobs.push_back(fmt("c:%d", 100 + k));
	}     // used {60,64,65,130,200} x {sole, immutable, shared, shared+immutable} x {raw,'y','n','d'}
	for (int k = 0; k < 6; ++k) jobs.push_back(fmt("c:%d", 25 + k));      // element size 2/4/8 x {three elements, one element below capacity}
}
static void required(Run &r, char fam)
{
	r.require("nontrivial");
	static const char *c[] = { "array_append:ok", "array_append:refused", "array_clone:ok", "array_insert:ok", "array_reduce:ok", "array_reserve:ok", "array_set:ok", "array_set:refused", "array_slice:ok",
		"buffer_cut:ok", "buffer_cut:refused", "buffer_insert:ok", "buffer_insert:refused", "buffer_set:ok", "buffer_set:refused", "printf:ok", "printf:refused", "slice_write:ok", "slice_write:refused",
		"reallocated", "target-shared-or-immutable", "slice-consume:ok", "slice-write:consumed-window,sole", "slice-write:consumed-window,shared",
		"slice-write:compaction,shorter-than-old-data", "slice-write:compaction,longer-than-old-data",
		"typed-elements:aligned,ok", "typed-elements:aligned,refused", "typed-elements:misaligned,refused",
		"buffer_detach:ok", "buffer_detach:refused", "detach:content-cut(not flagged)", "detach:request-more-than-a-unit-below-used", "set:front-of-large-content",
		"huge-argument:refused", "reserve:same-type,private-copy-keeps-content", "append-own-content,in-place", "append-own-content,reallocating", 0 };
	static const char *x[] = { "array::append:ok", "array::insert:ok", "array::insert:refused", "array::set:ok", "array::operator=:ok", "array::operator=(slice):ok", "array::operator+=:ok", "printf:ok",
		"slice::shift:ok", "slice::shift:refused", "slice::trim:ok", "slice::trim:refused", "slice_write:ok", "reallocated", "target-shared-or-immutable",
		"slice-write:consumed-window,sole", "slice-write:consumed-window,shared", "slice-write:compaction,shorter-than-old-data",
		"huge-argument:refused", "append-own-content,in-place", "append-own-content,reallocating", "encode_array::prepare:ok",
		"insert-own-content,in-place", "insert-own-content,reallocating", "set-own-content,in-place", "set-own-content,new-buffer", "encode_array::shift:ok", 0 };
	static const char *t[] = { "insert:ok", "insert:refused", "set:ok", "set:refused", "get:ok", "get:refused", "resize:ok", "resize:refused", "reserve:ok", "detach:ok", "assign:ok", "reallocated", "target-shared-or-immutable",
		"insert-own-element,in-place", "insert-own-element,reallocating", "index-beyond-address-range:refused", "insert:new-element-left-as-constructed", 0 };
	static const char *p[] = { "pointer_array::insert:ok", "pointer_array::set:ok", "pointer_array::compact:ok", "pointer_array::swap:ok", "pointer_array::swap:refused", "assign:ok", "target-shared-or-immutable", "swap-on-shared-buffer", 0 };
	static const char *m[] = { "map::set:ok", "map::append:ok", "map::get:ok", "map::values:ok", "assign:ok", "target-shared-or-immutable", 0 };
	static const char *q[] = { "reference_array::insert:ok", "reference_array::set:ok", "reference_array::clear:ok", "reference_array::compact:ok", "assign:ok", "target-shared-or-immutable", 0 };
	const char **k = fam == 'c' ? c : (fam == 'x' ? x : (fam == 't' ? t : (fam == 'p' ? p : (fam == 'r' ? q : m))));
	for (; *k; ++k) r.require(std::string(1, fam) + ":" + *k);
}
void mc_explore(Run &r, const std::string &job)
{
	Stats st; g_stats = &st; g_expired = false;
	char fam = job[0]; uint64_t init = strtoull(job.c_str() + 2, 0, 10);
	required(r, fam);
	std::vector<uint64_t> inits(1, init);
	if (fam == 'c') bfs_histories<RawSys<0> >(r, inits, depth_of(r.tier, fam, init));
	else if (fam == 'x') bfs_histories<RawSys<1> >(r, inits, depth_of(r.tier, fam, init));
	else if (fam == 't') bfs_histories<TSys>(r, inits, depth_of(r.tier, fam, init));
	else if (fam == 'p') bfs_histories<PSys>(r, inits, depth_of(r.tier, fam, init));
	else if (fam == 'm') bfs_histories<MSys>(r, inits, depth_of(r.tier, fam, init));
	else if (fam == 'r') bfs_histories<QSys>(r, inits, depth_of(r.tier, fam, init));
	for (auto &kv : st.merged()) r.count(std::string(1, fam) + ":" + kv.first, kv.second);
	g_stats = 0;
}
void mc_replay(Run &r, const std::string &job, const Vec &v)
{
	char fam = job[0];
	if (fam == 'c') bfs_replay<RawSys<0> >(r, v);
	else if (fam == 'x') bfs_replay<RawSys<1> >(r, v);
	else if (fam == 't') bfs_replay<TSys>(r, v);
	else if (fam == 'p') bfs_replay<PSys>(r, v);
	else if (fam == 'm') bfs_replay<MSys>(r, v);
	else if (fam == 'r') bfs_replay<QSys>(r, v);
}

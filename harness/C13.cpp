// C13 — ring-buffer queue is a faithful byte deque.
// Explicit-state exploration: every abstract state (max, off, len) — wrapped
// ones included — is an initial state; every operation instance of the
// alphabet is executed on the real code from every state, compared with a
// std::deque reference, and the full logical content is re-read after every
// step (so a state is completely described by (max,off,len)+content and
// closure under the alphabet is covered once all states are initial).
#include <deque>
#include <type_traits>
#include <cerrno>
#include <cstdlib>
#include "queue.h"
#include "message.h"
#include "io.h"
#include "mc.hpp"

using namespace mc;
const char *mc_id = "C13";
const char *mc_rule = "snapshot BFS: all (max,off,len) states x all op instances (len,pos in 0..max+1), real queue code vs std::deque; "
                      "nontrivial = distinct (state,op) transitions whose pre- or post-state content wraps around the storage end";

static const uint8_t JUNK = 0xEE;
static const size_t HUGE = (size_t) 1 << 62;   // lengths no storage can hold: sums with the stored size or the alignment round-up wrap
enum Op { PUSH, PUSH0, UNSHIFT, UNSHIFT0, POP, POPN, SHIFT, SHIFTN, CROP, SET, SET0, GET, GETN, FIND, ALIGN, RESIZE, PREPARE, STRING, EMPTY,
          XPUSH, XPOP, XPOPN, XUNSHIFT, XSHIFT, XSHIFTN, XWRITE, XREAD, XPEEK, XTRIM, NOPS };
static const char *opn[] = { "qpush", "qpush(NULL)", "qunshift", "qunshift(NULL)", "qpop", "qpop(NULL)", "qshift", "qshift(NULL)", "queue_crop", "queue_set", "queue_set(NULL)",
          "queue_get", "queue_get(NULL)", "queue_find", "queue_align", "queue_resize", "queue_prepare", "queue_string", "queue_empty",
          "io::queue::push", "io::queue::pop", "io::queue::pop(NULL)", "io::queue::unshift", "io::queue::shift", "io::queue::shift(NULL)", "io::queue::write", "io::queue::read", "io::queue::peek", "encode_queue::trim" };

static uint8_t label(size_t i) { return (uint8_t) (1 + i % 251); }

struct St {
	mpt::queue q;
	std::deque<uint8_t> m;
	void init(size_t max, size_t off, size_t len)
	{
		q.base = max ? malloc(max) : 0; q.max = max; q.off = off; q.len = len;
		if (max) memset(q.base, JUNK, max);
		m.clear();
		for (size_t i = 0; i < len; ++i) { ((uint8_t *) q.base)[(off + i) % max] = label(i); m.push_back(label(i)); }
	}
	void fini() { free(q.base); q.base = 0; }
};
static bool wrapped(size_t max, size_t off, size_t len) { return max && off + len > max; }
static const char *cls(size_t max, size_t off, size_t len)
{
	if (!max) return "nostorage";
	if (!len) return off ? "empty,off>0" : "empty";
	if (len == max) return wrapped(max, off, len) ? "full,wrapped" : "full";
	return wrapped(max, off, len) ? "wrapped" : (off ? "linear,off>0" : "linear");
}
// relation of a length argument to stored / free / the two data segments
static std::string lencls(size_t n, size_t stored, size_t freeb, size_t seglow, size_t seghigh)
{
	std::string s;
	if (!n) return "len=0";
	s += n > stored ? "len>stored" : (n == stored ? "len=stored" : "len<stored");
	s += n > freeb ? ",len>free" : (n == freeb ? ",len=free" : ",len<free");
	if (seghigh) s += n > seghigh ? ",len>tailseg" : (n == seghigh ? ",len=tailseg" : ",len<tailseg");
	return s;
}

struct Counters { uint64_t nontrivial, refusals, spurious, accepted; };

static int find_target;
static int find_cmp(const void *e, void *) { return *(const uint8_t *) e == find_target ? 0 : 1; }

// Execute one op instance from state (max,off,len); report violations; returns abstract post state.
static void step(Run &r, Counters &c, size_t max, size_t off, size_t len, int op, size_t a, size_t b)
{
	St s; s.init(max, off, len);
	mpt::queue &q = s.q;
	std::deque<uint8_t> &m = s.m, before = s.m;
	std::string pre = cls(max, off, len);
	size_t seglow = wrapped(max, off, len) ? max - off : len, seghigh = len - seglow;
	std::string opbase = opn[op]; { size_t p = opbase.find("(NULL)"); if (p != std::string::npos) opbase.erase(p); }
	std::string sigbase = opbase + "|" + (wrapped(max, off, len) ? "wrapped" : "linear") + "|";
	std::string argc = lencls(a, len, max - len, seglow, seghigh);
	std::string desc = fmt("state(max=%zu,off=%zu,len=%zu) %s(a=%zu,b=%zu)", max, off, len, opn[op], a, b);
	bool refused = false, model_refuse = false, bad = false;
	// signature = operation | pre-state shape | coarse argument class | failure group
	auto fail = [&](const char *kind, const std::string &what) {
		std::string k = kind;
		if (k == "asan" || k == "content" || k == "retdata" || k == "struct" || k == "retval") k = "wrong-result";
		if (k == "spurious-refusal") k = "refused-although-it-fits";
		std::string ac = model_refuse ? "over-ask" : (argc.find("len=0") != std::string::npos ? "len=0" : (argc.find("len>tailseg") != std::string::npos || argc.find(">headseg") != std::string::npos || argc.find("=headseg") != std::string::npos ? "crossing-segments" : "in-range"));
		r.violation(sigbase + ac + "|" + k, desc + " [" + pre + "; " + argc + "; " + kind + "]: " + what); bad = true; };
	uint8_t data[64], out[64];
	for (size_t i = 0; i < sizeof data; ++i) { data[i] = (uint8_t) (0xA0 + i); out[i] = 0x77; }
	asan_error();
	errno = 0;
	bool content_checked_loose = false;
	mpt::io::queue *xq = 0; mpt::encode_queue *eq = 0;
	if (op >= XPUSH && op < XTRIM) { xq = new mpt::io::queue(0); xq->_d = q; }
	if (op == XTRIM) { eq = new mpt::encode_queue(0); *(mpt::queue *) eq = q; eq->_state.done = b; }
	switch (op) {
	case PUSH: case PUSH0: {
		model_refuse = a > max - len;
		int ret = LIB(mpt_qpush(&q, a, op == PUSH ? data : 0));
		refused = ret < 0;
		if (!refused && !model_refuse) for (size_t i = 0; i < a; ++i) m.push_back(op == PUSH ? data[i] : 0);
		break; }
	case UNSHIFT: case UNSHIFT0: {
		model_refuse = a > max - len;
		int ret = LIB(mpt_qunshift(&q, a, op == UNSHIFT ? data : 0));
		refused = ret < 0;
		if (!refused && !model_refuse) for (size_t i = a; i-- > 0;) m.push_front(op == UNSHIFT ? data[i] : 0);
		break; }
	case POP: case POPN: {
		model_refuse = a > len;
		uint8_t *exact = (uint8_t *) malloc(a && a <= 4096 ? a : 1);
		void *ret = LIB(mpt_qpop(&q, a, op == POP ? exact : 0));
		refused = !ret;
		if (!refused && !model_refuse) {
			if (!asan_peek() && a && memcmp(ret, &*std::vector<uint8_t>(m.end() - a, m.end()).begin(), a)) fail("retdata", "returned bytes differ from the last bytes of the deque: got " + hex(ret, a));
			for (size_t i = 0; i < a; ++i) m.pop_back();
		}
		free(exact);
		break; }
	case SHIFT: case SHIFTN: {
		model_refuse = a > len;
		uint8_t *exact = (uint8_t *) malloc(a && a <= 4096 ? a : 1);
		void *ret = LIB(mpt_qshift(&q, a, op == SHIFT ? exact : 0));
		refused = !ret;
		if (!refused && !model_refuse) {
			if (!asan_peek() && a && memcmp(ret, &*std::vector<uint8_t>(m.begin(), m.begin() + a).begin(), a)) fail("retdata", "returned bytes differ from the first bytes of the deque: got " + hex(ret, a));
			for (size_t i = 0; i < a; ++i) m.pop_front();
		}
		free(exact);
		break; }
	case CROP: {   // a = pos, b = len
		model_refuse = b && (a > len || b > len - a);
		argc = fmt("pos%s", a == 0 ? "=0" : (a < seglow ? "<headseg" : (a == seglow ? "=headseg" : (a > len ? ">stored" : ">headseg")))) + "," + lencls(b, len >= a ? len - a : 0, max - len, 0, 0);
		int ret = LIB(mpt_queue_crop(&q, a, b));
		refused = ret < 0;
		if (!refused && !model_refuse && b) m.erase(m.begin() + a, m.begin() + a + b);
		break; }
	case SET: case SET0: {
		model_refuse = b && (a > len || b > len - a);   // a zero-length access asks for nothing
		argc = fmt("pos%s", a == 0 ? "=0" : (a < seglow ? "<headseg" : (a == seglow ? "=headseg" : (a > len ? ">stored" : ">headseg")))) + "," + lencls(b, len >= a ? len - a : 0, max - len, 0, 0);
		int ret = LIB(mpt_queue_set(&q, a, b, op == SET ? data : 0));
		refused = ret < 0;
		if (!refused && !model_refuse) for (size_t i = 0; i < b; ++i) m[a + i] = op == SET ? data[i] : 0;
		break; }
	case GET: case GETN: {
		model_refuse = b && (a > len || b > len - a);
		argc = fmt("pos%s", a == 0 ? "=0" : (a < seglow ? "<headseg" : (a == seglow ? "=headseg" : (a > len ? ">stored" : ">headseg")))) + "," + lencls(b, len >= a ? len - a : 0, max - len, 0, 0);
		uint8_t *exact = (uint8_t *) malloc(b && b <= 4096 ? b : 1);
		memset(exact, 0x77, b && b <= 4096 ? b : 1);
		int ret = LIB(mpt_queue_get(&q, a, b, op == GET ? exact : 0));
		refused = ret < 0;
		if (!refused && !model_refuse && op == GET && b) {
			std::vector<uint8_t> want(m.begin() + a, m.begin() + a + b);
			if (memcmp(exact, want.data(), b)) fail("retdata", "read bytes " + hex(exact, b) + " != deque bytes " + hex(want.data(), b));
		}
		free(exact);
		break; }
	case FIND: {   // a = element size (1..3), b = target label (0 = absent)
		find_target = b ? (int) b : 0xFD;
		argc = fmt("esz=%zu,%s", a, a > len ? "esz>stored" : "esz<=stored");
		void *ret = LIB(mpt_queue_find(&q, a, find_cmp, 0));
		int e = errno;
		long want = -1;
		if (!a) { if (ret) fail("retval", "an element of size 0 was found"); refused = true; break; }
		for (size_t i = 0; i + a <= len; i += a) if (m[i] == find_target) { want = (long) i; break; }
		if (!ret) {
			if (e == ENOTSUP || e == EAGAIN) refused = true;
			else if (want >= 0) fail("retval", fmt("element at logical index %ld not found", want));
		} else {
			size_t phys = (uint8_t *) ret - (uint8_t *) q.base;
			if (phys >= max) fail("retval", "returned address outside the storage");
			else {
				long got = (long) ((phys + max - off % max) % max);
				if (want < 0) fail("retval", fmt("reported a match at logical index %ld but no element matches", got));
				else if (got != want) fail("retval", fmt("first match is logical index %ld, got %ld", want, got));
			}
		}
		break; }
	case ALIGN:
		argc = fmt("pos%s", a > max ? ">max" : (a == off ? "=off" : (a + len > max ? ",wrapping" : ",linear")));
		LIB((mpt_queue_align(&q, a), 0));
		break;
	case RESIZE: {
		argc = a == 0 ? "n=0" : (a < len ? "n<stored" : (a < max ? "n<max" : (a == max ? "n=max" : "n>max")));
		void *ret = LIB(mpt_queue_resize(&q, a));
		if (a == 0) m.clear();
		else if (!ret) refused = true;
		else if (a < len) {
			// which end is dropped is not part of the deque contract: accept head- or tail-truncation
			content_checked_loose = true;
			std::deque<uint8_t> tail(before.end() - a, before.end()), head(before.begin(), before.begin() + a);
			uint8_t tmp[64]; int g = q.len == a ? mpt_queue_get(&q, 0, a, tmp) : -1;
			if (q.len != a || g < 0 || !(std::equal(tail.begin(), tail.end(), tmp) || std::equal(head.begin(), head.end(), tmp))) fail("content", "shrinking below the stored size left neither the first nor the last n bytes");
			m.assign(tmp, tmp + (q.len <= sizeof tmp ? q.len : 0));
		}
		if (ret && a && q.max != a && !bad) fail("struct", fmt("capacity is %zu after resize(%zu)", q.max, a));
		break; }
	case PREPARE: {
		argc = a <= max - len ? "n<=free" : "n>free";
		model_refuse = a > HUGE;
		size_t left = LIB(mpt_queue_prepare(&q, a));
		if (!left && a) refused = true;
		else if (model_refuse) {}
		else if (left < a || left != q.max - q.len) fail("retval", fmt("returned %zu free bytes, capacity %zu, stored %zu", left, q.max, q.len));
		break; }
	case STRING: {
		char *str = LIB(mpt_queue_string(&q));
		if (!str) refused = true;
		else {
			std::vector<uint8_t> want(m.begin(), m.end()); want.push_back(0);
			if ((uint8_t *) str < (uint8_t *) q.base || (uint8_t *) str + len + 1 > (uint8_t *) q.base + q.max) fail("retval", "string is not inside the storage");
			else if (memcmp(str, want.data(), want.size())) fail("retdata", "string " + hex(str, len + 1) + " != content+NUL " + hex(want.data(), want.size()));
		}
		break; }
	case EMPTY: {
		size_t lo = 0, hi = 0;
		uint8_t *p = (uint8_t *) LIB(mpt_queue_empty(&q, &lo, &hi));
		if (!p) { if (max - len) fail("retval", "no empty space reported although the queue is not full"); }
		else {
			if (lo + hi != max - len) fail("retval", fmt("empty sizes %zu+%zu != free %zu", lo, hi, max - len));
			else { memset(p, 0xDD, lo); if (hi) memset(q.base, 0xDD, hi); }   // must not touch content (ASan guards the outside)
		}
		break; }
	case XPUSH: { model_refuse = a > HUGE; bool ok = LIB(xq->push(data, a)); refused = !ok; if (ok && !model_refuse) for (size_t i = 0; i < a; ++i) m.push_back(data[i]); q = xq->_d; break; }
	case XUNSHIFT: { model_refuse = a > HUGE; bool ok = LIB(xq->unshift(data, a)); refused = !ok; if (ok && !model_refuse) for (size_t i = a; i-- > 0;) m.push_front(data[i]); q = xq->_d; break; }
	case XPOP: case XPOPN: {
		model_refuse = a > len;
		uint8_t *exact = (uint8_t *) malloc(a && a <= 4096 ? a : 1);
		bool ok = LIB(xq->pop(op == XPOP ? exact : 0, a)); refused = !ok;
		if (ok && !model_refuse) {
			if (op == XPOP && a && !asan_peek() && !std::equal(m.end() - a, m.end(), exact)) fail("retdata", "popped bytes differ from the deque's last bytes: " + hex(exact, a));
			for (size_t i = 0; i < a; ++i) m.pop_back();
		}
		free(exact); q = xq->_d; break; }
	case XSHIFT: case XSHIFTN: {
		model_refuse = a > len;
		uint8_t *exact = (uint8_t *) malloc(a && a <= 4096 ? a : 1);
		bool ok = LIB(xq->shift(op == XSHIFT ? exact : 0, a)); refused = !ok;
		if (ok && !model_refuse) {
			if (op == XSHIFT && a && !asan_peek() && !std::equal(m.begin(), m.begin() + a, exact)) fail("retdata", "shifted bytes differ from the deque's first bytes: " + hex(exact, a));
			for (size_t i = 0; i < a; ++i) m.pop_front();
		}
		free(exact); q = xq->_d; break; }
	case XWRITE: {   // a = element count, b = element size
		argc = fmt("count=%zu,part=%zu", a, b);
		ssize_t n = LIB(xq->write(a, data, b));
		q = xq->_d;
		// the return value states how many elements were taken: content must have grown by exactly that
		if (n < 0) refused = true;
		else if (b == 0) { /* reserve only */ }
		else for (size_t i = 0; i < (size_t) n * b; ++i) m.push_back(data[i]);
		break; }
	case XREAD: {    // a = element count, b = element size ; a device read consumes at the front, where peek looks and write's bytes come out in order
		argc = fmt("count=%zu,part=%zu,%s", a, b, a * b > len ? "total>stored" : "total<=stored");
		uint8_t *exact = (uint8_t *) malloc(a * b ? a * b : 1);
		ssize_t n = LIB(xq->read(a, exact, b));
		q = xq->_d;
		if (n < 0) refused = true;
		else {
			if ((size_t) n * b > len) fail("retval", fmt("claims %zd elements of %zu bytes read from %zu stored bytes", n, b, len));
			else for (ssize_t i = 0; i < n && !bad; ++i) {
				if (!asan_peek() && !std::equal(m.begin(), m.begin() + b, exact + i * b)) fail("retdata", fmt("element %zd is {%s}, the next unread bytes (what peek shows) are {%s}", i, hex(exact + i * b, b).c_str(), hex(&*std::vector<uint8_t>(m.begin(), m.begin() + b).begin(), b).c_str()));
				for (size_t k = 0; k < b; ++k) m.pop_front();
			}
		}
		free(exact); break; }
	case XPEEK: {
		mpt::span<const uint8_t> sp = LIB(xq->peek(a));
		q = xq->_d;
		if (sp.size() > len) fail("retval", fmt("peek returned %zu bytes, stored %zu", (size_t) sp.size(), len));
		else if (sp.size() && !std::equal(sp.begin(), sp.end(), m.begin())) fail("retdata", "peeked bytes are not a prefix of the content");
		else if (a <= len && sp.size() < a) fail("retval", fmt("asked for %zu of %zu stored bytes, got %zu", a, len, (size_t) sp.size()));
		break; }
	case XTRIM: {    // a = take, b = finished bytes (done)
		argc = fmt("%s,%s", a > b ? "take>done" : "take<=done", b > len ? "done>stored" : "done<=stored");
		model_refuse = a > b || b > len;
		bool ok = LIB(eq->trim(a)); refused = !ok;
		q = *(mpt::queue *) eq;
		if (ok && !model_refuse) { for (size_t i = 0; i < a; ++i) m.pop_front(); if (eq->_state.done != b - a) fail("retval", "finished-bytes counter not reduced by the trimmed amount"); }
		break; }
	}
	bool asan = asan_error();
	if (asan) fail("asan", "memory access outside the storage / caller buffers (AddressSanitizer)");
	if (!bad) {
		if (model_refuse && !refused) fail("accepted-overask", "operation asking for more than stored/free was not refused");
		else if (refused && m != before) { /* cannot happen: model only changes on success */ }
	}
	if (refused) {
		++c.refusals;
		if (!model_refuse && op != FIND && op != STRING) {
			// The only refusals of a satisfiable request the library documents: zero-length requests and removing
			// wrapped (two-segment) data without a target buffer.  Anything else means the queue does not hold
			// what the deque holds after the same operation.
			bool posop = op == CROP || op == SET || op == SET0 || op == GET || op == GETN;
			bool zero = posop ? b == 0 : a == 0;
			bool nobuf = (op == POPN || op == SHIFTN) && wrapped(max, off, len);
			if (zero || nobuf) ++c.spurious;
			else if (!bad) fail("spurious-refusal", "a request that fits (enough stored / free bytes) was refused");
		}
		m = before;
	}
	else ++c.accepted;
	// structural + content oracle on the post state
	if (!bad && !content_checked_loose) {
		if (q.len > q.max || q.off > q.max || (q.max && !q.base)) fail("struct", fmt("post state (max=%zu,off=%zu,len=%zu) is not a valid ring", q.max, q.off, q.len));
		else if (q.len != m.size()) fail(refused ? "refused-but-changed" : "content", fmt("stored length %zu, deque length %zu", q.len, m.size()));
		else if (q.len) {
			std::vector<uint8_t> got(q.len), want(m.begin(), m.end());
			int g = mpt_queue_get(&q, 0, q.len, got.data());
			if (asan_error()) fail("asan", "reading the post state back faults");
			else if (g < 0) fail("content", "content cannot be read back");
			else if (got != want) fail(refused ? "refused-but-changed" : "content", "content " + hex(got.data(), got.size()) + " != deque " + hex(want.data(), want.size()));
			else {
				size_t lo = 0; uint8_t *p = (uint8_t *) mpt_queue_data(&q, &lo);
				std::vector<uint8_t> seg;
				if (p && lo <= q.len) { seg.assign(p, p + lo); seg.insert(seg.end(), (uint8_t *) q.base, (uint8_t *) q.base + (q.len - lo)); }
				if (asan_error() || seg != want) fail("content", "the two data segments do not spell the deque content");
			}
		}
	}
	if (wrapped(max, off, len) || wrapped(q.max, q.off, q.len)) ++c.nontrivial;
	if (xq) { xq->_d = q; delete xq; q.base = 0; }
	if (eq) { delete eq; }
	s.fini();
}

struct Inst { int op; size_t a, b; };
static void instances(size_t max, size_t len, std::vector<Inst> &v)
{
	size_t top = max + 1;
	for (int op : {PUSH, PUSH0, UNSHIFT, UNSHIFT0, POP, POPN, SHIFT, SHIFTN, XPUSH, XPOP, XPOPN, XUNSHIFT, XSHIFT, XSHIFTN, XPEEK, PREPARE})
		for (size_t a = 0; a <= top; ++a) v.push_back(Inst{op, a, 0});
	for (int op : {CROP, SET, SET0, GET, GETN})
		for (size_t a = 0; a <= top; ++a) for (size_t b = 0; b <= top; ++b) v.push_back(Inst{op, a, b});
	for (size_t esz = 1; esz <= 3; ++esz) for (size_t t = 0; t <= len; ++t) v.push_back(Inst{FIND, esz, (size_t) (t ? label(t - 1) : 0)});
	v.push_back(Inst{FIND, 0, 0});
	// impossible lengths (the sum with the stored size, the free size or the alignment round-up wraps around)
	for (int op : {PUSH, PUSH0, UNSHIFT, UNSHIFT0, POP, POPN, SHIFT, SHIFTN, XPUSH, XPOP, XPOPN, XUNSHIFT, XSHIFT, XSHIFTN, PREPARE})
		for (size_t d = 0; d <= top + 8; ++d) v.push_back(Inst{op, SIZE_MAX - d, 0});
	for (int op : {CROP, SET0, GETN}) for (size_t pos : {(size_t) 0, (size_t) 1, len, SIZE_MAX}) for (size_t d : {(size_t) 0, (size_t) 1, len, max}) v.push_back(Inst{op, pos, SIZE_MAX - d});
	for (size_t a = 0; a <= top; ++a) v.push_back(Inst{ALIGN, a, 0});
	for (size_t a = 0; a <= top + 8; ++a) v.push_back(Inst{RESIZE, a, 0});
	v.push_back(Inst{STRING, 0, 0}); v.push_back(Inst{EMPTY, 0, 0});
	for (size_t n = 0; n <= 3; ++n) for (size_t part = 1; part <= 3; ++part) { v.push_back(Inst{XWRITE, n, part}); v.push_back(Inst{XREAD, n, part}); }
	for (size_t take = 0; take <= top; ++take) for (size_t done = 0; done <= top; ++done) v.push_back(Inst{XTRIM, take, done});
}

static size_t maxtop(Tier t) { return t == Quick ? 14 : 28; }
void mc_jobs(Tier t, std::vector<std::string> &jobs)
{
	for (size_t m = 0; m <= maxtop(t); ++m) jobs.push_back("max=" + std::to_string(m));
	// large states for the >1024-byte paths of mpt_memrev / mpt_memswap (align, resize, string, peek only)
	if (t == Thorough) for (int k = 0; k < 8; ++k) jobs.push_back("large=" + std::to_string(k));
	else jobs.push_back("large=0");
	// capacities of 2 GiB and more (counts of free elements no longer fit an int), storage reserved but never touched
	jobs.push_back("giant");
	// an io::queue owns its storage: copies of the object (where the class allows them) have to be independent queues
	jobs.push_back("copy");
}
static void large_step(Run &r, Counters &c, size_t max, size_t off, size_t len, int op, size_t a);
static void giant_step(Run &r, Counters &c, size_t max, size_t off, size_t len, int op, size_t a);
static void copy_step(Run &r, Counters &c, size_t len, int how, size_t grow);

static const size_t large_max[] = {2600, 2048, 3000, 2100, 4200, 2050, 2500, 3100};
static const size_t large_len[] = {1, 1023, 1024, 1025, 1500, 2047};
static const int large_ops[] = {ALIGN, RESIZE, STRING, XPEEK};

static void body(Run &r, Counters &c, const std::string &job, Ctx &x)
{
	if (job.compare(0, 4, "max=") == 0) {
		size_t max = strtoul(job.c_str() + 4, 0, 10);
		size_t off = x.choose(max ? max : 1), len = x.choose(max + 1);
		static std::vector<Inst> v; static size_t vmax = ~(size_t) 0, vlen = 0;
		if (vmax != max || vlen != len) { v.clear(); instances(max, len, v); vmax = max; vlen = len; }
		size_t i = x.choose(v.size());
		if (!i) {
			++r.states;
			if (max == 5 && off == 3 && len == 4) r.sample("state(max=5,off=3,len=4 wrapped) x {" + std::to_string(v.size()) + " op instances: qpush/qunshift/qpop/qshift(len 0..6, data|NULL), crop/set/get(pos,len in 0..6), find, align, resize, prepare, string, empty, io::queue::*, encode_queue::trim}");
		}
		r.hint(opn[v[i].op]);
		r.note("state(max=%zu,off=%zu,len=%zu) op=%s a=%zu b=%zu", max, off, len, opn[v[i].op], v[i].a, v[i].b);
		step(r, c, max, off, len, v[i].op, v[i].a, v[i].b);
	} else if (job == "giant") {
		static const size_t GM[] = {((size_t) 1 << 31) + 64, (size_t) 3 << 30};
		static const int GO[] = {PUSH, UNSHIFT, XPUSH, XUNSHIFT, XWRITE};
		size_t max = GM[x.choose(2)];
		size_t lens[] = {0, 1, 5}, len = lens[x.choose(3)];
		size_t offs[] = {0, 7, max - 1, max - 3}, off = offs[x.choose(4)];
		int op = GO[x.choose(5)]; size_t a = 1 + x.choose(3);
		if (!len && !off && op == PUSH && a == 1) ++r.states;
		r.hint(opn[op]);
		r.note("giant state(max=%zu,off=%zu,len=%zu) op=%s a=%zu", max, off, len, opn[op], a);
		giant_step(r, c, max, off, len, op, a);
	} else if (job == "copy") {
		size_t len = x.choose(8), grow = x.choose(3) * 40; int how = (int) x.choose(2);
		if (!grow && !how) ++r.states;
		r.hint("io::queue copy");
		r.note("io::queue copy len=%zu how=%d grow=%zu", len, how, grow);
		copy_step(r, c, len, how, grow);
	} else {
		size_t max = large_max[atoi(job.c_str() + 6) % 8];
		size_t len = large_len[x.choose(6)];
		size_t offs[] = {0, 1, max - len - 1, max - 1024, max - 1025, max - 1, max - len + 1023, max - len + 1025};
		size_t oi = x.choose(8), off = offs[oi] % max;
		int op = large_ops[x.choose(4)];
		size_t as[] = {0, 1, 1023, 1024, 1025, max - len, max - len + 1, max - 1, max, max + 8};
		size_t ai = x.choose(10), a = as[ai];
		if (!ai && op == ALIGN) { ++r.states; if (!oi) r.sample(fmt("large state max=%zu len=%zu: align/resize/string/peek with pivots around the 1024-byte scratch limit of mpt_memrev", max, len)); }
		r.hint(opn[op]);
		r.note("large state(max=%zu,off=%zu,len=%zu) op=%s a=%zu", max, off, len, opn[op], a);
		large_step(r, c, max, off, len, op, a);
	}
	++r.transitions;
}
void mc_explore(Run &r, const std::string &job)
{
	Counters c = {0, 0, 0, 0};
	r.require("nontrivial");
	dfs(r, [&](Ctx &x) { body(r, c, job, x); });
	r.count("nontrivial", c.nontrivial); r.count("refused", c.refusals); r.count("accepted", c.accepted); r.count("documented_refusals(zero-length or no target buffer for wrapped data)", c.spurious);
}

// large states: only content-preserving ops, content compared after the op
static void large_step(Run &r, Counters &c, size_t max, size_t off, size_t len, int op, size_t a)
{
	St s; s.init(max, off, len);
	mpt::queue &q = s.q;
	std::string sig = std::string(opn[op]) + "|large," + (wrapped(max, off, len) ? "wrapped" : "linear") + "|";
	std::string desc = fmt("state(max=%zu,off=%zu,len=%zu) %s(%zu)", max, off, len, opn[op], a);
	asan_error();
	std::vector<uint8_t> want(s.m.begin(), s.m.end());
	bool keep = true;
	if (op == ALIGN) LIB((mpt_queue_align(&q, a), 0));
	else if (op == RESIZE) { if (a < len || !LIB(mpt_queue_resize(&q, a))) keep = a >= len; }
	else if (op == STRING) { char *str = LIB(mpt_queue_string(&q)); if (str && (memcmp(str, want.data(), len) || str[len])) r.violation(sig + "wrong-result", desc + ": string differs from content"); }
	else if (op == XPEEK) { mpt::io::queue x(0); x._d = q; mpt::span<const uint8_t> sp = LIB(x.peek(a)); if (sp.size() > len || !std::equal(sp.begin(), sp.end(), want.begin())) r.violation(sig + "wrong-result", desc + ": peeked bytes are not a prefix of the content"); q = x._d; x._d.base = 0; }
	if (asan_error()) r.violation(sig + "wrong-result", desc + ": memory access outside the storage");
	else if (keep && a != 0 || op != RESIZE) {
		if (op == RESIZE && a < len) {}
		else if (q.len != len || q.len > q.max || q.off > q.max) r.violation(sig + "wrong-result", desc + fmt(": post state (max=%zu,off=%zu,len=%zu)", q.max, q.off, q.len));
		else { std::vector<uint8_t> got(len); if (mpt_queue_get(&q, 0, len, got.data()) < 0 || got != want || asan_error()) r.violation(sig + "wrong-result", desc + ": content changed"); }
	}
	if (wrapped(max, off, len) || wrapped(q.max, q.off, q.len)) ++c.nontrivial;
	s.fini();
}

// giant states: only appending/prepending a few bytes; content = the few stored bytes
static void giant_step(Run &r, Counters &c, size_t max, size_t off, size_t len, int op, size_t a)
{
	// one reservation per worker process, never touched except for the few stored bytes (2 GiB allocations are slow under ASan)
	static void *store = malloc((size_t) 3 << 30);
	mpt::queue q; q.base = store; q.max = max; q.off = off; q.len = len;
	std::string sig = std::string(opn[op]) + "|giant," + (wrapped(max, off, len) ? "wrapped" : "linear") + "|in-range|";
	std::string desc = fmt("state(max=%zu,off=%zu,len=%zu) %s(%zu)", max, off, len, opn[op], a);
	if (!q.base) { r.note("cannot reserve %zu bytes", max); return; }
	std::deque<uint8_t> m;
	for (size_t i = 0; i < len; ++i) { ((uint8_t *) q.base)[(off + i) % max] = label(i); m.push_back(label(i)); }
	uint8_t data[8] = {0xA0, 0xA1, 0xA2, 0xA3, 0xA4, 0xA5, 0xA6, 0xA7};
	asan_error();
	bool ok = true;
	if (op == PUSH) ok = LIB(mpt_qpush(&q, a, data)) >= 0;
	else if (op == UNSHIFT) ok = LIB(mpt_qunshift(&q, a, data)) >= 0;
	else { mpt::io::queue xq(0); xq._d = q;
		if (op == XPUSH) ok = LIB(xq.push(data, a)); else if (op == XUNSHIFT) ok = LIB(xq.unshift(data, a)); else ok = LIB(xq.write(a, data, 1)) == (ssize_t) a;
		q = xq._d; xq._d.base = 0; xq._d.max = xq._d.len = xq._d.off = 0; }
	if (ok) { if (op == UNSHIFT || op == XUNSHIFT) for (size_t i = a; i-- > 0;) m.push_front(data[i]); else for (size_t i = 0; i < a; ++i) m.push_back(data[i]); }
	std::vector<uint8_t> got(q.len <= 64 ? q.len : 0), want(m.begin(), m.end());
	if (asan_error()) r.violation(sig + "wrong-result", desc + ": memory access outside the storage");
	else if (!ok && q.len != len) r.violation(sig + "refused-but-changed", desc + fmt(": reported as refused, stored length went from %zu to %zu", len, q.len));
	else if (!ok) r.violation(sig + "refused-although-it-fits", desc + ": a request that fits was refused");
	else if (q.len != m.size() || q.len > q.max || q.off > q.max) r.violation(sig + "wrong-result", desc + fmt(": post state (max=%zu,off=%zu,len=%zu), deque length %zu", q.max, q.off, q.len, m.size()));
	else if (q.len && (mpt_queue_get(&q, 0, q.len, got.data()) < 0 || got != want || asan_error())) r.violation(sig + "wrong-result", desc + ": content " + hex(got.data(), got.size()) + " != deque " + hex(want.data(), want.size()));
	if (wrapped(max, off, len) || wrapped(q.max, q.off, q.len)) ++c.nontrivial;
	if (q.base != store) { r.violation(sig + "wrong-result", desc + ": storage was reallocated although the request fits"); store = q.base; }
}

// copies of an io::queue object: only compiled into a real scenario while the class is copyable
template <typename Q> static typename std::enable_if<std::is_copy_constructible<Q>::value && std::is_copy_assignable<Q>::value, bool>::type
copy_scenario(Run &r, size_t len, int how, size_t grow, std::string &what)
{
	uint8_t data[8] = {1, 2, 3, 4, 5, 6, 7, 8}, big[128]; memset(big, 0x42, sizeof big);
	Q *a = new Q(16); a->push(data, len);
	{
		Q *b = how ? new Q(0) : new Q(*a);
		if (how) *b = *a;
		if (grow) b->push(big, grow);
		mpt::span<const uint8_t> sb = b->peek(0);
		if (sb.size() != len + grow || (len && memcmp(sb.begin(), data, len))) what = "the copy does not hold the content of the original";
		delete b;
	}
	mpt::span<const uint8_t> sa = LIB(a->peek(0));
	if (asan_error()) what = "the original reads released storage after its copy was modified and destroyed";
	else if (sa.size() != len || (len && memcmp(sa.begin(), data, len))) what = "the content of the original changed through its copy";
	if (what.empty()) delete a;    // otherwise the storage is already gone
	(void) r;
	return true;
}
template <typename Q> static typename std::enable_if<!(std::is_copy_constructible<Q>::value && std::is_copy_assignable<Q>::value), bool>::type
copy_scenario(Run &, size_t, int, size_t, std::string &) { return false; }
static void copy_step(Run &r, Counters &c, size_t len, int how, size_t grow)
{
	std::string what;
	asan_error();
	bool copyable = copy_scenario<mpt::io::queue>(r, len, how, grow, what);
	if (!what.empty()) r.violation(std::string("io::queue copy|") + (how ? "assign" : "construct") + "|in-range|wrong-result", fmt("io::queue of %zu bytes %s, %zu bytes pushed to the copy: ", len, how ? "assigned" : "copy-constructed", grow) + what);
	++c.nontrivial;
	r.count(copyable ? "io_queue_copies_checked" : "io_queue_not_copyable(nothing to check)", 1);
}

void mc_replay(Run &r, const std::string &job, const Vec &v)
{
	Counters c = {0, 0, 0, 0};
	dfs_replay(r, [&](Ctx &x) { body(r, c, job, x); }, v);
}

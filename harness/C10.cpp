// C10 — configuration store behaves as a path -> value map.
//
// Part 1 (jobs "store:*"): history BFS with canonical-state dedupe over three stores
//   global : the process-wide tree behind mpt_config_set/get(NULL, ...)
//   view   : a sub-tree view (mpt_config_global(&base)) used together with the process-wide interface
//   cxx    : a private mpt::config::root
// Every job owns a small alphabet (path subset x values x {assign, remove[, del]}).  The process-wide tree is a
// file-static, therefore every transition of those stores runs in a forked child (fresh static state) which replays
// the history, runs the letter, re-queries EVERY path of
// the pool (value + existence), enumerates the whole store through the public collection interface, tears the
// store down and checks the allocation ledger.  Reference = std::map<vector<string>, string>.
// Part 2 (jobs "walk:*"): stateless enumeration of all strings up to length 6 over {a, separator, '='} in four
// separator/assign modes: mpt_path_set + mpt_path_next / mpt_path_last / mpt_path_del on the string and
// mpt_path_addchar/valid/add + mpt_path_del rebuilding it, against an independent splitter.
#include <cerrno>
#include <cstddef>
#include <cstdlib>
#include <algorithm>
#include <type_traits>
#include <sys/mman.h>
#include <sys/uio.h>
#include <sanitizer/asan_interface.h>
#include "core.h"
#include "types.h"
#include "meta.h"
#include "array.h"
#include "node.h"
#include "collection.h"
#include "config.h"
#include "mc.hpp"

using namespace mc;
using namespace mpt;   // type macros expand to unqualified enumerators
const char *mc_id = "C10";
const char *mc_rule = "store jobs: BFS over histories of assign/remove on a path subset (process-wide store, sub-tree view + process-wide interface, private C++ root), one forked process per history, "
                      "dedupe on (reference map, enumerated implementation tree incl. sibling order / unused slots / array fill); after every step every path of the pool is queried (value and existence) "
                      "and the whole store is enumerated; walk jobs: all strings <= 6 over {a,sep,'='} x 4 separator modes x (set+next, last, next^k+last, del, rebuild by add, add after del, explicit length); "
                      "nontrivial = transitions whose path equals, extends or is a prefix of an existing key (store jobs) plus strings with >= 2 components (walk jobs)";

typedef std::vector<std::string> Key;

// ------------------------------------------------------------------ reference splitter (independent of the library)
static Key ref_split(const std::string &s, char sep, char assign)
{
	size_t end = s.size();
	if (assign) { size_t p = s.find(assign); if (p != std::string::npos) end = p; }
	Key k; std::string cur;
	for (size_t i = 0; i < end; ++i) { if (s[i] == sep) { k.push_back(cur); cur.clear(); } else cur += s[i]; }
	k.push_back(cur);
	return k;
}
static std::string abbrev(const std::string &s)
{
	bool ctl = false; for (unsigned char c : s) if (c < 32 || c > 126) ctl = true;
	if (ctl) { std::string o; for (unsigned char c : s) o += (c < 32 || c > 126) ? fmt("\\x%02x", c) : std::string(1, (char) c); return o.size() > 60 ? o.substr(0, 60) + "..." : o; }
	if (s.size() <= 24) return s;
	// run-length form for the long test names / values
	std::string o; size_t i = 0;
	while (i < s.size()) { size_t j = i; while (j < s.size() && s[j] == s[i]) ++j; if (j - i > 4) o += fmt("%c*%zu", s[i], j - i); else o.append(s, i, j - i); i = j; }
	return o;
}
static std::string key_str(const Key &k)
{
	if (k.empty()) return "<root>";
	std::string o;
	for (size_t i = 0; i < k.size(); ++i) { if (i) o += ","; o += "'" + abbrev(k[i]) + "'"; }
	return "[" + o + "]";
}
static bool is_prefix(const Key &p, const Key &k) { return p.size() <= k.size() && std::equal(p.begin(), p.end(), k.begin()); }

// ================================================================== Part 1: stores
// binary = length-prefixed element format (path flag SepBinary), built element by element with addchar/valid/add
// huge   = contains an element beyond the 65534-byte identifier limit (assignment must be refused cleanly)
struct PSpec { std::string label, text; bool null; char sep, assign; Key key; bool binary, huge; };
static std::vector<PSpec> pool;
static std::map<std::string, int> pool_idx;
static int P(const std::string &label) { auto it = pool_idx.find(label); if (it == pool_idx.end()) { fprintf(stderr, "C10: unknown path %s\n", label.c_str()); abort(); } return it->second; }
static void addp(const std::string &label, const std::string &text, char sep = '.', char assign = 0, bool null = false)
{
	PSpec p; p.label = label; p.text = text; p.null = null; p.sep = sep; p.assign = assign; p.binary = false; p.huge = false;
	if (!null) p.key = ref_split(text, sep, assign);
	for (auto &e : p.key) if (e.size() > 65534) p.huge = true;
	pool_idx[label] = (int) pool.size(); pool.push_back(p);
}
static void addb(const std::string &label, const Key &key)
{
	PSpec p; p.label = label; p.null = false; p.sep = '.'; p.assign = 0; p.binary = true; p.huge = false; p.key = key;
	pool_idx[label] = (int) pool.size(); pool.push_back(p);
}
// fill a path object for a pool entry (text: mpt_path_set, binary: rebuilt element by element like the parser does)
static void fill_path(mpt::path &q, const PSpec &p)
{
	q.sep = p.sep; q.assign = p.assign;
	if (p.null) return;
	if (!p.binary) { mpt::mpt_path_set(&q, p.text.c_str(), -1); return; }
	q.flags = mpt::path::SepBinary;
	for (auto &e : p.key) {
		int valid = 0;
		for (char ch : e) { mpt::mpt_path_addchar(&q, (unsigned char) ch); valid = mpt::mpt_path_valid(&q); }
		mpt::mpt_path_add(&q, valid);
	}
}
static std::string KN(size_t n) { return std::string(n, 'k'); }
static void build_pool()
{
	if (!pool.empty()) return;
	addp("a", "a"); addp("a.b", "a.b"); addp("a.b.c", "a.b.c"); addp("a.c", "a.c"); addp("ab", "ab"); addp("b", "b"); addp("c", "c");
	addp("a..b", "a..b"); addp("''", ""); addp("a.", "a."); addp(".a", ".a"); addp("b.a", "b.a"); addp("a.a", "a.a"); addp("a.a.a", "a.a.a"); addp("b.b", "b.b");
	addp("a/b", "a/b", '/'); addp("a/b.c", "a/b.c", '/'); addp("a.b=q", "a.b=q", '.', '='); addp("b=", "b=", '.', '='); addp("c(end==)", "c", '.', '=');
	addp("<root>", "", '.', 0, true);
	addp("k", "k"); addp("c.d", "c.d"); addp("b.c", "b.c");
	addp("a.b.c.d", "a.b.c.d"); addp("v", "v"); addp("v.w", "v.w"); addp("v.w.k", "v.w.k"); addp("v.k", "v.k");
	// element lengths around the inline identifier sizes (C++ item: 11/12, node: 19/20 and 211/212) and the 8-bit first-length field
	for (size_t n : {11, 12, 19, 20, 211, 212, 254, 255, 256, 300}) addp(fmt("k%zu", n), KN(n));
	for (size_t n : {255, 256}) { addp(fmt("a.k%zu", n), "a." + KN(n)); addp(fmt("k%zu.a", n), KN(n) + ".a"); }
	// length-prefixed spellings (same keys as text spellings above; k200: a length byte >= 128)
	addb("bin:a", { "a" }); addb("bin:a/b", { "a", "b" }); addb("bin:a/c", { "a", "c" }); addb("bin:a/b/c", { "a", "b", "c" });
	addb("bin:b", { "b" }); addb("bin:b/c", { "b", "c" }); addb("bin:a/k200", { "a", std::string(200, 'k') });
	// an element beyond the identifier limit: the assignment is refused, the store must stay sound
	addp("x", "x"); addp("a.x", "a.x"); addp("x.Y70000", "x." + std::string(70000, 'Y')); addp("a.x.Y70000", "a.x." + std::string(70000, 'Y'));
}
// value lengths: short, empty, last length of the compact text metatype (249), first lengths that need another representation (250, 255), long
static std::vector<std::string> values() { return { "x", "yy", "", std::string(249, 'z'), std::string(250, 'z'), std::string(255, 'z'), std::string(300, 'z'), std::string(256, 'y') }; }
enum { V_X = 0, V_YY, V_EMPTY, V_249, V_250, V_255, V_300, V_256 };

enum Kind { GLOBAL = 0, VIEW = 1, CXX = 2 };
static const char *kindname[] = { "global", "view", "cxx" };
// COPY: assign(P, pointer obtained by querying Q) — the value handed to the store lives inside the store (Q may be P itself)
// UNSET: assign(P, no value) through the interface — the entry stays, its value becomes absent, entries beneath are untouched
enum OpKind { ASSIGN = 0, REMOVE = 1, DEL = 2, COPY = 3, UNSET = 4 };
static const char *opword(int kind) { return kind == ASSIGN ? "assign" : (kind == COPY ? "copy" : (kind == UNSET ? "unset" : "remove")); }
struct OpSpec { int target;  /* 0 = main interface, 1 = view interface */ int kind; int path; int value; };
struct Job {
	std::string name; int kind; int depth;
	std::string base;                 // label of the view's base path (VIEW only)
	std::vector<OpSpec> ops;
	std::vector<int> viewq;           // paths queried through the view (relative)
	bool huge;                        // alphabet contains an over-long element: those pool entries are queried as well
	bool probe;                       // C++ root: after every step a copy of the object is made, modified and destroyed
	Job() : kind(0), depth(0), huge(false), probe(false) {}
};
static bool g_add_unset = false;
static void add_ops(Job &j, int target, const std::vector<std::string> &paths, const std::vector<int> &vals, bool withdel = false, bool pairs = false)
{
	for (auto &p : paths) {
		if (pool[P(p)].huge) j.huge = true;
		for (int v : vals) j.ops.push_back(OpSpec{target, ASSIGN, P(p), v});
		// touch (copy P <- P) in every alphabet, copy from every other path in the alias alphabets
		for (auto &q : paths) if (pairs || q == p) j.ops.push_back(OpSpec{target, COPY, P(p), P(q)});
		j.ops.push_back(OpSpec{target, REMOVE, P(p), 0});
		if (g_add_unset) j.ops.push_back(OpSpec{target, UNSET, P(p), 0});
		if (withdel) j.ops.push_back(OpSpec{target, DEL, P(p), 0});
		if (target == 1 && std::find(j.viewq.begin(), j.viewq.end(), P(p)) == j.viewq.end()) j.viewq.push_back(P(p));
	}
}
static std::vector<Job> make_jobs(Tier t)
{
	build_pool();
	std::vector<Job> jobs;
	int dq = 4, dt = 16;    // depth bound quick / thorough (thorough normally reaches closure before the bound)
	int D = t == Quick ? dq : dt;
	struct Alpha { const char *name; std::vector<std::string> paths; std::vector<int> vals; int dquick; bool pairs; };
	std::vector<Alpha> alphas = {
		{ "chain",    { "a", "a.b", "a.b.c", "a.c" },               { V_X, V_YY }, 4, false },
		{ "siblings", { "a", "ab", "b", "a.b", "b.a" },             { V_X },       4, false },
		{ "empty",    { "''", "a.", ".a", "a..b", "a" },            { V_X, V_YY }, 3, false },
		{ "repeat",   { "a", "a.a", "a.a.a", "b.b" },               { V_X, V_YY }, 4, false },
		{ "sep",      { "a.b", "a/b", "a/b.c", "a.b.c", "a.b=q" },  { V_X, V_YY }, 3, false },
		{ "root",     { "<root>", "a", "a.b", "b", "b=" },          { V_X },       4, false },
		{ "endchar",  { "c", "c(end==)", "b", "b=" },               { V_X, V_YY }, 3, false },
		{ "three",    { "a", "b", "c" },                            { V_X },       5, false },
		{ "len-s",    { "k11", "k12", "k19", "k20" },               { V_X },       4, false },
		{ "len-l",    { "k211", "k212", "k255", "k256", "k300" }, { V_X }, 3, false },
		{ "len-n",    { "a", "a.k255", "a.k256", "k255.a", "k256.a" }, { V_X },    3, false },
		{ "values",   { "a", "a.b" },                               { V_X, V_EMPTY, V_249, V_250, V_255, V_300 }, 3, false },
		{ "binary",   { "a.b", "bin:a", "bin:a/b", "bin:a/c", "bin:a/b/c", "bin:a/k200" }, { V_X }, 3, false },
		{ "toolong",  { "a", "a.x", "a.x.Y70000" },                 { V_X },       4, false },
		{ "unset",    { "a", "a.b", "b" },                          { V_X, V_249, V_250, V_300 }, 3, false },
		{ "copyobj",  { "a", "a.b", "b" },                          { V_X, V_YY }, 3, false },
		{ "alias-s",  { "a", "a.b", "b" },                          { V_X, V_YY }, 3, true },
		{ "alias-l",  { "a", "b" },                                 { V_X, V_249, V_250, V_255, V_256, V_300 }, 3, true },
	};
	for (int kind : { GLOBAL, CXX }) for (auto &a : alphas) {
		Job j; j.kind = kind; j.name = std::string("store:") + kindname[kind] + ":" + a.name; j.depth = t == Quick ? a.dquick : D;
		if (!strcmp(a.name, "copyobj")) { if (kind != CXX) continue; j.probe = true; }
		g_add_unset = !strcmp(a.name, "unset");
		add_ops(j, 0, a.paths, a.vals, kind == CXX, a.pairs);
		g_add_unset = false;
		jobs.push_back(j);
	}
	// sub-tree views: operations through the view (relative paths) interleaved with operations through the process-wide interface
	struct VAlpha { const char *name, *base; std::vector<std::string> vpaths, gpaths; std::vector<int> vals; int dquick; bool pairs; };
	std::vector<VAlpha> valphas = {
		{ "top",    "a",   { "<root>", "b", "b.c" },   { "a", "a.b" },          { V_X, V_YY }, 4, false },
		{ "nested", "a.b", { "<root>", "c", "c.d" },   { "a", "a.b", "a.b.c" }, { V_X },       4, false },
		{ "fresh",  "v.w", { "k", "<root>" },          { "v", "v.k", "b" },     { V_X, V_YY }, 4, false },
		{ "values", "a",   { "b", "<root>" },          { "a" },                 { V_X, V_EMPTY, V_250, V_300 }, 3, false },
		{ "binary", "a",   { "bin:b", "bin:b/c", "b" }, { "bin:a/b", "a" },     { V_X },       3, false },
		{ "toolong","a",   { "x", "x.Y70000" },        { "a", "a.x" },          { V_X },       4, false },
		{ "unset",  "a",   { "<root>", "b" },          { "a" },                 { V_X, V_250, V_300 }, 3, false },
		{ "alias",  "a",   { "<root>", "b" },          { "a", "a.b" },          { V_X, V_250, V_256 }, 3, true },
	};
	for (auto &a : valphas) {
		Job j; j.kind = VIEW; j.name = std::string("store:view:") + a.name; j.depth = t == Quick ? a.dquick : D; j.base = a.base;
		g_add_unset = !strcmp(a.name, "unset");
		add_ops(j, 1, a.vpaths, a.vals, false, a.pairs);
		add_ops(j, 0, a.gpaths, { V_X }, false, a.pairs);
		g_add_unset = false;
		jobs.push_back(j);
	}
	return jobs;
}

// ------------------------------------------------------------------ result record passed from a child to the BFS driver
struct Out {
	std::vector<std::pair<std::string, std::string> > viols;
	std::map<std::string, uint64_t> cnt;
	std::vector<std::string> notes;
	std::string canon, pre;      // pre = canonical state before the last step (replay check)
	void violation(const std::string &sig, const std::string &detail) { viols.push_back(std::make_pair(sig, detail)); }
	void count(const std::string &k, uint64_t n = 1) { cnt[k] += n; }
};
static std::string clean(std::string s) { for (char &c : s) if (c == '\n' || c == '\t' || c == '\x1e' || c == '\x01') c = ' '; return s; }
static std::string ser(const Out &o)
{
	std::string s;
	for (auto &v : o.viols) s += "V\t" + clean(v.first) + "\t" + clean(v.second) + "\n";
	for (auto &c : o.cnt) s += "C\t" + clean(c.first) + "\t" + std::to_string(c.second) + "\n";
	for (auto &n : o.notes) s += "N\t" + clean(n) + "\n";
	s += "K\t" + clean(o.canon) + "\n";
	s += "P\t" + clean(o.pre) + "\n";
	return s;
}
static Out parse(const std::string &s)
{
	Out o; size_t i = 0;
	while (i < s.size()) {
		size_t e = s.find('\n', i); if (e == std::string::npos) e = s.size();
		std::string l = s.substr(i, e - i); i = e + 1;
		if (l.size() < 2) continue;
		std::string rest = l.substr(2);
		if (l[0] == 'V') { size_t t = rest.find('\t'); o.viols.push_back(std::make_pair(rest.substr(0, t), t == std::string::npos ? "" : rest.substr(t + 1))); }
		else if (l[0] == 'C') { size_t t = rest.find('\t'); if (t != std::string::npos) o.cnt[rest.substr(0, t)] += strtoull(rest.c_str() + t + 1, 0, 10); }
		else if (l[0] == 'N') o.notes.push_back(rest);
		else if (l[0] == 'K') o.canon = rest;
		else if (l[0] == 'P') o.pre = rest;
	}
	return o;
}
// phase marker shared with the ancestors: tells which part of a step a dead child was executing
static char *g_phase = 0;
static void phase(const char *p) { if (g_phase) { strncpy(g_phase, p, 63); g_phase[63] = 0; } }
static bool g_notes = false;

struct Unlib { int d; Unlib() { d = mc::lib_depth; mc::lib_depth = 0; } ~Unlib() { mc::lib_depth = d; } };

// ------------------------------------------------------------------ enumeration of a store through the public collection interface
struct Enum {
	std::vector<std::pair<Key, std::string> > valued;   // (path, value) of every entry carrying a value
	std::string shape;                                    // nested listing in sibling order
	Key cur;
	bool nodes;                                           // entries are mpt::node objects (process-wide tree): record link consistency
	std::vector<const mpt::node *> pstack, lastsib;
	Enum() : nodes(false) { lastsib.push_back(0); }
};
static int enum_item(void *ctx, const mpt::identifier *id, mpt::convertable *val, const mpt::collection *sub)
{
	Unlib u;
	Enum *e = (Enum *) ctx;
	const char *name = id ? id->name() : 0;
	if (!name) {   // unused slot (C++ store) or non-text identifier: not an entry
		e->shape += "~";
		if (val || sub) e->shape += "!";
		e->shape += ";";
		return 0;
	}
	size_t nlen = id->_len ? id->_len - 1u : 0;
	e->cur.push_back(std::string(name, nlen));
	e->shape += "'" + abbrev(e->cur.back()) + "'";
	const mpt::node *self = 0;
	if (e->nodes) {
		// hidden state that steers later removals: sibling / parent links of the node behind this entry
		self = (const mpt::node *) ((const char *) id - offsetof(mpt::node, ident));
		if (self->parent != (e->pstack.empty() ? 0 : e->pstack.back())) e->shape += "^!";
		if (self->prev != e->lastsib.back()) e->shape += "<!";
		e->lastsib.back() = self;
	}
	if (val) {
		const char *s = 0;
		int r = val->convert('s', &s);
		std::string text = s && r >= 0 ? s : "";
		if (r == mpt::BadType) {
			struct iovec vec = { 0, 0 };
			if ((r = val->convert(MPT_type_toVector('c'), &vec)) >= 0) {
				const char *b = (const char *) vec.iov_base; const char *z = b ? (const char *) memchr(b, 0, vec.iov_len) : 0;
				text = b ? std::string(b, z ? (size_t) (z - b) : vec.iov_len) : std::string();
			}
		}
		if (r >= 0) { e->valued.push_back(std::make_pair(e->cur, text)); e->shape += "=" + abbrev(text); }
		else e->shape += fmt("=?%d", r);
	}
	if (sub) {
		e->shape += "{";
		if (e->nodes) { e->pstack.push_back(self); e->lastsib.push_back(0); }
		sub->each(enum_item, ctx);
		if (e->nodes) { e->pstack.pop_back(); e->lastsib.pop_back(); }
		e->shape += "}";
	}
	e->shape += ";";
	e->cur.pop_back();
	return 0;
}
static int enum_top(void *ctx, mpt::convertable *, const mpt::collection *sub)
{
	if (sub) sub->each(enum_item, ctx);
	return 0;
}

// ------------------------------------------------------------------ raw view of the C++ item arrays (layout of config_item)
struct RawItem { mpt::buffer *buf; mpt::metatype *value; mpt::identifier id; };
static void raw_walk(mpt::buffer *b, const std::function<void(mpt::buffer *)> &f, int depth = 0)
{
	if (!b || depth > 16) return;
	f(b);
	if (b->_content_traits != mpt::mpt_config_item_traits()) return;
	RawItem *it = (RawItem *) (b + 1);
	for (size_t i = 0, n = b->_used / sizeof(RawItem); i < n; ++i) raw_walk(it[i].buf, f, depth + 1);
}
static std::string raw_shape(mpt::buffer *b, int depth = 0)
{
	if (!b || depth > 16) return "-";
	std::string s = fmt("[%zu/%zu:", (size_t) (b->_used / sizeof(RawItem)), (size_t) (b->_size / sizeof(RawItem)));
	RawItem *it = (RawItem *) (b + 1);
	for (size_t i = 0, n = b->_used / sizeof(RawItem); i < n; ++i) {
		if (!it[i].id._len) s += "~"; else s += fmt("n%u", (unsigned) it[i].id._len);
		if (it[i].value) s += "v";
		s += raw_shape(it[i].buf, depth + 1);
		s += ",";
	}
	return s + "]";
}

// ------------------------------------------------------------------ the system under test + reference model
struct Sys {
	const Job &job;
	Out &out;
	mpt::config::root *root;     // CXX
	mpt::metatype *vmt; mpt::config *view; Key base;   // VIEW
	std::map<Key, std::string> val;   // reference map
	std::set<Key> may;                // structural entries whose existence is not specified (prefixes of assigned paths)
	std::vector<std::string> vals;
	bool bad;
	mpt::config *gcfg;           // interface of the process-wide store (used for direct assign/remove calls with binary paths)

	Sys(const Job &j, Out &o) : job(j), out(o), root(0), vmt(0), view(0), bad(false), gcfg(0)
	{
		vals = values();
		if (job.kind == CXX) root = LIB(new mpt::config::root);
		else { mpt::metatype *g = mpt::mpt_config_global(0); if (g) g->convert(mpt::TypeConfigPtr, &gcfg); }
		if (job.kind == VIEW) {
			const PSpec &b = pool[P(job.base)];
			base = b.key;
			mpt::path p(b.text.c_str(), b.sep, b.assign);
			vmt = LIB(mpt::mpt_config_global(&p));
			if (vmt) LIB(vmt->convert(mpt::TypeConfigPtr, &view));
		}
	}
	~Sys() { if (root) { delete root; root = 0; } if (vmt) { vmt->unref(); vmt = 0; } }
	mpt::config *iface(int target) const { return target ? view : (job.kind == CXX ? (mpt::config *) root : (mpt::config *) 0); }
	const char *store(int target) const { return job.kind == VIEW ? (target ? "view" : "view,via-global") : kindname[job.kind]; }
	Key full(int target, const PSpec &p) const { if (!target) return p.key; Key k = base; k.insert(k.end(), p.key.begin(), p.key.end()); return k; }
	static std::string pclass(const PSpec &p)
	{
		if (p.null) return "root";
		std::string s = p.key.size() == 1 ? "top" : "nested";
		bool empty = false, lng = false;
		for (auto &e : p.key) { if (e.empty()) empty = true; if (e.size() > 200) lng = true; }
		if (empty) s += ",empty-elem";
		if (lng) s += ",long-elem";
		if (p.binary) s += ",binary-sep";
		if (p.sep != '.') s += ",other-sep";
		if (p.assign) s += ",assign-char";
		return s;
	}
	// signature = op|store|path class|failure; the path modifiers (,empty-elem ...) are kept only for failures that concern
	// the entry of the operation itself, not for memory / enumeration / leak findings
	void fail(const std::string &sig, const std::string &detail)
	{
		std::string s = sig;
		size_t f = s.rfind('|');
		std::string kind = s.substr(f + 1);
		bool own = kind.compare(0, 7, "refused") == 0 || kind.find("same-path") != std::string::npos;
		if (!own) { size_t a = s.rfind('|', f - 1); size_t c = s.find(',', a); if (c != std::string::npos && c < f) { bool bin = s.substr(c, f - c).find("binary-sep") != std::string::npos; s.replace(c, f - c, bin ? ",binary-sep" : ""); } }
		out.violation(s, detail); bad = true;
	}

	// ---- queries
	int get_value(mpt::config *c, const PSpec &p, std::string &v)
	{
		const char *s = 0; int r;
		if (!p.null && !p.binary && p.sep == '.' && !p.assign) {
			if (job.kind == CXX && c == root) { bool ok = root->get(p.text.c_str(), s); r = ok ? 's' : -1; }
			else r = mpt::mpt_config_get(c, p.text.c_str(), 's', &s);
		} else {
			mpt::path q; fill_path(q, p);
			r = mpt::mpt_config_getp(c, &q, 's', &s);
		}
		if (r >= 0) { v = s ? s : ""; return r; }
		if (r == mpt::BadType) {
			// long values live in a buffer-backed metatype whose C implementation offers its text as character vector only
			struct iovec vec = { 0, 0 };
			mpt::path q; fill_path(q, p);
			int r2 = mpt::mpt_config_getp(c, &q, MPT_type_toVector('c'), &vec);
			if (r2 >= 0) {
				const char *b = (const char *) vec.iov_base; size_t n = vec.iov_len;
				const char *z = b ? (const char *) memchr(b, 0, n) : 0;
				v = b ? std::string(b, z ? (size_t) (z - b) : n) : std::string();
				{ Unlib u; out.count("query:value-only-available-as-character-vector(not flagged)"); }
				return r2;
			}
		}
		return r;
	}
	int get_exists(mpt::config *c, const PSpec &p)
	{
		mpt::path q; fill_path(q, p);
		return mpt::mpt_config_getp(c, &q, 0, 0);
	}
	void poison(bool on)
	{
		if (job.kind != CXX || !root) return;
		mpt::buffer *top = *(mpt::buffer **) &root->_sub;
		raw_walk(top, [&](mpt::buffer *b) {
			if (b->_size <= b->_used) return;
			char *d = (char *) (b + 1);
			if (on) ASAN_POISON_MEMORY_REGION(d + b->_used, b->_size - b->_used);
			else ASAN_UNPOISON_MEMORY_REGION(d + b->_used, b->_size - b->_used);
		});
	}
	// Re-query every path of the pool and enumerate the store; compare with the reference.
	// opsig = "op|store|pathclass" of the step that was just executed, K = its key, isremove
	void sweep(const std::string &opsig, const Key &K, int opkind, const std::string &desc)
	{
		phase("query");
		asan_error();
		poison(true);
		for (int target = 0; target < (job.kind == VIEW ? 2 : 1) && !bad; ++target) {
			mpt::config *c = iface(target);
			for (size_t i = 0; i < pool.size() && !bad; ++i) {
				const PSpec &p = pool[i];
				if (target && std::find(job.viewq.begin(), job.viewq.end(), (int) i) == job.viewq.end()) continue;
				if (p.huge && !job.huge) continue;
				Key Q = full(target, p);
				std::string got; int r = LIB(get_value(c, p, got));
				int ex = LIB(get_exists(c, p));
				auto it = val.find(Q);
				bool want = it != val.end();
				std::string rel = Q == K ? "same-path" : (is_prefix(K, Q) ? "beneath" : (is_prefix(Q, K) ? "above" : "other-path"));
				std::string what = fmt("%s; then query %s %s via %s", desc.c_str(), p.label.c_str(), key_str(Q).c_str(), store(target));
				out.count(want ? "query:hit-expected" : "query:absence-expected");
				if (want && r < 0) fail(opsig + "|value-lost," + rel, what + fmt(": reports absence (%d), reference holds '%s'", r, abbrev(it->second).c_str()));
				else if (want && got != it->second) fail(opsig + "|wrong-value," + rel, what + ": returns '" + abbrev(got) + "', most recently assigned '" + abbrev(it->second) + "'");
				else if (!want && r >= 0) fail(opsig + (opkind != ASSIGN && is_prefix(K, Q) ? "|not-removed," : "|phantom-value,") + rel, what + ": returns '" + abbrev(got) + "' but nothing is assigned there");
				else if (want && ex < 0) fail(opsig + "|exists-denied," + rel, what + fmt(": existence query reports %d for a path holding a value", ex));
				else if (!want && ex >= 0 && !may.count(Q) && !Q.empty()) fail(opsig + (opkind != ASSIGN && is_prefix(K, Q) ? "|still-exists," : "|phantom-entry,") + rel, what + ": existence query succeeds although the path was never created or has been removed");
				if (g_notes && (want || r >= 0 || ex >= 0) && !bad) out.notes.push_back(fmt("    query %s via %s -> value %s exists %d", p.label.c_str(), store(target), r >= 0 ? ("'" + abbrev(got) + "'").c_str() : "absent", ex));
			}
		}
		if (bad) { poison(false); if (asan_error()) {} return; }
		// enumeration of the whole store (and of the view's sub-tree)
		phase("enumerate");
		std::string shape;
		for (int target = 0; target < (job.kind == VIEW ? 2 : 1) && !bad; ++target) {
			Enum e; mpt::path empty;
			int r;
			e.nodes = job.kind != CXX && !target;
			if (job.kind == CXX) r = LIB(root->query(0, enum_top, &e));
			else r = LIB(mpt::mpt_config_query(iface(target), &empty, enum_top, &e));
			Key pre = target ? base : Key();
			std::map<Key, std::string> seen; bool dup = false;
			for (auto &x : e.valued) { Key k = pre; k.insert(k.end(), x.first.begin(), x.first.end()); if (!seen.insert(std::make_pair(k, x.second)).second) dup = true; }
			std::map<Key, std::string> want;
			for (auto &x : val) if (!target || (is_prefix(base, x.first) && x.first.size() > base.size())) want[x.first] = x.second;
			if (target && r < 0) { if (!want.empty()) fail(opsig + "|enumeration-differs", desc + fmt(": the view cannot be enumerated (%d) although %zu keys lie beneath its base", r, want.size())); }
			else if (dup) fail(opsig + "|enumeration-differs", desc + ": enumeration lists the same path twice with a value: " + e.shape);
			else if (seen != want) {
				std::string d;
				for (auto &x : seen) if (!want.count(x.first)) d += " extra " + key_str(x.first) + "='" + abbrev(x.second) + "'";
				for (auto &x : want) { auto s = seen.find(x.first); if (s == seen.end()) d += " missing " + key_str(x.first); else if (s->second != x.second) d += " differs " + key_str(x.first); }
				fail(opsig + "|enumeration-differs", desc + fmt(": enumeration via %s does not spell the reference map:", store(target)) + d + " ; listing " + e.shape);
			}
			shape += e.shape + "#";
		}
		poison(false);
		if (asan_error() && !bad) fail(opsig + "|asan-in-query", desc + (job.kind == CXX ? ": a query / enumeration after this step reads memory outside the stored items (AddressSanitizer; the slack behind the used part of the item arrays is poisoned while querying)"
		                                                                                  : ": a query / enumeration after this step touches released or foreign memory (AddressSanitizer)"));
		if (job.kind == CXX) shape += raw_shape(*(mpt::buffer **) &root->_sub);
		// canonical state
		std::string c = "M:";
		for (auto &x : val) c += key_str(x.first) + "=" + abbrev(x.second) + ";";
		c += "|S:";
		for (auto &x : may) c += key_str(x) + ";";
		out.canon = c + "|I:" + shape;
	}

	// ---- one step; returns false if a violation was reported
	bool apply(const OpSpec &o, bool check)
	{
		const PSpec &p = pool[o.path];
		mpt::config *c = iface(o.target);
		Key K = full(o.target, p);
		std::string v = o.kind == COPY ? std::string() : vals[o.value];
		const char *vptr = 0;        // COPY: address of the source value inside the store
		const char *opn = o.kind == ASSIGN ? "assign" : (o.kind == REMOVE ? "remove" : (o.kind == COPY ? "copy" : "del"));
		std::string opsig = std::string(opword(o.kind)) + "|" + store(o.target) + "|" + pclass(p);
		if (o.kind == COPY) {
			const PSpec &q = pool[o.value];
			Key QK = full(o.target, q);
			mpt::path qq; LIB((fill_path(qq, q), 0));
			int r = LIB(mpt::mpt_config_getp(c, &qq, 's', &vptr));
			if (r == mpt::BadType) {
				struct iovec vec = { 0, 0 };
				r = LIB(mpt::mpt_config_getp(c, &qq, MPT_type_toVector('c'), &vec));
				vptr = r >= 0 && vec.iov_base && memchr(vec.iov_base, 0, vec.iov_len) ? (const char *) vec.iov_base : 0;
			}
			if (r < 0 || !vptr) {
				// nothing to copy: the step is a no-op (state unchanged, merged by the dedupe)
				out.count("copy:source-absent(no-op)");
				if (g_notes) out.notes.push_back("op copy " + p.label + " <- " + q.label + ": source holds no value, skipped");
				if (check) sweep(opsig, K, ASSIGN, "copy " + p.label + " <- " + q.label + " (source absent, nothing done)");
				return !bad;
			}
			auto it = val.find(QK);
			v = it != val.end() ? it->second : std::string(vptr);
			out.count(QK == K ? "copy:onto-itself" : "copy:from-other-path");
		}
		if (o.kind == UNSET) {
			std::string d = fmt("unset %s %s (assign without value) via %s", p.label.c_str(), key_str(K).c_str(), store(o.target));
			if (K.empty()) { out.count("unset:root(no-op)"); if (check) sweep(opsig, K, REMOVE, d + " (skipped)"); return !bad; }
			out.count(val.count(K) ? (val[K].size() >= 250 ? "unset:long-value" : "unset:short-value") : "unset:valueless-or-absent");
			if (val.count(K)) out.count("nontrivial");
			if (g_notes) out.notes.push_back("op " + d);
			asan_error(); phase("unset");
			mpt::config *ci = c ? c : gcfg;
			int ret = LIB(([&]() { mpt::path q; fill_path(q, p); return ci->assign(&q, 0); })());
			if (g_notes) out.notes.push_back(fmt("  -> %d", ret));
			for (size_t n = 1; n <= K.size(); ++n) may.insert(Key(K.begin(), K.begin() + n));
			if (o.target) { for (size_t n = 1; n <= base.size(); ++n) may.insert(Key(base.begin(), base.begin() + n)); }
			if (ret >= 0) val.erase(K); else out.count("unset:refused(not flagged)");
			if (asan_error()) fail(opsig + "|asan", d + ": memory error inside the operation (AddressSanitizer)");
			if (bad) return false;
			if (check) sweep(opsig, K, REMOVE, d);
			return !bad;
		}
		bool isassign = o.kind == ASSIGN || o.kind == COPY;
		std::string desc = o.kind == COPY ? fmt("copy %s %s <- value pointer obtained by querying %s ('%s') via %s", p.label.c_str(), key_str(K).c_str(), pool[o.value].label.c_str(), abbrev(v).c_str(), store(o.target))
		                 : fmt("%s %s %s%s via %s", opn, p.label.c_str(), key_str(K).c_str(), o.kind == ASSIGN ? (" := '" + abbrev(v) + "'").c_str() : "", store(o.target));
		// classification (vacuity counters)
		bool exists = val.count(K) != 0, below = false, above = false;
		for (auto &x : val) { if (x.first != K && is_prefix(x.first, K) && !x.first.empty()) below = true; if (x.first != K && is_prefix(K, x.first)) above = true; }
		if (isassign) {
			out.count(exists ? "assign:overwrite" : "assign:fresh");
			if (below) out.count("assign:beneath-a-valued-path");
			if (above) out.count("assign:above-valued-paths");
			if (v.size() >= 250) out.count("assign:value>=250 bytes");
		} else {
			out.count(K.empty() ? "remove:everything" : (above ? "remove:inner-with-keys-beneath" : (exists ? "remove:leaf" : (may.count(K) ? "remove:valueless-entry" : "remove:absent"))));
		}
		if (exists || ((below || above) && !K.empty())) out.count("nontrivial");
		if (g_notes) out.notes.push_back("op " + desc);
		asan_error();
		phase(opn);
		int ret;
		if (p.binary) {
			// length-prefixed path: call the configuration interface with the rebuilt path object
			mpt::config *ci = c ? c : gcfg;
			const char *arg = o.kind == COPY ? vptr : v.c_str();
			ret = LIB(([&]() { mpt::path q; fill_path(q, p); if (!isassign) return ci->remove(&q); mpt::value tmp; tmp = arg; return ci->assign(&q, &tmp); })());
		} else if (isassign) {
			const char *arg = o.kind == COPY ? vptr : v.c_str();
			if (job.kind == CXX && !p.assign && !p.null) { bool ok = LIB(root->set(p.text.c_str(), arg, p.sep)); ret = ok ? 0 : -1; }
			else ret = LIB(mpt::mpt_config_set(c, p.null ? 0 : p.text.c_str(), arg, p.sep, p.assign));
		} else if (o.kind == DEL && job.kind == CXX && !p.null) {
			LIB((root->del(p.text.c_str(), p.sep, (int) (p.assign ? p.text.find(p.assign) : p.text.size())), 0)); ret = 0;
		} else {
			if (job.kind == CXX && !p.assign && !p.null) { bool ok = LIB(root->set(p.text.c_str(), 0, p.sep)); ret = ok ? 0 : -1; }
			else ret = LIB(mpt::mpt_config_set(c, p.null ? 0 : p.text.c_str(), 0, p.sep, p.assign));
		}
		if (g_notes) out.notes.push_back(fmt("  -> %d", ret));
		bool asan = asan_error();
		// reference
		bool view_root_remove = false;
		if (isassign) {
			// entries that the implementation may create on the way (existence of value-less entries is not specified)
			for (size_t n = 1; n < K.size(); ++n) may.insert(Key(K.begin(), K.begin() + n));
			if (o.target) { for (size_t n = 1; n <= base.size(); ++n) may.insert(Key(base.begin(), base.begin() + n)); }
			if (ret >= 0) { val[K] = v; out.count("assign:accepted"); }
			else {
				out.count("assign:refused");
				may.insert(K);
				if (K.empty()) out.count("assign:refused(root, not flagged)");
				else if (p.huge) out.count("assign:refused(element > 65534 bytes, not flagged)");
				else fail(opsig + (v.size() >= 250 ? ",long-value" : "") + "|refused", desc + fmt(": a legal assignment is refused (%d)", ret));
			}
		} else {
			view_root_remove = o.target && p.null;
			// removing the view's own (empty relative) path = removing the base path: its value and everything beneath go
			for (auto it = val.begin(); it != val.end();) { if (is_prefix(K, it->first)) it = val.erase(it); else ++it; }
			for (auto it = may.begin(); it != may.end();) { if (is_prefix(K, *it) && !(view_root_remove && *it == K)) it = may.erase(it); else ++it; }
			out.count(ret < 0 ? "remove:returns-error" : "remove:returns-ok");
		}
		if (asan && !bad) fail(opsig + "|asan", desc + ": memory error inside the operation (AddressSanitizer)");
		if (view_root_remove && !bad) {
			// whether the (now value-less) base entry itself survives is not specified
			may.insert(K);
			out.count("remove:view-own-path");
		}
		if (bad) return false;
		if (job.probe && root) probe_copy(opsig, desc);
		if (bad) return false;
		if (check) sweep(opsig, K, isassign ? ASSIGN : o.kind, desc);
		return !bad;
	}
	// A copy of a private C++ configuration (where the class allows copying) is another configuration: whatever is done
	// to the copy, the original keeps answering from its own history.
	template <class T> static typename std::enable_if<std::is_copy_constructible<T>::value, T *>::type dup_of(const T &o) { return new T(o); }
	template <class T> static typename std::enable_if<!std::is_copy_constructible<T>::value, T *>::type dup_of(const T &) { return 0; }
	void probe_copy(const std::string &opsig, const std::string &desc)
	{
		phase("copy-object");
		mpt::config::root *dup = LIB(dup_of(*root));
		if (!dup) { out.count("copy-object:class-not-copyable(no-op)"); return; }
		out.count("copy-object:copied");
		std::set<int> paths; for (auto &o : job.ops) paths.insert(o.path);
		int n = 0;
		for (int pi : paths) { const PSpec &p = pool[pi]; if (p.null || p.binary) continue; if (n++ % 3 == 2) LIB(dup->set(p.text.c_str(), 0, p.sep)); else LIB(dup->set(p.text.c_str(), "!copy!", p.sep)); }
		LIB((delete dup, 0));
		for (int pi : paths) {
			const PSpec &p = pool[pi]; std::string got; int r = LIB(get_value(root, p, got));
			auto it = val.find(p.key);
			bool same = it == val.end() ? r < 0 : (r >= 0 && got == it->second);
			if (!same) { asan_error(); fail("copy-object|cxx|-|original-changed", desc + "; then a copy of the configuration object is made, modified (set/remove of every alphabet path) and destroyed: the ORIGINAL now answers " + (r < 0 ? std::string("absent") : "'" + abbrev(got) + "'") + " for " + p.label + ", its own history says " + (it == val.end() ? std::string("absent") : "'" + abbrev(it->second) + "'")); return; }
		}
		if (asan_error()) fail("copy-object|cxx|-|original-changed", desc + "; copying / modifying / destroying a copy: memory error (AddressSanitizer)");
	}
	// ---- teardown: clear the store, everything must be gone and released
	void teardown(const std::string &opsig, const std::string &desc)
	{
		phase("teardown");
		asan_error();
		if (job.kind == CXX) { LIB((delete root, 0)); root = 0; }
		else {
			LIB(mpt::mpt_config_set(0, 0, 0, '.', 0));
			Enum e; mpt::path empty;
			LIB(mpt::mpt_config_query(0, &empty, enum_top, &e));
			if (!e.shape.empty()) fail(opsig + "|clear-incomplete", desc + ": after clearing the process-wide store the enumeration still lists " + e.shape);
			if (vmt) { LIB((vmt->unref(), 0)); vmt = 0; view = 0; }
		}
		if (asan_error() && !bad) fail(opsig + "|asan-in-teardown", desc + ": memory error while clearing the store after this history (AddressSanitizer)");
		size_t live = ledger_live();
		if (live && !bad) fail(opsig + "|leak", desc + fmt(": after clearing the store %zu block(s) / %zu bytes allocated by the library during this history are still allocated", live, ledger_live_bytes()));
	}
};

// lazy singletons (type tables, default metatype, atexit registration) are created before the ledger is reset
static void warm_up(const Job &job)
{
	Out o;
	{
		Job j = job; j.ops.clear();
		Sys s(j, o);
		mpt::mpt_config_set(s.iface(0), "w.w", "x", '.', 0);
		mpt::mpt_config_set(s.iface(0), "w.l", std::string(300, 'w').c_str(), '.', 0);
		{ std::string lv; PSpec wl; wl.label = wl.text = "w.l"; wl.null = false; wl.sep = '.'; wl.assign = 0; s.get_value(s.iface(0), wl, lv); }
		std::string v; s.get_value(s.iface(0), pool[P("a.b")], v);
		if (s.view) { mpt::mpt_config_set(s.view, "w", "x", '.', 0); s.get_value(s.view, pool[P("a")], v); }
		Enum e; mpt::path empty;
		if (job.kind == CXX) s.root->query(0, enum_top, &e); else mpt::mpt_config_query(0, &empty, enum_top, &e);
		mpt::mpt_config_set(0, 0, 0, '.', 0);
	}
	asan_error();
	ledger_reset();
}
static std::string opname(const Job &job, int op)
{
	const OpSpec &o = job.ops[op]; static std::vector<std::string> vals = values();
	std::string s = (o.kind == ASSIGN ? "assign " : (o.kind == REMOVE ? "remove " : (o.kind == COPY ? "copy " : (o.kind == UNSET ? "unset " : "del ")))) + pool[o.path].label;
	if (o.kind == ASSIGN) s += ":='" + abbrev(vals[o.value]) + "'";
	if (o.kind == COPY) s += "<-get(" + pool[o.value].label + ")";
	if (job.kind == VIEW) s += o.target ? fmt(" (view@%s)", job.base.c_str()) : " (global)";
	return s;
}
static std::string fault_record(const Job &job, int op, const std::string &childres)
{
	const OpSpec &o = job.ops[op]; const PSpec &p = pool[o.path];
	std::string why = childres.substr(1);
	if (why == "EXIT99") why = "ASAN-FATAL"; else if (why.compare(0, 3, "SIG") == 0) { int n = atoi(why.c_str() + 3); why = n == 11 ? "SIGSEGV" : (n == 6 ? "SIGABRT" : (n == 8 ? "SIGFPE" : (n == 7 ? "SIGBUS" : why))); }
	Out out;
	std::string store = job.kind == VIEW ? (o.target ? "view" : "view,via-global") : kindname[job.kind];
	std::string ph = g_phase ? g_phase : "?";
	out.violation(std::string(opword(o.kind)) + "|" + store + "|" + Sys::pclass(p).substr(0, Sys::pclass(p).find(',')) + (p.binary ? ",binary-sep" : "") + "|" + why + (ph == "assign" || ph == "remove" || ph == "del" || ph == "copy" || ph == "unset" ? "" : ",in-" + ph),
	              opname(job, op) + ": the process running this history ended with " + why + " during phase '" + ph + "'");
	return ser(out);
}
// child body: run `hist` (v[0] is unused), oracle after the last step only unless `all`; then tear down
static std::string run_history(const Job &job, const Vec &hist, bool all)
{
	Out out;
	warm_up(job);
	Sys s(job, out);
	bool ok = true;
	if (hist.size() <= 1) s.sweep("init|" + std::string(kindname[job.kind]) + "|-", Key(), REMOVE, "initial state");
	for (size_t i = 1; i < hist.size() && ok; ++i) ok = s.apply(job.ops[hist[i]], all || i + 1 == hist.size());
	if (ok) {
		const OpSpec &o = job.ops[hist.size() > 1 ? hist.back() : 0];
		s.teardown(std::string(hist.size() > 1 ? opword(o.kind) : "init") + "|" + s.store(hist.size() > 1 ? o.target : 0) + "|" + (hist.size() > 1 ? Sys::pclass(pool[o.path]) : "-"),
		           hist.size() > 1 ? "history ending with " + opname(job, (int) hist.back()) : "empty history");
	}
	return ser(out);
}
static std::string hist_str(const Job &job, const Vec &h)
{
	std::string s;
	for (size_t i = 1; i < h.size(); ++i) s += (i > 1 ? " ; " : "") + opname(job, (int) h[i]);
	return s.empty() ? "(empty)" : s;
}
// private C++ root: no process-wide state is involved, histories are replayed on a fresh object inside the worker
// (a fault is attributed by the engine through r.enter / r.hint and the job is resumed behind the faulting history)
static Out step_inproc(Run &r, const Job &job, const Vec &v, std::string &precanon)
{
	Out out;
	warm_up(job);
	Sys s(job, out);
	bool ok = true;
	if (v.size() <= 2) { s.sweep("init|" + std::string(kindname[job.kind]) + "|-", Key(), REMOVE, "initial state"); precanon = out.canon; }
	for (size_t i = 1; i < v.size() && ok; ++i) {
		const OpSpec &o = job.ops[v[i]];
		r.hint((std::string(opword(o.kind)) + "|" + s.store(o.target) + "|" + Sys::pclass(pool[o.path]).substr(0, Sys::pclass(pool[o.path]).find(','))).c_str());
		if (i + 1 == v.size()) out.cnt.clear();      // counters describe the last step only
		ok = s.apply(o, i + 2 >= v.size());
		if (i + 2 == v.size()) precanon = out.canon;
	}
	if (ok && v.size() > 1) {
		const OpSpec &o = job.ops[v.back()];
		s.teardown(std::string(opword(o.kind)) + "|" + s.store(o.target) + "|" + Sys::pclass(pool[o.path]), "history ending with " + opname(job, (int) v.back()));
	}
	out.pre = precanon;
	return out;
}
// process-wide store and views: the step (prefix replay + last operation + oracles + teardown) runs in a forked child, so every
// history starts from pristine static state and a fault or runaway loop costs one child; private C++ root: inside the worker
static Out run_step(Run &r, const Job &job, const Vec &v, std::string &precanon)
{
	if (job.kind == CXX) return step_inproc(r, job, v, precanon);
	phase("replay-prefix");
	std::string res = in_child([&]() { std::string pc; return ser(step_inproc(r, job, v, pc)); }, 4);
	if (!res.empty() && res[0] == '\x01') {
		Out o = v.size() > 1 ? parse(fault_record(job, (int) v.back(), res)) : Out();
		if (v.size() <= 1) o.violation("init|" + std::string(kindname[job.kind]) + "|-|fault", "the empty history faults: " + res.substr(1));
		precanon = "\x01";
		return o;
	}
	Out o = parse(res);
	precanon = o.pre;
	return o;
}
static void explore_inproc(Run &r, const Job &job)
{
	std::unordered_set<Hash128, Hash128H> seen;
	struct Node { Vec h; Hash128 canon; };
	std::deque<Node> frontier;
	uint64_t capped = 0; size_t maxdepth = 0;
	{
		Vec h0(1, 0); std::string pc;
		if (!r.enter(h0, "init")) return;
		Out o = run_step(r, job, h0, pc);
		for (auto &x : o.viols) r.violation_at(x.first, h0, x.second);
		if (!o.viols.empty()) return;
		seen.insert(hash128(o.canon)); ++r.states;
		frontier.push_back(Node{h0, hash128(o.canon)});
	}
	while (!frontier.empty()) {
		Node n = frontier.front(); frontier.pop_front();
		if ((int) n.h.size() - 1 >= job.depth) { ++capped; continue; }
		if (r.expired()) return;
		for (size_t op = 0; op < job.ops.size(); ++op) {
			Vec v = n.h; v.push_back(op);
			if (!r.enter(v, "")) continue;
			std::string pc;
			Out o = run_step(r, job, v, pc);
			++r.transitions; ++r.executions;
			if (pc != "\x01" && !(hash128(pc) == n.canon)) { r.violation_at("ENGINE|nondeterministic-replay", v, "history prefix did not reproduce its canonical state: " + hist_str(job, n.h)); r.incomplete("nondeterministic replay"); return; }
			for (auto &c : o.cnt) r.count(c.first, c.second);
			if (!o.viols.empty()) { for (auto &x : o.viols) r.violation_at(x.first, v, hist_str(job, v) + " :: " + x.second); continue; }
			Hash128 h = hash128(o.canon);
			if (seen.insert(h).second) {
				frontier.push_back(Node{v, h}); ++r.states;
				if (v.size() - 1 > maxdepth) maxdepth = v.size() - 1;
				if (v.size() == 4) r.sample(job.name + ": " + hist_str(job, v));
			}
		}
	}
	r.count("states-left-unexpanded-at-depth-bound", capped);
	r.count(capped ? "jobs-bounded-by-depth" : "jobs-explored-to-closure");
	r.count(fmt("max-history-length(%s)", job.name.c_str()), maxdepth);
}
static void explore_store(Run &r, const Job &job)
{
	r.additive = false;
	r.require("nontrivial"); r.require("assign:overwrite"); r.require("query:hit-expected"); r.require("query:absence-expected");
	r.require("assign:beneath-a-valued-path"); r.require("assign:above-valued-paths"); r.require("assign:value>=250 bytes");
	r.require("copy:onto-itself"); r.require("copy:from-other-path"); r.require("unset:long-value"); r.require("unset:short-value");
	r.require("remove:view-own-path");
	r.require("remove:inner-with-keys-beneath"); r.require("remove:leaf"); r.require("remove:absent"); r.require("remove:everything");
	g_phase = (char *) mmap(0, 4096, PROT_READ | PROT_WRITE, MAP_SHARED | MAP_ANONYMOUS, -1, 0);
	explore_inproc(r, job);
}
static void replay_store(Run &r, const Job &job, const Vec &v)
{
	g_phase = (char *) mmap(0, 4096, PROT_READ | PROT_WRITE, MAP_SHARED | MAP_ANONYMOUS, -1, 0);
	g_notes = true;
	r.enter(v, "replay");
	r.note("job %s history: %s", job.name.c_str(), hist_str(job, v).c_str());
	std::string res = in_child([&]() { return run_history(job, v, true); }, 120);
	if (!res.empty() && res[0] == '\x01') res = v.size() > 1 ? fault_record(job, (int) v.back(), res) : "V\tinit|" + std::string(kindname[job.kind]) + "|-|fault\tempty history faults\n";
	Out o = parse(res);
	for (auto &n : o.notes) r.note("%s", n.c_str());
	r.note("canon %s", o.canon.c_str());
	for (auto &x : o.viols) r.violation(x.first, hist_str(job, v) + " :: " + x.second);
}

// ================================================================== Part 2: path walking
struct WMode { char sep, assign; const char *name; bool binary; };
// the fifth mode is the length-prefixed element format (flag SepBinary): no separator character, paths exist only rebuilt
static const WMode wmodes[] = { { '.', 0, "sep=.,end=NUL", false }, { '.', '=', "sep=.,end==", false }, { '/', 0, "sep=/,end=NUL", false }, { '/', '=', "sep=/,end==", false },
                                { '.', 0, "length-prefixed", true } };
static const int NWMODES = 5;

struct PathBox {      // a path struct without constructor / destructor side effects
	alignas(mpt::path) char raw[sizeof(mpt::path)];
	mpt::path *p() { return (mpt::path *) raw; }
	PathBox(char sep, char assign, bool binary = false) { memset(raw, 0, sizeof raw); p()->sep = sep; p()->assign = assign; if (binary) p()->flags = mpt::path::SepBinary; }
	PathBox(const mpt::path &o) { memcpy(raw, &o, sizeof raw); }
};
// walk a copy of the path with mpt_path_next; returns the visited components, "\x01..." on protocol errors
static bool walk(const mpt::path &src, Key &got, std::string &err)
{
	PathBox b(src); mpt::path *p = b.p();
	got.clear();
	for (int guard = 0; guard < 1000; ++guard) {
		size_t off = p->off, len = p->len;
		int n = LIB(mpt::mpt_path_next(p));
		if (n < 0) { if (p->len) { err = fmt("mpt_path_next fails (%d) with %zu bytes left", n, p->len); return false; } return true; }
		if ((size_t) n + 1 > len) { err = fmt("element length %d exceeds the remaining path length %zu", n, len); return false; }
		if (p->off + p->len != off + len || p->off < off) { err = "offset/length not advanced consistently"; return false; }
		got.push_back(std::string(p->base + off, n));
		if (asan_peek()) { err = "memory error while reading the element"; return false; }
	}
	err = "mpt_path_next does not terminate";
	return false;
}
static std::string comps_str(const Key &k) { std::string s = "("; for (size_t i = 0; i < k.size(); ++i) s += (i ? "|" : "") + ("'" + abbrev(k[i]) + "'"); return s + ")"; }
static const char *wclass(const Key &comps, const std::string &s, char assign)
{
	bool term = assign && s.find(assign) != std::string::npos;
	if (assign && !term) return "end-char-missing";
	bool empty = false; for (auto &c : comps) { if (c.empty()) empty = true; if (c.size() > 255) return "element>255"; }
	if (comps.size() == 1) return empty ? "single-empty" : "single";
	return empty ? "multi,empty-elem" : "multi";
}

struct WCount { uint64_t nontrivial, strings; };
// rebuild `comps` with addchar/valid/add on a fresh path; check after every add; then delete again.  Returns false after a violation.
// cxxapi: use the C++ wrappers path::add / path::del instead of the C functions.
// tail > 0: after the build consume `tail` elements with mpt_path_next, delete the last element and add a new one (walk, then rebuild the tail)
// shared: while the characters of an element are pending, a copy of the path object (shares the buffer) adds a shorter element first
static bool rebuild(Run &r, const WMode &m, const Key &comps, const std::string &sigcls, const std::string &what0, bool cxxapi = false, size_t tail = 0, bool shared = false)
{
	PathBox b(m.sep, m.assign, m.binary); mpt::path *p = b.p();
	bool ok = true; std::string err; Key got;
	const char *ADD = cxxapi ? "path::add" : "mpt_path_add", *DEL = cxxapi ? "path::del" : "mpt_path_del";
	std::string what = what0 + (cxxapi ? " [C++ wrappers]" : "");
	auto fail = [&](const char *op, const char *kind, const std::string &d) { r.violation(std::string(op) + "|" + sigcls + "|" + kind, what + ": " + d); ok = false; };
	auto do_del = [&]() { return cxxapi ? LIB(p->del()) : LIB(mpt::mpt_path_del(p)); };
	auto add_elem = [&](const std::string &c, const Key &expect) {
		r.hint(ADD);
		// protocol of the parser: every character that is to be kept is confirmed with mpt_path_valid (sets KeepPost)
		int valid = 0;
		for (char ch : c) { if (LIB(mpt::mpt_path_addchar(p, (unsigned char) ch)) < 0) { fail(ADD, "refused", "mpt_path_addchar refused"); return; } valid = LIB(mpt::mpt_path_valid(p)); ++r.transitions; }
		if (c.empty()) valid = LIB(mpt::mpt_path_valid(p));
		if (valid != (int) c.size()) { fail(ADD, "wrong-components", fmt("mpt_path_valid reports %d pending bytes after adding %zu characters", valid, c.size())); return; }
		if (shared && valid > 0) {
			// the copy takes one byte less; this must not disturb the pending data / end character of the original
			mpt::path *cp = LIB(new mpt::path(*p));
			int rc = LIB(mpt::mpt_path_add(cp, valid - 1)); ++r.transitions;
			Key ce(expect.begin(), expect.end() - 1); ce.push_back(c.substr(0, c.size() - 1));
			Key cg; std::string cerr;
			if (rc >= 0 && (!walk(*cp, cg, cerr) || cg != ce)) fail("mpt_path_add,shared-buffer", "wrong-components", "copy of the path after adding '" + abbrev(ce.back()) + "' walks as " + comps_str(cg) + ", expected " + comps_str(ce));
			int ret2 = ok ? LIB(mpt::mpt_path_add(p, valid)) : -1; ++r.transitions;
			Key og;
			if (ok && ret2 < 0) fail("mpt_path_add,shared-buffer", "refused", fmt("adding to the original refused (%d) after its copy added an element", ret2));
			else if (ok && (!walk(*p, og, cerr) || og != expect)) fail("mpt_path_add,shared-buffer", "wrong-components", "a copy of the path object added '" + abbrev(ce.back()) + "' first; the original then adds '" + abbrev(c) + "' and walks as " + comps_str(og) + ", expected " + comps_str(expect));
			else if (ok && rc >= 0 && (!walk(*cp, cg, cerr) || cg != ce)) fail("mpt_path_add,shared-buffer", "wrong-components", "after the original added its element the copy walks as " + comps_str(cg) + ", expected " + comps_str(ce));
			LIB((delete cp, 0));
			return;
		}
		int ret = cxxapi ? LIB(p->add(valid)) : LIB(mpt::mpt_path_add(p, valid)); ++r.transitions;
		if (ret < 0) { fail(ADD, "refused", fmt("adding element '%s' (%d pending bytes) refused (%d)", abbrev(c).c_str(), valid, ret)); return; }
		if (!walk(*p, got, err)) fail(ADD, "wrong-components", "walking the rebuilt path: " + err);
		else if (got != expect) fail(ADD, "wrong-components", "after adding '" + abbrev(c) + "' the path walks as " + comps_str(got) + ", expected " + comps_str(expect));
	};
	Key sofar;
	for (size_t i = 0; i < comps.size() && ok; ++i) { sofar.push_back(comps[i]); add_elem(comps[i], sofar); }
	if (shared) {
		if (ok && asan_error()) fail("mpt_path_add,shared-buffer", "asan", "memory error");
		LIB((mpt::mpt_path_fini(p), 0));
		if (ok && ledger_live()) fail("mpt_path_add,shared-buffer", "leak", fmt("%zu block(s) still allocated after all path objects are gone", ledger_live()));
		return ok;
	}
	if (ok && tail) {
		// walk `tail` elements, then rebuild the end of the remaining path: delete its last element and add another one
		for (size_t i = 0; i < tail; ++i) LIB(mpt::mpt_path_next(p));
		r.hint(DEL);
		bool consumed = tail >= comps.size();      // nothing left to delete: continue building behind the consumed part
		int n = consumed ? (int) comps.back().size() : do_del(); ++r.transitions;
		Key expect; if (!consumed) expect.assign(comps.begin() + tail, comps.end() - 1);
		std::string dop = std::string(DEL) + ",after-next";
		if (n != (int) comps.back().size()) fail(dop.c_str(), "wrong-components", fmt("after %zu x next: del returns %d, last element has %zu bytes", tail, n, comps.back().size()));
		else if (!walk(*p, got, err) || got != expect) fail(dop.c_str(), "wrong-components", fmt("after %zu x next and del the path walks as %s, expected %s", tail, comps_str(got).c_str(), comps_str(expect).c_str()));
		else if (LIB(mpt::mpt_path_valid(p)) < 0) fail(dop.c_str(), "wrong-components", fmt("after %zu x next and del the path no longer lies inside its buffer (mpt_path_valid fails)", tail));
		else {
			expect.push_back("dd");
			std::string w0 = what; what += fmt(" after %zu x next + del", tail);
			std::string a = std::string(ADD) + ",after-next"; const char *keep = ADD; ADD = a.c_str();
			add_elem("dd", expect);
			ADD = keep; what = w0;
		}
		if (ok && asan_error()) fail(dop.c_str(), "asan", "memory error");
		LIB((mpt::mpt_path_fini(p), 0));
		return ok;
	}
	// last element of the rebuilt (buffer backed) path, also after consuming k elements (a failure here does not stop the del checks)
	bool lastok = true;
	for (size_t k = 0; k < comps.size() && ok && lastok; ++k) {
		PathBox c(*p); mpt::path *q = c.p();
		for (size_t i = 0; i < k; ++i) LIB(mpt::mpt_path_next(q));
		r.hint("mpt_path_last");
		int l = LIB(mpt::mpt_path_last(q)); ++r.transitions;
		const char *lop = k ? "mpt_path_last,after-next" : "mpt_path_last";
		if (l != (int) comps.back().size()) fail(lop, "wrong-components", fmt("rebuilt path, after %zu x next: returns %d, last element %s", k, l, comps_str(Key(1, comps.back())).c_str()));
		else if (!walk(*q, got, err) || got != Key(1, comps.back())) fail(lop, "wrong-components", fmt("rebuilt path, after %zu x next: reduced path walks as %s (%s), last element is '%s'", k, comps_str(got).c_str(), err.c_str(), abbrev(comps.back()).c_str()));
		if (!ok) { lastok = false; ok = true; asan_error(); }
	}
	// add o del = id on the complete path
	if (ok) {
		r.hint(DEL);
		int n = do_del(); ++r.transitions;
		if (n != (int) comps.back().size()) fail(DEL, "wrong-components", fmt("rebuilt path: del returns %d, last element has %zu bytes", n, comps.back().size()));
		else {
			Key expect(comps.begin(), comps.end() - 1);
			if (!walk(*p, got, err)) fail(DEL, "wrong-components", "walking after del: " + err);
			else if (got != expect) fail(DEL, "wrong-components", "rebuilt path after del walks as " + comps_str(got) + ", expected " + comps_str(expect));
			else { sofar = expect; sofar.push_back(comps.back()); add_elem(comps.back(), sofar); }
		}
	}
	// delete everything again
	for (size_t i = comps.size(); i-- > 0 && ok;) {
		r.hint(DEL);
		int n = do_del(); ++r.transitions;
		Key expect(comps.begin(), comps.begin() + i);
		if (n != (int) comps[i].size()) fail(DEL, "wrong-components", fmt("del returns %d, removed element has %zu bytes", n, comps[i].size()));
		else if (!walk(*p, got, err)) fail(DEL, "wrong-components", "walking after del: " + err);
		else if (got != expect) fail(DEL, "wrong-components", "after del the path walks as " + comps_str(got) + ", expected " + comps_str(expect));
	}
	if (ok && asan_error()) fail(ADD, "asan", "memory error while rebuilding");
	LIB((mpt::mpt_path_fini(p), 0));
	if (ok && ledger_live()) fail(ADD, "leak", fmt("%zu block(s) still allocated after mpt_path_fini", ledger_live()));
	return ok && lastok;
}
static void walk_case(Run &r, WCount &wc, const WMode &m, const std::string &s)
{
	Key comps = ref_split(s, m.sep, m.assign);
	std::string cls = (m.binary ? "length-prefixed," : "") + std::string(wclass(comps, s, m.assign));
	std::string what = fmt("string \"%s\" (%s)", abbrev(s).c_str(), m.name);
	std::string err; Key got;
	++wc.strings; ++r.states;
	if (comps.size() >= 2) ++wc.nontrivial;
	r.count(std::string("walk:") + cls);
	r.note("%s components %s", what.c_str(), comps_str(comps).c_str());
	size_t partlen = m.assign && s.find(m.assign) != std::string::npos ? s.find(m.assign) : s.size();
	auto fail = [&](const char *op, const char *kind, const std::string &d) { r.violation(std::string(op) + "|" + cls + "|" + kind, what + ": " + d); };
	ledger_reset(); asan_error();
	// exactly sized NUL-terminated copy
	char *z = (char *) malloc(s.size() + 1); memcpy(z, s.c_str(), s.size() + 1);
	// --- set + next* (text formats only: a length-prefixed path has no string form)
	if (!m.binary) {
		PathBox b(m.sep, m.assign); mpt::path *p = b.p();
		r.hint("mpt_path_set");
		int n = LIB(mpt::mpt_path_set(p, z, -1)); ++r.transitions;
		if (asan_error()) { fail("mpt_path_set", "asan", "memory error"); goto out; }
		r.hint("mpt_path_next");
		if (!walk(*p, got, err)) { fail("mpt_path_next", "wrong-components", err); goto out; }
		r.transitions += got.size() + 1;
		if (got != comps) { fail("mpt_path_next", "wrong-components", "walks as " + comps_str(got) + ", separator-delimited components are " + comps_str(comps)); goto out; }
		if (asan_error()) { fail("mpt_path_next", "asan", "memory error while walking"); goto out; }
		if (n != (int) comps.size()) { fail("mpt_path_set", "wrong-count", fmt("returns %d elements, walking visits %zu", n, comps.size())); goto out; }
		if (p->len != partlen + 1) { fail("mpt_path_set", "wrong-components", fmt("path length %zu, expected %zu (elements + end character)", p->len, partlen + 1)); goto out; }
		// --- next^k + last
		for (size_t k = 0; k < comps.size(); ++k) {
			PathBox c(*p); mpt::path *q = c.p();
			for (size_t i = 0; i < k; ++i) LIB(mpt::mpt_path_next(q));
			r.hint("mpt_path_last");
			int l = LIB(mpt::mpt_path_last(q)); ++r.transitions;
			const char *lop = k ? "mpt_path_last,after-next" : "mpt_path_last";
			if (l != (int) comps.back().size()) { fail(lop, "wrong-components", fmt("after %zu x next: returns %d, last element %s", k, l, comps_str(Key(1, comps.back())).c_str())); goto out; }
			if (!walk(*q, got, err) || got != Key(1, comps.back())) { fail(lop, "wrong-components", fmt("after %zu x next: reduced path walks as %s, last element is '%s'", k, comps_str(got).c_str(), abbrev(comps.back()).c_str())); goto out; }
		}
		if (asan_error()) { fail("mpt_path_last", "asan", "memory error"); goto out; }
		// --- del on the plain string path
		{
			PathBox c(*p); mpt::path *q = c.p();
			for (size_t i = comps.size(); i-- > 0;) {
				r.hint("mpt_path_del");
				int l = LIB(mpt::mpt_path_del(q)); ++r.transitions;
				Key expect(comps.begin(), comps.begin() + i);
				if (l != (int) comps[i].size()) { fail("mpt_path_del", "wrong-components", fmt("returns %d, removed element has %zu bytes", l, comps[i].size())); goto out; }
				if (!walk(*q, got, err) || got != expect) { fail("mpt_path_del", "wrong-components", "after del the path walks as " + comps_str(got) + ", expected " + comps_str(expect)); goto out; }
			}
			if (LIB(mpt::mpt_path_del(q)) >= 0) { fail("mpt_path_del", "wrong-components", "del on an empty path succeeds"); goto out; }
			if (asan_error()) { fail("mpt_path_del", "asan", "memory error"); goto out; }
		}
	}
	// --- explicit length on an exactly sized buffer without terminator
	if (!m.binary) {
		char *e = (char *) malloc(s.size() ? s.size() : 1); memcpy(e, s.data(), s.size());
		PathBox b(m.sep, m.assign); mpt::path *p = b.p();
		r.hint("mpt_path_set");
		int cnt = LIB(mpt::mpt_path_set(p, e, (int) s.size())); ++r.transitions;
		bool good = walk(*p, got, err);
		bool as = asan_error();
		// with an explicit length and no end character inside, NUL is an ordinary character
		Key want = ref_split(s, m.sep, m.assign ? m.assign : '\x7f');
		free(e);
		if (as) { fail("mpt_path_set", "asan", "explicit length: memory outside the given bytes is read"); goto out; }
		if (!good) { fail("mpt_path_next", "wrong-components", "explicit length: " + err); goto out; }
		if (got != want) { fail("mpt_path_next", "wrong-components", "explicit length: walks as " + comps_str(got) + ", expected " + comps_str(want)); goto out; }
		if (cnt != (int) want.size()) { fail("mpt_path_set,explicit-length", "wrong-count", fmt("explicit length %zu: returns %d elements, walking visits %zu", s.size(), cnt, want.size())); goto out; }
	}
	// --- rebuild (an empty first element has no pending characters, hence no buffer to turn into an element)
	{
		bool toolong = false; for (auto &c : comps) if (c.size() > 255) toolong = true;
		if (comps[0].empty()) r.count("rebuild:skipped(empty first element)");
		else if (m.binary && toolong) r.count("rebuild:skipped(length-prefixed element > 255 bytes)");
		else {
			// the three variants are independent: a finding in one does not hide the others
			rebuild(r, m, comps, cls, what);
			ledger_reset(); asan_error();
			rebuild(r, m, comps, cls, what, true);
			ledger_reset(); asan_error();
			rebuild(r, m, comps, cls, what, false, 0, true); r.count("rebuild:shared-copy");
			// walk k elements, then rebuild the tail: delete the last element (k < n) and add another one, also when nothing is left
			for (size_t k = 1; k <= comps.size(); ++k) { ledger_reset(); asan_error(); rebuild(r, m, comps, cls, what, false, k); r.count("rebuild:tail-after-next"); }
			r.count(m.binary ? "rebuild:length-prefixed" : "rebuild:text");
		}
	}
out:
	free(z);
}
static const size_t long_lens[] = { 253, 254, 255, 256, 257, 258, 300, 511, 512, 513 };
static void walk_body(Run &r, WCount &wc, const std::string &job, Ctx &x, size_t maxlen)
{
	const WMode &m = wmodes[x.choose(NWMODES)];
	if (job == "walk:long") {
		// one long element in first / middle / last position (length-prefixed: around the sign bit and the 8-bit limit)
		static const size_t bin_lens[] = { 126, 127, 128, 129, 200, 253, 254, 255, 256, 300 };
		size_t li = x.choose(sizeof long_lens / sizeof *long_lens);
		size_t n = m.binary ? bin_lens[li] : long_lens[li];
		int pos = (int) x.choose(4);
		std::string L(n, 'a'), sp(1, m.sep);
		std::string s = pos == 0 ? L : (pos == 1 ? L + sp + "a" : (pos == 2 ? "a" + sp + L : "a" + sp + L + sp + "a"));
		if (m.assign) s += std::string(1, m.assign) + "a";
		walk_case(r, wc, m, s);
		return;
	}
	std::string s;
	for (size_t i = 0; i < maxlen; ++i) {
		uint64_t c = x.choose(4);
		if (!c) break;
		s += c == 1 ? 'a' : (c == 2 ? m.sep : '=');
	}
	// '=' is an ordinary character when the end character is NUL
	walk_case(r, wc, m, s);
	if (wc.strings < 4 && s.size() >= 4) r.sample(fmt("walk \"%s\" (%s): set+next*, last after k x next, del*, explicit length, rebuild with addchar/add, add o del", s.c_str(), m.name));
}

// ================================================================== engine interface
void mc_jobs(Tier t, std::vector<std::string> &jobs)
{
	for (auto &j : make_jobs(t)) jobs.push_back(j.name);
	jobs.push_back("walk:strings");
	jobs.push_back("walk:long");
}
static const Job *find_job(const std::vector<Job> &jobs, const std::string &name) { for (auto &j : jobs) if (j.name == name) return &j; return 0; }
void mc_explore(Run &r, const std::string &job)
{
	if (job.compare(0, 5, "walk:") == 0) {
		WCount wc = { 0, 0 };
		r.require("nontrivial"); r.require("walk:multi,empty-elem"); r.require("walk:end-char-missing");
		r.require("rebuild:text"); r.require("rebuild:length-prefixed"); r.require("rebuild:tail-after-next"); r.require("rebuild:shared-copy"); r.require("walk:length-prefixed,multi");
		dfs(r, [&](Ctx &x) { walk_body(r, wc, job, x, 6); });
		r.count("nontrivial", wc.nontrivial); r.count("walk:strings", wc.strings);
		return;
	}
	std::vector<Job> jobs = make_jobs(r.tier);
	const Job *j = find_job(jobs, job);
	if (!j) { r.incomplete("unknown job"); return; }
	explore_store(r, *j);
}
void mc_replay(Run &r, const std::string &job, const Vec &v)
{
	if (job.compare(0, 5, "walk:") == 0) {
		WCount wc = { 0, 0 };
		dfs_replay(r, [&](Ctx &x) { walk_body(r, wc, job, x, 6); }, v);
		return;
	}
	std::vector<Job> jobs = make_jobs(r.tier);
	const Job *j = find_job(jobs, job);
	if (!j) return;
	replay_store(r, *j, v);
}

// C20 — layout object properties round-trip and do not interfere.
//
// Ten targets: the five layout kinds (axis, line, text, graph, world) as plain C structs driven through
// mpt_<kind>_set/get (behind a three-line object adapter so that the library's own string / value
// convertables deliver the input) and as the C++ layout classes driven through object::property /
// object::set_property.  The property list of every kind is DISCOVERED by positional get.
//
// BFS over operation histories (set / reset / reset-all / copy-from-sibling / auto-select) with dedupe on the
// canonical object state; every transition is executed on the real code and judged by
//   * frame condition on a snapshot of ALL listed properties before/after,
//   * read-back == independent conversion of the input (where the conversion is defined and exact),
//   * read-back independent of the previous state (same set on a freshly initialised object),
//   * refusal => object (properties + hidden fields) unchanged,
//   * reset => property equals that of a freshly initialised object,
//   * copy => all properties equal the sibling's, still readable after the sibling is destroyed (ASan),
// and every NEW state is probed: copy-out + destroy the copy, clone, property-wise object assignment,
// get-by-name (full names, unique prefixes), print -> parse round trip of colour / attribute values.
//
// Jobs "<kind>[++]/d2/s/n": all histories of length 2 over the full alphabet; "<kind>[++]/b3|b4/s/n": length 3 / 4
// where the prefix uses the builder sub-alphabet and the last op the full alphabet (slice s of n of the last level).
// Job "property_match": exhaustive sweep of mpt_property_match over small synthetic name tables.
// The result of every op on a fresh object (reference for the independence oracle, discovery of attribute-text
// properties) is computed in a forked child, so an op that kills the process is reported once and then excluded.
#include <sstream>
#include <cmath>
#include <cerrno>
#include <cctype>
#include <cfloat>
#include <climits>
#include <strings.h>
#include <unistd.h>
#include <signal.h>
#include <sys/wait.h>
#include <sys/time.h>
#include "layout.h"
#include "convert.h"
#include "types.h"
#include "meta.h"
#include "mc.hpp"

using namespace mc;
const char *mc_id = "C20";
const char *mc_rule = "history BFS per (layout kind x {C struct, C++ class}): all sequences of set(discovered property/alias/prefix, value alphabet as text and typed values) / reset / reset-all / "
                      "copy-from-sibling / auto-select of length 2, and of length 3 (quick) / 4 (thorough) with a builder-op prefix and every op last, states deduplicated on the canonical object content; "
                      "plus all mpt_property_match calls over small name tables; "
                      "nontrivial = distinct (state, op) transitions whose pre-state differs from a freshly initialised object (match job: tables with >= 2 names)";

// ------------------------------------------------------------------ targets
enum Kind { AXIS, LINE, TEXT, GRAPH, WORLD, NKIND };
static const char *kname[] = { "axis", "line", "text", "graph", "world" };

struct Inst;
struct CObj : mpt::object {       // object adapter over a plain C struct
	int kind; void *s;
	CObj(int k, void *p) : kind(k), s(p) {}
	int property(mpt::property *pr) const override
	{
		switch (kind) {
		case AXIS: return mpt::mpt_axis_get((const mpt::axis *) s, pr);
		case LINE: return mpt::mpt_line_get((const mpt::line *) s, pr);
		case TEXT: return mpt::mpt_text_get((const mpt::text *) s, pr);
		case GRAPH: return mpt::mpt_graph_get((const mpt::graph *) s, pr);
		default: return mpt::mpt_world_get((const mpt::world *) s, pr);
		}
	}
	int set_property(const char *name, mpt::convertable *src) override
	{
		switch (kind) {
		case AXIS: return mpt::mpt_axis_set((mpt::axis *) s, name, src);
		case LINE: return mpt::mpt_line_set((mpt::line *) s, name, src);
		case TEXT: return mpt::mpt_text_set((mpt::text *) s, name, src);
		case GRAPH: return mpt::mpt_graph_set((mpt::graph *) s, name, src);
		default: return mpt::mpt_world_set((mpt::world *) s, name, src);
		}
	}
};
static int kind_typeid(int kind)
{
	switch (kind) {
	case AXIS: return mpt::mpt_axis_pointer_typeid();
	case LINE: return mpt::mpt_line_typeid();
	case TEXT: return mpt::mpt_text_pointer_typeid();
	case GRAPH: return mpt::mpt_graph_pointer_typeid();
	default: return mpt::mpt_world_pointer_typeid();
	}
}
// C level sibling: converts to the kind's own pointer (line: struct) type and to nothing else
struct SibConv : mpt::convertable {
	int kind; const void *s;
	SibConv(int k, const void *p) : kind(k), s(p) {}
	int convert(mpt::type_t t, void *ptr) override
	{
		int id = kind_typeid(kind);
		if (!t) { static const uint8_t fmt[] = { 0 }; if (ptr) *(const uint8_t **) ptr = fmt; return id; }
		if (id > 0 && t == (mpt::type_t) id) {
			if (ptr) { if (kind == LINE) memcpy(ptr, s, sizeof(mpt::line)); else *(const void **) ptr = s; }
			return id;
		}
		return mpt::BadType;
	}
};
static size_t kind_size(int kind)
{
	switch (kind) {
	case AXIS: return sizeof(mpt::axis); case LINE: return sizeof(mpt::line); case TEXT: return sizeof(mpt::text);
	case GRAPH: return sizeof(mpt::graph); default: return sizeof(mpt::world);
	}
}
struct Inst {
	int kind; bool cxx;
	void *raw;             // the ::mpt::<kind> data
	mpt::object *obj;      // property interface
	mpt::metatype *meta;   // C++ only: owner
	CObj *ad;              // C only
	SibConv *sc;           // C only
	mpt::convertable *conv() { return cxx ? (mpt::convertable *) meta : (mpt::convertable *) sc; }
};
static Inst make(int kind, bool cxx)
{
	Lib l;
	Inst x; x.kind = kind; x.cxx = cxx; x.meta = 0; x.ad = 0; x.sc = 0;
	if (!cxx) {
		x.raw = malloc(kind_size(kind));     // exactly sized: ASan redzone directly behind the struct
		switch (kind) {
		case AXIS: mpt::mpt_axis_init((mpt::axis *) x.raw, 0); break;
		case LINE: mpt::mpt_line_init((mpt::line *) x.raw); break;
		case TEXT: mpt::mpt_text_init((mpt::text *) x.raw, 0); break;
		case GRAPH: mpt::mpt_graph_init((mpt::graph *) x.raw, 0); break;
		default: mpt::mpt_world_init((mpt::world *) x.raw, 0); break;
		}
		x.ad = new CObj(kind, x.raw); x.obj = x.ad;
		x.sc = new SibConv(kind, x.raw);
		return x;
	}
	switch (kind) {
	case AXIS: { auto *o = new mpt::layout::graph::axis; x.raw = static_cast<mpt::axis *>(o); x.obj = o; x.meta = o; break; }
	case LINE: { auto *o = new mpt::layout::line; x.raw = static_cast<mpt::line *>(o); x.obj = o; x.meta = o; break; }
	case TEXT: { auto *o = new mpt::layout::text; x.raw = static_cast<mpt::text *>(o); x.obj = o; x.meta = o; break; }
	case GRAPH: { auto *o = new mpt::layout::graph; x.raw = static_cast<mpt::graph *>(o); x.obj = o; x.meta = o; break; }
	default: { auto *o = new mpt::layout::graph::world; x.raw = static_cast<mpt::world *>(o); x.obj = o; x.meta = o; break; }
	}
	return x;
}
static void destroy(Inst &x)
{
	Lib l;
	if (x.cxx) { x.meta->unref(); x.meta = 0; x.obj = 0; x.raw = 0; return; }
	switch (x.kind) {
	case AXIS: mpt::mpt_axis_fini((mpt::axis *) x.raw); break;
	case LINE: break;
	case TEXT: mpt::mpt_text_fini((mpt::text *) x.raw); break;
	case GRAPH: mpt::mpt_graph_fini((mpt::graph *) x.raw); break;
	default: mpt::mpt_world_fini((mpt::world *) x.raw); break;
	}
	delete x.ad; delete x.sc; free(x.raw); x.raw = 0; x.obj = 0;
}

// ------------------------------------------------------------------ rendering of property values
static std::string qstr(const char *s)
{
	if (!s) return "\"\"";            // unset and empty text are the same value
	size_t n = strlen(s);
	if (n > 40) return fmt("\"%.8s...\"(len=%zu,fnv=%llx)", s, n, (unsigned long long) fnv(s, n));
	return std::string("\"") + s + "\"";
}
static std::string render(uintptr_t type, const void *addr)
{
	if (!addr) return "?:noaddr";
	if (type == 's') return "s:" + qstr(*(const char * const *) addr);
	if (type == 'c') return fmt("c:%d", (int) *(const char *) addr);
	if (type == 'y') return fmt("y:%u", (unsigned) *(const uint8_t *) addr);
	if (type == 'b') return fmt("b:%d", (int) *(const int8_t *) addr);
	if (type == 'n') return fmt("n:%d", (int) *(const int16_t *) addr);
	if (type == 'q') return fmt("q:%u", (unsigned) *(const uint16_t *) addr);
	if (type == 'i') return fmt("i:%d", (int) *(const int32_t *) addr);
	if (type == 'u') return fmt("u:%u", (unsigned) *(const uint32_t *) addr);
	if (type == 'f') return fmt("f:%a", (double) *(const float *) addr);
	if (type == 'd') return fmt("d:%a", *(const double *) addr);
	int id;
	if ((id = mpt::mpt_color_typeid()) > 0 && type == (uintptr_t) id) { const mpt::color *c = (const mpt::color *) addr; return fmt("colour:a=%02x,r=%02x,g=%02x,b=%02x", c->alpha, c->red, c->green, c->blue); }
	if ((id = mpt::mpt_fpoint_typeid()) > 0 && type == (uintptr_t) id) { const float *p = (const float *) addr; return fmt("fpoint:%a,%a", (double) p[0], (double) p[1]); }
	if ((id = mpt::mpt_lattr_typeid()) > 0 && type == (uintptr_t) id) { const uint8_t *p = (const uint8_t *) addr; return fmt("lattr:%u,%u,%u,%u", p[0], p[1], p[2], p[3]); }
	return "?:unknown-type";
}
static std::string tyclass(const std::string &rendered) { return rendered.substr(0, rendered.find(':')); }

struct Snap { std::vector<std::string> v; };   // one rendering per listed property ("ERR:<code>" when the get fails)
static bool operator==(const Snap &a, const Snap &b) { return a.v == b.v; }

// ------------------------------------------------------------------ value alphabet
enum VCls { V_EMPTY, V_NUM, V_NUMX, V_FRAC, V_TEXT, V_LONG, V_COLOUR, V_POINT, V_TINT, V_TFLT, V_TCHR, V_TCOL, V_TPT, V_TLAT, V_TSTR, V_NOTEXT, V_OWNTAIL, NVCLS };
// signature argument class: coarse (how the value is delivered), the detail line carries the value itself
static const char *vclsname[] = { "empty-text", "text", "text", "text", "text", "text", "text", "text", "typed", "typed", "typed", "typed", "typed", "typed", "typed", "no-text", "own-text" };
struct Val { int cls; const char *txt; char ty; const void *ptr; };   // txt != 0: string delivery ; else typed value
// ty '0': the string interface with no text at all (NULL), what mpt_object_set_property() passes for an empty node value
// ty 'T': (const char *) pointing one character into the property's own current string (string properties only)
static std::string X300(300, 'x');
static const int32_t i0 = 0, i5 = 5, im1 = -1, i255 = 255, i256 = 256, i70000 = 70000, i120 = 120;
static const uint8_t y7 = 7; static const uint32_t u100000 = 100000; static const int64_t x5 = 5;
static const double d05 = 0.5, d1e40 = 1e40, dm25 = -2.5, d3 = 3.0; static const float f025 = 0.25f;
static const char cx = 'x';
static const mpt::color tcol(0x22, 0x33, 0x44, 0x11);
static const mpt::color tblack(0, 0, 0, 0xff), tblack_fe(0, 0, 0, 0xfe), tclear(0, 0, 0, 0), tclear_01(0, 0, 0, 1);   // opaque / transparent black and alpha neighbours
static const mpt::fpoint tpt(0.25f, 0.75f), tpt2(2.0f, 3.0f);
static const mpt::lineattr tlat(2, 3, 4, 5);
static const char *tstr = "typed", *tstrnum = "9";
static std::vector<Val> vals, vals_small;
static void build_vals()
{
	if (!vals.empty()) return;
	auto S = [](int c, const char *t) { vals.push_back(Val{c, t, 0, 0}); };
	auto T = [](int c, char ty, const void *p) { vals.push_back(Val{c, 0, ty, p}); };
	S(V_EMPTY, ""); S(V_EMPTY, " "); S(V_EMPTY, "\t "); S(V_NUM, "0"); S(V_NUM, "1"); S(V_NUM, "-1"); S(V_NUM, "5"); S(V_NUM, "9"); S(V_NUM, "20"); S(V_NUM, "255"); S(V_NUMX, "256");
	S(V_NUMX, "32767"); S(V_NUMX, "32768"); S(V_NUMX, "65536"); S(V_NUMX, "4294967295"); S(V_NUMX, "4294967296");
	S(V_FRAC, "0.5"); S(V_FRAC, "-0.5"); S(V_FRAC, "1e10"); S(V_FRAC, "1e40"); S(V_NUM, " 7"); S(V_NUM, "7 "); S(V_NUM, "1abc"); S(V_NUM, "1e3"); S(V_NUM, "5 apples"); S(V_NUM, "1,5");
	S(V_TEXT, "abc"); S(V_TEXT, "log"); S(V_TEXT, "LOG10"); S(V_TEXT, "n"); S(V_TEXT, "bez"); S(V_TEXT, "xy"); S(V_TEXT, "xyz"); S(V_TEXT, "two words");
	S(V_LONG, X300.c_str());
	S(V_POINT, "0.25 0.75"); S(V_POINT, "0.5 2"); S(V_POINT, "1 2 3");
	S(V_COLOUR, "black"); S(V_COLOUR, "BLACK"); S(V_COLOUR, "#000000"); S(V_COLOUR, "#000000ff"); S(V_COLOUR, "#000000FF"); S(V_COLOUR, "#000000fe"); S(V_COLOUR, "#00000000"); S(V_COLOUR, "#00000001");
	S(V_COLOUR, "red"); S(V_COLOUR, "Blue"); S(V_COLOUR, "white "); S(V_COLOUR, "redx"); S(V_COLOUR, "#ff0000"); S(V_COLOUR, "#11223344"); S(V_COLOUR, "#12"); S(V_COLOUR, "#1"); S(V_COLOUR, "#gg0000"); S(V_COLOUR, "bogus");
	T(V_TINT, 'i', &i0); T(V_TINT, 'i', &i5); T(V_TINT, 'i', &im1); T(V_TINT, 'i', &i255); T(V_TINT, 'i', &i256); T(V_TINT, 'i', &i70000); T(V_TINT, 'i', &i120);
	T(V_TINT, 'y', &y7); T(V_TINT, 'u', &u100000); T(V_TINT, 'x', &x5);
	T(V_TFLT, 'd', &d05); T(V_TFLT, 'd', &d1e40); T(V_TFLT, 'd', &dm25); T(V_TFLT, 'd', &d3); T(V_TFLT, 'f', &f025);
	T(V_TCHR, 'c', &cx);
	T(V_TCOL, 'C', &tblack); T(V_TCOL, 'C', &tblack_fe); T(V_TCOL, 'C', &tclear); T(V_TCOL, 'C', &tclear_01);
	T(V_TCOL, 'C', &tcol); T(V_TPT, 'P', &tpt); T(V_TPT, 'P', &tpt2); T(V_TLAT, 'L', &tlat);
	T(V_TSTR, 's', &tstr); T(V_TSTR, 's', &tstrnum);
	T(V_NOTEXT, '0', 0); T(V_OWNTAIL, 'T', 0);
	// reduced alphabet for secondary names (case variants, prefixes, aliases)
	for (const Val &v : vals) {
		if (v.txt && (!strcmp(v.txt, "1") || !strcmp(v.txt, "abc") || !strcmp(v.txt, "red") || !strcmp(v.txt, "0.25 0.75") || !strcmp(v.txt, "#11223344") || !strcmp(v.txt, "256"))) vals_small.push_back(v);
		if (!v.txt && (v.ptr == &i5 || v.ptr == &tcol || v.ty == '0')) vals_small.push_back(v);
	}
}
static std::string valdesc(const Val &v)
{
	if (v.txt) return strlen(v.txt) > 40 ? fmt("text(%zu x 'x')", strlen(v.txt)) : std::string("text \"") + v.txt + "\"";
	switch (v.ty) {
	case '0': return "text NULL (no value)"; case 'T': return "const char * into the property's own string (+1)";
	case 'i': return fmt("int32 %d", *(const int32_t *) v.ptr); case 'y': return fmt("uint8 %u", *(const uint8_t *) v.ptr);
	case 'u': return fmt("uint32 %u", *(const uint32_t *) v.ptr); case 'x': return fmt("int64 %lld", (long long) *(const int64_t *) v.ptr);
	case 'd': return fmt("double %g", *(const double *) v.ptr); case 'f': return fmt("float %g", (double) *(const float *) v.ptr);
	case 'c': return fmt("char '%c'", *(const char *) v.ptr); case 'C': { const mpt::color *c = (const mpt::color *) v.ptr; return fmt("colour{a=%02x,r=%02x,g=%02x,b=%02x}", c->alpha, c->red, c->green, c->blue); }
	case 'P': return fmt("fpoint{%g,%g}", (double) ((const float *) v.ptr)[0], (double) ((const float *) v.ptr)[1]);
	case 'L': return "lineattr{2,3,4,5}"; case 's': return std::string("const char * \"") + *(const char * const *) v.ptr + "\"";
	}
	return "?";
}
static const char *own_string(Inst &x, int pos)
{
	if (pos < 0) return 0;
	mpt::property pr; pr.name = 0; pr.desc = (const char *) (uintptr_t) pos; pr.val._addr = 0; pr.val._type = 0;
	if (x.obj->property(&pr) < 0 || pr.val._type != 's' || !pr.val._addr) return 0;
	return *(const char * const *) pr.val._addr;
}
static int deliver(Inst &x, const char *name, const Val &v, int pos = -1)
{
	Lib l;
	if (v.txt) return mpt::mpt_object_set_string(x.obj, name, v.txt, 0);
	if (v.ty == '0') return mpt::mpt_object_set_string(x.obj, name, 0, 0);
	mpt::value val; int type = v.ty;
	if (v.ty == 'T') {       // the tail of the current value; without a current value of >= 2 characters an ordinary string
		const char *cur = own_string(x, pos), *ptr = (cur && strlen(cur) >= 2) ? cur + 1 : tstr;
		val._type = 's'; val._addr = &ptr;
		return mpt::mpt_object_set_value(x.obj, name, &val);
	}
	if (v.ty == 'C') type = mpt::mpt_color_typeid(); else if (v.ty == 'P') type = mpt::mpt_fpoint_typeid(); else if (v.ty == 'L') type = mpt::mpt_lattr_typeid();
	val._type = type; val._addr = v.ptr;
	return mpt::mpt_object_set_value(x.obj, name, &val);
}

// ------------------------------------------------------------------ independent conversion of the input
// result: 0 = no expectation, 1 = expected rendering in `out`, 2 = the value is not representable in the target type,
// 3 = a numeral followed by other text (nothing the property type can denote)
static bool num_prefix(const char *t, long double &val, bool &integral_only, const char *&end)
{
	while (isspace((unsigned char) *t)) ++t;
	const char *p = t; if (*p == '+' || *p == '-') ++p;
	if (!isdigit((unsigned char) *p)) return false;
	if (*p == '0' && (isdigit((unsigned char) p[1]) || p[1] == 'x' || p[1] == 'X')) return false;   // octal/hex spellings: no expectation
	char *e; val = strtold(t, &e); end = e; integral_only = false; return true;
}
// result 3: the text starts with a numeral but something other than white space follows it
static int ref_int(const char *t, long double lo, long double hi, long long &out)
{
	long double v; bool io; const char *e;
	if (!num_prefix(t, v, io, e)) return 0;
	while (isspace((unsigned char) *e)) ++e;
	if (*e) return 3;
	if (std::isnan(v) || v != floorl(v) || v < lo || v > hi) return 2;    // the text denotes a number the integer type cannot hold ("0.5", "1e10", "256")
	out = (long long) v; return 1;
}
static bool ref_colour(const char *t, uint8_t c[4])   // a r g b ; only the well-formed spellings
{
	static const struct { const char *n; uint8_t r, g, b; } names[] = { {"black",0,0,0}, {"red",255,0,0}, {"green",0,255,0}, {"blue",0,0,255}, {"cyan",0,255,255}, {"magenta",255,0,255}, {"yellow",255,255,0}, {"white",255,255,255} };
	for (auto &n : names) { size_t l = strlen(n.n); if (!strncasecmp(t, n.n, l) && (!t[l] || (t[l] == ' ' && !t[l + 1]))) { c[0] = 255; c[1] = n.r; c[2] = n.g; c[3] = n.b; return true; } }
	if (*t != '#') return false;
	size_t l = strlen(t + 1); if (l != 6 && l != 8) return false;
	unsigned v[4] = { 0, 0, 0, 255 };
	for (size_t i = 0; i < l; ++i) if (!isxdigit((unsigned char) t[1 + i])) return false;
	for (size_t i = 0; i < l / 2; ++i) { char b[3] = { t[1 + 2 * i], t[2 + 2 * i], 0 }; v[i] = strtoul(b, 0, 16); }
	c[0] = v[3]; c[1] = v[0]; c[2] = v[1]; c[3] = v[2]; return true;
}
static int refconv(const std::string &tcls, const Val &v, std::string &out)
{
	auto intout = [&](const char *pre, const char *f, long long x) { out = std::string(pre) + ":" + fmt(f, x); };
	struct R { const char *t; long double lo, hi; const char *f; };
	static const R ranges[] = { {"y", 0, 255, "%lld"}, {"b", -128, 127, "%lld"}, {"n", -32768, 32767, "%lld"}, {"q", 0, 65535, "%lld"}, {"i", -2147483648.0L, 2147483647.0L, "%lld"}, {"u", 0, 4294967295.0L, "%lld"} };
	const R *ir = 0; for (auto &r : ranges) if (tcls == r.t) ir = &r;
	if (v.txt) {
		const char *t = v.txt;
		if (!*t) return 0;                                       // empty text: "no value", not covered
		if (tcls == "s") { out = "s:" + qstr(t); return 1; }
		if (ir) { long long x; int k = ref_int(t, ir->lo, ir->hi, x); if (k == 1) intout(ir->t, ir->f, x); return k; }
		if (tcls == "f" || tcls == "d") {
			long double lv; bool io; const char *e; if (!num_prefix(t, lv, io, e)) return 0;
			while (isspace((unsigned char) *e)) ++e;
			if (*e) return 3;
			errno = 0;
			if (tcls == "f") { float f = strtof(t, 0); if (std::isinf(f)) return 2; out = fmt("f:%a", (double) f); }
			else { double d = strtod(t, 0); if (std::isinf(d)) return 2; out = fmt("d:%a", d); }
			return 1;
		}
		if (tcls == "c") { while (isspace((unsigned char) *t)) ++t; if (!*t || !isgraph((unsigned char) *t)) return 0; out = fmt("c:%d", (int) *t); return 1; }
		if (tcls == "colour") { uint8_t c[4]; if (!ref_colour(t, c)) return 0; out = fmt("colour:a=%02x,r=%02x,g=%02x,b=%02x", c[0], c[1], c[2], c[3]); return 1; }
		if (tcls == "fpoint") {
			char *e; errno = 0; float a = strtof(t, &e); if (e == t || std::isinf(a)) return 0;
			while (*e == ' ') ++e; if (!*e) return 0;            // a single coordinate: second one not specified
			char *e2; float b = strtof(e, &e2); if (e2 == e || std::isinf(b)) return 0;
			while (*e2 == ' ') ++e2; if (*e2) return 0;
			out = fmt("fpoint:%a,%a", (double) a, (double) b); return 1;
		}
		return 0;
	}
	// typed values
	long double num = 0; bool isnum = true, isint = true;
	switch (v.ty) {
	case 'i': num = *(const int32_t *) v.ptr; break; case 'y': num = *(const uint8_t *) v.ptr; break;
	case 'u': num = *(const uint32_t *) v.ptr; break; case 'x': num = *(const int64_t *) v.ptr; break;
	case 'd': num = *(const double *) v.ptr; isint = false; break; case 'f': num = *(const float *) v.ptr; isint = false; break;
	default: isnum = false;
	}
	if (isnum) {
		if (ir) { if (num != floorl(num)) return 2; if (num < ir->lo || num > ir->hi) return 2; intout(ir->t, ir->f, (long long) num); return 1; }
		if (tcls == "f") { if (fabsl(num) > FLT_MAX) return 2; float f = (float) num; if ((long double) f != num) return 0; out = fmt("f:%a", (double) f); return 1; }
		if (tcls == "d") { out = fmt("d:%a", (double) num); return 1; }
		return 0;
	}
	if (v.ty == 'c' && tcls == "c") { out = fmt("c:%d", (int) *(const char *) v.ptr); return 1; }
	if (v.ty == 'C' && tcls == "colour") { out = render(mpt::mpt_color_typeid(), v.ptr); return 1; }
	if (v.ty == 'P' && tcls == "fpoint") { out = render(mpt::mpt_fpoint_typeid(), v.ptr); return 1; }
	if (v.ty == 's' && tcls == "s") { out = "s:" + qstr(*(const char * const *) v.ptr); return 1; }
	return 0;
}

// ------------------------------------------------------------------ model of one target: discovered properties, ops, fresh-object results
enum OpT { O_SET, O_RESET, O_RESETALL, O_RESETNULL, O_COPYIN, O_AUTO, O_NOVALALL, O_COPYSELF, O_ASSIGNSELF };
struct Op { int t; int name; int val; int sib; bool nullname; };
struct NameEnt { std::string n; int target; int cls; };   // target: listed property index or -1 ; cls 0 primary 1 case 2 prefix 3 alias
static const char *nclsname[] = { "name", "case-variant", "prefix", "alias" };
struct Fresh { int ret; Snap after; std::string fault; };   // fault: non-empty when the op kills the process on a fresh object

static std::string op_label(const Op &o) { return o.t == O_SET ? "set" : (o.t == O_RESET ? "reset" : (o.t == O_RESETALL || o.t == O_RESETNULL ? "reset-all" : (o.t == O_COPYIN ? "copy" : (o.t == O_NOVALALL ? "reset-all" : (o.t == O_COPYSELF || o.t == O_ASSIGNSELF ? "copy-self" : "auto-select"))))); }

struct Model {
	int kind; bool cxx;
	std::vector<std::string> pname; std::vector<int> ppos;
	Snap def;                                   // properties of a freshly initialised object
	std::vector<NameEnt> names;
	std::vector<Op> ops;
	std::vector<Fresh> fresh;                   // result of every op on a fresh object
	std::vector<bool> poly;                     // property whose read-back type varies with the value
	std::vector<std::pair<int, std::string>> rich;   // script that makes a sibling differ from the default in every property it can
	std::vector<Val> autovals;
	std::vector<Val> mvals;                     // value alphabet of this target: the common one + every property default spelled explicitly
	std::deque<std::string> dyn_txt; std::deque<mpt::color> dyn_col;
	std::vector<std::string> ophint;            // fault-attribution prefix per op
	std::vector<bool> builder;                  // ops used to build the prefix states of the deep (b3) jobs

	std::string propsig(const Op &o) const
	{
		if (o.t == O_SET || o.t == O_RESET) { const NameEnt &n = names[o.name]; return n.target >= 0 ? pname[n.target] : std::string("<") + nclsname[n.cls] + ">"; }
		return "*";
	}
	std::string op_hint(const Op &o) const { return op_label(o) + "|" + kname[kind] + "." + propsig(o); }
	Snap snapshot(Inst &x) const
	{
		Snap s;
		for (size_t i = 0; i < pname.size(); ++i) {
			mpt::property pr; pr.name = 0; pr.desc = (const char *) (uintptr_t) ppos[i]; pr.val._addr = 0; pr.val._type = 0;
			int ret = x.obj->property(&pr);
			if (ret < 0) s.v.push_back(fmt("ERR:%d", ret));
			else s.v.push_back(render(pr.val._type, pr.val._addr));
		}
		return s;
	}
	std::string hidden(Inst &x) const       // fields without a property that steer behaviour
	{
		switch (kind) {
		case AXIS: return fmt("format=%u", ((mpt::axis *) x.raw)->format);
		case GRAPH: return fmt("frame=%u", ((mpt::graph *) x.raw)->frame);
		case TEXT: return fmt("weight=%d,style=%d", ((mpt::text *) x.raw)->weight, ((mpt::text *) x.raw)->style);
		default: return "";
		}
	}
	std::string canon(Inst &x, const Snap &s) const
	{
		std::string c;
		for (size_t i = 0; i < s.v.size(); ++i) { c += pname[i]; c += '='; c += s.v[i]; c += ';'; }
		return c + hidden(x);
	}
	int raw_op(Inst &x, const Op &o, Snap *sibsnap = 0) const
	{
		switch (o.t) {
		case O_SET: return deliver(x, names[o.name].n.c_str(), names[o.name].cls ? vals_small[o.val] : mvals[o.val], names[o.name].target >= 0 ? ppos[names[o.name].target] : -1);
		case O_NOVALALL: { Lib l; return mpt::mpt_object_set_string(x.obj, "", o.val ? "" : 0, 0); }
		case O_COPYSELF: { Lib l; return x.obj->set_property(o.nullname ? 0 : "", x.conv()); }
		case O_ASSIGNSELF: { Lib l;
			switch (kind) {      // C++ assignment operator of the data struct, source is the object itself
			case AXIS: { mpt::axis &a = *(mpt::axis *) x.raw, &b = a; a = b; break; }
			case TEXT: { mpt::text &a = *(mpt::text *) x.raw, &b = a; a = b; break; }
			case GRAPH: { mpt::graph &a = *(mpt::graph *) x.raw, &b = a; a = b; break; }
			case WORLD: { mpt::world &a = *(mpt::world *) x.raw, &b = a; a = b; break; }
			default: { mpt::line &a = *(mpt::line *) x.raw, &b = a; a = b; break; }
			}
			return 0; }
		case O_RESET: { Lib l; return x.obj->set_property(names[o.name].n.c_str(), 0); }
		case O_RESETALL: { Lib l; return x.obj->set_property("", 0); }
		case O_RESETNULL: { Lib l; return x.obj->set_property(0, 0); }
		case O_AUTO: return deliver(x, 0, autovals[o.val]);
		case O_COPYIN: {
			Inst s = make(kind, cxx);
			if (o.sib) for (auto &st : rich) { Lib l; mpt::mpt_object_set_string(s.obj, pname[st.first].c_str(), st.second.c_str(), 0); }
			if (sibsnap) *sibsnap = snapshot(s);
			int ret; { Lib l; ret = x.obj->set_property(o.nullname ? 0 : "", s.conv()); }
			destroy(s);                         // the copy must own everything it shows afterwards
			return ret; }
		}
		return -1;
	}
	const Val &opval(const Op &o) const { return o.t == O_AUTO ? autovals[o.val] : (names[o.name].cls ? vals_small[o.val] : mvals[o.val]); }
	std::string opname(const Op &o) const
	{
		switch (o.t) {
		case O_SET: return "set(\"" + names[o.name].n + "\", " + valdesc(opval(o)) + ")";
		case O_RESET: return "reset(\"" + names[o.name].n + "\")";
		case O_RESETALL: return "set(\"\", NULL)";
		case O_RESETNULL: return "set(NULL, NULL)";
		case O_NOVALALL: return o.val ? "set(\"\", text \"\")" : "set(\"\", text NULL (no value))";
		case O_COPYSELF: return std::string("set(") + (o.nullname ? "NULL" : "\"\"") + ", the object itself)";
		case O_ASSIGNSELF: return "object = object (C++ operator= of the data struct)";
		case O_AUTO: return "set(NULL, " + valdesc(autovals[o.val]) + ")";
		case O_COPYIN: return std::string("set(") + (o.nullname ? "NULL" : "\"\"") + ", " + (o.sib ? "sibling with every property set" : "default sibling") + ") ; destroy sibling";
		}
		return "?";
	}

	// every op once on a fresh object, in a forked child (an op that kills the process is recorded, not fatal)
	void build_fresh()
	{
		fresh.assign(ops.size(), Fresh());
		size_t start = 0;
		while (start < ops.size()) {
			int fd[2]; if (pipe(fd) < 0) return;
			fflush(stdout); fflush(stderr);
			pid_t pid = fork();
			if (pid == 0) {
				close(fd[0]);
				for (int sg : { SIGSEGV, SIGBUS, SIGFPE, SIGILL, SIGABRT }) signal(sg, SIG_DFL);
				struct itimerval it; memset(&it, 0, sizeof it); setitimer(ITIMER_REAL, &it, 0); signal(SIGALRM, SIG_DFL); alarm(120);
				for (size_t k = start; k < ops.size(); ++k) {
					Inst y = make(kind, cxx); int ret = raw_op(y, ops[k]); Snap s = snapshot(y); destroy(y);
					std::string line = std::to_string(k) + "\x1f" + std::to_string(ret);
					for (auto &e : s.v) { line += "\x1f"; line += e; }
					line += "\n";
					size_t off = 0; while (off < line.size()) { ssize_t w = write(fd[1], line.data() + off, line.size() - off); if (w <= 0) _exit(3); off += w; }
				}
				_exit(0);
			}
			close(fd[1]);
			std::string out; char buf[65536]; ssize_t n;
			while ((n = read(fd[0], buf, sizeof buf)) > 0 || (n < 0 && errno == EINTR)) if (n > 0) out.append(buf, n);
			close(fd[0]);
			int st = 0; while (waitpid(pid, &st, 0) < 0 && errno == EINTR) {}
			size_t done = start, p = 0;
			while (p < out.size()) {
				size_t e = out.find('\n', p); if (e == std::string::npos) break;
				std::vector<std::string> f; size_t q = p; while (q <= e) { size_t z = out.find('\x1f', q); if (z == std::string::npos || z > e) z = e; f.push_back(out.substr(q, z - q)); q = z + 1; }
				p = e + 1;
				if (f.size() < 2) continue;
				size_t k = strtoul(f[0].c_str(), 0, 10); if (k >= ops.size()) continue;
				fresh[k].ret = atoi(f[1].c_str()); fresh[k].after.v.assign(f.begin() + 2, f.end());
				done = k + 1;
			}
			if (done >= ops.size()) break;
			const char *why = "EXIT";
			if (WIFSIGNALED(st)) switch (WTERMSIG(st)) { case SIGSEGV: why = "SIGSEGV"; break; case SIGBUS: why = "SIGBUS"; break; case SIGFPE: why = "SIGFPE"; break; case SIGILL: why = "SIGILL"; break; case SIGABRT: why = "SIGABRT"; break; case SIGALRM: why = "HANG"; break; default: why = "SIGNAL"; }
			else if (WEXITSTATUS(st) == 99) why = "ASAN-FATAL";
			fresh[done].fault = why; fresh[done].ret = INT_MIN; fresh[done].after = def;
			start = done + 1;
		}
	}
	Model(int k, bool cx) : kind(k), cxx(cx)
	{
		build_vals();
		Inst x = make(kind, cxx);
		// discover the property list by positional get
		int miss = 0;
		for (int pos = 0; pos < 64 && miss < 4; ++pos) {
			mpt::property pr; pr.name = 0; pr.desc = (const char *) (uintptr_t) pos; pr.val._addr = 0; pr.val._type = 0;
			x.obj->property(&pr);
			if (!pr.name || !*pr.name) { ++miss; continue; }
			miss = 0; pname.push_back(pr.name); ppos.push_back(pos);
		}
		def = snapshot(x);
		// values: the common alphabet + the default of every property of this kind written out as an explicit value (text, and typed
		// for colours), for colours also the neighbour that differs only in alpha: an explicit value that happens to equal some
		// default must be stored like any other
		mvals = vals;
		{
			std::set<std::string> seen; for (const Val &v : vals) if (v.txt) seen.insert(v.txt);
			auto addtxt = [&](int cls, const std::string &t) { if (t.empty() || !seen.insert(t).second) return; dyn_txt.push_back(t); mvals.push_back(Val{cls, dyn_txt.back().c_str(), 0, 0}); };
			std::set<unsigned> cols;
			for (size_t i = 0; i < def.v.size(); ++i) {
				const std::string &d = def.v[i]; unsigned a, r, g, b; int iv; double fv, fw;
				if (sscanf(d.c_str(), "colour:a=%x,r=%x,g=%x,b=%x", &a, &r, &g, &b) == 4) {
					for (unsigned da = 0; da < 2; ++da) {
						unsigned aa = a ^ da;
						addtxt(V_COLOUR, fmt("#%02x%02x%02x%02x", r, g, b, aa));
						if (cols.insert(aa << 24 | r << 16 | g << 8 | b).second) { dyn_col.push_back(mpt::color(r, g, b, aa)); mvals.push_back(Val{V_TCOL, 0, 'C', &dyn_col.back()}); }
					}
				}
				else if (sscanf(d.c_str(), "y:%d", &iv) == 1 || sscanf(d.c_str(), "n:%d", &iv) == 1 || sscanf(d.c_str(), "u:%d", &iv) == 1) addtxt(V_NUM, std::to_string(iv));
				else if (sscanf(d.c_str(), "c:%d", &iv) == 1) { if (iv > 32 && iv < 127) addtxt(V_TEXT, std::string(1, (char) iv)); }
				else if (sscanf(d.c_str(), "f:%la", &fv) == 1 || sscanf(d.c_str(), "d:%la", &fv) == 1) addtxt(V_FRAC, fmt("%.9g", fv));
				else if (sscanf(d.c_str(), "fpoint:%la,%la", &fv, &fw) == 2) addtxt(V_POINT, fmt("%.9g %.9g", fv, fw));
			}
		}
		// names: listed, case variants, prefixes, alias candidates
		std::set<std::string> have;
		auto add = [&](const std::string &n, int target, int cls) { if (n.empty() || !have.insert(n).second) return; names.push_back(NameEnt{n, target, cls}); };
		for (size_t i = 0; i < pname.size(); ++i) add(pname[i], (int) i, 0);
		for (size_t i = 0; i < pname.size(); ++i) {
			std::string u = pname[i]; for (char &c : u) c = toupper((unsigned char) c); add(u, (int) i, 1);
			if (pname[i].size() > 3) add(pname[i].substr(0, 3), -2, 2);
			if (pname[i].size() > 4) add(pname[i].substr(0, pname[i].size() - 1), -2, 2);
		}
		static const char *alias[] = { "x", "y", "int", "intv", "exp", "sub", "dec", "labelpos", "label position", "titlepos", "title position", "fg", "bg", "position", "type", "gridtype",
		                               "alignment", "clipping", "cyc", "colour", "sym", "name", "weight", "frame", "format", "nosuchproperty" };
		for (const char *a : alias) add(a, -2, 3);
		// resolve secondary names through get-by-name (a prefix / alias of exactly one listed property)
		for (NameEnt &n : names) if (n.target == -2) {
			n.target = -1;
			int cnt = 0, which = -1; for (size_t i = 0; i < pname.size(); ++i) if (!strncasecmp(pname[i].c_str(), n.n.c_str(), n.n.size())) { ++cnt; which = (int) i; }
			if (n.cls == 2) { if (cnt == 1) n.target = which; continue; }   // a prefix denotes a property only if it is unique
			// alias: denotes a listed property if it is a unique prefix of its name and get-by-name resolves it to that property
			if (cnt == 1) {
				mpt::property pr; pr.name = n.n.c_str(); pr.desc = 0; pr.val._addr = 0; pr.val._type = 0;
				if (x.obj->property(&pr) >= 0 && pr.name && pname[which] == pr.name) n.target = which;
			}
		}
		// ops
		for (size_t n = 0; n < names.size(); ++n) {
			size_t nv = names[n].cls ? vals_small.size() : mvals.size();
			for (size_t v = 0; v < nv; ++v) {
				if (!names[n].cls && mvals[v].ty == 'T' && def.v[names[n].target].compare(0, 2, "s:")) continue;   // own-text value: string properties only
				ops.push_back(Op{O_SET, (int) n, (int) v, 0, false});
			}
		}
		for (size_t n = 0; n < names.size(); ++n) ops.push_back(Op{O_RESET, (int) n, 0, 0, false});
		ops.push_back(Op{O_RESETALL, 0, 0, 0, false});
		ops.push_back(Op{O_RESETNULL, 0, 0, 0, true});
		ops.push_back(Op{O_NOVALALL, 0, 0, 0, false}); ops.push_back(Op{O_NOVALALL, 0, 1, 0, false});
		ops.push_back(Op{O_COPYSELF, 0, 0, 0, false}); ops.push_back(Op{O_COPYSELF, 0, 0, 0, true});
		if (cxx) ops.push_back(Op{O_ASSIGNSELF, 0, 0, 0, false});
		for (int sib = 0; sib < 2; ++sib) for (int nn = 0; nn < 2; ++nn) ops.push_back(Op{O_COPYIN, 0, 0, sib, nn == 1});
		for (const Val &v : vals) if (v.txt ? (!strcmp(v.txt, "abc") || !strcmp(v.txt, "red") || !strcmp(v.txt, "")) : (v.ty == 'C' || v.ty == 'L' || v.ptr == &i5)) autovals.push_back(v);
		for (size_t v = 0; v < autovals.size(); ++v) ops.push_back(Op{O_AUTO, 0, (int) v, 0, true});
		destroy(x);
		build_fresh();
		// sibling script: per property the first text of the alphabet that is accepted on a fresh object and changes that property
		for (size_t i = 0; i < pname.size(); ++i) for (size_t k = 0; k < ops.size(); ++k) {
			const Op &o = ops[k];
			if (o.t != O_SET || names[o.name].cls || names[o.name].target != (int) i) continue;
			const Val &v = opval(o);
			if (!v.txt || !*v.txt || strlen(v.txt) > 40 || !fresh[k].fault.empty() || fresh[k].ret < 0) continue;
			const Snap &s = fresh[k].after;
			if (s.v[i] == def.v[i] || !s.v[i].compare(0, 3, "ERR")) continue;
			bool only = true; for (size_t q = 0; q < s.v.size(); ++q) if (q != i && s.v[q] != def.v[q]) only = false;
			if (!only) continue;
			rich.push_back(std::make_pair((int) i, std::string(v.txt))); break;
		}
		poly.assign(pname.size(), false);
		for (size_t k = 0; k < ops.size(); ++k) {
			const Fresh &f = fresh[k];
			if (ops[k].t == O_SET && f.fault.empty() && f.ret >= 0) for (size_t i = 0; i < pname.size(); ++i)
				if (f.after.v[i].compare(0, 3, "ERR") && def.v[i].compare(0, 3, "ERR") && tyclass(f.after.v[i]) != tyclass(def.v[i])) poly[i] = true;
		}
		// warm up lazily allocated library singletons in this process (ledger) with every op that does not fault
		for (size_t k = 0; k < ops.size(); ++k) if (fresh[k].fault.empty()) { Inst y = make(kind, cxx); raw_op(y, ops[k]); destroy(y); }
		for (const Op &o : ops) ophint.push_back(op_hint(o));
		// builder ops: a few accepted values per listed property + resets + copy from the rich sibling
		builder.assign(ops.size(), false);
		for (size_t k = 0; k < ops.size(); ++k) {
			const Op &o = ops[k];
			if (!fresh[k].fault.empty()) continue;
			if (o.t == O_SET && !names[o.name].cls) {
				const Val &v = opval(o);
				if (v.txt ? (!strcmp(v.txt, "5") || !strcmp(v.txt, "log") || !strcmp(v.txt, "xy") || !strcmp(v.txt, "0.25 0.75") || !strcmp(v.txt, "#11223344") || v.txt == X300.c_str()) : (v.ptr == &i5 || v.ptr == &d05)) builder[k] = fresh[k].ret >= 0;
			}
			else if (o.t == O_RESETALL) builder[k] = true;
			else if (o.t == O_COPYIN && o.sib && !o.nullname) builder[k] = true;
		}
		asan_error();
	}
};

// ------------------------------------------------------------------ oracles
static std::string propsig(const Model &m, const Op &o) { return m.propsig(o); }
static std::string op_hint(const Model &m, const Op &o) { return m.op_hint(o); }
static std::string diffdesc(const Model &m, const Snap &a, const Snap &b)
{
	std::string s;
	for (size_t i = 0; i < a.v.size(); ++i) if (a.v[i] != b.v[i]) s += " " + m.pname[i] + ": " + a.v[i] + " -> " + b.v[i] + ";";
	return s.empty() ? " (no property differs)" : s;
}

// a name the setter accepted (case variant, prefix, alias) and that changed listed property q: reading under the same name
// must not yield a DIFFERENT listed property (a refusal, or a component like text "x", is not flagged)
template <class Fail>
static bool alias_reads_back(Run &r, const Model &m, Inst &x, const std::string &name, int q, const Snap &after, Fail &fail)
{
	mpt::property pr; pr.name = name.c_str(); pr.desc = 0; pr.val._addr = 0; pr.val._type = 0;
	int ret = x.obj->property(&pr);
	if (ret < 0 || !pr.name) { r.count("accepted alias refused by get (not flagged)"); return true; }
	int which = -1; for (size_t i = 0; i < m.pname.size(); ++i) if (m.pname[i] == pr.name) which = (int) i;
	if (which < 0) { r.count("accepted alias reads a component (not flagged)"); return true; }
	if (which != q) { fail("reads-other-property", "set changed '" + m.pname[q] + "' (" + after.v[q] + ") but get(\"" + name + "\") yields '" + pr.name + "' = " + render(pr.val._type, pr.val._addr)); return false; }
	r.count("accepted alias reads back the property it set");
	return true;
}

// execute op o on x (pre-state snapshot `before`), judge it; false when a violation was reported
static bool judged_op(Run &r, const Model &m, Inst &x, size_t opi, const Snap &before, const std::string &cbefore, Snap &after)
{
	const Op &o = m.ops[opi];
	const std::string kn = kname[m.kind];
	std::string opl = op_label(o);
	auto sigbase = [&]() {
		std::string vc = (o.t == O_SET || o.t == O_AUTO) ? vclsname[m.opval(o).cls] : (o.t == O_COPYIN ? (o.nullname ? "sibling,name=NULL" : "sibling") : (o.t == O_RESETNULL ? "name=NULL" : (o.t == O_NOVALALL ? "no-text" : (o.t == O_COPYSELF ? (o.nullname ? "self,name=NULL" : "self") : (o.t == O_ASSIGNSELF ? "self,operator=" : "-")))));
		return opl + "|" + kn + "." + propsig(m, o) + "|" + vc + "|"; };
	auto desc = [&]() { return kn + (m.cxx ? " (C++ class)" : " (C struct)") + ": " + m.opname(o); };
	bool ok = true;
	auto fail = [&](const char *kind, const std::string &what) { r.violation(sigbase() + kind, desc() + ": " + what); ok = false; };
	r.hint(m.ophint[opi].c_str());
	asan_error();
	Snap sib;
	std::string owntail;       // own-text value: what the tail of the current string is before the call
	if (o.t == O_SET && m.opval(o).ty == 'T' && m.names[o.name].target >= 0) { const char *cur = own_string(x, m.ppos[m.names[o.name].target]); owntail = (cur && strlen(cur) >= 2) ? cur + 1 : tstr; }
	int ret = m.raw_op(x, o, &sib);
	bool asan = asan_error();
	after = m.snapshot(x);
	if (asan_error()) asan = true;
	r.hint("");
	std::string cafter = m.canon(x, after);
	const Fresh &fr = m.fresh[opi];
	if (r.replaying) r.note("%s -> ret %d ;%s", m.opname(o).c_str(), ret, diffdesc(m, before, after).c_str());
	if (asan) { fail("memory-error", "AddressSanitizer reported an invalid access / free"); return false; }
	for (size_t i = 0; i < after.v.size(); ++i) if (!after.v[i].compare(0, 3, "ERR") && m.def.v[i].compare(0, 3, "ERR")) {
		r.violation("get|" + kn + "." + m.pname[i] + "|after-" + opl + "|refused", desc() + ": property '" + m.pname[i] + "' cannot be read back (" + after.v[i] + ")"); return false; }
	if (ret < 0) {
		r.count("refused");
		if (cafter != cbefore) { fail("refused-but-changed", fmt("returned %d but the object changed:", ret) + diffdesc(m, before, after) + (before == after ? " hidden: " + cbefore.substr(cbefore.rfind(';') + 1) + " -> " + cafter.substr(cafter.rfind(';') + 1) : "")); return false; }
		if (fr.ret >= 0 && o.t != O_COPYIN) r.count("acceptance depends on previous state (not flagged)");
		if (o.t == O_RESET && m.names[o.name].cls == 0) {
			int p = m.names[o.name].target;
			if (after.v[p] != m.def.v[p]) { fail("refused", fmt("reset of a listed property returned %d, value stays ", ret) + after.v[p] + " (fresh object: " + m.def.v[p] + ")"); return false; }
			r.count("reset refused while already default (not flagged)");
		}
		if (o.t == O_RESETALL) { if (!(after == m.def)) { fail("refused", fmt("returned %d", ret)); return false; } }
		if (o.t == O_COPYIN && !o.nullname) { fail("refused", fmt("generic assignment from a sibling of the same kind returned %d", ret)); return false; }
		if (o.t == O_COPYIN && o.nullname) r.count("copy via name=NULL refused (not flagged)");
		return true;
	}
	r.count("accepted");
	switch (o.t) {
	case O_SET: case O_RESET: {
		const NameEnt &n = m.names[o.name];
		int p = n.target;
		if (p < 0) {        // alias / ambiguous prefix: which property it denotes is learnt from the fresh object
			std::vector<int> ch; for (size_t i = 0; i < after.v.size(); ++i) if (after.v[i] != before.v[i]) ch.push_back((int) i);
			if (ch.size() > 1) { fail("changes-other-property", "more than one property changed:" + diffdesc(m, before, after)); return false; }
			// an unresolved alias may denote a component of a property (text "x"): only the frame condition is demanded
			r.count("alias: frame condition checked");
			if (ch.size() == 1 && !alias_reads_back(r, m, x, n.n, ch[0], after, fail)) return false;
			return true;
		}
		for (size_t i = 0; i < after.v.size(); ++i) if ((int) i != p && after.v[i] != before.v[i]) {
			fail("changes-other-property", "property '" + m.pname[i] + "' changed: " + before.v[i] + " -> " + after.v[i]); return false; }
		r.count("frame condition checked");
		if (n.cls && after.v[p] != before.v[p] && !alias_reads_back(r, m, x, n.n, p, after, fail)) return false;
		if (o.t == O_SET && m.opval(o).ty == '0') {     // the string interface without any text is "no value": the default
			if (after.v[p] != m.def.v[p]) { fail("not-default", "no value given, the property reads " + after.v[p] + ", a fresh object has " + m.def.v[p]); return false; }
			r.count("no-text value: default differential checked");
			return true;
		}
		if (o.t == O_SET && m.opval(o).ty == 'T' && m.poly[p]) { r.count("own-text value on attribute-text property (frame only)"); return true; }   // the value depends on the state by construction
		if (o.t == O_SET && m.opval(o).ty == 'T') {
			std::string want = "s:" + qstr(owntail.c_str());
			if (after.v[p] != want) { fail("readback-differs", "accepted, reads back " + after.v[p] + ", the value handed in was " + want + " (previous value " + before.v[p] + ")"); return false; }
			r.count("own-text value: read-back checked");
			return true;
		}
		if (o.t == O_RESET) {
			if (after.v[p] != m.def.v[p]) { fail("not-default", "after reset the property reads " + after.v[p] + ", a fresh object has " + m.def.v[p]); return false; }
			r.count("reset: default differential checked");
			return true;
		}
		const Val &v = m.opval(o);
		if (v.txt && !m.poly[p] && m.def.v[p].compare(0, 2, "s:")) {
			const char *b = v.txt; while (isspace((unsigned char) *b)) ++b;
			if (!*b) {      // empty or white space only: there is no value in it, the property must show its default
				if (after.v[p] != m.def.v[p]) { fail("not-default", "accepted a text without any value, reads back " + after.v[p] + " (previous value " + before.v[p] + ", fresh object " + m.def.v[p] + ")"); return false; }
				r.count("blank text: default differential checked");
				return true;
			}
		}
		if (!m.poly[p]) {
			std::string want; int k = refconv(tyclass(m.def.v[p]), v, want);
			if (k == 1) {
				if (after.v[p] != want) { fail("readback-differs", "accepted, reads back " + after.v[p] + ", independent conversion of the input gives " + want); return false; }
				r.count("read-back vs independent conversion checked");
			} else if (k == 2) {
				// the input denotes a number the property type cannot hold: accepting it cannot read back as that number
				fail("accepted-out-of-range", "accepted although the input is not representable in the property type, reads back " + after.v[p] + " (previous value " + before.v[p] + ")"); return false;
			} else if (k == 3) {
				fail("accepts-ignored-text", "accepted although text follows the number, reads back " + after.v[p] + " (previous value " + before.v[p] + ")"); return false;
			} else r.count("accepted without reference conversion");
		} else r.count("accepted on attribute-text property (no reference conversion)");
		if (fr.ret >= 0) {
			if (after.v[p] != fr.after.v[p]) { fail("depends-on-previous-state", "accepted, reads back " + after.v[p] + "; the same call on a fresh object reads back " + fr.after.v[p] + " (previous value " + before.v[p] + ")"); return false; }
			r.count("independence of previous state checked");
		} else r.count("acceptance depends on previous state (not flagged)");
		return true; }
	case O_RESETALL:
		if (!(after == m.def)) { fail("not-default", "after resetting everything:" + diffdesc(m, m.def, after)); return false; }
		r.count("reset-all: default differential checked");
		return true;
	case O_RESETNULL:
		r.count("set(NULL,NULL) accepted");
		return true;
	case O_NOVALALL:
		if (!(after == m.def)) { fail("not-default", "whole-object assignment without a value:" + diffdesc(m, m.def, after)); return false; }
		r.count("whole object, no value: default differential checked");
		return true;
	case O_COPYSELF: case O_ASSIGNSELF:
		if (cafter != cbefore) { fail("differs", "assigning the object to itself changed it:" + diffdesc(m, before, after)); return false; }
		r.count("self assignment: object unchanged checked");
		return true;
	case O_COPYIN:
		if (!(after == sib)) { fail("differs", "copy differs from the sibling:" + diffdesc(m, sib, after)); return false; }
		r.count("copy-in: equality + source destroyed checked");
		return true;
	case O_AUTO:
		r.count("auto-select accepted");
		return true;
	}
	return true;
}

// library rendering of a value as text (the library's own printers)
static ssize_t save_str(void *p, const char *s, size_t n) { ((std::string *) p)->append(s, n); return (ssize_t) n; }
static bool lib_print(const mpt::property &pr, std::string &out)
{
	int cid = mpt::mpt_color_typeid();
	if (cid > 0 && pr.val._type == (uintptr_t) cid) { std::ostringstream o; o << *(const mpt::color *) pr.val._addr; out = o.str(); return true; }
	if (pr.val._type == 's' || pr.val._type == 'y' || pr.val._type == 'c' || pr.val._type == 'n' || pr.val._type == 'u') {
		if (pr.val._type == 'c' && !isgraph((unsigned char) *(const char *) pr.val._addr)) return false;
		out.clear();
		return mpt::mpt_print_value(&pr.val, save_str, &out) >= 0 && !out.empty();
	}
	return false;
}

// probes executed once per new state; false when a violation was reported
static bool probe(Run &r, const Model &m, Inst &x, const Snap &cur, bool sweep = true)
{
	const std::string kn = kname[m.kind];
	std::string lvl = m.cxx ? " (C++ class)" : " (C struct)";
	bool ok = true;
	// (a) copy-out through the generic assignment, then destroy the copy: the original must be untouched and still valid
	{
		r.hint(("copy|" + kn + ".*").c_str());
		asan_error();
		Inst t = make(m.kind, m.cxx);
		int ret; { Lib l; ret = t.obj->set_property("", x.conv()); }
		Snap ts = m.snapshot(t);
		if (ret >= 0 && !(ts == cur)) { r.violation("copy|" + kn + ".*|sibling|differs", kn + lvl + ": fresh.set(\"\", object) differs from the object:" + diffdesc(m, cur, ts)); ok = false; }
		else if (ret < 0) { r.violation("copy|" + kn + ".*|sibling|refused", kn + lvl + fmt(": fresh.set(\"\", object) returned %d", ret)); ok = false; }
		// make the copy's strings its own business: overwrite them, then destroy it
		if (ok) for (auto &st : m.rich) if (!m.def.v[st.first].compare(0, 2, "s:")) { Lib l; mpt::mpt_object_set_string(t.obj, m.pname[st.first].c_str(), "changed in the copy", 0); }
		destroy(t);
		Snap again = m.snapshot(x);
		if (asan_error()) { r.violation("copy|" + kn + ".*|sibling|memory-error", kn + lvl + ": copy-out, modify and destroy the copy, read the original: AddressSanitizer report (shared storage)"); return false; }
		if (ok && !(again == cur)) { r.violation("copy|" + kn + ".*|sibling|shares-storage", kn + lvl + ": modifying/destroying the copy changed the original:" + diffdesc(m, cur, again)); ok = false; }
		if (ok) r.count("copy-out: equality + independence checked");
		if (!ok) return false;
	}
	if (m.cxx) {
		// (b) clone
		r.hint(("clone|" + kn + ".*").c_str());
		mpt::metatype *c; { Lib l; c = x.meta->clone(); }
		if (c) {
			Inst t = x; t.meta = c; mpt::object *co = 0;
			switch (m.kind) {
			case AXIS: co = static_cast<mpt::layout::graph::axis *>(c); t.raw = static_cast<mpt::axis *>(static_cast<mpt::layout::graph::axis *>(c)); break;
			case LINE: co = static_cast<mpt::layout::line *>(c); t.raw = static_cast<mpt::line *>(static_cast<mpt::layout::line *>(c)); break;
			case TEXT: co = static_cast<mpt::layout::text *>(c); t.raw = static_cast<mpt::text *>(static_cast<mpt::layout::text *>(c)); break;
			case GRAPH: co = static_cast<mpt::layout::graph *>(c); t.raw = static_cast<mpt::graph *>(static_cast<mpt::layout::graph *>(c)); break;
			default: co = static_cast<mpt::layout::graph::world *>(c); t.raw = static_cast<mpt::world *>(static_cast<mpt::layout::graph::world *>(c)); break;
			}
			t.obj = co;
			Snap ts = m.snapshot(t);
			destroy(t);
			Snap again = m.snapshot(x);
			if (asan_error()) { r.violation("clone|" + kn + ".*|-|memory-error", kn + lvl + ": clone(), destroy the clone, read the original: AddressSanitizer report"); return false; }
			if (!(ts == cur)) { r.violation("clone|" + kn + ".*|-|differs", kn + lvl + ": clone differs:" + diffdesc(m, cur, ts)); return false; }
			if (!(again == cur)) { r.violation("clone|" + kn + ".*|-|shares-storage", kn + lvl + ": destroying the clone changed the original:" + diffdesc(m, cur, again)); return false; }
			r.count("clone: equality + independence checked");
		} else r.count("clone returned NULL (not flagged)");
	}
	// (c) get by name: full names must resolve to the listed property, unique prefixes (when accepted) too
	for (size_t i = 0; i < m.pname.size(); ++i) {
		const std::string &full = m.pname[i];
		std::string upper = full; for (char &c : upper) c = toupper((unsigned char) c);
		for (size_t l = sweep ? 1 : full.size(); l <= full.size() + 1; ++l) {     // all prefixes only near the initial state: name resolution does not depend on values
			std::string q = l <= full.size() ? full.substr(0, l) : upper;
			int cnt = 0; for (auto &pn : m.pname) if (!strncasecmp(pn.c_str(), q.c_str(), q.size())) ++cnt;
			bool exact = false; for (auto &pn : m.pname) if (!strcasecmp(pn.c_str(), q.c_str())) exact = true;
			mpt::property pr; pr.name = q.c_str(); pr.desc = 0; pr.val._addr = 0; pr.val._type = 0;
			if (l == 1 || (!sweep && l == full.size())) r.hint(("get|" + kn + "." + full).c_str());
			int ret = x.obj->property(&pr);
			bool isfull = l == full.size();
			if (ret < 0) {
				if (isfull && cur.v[i].compare(0, 3, "ERR")) { r.violation("get|" + kn + "." + full + "|by-name|refused", kn + lvl + fmt(": get(\"%s\") returned %d although the property is listed at position %d", q.c_str(), ret, m.ppos[i])); return false; }
				r.count(isfull ? "get by name refused like by position" : "get by prefix refused");
				continue;
			}
			if (!exact && cnt != 1) { r.count("ambiguous prefix accepted by get (not flagged)"); continue; }
			if (exact && !isfull && l <= full.size()) continue;     // the prefix is itself another property's full name
			std::string got = render(pr.val._type, pr.val._addr);
			if (!pr.name || strcmp(pr.name, full.c_str()) || got != cur.v[i]) {
				r.violation("get|" + kn + "." + full + "|by-name|wrong-property", kn + lvl + ": get(\"" + q + "\") yields '" + (pr.name ? pr.name : "(null)") + "' = " + got + ", position " + std::to_string(m.ppos[i]) + " has '" + full + "' = " + cur.v[i]); return false; }
			r.count("get by name/unique prefix == get by position");
		}
	}
	// (d) print -> parse: the library's text for a colour / attribute value, set on a fresh object, denotes the same value
	for (size_t i = 0; i < m.pname.size(); ++i) {
		if (!cur.v[i].compare(0, 3, "ERR")) continue;
		bool colour = !cur.v[i].compare(0, 7, "colour:");
		bool attr = m.poly[i] || !cur.v[i].compare(0, 2, "y:") || !cur.v[i].compare(0, 2, "c:");
		if (!colour && !attr) continue;
		mpt::property pr; pr.name = 0; pr.desc = (const char *) (uintptr_t) m.ppos[i]; pr.val._addr = 0; pr.val._type = 0;
		if (x.obj->property(&pr) < 0) continue;
		std::string text;
		if (!lib_print(pr, text)) { r.count("print->parse: value has no text form"); continue; }
		r.hint(("print-parse|" + kn + "." + m.pname[i]).c_str());
		Inst t = make(m.kind, m.cxx);
		int ret; { Lib l; ret = mpt::mpt_object_set_string(t.obj, m.pname[i].c_str(), text.c_str(), 0); }
		Snap ts = m.snapshot(t);
		destroy(t);
		if (ret < 0) { r.violation("print-parse|" + kn + "." + m.pname[i] + "|" + (colour ? "colour" : "attribute") + "|refused", kn + lvl + ": value " + cur.v[i] + " prints as \"" + text + fmt("\" which set() refuses (%d)", ret)); return false; }
		if (ts.v[i] != cur.v[i]) { r.violation("print-parse|" + kn + "." + m.pname[i] + "|" + (colour ? "colour" : "attribute") + "|differs", kn + lvl + ": value " + cur.v[i] + " prints as \"" + text + "\" which parses to " + ts.v[i]); return false; }
		r.count(colour ? "print->parse colour round trip" : "print->parse attribute round trip");
	}
	r.hint("");
	return true;
}

// (e) property-wise generic assignment object::set(const object &), C++ only, once per new state
static bool probe_objset(Run &r, const Model &m, Inst &x, const Snap &cur)
{
	if (!m.cxx) return true;
	const std::string kn = kname[m.kind];
	r.hint(("assign|" + kn + ".*").c_str());
	Inst t = make(m.kind, true);
	{ Lib l; t.obj->set(*x.obj, 0); }
	Snap ts = m.snapshot(t);
	destroy(t);
	Snap again = m.snapshot(x);
	r.hint("");
	if (asan_error()) { r.violation("assign|" + kn + ".*|object|memory-error", kn + " (C++ class): fresh.set(object): AddressSanitizer report"); return false; }
	if (!(ts == cur)) { r.violation("assign|" + kn + ".*|object|differs", kn + " (C++ class): fresh.set(const object &) does not give equal properties:" + diffdesc(m, cur, ts)); return false; }
	if (!(again == cur)) { r.violation("assign|" + kn + ".*|object|shares-storage", kn + " (C++ class): destroying the assigned copy changed the original"); return false; }
	r.count("object::set(object): equality + independence checked");
	return true;
}

// ------------------------------------------------------------------ exploration
struct JobSpec { int kind; bool cxx; int depth; bool deep; int slice, nslice; };
static JobSpec parse_job(const std::string &job)
{
	JobSpec j; j.cxx = false; j.depth = 2; j.slice = 0; j.nslice = 1; j.kind = 0; j.deep = false;
	char name[32], mode = 'd'; int d = 2, s = 0, n = 1;
	sscanf(job.c_str(), "%31[^/]/%c%d/%d/%d", name, &mode, &d, &s, &n);
	std::string nm = name;
	if (nm.size() > 2 && nm.substr(nm.size() - 2) == "++") { j.cxx = true; nm.erase(nm.size() - 2); }
	for (int k = 0; k < NKIND; ++k) if (nm == kname[k]) j.kind = k;
	j.depth = d; j.slice = s; j.nslice = n; j.deep = mode == 'b';
	return j;
}
// d<N>: every op at every level up to depth N.   b<N>: levels below the last use the builder ops only (a few accepted
// values per property, reset-all, copy from a sibling), the last level executes every op from every state reached.
void mc_jobs(Tier t, std::vector<std::string> &jobs)
{
	struct { const char *mode; int slices; } plan_q[] = { {"d2", 3}, {"b3", 2} }, plan_t[] = { {"d2", 4}, {"b3", 4}, {"b4", 8} };
	auto add = [&](const char *mode, int ns) {
		for (int k = 0; k < NKIND; ++k) for (int c = 0; c < 2; ++c) for (int s = 0; s < ns; ++s)
			jobs.push_back(std::string(kname[k]) + (c ? "++" : "") + fmt("/%s/%d/%d", mode, s, ns)); };
	jobs.push_back("property_match");
	if (t == Quick) for (auto &p : plan_q) add(p.mode, p.slices);
	else for (auto &p : plan_t) add(p.mode, p.slices);
}

struct Node { Vec hist; Snap snap; std::string canon; };

static void ledger_check(Run &r, const Model &m, const std::string &what)
{
	if (ledger_live()) { r.violation("leak|" + std::string(kname[m.kind]) + ".*|-|storage-not-released", std::string(kname[m.kind]) + (m.cxx ? " (C++ class)" : " (C struct)") + ": " + what + fmt(": %zu block(s) still allocated after the objects were destroyed", ledger_live())); ledger_reset(); }
	else r.count("ledger: everything released");
}
static void ledger_check(Run &r, const Model &m, size_t op) { if (!ledger_live()) r.count("ledger: everything released"); else ledger_check(r, m, m.opname(m.ops[op])); }

// ------------------------------------------------------------------ name matching (mpt_property_match) on synthetic tables
// every table of 1..3 names over {a,b}^(1..3) x every candidate over {a,b,A}^(0..3) x match length -1..3.
// Reference: S = entries that start with the candidate (compared in max(mlen, length) characters; whole string for mlen < 0), case-insensitive.
// S empty => must refuse; S = {e} => e; |S| > 1 => refuse, or the entry returned must equal the candidate completely.
static void gen_strings(const char *alpha, int minlen, int maxlen, std::vector<std::string> &out)
{
	size_t na = strlen(alpha);
	for (int l = minlen; l <= maxlen; ++l) { size_t n = 1; for (int i = 0; i < l; ++i) n *= na; for (size_t k = 0; k < n; ++k) { std::string t; size_t q = k; for (int i = 0; i < l; ++i) { t += alpha[q % na]; q /= na; } out.push_back(t); } }
}
static bool match_case(Run &r, const std::vector<std::string> &tn, const std::vector<std::string> &cands, const Vec &v)
{
	size_t nt = v[0]; std::vector<const char *> tab; std::string desc = "{";
	for (size_t i = 0; i < nt; ++i) { tab.push_back(tn[v[1 + i]].c_str()); desc += (i ? "," : "") + tn[v[1 + i]]; }
	desc += "}";
	const std::string &c = cands[v[4]]; int mlen = (int) v[5] - 1;
	std::vector<int> S;
	// mlen is the MINIMUM number of characters: a longer candidate must be a prefix of the entry with all of its characters
	size_t cmp = mlen < 0 ? 0 : ((size_t) mlen > c.size() ? (size_t) mlen : c.size());
	for (size_t i = 0; i < nt; ++i) if (mlen < 0 ? !strcasecmp(c.c_str(), tab[i]) : !strncasecmp(c.c_str(), tab[i], cmp)) S.push_back((int) i);
	r.hint("match|property_match");
	int ret = mpt::mpt_property_match(c.c_str(), mlen, tab.data(), nt);
	r.hint("");
	std::string what = fmt("mpt_property_match(\"%s\", %d, ", c.c_str(), mlen) + desc + fmt(") = %d", ret);
	if (r.replaying) r.note("%s ; %zu entries match", what.c_str(), S.size());
	if (ret >= (int) nt) { r.violation("match|property_match|-|index-out-of-range", what); return false; }
	if (ret < 0) { r.count(S.empty() ? "match: unknown name refused" : (S.size() == 1 ? "match: unique name refused (not flagged)" : "match: ambiguous name refused")); return true; }
	if (S.empty()) { r.violation("match|property_match|unknown-name|accepted", what + ": no entry matches"); return false; }
	if (S.size() == 1) { if (ret != S[0]) { r.violation("match|property_match|unique-name|wrong-entry", what + fmt(": the only matching entry is %d", S[0])); return false; } r.count("match: unique name resolved"); return true; }
	if (strcasecmp(c.c_str(), tab[ret])) { r.violation("match|property_match|ambiguous-prefix|resolved-silently", what + fmt(": %zu entries match and entry %d is not the candidate itself", S.size(), ret)); return false; }
	r.count("match: ambiguous prefix resolved to the exact name");
	return true;
}
static void match_job(Run &r, const Vec *replay)
{
	std::vector<std::string> tn, cands;
	gen_strings("ab", 1, 3, tn); gen_strings("abA", 0, 3, cands);
	if (replay) { if (replay->size() == 6 && (*replay)[0] <= 3 && (*replay)[4] < cands.size()) { r.enter(*replay, ""); match_case(r, tn, cands, *replay); } return; }
	for (const char *k : { "match: unknown name refused", "match: ambiguous name refused", "match: unique name resolved", "nontrivial" }) r.require(k);
	r.additive = false;
	for (uint64_t nt = 1; nt <= 3; ++nt) {
		uint64_t lim[3] = { tn.size(), nt > 1 ? tn.size() : 1, nt > 2 ? tn.size() : 1 };
		for (uint64_t a = 0; a < lim[0]; ++a) for (uint64_t b = 0; b < lim[1]; ++b) for (uint64_t c = 0; c < lim[2]; ++c) {
			if (r.expired()) return;
			++r.states;
			for (uint64_t ci = 0; ci < cands.size(); ++ci) for (uint64_t ml = 0; ml <= 4; ++ml) {
				Vec v = { nt, a, b, c, ci, ml };
				if (!r.enter(v, "")) continue;
				match_case(r, tn, cands, v);
				++r.transitions; if (nt > 1) r.count("nontrivial");
			}
		}
	}
	r.sample("mpt_property_match: tables of 1..3 names over {a,b}^(1..3) x candidates over {a,b,A}^(0..3) x match length -1..3");
}

void mc_explore(Run &r, const std::string &job)
{
	if (job == "property_match") { match_job(r, 0); return; }
	JobSpec js = parse_job(job);
	Model m(js.kind, js.cxx);
	for (const char *k : { "nontrivial", "accepted", "refused", "frame condition checked", "reset: default differential checked", "read-back vs independent conversion checked", "self assignment: object unchanged checked", "accepted alias reads back the property it set",
	                       "no-text value: default differential checked", "blank text: default differential checked", "own-text value: read-back checked", "whole object, no value: default differential checked",
	                       "independence of previous state checked", "copy-out: equality + independence checked", "get by name/unique prefix == get by position", "ledger: everything released" }) r.require(k);
	r.additive = false;
	bool count_low = js.slice == 0 && !js.deep;
	if (count_low) {
		std::string pl; for (auto &p : m.pname) pl += (pl.empty() ? "" : ",") + p;
		r.sample(std::string(kname[m.kind]) + (m.cxx ? "++" : "") + fmt(": %zu properties discovered {", m.pname.size()) + pl + fmt("}, %zu names, %zu ops per state", m.names.size(), m.ops.size()));
	}
	{ Run warm; Inst x = make(js.kind, js.cxx); Snap s = m.snapshot(x); probe(warm, m, x, s); probe_objset(warm, m, x, s); destroy(x); asan_error(); }   // lazy singletons of the probes
	std::unordered_set<Hash128, Hash128H> seen;
	std::vector<Node> level, next;
	{
		Vec v(1, 0);
		if (!r.enter(v, "init")) return;
		ledger_reset();
		Inst x = make(js.kind, js.cxx);
		asan_error();
		Node n; n.hist = v; n.snap = m.snapshot(x); n.canon = m.canon(x, n.snap);
		bool ok = true;
		for (size_t i = 0; i < m.pname.size() && ok; ++i) if (!n.snap.v[i].compare(0, 3, "ERR")) {
			r.violation("get|" + std::string(kname[m.kind]) + "." + m.pname[i] + "|by-position|refused", std::string(kname[m.kind]) + (m.cxx ? " (C++ class)" : " (C struct)") + ": listed property '" + m.pname[i] + fmt("' (position %d) of a freshly initialised object cannot be read: ", m.ppos[i]) + n.snap.v[i]); ok = false; }
		if (asan_error()) { r.violation("get|" + std::string(kname[m.kind]) + ".*|by-position|memory-error", std::string(kname[m.kind]) + (m.cxx ? " (C++ class)" : " (C struct)") + ": reading all properties of a freshly initialised object: AddressSanitizer report"); ok = false; }
		ok = ok && probe(r, m, x, n.snap) && probe_objset(r, m, x, n.snap);
		destroy(x);
		if (ok) ledger_check(r, m, "probes on a fresh object");
		seen.insert(hash128(n.canon));
		if (count_low) ++r.states;
		if (ok) level.push_back(n);
	}
	for (int d = 0; d < js.depth && !level.empty(); ++d) {
		bool last = d == js.depth - 1;
		bool counted = last ? true : count_low;       // levels below the last are repeated in every slice, count them once
		next.clear();
		for (size_t ni = 0; ni < level.size(); ++ni) {
			if (last && js.nslice > 1 && (int) (ni % js.nslice) != js.slice) continue;
			const Node &n = level[ni];
			for (size_t op = 0; op < m.ops.size(); ++op) {
				if (r.expired()) return;
				if (js.deep && !last && !m.builder[op]) continue;
				Vec v = n.hist; v.push_back(op);
				if (!m.fresh[op].fault.empty()) {      // the op kills the process already on a fresh object: reported once, never executed in-process
					if (d == 0 && count_low) { r.violation_at(op_hint(m, m.ops[op]) + "|" + m.fresh[op].fault, v, std::string(kname[m.kind]) + (m.cxx ? " (C++ class): " : " (C struct): ") + m.opname(m.ops[op]) + " on a freshly initialised object: process fault " + m.fresh[op].fault); ++r.transitions; }
					else r.count("op that faults on a fresh object skipped in longer histories");
					continue;
				}
				if (!r.enter(v, "")) continue;
				Inst x = make(js.kind, js.cxx);
				for (size_t i = 1; i < n.hist.size(); ++i) m.raw_op(x, m.ops[n.hist[i]]);
				Snap after;
				bool ok = judged_op(r, m, x, op, n.snap, n.canon, after);
				if (counted) { ++r.transitions; if (d > 0) r.count("nontrivial"); }
				std::string c; bool fresh_state = false;
				if (ok) {
					c = m.canon(x, after);
					fresh_state = seen.insert(hash128(c)).second;
					if (fresh_state) {
						ok = probe(r, m, x, after, d == 0) && probe_objset(r, m, x, after);
						if (counted) ++r.states;
					}
				}
				destroy(x);
				if (ok) ledger_check(r, m, op); else if (ledger_live()) ledger_reset();
				if (ok && fresh_state && !last) { Node nn; nn.hist = v; nn.snap = after; nn.canon = c; next.push_back(nn); }
				if (fresh_state && count_low && r.samples.size() < 4 && v.size() >= 3) { std::string t; for (size_t i = 1; i < v.size(); ++i) t += (i > 1 ? " ; " : "") + m.opname(m.ops[v[i]]); r.sample(std::string(kname[m.kind]) + (m.cxx ? "++: " : ": ") + t); }
			}
		}
		level.swap(next);
	}
}

void mc_replay(Run &r, const std::string &job, const Vec &v)
{
	if (job == "property_match") { match_job(r, &v); return; }
	JobSpec js = parse_job(job);
	Model m(js.kind, js.cxx);
	r.enter(v, "");
	std::string pl; for (size_t i = 0; i < m.pname.size(); ++i) pl += (i ? "," : "") + m.pname[i] + "=" + m.def.v[i];
	r.note("%s%s: fresh object {%s}", kname[m.kind], m.cxx ? "++" : "", pl.c_str());
	ledger_reset();
	Inst x = make(js.kind, js.cxx);
	asan_error();
	Snap cur = m.snapshot(x); bool ok = true;
	if (v.size() == 1) {
		for (size_t i = 0; i < m.pname.size() && ok; ++i) if (!cur.v[i].compare(0, 3, "ERR")) {
			r.violation("get|" + std::string(kname[m.kind]) + "." + m.pname[i] + "|by-position|refused", std::string(kname[m.kind]) + ": listed property '" + m.pname[i] + "' of a freshly initialised object cannot be read: " + cur.v[i]); ok = false; }
		if (asan_error()) { r.violation("get|" + std::string(kname[m.kind]) + ".*|by-position|memory-error", std::string(kname[m.kind]) + ": reading all properties of a freshly initialised object: AddressSanitizer report"); ok = false; }
	}
	for (size_t i = 1; i < v.size() && ok; ++i) {
		if (v[i] >= m.ops.size()) { r.note("op index out of range"); break; }
		std::string c = m.canon(x, cur); Snap after;
		ok = judged_op(r, m, x, v[i], cur, c, after);
		cur = after;
	}
	if (ok) ok = probe(r, m, x, cur) && probe_objset(r, m, x, cur);
	destroy(x);
	if (ok) ledger_check(r, m, "replayed history");
}

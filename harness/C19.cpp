// C19 — value generators follow the iterator protocol and their formulas.
// For every source of a fully enumerated family (description grammar of mpt_iterator_create
// and all single/double token mutations, profile descriptions on small grids, the direct
// constructors, iterator-argument constructors, text / buffer / argument iterators, C++
// source<T>) the real code is created, walked once with the documented loop
// (value, convert, advance until <= 0) and compared with an independent denotation
// (count + closed forms).  Then a BFS over call histories {value, advance, reset,
// clone->switch to clone, consume 'd', consume 'u'} runs on fresh instances, deduplicated
// on (model position, normalised memory image of the iterator object); every read must
// reproduce the element of the straight walk (reset / clone differential oracle), every
// return value must follow the (n, p) protocol model, ASan and the allocation ledger are
// the memory oracles.
#include <cmath>
#include <cfloat>
#include <climits>
#include <cerrno>
#include <cstdarg>
#include <functional>
#include <cstdlib>
#include <sys/uio.h>
#include <sanitizer/allocator_interface.h>
#include "meta.h"
#include "array.h"
#include "types.h"
#include "convert.h"
#include "values.h"
#include "io.h"
#include "mc.hpp"

// the C++ library overrides mpt_meta_buffer (mpt++/meta_buffer.cpp); a weak reference does not
// pull that archive member, so the C implementation (mptcore/array/meta_buffer.c, the anchored
// file, pulled in through mpt_meta_arguments) is the one that gets linked and tested
namespace mpt { extern "C" metatype *mpt_meta_buffer(const array *) __attribute__((weak)); }

using namespace mc;
using namespace mpt;

const char *mc_id = "C19";
const char *mc_rule = "per source (description grammar x number grid, all 1- and 2-token mutations, profiles on grids of 1..3 points, direct/iterator-argument "
                      "constructors, text/buffer/argument iterators, C++ source<T>): creation + documented walk vs denotation, then BFS over call histories "
                      "{value,advance,reset,clone,consume d,consume u} with dedupe on (position, object memory image); "
                      "nontrivial = distinct (source,state,op) transitions taken after at least one reset or clone, or at/after the last element";

// ------------------------------------------------------------------ observations
static const uint64_t SENT_D = 0x7ff4dead0000beefULL;
static const uint32_t SENT_U = 0xDEADBEEFu;
static uint64_t dbits(double d) { uint64_t u; memcpy(&u, &d, 8); return u; }
static double bitsd(uint64_t u) { double d; memcpy(&d, &u, 8); return d; }

struct Obs {
	enum K { NONE, DBL, STR, BYTES, CONVERR, NODATA } k;
	double d; std::string s; int code;
	Obs() : k(NONE), d(0), code(0) {}
	static Obs dbl(double v) { Obs o; o.k = DBL; o.d = v; return o; }
	static Obs str(const std::string &v) { Obs o; o.k = STR; o.s = v; return o; }
	static Obs bytes(const std::string &v) { Obs o; o.k = BYTES; o.s = v; return o; }
	bool data() const { return k == DBL || k == STR || k == BYTES; }
	bool operator==(const Obs &o) const
	{
		if (k != o.k) return false;
		if (k == DBL) return dbits(d) == dbits(o.d) || (std::isnan(d) && std::isnan(o.d));
		if (k == STR || k == BYTES) return s == o.s;
		return true;
	}
	std::string text() const
	{
		switch (k) {
		case NONE: return "no value (NULL)";
		case DBL: return fmt("%.17g", d);
		case STR: return "\"" + s + "\"";
		case BYTES: return "bytes " + hex(s.data(), s.size());
		case CONVERR: return fmt("conversion error %d", code);
		default: return "conversion reported success but stored nothing";
		}
	}
};

// read types: 'd' number, 'k' key word, 's' remaining string, 'V' character vector (word), 'B' buffer element (string or raw bytes)
static Obs readval(const value *v, int rtype)
{
	Obs o;
	if (!v) return o;
	if (rtype == 'd') {
		double d = bitsd(SENT_D);
		int ret = mpt_value_convert(v, 'd', &d);
		if (ret < 0) { o.k = Obs::CONVERR; o.code = ret; return o; }
		if (dbits(d) == SENT_D) { o.k = Obs::NODATA; return o; }
		return Obs::dbl(d);
	}
	if (rtype == 'k' || rtype == 's') {
		static const char sent[] = "?sentinel?";
		const char *s = sent;
		int ret = mpt_value_convert(v, rtype, &s);
		if (ret < 0) { o.k = Obs::CONVERR; o.code = ret; return o; }
		if (s == sent) { o.k = Obs::NODATA; return o; }
		if (!s) { o.k = Obs::CONVERR; o.code = 0; return o; }   // a NULL string is how the text iterator reports "nothing left"
		return Obs::str(std::string(s));
	}
	if (rtype == 'V' || (rtype == 'B' && v->_type != 's')) {
		struct iovec vec; vec.iov_base = (void *) &vec; vec.iov_len = 0;
		int ret = mpt_value_convert(v, MPT_type_toVector('c'), &vec);
		if (ret < 0) { o.k = Obs::CONVERR; o.code = ret; return o; }
		if (vec.iov_base == (void *) &vec) { o.k = Obs::NODATA; return o; }
		if (vec.iov_len > 4096) return Obs::bytes(fmt("<%zu bytes>", vec.iov_len));
		return Obs::bytes(vec.iov_base ? std::string((const char *) vec.iov_base, vec.iov_len) : std::string());
	}
	// 'B' with a string element
	const char *s = 0;
	int ret = mpt_value_convert(v, 's', &s);
	if (ret < 0) { o.k = Obs::CONVERR; o.code = ret; return o; }
	return Obs::str(s ? std::string(s) : std::string("(null)"));
}

// ------------------------------------------------------------------ denotation (reference model of a source)
struct Den {
	enum Cls { UNSURE, WELL, MAL } cls;   // UNSURE: no independent denotation, only the protocol / differential oracles apply
	enum Kind { NOKIND, LIN, FAC, RANGE, LIST, BOUND, POLY } kind;
	std::string fam;        // signature family
	std::string why;        // class label used in signatures
	bool plain;             // well formed in the shape of the project's own examples: refusal is a violation
	bool have_n; long double nlo, nhi;    // acceptable element count
	bool tail_error;        // the element after the last one is malformed text: advance reports an error instead of the end
	bool comparable;        // closed form is finite and meaningful
	long double a, b, c; uint64_t N;      // parameters (kind specific)
	std::vector<Obs> list;  // LIST: exact elements
	std::vector<long double> co, sh, grid;   // POLY
	Den() : cls(UNSURE), kind(NOKIND), fam("unknown"), plain(false), have_n(false), nlo(0), nhi(0), tail_error(false), comparable(false), a(0), b(0), c(0), N(0) {}
	bool expect(uint64_t i, Obs &o, long double &tol) const
	{
		tol = 0;
		if (cls != WELL) return false;
		if (kind == LIST) { if (i >= list.size()) return false; o = list[i]; return true; }
		if (!comparable) return false;
		long double v = 0;
		const long double E = DBL_EPSILON;
		switch (kind) {
		case LIN: v = a + (long double) i * (b - a) / (long double) N; tol = 4 * E * std::max(fabsl(a), fabsl(b)); if (i == 0) tol = 0; break;
		case RANGE: v = a + (long double) i * c; tol = 4 * E * std::max(fabsl(a), fabsl(v)); if (i == 0) tol = 0; break;
		case FAC: if (i == 0) v = c; else { v = a; for (uint64_t k = 1; k < i; ++k) v *= b; } tol = i ? 2 * (long double) (i + 1) * E * fabsl(v) : 0; break;
		case BOUND: v = i == 0 ? a : (i + 1 == N ? c : b); break;
		case POLY: {
			if (i >= grid.size()) return false;
			long double mag = 0; v = 0;
			for (size_t j = 0; j < co.size(); ++j) { long double t = co[j] * powl(grid[i] + sh[j], (long double) (co.size() - 1 - j)); v += t; mag += fabsl(t); }
			if (co.empty()) v = grid[i];
			tol = 8 * E * (long double) (co.size() + 1) * mag; break; }
		default: return false;
		}
		if (!std::isfinite((double) v) || fabsl(v) > DBL_MAX) return false;
		if (v != 0 && fabsl(v) < DBL_MIN * 4) return false;
		o = Obs::dbl((double) v);
		return true;
	}
};
static bool fin(long double x) { return std::isfinite((double) x) && fabsl(x) <= DBL_MAX; }

// reference parser for mpt_iterator_create descriptions.  Independent of the code under test; numbers are
// read with strtod/strtoull (number syntax is property C07, not this one).
struct RefParser {
	const char *p;
	void ws() { while (*p && isspace((unsigned char) *p)) ++p; }
	bool num(long double &v) { char *e; const char *q = p; while (*q && isspace((unsigned char) *q)) ++q; if (!*q) return false; double d = strtod(q, &e); if (e == q) return false; v = d; p = e; return true; }
	// 0 = none, 1 = ok, 2 = not representable / odd sign
	int cnt(uint64_t &v) { ws(); const char *q = p; if (*q == '+') ++q; if (!isdigit((unsigned char) *q)) return (*q == '-' && isdigit((unsigned char) q[1])) ? 2 : 0; char *e; errno = 0; unsigned long long u = strtoull(q, &e, 0); p = e; if (errno || u > 0xffffffffULL) return 2; v = u; return 1; }
};
static Den mal(const std::string &fam, const std::string &why) { Den d; d.cls = Den::MAL; d.fam = fam; d.why = why; return d; }

static Den denote_create(const char *desc, bool direct_values = false)
{
	Den d;
	if (!desc && direct_values) return mal("values", "null");
	RefParser r; r.p = desc ? desc : "";
	r.ws();
	if (!*r.p && !direct_values) {
		d.cls = Den::WELL; d.kind = Den::RANGE; d.fam = "default"; d.why = "default"; d.plain = true;
		d.a = 0; d.b = 1; d.c = 0.1L; d.have_n = true; d.nlo = d.nhi = 11; d.comparable = true;
		return d;
	}
	bool spaced2 = false;   // two adjacent white-space characters between tokens: the library's next-visible scanner may refuse these
	for (const char *q = desc ? desc : ""; *q; ++q) if (isspace((unsigned char) q[0]) && isspace((unsigned char) q[1])) spaced2 = true;
	if (!direct_values && isalpha((unsigned char) *r.p)) {
		std::string w;
		while (isalpha((unsigned char) *r.p)) w += (char) tolower((unsigned char) *r.p++);
		Den::Kind k = Den::NOKIND;
		if (w == "lin" || w == "linear") k = Den::LIN;
		else if (w == "fac" || w == "fact" || w == "factor") k = Den::FAC;
		else if (w == "range") k = Den::RANGE;
		else return mal("unknown", "unknown-kind");
		std::string fam = k == Den::LIN ? "linear" : (k == Den::FAC ? "factor" : "range");
		r.ws();
		if (*r.p != '(') return mal(fam, "no-open-paren");
		++r.p;
		d.kind = k; d.fam = fam; d.cls = Den::WELL; d.why = "well-formed";
		bool defaults = true;
		if (k == Den::LIN || k == Den::FAC) {
			int c = r.cnt(d.N);
			if (c == 0) return mal(fam, "no-count");
			if (c == 2) { d.cls = Den::UNSURE; d.why = "count-not-representable"; return d; }
		}
		if (k == Den::LIN) {
			d.a = 0; d.b = 1;
			r.ws();
			if (*r.p == ':') { ++r.p; defaults = false; if (!r.num(d.a) || !r.num(d.b)) return mal(fam, "bad-number"); }
			r.ws();
			if (*r.p != ')') return mal(fam, "no-close-paren");
			++r.p;
			d.have_n = true; d.nlo = d.nhi = (long double) d.N + 1;
			d.comparable = d.N >= 1 && fin(d.a) && fin(d.b);   // finite bounds whose difference overflows still denote finite elements
			d.plain = d.N >= 1 && d.N <= 1000 && d.comparable && fin((double) d.b - (double) d.a);   // refusing bounds whose distance overflows is fine, NaN elements are not
			if (d.comparable && !fin((double) d.b - (double) d.a)) d.why = "distance-overflow";
		}
		else if (k == Den::FAC) {
			// a = base, b = factor, c = initial value
			d.a = 10; d.b = 10; d.c = 0;
			bool havefact = false, odd = false;   // odd: white space inside the '::' of an omitted factor
			r.ws();
			if (*r.p == ':') {
				++r.p; defaults = false;
				if (!r.num(d.a)) return mal(fam, "bad-number");
				r.ws();
				if (*r.p == ':') {
					++r.p; r.ws();
					if (*r.p == ':') { if (r.p[-1] != ':') odd = true; ++r.p; if (!r.num(d.c)) return mal(fam, "bad-number"); }
					else {
						if (!r.num(d.b)) return mal(fam, "bad-number");
						havefact = true;
						r.ws();
						if (*r.p == ':') { ++r.p; if (!r.num(d.c)) return mal(fam, "bad-number"); }
					}
				}
			}
			r.ws();
			if (*r.p != ')') return mal(fam, "no-close-paren");
			++r.p;
			if (!havefact) d.b = d.a;
			d.have_n = true; d.nlo = d.nhi = (long double) d.N + 1;
			bool sane = fin(d.a) && fin(d.b) && fin(d.c) && d.b >= DBL_MIN && (havefact || d.a >= DBL_MIN);
			d.comparable = sane;
			d.plain = sane && !odd && d.N >= 1 && d.N <= 1000 && fabsl(d.a) < 1e6 && d.b < 1e6 && d.b > 1e-6;
			if (d.N == 0xffffffffULL) { d.plain = false; d.why = "count=max"; }
		}
		else {
			bool havestep = false;
			if (!r.num(d.a) || !r.num(d.b)) return mal(fam, "bad-number");
			defaults = false;
			r.ws();
			if (*r.p == ':') { ++r.p; if (!r.num(d.c)) return mal(fam, "bad-number"); havestep = true; }
			r.ws();
			if (*r.p != ')') return mal(fam, "no-close-paren");
			++r.p;
			long double span = d.b - d.a;
			if (!fin(d.a) || !fin(d.b) || !fin((double) d.b - (double) d.a)) return mal(fam, "nonfinite-span");
			if (!havestep) d.c = span / 10;
			if (havestep && !fin(d.c)) return mal(fam, "nonfinite-step");
			if (span == 0) {
				// equal bounds: the only element is the bound itself (refusing is fine as well)
				if (havestep && d.c != 0) { d.cls = Den::UNSURE; d.why = "equal-bounds"; return d; }
				d.why = "equal-bounds"; d.have_n = true; d.nlo = d.nhi = 1; d.comparable = true; d.c = 0;
			}
			else if (havestep && d.c <= 0 && span > 0) return mal(fam, "nonpositive-step");   // a zero or negative step denotes no finite sequence
			else if (span < 0 || d.c <= 0 || d.c > span) { d.cls = Den::UNSURE; d.why = "step-outside-span"; return d; }
			else {
				long double q = span / d.c;
				d.have_n = true; d.nlo = d.nhi = floorl(q * (1 + 8 * (long double) DBL_EPSILON)) + 1;   // the end point belongs to the range when (b-a)/step is integral within rounding
				d.comparable = true;
				d.plain = q <= 1000 && fabsl(d.a) < 1e6 && fabsl(d.b) < 1e6 && span > 1e-6;
				if (span < 1e-300) d.why = "tiny-span";
			}
		}
		r.ws();
		if (*r.p) return mal(fam, "trailing-text");   // "malformed descriptions are refused": text behind the closing parenthesis
		if (spaced2) d.plain = false;
		(void) defaults;
		return d;
	}
	// explicit value list: white-space separated numbers; a malformed tail is detected lazily (advance reports an error)
	d.kind = Den::LIST; d.fam = "values"; d.cls = Den::WELL; d.why = "well-formed";
	for (;;) {
		long double v;
		const char *save = r.p;
		if (!r.num(v)) {
			r.p = save; r.ws();
			if (*r.p) d.tail_error = true;
			break;
		}
		if (std::isnan((double) v) && !d.list.empty()) { d.tail_error = true; break; }
		d.list.push_back(Obs::dbl((double) v));
		if (*r.p && !isspace((unsigned char) *r.p)) { const char *q = r.p; if (q[0]) { d.tail_error = true; break; } }
	}
	if (d.list.empty()) return mal("values", "no-number");
	d.have_n = true; d.nlo = d.nhi = d.list.size();
	d.comparable = true;
	d.plain = !d.tail_error && !std::isnan(d.list[0].d);
	if (d.tail_error) d.why = "malformed-tail";
	if (std::isnan(d.list[0].d)) { d.cls = Den::UNSURE; d.why = "nan-first"; }
	return d;
}

// ------------------------------------------------------------------ source specifications
enum Fam { F_CREATE, F_VALUES, F_PROFILE, F_LINAPI, F_BNDAPI, F_ITERARG, F_TEXT, F_BUFFER, F_ARGS, F_CXXD, F_CXXI, F_VARARG, F_CXXBUF };
struct Spec {
	Fam fam;
	bool null_text, null_sep, null_arr, untyped;
	std::string text, sep;          // description / text / iterator-argument list
	std::vector<double> grid;       // PROFILE grid, CXX data, BUFFER of doubles
	std::string bytes; bool dblbuf; // BUFFER / ARGS raw content
	uint32_t len; double a, b, c;   // direct constructors
	bool probe;                     // TEXT of integer literals: typed conversions of the current element and bare advance are part of the alphabet
	int step, rtype, argkind;       // CXX step; read type; ITERARG: 0 linear 1 factor 2 range
	Den den;
	Spec() : fam(F_CREATE), null_text(false), null_sep(true), null_arr(false), untyped(false), dblbuf(false), len(0), a(0), b(0), c(0), probe(false), step(1), rtype('d'), argkind(0) {}
	std::string label() const
	{
		auto q = [](const std::string &s, bool null) { return null ? std::string("NULL") : "\"" + (s.size() > 90 ? s.substr(0, 40) + fmt(" ...(%zu characters)... ", s.size()) + s.substr(s.size() - 30) : s) + "\""; };
		auto g = [&]() { std::string s = "["; for (size_t i = 0; i < grid.size(); ++i) s += (i ? "," : "") + fmt("%g", grid[i]); return s + "]"; };
		switch (fam) {
		case F_CREATE: return "mpt_iterator_create(" + q(text, null_text) + ")";
		case F_VALUES: return "mpt_iterator_values(" + q(text, null_text) + ")";
		case F_PROFILE: return "mpt_iterator_profile(" + (null_arr ? std::string("empty array") : (untyped ? "untyped " : "") + g()) + ", " + q(text, null_text) + ")";
		case F_LINAPI: return fmt("mpt_iterator_linear(%u, %g, %g)", len, a, b);
		case F_BNDAPI: return fmt("mpt_iterator_boundary(%u, %g, %g, %g)", len, a, b, c);
		case F_ITERARG: return std::string(argkind == 0 ? "_mpt_iterator_linear" : (argkind == 1 ? "_mpt_iterator_factor" : "_mpt_iterator_range")) + "(iterator over " + q(text, false) + ")";
		case F_TEXT: return "mpt_iterator_string(" + q(text, null_text) + ", " + q(sep, null_sep) + ") read as '" + std::string(1, (char) rtype) + "'";
		case F_BUFFER: case F_ARGS: return std::string(fam == F_BUFFER ? "mpt_meta_buffer(" : "mpt_meta_arguments(") + (null_arr ? std::string("NULL") : (dblbuf ? "double " + g() : "char " + hex(bytes.data(), bytes.size()))) + ")";
		case F_CXXD: return "source<double>(" + g() + fmt(", %zu, %d)", grid.size(), step);
		case F_CXXI: return "source<int>(" + g() + fmt(", %zu, %d)", grid.size(), step);
		case F_VARARG: return "mpt_process_vararg(\"" + text + "\", " + g() + ")";
		case F_CXXBUF: return "io::buffer::metatype::create(char " + hex(bytes.data(), bytes.size()) + ")";
		}
		return "?";
	}
	bool numeric() const { return fam == F_CREATE || fam == F_VALUES || fam == F_PROFILE || fam == F_LINAPI || fam == F_BNDAPI || fam == F_ITERARG; }
};

struct RawArr { buffer *buf; };   // layout of mpt::array / MPT_STRUCT(array)

// ------------------------------------------------------------------ a live instance of a source
struct Inst {
	metatype *mt; iterator *it;
	RawArr arr;
	metatype *argmt;
	source<double> *sd; source<int> *si; double *dd; int *di;
	const void *ext; size_t extsz;
	Inst() : mt(0), it(0), argmt(0), sd(0), si(0), dd(0), di(0), ext(0), extsz(0) { arr.buf = 0; }
	static char *exact(const std::string &s) { char *p = (char *) malloc(s.size() + 1); memcpy(p, s.c_str(), s.size() + 1); return p; }
	bool create(const Spec &sp)
	{
		Lib scope;
		errno = 0;
		switch (sp.fam) {
		case F_CREATE: case F_VALUES: {
			char *d = sp.null_text ? 0 : exact(sp.text);
			mt = sp.fam == F_CREATE ? mpt_iterator_create(d) : mpt_iterator_values(d);
			free(d);   // the iterator must not keep pointers into the caller's text
			break; }
		case F_PROFILE: {
			if (!sp.null_arr) {
				if (sp.untyped) { mpt_array_append((array *) &arr, sp.grid.size() * sizeof(double), sp.grid.data()); }
				else { double *g = mpt_values_prepare((typed_array<double> *) &arr, (long) sp.grid.size()); if (g) memcpy(g, sp.grid.data(), sp.grid.size() * sizeof(double)); }
			}
			char *d = sp.null_text ? 0 : exact(sp.text);
			mt = mpt_iterator_profile((const typed_array<double> *) &arr, d);
			free(d);
			if (arr.buf) { ext = arr.buf; extsz = sizeof(buffer) + arr.buf->_size; }
			mpt_array_clone((array *) &arr, 0);   // drop our reference: a profile that needs the grid must hold its own
			break; }
		case F_LINAPI: mt = mpt_iterator_linear(sp.len, sp.a, sp.b); break;
		case F_BNDAPI: mt = mpt_iterator_boundary(sp.len, sp.a, sp.b, sp.c); break;
		case F_ITERARG: {
			char *d = exact(sp.text);
			argmt = mpt_iterator_string(d, 0);   // text arguments convert to both 'u' and 'd'
			free(d);
			if (!argmt) break;
			iterator *ai = 0;
			argmt->convert(TypeIteratorPtr, &ai);
			value v; v._addr = &ai; v._type = TypeIteratorPtr;
			mt = sp.argkind == 0 ? _mpt_iterator_linear(&v) : (sp.argkind == 1 ? _mpt_iterator_factor(&v) : _mpt_iterator_range(&v));
			argmt->unref(); argmt = 0;
			break; }
		case F_TEXT: {
			char *t = sp.null_text ? 0 : exact(sp.text), *s = sp.null_sep ? 0 : exact(sp.sep);
			mt = mpt_iterator_string(t, s);
			free(t); free(s);
			break; }
		case F_BUFFER: case F_ARGS: {
			if (!sp.null_arr) {
				if (sp.dblbuf) { double *g = mpt_values_prepare((typed_array<double> *) &arr, (long) sp.grid.size()); if (g) memcpy(g, sp.grid.data(), sp.grid.size() * sizeof(double)); }
				else if (sp.bytes.size()) { mpt_array_append((array *) &arr, sp.bytes.size(), sp.bytes.data()); if (arr.buf && !sp.untyped) arr.buf->_content_traits = mpt_type_traits('c'); }
			}
			mt = sp.fam == F_BUFFER ? mpt_meta_buffer(sp.null_arr ? 0 : (array *) &arr) : mpt_meta_arguments(sp.null_arr ? 0 : (array *) &arr);
			if (arr.buf) { ext = arr.buf; extsz = sizeof(buffer) + arr.buf->_size; }
			mpt_array_clone((array *) &arr, 0);
			break; }
		case F_CXXBUF: {
			if (sp.bytes.size()) { mpt_array_append((array *) &arr, sp.bytes.size(), sp.bytes.data()); if (arr.buf) arr.buf->_content_traits = mpt_type_traits('c'); }
			mt = io::buffer::metatype::create((array *) &arr);
			if (arr.buf) { ext = arr.buf; extsz = sizeof(buffer) + arr.buf->_size; }
			mpt_array_clone((array *) &arr, 0);
			break; }
		case F_CXXD: {
			dd = (double *) malloc(sp.grid.size() * sizeof(double) + (sp.grid.empty() ? 1 : 0));
			for (size_t i = 0; i < sp.grid.size(); ++i) dd[i] = sp.grid[i];
			sd = new source<double>(dd, (long) sp.grid.size(), sp.step); it = sd;
			ext = dd; extsz = sp.grid.size() * sizeof(double);
			return true; }
		case F_CXXI: {
			di = (int *) malloc(sp.grid.size() * sizeof(int) + (sp.grid.empty() ? 1 : 0));
			for (size_t i = 0; i < sp.grid.size(); ++i) di[i] = (int) sp.grid[i];
			si = new source<int>(di, (long) sp.grid.size(), sp.step); it = si;
			ext = di; extsz = sp.grid.size() * sizeof(int);
			return true; }
		}
		if (!mt) return false;
		it = 0;
		mt->convert(TypeIteratorPtr, &it);
		return it != 0;
	}
	// clone and continue on the clone; the original is released first-hand so the clone must be self-contained
	int clone()
	{
		Lib scope;
		if (!mt) return -1;
		metatype *c = mt->clone();
		if (!c) return 0;
		iterator *ci = 0;
		c->convert(TypeIteratorPtr, &ci);
		mt->unref();
		mt = c; it = ci;
		return ci ? 1 : -2;
	}
	void destroy()
	{
		Lib scope;
		if (mt) mt->unref();
		if (argmt) argmt->unref();
		if (arr.buf) mpt_array_clone((array *) &arr, 0);
		delete sd; delete si; free(dd); free(di);
		mt = 0; it = 0; argmt = 0; sd = 0; si = 0; dd = 0; di = 0;
	}
	// memory image of the iterator object with self / external pointers replaced by offsets
	std::string image() const
	{
		const void *base; size_t sz;
		if (sd) { base = sd; sz = sizeof(*sd); } else if (si) { base = si; sz = sizeof(*si); }
		else { base = mt; sz = mt ? __sanitizer_get_allocated_size(mt) : 0; }
		std::string s((const char *) base, sz);
		uintptr_t b = (uintptr_t) base, e = (uintptr_t) ext;
		for (size_t off = 0; off + 8 <= sz; off += 8) {
			uintptr_t w; memcpy(&w, s.data() + off, 8);
			if (w >= b && w <= b + sz) w = 0x5E1F000000000000ULL + (w - b);
			else if (e && w >= e && w <= e + extsz) w = 0xE870000000000000ULL + (w - e);
			else continue;
			memcpy(&s[off], &w, 8);
		}
		return s;
	}
};

// ------------------------------------------------------------------ protocol model and oracle
enum Op { READ, ADV, RESET, CLONE, CONSD, CONSU, STEP, PRB_I, PRB_Y, PRB_Q, PRB_D, PRB_K, NOPS };
static const int prbtype[] = { 'i', 'y', 'q', 'd', 'k' };
static const char *opn[] = { "value", "advance", "reset", "clone", "consume(d)", "consume(u)", "value+advance", "convert(i)", "convert(y)", "convert(q)", "convert(d)", "convert(k)" };
static const uint64_t BIG = ~(uint64_t) 0;
static const size_t WALKCAP = 40;

struct Walk {                 // result of the documented loop on a fresh instance
	uint64_t n;               // elements visited (BIG: more than WALKCAP)
	bool tail_error;
	std::vector<Obs> ref;     // elements in walk order
	Walk() : n(0), tail_error(false) {}
};
struct Model {
	uint64_t p, base; bool dirty, armed; int ctx;   // armed (text): the current element was converted successfully, which is what delimits it for a bare advance; ctx: 0 fresh, 1 after reset, 2 in clone; base: position a reset returns to
	Model() : p(0), base(0), dirty(false), armed(false), ctx(0) {}
};

struct Counters { uint64_t nontrivial, refused, accepted, spurious, closed, bounded, clone_unsupported, reset_refused, adv0_past_end, nonfinite_skip, lossy, unstable; };
static Counters C;

struct Src {
	Run &r; const Spec &sp; uint64_t idx; std::string fam; bool verbose;
	bool bad; uint64_t nviol;
	Src(Run &run, const Spec &s, uint64_t i) : r(run), sp(s), idx(i), fam(s.den.fam), verbose(false), bad(false), nviol(0) {}
	Vec vec(const Vec &hist) const { Vec v(1, idx); v.insert(v.end(), hist.begin(), hist.end()); return v; }
	void viol(const std::string &sig, const Vec &hist, const std::string &what)
	{
		std::string h;
		for (size_t i = 0; i < hist.size(); ++i) h += (i ? " ; " : "") + std::string(opn[hist[i]]);
		r.violation_at(sig, vec(hist), sp.label() + (hist.empty() ? "" : " after [" + h + "]") + ": " + what);
		bad = true; ++nviol;
	}
	const char *posc(const Walk &w, uint64_t p) const { return w.n != BIG && p >= w.n ? "past-end" : (w.n != BIG && p + 1 == w.n ? "last" : (p ? "p>0" : "p=0")); }
	std::string ctxpos(const Walk &w, const Model &m) const { static const char *cn[] = { "", "after-reset,", "in-clone,", "after-refused-reset," }; return std::string(cn[m.ctx]) + posc(w, m.p); }
	bool ops_enabled(int op) const
	{
		switch (sp.fam) {
		case F_TEXT: if (sp.probe && (op == ADV || op >= PRB_I)) return true;
			return op == READ || op == STEP || op == RESET || op == CLONE || (op == CONSD && sp.rtype == 'd') || (op == CONSU && sp.rtype == 'd' && sp.text.find_first_not_of("1 ,") == std::string::npos);   // other numerals parse differently as unsigned
		case F_BUFFER: case F_ARGS: return op == READ || op == ADV || op == RESET || op == CLONE || op >= PRB_I;
		case F_CXXD: case F_CXXI: return op == READ || op == ADV || op == RESET || op == CONSD || op == CONSU;
		case F_VARARG: return op == READ || op == ADV || op == RESET || op == CONSD || op == PRB_I;
		case F_CXXBUF: return op == READ || op == ADV || op == RESET || op == CLONE;
		default: return op != STEP && op != PRB_K && op != PRB_Y && op != PRB_Q;   // number generators: value() is stateless, two target types suffice
		}
	}
	// one operation on implementation + model; false = violation reported (bad set) or op refused by the engine
	bool apply(Inst &in, Model &m, const Walk &w, int op, const Vec &pre)
	{
		Vec hist = pre; hist.push_back(op);
		std::string where = ctxpos(w, m);
		bool inrange = w.n == BIG || m.p < w.n;
		bool last = w.n != BIG && m.p + 1 == w.n;
		asan_error();
		r.hint((std::string(opn[op]) + "|" + fam + "|" + where).c_str());
		if (op == READ || op == STEP) {
			const value *v; Obs o;
			{ Lib scope; v = in.it->value(); o = readval(v, sp.rtype); }
			if (verbose) r.note("  value() -> %s", o.text().c_str());
			if (asan_error()) { viol("value|" + fam + "|" + where + "|memory", hist, "reading the current element touches memory outside the object (AddressSanitizer)"); return false; }
			if (inrange) {
				if (!o.data()) { viol("value|" + fam + "|" + where + "|missing", hist, fmt("element %llu of the walk is not readable: %s", (unsigned long long) m.p, o.text().c_str())); return false; }
				if (!m.dirty && !(o == w.ref[m.p])) { viol("value|" + fam + "|" + where + "|differs-from-walk", hist, fmt("element %llu reads %s, the straight walk gave %s", (unsigned long long) m.p, o.text().c_str(), w.ref[m.p].text().c_str())); return false; }
			}
			else if (o.data() || o.k == Obs::NODATA) { viol("value|" + fam + "|" + where + "|not-reported", hist, "reading past the end is not reported: " + o.text()); return false; }
			if (inrange) m.armed = true;
			if (op == READ) return true;
		}
		if (op >= PRB_I && op < NOPS) {
			// typed conversion of the current element without advancing; a refused conversion must change nothing (checked by what follows)
			int type = prbtype[op - PRB_I];
			unsigned char buf[16]; memset(buf, 0xA5, sizeof buf);
			const value *v; int ret = 0;
			{ Lib scope; v = in.it->value(); if (v) ret = mpt_value_convert(v, type, buf); }
			bool stored = false; for (unsigned char c : buf) if (c != 0xA5) stored = true;
			if (verbose) r.note("  value()%s convert('%c') -> %d%s", v ? "" : " = NULL,", type, ret, stored ? ", stored" : "");
			if (asan_error()) { viol("convert|" + fam + "|" + where + "|memory", hist, fmt("converting the current element to '%c' touches memory outside the object (AddressSanitizer)", type)); return false; }
			if (!v) { if (inrange) { viol("value|" + fam + "|" + where + "|missing", hist, fmt("element %llu of the walk has no value", (unsigned long long) m.p)); return false; } return true; }
			if (!inrange) { if (ret >= 0 && sp.fam == F_TEXT) { viol("convert|" + fam + "|" + where + "|not-reported", hist, fmt("converting past the end to '%c' returned %d", type, ret)); return false; } return true; }
			if (ret < 0) { r.count(fmt("convert_refused:%c", type)); return true; }
			r.count(fmt("convert_accepted:%c", type));
			if (sp.fam == F_TEXT && sp.probe) {
				if (!stored) { viol("convert|" + fam + "|" + where + "|success-without-value", hist, fmt("conversion to '%c' returned %d but stored nothing", type, ret)); return false; }
				long long want = (long long) w.ref[m.p].d, got = 0; bool cmp = true;
				switch (type) {
				case 'i': { int32_t x; memcpy(&x, buf, 4); got = x; cmp = want >= INT32_MIN && want <= INT32_MAX; break; }
				case 'y': { uint8_t x; memcpy(&x, buf, 1); got = x; cmp = want >= 0 && want <= 255; break; }
				case 'q': { uint16_t x; memcpy(&x, buf, 2); got = x; cmp = want >= 0 && want <= 65535; break; }
				case 'd': { double x; memcpy(&x, buf, 8); got = (long long) x; break; }
				default: { const char *k; memcpy(&k, buf, sizeof k); got = strtoll(k, 0, 10); break; }
				}
				if (!cmp) r.count("convert_out_of_range_accepted(not flagged, C07)");
				else if (got != want) { viol("convert|" + fam + "|" + where + "|wrong-value", hist, fmt("conversion to '%c' gave %lld, the element is %lld", type, got, want)); return false; }
				m.armed = true;
			}
			return true;
		}
		if (op == ADV || op == STEP) {
			if (op == ADV && sp.fam == F_TEXT && inrange && !m.armed) return false;   // a bare advance on unread text consumes the rest by design: not part of the alphabet
			int a; { Lib scope; a = in.it->advance(); }
			if (verbose) r.note("  advance() -> %d", a);
			if (asan_error()) { viol("advance|" + fam + "|" + where + "|memory", hist, "advance touches memory outside the object (AddressSanitizer)"); return false; }
			if (!inrange) {
				if (a > 0) { viol("advance|" + fam + "|" + where + "|not-reported", hist, fmt("advancing past the end returned %d (more elements)", a)); return false; }
				if (!a) ++C.adv0_past_end;
			}
			else if (last) {
				if (w.tail_error) { if (a >= 0) { viol("advance|" + fam + "|" + where + "|tail-error-lost", hist, fmt("the walk reported an error behind the last element, now advance returned %d", a)); return false; } /* position and element stay as they are */ }
				else if (a > 0) { viol("advance|" + fam + "|" + where + "|reports-more", hist, fmt("advance from the last element returned %d (more elements)", a)); return false; }
				else if (a < 0) { viol("advance|" + fam + "|" + where + "|error-instead-of-end", hist, fmt("advance from the last element returned error %d", a)); return false; }
				else { ++m.p; m.armed = false; }
			}
			else {
				if (a == 0) { viol("advance|" + fam + "|" + where + "|early-end", hist, fmt("advance at element %llu of %s reported the end", (unsigned long long) m.p, w.n == BIG ? "many" : std::to_string(w.n).c_str())); return false; }
				if (a < 0) { viol("advance|" + fam + "|" + where + "|refused-with-elements-left", hist, fmt("advance at element %llu returned error %d", (unsigned long long) m.p, a)); return false; }
				++m.p; m.armed = false;
			}
			return true;
		}
		if (op == RESET) {
			int ret; { Lib scope; ret = in.it->reset(); }
			if (verbose) r.note("  reset() -> %d", ret);
			if (asan_error()) { viol("reset|" + fam + "|" + where + "|memory", hist, "reset touches memory outside the object (AddressSanitizer)"); return false; }
			if (ret < 0) { ++C.reset_refused; m.ctx = 3; return true; }   // reported failure: position and elements must be unchanged (checked by later reads)
			m.p = m.base; m.dirty = false; m.armed = false; m.ctx = 1;
			return true;
		}
		if (op == CLONE) {
			int c = in.clone();
			if (verbose) r.note("  clone() -> %s", c > 0 ? "switched to clone, original released" : "not supported");
			if (asan_error()) { viol("clone|" + fam + "|" + where + "|memory", hist, "clone touches memory outside the objects (AddressSanitizer)"); return false; }
			if (c == 0) { ++C.clone_unsupported; return false; }
			if (c < 0) { viol("clone|" + fam + "|" + where + "|no-iterator", hist, "the clone does not offer the iterator interface"); return false; }
			m.ctx = 2;   // the clone is at the same position with the same current element: a bare advance stays enabled
			return true;
		}
		// consume
		double od = bitsd(SENT_D); uint32_t ou = SENT_U;
		int ret; { Lib scope; ret = op == CONSD ? mpt_iterator_consume(in.it, 'd', &od) : mpt_iterator_consume(in.it, 'u', &ou); }
		bool stored = op == CONSD ? dbits(od) != SENT_D : ou != SENT_U;
		if (verbose) r.note("  %s -> %d, stored %s", opn[op], ret, !stored ? "nothing" : (op == CONSD ? fmt("%.17g", od).c_str() : fmt("%u", ou).c_str()));
		if (asan_error()) { viol("consume|" + fam + "|" + where + "|memory", hist, "consume touches memory outside the object (AddressSanitizer)"); return false; }
		if (!inrange) {
			if (ret >= 0) { viol("consume|" + fam + "|" + where + "|not-reported", hist, fmt("consuming past the end returned %d%s", ret, stored ? " and stored a value" : "")); return false; }
			return true;
		}
		if (ret < 0) {
			if (last && w.tail_error) return true;   // refused: position and element stay as they are
			if (op == CONSD && w.ref[m.p].k == Obs::DBL) { viol("consume|" + fam + "|" + where + "|refused", hist, fmt("element %llu is readable but consume('d') returned %d", (unsigned long long) m.p, ret)); return false; }
			return true;   // conversion refused: position must be unchanged
		}
		if (!stored) { viol("consume|" + fam + "|" + where + "|success-without-value", hist, fmt("consume returned %d (success) but stored nothing", ret)); return false; }
		const Obs &want = w.ref[m.p];
		if (!m.dirty && want.k == Obs::DBL) {
			if (op == CONSD && !(Obs::dbl(od) == want)) { viol("consume|" + fam + "|" + where + "|wrong-value", hist, fmt("consumed %.17g, the walk gave %s", od, want.text().c_str())); return false; }
			if (op == CONSU) {
				if (want.d >= 0 && want.d <= 4294967295.0 && want.d == floor(want.d)) { if (ou != (uint32_t) want.d) { viol("consume|" + fam + "|" + where + "|wrong-value", hist, fmt("consumed %u, the walk gave %s", ou, want.text().c_str())); return false; } }
				else ++C.lossy;
			}
		}
		if (last && w.tail_error) { viol("consume|" + fam + "|" + where + "|tail-error-lost", hist, fmt("the advance behind the last element fails, consume returned %d", ret)); return false; }
		++m.p; m.armed = false;
		return true;
	}
};

// ------------------------------------------------------------------ per source: creation, documented walk, BFS
static int g_depth = 5;

static bool leak_check(Src &s, const Vec &hist, const char *stage)
{
	size_t live = ledger_live();
	if (live) { s.viol(std::string(stage) + "|" + s.fam + "|" + s.sp.den.why + "|leak", hist, fmt("%zu allocation(s) made by the library are still live after release", live)); return false; }
	return true;
}

// returns false when the source was refused or a violation ends its treatment
static bool create_checked(Src &s, Inst &in, bool first)
{
	const Den &den = s.sp.den;
	// clearing the ledger table is expensive: every instance is checked to be fully released, so it only needs a periodic sweep of tombstones
	static unsigned sweep = 0;
	if (ledger_live() || (++sweep & 1023) == 0) ledger_reset();
	asan_error();
	s.r.hint(("create|" + s.fam + "|" + den.why).c_str());
	bool ok = in.create(s.sp);
	bool asan = asan_error();
	if (!first) return ok && !asan;
	++s.r.transitions;
	if (asan) { s.viol("create|" + s.fam + "|" + den.why + "|memory", Vec(), "creation touches memory outside its arguments (AddressSanitizer)"); in.destroy(); return false; }
	if (!ok) {
		in.destroy();
		++C.refused;
		s.r.count("refused:" + s.fam);
		if (!leak_check(s, Vec(), "create")) return false;
		if (den.cls == Den::WELL && den.plain) { s.viol("create|" + s.fam + "|" + den.why + "|refused", Vec(), "a well-formed description in the documented shape is refused"); return false; }
		if (den.cls == Den::WELL) ++C.spurious;
		return false;
	}
	++C.accepted;
	s.r.count("accepted:" + s.fam);
	if (den.cls == Den::MAL) { s.viol("create|" + s.fam + "|" + den.why + "|malformed-accepted", Vec(), "a malformed description is accepted"); in.destroy(); return false; }
	return true;
}

static bool do_walk(Src &s, Inst &in, Walk &w)
{
	Run &r = s.r;
	const Den &den = s.sp.den;
	Vec hist;
	w = Walk();
	for (size_t i = 0; ; ++i) {
		if (i >= WALKCAP) { w.n = BIG; break; }
		asan_error();
		r.hint(("walk|" + s.fam + "|" + den.why).c_str());
		const value *v; Obs o;
		{ Lib scope; v = in.it->value(); o = readval(v, s.sp.rtype); }
		++r.transitions;
		if (s.verbose) r.note("walk: element %zu -> %s", i, o.text().c_str());
		if (asan_error()) { s.viol("value|" + s.fam + "|walk," + (i ? "p>0" : "p=0") + "|memory", hist, "reading the current element touches memory outside the object (AddressSanitizer)"); return false; }
		if (o.k == Obs::NODATA) { s.viol("value|" + s.fam + "|walk," + (i ? "p>0" : "p=0") + "," + den.why + "|success-without-value", hist, fmt("conversion of element %zu reports success but stores nothing", i)); return false; }
		if (!o.data()) {
			// nothing (more) to read
			if (i && s.sp.numeric() == false && s.sp.fam == F_TEXT) { /* a text whose next token does not convert: handled as end of the readable prefix */ }
			if (i) { s.viol("advance|" + s.fam + "|walk," + den.why + "|promised-more", hist, fmt("advance announced a further element but element %zu is not readable: %s", i, o.text().c_str())); return false; }
			w.n = 0; break;
		}
		w.ref.push_back(o);
		int a; { Lib scope; a = in.it->advance(); }
		++r.transitions;
		if (s.verbose) r.note("walk: advance -> %d", a);
		if (asan_error()) { s.viol("advance|" + s.fam + "|walk|memory", hist, "advance touches memory outside the object (AddressSanitizer)"); return false; }
		hist.push_back(STEP);
		if (a < 0) { w.n = i + 1; w.tail_error = true; break; }
		if (a == 0) { w.n = i + 1; break; }
	}
	// ---- denotation: count and closed forms
	if (w.tail_error && !(den.cls == Den::WELL && den.tail_error) && den.cls != Den::UNSURE) {
		s.viol("advance|" + s.fam + "|walk|error-instead-of-end", Vec(), fmt("advance behind element %llu reported an error although the description has no malformed tail", (unsigned long long) w.n - 1)); return false;
	}
	if (w.tail_error && den.cls == Den::UNSURE && s.sp.den.kind != Den::LIST && s.fam != "values" && s.fam != "unknown") {
		s.viol("advance|" + s.fam + "|walk|error-instead-of-end", Vec(), "advance reported an error while the current element was readable"); return false;
	}
	if (den.cls == Den::WELL && den.have_n) {
		long double n = w.n == BIG ? (long double) WALKCAP + 1 : (long double) w.n;
		bool ok = w.n == BIG ? den.nhi > (long double) WALKCAP : (n >= den.nlo && n <= den.nhi);
		if (!ok) {
			s.viol("walk|" + s.fam + "|" + den.why + "|count", Vec(), fmt("the walk visits %s elements, the description denotes %.0Lf", w.n == BIG ? fmt("more than %zu", WALKCAP).c_str() : std::to_string(w.n).c_str(), den.nlo));
			return false;
		}
		if (den.cls == Den::WELL && den.tail_error != w.tail_error) { s.viol("walk|" + s.fam + "|" + den.why + "|tail", Vec(), den.tail_error ? "the malformed tail of the description is never reported" : "an error is reported behind a well-formed description"); return false; }
	}
	if (den.cls == Den::WELL) {
		bool any = false;
		for (size_t i = 0; i < w.ref.size(); ++i) {
			Obs want; long double tol;
			if (!den.expect(i, want, tol)) continue;
			any = true;
			const Obs &got = w.ref[i];
			bool ok;
			if (got == want) ok = true;
			else if (want.k == Obs::DBL && got.k == Obs::DBL && !std::isnan(want.d)) ok = fabsl((long double) got.d - (long double) want.d) <= tol;
			else ok = got == want;
			if (!ok) {
				const char *pc = i == 0 ? "first" : (w.n != BIG && i + 1 == w.n ? "last" : "inner");
				s.viol("walk|" + s.fam + "|" + (den.why != "well-formed" && den.why != "profile" && den.why != "api" && den.why != "default" ? den.why + "," : std::string()) + pc + "|value", Vec(), fmt("element %zu is %s, the description denotes %s (tolerance %.3Lg)", i, got.text().c_str(), want.text().c_str(), tol));
				return false;
			}
		}
		if (!any && !w.ref.empty()) ++C.nonfinite_skip;
		else if (any) r.count("closed-form-checked:" + s.fam);
	}
	return true;
}

static void process(Run &r, const Spec &sp, uint64_t idx, const Vec *replay)
{
	Src s(r, sp, idx);
	s.verbose = r.replaying && replay;
	Walk w;
	++r.states;
	{
		Inst in;
		if (!create_checked(s, in, true)) return;
		if (r.replaying) r.note("%s: accepted, denotation class %s/%s", sp.label().c_str(), s.fam.c_str(), sp.den.why.c_str());
		if (sp.fam == F_ARGS && in.ext) {
			// the first segment is handed out as the command string of the arguments source: it must be a string inside the used bytes
			static const char sent[] = "?";
			const char *cmd = sent; int ret;
			const buffer *b = (const buffer *) in.ext; const char *data = (const char *) (b + 1);
			r.hint(("command|" + s.fam + "|" + sp.den.why).c_str());
			{ Lib scope; ret = in.mt->convert('s', &cmd); }
			++r.transitions;
			if (asan_error()) { s.viol("command|" + s.fam + "|" + sp.den.why + "|memory", Vec(), "converting the arguments source to its command string touches memory outside the array"); in.destroy(); return; }
			if (ret >= 0 && cmd && cmd != sent) {
				r.count("args-command-delivered");
				if (cmd < data || cmd > data + b->_used || !memchr(cmd, 0, b->_used - (cmd - data))) {
					s.viol("command|" + s.fam + "|" + sp.den.why + "|unterminated", Vec(), fmt("the command string handed out is not terminated inside the %zu used bytes of the array", (size_t) b->_used)); in.destroy(); return;
				}
				if (!sp.dblbuf && !sp.untyped && std::string(cmd) != std::string(sp.bytes.c_str())) { s.viol("command|" + s.fam + "|" + sp.den.why + "|wrong-value", Vec(), "the command string is not the first segment"); in.destroy(); return; }
			}
			else r.count("args-command-refused");
		}
		bool ok = do_walk(s, in, w);
		in.destroy();
		if (ok && !leak_check(s, Vec(), "release")) ok = false;
		if (!ok) return;
	}
	if (w.n == 0) r.count("empty-sources");
	if (w.tail_error) r.count("tail-error-sources");
	r.sample(sp.label() + fmt(" -> %s elements", w.n == BIG ? "many" : std::to_string(w.n).c_str()));

	// ---- replay of one history
	if (replay) {
		Inst in; Model m;
		if (!create_checked(s, in, false)) { r.note("creation failed on replay"); in.destroy(); return; }
		Vec hist;
		for (size_t i = 0; i < replay->size(); ++i) {
			int op = (int) (*replay)[i];
			r.note("op %s at p=%llu", opn[op], (unsigned long long) m.p);
			if (op >= NOPS || !s.apply(in, m, w, op, hist)) break;
			hist.push_back(op);
		}
		in.destroy();
		if (!s.bad) leak_check(s, hist, "release");
		return;
	}

	// ---- BFS over call histories, dedupe on (model, memory image)
	struct Node { Vec hist; Hash128 h; };
	std::unordered_set<Hash128, Hash128H> seen;
	std::deque<Node> frontier;
	auto canon = [&](Inst &in, const Model &m) { return hash128(fmt("%llu|%llu|%d%d|", (unsigned long long) m.p, (unsigned long long) m.base, (int) m.dirty, (int) m.armed) + in.image()); };
	{
		Inst in; Model m;
		if (!create_checked(s, in, false)) { s.viol("create|" + s.fam + "|" + sp.den.why + "|unstable", Vec(), "a second creation of the same source fails"); in.destroy(); return; }
		Hash128 h = canon(in, m);
		seen.insert(h); frontier.push_back(Node{Vec(), h});
		in.destroy();
	}
	bool open = false, unstable = false; Vec unstable_hist;
	while (!frontier.empty()) {
		Node nd = frontier.front(); frontier.pop_front();
		if ((int) nd.hist.size() >= g_depth) { open = true; continue; }
		if (r.expired()) return;
		r.beat();
		for (int op = 0; op < NOPS; ++op) {
			if (!s.ops_enabled(op)) continue;
			Inst in; Model m;
			if (!create_checked(s, in, false)) { in.destroy(); s.viol("create|" + s.fam + "|" + sp.den.why + "|unstable", nd.hist, "re-creation of the same source fails or faults"); return; }
			bool ok = true;
			for (size_t i = 0; i < nd.hist.size() && ok; ++i) { Vec pre(nd.hist.begin(), nd.hist.begin() + i); ok = s.apply(in, m, w, (int) nd.hist[i], pre); }
			if (!ok) {
				in.destroy();
				if (!s.bad) r.violation_at("ENGINE|nondeterministic-replay", s.vec(nd.hist), sp.label() + ": history prefix did not pass the oracle again");
				r.incomplete("nondeterministic replay");
				return;
			}
			// an address-dependent object state (possible only after a defect, e.g. a clone that computes pointers from garbage) is tolerated
			// when the source has reported violations: the op is still executed on this genuine execution of the history
			if (!(canon(in, m) == nd.h)) { if (!unstable) { unstable = true; unstable_hist = nd.hist; } ++C.unstable; }
			++r.transitions;
			if (m.ctx || (w.n != BIG && m.p + 1 >= w.n)) ++C.nontrivial;
			bool fine = s.apply(in, m, w, op, nd.hist);
			Vec h2 = nd.hist; h2.push_back(op);
			if (fine) {
				Hash128 h = canon(in, m);
				if (seen.insert(h).second) { frontier.push_back(Node{h2, h}); ++r.states; }
			}
			in.destroy();
			if (fine || !s.bad) { if (!leak_check(s, h2, "release")) return; }
			if (s.bad) { s.bad = false; }   // a violating transition is not expanded; siblings are still explored
		}
	}
	if (unstable && !s.nviol) { r.violation_at("ENGINE|nondeterministic-replay", s.vec(unstable_hist), sp.label() + ": history prefix did not reproduce its state and nothing else is wrong with this source"); r.incomplete("nondeterministic replay"); }
	if (open) ++C.bounded; else ++C.closed;
}

// ------------------------------------------------------------------ source families
static const char *NUMS[] = { "0", "1", "-1", "0.5", "1e308", "inf", "nan" };
static const int NNUMS = 7;
static const char *COUNTS[] = { "0", "1", "2", "3", "10", "2147483647", "4294967294", "4294967295" };
static const int NCOUNTS = 8;

static Spec mk_create(const std::string &text) { Spec s; s.fam = F_CREATE; s.text = text; s.den = denote_create(text.c_str()); return s; }

static void fam_lin(Tier t, std::vector<Spec> &v)
{
	for (const char *d : { "lin(2:-1e308 1e308)", "linear(4:1e308 -1e308)", "lin(1:-1e308 1e308)", "lin(3:-9e307 9e307)", "lin(2:-8e307 8e307)" }) v.push_back(mk_create(d));
	std::vector<std::string> kinds = { "lin", "linear" };
	if (t == Thorough) { kinds.push_back("LIN"); kinds.push_back("Linear"); }
	for (auto &k : kinds) for (int c = 0; c < NCOUNTS; ++c) {
		v.push_back(mk_create(k + "(" + COUNTS[c] + ")"));
		for (int a = 0; a < NNUMS; ++a) for (int b = 0; b < NNUMS; ++b) {
			v.push_back(mk_create(k + "(" + COUNTS[c] + ":" + NUMS[a] + " " + NUMS[b] + ")"));
			if (k == "lin") v.push_back(mk_create(k + "(" + COUNTS[c] + " : " + NUMS[a] + " " + NUMS[b] + ")"));
		}
	}
}
static void fam_fac(Tier t, int ci, std::vector<Spec> &v)
{
	std::vector<std::string> kinds = { "fac" };
	if (t == Thorough) { kinds.push_back("fact"); kinds.push_back("factor"); }
	std::string c = COUNTS[ci];
	for (auto &k : kinds) {
		v.push_back(mk_create(k + "(" + c + ")"));
		for (int a = 0; a < NNUMS; ++a) {
			std::string A = NUMS[a];
			v.push_back(mk_create(k + "(" + c + ":" + A + ")"));
			v.push_back(mk_create(k + "(" + c + ":" + A + "::)"));
			for (int b = 0; b < NNUMS; ++b) {
				std::string B = NUMS[b];
				v.push_back(mk_create(k + "(" + c + ":" + A + ":" + B + ")"));
				v.push_back(mk_create(k + "(" + c + ":" + A + "::" + B + ")"));
				for (int i = 0; i < NNUMS; ++i) v.push_back(mk_create(k + "(" + c + ":" + A + ":" + B + ":" + NUMS[i] + ")"));
			}
		}
	}
	if (t == Quick && ci == 3) for (const char *k : { "fact", "factor" }) for (const char *tail : { "(3)", "(3:2)", "(3:2:3)", "(3:2e-2::1)", "(3:2:3:1)", "(8:1:.5:2)" }) v.push_back(mk_create(std::string(k) + tail));
}
static void fam_range(Tier, std::vector<Spec> &v)
{
	static const char *steps[] = { "0", "1", "-1", "0.5", "1e308", "inf", "nan", "0.25", "0.1", "1e-7", "0.3" };
	for (int a = 0; a < NNUMS; ++a) for (int b = 0; b < NNUMS; ++b) {
		std::string A = NUMS[a], B = NUMS[b];
		v.push_back(mk_create("range(" + A + " " + B + ")"));
		v.push_back(mk_create("range( " + A + " " + B + " )"));
		for (const char *s : steps) { v.push_back(mk_create("range(" + A + " " + B + ":" + s + ")")); v.push_back(mk_create("Range(" + A + " " + B + " : " + s + ")")); }
	}
	for (const char *d : { "range(0 3:1)", "range(0 0.3:0.1)", "range(0 0.7:0.1)", "range(1 2:0.2)", "range(-1 1:0.4)", "range(0 1e-7)", "range(2 5)", "range(0 1000:1)", "range(0.5 0.5)", "range(-1 -1:0)",
	                      "range(0 1e-320:0)", "range(0 1e-320)", "range(0 1e-323)", "range(0 4e-324)", "range(-4e-324 4e-324)", "range(0 1e-310:1e-311)", "range(0 1e-320:-1e-321)" }) v.push_back(mk_create(d));
}
static void fam_values(Tier t, std::vector<Spec> &v)
{
	std::vector<std::string> tok(NUMS, NUMS + NNUMS);
	tok.push_back("x"); tok.push_back("2e-2"); tok.push_back(".5");
	for (auto &a : tok) {
		v.push_back(mk_create(a));
		for (auto &b : tok) {
			v.push_back(mk_create(a + " " + b));
			for (auto &c : tok) v.push_back(mk_create(a + " " + b + " " + c));
		}
	}
	for (const char *d : { "1 6 8", " 1 6 8", "1 6 8 ", "1  6\t8", "1 2 3 4 5 6 7 8 9", "1x", "1 2x", "1,2", "+1 -2", "-nan 1", "-inf 1", "0x10 1" }) v.push_back(mk_create(d));
	// the direct constructor
	for (const char *d : { "1 6 8", "-nan 1", "nan 1", "inf", "1 nan 2", "", " ", "x", "1 x" }) { Spec s; s.fam = F_VALUES; s.text = d; s.den = denote_create(d, true); v.push_back(s); }
	{ Spec s; s.fam = F_VALUES; s.null_text = true; s.den = denote_create(0, true); v.push_back(s); }
	(void) t;
}
static void fam_misc(Tier, std::vector<Spec> &v)
{
	{ Spec s = mk_create(""); s.null_text = true; s.den = denote_create(0); v.push_back(s); }
	for (const char *d : { "", " ", "  ", "\t", "lin", "lin(", "lin()", "lin( )", "fac", "fac(", "fac()", "fac( )", "fac(  ", "range", "range(", "range()", "range( )", "foo(3)", "foo", "l", "linea(3)", "linearx(3)",
	                       "abcdefghijklmnopqrstuvwxyzabcde(3)", "abcdefghijklmnopqrstuvwxyzabcdef(3)", "abcdefghijklmnopqrstuvwxyzabcdefghijklmnopqrstuvwxyz",
	                       "lin (3)", "lin  (3)", " lin(3)", "lin(3) ", "lin(3)x", "lin( 3 )", "lin(3 )", "lin(+3)", "lin(-3)", "lin(03)", "lin(0x3)", "lin(3.5)", "lin(3e0)", "lin(3:0 1:2)", "lin(3:0)", "lin(3:)", "lin(3:0 1",
	                       "fac(3:2::)", "fac(3::2)", "fac(3:2:3:1:)", "fac(3:2:3:)", "fac(3:2:", "fac(3:2::1", "fac(3:2:-1)", "fac(3:2:0)", "fac(3:-2)", "fac(3:0)", "fac(3:0:2)", "fac(3:1e-320)", "fac(3:2:1e-320)",
	                       "range(0)", "range(0 1:)", "range(0 1 2)", "range(0:1)", "range(1 0)", "range(1 0:-0.1)", "range(0 1:2)", "range(0 1:1e-9)",
	                       "lin(4 : 1 2)", "fact(3:2e-2::1)", "fac(8:1:.5:2)", "lin(20:0 180)", "1" }) v.push_back(mk_create(d));
}

// ---- token mutations
static const std::vector<std::vector<std::string>> &mut_bases()
{
	static const std::vector<std::vector<std::string>> b = {
		{ "lin", "(", "3", ")" },
		{ "lin", "(", "3", ":", "0", " ", "1", ")" },
		{ "range", "(", "0", " ", "1", ")" },
		{ "1", " ", "6", " ", "8" },
		{ "fac", "(", "3", ")" },
		{ "fac", "(", "3", ":", "2", ")" },
		{ "fac", "(", "3", ":", "2", ":", "3", ")" },
		{ "fact", "(", "3", ":", "2e-2", ":", ":", "1", ")" },
		{ "factor", "(", "3", ":", "2", ":", "3", ":", "1", ")" },
		{ "range", "(", "0", " ", "1", ":", "0.25", ")" },
		{ "lin", "(", "4", " ", ":", " ", "1", " ", "2", ")" },
		{ "linear", "(", "2", ":", "1", " ", "-1", ")" },
	};
	return b;
}
static void mutate1(const std::vector<std::string> &t, std::vector<std::vector<std::string>> &out)
{
	static const char *alpha[] = { "(", ")", ":", " ", "1", "x" };
	for (size_t pos = 0; pos <= t.size(); ++pos) for (const char *a : alpha) { auto m = t; m.insert(m.begin() + pos, a); out.push_back(m); }
	for (size_t pos = 0; pos < t.size(); ++pos) {
		for (const char *a : alpha) if (t[pos] != a) { auto m = t; m[pos] = a; out.push_back(m); }
		auto m = t; m.erase(m.begin() + pos); out.push_back(m);
	}
}
static std::string join(const std::vector<std::string> &t) { std::string s; for (auto &x : t) s += x; return s; }
static void fam_mut(int base, int order, int chunk, int chunks, std::vector<Spec> &v)
{
	std::vector<std::vector<std::string>> m1, m2;
	mutate1(mut_bases()[base], m1);
	std::set<std::string> all;
	for (auto &m : m1) all.insert(join(m));
	if (order >= 2) for (auto &m : m1) { m2.clear(); mutate1(m, m2); for (auto &x : m2) all.insert(join(x)); }
	size_t i = 0;
	for (auto &d : all) if ((int) (i++ % chunks) == chunk) v.push_back(mk_create(d));
}

// ---- profiles on small grids
static const std::vector<std::vector<double>> &grids()
{
	static const std::vector<std::vector<double>> g = { { 0 }, { 2 }, { 0, 1 }, { 1, -1 }, { 0, 1, 2 }, { 0.5, 2, -1 }, { 0, 1, 2, 3, 4 } };
	return g;
}
static Spec mk_profile(const std::vector<double> &g, const std::string &text) { Spec s; s.fam = F_PROFILE; s.grid = g; s.text = text; s.den.fam = "profile"; s.den.why = "unsure"; return s; }
static void fam_profile(Tier t, int gi, std::vector<Spec> &v)
{
	const std::vector<double> &g = grids()[gi];
	size_t L = g.size();
	// linear
	for (const char *k : { "lin ", "linear ", "lin:", "linear : ", "LIN " }) for (int a = 0; a < NNUMS; ++a) for (int b = 0; b < NNUMS; ++b) {
		Spec s = mk_profile(g, std::string(k) + NUMS[a] + " " + NUMS[b]);
		Den &d = s.den; d.cls = Den::WELL; d.kind = Den::LIN; d.fam = "linear"; d.why = "profile";
		d.a = strtod(NUMS[a], 0); d.b = strtod(NUMS[b], 0); d.N = L - 1; d.have_n = true; d.nlo = d.nhi = L;
		d.comparable = L >= 2 && fin(d.a) && fin(d.b) && fin((double) d.b - (double) d.a);
		d.plain = d.comparable;
		v.push_back(s);
	}
	// boundary
	static const char *bn[] = { "0", "1", "-1", "0.5", "nan" };
	for (const char *k : { "bound ", "boundary ", "bound:" }) for (const char *a : bn) for (const char *b : bn) for (const char *c : bn) {
		Spec s = mk_profile(g, std::string(k) + a + " " + b + " " + c);
		Den &d = s.den; d.cls = Den::WELL; d.kind = Den::BOUND; d.fam = "boundary"; d.why = "profile";
		d.a = strtod(a, 0); d.b = strtod(b, 0); d.c = strtod(c, 0); d.N = L; d.have_n = true; d.nlo = d.nhi = L;
		d.comparable = L >= 2; d.plain = L >= 2;
		// NaN elements: compare as NaN
		v.push_back(s);
	}
	// polynomial: coefficient lists of length 1..3, optional shifts
	static const char *cf[] = { "0", "1", "-1", "0.5", "2" };
	std::vector<std::vector<std::string>> lists;
	for (const char *a : cf) { lists.push_back({ a }); for (const char *b : cf) { lists.push_back({ a, b }); if (t == Thorough || gi >= 4) for (const char *c : cf) lists.push_back({ a, b, c }); } }
	static const std::vector<std::vector<std::string>> shifts = { {}, { "1" }, { "-1", "0.5" }, { "2", "1", "3" } };
	for (auto &cl : lists) for (auto &sh : shifts) for (const char *k : { "poly ", "poly:" }) {
		if (sh.size() == 3 && k[4] == ':') continue;
		std::string text = k;
		for (size_t i = 0; i < cl.size(); ++i) text += (i ? " " : "") + cl[i];
		if (!sh.empty()) { text += " :"; for (auto &x : sh) text += " " + x; }
		Spec s = mk_profile(g, text);
		Den &d = s.den; d.cls = Den::WELL; d.kind = Den::POLY; d.fam = "poly"; d.why = "profile";
		for (auto &x : cl) d.co.push_back(strtod(x.c_str(), 0));
		d.sh.assign(cl.size(), 0);
		for (size_t i = 0; i + 1 < cl.size() && i < sh.size(); ++i) d.sh[i] = strtod(sh[i].c_str(), 0);
		for (double x : g) d.grid.push_back(x);
		d.have_n = true; d.nlo = d.nhi = L; d.comparable = true; d.plain = true;
		v.push_back(s);
	}
	// coefficient lists around the parser's internal capacity: every coefficient counts (its power is counted from the end)
	if (gi == 4 || gi == 2) for (int nc : { 127, 128, 129, 130, 200 }) for (int variant = 0; variant < 3; ++variant) {
		std::string text = "poly";
		Spec s = mk_profile(g, "");
		Den &d = s.den;
		for (int i = 0; i < nc; ++i) { double cf = i + 3 >= nc ? 1 : 0; text += cf ? " 1" : " 0"; d.co.push_back(cf); }
		d.sh.assign(nc, 0);
		if (variant == 1) { text += " : 1"; d.sh[0] = 1; }
		s.text = text;
		if (variant == 2) { s.text += " no number"; s.den = mal("poly", fmt("trailing-text,%s", nc >= 128 ? "long-list" : "list")); v.push_back(s); continue; }
		d.cls = Den::WELL; d.kind = Den::POLY; d.fam = "poly"; d.why = nc > 128 ? "long-list" : "profile";
		for (double x : g) d.grid.push_back(x);
		d.have_n = true; d.nlo = d.nhi = L; d.comparable = true; d.plain = nc <= 128;
		v.push_back(s);
	}
	// odd / malformed profile descriptions: refusal or lenient acceptance, protocol oracle only
	for (const char *x : { "", " ", "lin", "lin 0", "linear", "line 0 1", "linx 0 1", "linear0 1", "lin 0 x", "bound 0 1", "bound", "boundary 0 1 x", "bounds 0 1 2", "poly", "poly ", "poly x", "polyx 1",
	                       "poly 1 0 :", "poly 1 0 : 1 2 3 4", "file /nonexistent/C19", "foo 1 2", "1 2 3", "  lin 0 1", "lin  0  1", "lin : 0 1", "lin::0 1", "poly  :  1 0" }) v.push_back(mk_profile(g, x));
	// text that is neither number, ':' nor white space inside / behind the value lists
	for (const char *x : { "poly 1 x", "poly 1 0 : x", "poly 1 0 : 1 x", "poly 1 0 x : 1", "lin 0 1 x", "linear 0 1 2", "bound 0 1 2 x", "boundary 0 1 2 3" }) {
		Spec s = mk_profile(g, x); s.den = mal(x[0] == 'p' ? "poly" : (x[0] == 'l' ? "linear" : "boundary"), "trailing-text"); v.push_back(s);
	}
	if (gi == 0) {
		Spec s = mk_profile(g, "lin 0 1"); s.null_text = true; s.den = mal("profile", "null"); v.push_back(s);
		Spec e = mk_profile(g, "lin 0 1"); e.null_arr = true; e.den = mal("profile", "no-grid"); v.push_back(e);
		Spec u = mk_profile(g, "lin 0 1"); u.untyped = true; u.den = mal("profile", "untyped-grid"); v.push_back(u);
		Spec p = mk_profile(g, "poly 1"); p.null_arr = true; p.den = mal("profile", "no-grid"); v.push_back(p);
	}
}

// ---- direct constructors and iterator-argument constructors
static void fam_api(Tier, std::vector<Spec> &v)
{
	for (uint32_t len : { 0u, 1u, 2u, 3u, 5u, 4294967295u }) for (int a = 0; a < NNUMS; ++a) for (int b = 0; b < NNUMS; ++b) {
		Spec s; s.fam = F_LINAPI; s.len = len; s.a = strtod(NUMS[a], 0); s.b = strtod(NUMS[b], 0);
		Den &d = s.den; d.cls = Den::WELL; d.kind = Den::LIN; d.fam = "linear"; d.why = "api";
		d.a = s.a; d.b = s.b; d.N = (uint64_t) len - 1; d.have_n = true; d.nlo = d.nhi = len;
		d.comparable = len >= 2 && fin(d.a) && fin(d.b) && fin(s.b - s.a); d.plain = d.comparable;
		v.push_back(s);
	}
	static const double bn[] = { 0, 1, -1, NAN };
	for (uint32_t len : { 0u, 1u, 2u, 3u, 5u, 4294967295u }) for (double a : bn) for (double b : bn) for (double c : bn) {
		Spec s; s.fam = F_BNDAPI; s.len = len; s.a = a; s.b = b; s.c = c;
		Den &d = s.den; d.cls = Den::WELL; d.kind = Den::BOUND; d.fam = "boundary"; d.why = "api";
		d.a = a; d.b = b; d.c = c; d.N = len; d.have_n = true; d.nlo = d.nhi = len; d.comparable = len >= 2; d.plain = len >= 2;
		v.push_back(s);
	}
}
static void fam_iterarg(Tier, std::vector<Spec> &v)
{
	static const char *nn[] = { "0", "1", "-1", "0.5" };
	// linear: count first last  == lin(count:first last)
	for (const char *c : { "1", "3", "0" }) for (const char *a : nn) for (const char *b : nn) {
		Spec s; s.fam = F_ITERARG; s.argkind = 0; s.text = std::string(c) + " " + a + " " + b;
		s.den = denote_create(("lin(" + std::string(c) + ":" + a + " " + b + ")").c_str()); s.den.why = "iterator-args"; s.den.plain = false;
		v.push_back(s);
	}
	// range: first last step
	for (const char *x : { "0 1 0.25", "0 1 0.5", "-1 1 0.4", "0 3 1", "1 1 0", "0 1 2" }) {
		Spec s; s.fam = F_ITERARG; s.argkind = 2; s.text = x;
		std::string a, b, c; { char A[32], B[32], Cc[32]; sscanf(x, "%31s %31s %31s", A, B, Cc); a = A; b = B; c = Cc; }
		s.den = denote_create(("range(" + a + " " + b + ":" + c + ")").c_str()); s.den.why = "iterator-args"; s.den.plain = false;
		v.push_back(s);
	}
	// factor with all four arguments
	for (const char *x : { "3 2 3 1", "3 2 2 0", "2 0.5 2 1", "0 2 3 1" }) {
		Spec s; s.fam = F_ITERARG; s.argkind = 1; s.text = x;
		char N[32], A[32], B[32], Cc[32]; sscanf(x, "%31s %31s %31s %31s", N, A, B, Cc);
		s.den = denote_create((std::string("fac(") + N + ":" + A + ":" + B + ":" + Cc + ")").c_str()); s.den.why = "iterator-args"; s.den.plain = false;
		v.push_back(s);
	}
	// argument lists with an element that is no number: malformed for every generator
	for (int k = 0; k < 3; ++k) for (const char *x : { "4 abc", "4 2 abc", "4 2 3 abc", "4 1e999", "0 1 abc", "4 0 abc" }) {
		Spec s; s.fam = F_ITERARG; s.argkind = k; s.text = x;
		if (k == 2 && x[0] == '4' && (x[2] == 'a' || x[2] == '1')) continue;   // range needs two bounds first
		if (k == 0 && std::string(x) == "4 2 3 abc") continue;                 // linear takes three arguments, a surplus one is not looked at
		if (k != 1 && std::string(x) == "4 1e999") continue;
		if (k == 2 && std::string(x) == "4 2 3 abc") continue;
		if (k == 1 && std::string(x) == "0 1 abc") { }
		s.den = mal(k == 0 ? "linear" : (k == 1 ? "factor" : "range"), "iterator-args,no-number");
		v.push_back(s);
	}
	// factor with omitted trailing arguments: same defaults as the text form ("default factor is replaced by base")
	for (const char *x : { "3", "3 2", "3 0.5", "3 2 3", "2 3", "3 -2" }) {
		Spec s; s.fam = F_ITERARG; s.argkind = 1; s.text = x;
		std::string t = x; for (char &c : t) if (c == ' ') c = ':';
		s.den = denote_create(("fac(" + t + ")").c_str()); s.den.why = "iterator-args,defaults"; s.den.plain = false;
		v.push_back(s);
	}
	// partial / odd argument lists: no independent denotation, protocol + differential oracles only
	for (int k = 0; k < 3; ++k) for (const char *x : { "3 0", "0 1", "0", "x", "-1 0 1", "0.5 0 1", "3 0 1 7", "3 x", "3 0 x", "1e10 0 1", "nan 0 1" }) {
		Spec s; s.fam = F_ITERARG; s.argkind = k; s.text = x;
		s.den.fam = k == 0 ? "linear" : (k == 1 ? "factor" : "range"); s.den.why = "iterator-args,partial";
		v.push_back(s);
	}
}

// ---- text, buffer, argument iterators, C++ sources
static void seqs(const std::vector<std::string> &tok, int maxlen, std::vector<std::vector<std::string>> &out, bool with_empty)
{
	if (with_empty) out.push_back({});
	std::vector<std::vector<std::string>> cur = { {} };
	for (int l = 1; l <= maxlen; ++l) {
		std::vector<std::vector<std::string>> nxt;
		for (auto &c : cur) for (auto &t : tok) { auto n = c; n.push_back(t); nxt.push_back(n); out.push_back(n); }
		cur = nxt;
	}
}
static void fam_text(Tier, std::vector<Spec> &v)
{
	std::vector<std::vector<std::string>> sq;
	seqs({ "1", "-2.5", "3e2" }, 3, sq, true);
	for (auto &q : sq) for (const char *j : { " ", ",", ", " }) {
		if (q.size() < 2 && j[0] != ' ') continue;
		Spec s; s.fam = F_TEXT; s.rtype = 'd';
		for (size_t i = 0; i < q.size(); ++i) { s.text += (i ? j : "") + q[i]; s.den.list.push_back(Obs::dbl(strtod(q[i].c_str(), 0))); }
		Den &d = s.den; d.cls = Den::WELL; d.kind = Den::LIST; d.fam = "text"; d.why = "numbers"; d.have_n = true; d.nlo = d.nhi = q.size(); d.plain = true;
		v.push_back(s);
	}
	sq.clear(); seqs({ "a", "bc" }, 3, sq, false);
	for (auto &q : sq) for (int sp = 0; sp < 2; ++sp) {
		Spec s; s.fam = F_TEXT; s.rtype = 'k'; s.null_sep = sp == 0; s.sep = " ";
		for (size_t i = 0; i < q.size(); ++i) { s.text += (i ? " " : "") + q[i]; s.den.list.push_back(Obs::str(q[i])); }
		Den &d = s.den; d.cls = Den::WELL; d.kind = Den::LIST; d.fam = "text"; d.why = "words"; d.have_n = true; d.nlo = d.nhi = q.size(); d.plain = true;
		v.push_back(s);
	}
	// integer literals that fit some target types and not others: typed conversions of the current element + bare advance
	sq.clear(); seqs({ "-1", "300", "70000", "2" }, 3, sq, false);
	sq.push_back({ "-1", "2", "300", "4", "70000", "6" });
	for (auto &q : sq) {
		Spec s; s.fam = F_TEXT; s.rtype = 'd'; s.probe = true;
		for (size_t i = 0; i < q.size(); ++i) { s.text += (i ? " " : "") + q[i]; s.den.list.push_back(Obs::dbl(strtod(q[i].c_str(), 0))); }
		Den &d = s.den; d.cls = Den::WELL; d.kind = Den::LIST; d.fam = "text"; d.why = "integers"; d.have_n = true; d.nlo = d.nhi = q.size(); d.plain = true;
		v.push_back(s);
	}
	// keys separated by the default separator characters
	sq.clear(); seqs({ "alpha", "b" }, 3, sq, false);
	for (auto &q : sq) for (const char *j : { ",", ", ", ";", ":", "/" }) {
		if (q.size() < 2) continue;
		Spec s; s.fam = F_TEXT; s.rtype = 'k';
		for (size_t i = 0; i < q.size(); ++i) { s.text += (i ? j : "") + q[i]; s.den.list.push_back(Obs::str(q[i])); }
		Den &d = s.den; d.cls = Den::WELL; d.kind = Den::LIST; d.fam = "text"; d.why = "separated-words"; d.have_n = true; d.nlo = d.nhi = q.size(); d.plain = true;
		v.push_back(s);
	}
	// white space between key and separator belongs to neither element
	sq.clear(); seqs({ "a", "bc" }, 3, sq, false);
	// (explicit separator set without blank: with the default set a blank is a separator itself and "a ,b" has an empty element in between)
	for (auto &q : sq) for (const char *j : { " ,", " , ", " ;", "  ; " }) {
		if (q.size() < 2) continue;
		Spec s; s.fam = F_TEXT; s.rtype = 'k'; s.null_sep = false; s.sep = ",;";
		for (size_t i = 0; i < q.size(); ++i) { s.text += (i ? j : "") + q[i]; s.den.list.push_back(Obs::str(q[i])); }
		Den &d = s.den; d.cls = Den::WELL; d.kind = Den::LIST; d.fam = "text"; d.why = "spaced-separator"; d.have_n = true; d.nlo = d.nhi = q.size(); d.plain = true;
		v.push_back(s);
	}
	// trailing / only white space is not an element
	sq.clear(); seqs({ "3", "-2.5" }, 2, sq, true);
	for (auto &q : sq) for (const char *tail : { " ", "  ", "\t", " \n" }) {
		Spec s; s.fam = F_TEXT; s.rtype = 'd';
		for (size_t i = 0; i < q.size(); ++i) { s.text += (i ? " " : "") + q[i]; s.den.list.push_back(Obs::dbl(strtod(q[i].c_str(), 0))); }
		s.text += tail;
		Den &d = s.den; d.cls = Den::WELL; d.kind = Den::LIST; d.fam = "text"; d.why = "trailing-space"; d.have_n = true; d.nlo = d.nhi = q.size(); d.plain = true;
		v.push_back(s);
	}
	for (const char *x : { "a b", "abc", "1 2 3" }) {
		Spec s; s.fam = F_TEXT; s.rtype = 's'; s.text = x; s.den.list.push_back(Obs::str(x));
		Den &d = s.den; d.cls = Den::WELL; d.kind = Den::LIST; d.fam = "text"; d.why = "whole-string"; d.have_n = true; d.nlo = d.nhi = 1; d.plain = true;
		v.push_back(s);
	}
	for (const char *x : { "abc", "ab cd" }) {
		Spec s; s.fam = F_TEXT; s.rtype = 'V'; s.text = x;
		s.den.fam = "text"; s.den.why = "char-vector";
		v.push_back(s);
	}
	{ Spec s; s.fam = F_TEXT; s.rtype = 'd'; s.null_text = true; Den &d = s.den; d.cls = Den::WELL; d.kind = Den::LIST; d.fam = "text"; d.why = "null"; d.have_n = true; d.nlo = d.nhi = 0; v.push_back(s); }
}
static void fam_buffer(Tier, std::vector<Spec> &v)
{
	std::vector<std::vector<std::string>> sq;
	seqs({ "cmd", "one", "2", "" }, 3, sq, true);
	for (int args = 0; args < 2; ++args) for (auto &q : sq) for (int unterminated = 0; unterminated < 2; ++unterminated) {
		if (unterminated && (q.empty() || q.back().empty())) continue;
		Spec s; s.fam = args ? F_ARGS : F_BUFFER; s.rtype = 'B';
		for (size_t i = 0; i < q.size(); ++i) {
			s.bytes += q[i];
			bool term = !(unterminated && i + 1 == q.size());
			if (term) s.bytes.push_back('\0');
			if (args && i == 0) continue;
			s.den.list.push_back(term ? Obs::str(q[i]) : Obs::bytes(q[i]));
		}
		Den &d = s.den; d.cls = Den::WELL; d.kind = Den::LIST; d.fam = args ? "args" : "buffer"; d.why = unterminated ? "unterminated-tail" : "strings";
		d.have_n = true; d.nlo = d.nhi = s.den.list.size(); d.plain = true;
		v.push_back(s);
	}
	for (int args = 0; args < 2; ++args) {
		for (size_t L = 0; L <= 3; ++L) {
			Spec s; s.fam = args ? F_ARGS : F_BUFFER; s.rtype = 'B'; s.dblbuf = true;
			for (size_t i = 0; i < L; ++i) { double x = 1.5 + i; s.grid.push_back(x); if (!(args && i == 0)) s.den.list.push_back(Obs::bytes(std::string((const char *) &x, 8))); }
			Den &d = s.den; d.cls = Den::WELL; d.kind = Den::LIST; d.fam = args ? "args" : "buffer"; d.why = "doubles"; d.have_n = true; d.nlo = d.nhi = s.den.list.size();
			v.push_back(s);
		}
		{ Spec s; s.fam = args ? F_ARGS : F_BUFFER; s.rtype = 'B'; s.null_arr = true; Den &d = s.den; d.cls = Den::WELL; d.kind = Den::LIST; d.fam = args ? "args" : "buffer"; d.why = "null"; d.have_n = true; d.nlo = d.nhi = 0; v.push_back(s); }
		{ Spec s; s.fam = args ? F_ARGS : F_BUFFER; s.rtype = 'B'; s.untyped = true; s.bytes = std::string("a\0b\0", 4); s.den.fam = args ? "args" : "buffer"; s.den.why = "untyped"; v.push_back(s); }
	}
}
static void fam_cxx(Tier, std::vector<Spec> &v)
{
	// C++ buffer argument iterator (what mpt_meta_buffer() is in programs linking mpt++): NUL terminated records of a character array
	{
		std::vector<std::vector<std::string>> sq;
		seqs({ "cmd", "one", "2", "" }, 3, sq, true);
		for (auto &q : sq) {
			Spec s; s.fam = F_CXXBUF; s.rtype = 'B';
			for (auto &x : q) { s.bytes += x; s.bytes.push_back('\0'); s.den.list.push_back(Obs::bytes(x + std::string(1, '\0'))); }
			Den &d = s.den; d.cls = Den::WELL; d.kind = Den::LIST; d.fam = "cxx-buffer"; d.why = "records"; d.have_n = true; d.nlo = d.nhi = q.size(); d.plain = true;
			v.push_back(s);
		}
	}
	for (int ints = 0; ints < 2; ++ints) for (size_t L = 0; L <= 4; ++L) for (int step : { 1, 2, 3, -1, -2, -3 }) {
		Spec s; s.fam = ints ? F_CXXI : F_CXXD; s.step = step;
		for (size_t i = 0; i < L; ++i) s.grid.push_back(ints ? (double) (7 * (int) i - 4) : 0.5 + 1.25 * i);
		Den &d = s.den; d.cls = Den::WELL; d.kind = Den::LIST; d.fam = "cxx-source"; d.why = step < 0 ? "backward" : "forward"; d.plain = true;
		for (long p = step < 0 ? (long) L - 1 : 0; p >= 0 && p < (long) L; p += step) d.list.push_back(Obs::dbl(s.grid[p]));
		d.have_n = true; d.nlo = d.nhi = d.list.size();
		v.push_back(s);
	}
}

// ---- array fillers mpt_values_linear / mpt_values_bound (same formulas without iterator); stateless DFS
static void fill_body(Run &r, Ctx &x)
{
	static const double nn[] = { 0, 1, -1, 0.5, 1e308, 180, -1e308, 1.7e308, -1.7e308 };
	int which = (int) x.choose(2);
	long points = (long) x.choose(6);          // 0..5
	long ld = 1 + (long) x.choose(2);
	double a = nn[x.choose(9)], b = nn[x.choose(9)], c = which ? nn[x.choose(4)] : 0;
	size_t cells = points > 0 ? (size_t) ((points - 1) * ld + 1) : 0;
	double *t = (double *) malloc(cells * sizeof(double) + (cells ? 0 : 1));
	for (size_t i = 0; i < cells; ++i) t[i] = bitsd(SENT_D);
	std::string what = which ? fmt("mpt_values_bound(%ld, ld=%ld, %g, %g, %g)", points, ld, a, c, b) : fmt("mpt_values_linear(%ld, ld=%ld, %g, %g)", points, ld, a, b);
	const char *fam = which ? "fill-bound" : "fill-linear";
	r.hint(fam); r.note("%s", what.c_str());
	asan_error();
	{ Lib scope; if (which) mpt_values_bound(points, cells ? t : 0, ld, a, c, b); else mpt_values_linear(points, cells ? t : 0, ld, a, b); }
	++r.transitions; ++r.states;
	if (asan_error()) r.violation(std::string(fam) + "|" + (points < 2 ? "points<2" : "points>=2") + "|memory", what + ": writes outside the target (AddressSanitizer)");
	else if (points >= 2) {
		for (long i = 0; i < points; ++i) {
			double got = t[i * ld];
			long double want = which ? (i == 0 ? a : (i == points - 1 ? b : c)) : (long double) a + (long double) i * ((long double) b - a) / (points - 1);
			long double tol = which ? 0 : 4 * (long double) DBL_EPSILON * std::max(fabs(a), fabs(b));   // bounds are finite: the closed form is too, even when b - a overflows
			if (dbits(got) == SENT_D || fabsl(got - want) > tol) { r.violation(std::string(fam) + "|points>=2|value", what + fmt(": element %ld is %.17g, closed form %.17Lg", i, got, want)); break; }
		}
		for (size_t i = 0; i < cells; ++i) if (i % ld && dbits(t[i]) != SENT_D) { r.violation(std::string(fam) + "|points>=2|stride", what + fmt(": cell %zu between the strided elements was written", i)); break; }
		++C.nontrivial;
	}
	free(t);
}

// ---- variadic argument iterator (mpt_process_vararg): lives only inside the callback, so every history is run completely inside it
static const char *va_fmts[] = { "", "i", "d", "iid", "di", "dd", "idi" };
static int va_cb(void *ctx, iterator *it) { return (*(std::function<int(iterator *)> *) ctx)(it); }
static int va_call(std::function<int(iterator *)> &f, const char *fmt, ...) { va_list ap; va_start(ap, fmt); int ret; { Lib scope; ret = mpt_process_vararg(fmt, ap, va_cb, &f); } va_end(ap); return ret; }
static int va_run(int fi, std::function<int(iterator *)> &f)
{
	switch (fi) {
	case 0: return va_call(f, "");
	case 1: return va_call(f, "i", 11);
	case 2: return va_call(f, "d", 1.5);
	case 3: return va_call(f, "iid", 11, 21, 3.5);
	case 4: return va_call(f, "di", 1.5, 21);
	case 5: return va_call(f, "dd", 1.5, 2.5);
	default: return va_call(f, "idi", 11, 2.5, 31);
	}
}
static Spec va_spec(int fi)
{
	static const double vals[][3] = { { 0 }, { 11 }, { 1.5 }, { 11, 21, 3.5 }, { 1.5, 21 }, { 1.5, 2.5 }, { 11, 2.5, 31 } };
	Spec s; s.fam = F_VARARG; s.text = va_fmts[fi]; s.rtype = 'd';
	for (size_t i = 0; i < s.text.size(); ++i) { s.grid.push_back(vals[fi][i]); s.den.list.push_back(Obs::dbl(vals[fi][i])); }
	Den &d = s.den; d.cls = Den::WELL; d.kind = Den::LIST; d.fam = "vararg"; d.why = "arguments"; d.have_n = true; d.nlo = d.nhi = s.text.size(); d.plain = true;
	return s;
}
// run one history; returns 1 fine, 0 the last op violated / is not enabled, -1 an earlier op did not pass again
static int va_history(Run &r, const Spec &sp, uint64_t fi, const Vec &hist, bool verbose)
{
	Src s(r, sp, fi); s.verbose = verbose;
	Walk w; w.n = sp.den.list.size(); w.ref = sp.den.list;
	int result = 1;
	std::function<int(iterator *)> f = [&](iterator *it) {
		Inst in; in.it = it; Model m; Vec pre;
		for (size_t i = 0; i < hist.size(); ++i) {
			if (verbose) r.note("op %s at p=%llu", opn[hist[i]], (unsigned long long) m.p);
			++r.transitions;
			if (!s.apply(in, m, w, (int) hist[i], pre)) { result = i + 1 == hist.size() ? 0 : -1; break; }
			pre.push_back(hist[i]);
		}
		in.it = 0;
		return 0;
	};
	asan_error();
	r.hint("vararg");
	int ret = va_run((int) fi, f);
	if (ret < 0 && result > 0) { s.viol("create|vararg|arguments|refused", Vec(), fmt("mpt_process_vararg returned %d", ret)); return 0; }
	return result;
}
static void va_explore(Run &r, uint64_t fi)
{
	Spec sp = va_spec((int) fi);
	static const int ops[] = { READ, ADV, RESET, CONSD, PRB_I };
	++r.states;
	std::function<void(const Vec &)> rec = [&](const Vec &hist) {
		if ((int) hist.size() >= g_depth || r.expired()) return;
		for (int op : ops) {
			Vec h = hist; h.push_back(op);
			int res = va_history(r, sp, fi, h, false);
			if (res < 0) { r.violation_at("ENGINE|nondeterministic-replay", Vec(1, fi), "vararg history prefix did not pass again"); r.incomplete("nondeterministic replay"); return; }
			++C.nontrivial;
			if (res > 0) { ++r.states; rec(h); }
		}
	};
	rec(Vec());
	r.count("accepted:vararg");
}

// ------------------------------------------------------------------ jobs
static int mut_chunks(Tier t, int base) { (void) base; return t == Quick ? 1 : 4; }
static bool mut_double(Tier t, int base) { return t == Thorough || base < 4; }

void mc_jobs(Tier t, std::vector<std::string> &jobs)
{
	jobs.push_back("lin"); jobs.push_back("range"); jobs.push_back("values"); jobs.push_back("misc");
	for (int c = 0; c < NCOUNTS; ++c) jobs.push_back("fac:" + std::to_string(c));
	for (int b = 0; b < (int) mut_bases().size(); ++b) for (int c = 0; c < mut_chunks(t, b); ++c) jobs.push_back(fmt("mut:%d:%d", b, c));
	for (int g = 0; g < (int) grids().size(); ++g) jobs.push_back("profile:" + std::to_string(g));
	jobs.push_back("api"); jobs.push_back("iterarg"); jobs.push_back("text"); jobs.push_back("buffer"); jobs.push_back("cxx"); jobs.push_back("fill"); jobs.push_back("vararg");
}
static void sources(Tier t, const std::string &job, std::vector<Spec> &v)
{
	if (job == "lin") fam_lin(t, v);
	else if (job == "range") fam_range(t, v);
	else if (job == "values") fam_values(t, v);
	else if (job == "misc") fam_misc(t, v);
	else if (job.compare(0, 4, "fac:") == 0) fam_fac(t, atoi(job.c_str() + 4), v);
	else if (job.compare(0, 4, "mut:") == 0) { int b = 0, c = 0; sscanf(job.c_str(), "mut:%d:%d", &b, &c); fam_mut(b, mut_double(t, b) ? 2 : 1, c, mut_chunks(t, b), v); }
	else if (job.compare(0, 8, "profile:") == 0) fam_profile(t, atoi(job.c_str() + 8), v);
	else if (job == "api") fam_api(t, v);
	else if (job == "iterarg") fam_iterarg(t, v);
	else if (job == "text") fam_text(t, v);
	else if (job == "buffer") fam_buffer(t, v);
	else if (job == "cxx") fam_cxx(t, v);
}
static void warmup()
{
	// lazily created singletons (type traits, converter tables) must exist before the ledger is consulted
	std::vector<Spec> v;
	v.push_back(mk_create("lin(3)")); v.push_back(mk_create("1 2")); v.push_back(mk_create("fac(2)")); v.push_back(mk_profile({ 0, 1 }, "poly 1 0")); v.push_back(mk_profile({ 0, 1 }, "bound 1 0 1"));
	for (int rt : { 'd', 'k', 's' }) { Spec c; c.fam = F_TEXT; c.text = "1 2"; c.rtype = rt; v.push_back(c); }
	for (int k = 0; k < 2; ++k) { Spec q; q.fam = k ? F_ARGS : F_BUFFER; q.bytes = std::string("a\0b\0c", 5); q.rtype = 'B'; v.push_back(q); Spec d = q; d.dblbuf = true; d.grid = { 1, 2 }; v.push_back(d); }
	{ Spec c; c.fam = F_CXXD; c.grid = { 1, 2 }; v.push_back(c); c.fam = F_CXXI; v.push_back(c); }
	{ Spec a; a.fam = F_ITERARG; a.text = "3 0 1"; v.push_back(a); }
	{ Spec b; b.fam = F_CXXBUF; b.bytes = std::string("a\0b\0", 4); b.rtype = 'B'; v.push_back(b); }
	for (const Spec &s : v) {
		Inst in;
		if (in.create(s)) {
			for (int i = 0; i < 4; ++i) { const value *val = in.it->value(); readval(val, s.rtype); unsigned char b[16]; if (val) for (int t : prbtype) mpt_value_convert(val, t, b); in.it->advance(); }
			in.it->reset(); double d; uint32_t u; mpt_iterator_consume(in.it, 'd', &d); mpt_iterator_consume(in.it, 'u', &u); if (s.fam != F_PROFILE) in.clone();
		}
		in.destroy();
	}
	ledger_reset(); asan_error();
}
static void flush_counters(Run &r)
{
	r.count("nontrivial", C.nontrivial); r.count("refused", C.refused); r.count("accepted", C.accepted);
	r.count("spurious_refusals(not flagged)", C.spurious); r.count("sources_state_graph_closed", C.closed); r.count("sources_depth_bounded", C.bounded);
	r.count("clone_unsupported(not flagged)", C.clone_unsupported); r.count("reset_refused(not flagged)", C.reset_refused);
	r.count("advance_past_end_returns_0(not flagged)", C.adv0_past_end); r.count("closed_form_skipped_nonfinite", C.nonfinite_skip); r.count("consume_u_lossy(not flagged)", C.lossy); r.count("address_dependent_states_after_violation", C.unstable);
	memset(&C, 0, sizeof C);
}
void mc_explore(Run &r, const std::string &job)
{
	g_depth = r.tier == Quick ? 5 : 9;
	memset(&C, 0, sizeof C);
	r.require("nontrivial");
	warmup();
	if (job == "fill") { dfs(r, [&](Ctx &x) { fill_body(r, x); }); flush_counters(r); return; }
	if (job == "vararg") { if (g_depth > 7) g_depth = 7; r.require("accepted:vararg"); dfs(r, [&](Ctx &x) { va_explore(r, x.choose(sizeof va_fmts / sizeof *va_fmts)); }); flush_counters(r); return; }
	std::vector<Spec> v;
	sources(r.tier, job, v);
	if (job == "lin") { r.require("accepted:linear"); r.require("closed-form-checked:linear"); }
	if (job == "range") { r.require("accepted:range"); r.require("closed-form-checked:range"); }
	if (job == "values") { r.require("accepted:values"); r.require("tail-error-sources"); }
	if (job == "misc") { r.require("accepted:default"); r.require("refused:unknown"); }
	if (job == "fac:3") { r.require("accepted:factor"); r.require("closed-form-checked:factor"); }
	if (job == "profile:4") { r.require("closed-form-checked:poly"); r.require("closed-form-checked:boundary"); r.require("closed-form-checked:linear"); }
	if (job == "text") { r.require("accepted:text"); r.require("convert_refused:y"); r.require("convert_accepted:i"); r.require("convert_accepted:k"); }
	if (job == "buffer") { r.require("accepted:buffer"); r.require("accepted:args"); }
	if (job == "cxx") { r.require("accepted:cxx-source"); r.require("accepted:cxx-buffer"); r.require("empty-sources"); }
	if (job == "api") r.require("accepted:boundary");
	r.require("sources_state_graph_closed");
	dfs(r, [&](Ctx &x) { uint64_t i = x.choose(v.size()); process(r, v[i], i, 0); });
	flush_counters(r);
}
void mc_replay(Run &r, const std::string &job, const Vec &v)
{
	g_depth = r.tier == Quick ? 5 : 9;
	memset(&C, 0, sizeof C);
	warmup();
	if (job == "fill") { dfs_replay(r, [&](Ctx &x) { fill_body(r, x); }, v); return; }
	if (job == "vararg") { if (v.empty() || v[0] >= sizeof va_fmts / sizeof *va_fmts) return; r.enter(v, ""); if (g_depth > 7) g_depth = 7; if (v.size() == 1) va_explore(r, v[0]); else { Spec sp = va_spec((int) v[0]); va_history(r, sp, v[0], Vec(v.begin() + 1, v.end()), true); } return; }
	std::vector<Spec> src;
	sources(r.tier, job, src);
	if (v.empty() || v[0] >= src.size()) { r.note("bad replay vector"); return; }
	r.enter(v, "");
	if (v.size() == 1) process(r, src[v[0]], v[0], 0);
	else { Vec h(v.begin() + 1, v.end()); process(r, src[v[0]], v[0], &h); }
}

// C07 — scalar conversion is exact or refused.
// Stateless input-grid exploration of the real converters:
//  * value part: every (entry point, source type) job runs every source value of its list
//    (8/16-bit: all values; 32/64-bit and floating: structured boundary grid; thorough tier: all 2^32
//    'i'/'u'/'f' bit patterns for the narrow targets) against every target type, in perform and in
//    query (dest == NULL) mode;
//  * text part: every (entry point, base) job runs a numeral grid (lead x sign x prefix x magnitude x
//    tail + special forms) and ALL strings up to length L over a 10-letter alphabet.
// Reference: the source number as an exact long double (64-bit significand holds every integer and
// floating source), for text an own numeral parser applied to the characters reported as consumed,
// compared exactly (big integers) with the stored target value.
#include <cerrno>
#include <cfloat>
#include <climits>
#include <cmath>
#include <csignal>
#include <csetjmp>
#include <cstdlib>
#include <algorithm>
#include <dlfcn.h>
#include <sys/mman.h>
#include "convert.h"
#include "types.h"
#include "meta.h"
#include "values.h"
#include "mc.hpp"
#include <sys/syscall.h>
#include <unistd.h>

using namespace mc;
typedef unsigned __int128 u128;
typedef __int128 i128;
typedef long double ld;

const char *mc_id = "C07";
const char *mc_rule = "input grid: (entry point, source type) x source values (8/16-bit exhaustive, structured grid otherwise, thorough: all 2^32 i/u/f patterns) x 13 target types x {perform, query}; "
                      "(text entry point, base) x {numeral grid, all strings up to length L over ' -+019xf.e'} x {perform, query}; "
                      "C++ wrappers (metatype::generic, metatype::create, metatype::value<T>, metatype via C dispatcher, value::convert) x all ordered pairs of source types, each pair in a fresh process: A values, B values, A again x 13 targets x {perform, query}; "
                      "nontrivial = distinct inputs whose source number is NOT exactly representable in the target (out of range, fraction, NaN/inf to integer, needs rounding, beyond 64 bit)";

// ------------------------------------------------------------------ types
enum Kind { KS, KU, KF };
struct TI { char id; int size; Kind kind; int prec; int qmin; int emax; };
static const TI TYPES[] = {
	{'c', 1, KS, 0, 0, 0}, {'b', 1, KS, 0, 0, 0}, {'y', 1, KU, 0, 0, 0}, {'n', 2, KS, 0, 0, 0}, {'q', 2, KU, 0, 0, 0},
	{'i', 4, KS, 0, 0, 0}, {'u', 4, KU, 0, 0, 0}, {'x', 8, KS, 0, 0, 0}, {'t', 8, KU, 0, 0, 0}, {'l', 8, KS, 0, 0, 0},
	{'f', 4, KF, 24, -149, 128}, {'d', 8, KF, 53, -1074, 1024}, {'e', 16, KF, 64, -16445, 16384}};
static const char SRC[] = "cbynqiuxtfde";
static const char DST[] = "cbynqiuxtlfde";
static const int NDST = 13;
static const TI &ti(char id) { for (const TI &t : TYPES) if (t.id == id) return t; return TYPES[0]; }
static const unsigned char PAT = 0xA5;

static ld readnum(char t, const void *p)
{
	switch (t) {
	case 'c': case 'b': { signed char v; memcpy(&v, p, 1); return v; }
	case 'y': { unsigned char v; memcpy(&v, p, 1); return v; }
	case 'n': { int16_t v; memcpy(&v, p, 2); return v; }
	case 'q': { uint16_t v; memcpy(&v, p, 2); return v; }
	case 'i': { int32_t v; memcpy(&v, p, 4); return v; }
	case 'u': { uint32_t v; memcpy(&v, p, 4); return v; }
	case 'x': case 'l': { int64_t v; memcpy(&v, p, 8); return v; }
	case 't': { uint64_t v; memcpy(&v, p, 8); return v; }
	case 'f': { float v; memcpy(&v, p, 4); return v; }
	case 'd': { double v; memcpy(&v, p, 8); return v; }
	case 'e': { ld v; memcpy(&v, p, sizeof v); return v; }
	}
	return 0;
}
static i128 readint(char t, const void *p)
{
	switch (t) {
	case 'c': case 'b': { signed char v; memcpy(&v, p, 1); return v; }
	case 'y': { unsigned char v; memcpy(&v, p, 1); return v; }
	case 'n': { int16_t v; memcpy(&v, p, 2); return v; }
	case 'q': { uint16_t v; memcpy(&v, p, 2); return v; }
	case 'i': { int32_t v; memcpy(&v, p, 4); return v; }
	case 'u': { uint32_t v; memcpy(&v, p, 4); return v; }
	case 'x': case 'l': { int64_t v; memcpy(&v, p, 8); return v; }
	case 't': { uint64_t v; memcpy(&v, p, 8); return v; }
	}
	return 0;
}
static void int_range(const TI &T, i128 &lo, i128 &hi)
{
	int bits = T.size * 8;
	if (T.kind == KS) { lo = -((i128) 1 << (bits - 1)); hi = ((i128) 1 << (bits - 1)) - 1; }
	else { lo = 0; hi = ((i128) 1 << bits) - 1; }
}
static ld fmax_of(const TI &T) { return T.id == 'f' ? (ld) FLT_MAX : (T.id == 'd' ? (ld) DBL_MAX : LDBL_MAX); }
// integer significand M and exponent q of a finite a >= 0 in the target format: a = M * 2^q
static void fmt_split(const TI &T, ld a, uint64_t &M, int &q)
{
	if (a == 0) { M = 0; q = T.qmin; return; }
	int ex; frexpl(a, &ex);
	q = ex - T.prec; if (q < T.qmin) q = T.qmin;
	M = (uint64_t) ldexpl(a, -q);
}
static std::string ldstr(ld v)
{
	if (v != v) return "nan";
	if (v == truncl(v) && fabsl(v) < 1.9e19L) { char b[64]; bool neg = v < 0; u128 m = (u128) fabsl(v); char *p = b + 63; *p = 0; if (!m) *--p = '0'; while (m) { *--p = '0' + (int) (m % 10); m /= 10; } if (neg) *--p = '-'; return p; }
	return fmt("%.21Lg", v);
}
static std::string i128str(i128 v)
{
	char b[64]; bool neg = v < 0; u128 m = neg ? (u128) 0 - (u128) v : (u128) v; char *p = b + 63; *p = 0;
	if (!m) *--p = '0'; while (m) { *--p = '0' + (int) (m % 10); m /= 10; } if (neg) *--p = '-'; return p;
}

// ------------------------------------------------------------------ big integers (text reference)
struct Big {
	std::vector<uint32_t> w;
	Big() {}
	explicit Big(uint64_t v) { while (v) { w.push_back((uint32_t) v); v >>= 32; } }
	bool zero() const { return w.empty(); }
	void mul(uint32_t m) { uint64_t c = 0; for (auto &x : w) { c += (uint64_t) x * m; x = (uint32_t) c; c >>= 32; } if (c) w.push_back((uint32_t) c); }
	void add(uint32_t a) { uint64_t c = a; for (auto &x : w) { if (!c) break; c += x; x = (uint32_t) c; c >>= 32; } if (c) w.push_back((uint32_t) c); }
	void pow10(long e) { while (e >= 9) { mul(1000000000u); e -= 9; } while (e-- > 0) mul(10); }
	void shl(long bits)
	{
		if (w.empty() || bits <= 0) return;
		size_t ws = bits / 32; int bs = bits % 32;
		if (bs) { uint32_t c = 0; for (auto &x : w) { uint32_t n = x >> (32 - bs); x = (x << bs) | c; c = n; } if (c) w.push_back(c); }
		if (ws) w.insert(w.begin(), ws, 0u);
	}
	long bits() const { if (w.empty()) return 0; long b = 32 * (long) (w.size() - 1); uint32_t t = w.back(); while (t) { ++b; t >>= 1; } return b; }
	static int cmp(const Big &a, const Big &b)
	{
		if (a.w.size() != b.w.size()) return a.w.size() < b.w.size() ? -1 : 1;
		for (size_t i = a.w.size(); i-- > 0;) if (a.w[i] != b.w[i]) return a.w[i] < b.w[i] ? -1 : 1;
		return 0;
	}
};
// |D| = mant * 10^e10 * 2^e2
struct Dec { bool neg; int special; Big mant; long e10, e2; Dec() : neg(false), special(0), e10(0), e2(0) {} };
// sign of |D| - M*2^q
static int cmp_mag(const Dec &D, uint64_t M, long q)
{
	if (D.mant.zero()) return M ? -1 : 0;
	if (!M) return 1;
	double l2 = (double) (D.mant.bits() - 1) + (double) D.e2 + (double) D.e10 * 3.321928094887362;
	double r2 = log2((double) M) + (double) q;
	if (l2 > r2 + 8) return 1;
	if (l2 < r2 - 8) return -1;
	Big L = D.mant, R(M);
	if (D.e10 >= 0) L.pow10(D.e10); else R.pow10(-D.e10);
	long s = D.e2 - q;
	if (s >= 0) L.shl(s); else R.shl(-s);
	return Big::cmp(L, R);
}

// ------------------------------------------------------------------ own numeral parsers
static bool sp(char c) { return c == ' ' || c == '\t' || c == '\n' || c == '\v' || c == '\f' || c == '\r'; }
static int digit(char c) { if (c >= '0' && c <= '9') return c - '0'; if (c >= 'a' && c <= 'z') return c - 'a' + 10; if (c >= 'A' && c <= 'Z') return c - 'A' + 10; return 99; }
struct IntNum { bool valid, wsonly, neg, over; u128 mag; };
static IntNum parse_int(const char *s, size_t n, int base)
{
	IntNum r = {false, false, false, false, 0};
	size_t i = 0;
	while (i < n && sp(s[i])) ++i;
	if (i == n) { r.wsonly = true; return r; }
	if (s[i] == '+' || s[i] == '-') { r.neg = s[i] == '-'; ++i; }
	if ((base == 0 || base == 16) && i + 2 < n && s[i] == '0' && (s[i + 1] == 'x' || s[i + 1] == 'X') && digit(s[i + 2]) < 16) { i += 2; base = 16; }
	else if (base == 0) base = (i < n && s[i] == '0') ? 8 : 10;
	size_t nd = 0;
	for (; i < n; ++i, ++nd) {
		int d = digit(s[i]);
		if (d >= base) return r;
		if (r.mag > (~(u128) 0 - d) / base) r.over = true;
		else r.mag = r.mag * base + d;
	}
	r.valid = nd > 0;
	return r;
}
struct FltNum { bool valid, wsonly; Dec d; };
static bool ieq(const char *s, size_t n, const char *lit) { size_t l = strlen(lit); if (n != l) return false; for (size_t i = 0; i < l; ++i) if ((s[i] | 32) != lit[i]) return false; return true; }
static FltNum parse_flt(const char *s, size_t n)
{
	FltNum r; r.valid = false; r.wsonly = false;
	size_t i = 0;
	while (i < n && sp(s[i])) ++i;
	if (i == n) { r.wsonly = true; return r; }
	if (s[i] == '+' || s[i] == '-') { r.d.neg = s[i] == '-'; ++i; }
	if (ieq(s + i, n - i, "inf") || ieq(s + i, n - i, "infinity")) { r.d.special = 1; r.valid = true; return r; }
	if (n - i >= 3 && ieq(s + i, 3, "nan")) {
		size_t j = i + 3;
		if (j == n) { r.d.special = 2; r.valid = true; return r; }
		if (s[j] == '(' && s[n - 1] == ')') { for (size_t k = j + 1; k + 1 < n; ++k) if (digit(s[k]) > 35 && s[k] != '_') return r; r.d.special = 2; r.valid = true; }
		return r;
	}
	bool hex = i + 1 < n && s[i] == '0' && (s[i + 1] == 'x' || s[i + 1] == 'X');
	int base = 10;
	if (hex) {
		// "0x" must be followed by a hex digit or by '.' + hex digit
		if (i + 2 < n && (digit(s[i + 2]) < 16 || (s[i + 2] == '.' && i + 3 < n && digit(s[i + 3]) < 16))) { i += 2; base = 16; }
		else hex = false;
	}
	size_t nd = 0; long frac = 0; bool dot = false;
	for (; i < n; ++i) {
		if (s[i] == '.' && !dot) { dot = true; continue; }
		int d = digit(s[i]);
		if (d >= base || (base == 10 && d > 9)) break;
		if (r.d.mant.w.size() > 64) return r;   // absurdly long: not on the grid
		r.d.mant.mul(base); r.d.mant.add(d);
		++nd; if (dot) ++frac;
	}
	if (!nd) return r;
	long ex = 0;
	if (i < n) {
		if (!((hex && (s[i] | 32) == 'p') || (!hex && (s[i] | 32) == 'e'))) return r;
		++i; bool eneg = false;
		if (i < n && (s[i] == '+' || s[i] == '-')) { eneg = s[i] == '-'; ++i; }
		size_t ed = 0;
		for (; i < n && s[i] >= '0' && s[i] <= '9'; ++i, ++ed) if (ex < 100000000) ex = ex * 10 + (s[i] - '0');
		if (!ed || i != n) return r;
		if (eneg) ex = -ex;
	}
	if (hex) r.d.e2 = ex - 4 * frac; else r.d.e10 = ex - frac;
	r.valid = true;
	return r;
}

// ------------------------------------------------------------------ controlled <ctype.h> table
// isgraph()/isspace() index the table returned by __ctype_b_loc(); for an argument outside
// -128..255 that is an out-of-bounds read whose result depends on whatever lies next to libc's table
// (and on address-space randomisation).  The harness supplies the table instead: identical to the C
// library's one for every valid index, "every class" for the invalid indexes on the same pages, and
// an inaccessible reservation for every other int index.  Defined behaviour is unchanged; undefined
// calls become deterministic (truncated acceptance nearby, SIGSEGV far away), so replays reproduce.
extern "C" const unsigned short **__ctype_b_loc(void) throw()
{
	static const unsigned short *tab = 0;
	if (!tab) {
		typedef const unsigned short **(*loc_fn)(void);
		loc_fn real = (loc_fn) dlsym(RTLD_NEXT, "__ctype_b_loc");
		const size_t half = (size_t) 1 << 32;
		char *base = (char *) mmap(0, 2 * half, PROT_NONE, MAP_PRIVATE | MAP_ANONYMOUS | MAP_NORESERVE, -1, 0);
		if (base == MAP_FAILED || !real) { static const unsigned short *fallback; fallback = real ? *real() : 0; return &fallback; }
		char *mid = base + half;
		mprotect(mid - 4096, 8192, PROT_READ | PROT_WRITE);
		unsigned short *t = (unsigned short *) mid;
		for (int i = -2048; i < 2048; ++i) t[i] = 0xffff;
		const unsigned short *r = *real();
		for (int i = -128; i < 256; ++i) t[i] = r[i];
		mprotect(mid - 4096, 8192, PROT_READ);
		tab = t;
	}
	return &tab;
}

// ------------------------------------------------------------------ fault guard (the converters are pure: resuming after a fault is safe)
static sigjmp_buf g_jb;
static volatile sig_atomic_t g_armed = 0;
static struct sigaction g_old[32];
static bool g_installed = false;
static void on_sig(int s)
{
	if (g_armed) { g_armed = 0; siglongjmp(g_jb, s); }
	sigaction(s, &g_old[s], 0);   // not ours: hand back to the engine (the faulting instruction re-executes)
}
static void install_guard()
{
	if (g_installed) return;
	g_installed = true;
	struct sigaction sa; memset(&sa, 0, sizeof sa);
	sa.sa_handler = on_sig; sa.sa_flags = SA_ONSTACK | SA_NODEFER;
	int sigs[] = {SIGSEGV, SIGBUS, SIGFPE, SIGILL};
	for (int s : sigs) sigaction(s, &sa, &g_old[s]);
}
static void g_reinstall_guard() { g_installed = false; install_guard(); }   // mc::in_child resets the handlers in the child
static const char *signame(int s) { return s == SIGSEGV ? "SIGSEGV" : s == SIGBUS ? "SIGBUS" : s == SIGFPE ? "SIGFPE" : s == SIGILL ? "SIGILL" : "SIGNAL"; }
#define GUARD(sigvar, stmt) do { sigvar = sigsetjmp(g_jb, 0); if (!sigvar) { g_armed = 1; stmt; g_armed = 0; } else g_armed = 0; } while (0)

// ------------------------------------------------------------------ reporting with a per-signature cap
struct Reporter {
	std::map<std::string, int> seen;
	uint64_t extra;
	Reporter() : extra(0) {}
	bool want(Run &r, const std::string &sig)
	{
		int &n = seen[sig];
		if (n < 4 || r.replaying) { ++n; return true; }
		++extra; return false;
	}
};
static Reporter report;
// the detail text is only built for the first few cases of a signature
#define report(r, sig, v, detail) do { std::string sig_ = (sig); if (report.want(r, sig_)) (r).violation_at(sig_, v, detail); } while (0)

struct Cnt {
	uint64_t cases, nontrivial, exact, rounded, refused_unrep, refused_rep, retsize, wsonly, query_agree;
	std::map<const char *, uint64_t> cls;   // keyed by literal address
	Cnt() { memset(this, 0, offsetof(Cnt, cls)); }
	void flush(Run &r, const char *pfx)
	{
		r.count("nontrivial", nontrivial);
		r.count(std::string(pfx) + "accepted_exact", exact);
		r.count(std::string(pfx) + "accepted_rounded_neighbour(float target)", rounded);
		r.count(std::string(pfx) + "refused_unrepresentable", refused_unrep);
		r.count(std::string(pfx) + "refused_representable(spurious,not flagged)", refused_rep);
		r.count(std::string(pfx) + "query_mode_agrees", query_agree);
		if (retsize) r.count(std::string(pfx) + "return_size!=target_size(not flagged)", retsize);
		{ std::map<std::string, uint64_t> m; for (auto &c : cls) m[c.first] += c.second; for (auto &c : m) r.count(std::string(pfx) + "input:" + c.first, c.second); }
		if (report.extra) r.count("violations_beyond_per-signature_cap(not listed)", report.extra);
	}
};

// ------------------------------------------------------------------ value part
struct Val { unsigned char b[16]; };
static bool val_lt(const Val &a, const Val &b) { return memcmp(a.b, b.b, 16) < 0; }
static bool val_eq(const Val &a, const Val &b) { return memcmp(a.b, b.b, 16) == 0; }

static void int_grid(std::set<i128> &g)
{
	const int small[] = {0, 1, 2, 3, 9, 10, 31, 32, 33, 47, 48, 57, 65, 97, 126, 127, 128, 129, 160, 200, 254, 255, 256, 257};
	for (int s : small) { g.insert(s); g.insert(-(i128) s); }
	for (int k = 1; k <= 64; ++k) {
		i128 p = (i128) 1 << k;
		const int d[] = {-2, -1, 0, 1, 2};
		for (int x : d) { g.insert(p + x); g.insert(-(p + x)); }
		if (k >= 7) { const int a[] = {33, 65, 126}; for (int x : a) { g.insert(p + x); g.insert(-p + x); g.insert(-(p + x)); } }
	}
}
template <class F> static void push_f(std::vector<Val> &out, F v) { Val x; memset(x.b, 0, 16); memcpy(x.b, &v, sizeof(F) == 16 ? 10 : sizeof(F)); out.push_back(x); }
template <class F> static void flt_grid(std::vector<Val> &out, const TI &T)
{
	std::set<i128> g; int_grid(g);
	for (i128 v : g) push_f<F>(out, (F) (ld) v);
	const ld eps = ldexpl(1, 1 - T.prec);
	const ld specials[] = {0.0L, ldexpl(1, T.qmin), ldexpl(1, T.qmin + T.prec - 1), fmax_of(T), 0.5L, 0.1L, 0.75L, 2 - eps, 1 - eps / 2, 1 + eps, 1e10L, 1e-10L, 3.5L, 255.5L, 127.999L,
		16777215.0L, 16777216.0L, 16777217.0L, 9007199254740991.0L, 9007199254740992.0L, 9007199254740993.0L,
		(ld) FLT_MAX, (ld) FLT_MAX + ldexpl(1, 102), (ld) FLT_MAX + ldexpl(1, 103), (ld) FLT_MAX + ldexpl(1, 103) + ldexpl(1, 64), ldexpl(1, 128), ldexpl(1, 128) - ldexpl(1, 70), 1e39L, 1e300L,
		(ld) FLT_MIN, ldexpl(1, -149), ldexpl(1, -150), ldexpl(3, -151), ldexpl(1, -151), 1e-46L, 1e-300L,
		(ld) DBL_MAX, (ld) DBL_MAX + ldexpl(1, 969), (ld) DBL_MAX + ldexpl(1, 970), ldexpl(1, 1024), 1e309L, 1e4000L,
		(ld) DBL_MIN, ldexpl(1, -1074), ldexpl(1, -1075), ldexpl(3, -1076), 1e-330L, 1e-4000L};
	for (ld s : specials) {
		if (fabsl(s) > fmax_of(T)) continue;     // not a value of this source type
		push_f<F>(out, (F) s); push_f<F>(out, (F) -s);
	}
	F inf = (F) INFINITY, nan = (F) NAN;
	push_f<F>(out, inf); push_f<F>(out, (F) -inf); push_f<F>(out, nan); push_f<F>(out, (F) -nan);
	// every binade of the source format x significand patterns around the float/double rounding points
	const ld fr[] = {1, 1 + eps, 2 - eps, 1.5L, 1 + ldexpl(1, -23), 1 + ldexpl(1, -24), 1 + ldexpl(1, -24) + eps, 2 - ldexpl(1, -24), 2 - ldexpl(1, -25),
		1 + ldexpl(1, -52), 1 + ldexpl(1, -53), 1 + ldexpl(1, -53) + eps, 2 - ldexpl(1, -53), 2 - ldexpl(1, -54)};
	for (int ex = T.qmin; ex < T.emax; ++ex) for (ld f : fr) {
		ld v = ldexpl(f, ex);
		if (v > fmax_of(T)) continue;
		push_f<F>(out, (F) v); push_f<F>(out, (F) -v);
	}
}
static void gen_values(char s, std::vector<Val> &out)
{
	const TI &S = ti(s);
	out.clear();
	if (S.kind != KF && S.size <= 2) {
		for (uint32_t v = 0; v < (1u << (8 * S.size)); ++v) { Val x; memset(x.b, 0, 16); memcpy(x.b, &v, S.size); out.push_back(x); }
		return;
	}
	if (S.kind != KF) {
		std::set<i128> g; int_grid(g);
		i128 lo, hi; int_range(S, lo, hi);
		for (i128 v : g) if (v >= lo && v <= hi) { Val x; memset(x.b, 0, 16); uint64_t u = (uint64_t) v; memcpy(x.b, &u, S.size); out.push_back(x); }
	}
	else if (s == 'f') flt_grid<float>(out, S);
	else if (s == 'd') flt_grid<double>(out, S);
	else flt_grid<ld>(out, S);
	std::sort(out.begin(), out.end(), val_lt);
	out.erase(std::unique(out.begin(), out.end(), val_eq), out.end());
}

struct OneIt : public mpt::iterator {
	mpt::value v; bool done;
	OneIt() : done(false) {}
	const mpt::value *value() { return done ? 0 : &v; }
	int advance() { done = true; return 0; }
	int reset() { done = false; return 0; }
};
typedef int (*conv_fn)(const void *, mpt::type_t, void *);
static conv_fn direct_fn(char s)
{
	using namespace mpt;
	switch (s) {
	case 'c': case 'b': return (conv_fn) mpt_data_convert_int8;
	case 'y': return (conv_fn) mpt_data_convert_uint8;
	case 'n': return (conv_fn) mpt_data_convert_int16;
	case 'q': return (conv_fn) mpt_data_convert_uint16;
	case 'i': return (conv_fn) mpt_data_convert_int32;
	case 'u': return (conv_fn) mpt_data_convert_uint32;
	case 'x': return (conv_fn) mpt_data_convert_int64;
	case 't': return (conv_fn) mpt_data_convert_uint64;
	case 'f': return (conv_fn) mpt_data_convert_float32;
	case 'd': return (conv_fn) mpt_data_convert_float64;
	case 'e': return (conv_fn) mpt_data_convert_exflt;
	}
	return 0;
}
static const char *ENTRY[] = {"direct", "converter", "value", "iter", "cxx-generic", "cxx-create", "cxx-tvalue", "cxx-metaptr", "cxx-value"};
static const char *GROUP[] = {"data_convert", "data_convert", "value_convert", "iterator_consume", "cxx-generic", "cxx-create", "cxx-tvalue", "cxx-metaptr", "cxx-value"};
static const int NCXX = 5, CXX0 = 4;
struct VJob {
	int entry; char s; conv_fn direct; void *src; void *dst[NDST];
	bool nullsrc;          // pass no source address (the converters document this as the zero value)
	mpt::metatype *mt;     // C++ entries: the wrapper object holding a copy of the source value
	Cnt c;
	VJob(int e, char st) : entry(e), s(st), direct(direct_fn(st)), nullsrc(false), mt(0)
	{
		src = malloc(ti(s).size);
		for (int i = 0; i < NDST; ++i) dst[i] = malloc(ti(DST[i]).size);
	}
	~VJob() { free(src); for (int i = 0; i < NDST; ++i) free(dst[i]); }
};
static inline int do_call(VJob &J, char t, void *dest)
{
	if (J.nullsrc) {
		switch (J.entry) {
		case 0: return J.direct(0, (mpt::type_t) t, dest);
		case 1: { mpt::data_converter_t f = mpt::mpt_data_converter((mpt::type_t) J.s); if (!f) return -9999; return f(0, (mpt::type_t) t, dest); }
		case 2: { mpt::value v; v._addr = 0; v._type = (mpt::type_t) J.s; return mpt::mpt_value_convert(&v, (mpt::type_t) t, dest); }
		default: { OneIt it; it.v._addr = 0; it.v._type = (mpt::type_t) J.s; return mpt::mpt_iterator_consume(&it, (mpt::type_t) t, dest); }
		}
	}
	switch (J.entry) {
	case 0: return J.direct(J.src, (mpt::type_t) t, dest);
	case 1: { mpt::data_converter_t f = mpt::mpt_data_converter((mpt::type_t) J.s); if (!f) return -9999; return f(J.src, (mpt::type_t) t, dest); }
	case 2: { mpt::value v; v._addr = J.src; v._type = (mpt::type_t) J.s; return mpt::mpt_value_convert(&v, (mpt::type_t) t, dest); }
	case 3: { OneIt it; it.v._addr = J.src; it.v._type = (mpt::type_t) J.s; return mpt::mpt_iterator_consume(&it, (mpt::type_t) t, dest); }
	case 4: case 5: case 6: return J.mt->convert((mpt::type_t) t, dest);          // metatype::generic / metatype::value<T>
	case 7: { mpt::value v; v._addr = &J.mt; v._type = mpt::TypeMetaPtr; return mpt::mpt_value_convert(&v, (mpt::type_t) t, dest); }   // C dispatcher -> metatype pointer
	default: { mpt::value v; v.set((int) J.s, J.src); return v.convert((mpt::type_t) t, dest); }   // C++ value::convert
	}
}
// class of the source number relative to the target; rep = exactly representable
static const char *vclass(ld S, const TI &T, bool &rep)
{
	rep = false;
	if (S != S) { rep = T.kind == KF; return "nan"; }
	if (T.kind == KF) {
		if (std::isinf(S)) { rep = true; return "inf"; }
		if (fabsl(S) > fmax_of(T)) return "beyond-finite-range";
		if (S != 0 && fabsl(S) < ldexpl(1, T.qmin)) return "below-smallest-denormal";
		ld back = T.id == 'f' ? (ld) (float) S : (T.id == 'd' ? (ld) (double) S : S);
		rep = back == S;
		return rep ? "exact" : "needs-rounding";
	}
	i128 lo, hi; int_range(T, lo, hi);
	if (S < (ld) lo) return "below-min";
	if (S > (ld) hi) return "above-max";
	if (S != truncl(S)) return "fraction";
	rep = true;
	return "in-range";
}
// does the stored target number `got` denote S (exactly, or as a rounded neighbour for a floating target)?
static int denotes(ld S, ld got, const TI &T)
{
	if (S != S) return got != got ? 1 : 0;
	if (got != got) return 0;
	if (got == S) return 1;
	if (T.kind != KF || std::isinf(S) || std::isinf(got)) return 0;
	if (S != 0 && got != 0 && (S < 0) != (got < 0)) return 0;
	if (S != 0 && got == 0) return 0;      // a non-zero number flushed to zero is not a rounded neighbour: all precision is gone
	uint64_t M; int q; fmt_split(T, fabsl(got), M, q);
	ld lo = M ? ldexpl((ld) (M - 1), q) : 0, hi = ldexpl((ld) M + 1, q);
	return (fabsl(S) >= lo && fabsl(S) <= hi) ? 2 : 0;
}
static void check_value(Run &r, VJob &J, const Val &v, int tix, const Vec &vec)
{
	const TI &S = ti(J.s); char t = DST[tix]; const TI &T = ti(t);
	memcpy(J.src, v.b, S.size == 16 ? 16 : S.size);
	ld num = readnum(J.s, v.b);
	void *dst = J.dst[tix];
	memset(dst, PAT, T.size);
	unsigned char pat[16]; memset(pat, PAT, 16);
	bool rep; const char *cls = vclass(num, T, rep);
	if (J.nullsrc) cls = "no-data-address";
	std::string sigbase = std::string(GROUP[J.entry]) + "|" + J.s + "->" + t + "|" + cls + "|";
	auto desc = [&]() { return J.nullsrc ? fmt("%s: source '%c' without data address (stands for 0) -> target '%c'", ENTRY[J.entry], J.s, t) : fmt("%s: source '%c' = %s (bytes %s) -> target '%c'", ENTRY[J.entry], J.s, ldstr(num).c_str(), hex(v.b, S.size == 16 ? 10 : S.size).c_str(), t); };
	++J.c.cases; ++r.states; r.transitions += 2; ++J.c.cls[cls];
	if (!rep) ++J.c.nontrivial;
	asan_error();
	int sigA, sigB; int retA = INT_MIN, retB = INT_MIN;
	GUARD(sigA, retA = do_call(J, t, dst));
	bool asanA = asan_error();
	unsigned char got[16]; memcpy(got, dst, T.size);
	GUARD(sigB, retB = do_call(J, t, 0));
	bool asanB = asan_error();
	if (r.replaying) r.note("%s: perform ret=%d%s dest=%s ; query ret=%d%s", desc().c_str(), sigA ? 0 : retA, sigA ? " FAULT" : "", hex(got, T.size).c_str(), sigB ? 0 : retB, sigB ? " FAULT" : "");
	if (sigA) { report(r, sigbase + "perform-" + signame(sigA), vec, desc() + ": the conversion faults"); return; }
	if (sigB) { report(r, sigbase + "query-" + signame(sigB), vec, desc() + fmt(": asking whether the conversion is possible (dest=NULL) faults; performing it returned %d", retA)); return; }
	if (asanA || asanB) { report(r, sigbase + "asan", vec, desc() + ": memory access outside source/destination (AddressSanitizer)" + (asanB ? " in query mode" : "")); return; }
	if (retA == -9999) { report(r, sigbase + "no-converter", vec, desc() + ": mpt_data_converter has no converter for the source type"); return; }
	if ((retA < 0) != (retB < 0)) { report(r, sigbase + "query-verdict-differs", vec, desc() + fmt(": perform returned %d, query (dest=NULL) returned %d", retA, retB)); return; }
	++J.c.query_agree;
	if (retA < 0) {
		if (memcmp(got, pat, T.size)) { report(r, sigbase + "refused-but-wrote", vec, desc() + fmt(": refused (%d) but destination changed to %s", retA, hex(got, T.size).c_str())); return; }
		if (rep) ++J.c.refused_rep; else ++J.c.refused_unrep;
		return;
	}
	ld g = readnum(t, got);
	int ok = denotes(num, g, T);
	if (!ok) { report(r, sigbase + "wrong-value", vec, desc() + fmt(": accepted (ret %d) but the target holds %s (bytes %s)%s", retA, ldstr(g).c_str(), hex(got, T.size).c_str(), memcmp(got, pat, T.size) ? "" : " = untouched")); return; }
	if (ok == 1) ++J.c.exact; else ++J.c.rounded;
	if (J.entry < 2 && retA != (t == 'e' ? (int) sizeof(ld) : T.size)) ++J.c.retsize;
}
// thorough sweeps: all 2^32 patterns of a 4-byte source through the converter itself.  The fast loop only
// recognises the unsuspicious outcomes (both modes agree, refused + destination untouched, or accepted +
// identical number); the first case that is anything else (or faults) is returned and handed to check_value.
static const char *sweep_targets(char s) { return s == 'f' ? "fde" : "cbynq"; }
static uint64_t sweep_run(VJob &J, int tix, uint64_t lo, uint64_t start, uint64_t n, bool &faulted)
{
	char t = DST[tix]; const TI &T = ti(t);
	void *dst = J.dst[tix];
	const bool fsrc = J.s == 'f', sgn = J.s == 'i';
	int64_t tlo = 0, thi = 0;
	if (T.kind != KF) { i128 x, y; int_range(T, x, y); tlo = (int64_t) x; thi = y > (i128) INT64_MAX ? INT64_MAX : (int64_t) y; }
	uint64_t exact = 0, rrep = 0, runrep = 0;
	volatile uint64_t cur = start;
	faulted = false;
	if (sigsetjmp(g_jb, 0)) { g_armed = 0; faulted = true; return cur; }
	g_armed = 1;
	uint64_t i;
	for (i = start; i < n; ++i) {
		cur = i;
		uint32_t bits = (uint32_t) (lo + i);
		memcpy(J.src, &bits, 4);
		memset(dst, PAT, T.size);
		int a = do_call(J, t, dst), b = do_call(J, t, 0);
		if ((a < 0) != (b < 0) || a == -9999) break;
		if (a < 0) {
			const unsigned char *p = (const unsigned char *) dst;
			bool same = true;
			for (int k = 0; k < T.size; ++k) if (p[k] != PAT) same = false;
			if (!same) break;
			if (fsrc) { if (T.kind == KF) ++rrep; else break; }
			else if (T.kind == KF) break;
			else { int64_t v = sgn ? (int64_t) (int32_t) bits : (int64_t) bits; if (v >= tlo && v <= thi) ++rrep; else ++runrep; }
			continue;
		}
		if (fsrc) {
			if (T.kind != KF) break;
			float f; memcpy(&f, &bits, 4);
			ld g = readnum(t, dst);
			if (!(g == (ld) f || (g != g && f != f))) break;
		} else {
			if (T.kind == KF) break;
			int64_t v = sgn ? (int64_t) (int32_t) bits : (int64_t) bits;
			if ((int64_t) readint(t, dst) != v || v < tlo || v > thi) break;
		}
		++exact;
	}
	g_armed = 0;
	J.c.exact += exact; J.c.refused_rep += rrep; J.c.refused_unrep += runrep; J.c.nontrivial += runrep;
	J.c.cases += i - start; J.c.query_agree += i - start;
	return i;
}

// ------------------------------------------------------------------ C++ value path: ordered pairs of source types on ONE process state
// metatype::generic (created directly and through metatype::create(value)), metatype::value<T>, a metatype
// reached through the C dispatcher (TypeMetaPtr value) and value::convert.  A case is an ordered pair
// (A, B) of source types run in a fresh forked child: all A values x all targets, then all B values x all
// targets, then the A values again -- so state cached by the first conversion (a function-local static, a
// stale converter) is exposed by the second type.  Oracle = check_value, the same as for the C path.
static void reduced_values(char s, Tier tier, std::vector<Val> &out)
{
	const TI &S = ti(s);
	if (tier == Thorough && strchr("cbyiuxtf", s)) { gen_values(s, out); return; }
	out.clear();
	if (S.kind != KF) {
		const i128 one = 1;
		const i128 c[] = {0, 1, -1, 2, -3, 5, 7, 33, 65, 126, 127, 128, -128, -129, 255, 256, 257, 32767, 32768, -32768, -32769, 65535, 65536, 65541,
			(one << 31) - 1, one << 31, -(one << 31), -(one << 31) - 1, (one << 32) - 1, one << 32, (one << 32) + 5, -((one << 32) + 5), (one << 40) + 65,
			(one << 63) - 1, -(one << 63), one << 63, (one << 64) - 1};
		i128 lo, hi; int_range(S, lo, hi);
		for (i128 v : c) if (v >= lo && v <= hi) { Val x; memset(x.b, 0, 16); uint64_t u = (uint64_t) v; memcpy(x.b, &u, S.size); out.push_back(x); }
	} else {
		const ld c[] = {0.0L, -0.0L, 1, -1, 2.5L, -3, 0.5L, 65, 127, 128, 255, 256, 65535, 65536, 2147483648.0L, 4294967301.0L, 1e10L, 0.1L,
			(ld) FLT_MAX, -(ld) FLT_MAX, (ld) FLT_MIN, ldexpl(1, S.qmin), fmax_of(S), -fmax_of(S), 1e39L, -1e39L, 1e309L, 18446744073709551615.0L, 9223372036854775808.0L,
			(ld) INFINITY, -(ld) INFINITY, (ld) NAN};
		for (ld v : c) {
			if (v == v && !std::isinf(v) && fabsl(v) > fmax_of(S)) continue;
			if (s == 'f') push_f<float>(out, (float) v); else if (s == 'd') push_f<double>(out, (double) v); else push_f<ld>(out, v);
		}
	}
	std::sort(out.begin(), out.end(), val_lt);
	out.erase(std::unique(out.begin(), out.end(), val_eq), out.end());
}
static mpt::metatype *make_wrapper(int entry, char s, const void *p)
{
	using namespace mpt;
	switch (entry) {
	case 4: case 7: return metatype::generic::create((type_t) s, p);
	case 5: { ::mpt::value v; v.set((int) s, p); return metatype::create(v); }
	case 6:
		switch (s) {
		case 'c': return new metatype::value<char>(*(const char *) p);
		case 'b': return new metatype::value<int8_t>(*(const int8_t *) p);
		case 'y': return new metatype::value<uint8_t>(*(const uint8_t *) p);
		case 'n': return new metatype::value<int16_t>(*(const int16_t *) p);
		case 'q': return new metatype::value<uint16_t>(*(const uint16_t *) p);
		case 'i': return new metatype::value<int32_t>(*(const int32_t *) p);
		case 'u': return new metatype::value<uint32_t>(*(const uint32_t *) p);
		case 'x': return new metatype::value<int64_t>(*(const int64_t *) p);
		case 't': return new metatype::value<uint64_t>(*(const uint64_t *) p);
		case 'f': return new metatype::value<float>(*(const float *) p);
		case 'd': return new metatype::value<double>(*(const double *) p);
		case 'e': return new metatype::value<ld>(*(const ld *) p);
		}
	}
	return 0;
}
// runs in the forked child; result lines: N states transitions | C key value | V sig count detail
static std::string cxx_pair(Tier tier, int entry, char A, char B)
{
	Run cr; cr.tier = tier;
	g_reinstall_guard();
	report = Reporter();
	uint64_t nomake = 0, made = 0;
	const char seq[3] = {A, B, A};
	Vec vec;
	for (int ph = 0; ph < 3; ++ph) {
		VJob J(entry, seq[ph]);
		std::vector<Val> vals; reduced_values(seq[ph], tier, vals);
		for (const Val &v : vals) {
			memcpy(J.src, v.b, ti(J.s).size);
			if (entry != 8) {
				J.mt = make_wrapper(entry, J.s, J.src);     // never released: the child exits
				if (!J.mt) { ++nomake; continue; }
			}
			++made;
			for (int tix = 0; tix < NDST && !cr.nviol; ++tix) check_value(cr, J, v, tix, vec);
			if (cr.nviol) break;     // a history that violated is not continued
		}
		J.c.flush(cr, (std::string(ENTRY[entry]) + ":").c_str());
		cr.counters["nontrivial"] += 0;
		if (cr.nviol) break;
	}
	std::string out = fmt("N\t%llu\t%llu\n", (unsigned long long) cr.states, (unsigned long long) cr.transitions);
	out += fmt("C\t%s:wrapper_objects\t%llu\n", ENTRY[entry], (unsigned long long) made);
	if (nomake) out += fmt("C\t%s:wrapper_not_created(not flagged)\t%llu\n", ENTRY[entry], (unsigned long long) nomake);
	for (auto &c : cr.counters) out += "C\t" + c.first + "\t" + std::to_string(c.second) + "\n";
	for (auto &v : cr.viols) { std::string d = v.second.detail; for (char &ch : d) if (ch == '\n' || ch == '\t') ch = ' '; out += "V\t" + v.first + "\t" + std::to_string(v.second.count) + "\t" + d + "\n"; }
	return out;
}

// ------------------------------------------------------------------ text part
enum TFn { F_CINT8, F_CINT16, F_CINT32, F_CINT64, F_CCHAR, F_CINT, F_CLONG, F_CUINT8, F_CUINT16, F_CUINT32, F_CUINT64, F_CUCHAR, F_CUINT, F_CULONG,
           F_CFLOAT, F_CDOUBLE, F_CLDOUBLE, F_NUMBER, F_STRING, F_ITERSTR, F_ITERFILE };
struct TEntry { const char *name; char dst; TFn fn; };
static const TEntry TENT[] = {
	{"mpt_cint8", 'b', F_CINT8}, {"mpt_cint16", 'n', F_CINT16}, {"mpt_cint32", 'i', F_CINT32}, {"mpt_cint64", 'x', F_CINT64},
	{"mpt_cchar", 'b', F_CCHAR}, {"mpt_cint", 'i', F_CINT}, {"mpt_clong", 'x', F_CLONG},
	{"mpt_cuint8", 'y', F_CUINT8}, {"mpt_cuint16", 'q', F_CUINT16}, {"mpt_cuint32", 'u', F_CUINT32}, {"mpt_cuint64", 't', F_CUINT64},
	{"mpt_cuchar", 'y', F_CUCHAR}, {"mpt_cuint", 'u', F_CUINT}, {"mpt_culong", 't', F_CULONG},
	{"mpt_cfloat", 'f', F_CFLOAT}, {"mpt_cdouble", 'd', F_CDOUBLE}, {"mpt_cldouble", 'e', F_CLDOUBLE}};
static const int NTENT = sizeof TENT / sizeof *TENT;
struct TJob {
	std::string name; char dst; TFn fn; int base; void *dest; Cnt c;
	TJob() : dest(0) {}
	~TJob() { free(dest); }
};
static inline int text_call(TJob &J, const char *s, void *d)
{
	using namespace mpt;
	switch (J.fn) {
	case F_CINT8: return mpt_cint8((int8_t *) d, s, J.base, 0);
	case F_CINT16: return mpt_cint16((int16_t *) d, s, J.base, 0);
	case F_CINT32: return mpt_cint32((int32_t *) d, s, J.base, 0);
	case F_CINT64: return mpt_cint64((int64_t *) d, s, J.base, 0);
	case F_CCHAR: return mpt_cchar((char *) d, s, J.base, 0);
	case F_CINT: return mpt_cint((int *) d, s, J.base, 0);
	case F_CLONG: return mpt_clong((long *) d, s, J.base, 0);
	case F_CUINT8: return mpt_cuint8((uint8_t *) d, s, J.base, 0);
	case F_CUINT16: return mpt_cuint16((uint16_t *) d, s, J.base, 0);
	case F_CUINT32: return mpt_cuint32((uint32_t *) d, s, J.base, 0);
	case F_CUINT64: return mpt_cuint64((uint64_t *) d, s, J.base, 0);
	case F_CUCHAR: return mpt_cuchar((unsigned char *) d, s, J.base, 0);
	case F_CUINT: return mpt_cuint((unsigned int *) d, s, J.base, 0);
	case F_CULONG: return mpt_culong((unsigned long *) d, s, J.base, 0);
	case F_CFLOAT: return mpt_cfloat((float *) d, s, 0);
	case F_CDOUBLE: return mpt_cdouble((double *) d, s, 0);
	case F_CLDOUBLE: return mpt_cldouble((ld *) d, s, 0);
	case F_NUMBER: return mpt_convert_number(s, J.dst, d);
	case F_STRING: return mpt_convert_string(s, (mpt::type_t) J.dst, d);
	}
	return INT_MIN;
}
static std::string render(u128 m, int base)
{
	if (!m) return "0";
	std::string s;
	while (m) { int d = (int) (m % base); s += (char) (d < 10 ? '0' + d : 'a' + d - 10); m /= base; }
	std::reverse(s.begin(), s.end());
	return s;
}
static std::vector<std::string> g_grid;
static void build_grid()
{
	if (!g_grid.empty()) return;
	std::set<std::string> seen;
	auto add = [&](const std::string &s) { if (seen.insert(s).second) g_grid.push_back(s); };
	const char *leads[] = {"", " ", "\t", "\n  "};
	const char *signs[] = {"", "+", "-"};
	const char *tails[] = {"", " ", "x", ".5", "e", "e5", "p1", " 1"};
	std::vector<u128> mags;
	const int small[] = {0, 1, 2, 7, 8, 9, 10, 33, 65, 100};
	for (int s : small) mags.push_back(s);
	const int ks[] = {7, 8, 15, 16, 31, 32, 63, 64, 127};
	for (int k : ks) { u128 p = (u128) 1 << k; mags.push_back(p - 1); mags.push_back(p); mags.push_back(p + 1); mags.push_back(p + 2); }
	u128 p10 = 1; for (int i = 0; i < 38; ++i) { p10 *= 10; if (i + 1 == 19 || i + 1 == 20 || i + 1 == 30 || i + 1 == 38) mags.push_back(p10); }
	mags.push_back(~(u128) 0);
	struct Pre { const char *txt; int base; } pres[] = {{"", 10}, {"0", 8}, {"0x", 16}, {"0X", 16}};
	for (const char *l : leads) for (const char *sg : signs) for (auto &p : pres) {
		for (u128 m : mags) for (const char *tl : tails) add(std::string(l) + sg + p.txt + render(m, p.base) + tl);
		// beyond 128 bit
		for (const char *tl : tails) add(std::string(l) + sg + p.txt + "1" + std::string(40, '0') + tl);
	}
	const char *special[] = {"", "-", "+", "--1", "+-1", "-+1", "- 1", "0x", "0x-1", "x1", "0xg", "00", "-0", "+0", "-00x1", "08", "09", "1_000", "1,5", "١",
		"1e39", "1e38", "3.4028235e38", "3.4028236e38", "340282346638528859811704183484516925440", "340282356779733661637539395458142568447", "340282356779733661637539395458142568448", "340282366920938463463374607431768211456",
		"1e308", "1e309", "1.7976931348623157e308", "1.7976931348623159e308", "1e4932", "1e4933", "1.18973149535723176502e4932", "1.18973149535723176506e4932", "1e5000", "1e99999", "1e999999999999",
		"1e-37", "1e-38", "1e-45", "1e-46", "7e-46", "1e-307", "1e-323", "1e-324", "3e-324", "1e-400", "1e-4950", "1e-4951", "1e-5000", "1e-99999",
		"0.1", ".5", "5.", ".", ".e1", "1.e1", "1e", "1e+", "1e-", "1e+1", "1E2", "e5", "1.5e", "00.5", "0.000000000000000000000000000000000000000000001", "16777217", "9007199254740993", "18446744073709551617", "0.3", "123456789.123456789",
		"0x1p-1", "0x1.8p1", "0x.8", "0x.p1", "0x1p", "0x1p+", "0x1.fffffep127", "0x1.ffffffp127", "0x1p128", "0x1p1024", "0x1p16384", "0x1p-149", "0x1p-150", "0x1p-1075", "0x1p-16446", "0x1p99999", "0x10e", "0x1F.5", "0X1P1",
		"inf", "infinity", "INF", "Infinity", "infx", "infinit", "in", "i", "nan", "NaN", "nan(1)", "nan(", "nan()", "nanx", "na", "n"};
	for (const char *l : leads) for (const char *sg : signs) for (const char *sp_ : special) add(std::string(l) + sg + sp_);
}
static const char SIGMA[] = " -+019xf.e";
static const int NSYM = 10;
static uint64_t short_count(int L) { uint64_t n = 0, p = 1; for (int k = 0; k <= L; ++k) { n += p; p *= NSYM; } return n; }
static std::string short_string(uint64_t idx)
{
	uint64_t p = 1; int len = 0;
	while (idx >= p) { idx -= p; p *= NSYM; ++len; }
	std::string s(len, ' ');
	for (int i = len; i-- > 0;) { s[i] = SIGMA[idx % NSYM]; idx /= NSYM; }
	return s;
}
static std::string quote(const std::string &s)
{
	std::string o = "\"";
	for (char c : s) { if (c == '\t') o += "\\t"; else if (c == '\n') o += "\\n"; else if ((unsigned char) c < 32 || (unsigned char) c > 126) o += fmt("\\x%02x", (unsigned char) c); else o += c; }
	return o + "\"";
}
// class of an integer numeral relative to the target
static const char *iclass(const IntNum &n, const TI &T, bool &rep)
{
	rep = false;
	if (n.over || n.mag > (u128) UINT64_MAX) return "beyond-64bit";
	i128 N = n.neg ? -(i128) n.mag : (i128) n.mag, lo, hi; int_range(T, lo, hi);
	if (T.kind == KU && N < 0) return "negative-to-unsigned";
	if (N < lo) return "below-min";
	if (N > hi) return "above-max";
	rep = true;
	return "in-range";
}
static const char *fclass(const Dec &D, const TI &T, bool &rep)
{
	rep = false;
	if (D.special == 1) { rep = true; return "inf"; }
	if (D.special == 2) { rep = true; return "nan"; }
	uint64_t Mx; int qx; fmt_split(T, fmax_of(T), Mx, qx);
	if (cmp_mag(D, Mx, qx) > 0) return "float-overflow";
	if (!D.mant.zero() && cmp_mag(D, 1, T.qmin) < 0) return "float-underflow";
	rep = true;   // exactly or by rounding: decided at the comparison
	return "finite";
}
static void check_iter_text(Run &r, TJob &J, const std::string &str, const Vec &vec);
static void check_text(Run &r, TJob &J, const std::string &str, const Vec &vec)
{
	if (J.fn >= F_ITERSTR) { check_iter_text(r, J, str, vec); return; }
	const TI &T = ti(J.dst);
	bool chartarget = J.dst == 'c';
	int pbase = (J.fn == F_NUMBER || J.fn == F_STRING) ? 0 : J.base;
	size_t len = str.size();
	char *s = (char *) malloc(len + 1); memcpy(s, str.c_str(), len + 1);
	void *dst = J.dest;
	memset(dst, PAT, T.size);
	unsigned char pat[16]; memset(pat, PAT, 16);
	++J.c.cases; ++r.states; r.transitions += 2;
	auto desc = [&]() { return T.kind == KF || J.fn >= F_NUMBER ? fmt("%s(%s) -> '%c'", J.name.c_str(), quote(str).c_str(), J.dst) : fmt("%s(%s, base %d) -> '%c'", J.name.c_str(), quote(str).c_str(), J.base, J.dst); };
	// classify the input by its longest prefix that is a numeral (vacuity counters, spurious refusals)
	bool in_rep = false; const char *in_cls = "no-numeral";
	if (!chartarget) for (size_t n = len; n > 0; --n) {
		if (T.kind == KF) { FltNum f = parse_flt(s, n); if (f.valid) { in_cls = fclass(f.d, T, in_rep); break; } }
		else { IntNum i = parse_int(s, n, pbase); if (i.valid) { in_cls = iclass(i, T, in_rep); break; } }
	}
	else in_cls = "character";
	++J.c.cls[in_cls];
	if (!in_rep && strcmp(in_cls, "no-numeral") && !chartarget) ++J.c.nontrivial;
	std::string sigbase = J.name + "|" + J.dst + "|";
	asan_error();
	int sigA, sigB; int retA = INT_MIN, retB = INT_MIN;
	GUARD(sigA, retA = text_call(J, s, dst));
	bool asanA = asan_error();
	unsigned char got[16]; memcpy(got, dst, T.size);
	GUARD(sigB, retB = text_call(J, s, 0));
	bool asanB = asan_error();
	if (r.replaying) r.note("%s: perform ret=%d%s dest=%s ; query ret=%d%s", desc().c_str(), sigA ? 0 : retA, sigA ? " FAULT" : "", hex(got, T.size).c_str(), sigB ? 0 : retB, sigB ? " FAULT" : "");
	bool changed = memcmp(got, pat, T.size) != 0;
	do {
		if (sigA) { report(r, sigbase + in_cls + "|perform-" + signame(sigA), vec, desc() + ": the conversion faults"); break; }
		if (sigB) { report(r, sigbase + in_cls + "|query-" + signame(sigB), vec, desc() + ": query mode (dest=NULL) faults"); break; }
		if (asanA || asanB) { report(r, sigbase + in_cls + "|asan", vec, desc() + ": memory access outside the string / destination (AddressSanitizer)"); break; }
		if ((retA < 0) != (retB < 0) || (retA > 0) != (retB > 0)) { report(r, sigbase + in_cls + "|query-verdict-differs", vec, desc() + fmt(": perform returned %d, query (dest=NULL) returned %d", retA, retB)); break; }
		++J.c.query_agree;
		if (retA <= 0) {
			if (changed) { report(r, sigbase + in_cls + "|refused-but-wrote", vec, desc() + fmt(": returned %d but destination changed to %s", retA, hex(got, T.size).c_str())); break; }
			if (in_rep) ++J.c.refused_rep; else ++J.c.refused_unrep;
			break;
		}
		if ((size_t) retA > len) { report(r, sigbase + in_cls + "|consumed-beyond-string", vec, desc() + fmt(": reports %d consumed characters of %zu", retA, len)); break; }
		std::string cons = str.substr(0, retA);
		if (chartarget) {
			size_t k = 0; while (k < cons.size() && sp(cons[k])) ++k;
			if (k == cons.size()) { if (changed) report(r, sigbase + "whitespace-only|wrong-value", vec, desc() + ": only white space consumed but a value was stored"); else report(r, sigbase + "whitespace-only|no-value-stored", vec, desc() + fmt(": returns %d (success, %d characters consumed) but the consumed white space denotes no number and nothing was stored", retA, retA)); break; }
			if (k + 1 != cons.size() || (char) got[0] != cons[k]) { report(r, sigbase + "character|wrong-value", vec, desc() + fmt(": consumed %s but stored byte %s", quote(cons).c_str(), hex(got, 1).c_str())); break; }
			++J.c.exact; break;
		}
		if (T.kind != KF) {
			IntNum n = parse_int(cons.data(), cons.size(), pbase);
			if (n.wsonly) { if (changed) report(r, sigbase + "whitespace-only|wrong-value", vec, desc() + ": only white space consumed but a value was stored"); else report(r, sigbase + "whitespace-only|no-value-stored", vec, desc() + fmt(": returns %d (success, %d characters consumed) but the consumed white space denotes no number and nothing was stored", retA, retA)); break; }
			if (!n.valid) { report(r, sigbase + "not-a-numeral|wrong-value", vec, desc() + fmt(": the %d consumed characters %s are not a numeral; stored %s", retA, quote(cons).c_str(), hex(got, T.size).c_str())); break; }
			bool rep; const char *cls = iclass(n, T, rep);
			i128 g = readint(J.dst, got);
			i128 N = n.neg ? -(i128) n.mag : (i128) n.mag;
			if (n.over || n.mag > ((u128) 1 << 100) || g != N) {
				report(r, sigbase + cls + "|wrong-value", vec, desc() + fmt(": consumed %s (%d chars) which denotes %s%s, stored %s (bytes %s)%s", quote(cons).c_str(), retA,
					n.over ? "a number beyond 128 bit" : i128str(N).c_str(), "", i128str(g).c_str(), hex(got, T.size).c_str(), changed ? "" : " = untouched"));
				break;
			}
			++J.c.exact; break;
		}
		FltNum f = parse_flt(cons.data(), cons.size());
		if (f.wsonly) { if (changed) report(r, sigbase + "whitespace-only|wrong-value", vec, desc() + ": only white space consumed but a value was stored"); else report(r, sigbase + "whitespace-only|no-value-stored", vec, desc() + fmt(": returns %d (success, %d characters consumed) but the consumed white space denotes no number and nothing was stored", retA, retA)); break; }
		if (!f.valid) { report(r, sigbase + "not-a-numeral|wrong-value", vec, desc() + fmt(": the %d consumed characters %s are not a numeral; stored %s", retA, quote(cons).c_str(), hex(got, T.size).c_str())); break; }
		bool rep; const char *cls = fclass(f.d, T, rep);
		ld g = readnum(J.dst, got);
		int ok = 0;
		if (f.d.special == 2) ok = g != g;
		else if (g != g) ok = 0;
		else if (f.d.special == 1) ok = std::isinf(g) && (g < 0) == f.d.neg;
		else if (std::isinf(g)) ok = 0;
		else if (!f.d.mant.zero() && g != 0 && (g < 0) != f.d.neg) ok = 0;
		else {
			uint64_t M; int q; fmt_split(T, fabsl(g), M, q);
			int c0 = cmp_mag(f.d, M, q);
			if (c0 == 0) ok = 1;
			else if (!M) ok = 0;      // non-zero numeral delivered as zero
			else if (c0 < 0) ok = (M && cmp_mag(f.d, M - 1, q) >= 0) ? 2 : 0;
			else if (M == UINT64_MAX) ok = cmp_mag(f.d, (uint64_t) 1 << 63, (long) q + 1) <= 0 ? 2 : 0;
			else ok = cmp_mag(f.d, M + 1, q) <= 0 ? 2 : 0;
		}
		if (!ok) { report(r, sigbase + cls + "|wrong-value", vec, desc() + fmt(": consumed %s (%d chars), stored %s (bytes %s)%s", quote(cons).c_str(), retA, ldstr(g).c_str(), hex(got, T.size == 16 ? 10 : T.size).c_str(), changed ? "" : " = untouched")); break; }
		if (ok == 1) ++J.c.exact; else { ++J.c.rounded; }
	} while (0);
	free(s);
}

// ------------------------------------------------------------------ text delivered through iterators
// mpt_iterator_string(text) and mpt_iterator_file(fd of a file holding the text), elements taken with
// mpt_iterator_consume().  These report no consumed length, so the oracle is: an accepted element must
// hold a number denoted by SOME substring of the text (any start, any end, base 0 or 10; for 'c' some
// character of the text) -- a wrapped / saturated / uninitialised value is denoted by none; a refusal
// leaves the destination untouched; a fresh iterator asked in query mode gives the same first verdict.
static bool denoted_by_substring(const std::string &str, const TI &T, char dst, const unsigned char *got, const char *seps)
{
	size_t len = str.size();
	if (dst == 'c') return memchr(str.data(), (char) got[0], len) != 0;
	// an element is a maximal piece between separators: the numeral must start and end at one
	auto issep = [&](char c) { return sp(c) || (c && strchr(seps, c)); };
	std::vector<char> okstart(len + 1, 0), okend(len + 1, 0);
	for (size_t i = 0; i <= len; ++i) { okstart[i] = i == 0 || issep(str[i - 1]); okend[i] = i == len || issep(str[i]); }
	if (T.kind != KF) {
		i128 g = readint(dst, got);
		for (size_t i = 0; i < len; ++i) if (okstart[i]) for (size_t j = len; j > i; --j) if (okend[j]) for (int base = 0; base <= 10; base += 10) {
			IntNum n = parse_int(str.data() + i, j - i, base);
			if (n.valid && !n.over && n.mag <= ((u128) 1 << 100) && (n.neg ? -(i128) n.mag : (i128) n.mag) == g) return true;
		}
		return false;
	}
	ld g = readnum(dst, got);
	for (size_t i = 0; i < len; ++i) if (okstart[i]) for (size_t j = len; j > i; --j) if (okend[j]) {
		FltNum f = parse_flt(str.data() + i, j - i);
		if (!f.valid) continue;
		if (f.d.special == 2) { if (g != g) return true; continue; }
		if (g != g) continue;
		if (f.d.special == 1) { if (std::isinf(g) && (g < 0) == f.d.neg) return true; continue; }
		if (std::isinf(g)) continue;
		if (!f.d.mant.zero() && g != 0 && (g < 0) != f.d.neg) continue;
		uint64_t M; int q; fmt_split(T, fabsl(g), M, q);
		int c0 = cmp_mag(f.d, M, q);
		bool ok = c0 == 0 || (!M ? false : c0 < 0 ? (cmp_mag(f.d, M - 1, q) >= 0) : (M == UINT64_MAX ? cmp_mag(f.d, (uint64_t) 1 << 63, (long) q + 1) <= 0 : cmp_mag(f.d, M + 1, q) <= 0));
		if (ok) return true;
	}
	return false;
}
struct TextIter {
	mpt::metatype *mt; mpt::iterator *it;
	TextIter() : mt(0), it(0) {}
	bool open(TFn fn, const char *s, size_t len)
	{
		if (fn == F_ITERSTR) mt = mpt::mpt_iterator_string(s, 0);
		else {
			int fd = (int) syscall(SYS_memfd_create, "c07", 0);
			if (fd < 0) return false;
			if (len && write(fd, s, len) != (ssize_t) len) { close(fd); return false; }
			lseek(fd, 0, SEEK_SET);
			if (!(mt = mpt::mpt_iterator_file(fd))) { close(fd); return false; }
		}
		if (!mt) return false;
		if (mt->convert(mpt::TypeIteratorPtr, &it) < 0 || !it) { mt->unref(); mt = 0; return false; }
		return true;
	}
	void done() { if (mt) mt->unref(); mt = 0; it = 0; }
};
static void check_iter_text(Run &r, TJob &J, const std::string &str, const Vec &vec)
{
	const TI &T = ti(J.dst);
	size_t len = str.size();
	char *s = (char *) malloc(len + 1); memcpy(s, str.c_str(), len + 1);
	void *dst = J.dest;
	unsigned char pat[16]; memset(pat, PAT, 16);
	++J.c.cases; ++r.states;
	auto desc = [&]() { return fmt("%s(%s) + mpt_iterator_consume -> '%c'", J.name.c_str(), quote(str).c_str(), J.dst); };
	bool in_rep = false; const char *in_cls = "no-numeral";
	if (J.dst != 'c') for (size_t n = len; n > 0; --n) {
		if (T.kind == KF) { FltNum f = parse_flt(s, n); if (f.valid) { in_cls = fclass(f.d, T, in_rep); break; } }
		else { IntNum i = parse_int(s, n, 0); if (i.valid) { in_cls = iclass(i, T, in_rep); break; } }
	}
	else in_cls = "character";
	++J.c.cls[in_cls];
	if (!in_rep && strcmp(in_cls, "no-numeral") && J.dst != 'c') ++J.c.nontrivial;
	std::string sigbase = J.name + "|" + J.dst + "|" + in_cls + "|";
	asan_error();
	int first = INT_MIN;
	volatile int elem = 0;
	int sig;
	std::string fail, failsig;
	unsigned char got[16];
	GUARD(sig, {
		TextIter ti_;
		if (ti_.open(J.fn, s, len)) {
			for (elem = 0; elem < 3; ++elem) {
				memset(dst, PAT, T.size);
				int ret = mpt::mpt_iterator_consume(ti_.it, (mpt::type_t) J.dst, dst);
				++r.transitions;
				memcpy(got, dst, T.size);
				if (!elem) first = ret;
				if (r.replaying) r.note("%s: element %d perform ret=%d dest=%s", desc().c_str(), (int) elem, ret, hex(got, T.size).c_str());
				if (ret < 0) {
					if (memcmp(got, pat, T.size)) { failsig = "refused-but-wrote"; fail = fmt(": element %d refused (%d) but destination changed to %s", (int) elem, ret, hex(got, T.size).c_str()); }
					else if (!elem) { if (in_rep) ++J.c.refused_rep; else ++J.c.refused_unrep; }
					break;
				}
				if (!denoted_by_substring(str, T, J.dst, got, J.fn == F_ITERSTR ? " ,;/:" : "")) {
					failsig = "wrong-value";
					fail = fmt(": element %d accepted (ret %d) but the delivered value %s (bytes %s)%s is not the number denoted by any complete (separator delimited) element of the text", (int) elem, ret,
						T.kind == KF ? ldstr(readnum(J.dst, got)).c_str() : i128str(readint(J.dst, got)).c_str(), hex(got, T.size == 16 ? 10 : T.size).c_str(), memcmp(got, pat, T.size) ? "" : " = untouched");
					break;
				}
				++J.c.exact;
			}
			ti_.done();
		} else first = -9999;
	});
	if (sig) { report(r, sigbase + "perform-" + signame(sig), vec, desc() + fmt(": faults at element %d", (int) elem)); free(s); return; }
	// companion of the element-end test in the string iterator: its element converter asks without destination
	// first, so a conversion WITH destination to the text format type must not fault either (guard, 'i' job only)
	if (J.fn == F_ITERSTR && J.dst == 'i') {
		int sigv;
		GUARD(sigv, { TextIter ti_; if (ti_.open(J.fn, s, len)) { const mpt::value *ev = ti_.it->value(); mpt::value_format vf; if (ev) mpt::mpt_value_convert(ev, mpt::TypeValFmt, &vf); ++r.transitions; ti_.done(); } });
		if (sigv) { report(r, J.name + "|valfmt|with-destination|perform-" + signame(sigv), vec, fmt("mpt_iterator_string(%s): converting the element to a value format WITH destination faults", quote(str).c_str())); free(s); return; }
		asan_error();
	}
	if (asan_error()) { report(r, sigbase + "asan", vec, desc() + ": memory access outside the text / destination (AddressSanitizer)"); free(s); return; }
	if (!failsig.empty()) { report(r, sigbase + failsig, vec, desc() + fail); free(s); return; }
	if (first == -9999) { ++J.c.cls["iterator-not-created"]; free(s); return; }
	int q = INT_MIN;
	GUARD(sig, { TextIter ti_; if (ti_.open(J.fn, s, len)) { q = mpt::mpt_iterator_consume(ti_.it, (mpt::type_t) J.dst, 0); ++r.transitions; ti_.done(); } });
	if (r.replaying) r.note("%s: query ret=%d%s", desc().c_str(), sig ? 0 : q, sig ? " FAULT" : "");
	if (sig) report(r, sigbase + "query-" + signame(sig), vec, desc() + ": query mode (dest=NULL) faults");
	else if (asan_error()) report(r, sigbase + "asan", vec, desc() + ": memory access outside the text (AddressSanitizer) in query mode");
	else if ((q < 0) != (first < 0)) report(r, sigbase + "query-verdict-differs", vec, desc() + fmt(": first element: perform returned %d, query (dest=NULL, fresh iterator) returned %d", first, q));
	else ++J.c.query_agree;
	free(s);
}

// ------------------------------------------------------------------ jobs
static const int VBLOCK = 4096, TBLOCK = 2048, SWBLOCK = 1 << 16, SLICES = 16;
static int short_len(Tier t) { return t == Quick ? 5 : 6; }
void mc_jobs(Tier t, std::vector<std::string> &jobs)
{
	// big jobs first
	if (t == Thorough) for (const char *e : {"direct"}) for (char s : {'i', 'u', 'f'}) for (int k = 0; k < SLICES; ++k) jobs.push_back(fmt("sweep:%s:%c:%d", e, s, k));
	for (const char *s = "edfxtiunqcby"; *s; ++s) for (int e = 0; e < 4; ++e) jobs.push_back(fmt("val:%s:%c", ENTRY[e], *s));
	for (int e = CXX0; e < CXX0 + NCXX; ++e) jobs.push_back(fmt("cxx:%s", ENTRY[e]));
	std::vector<int> bases = {0, 10, 16, 8};
	if (t == Thorough) { bases.push_back(2); bases.push_back(36); }
	for (int i = 0; i < NTENT; ++i) {
		if (ti(TENT[i].dst).kind == KF) jobs.push_back(fmt("txt:%s:0", TENT[i].name));
		else for (int b : bases) jobs.push_back(fmt("txt:%s:%d", TENT[i].name, b));
	}
	for (const char *d = DST; *d; ++d) { jobs.push_back(fmt("txt:mpt_convert_number>%c:0", *d)); jobs.push_back(fmt("txt:mpt_convert_string>%c:0", *d)); }
	for (const char *d = DST; *d; ++d) { jobs.push_back(fmt("txt:mpt_iterator_string>%c:0", *d)); jobs.push_back(fmt("txt:mpt_iterator_file>%c:0", *d)); }
	// development aid (never set by ./check): restrict to jobs containing a substring
	if (const char *only = getenv("C07_ONLY")) { std::vector<std::string> k; for (auto &j : jobs) if (j.find(only) != std::string::npos) k.push_back(j); jobs.swap(k); }
}
static std::vector<std::string> split(const std::string &s, char c)
{
	std::vector<std::string> v; size_t p = 0;
	for (;;) { size_t e = s.find(c, p); if (e == std::string::npos) { v.push_back(s.substr(p)); return v; } v.push_back(s.substr(p, e - p)); p = e + 1; }
}
static int entry_ix(const std::string &n) { for (int e = 0; e < CXX0 + NCXX; ++e) if (n == ENTRY[e]) return e; return 0; }

struct JobCtx {
	std::string kind;
	VJob *vj; std::vector<Val> vals; int slice; std::string swt;
	TJob tj; uint64_t nshort; int cxx_entry;
	JobCtx() : vj(0), slice(0), nshort(0), cxx_entry(0) {}
	~JobCtx() { delete vj; }
};
static void setup(JobCtx &jc, Run &r, const std::string &job)
{
	install_guard();
	std::vector<std::string> p = split(job, ':');
	jc.kind = p[0];
	if (jc.kind == "cxx") { jc.cxx_entry = entry_ix(p[1]); return; }
	if (jc.kind == "val" || jc.kind == "sweep") {
		jc.vj = new VJob(entry_ix(p[1]), p[2][0]);
		if (jc.kind == "val") gen_values(p[2][0], jc.vals);
		else { jc.slice = atoi(p[3].c_str()); jc.swt = sweep_targets(p[2][0]); }
	} else {
		TJob &J = jc.tj;
		J.base = atoi(p[2].c_str());
		size_t gt = p[1].find('>');
		if (gt != std::string::npos) { J.name = p[1].substr(0, gt); J.dst = p[1][gt + 1]; J.fn = J.name == "mpt_convert_number" ? F_NUMBER : (J.name == "mpt_convert_string" ? F_STRING : (J.name == "mpt_iterator_string" ? F_ITERSTR : F_ITERFILE)); }
		else for (int i = 0; i < NTENT; ++i) if (p[1] == TENT[i].name) { J.name = p[1]; J.dst = TENT[i].dst; J.fn = TENT[i].fn; }
		J.dest = malloc(ti(J.dst).size);
		build_grid();
		// the iterator entries (one memfd / iterator object per string) stay at length 5 in both tiers
		jc.nshort = short_count(J.fn >= F_ITERSTR ? 5 : short_len(r.tier));
	}
}
static void body(Run &r, JobCtx &jc, Ctx &x)
{
	bool single = x.prefix.size() > 2;
	uint64_t st0 = r.states;
	struct Ex { Run &r; uint64_t s0; ~Ex() { if (r.states > s0) r.executions += r.states - s0 - 1; } } ex_{r, st0};
	if (jc.kind == "cxx") {
		const int NS = (int) strlen(SRC);
		char A = SRC[x.choose(NS)], B = SRC[x.choose(NS)];
		int e = jc.cxx_entry;
		std::string h = std::string(ENTRY[e]) + "|" + A + " then " + B;
		r.hint(h.c_str());
		Tier tier = r.tier;
		std::string res = in_child([=]() { return cxx_pair(tier, e, A, B); }, 60);
		if (!res.empty() && res[0] == 1) { r.violation(h + "|any|child-" + res.substr(1), fmt("%s: converting '%c' values, then '%c' values, then '%c' again in one process: the process ended with %s", ENTRY[e], A, B, A, res.substr(1).c_str())); return; }
		if (A == 'i' && B == 'x') r.sample(fmt("%s: fresh process; wrapper objects holding every '%c' value x targets %s x {perform, query}, then every '%c' value, then '%c' again (12 x 12 ordered type pairs)", ENTRY[e], A, DST, B, A));
		for (const std::string &ln : split(res, '\n')) {
			std::vector<std::string> f = split(ln, '\t');
			if (f[0] == "N" && f.size() >= 3) { r.states += strtoull(f[1].c_str(), 0, 10); r.transitions += strtoull(f[2].c_str(), 0, 10); }
			else if (f[0] == "C" && f.size() >= 3) r.count(f[1], strtoull(f[2].c_str(), 0, 10));
			else if (f[0] == "V" && f.size() >= 4) r.violation(f[1], fmt("[order: '%c' values, then '%c', then '%c' again in one process] ", A, B, A) + f[3]);
		}
		return;
	}
	if (jc.kind == "val") {
		VJob &J = *jc.vj;
		uint64_t nblocks = (jc.vals.size() + VBLOCK - 1) / VBLOCK;
		int tix = (int) x.choose(NDST); uint64_t blk = x.choose(nblocks);
		r.hint((std::string(GROUP[J.entry]) + "|" + J.s + "->" + DST[tix]).c_str());
		size_t lo = blk * VBLOCK, hi = std::min(jc.vals.size(), lo + VBLOCK);
		if (single) { size_t i = lo + x.choose(VBLOCK + 1) - 1; Vec v = x.taken; check_value(r, J, jc.vals[i], tix, v); return; }
		if (!tix && !blk) r.sample(fmt("%s: source '%c' x %zu values (first bytes %s, last %s) x targets %s x {perform, query}", ENTRY[J.entry], J.s, jc.vals.size(), hex(jc.vals.front().b, ti(J.s).size).c_str(), hex(jc.vals.back().b, ti(J.s).size).c_str(), DST));
		Vec v = x.taken; v.push_back(0);
		for (size_t i = lo; i < hi; ++i) { v[2] = i - lo + 1; check_value(r, J, jc.vals[i], tix, v); }
		// one more letter: a value without data address (stands for zero); reported with the vector of its block
		if (!blk) { Val z; memset(z.b, 0, 16); J.nullsrc = true; Vec vz = x.taken; check_value(r, J, z, tix, vz); J.nullsrc = false; }
	} else if (jc.kind == "sweep") {
		VJob &J = *jc.vj;
		uint64_t per = ((uint64_t) 1 << 32) / SLICES, nblocks = per / SWBLOCK;
		int k = (int) x.choose(jc.swt.size()); uint64_t blk = x.choose(nblocks);
		int tix = (int) (strchr(DST, jc.swt[k]) - DST);
		r.hint((std::string(GROUP[J.entry]) + "|" + J.s + "->" + DST[tix]).c_str());
		uint64_t lo = jc.slice * per + blk * SWBLOCK;
		Val val; memset(val.b, 0, 16);
		if (single) { uint32_t b = (uint32_t) (lo + x.choose(SWBLOCK + 1) - 1); memcpy(val.b, &b, 4); check_value(r, J, val, tix, x.taken); return; }
		if (!k && !blk) r.sample(fmt("%s: all 4-byte patterns %08llx..%08llx of source '%c' x targets %s x {perform, query}", ENTRY[J.entry], (unsigned long long) (jc.slice * per), (unsigned long long) (jc.slice * per + per - 1), J.s, jc.swt.c_str()));
		Vec v = x.taken; v.push_back(0);
		asan_error();
		uint64_t st = r.states, tr = r.transitions;
		auto full = [&](uint64_t i) { uint32_t b = (uint32_t) (lo + i); v[2] = i + 1; memcpy(val.b, &b, 4); check_value(r, J, val, tix, v); };
		for (uint64_t start = 0; start < SWBLOCK;) {
			bool faulted;
			uint64_t stop = sweep_run(J, tix, lo, start, SWBLOCK, faulted);
			if (faulted && stop > start) { bool f2; sweep_run(J, tix, lo, start, stop, f2); }   // counters of the clean part were lost with the jump
			if (stop < SWBLOCK) full(stop);
			start = stop + 1;
		}
		if (asan_error()) for (uint64_t i = 0; i < SWBLOCK; ++i) full(i);   // an access in this block was out of bounds: locate it with the full oracle
		r.states = st + SWBLOCK; r.transitions = tr + 2 * (uint64_t) SWBLOCK;
	} else {
		TJob &J = jc.tj;
		int fam = (int) x.choose(2);
		uint64_t total = fam ? jc.nshort : g_grid.size();
		uint64_t blk = x.choose((total + TBLOCK - 1) / TBLOCK);
		r.hint((J.name + "|" + J.dst).c_str());
		uint64_t lo = blk * TBLOCK, hi = std::min(total, lo + TBLOCK);
		if (single) { uint64_t i = lo + x.choose(TBLOCK + 1) - 1; check_text(r, J, fam ? short_string(i) : g_grid[i], x.taken); return; }
		if (!blk) r.sample(fam ? fmt("%s base %d: all %llu strings up to length %d over \"%s\"", J.name.c_str(), J.base, (unsigned long long) total, J.fn >= F_ITERSTR ? 5 : short_len(r.tier), SIGMA)
		                       : fmt("%s base %d: %zu grid numerals, e.g. %s %s %s", J.name.c_str(), J.base, g_grid.size(), quote(g_grid[200]).c_str(), quote(g_grid[g_grid.size() / 2]).c_str(), quote(g_grid[g_grid.size() - 300]).c_str()));
		Vec v = x.taken; v.push_back(0);
		for (uint64_t i = lo; i < hi; ++i) { v[2] = i - lo + 1; check_text(r, J, fam ? short_string(i) : g_grid[i], v); }
	}
}
void mc_explore(Run &r, const std::string &job)
{
	JobCtx jc; setup(jc, r, job);
	report = Reporter();
	r.require("nontrivial");
	r.require("value:accepted_exact"); r.require("value:accepted_rounded_neighbour(float target)"); r.require("value:refused_unrepresentable"); r.require("value:query_mode_agrees");
	r.require("text:accepted_exact"); r.require("text:accepted_rounded_neighbour(float target)"); r.require("text:refused_unrepresentable"); r.require("text:query_mode_agrees");
	for (const char *c : {"in-range", "above-max", "below-min", "negative-to-unsigned", "beyond-64bit", "float-overflow", "float-underflow", "finite", "inf", "nan", "no-numeral", "character"}) r.require(std::string("text:input:") + c);
	dfs(r, [&](Ctx &x) { body(r, jc, x); });
	if (jc.vj) jc.vj->c.flush(r, "value:"); else if (jc.kind != "cxx") jc.tj.c.flush(r, "text:");
	r.require("cxx-generic:accepted_exact"); r.require("cxx-generic:refused_unrepresentable"); r.require("cxx-generic:wrapper_objects"); r.require("cxx-tvalue:accepted_exact"); r.require("cxx-metaptr:accepted_exact");
}
void mc_replay(Run &r, const std::string &job, const Vec &v)
{
	JobCtx jc; setup(jc, r, job);
	report = Reporter();
	dfs_replay(r, [&](Ctx &x) { body(r, jc, x); }, v);
}

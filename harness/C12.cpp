// C12 — each request is answered at most once, to the right requester.
//
// Part A (jobs "ids:w=N"): stateless grid over (header width, id): the real
// mpt_message_id2buf / mpt_message_buf2id against big-endian arithmetic, on
// exactly sized heap buffers (ASan redzones = guard bands).
//
// Part B (jobs "proto:..."): BFS over operation histories on a real deferrable
// reply context (mpt_reply_deferrable) whose transport is a recording callback
// of the harness; accept/reject of every send is part of the operation letter.
// A request is armed exactly the way connection_dispatch.c / io_stream.cpp do
// it (convert to TypeReplyDataPtr, convert to TypeReplyPtr, mpt_reply_set).
// Reference model: per armed request a state in {armed, deferred, answered,
// dropped}; the transport oracle runs inside the send callback.
#include <cerrno>
#include <cstdlib>
#include <cstddef>
#include <sys/uio.h>
#include <sys/socket.h>
#include <fcntl.h>
#include <poll.h>
#include <unistd.h>
#include <algorithm>
#include "meta.h"
#include "types.h"
#include "message.h"
#include "output.h"
#include "event.h"
#include "convert.h"
#include "connection.h"
#include "notify.h"
#include "stream.h"
#include "mc.hpp"

using namespace mc;
const char *mc_id = "C12";
const char *mc_rule = "part A: DFS grid width 0..9 x id set (0, 2^k-1, 2^k, 2^k+1, all ids < 2^16 (thorough 2^18), all ids with <= 2 (thorough 3) non-zero bytes from {01,7f,80,ff}) x {id pointer, NULL}; "
                      "nontrivial = id occupies the most significant header byte or does not fit. "
                      "part B: BFS over histories of arm (context width; in the :altarm jobs additionally once per history with id length 0, width-1, width+1, 4 or 5)/reply/context_reply/defer/handle reply/handle release/addref/unref x transport accepts|rejects on a fresh mpt_reply_deferrable context, "
                      "canonical-state dedupe; nontrivial = distinct (history, op) steps executed while a request is deferred, was rejected by the transport before, or a second request exists. "
                      "part D: the same request/handler scripts (plus defer with late handle use, dispatch without handler) through mpt_connection_dispatch on a stream backed and on a datagram connection. part E: requester side, 1..3 incoming replies from 7-8 letters (incl. reply for a request waiting behind requests 1 and 2) x {mpt_connection_dispatch, mpt_stream_sync} x {id reused afterwards or not} x {all reply handlers return 0, handler of request 1 or 2 reports an error (sync stops and compacts its wait list)}, each case in a forked child. part C: DFS over 1..2 requests x {zero id, id} x 7 handler scripts x {handler returns 0, returns an error} x 2 open modes, two further dispatch rounds after every delivery, x {one by one, queued together} through mpt_stream_input on a socketpair; nontrivial = two requests or a script other than none/reply";

// =====================================================================
// Part A
// =====================================================================
static std::vector<uint64_t> idset(Tier t)
{
	std::vector<uint64_t> v;
	v.push_back(0); v.push_back(~(uint64_t) 0);
	for (int k = 0; k < 64; ++k) { uint64_t p = (uint64_t) 1 << k; v.push_back(p - 1); v.push_back(p); v.push_back(p + 1); }
	for (uint64_t i = 0, n = t == Quick ? 0x10000 : 0x40000; i < n; ++i) v.push_back(i);
	static const uint8_t bv[] = {0x01, 0x7f, 0x80, 0xff};
	for (int p0 = 0; p0 < 8; ++p0) for (uint8_t b0 : bv) {
		uint64_t a = (uint64_t) b0 << 8 * p0; v.push_back(a);
		for (int p1 = p0 + 1; p1 < 8; ++p1) for (uint8_t b1 : bv) {
			uint64_t b = a | (uint64_t) b1 << 8 * p1; v.push_back(b);
			if (t == Thorough) for (int p2 = p1 + 1; p2 < 8; ++p2) for (uint8_t b2 : bv) v.push_back(b | (uint64_t) b2 << 8 * p2);
		}
	}
	std::sort(v.begin(), v.end()); v.erase(std::unique(v.begin(), v.end()), v.end());
	return v;
}
// value fits into w header bytes with the top bit of the first byte left free for the reply marker
static bool fits(uint64_t id, size_t w) { if (!w) return id == 0; if (w >= 9) return true; return id < ((uint64_t) 1 << (8 * w - 1)); }
static bool bytes_fit(uint64_t id, size_t w) { return w >= 8 || id < ((uint64_t) 1 << 8 * w); }
static const char *wcls(size_t w) { return w == 0 ? "width=0" : (w == 1 ? "width=1" : (w <= 8 ? "width=2..8" : "width>8")); }
static void be(uint64_t id, size_t w, uint8_t *out) { for (size_t i = 0; i < w; ++i) { size_t sh = w - 1 - i; out[i] = sh < 8 ? (uint8_t) (id >> 8 * sh) : 0; } }

// the grid reports the same defect for almost every id: keep the first reports per signature, count the rest
static std::map<std::string, uint64_t> g_rep;
static void flag(Run &r, const std::string &sig, const std::string &detail)
{
	if (++g_rep[sig] <= 200 || r.replaying) r.violation(sig, detail);
	else r.count("repeats of an already flagged signature (counted, not re-reported): " + sig);
}
struct ACnt { uint64_t nontrivial, accepted, refused, roundtrip, toowide_refused, marker_refused, widebuf_refused, nullptr_ok; };

static void id_case(Run &r, ACnt &c, size_t w, uint64_t id, unsigned lead, bool nullp)
{
	std::string desc = fmt("width=%zu id=0x%llx", w, (unsigned long long) id);
	uint8_t want[16]; be(id, w, want);
	bool fit = fits(id, w);
	if (!fit || (w && w <= 8 && (id >> 8 * (w - 1)))) ++c.nontrivial;
	// ---- encode
	if (!lead && !nullp) {
		uint8_t *buf = (uint8_t *) malloc(w);
		memset(buf, 0xEE, w);
		asan_error();
		r.hint("id2buf");
		int ret = LIB(mpt::mpt_message_id2buf(id, buf, w));
		if (asan_error()) flag(r, std::string("id2buf|") + wcls(w) + "|memory", desc + ": access outside the " + std::to_string(w) + "-byte header (AddressSanitizer)");
		else if (fit) {
			if (ret < 0) { ++c.refused; flag(r, "id2buf|fits|refused", desc + fmt(": id fits into %zu bytes with the marker bit free, but was refused (%d); buffer %s", w, ret, hex(buf, w).c_str())); }
			else if (memcmp(buf, want, w)) flag(r, "id2buf|fits|wrong-bytes", desc + ": header bytes " + hex(buf, w) + " != big-endian " + hex(want, w));
			else ++c.accepted;
		} else {
			if (ret >= 0) flag(r, bytes_fit(id, w) ? "id2buf|needs-marker-bit|accepted" : "id2buf|too-wide|accepted", desc + fmt(": value does not fit but was accepted (%d), header %s", ret, hex(buf, w).c_str()));
			else if (bytes_fit(id, w)) ++c.marker_refused; else ++c.toowide_refused;
		}
		free(buf);
	}
	// ---- decode (buffer built by the harness, independent of the encoder)
	if (!bytes_fit(id, w)) return;
	if (!fit && !lead) return;      // first byte carries the reply marker: callers strip it first, not a request id
	if (lead && w < 9) return;
	uint8_t *b2 = (uint8_t *) malloc(w);
	memcpy(b2, want, w);
	if (lead) b2[0] = (uint8_t) lead;
	uint64_t back = ~id;
	asan_error();
	r.hint("buf2id");
	int ret = LIB(mpt::mpt_message_buf2id(b2, w, nullp ? 0 : &back));
	std::string d2 = desc + " header=" + hex(b2, w);
	if (asan_error()) flag(r, std::string("buf2id|") + wcls(w) + "|memory", d2 + ": access outside the header bytes (AddressSanitizer)");
	else if (lead) {
		if (ret >= 0) flag(r, "buf2id|too-wide|accepted", d2 + fmt(": 9-byte value above 2^64 accepted (%d)", ret));
		else ++c.widebuf_refused;
	}
	else if (ret < 0) flag(r, "buf2id|valid|refused", d2 + fmt(": valid id refused (%d)", ret));
	else if (nullp) ++c.nullptr_ok;
	else if (back != id) flag(r, "buf2id|valid|wrong-id", d2 + (back == ~id ? ": id was not written at all" : fmt(": read back 0x%llx", (unsigned long long) back)) + fmt(" (return %d)", ret));
	else ++c.roundtrip;
	free(b2);
}

// =====================================================================
// Part B
// =====================================================================
// layout of the (file-local) struct reply_context_defer in reply_deferrable.c
// head = members in front of the metatype interface (a further reference counter may follow `ref`), tail = from the interface on
struct Head { void *send; void *ptr; uintptr_t ref; uintptr_t users; };
struct Tail { const void *mt_vptr; const void *ctx_vptr; uint16_t max, len; uint8_t val[4]; };
// struct replyDataDelayed
struct HMirror { const void *vptr; void *base; uint16_t max, len; uint8_t val[4]; };

static int g_idlen = 4, g_R = 2, g_maxref = 2, g_depth = 0; static bool g_target = true, g_alt = false;
static std::set<std::string> g_canon;      // harness-side copy of the visited set: tells at which history length new states still appear

enum { ARMED, DEFERRED, ANSWERED, DROPPED };
static const char *stn[] = {"armed", "deferred", "answered", "dropped"};
enum OpK { ARM, ARMX0, ARMX1, ARMX2, ARMX3, ARMX4, REPLY_OK, REPLY_FAIL, REPLY0_OK, REPLY0_FAIL, CREPLY_OK, CREPLY_FAIL, DEFER, ADDREF, UNREF_OK, UNREF_FAIL, HBASE };
static const char *opnm[] = {"arm", "arm(alt0)", "arm(alt1)", "arm(alt2)", "arm(alt3)", "arm(alt4)", "reply(msg)/transport accepts", "reply(msg)/transport rejects", "reply(NULL)/transport accepts", "reply(NULL)/transport rejects",
                             "mpt_context_reply/transport accepts", "mpt_context_reply/transport rejects", "defer", "addref", "unref/transport accepts", "unref/transport rejects"};
static const char *hopnm[] = {"reply(msg)/transport accepts", "reply(msg)/transport rejects", "release/transport accepts", "release/transport rejects"};

// id lengths other than the context width that an arm attempt is also made with (a dispatcher bug, a foreign caller):
// 0, width-1, width+1 and the sizes around the inline val[4]
static std::vector<int> alt_lens()
{
	std::vector<int> v;
	for (int l : {0, g_idlen - 1, g_idlen + 1, 4, 5}) if (l >= 0 && l != g_idlen && std::find(v.begin(), v.end(), l) == v.end()) v.push_back(l);
	return v;
}
struct Sys;
static Sys *g_sys = 0;
static int transport(void *ptr, const mpt::reply_data *rd, const mpt::message *msg);

struct Sys {
	Run &r;
	mpt::metatype *mt; Head *hd; Tail *cx; size_t pre; mpt::reply_context *rc; mpt::reply_data *rd;
	int refs; bool attached; int armed; bool ctx_answered; bool altused;
	struct Req { std::vector<uint8_t> id; int state; int accepted; int attempts; };
	std::vector<Req> req;
	struct H { mpt::reply_context_detached *h; int req; };
	std::vector<H> hs;
	char token;
	int step;
	// per operation
	int addr, calls, accepted_now; bool accept, bad, fin; const mpt::message *opmsg; std::string opgroup; bool msg_forwarded, msg_default, creply_wellformed;

	Sys(Run &run, uint64_t) : r(run), mt(0), hd(0), cx(0), pre(0), rc(0), rd(0), refs(1), attached(true), armed(-1), ctx_answered(false), altused(false), token(0), step(0), addr(-1), calls(0), accept(true), bad(false), fin(false), opmsg(0)
	{
		g_sys = this;
		ledger_reset();
		asan_error();
		r.hint("mpt_reply_deferrable");
		mt = LIB(mpt::mpt_reply_deferrable(g_idlen, transport, g_target ? &token : 0));
		if (!mt) { r.incomplete("mpt_reply_deferrable failed"); refs = 0; return; }
		cx = (Tail *) mt;
		for (size_t p : {3 * sizeof(void *), 4 * sizeof(void *)}) if (ledger_is_live((char *) mt - p)) { pre = p; hd = (Head *) ((char *) mt - p); }
		if (!hd || hd->send != (void *) transport || hd->ref != 1 || cx->max != g_idlen || cx->len != 0) { r.incomplete("struct reply_context_defer layout differs from the harness mirror"); }
		LIB(mt->convert(mpt::TypeReplyPtr, &rc));
	}
	~Sys()
	{
		for (auto &h : hs) if (ledger_is_live(h.h)) free(h.h);
		if (hd && ledger_is_live(hd)) free(hd);
		if (g_sys == this) g_sys = 0;
	}
	int nops() { return HBASE + 4 * g_R; }
	std::string opname(int op)
	{
		if (op >= ARMX0 && op <= ARMX4) { std::vector<int> a = alt_lens(); return op - ARMX0 < (int) a.size() ? fmt("ctx.arm(%d-byte id)", a[op - ARMX0]) : std::string("ctx.arm(unused letter)"); }
		return opname1(op);
	}
	std::string opname1(int op) { return op < HBASE ? std::string("ctx.") + opnm[op] : fmt("handle%d.", (op - HBASE) / 4) + hopnm[(op - HBASE) % 4]; }

	std::string stcls(int k) { return std::string(attached ? "" : "detached,") + (k < 0 ? "no-request" : stn[req[k].state]) + (k >= 0 && req[k].attempts && req[k].state != ANSWERED ? ",rejected-before" : ""); }
	void fail(const std::string &failure, const std::string &what)
	{
		bad = true;
		r.violation(opgroup + "|" + stcls(addr) + "|" + failure, fmt("idlen=%d target=%s ", g_idlen, g_target ? "set" : "NULL") + history() + ": " + what);
	}
	std::string hist_;
	std::string history() { return hist_; }
	void cnt(const char *k) { if (fin) r.count(k); }

	// ---- transport oracle (runs inside the library's send callback)
	int on_send(void *ptr, const mpt::reply_data *d, const mpt::message *msg)
	{
		++calls;
		if (!attached) fail("transport-used-after-detach", "send callback invoked although the transport was detached");
		if (ptr != (void *) &token) fail("wrong-target", "send callback invoked with a foreign target pointer");
		const uint8_t *v = d->val;
		size_t n = d->len, cap = (size_t) std::max(g_idlen, 4);
		if (n > cap) { fail("wrong-id-length", fmt("reply id has %u bytes, the context holds at most %zu", (unsigned) d->len, cap)); return accept ? 0 : mpt::BadOperation; }
		std::vector<uint8_t> id(v, v + n);
		bool marked = n && (id[0] & 0x80); if (n) id[0] &= 0x7f;
		int k = -1;
		for (size_t i = 0; i < req.size(); ++i) if (req[i].id == id) k = (int) i;
		if (k < 0 && addr >= 0 && req[addr].id.size() != n) fail("wrong-id-length", fmt("reply for request #%d (id %s) goes out with a %zu-byte id %s", addr, hex(req[addr].id.data(), req[addr].id.size()).c_str(), n, hex(v, n).c_str()));
		else if (k < 0) fail("unknown-id", "reply id " + hex(v, n) + " belongs to no armed request");
		else if (!marked) fail("reply-marker-missing", "reply id " + hex(v, n) + " does not have the reply bit set");
		if (k >= 0) {
			if (addr >= 0 && k != addr) fail("wrong-id", fmt("reply for request #%d carries the id of request #%d (%s)", addr, k, hex(v, n).c_str()));
			++req[k].attempts;
			if (accept) {
				if (req[k].accepted) fail("second-reply-accepted", fmt("transport accepted a second reply for request #%d (id %s)", k, hex(req[k].id.data(), req[k].id.size()).c_str()));
				++req[k].accepted; ++accepted_now;
				req[k].state = ANSWERED;
			}
		}
		if (msg == 0) msg_default = true;
		else if (msg == opmsg) msg_forwarded = true;
		else if (msg->used == sizeof(mpt::msgtype) && msg->base && ((const mpt::msgtype *) msg->base)->cmd == mpt::msgtype::Answer && ((const mpt::msgtype *) msg->base)->arg == 3
		         && msg->clen == 1 && msg->cont && msg->cont[0].iov_len == 4 && !memcmp(msg->cont[0].iov_base, "text", 4)) creply_wellformed = true;
		return accept ? 0 : mpt::BadOperation;
	}

	void begin(const char *group, int a, bool acc)
	{
		opgroup = group; addr = a; calls = 0; accepted_now = 0; accept = acc; opmsg = 0; msg_forwarded = msg_default = creply_wellformed = false;
		asan_error();
	}
	bool mem()
	{
		if (asan_error()) { fail("memory", "invalid memory access (AddressSanitizer)"); return true; }
		return false;
	}

	bool apply(int op)
	{
		g_sys = this; bad = false;
		++step;
		fin = (size_t) step + 1 == r.cur.size();
		hist_ += (hist_.empty() ? "" : " ; ") + opname(op);
		static const char *grp[] = {"arm", "arm", "arm", "arm", "arm", "arm", "reply", "reply", "reply", "reply", "reply", "reply", "defer", "addref", "unref", "unref"};
		r.hint(op < HBASE ? grp[op] : ((op - HBASE) % 4 >= 2 ? "handle.release" : "handle.reply"));
		bool nontriv = req.size() > 1 || !hs.empty();
		for (auto &q : req) if (q.attempts && q.state != ANSWERED) nontriv = true;
		bool ran = true;
		switch (op) {
		case ARM: ran = do_arm(-1); break;
		case ARMX0: case ARMX1: case ARMX2: case ARMX3: case ARMX4: ran = do_arm(op - ARMX0); break;
		case REPLY_OK: case REPLY_FAIL: ran = do_reply(0, op == REPLY_OK); break;
		case REPLY0_OK: case REPLY0_FAIL: ran = do_reply(1, op == REPLY0_OK); break;
		case CREPLY_OK: case CREPLY_FAIL: ran = do_reply(2, op == CREPLY_OK); break;
		case DEFER: ran = do_defer(); break;
		case ADDREF: ran = do_addref(); break;
		case UNREF_OK: case UNREF_FAIL: ran = do_unref(op == UNREF_OK); break;
		default: ran = do_handle((op - HBASE) / 4, (op - HBASE) % 4 >= 2, (op - HBASE) % 2 == 0); break;
		}
		if (!ran) return false;
		if (!bad && refs == 0 && hs.empty()) {
			cnt("everything released: ledger checked");
			if (ledger_live()) { opgroup = "release"; addr = -1; fail("leak", fmt("%zu block(s) still allocated after the context and all handles were released", ledger_live())); }
		}
		if (fin && !bad && !r.replaying && g_canon.insert(canon()).second) r.count(fmt("new canonical states at history length %02d", step));
		if (fin && nontriv) r.count("nontrivial");
		if (fin && req.size() > 1) { int out = 0; for (auto &q : req) if (q.state == ARMED || q.state == DEFERRED) ++out; if (out > 1) r.count("two requests outstanding at once"); }
		return !bad;
	}

	// alt < 0: arm with an id of the context width (what the dispatchers do); alt >= 0: arm attempt with the alt-th other id length
	bool do_arm(int alt)
	{
		if (refs < 1 || (int) req.size() >= g_R) return false;
		int len = g_idlen;
		if (alt >= 0) { std::vector<int> a = alt_lens(); if (!g_alt || alt >= (int) a.size() || altused) return false; len = a[alt]; }
		begin("arm", armed, true);
		Req q; q.state = ARMED; q.accepted = 0; q.attempts = 0;
		q.id.assign(len, 0);
		int k = (int) req.size();
		if (alt < 0) {
			// distinct request ids; first byte below 0x80 (request), zero for the first request when there is room
			for (int i = 0; i < len; ++i) q.id[i] = (uint8_t) (0x11 * (i + 1) + k);
			q.id[0] = len > 1 ? (k ? 0x7f : 0x00) : (uint8_t) (k ? 0x7f - k : 0x01);
			q.id[len - 1] = len > 1 ? (uint8_t) (k + 1) : q.id[0];
		}
		else for (int i = 0; i < len; ++i) q.id[i] = (uint8_t) (i ? 0xa0 + 3 * i + k : 0x50 + k);     // differs from every regular id in every byte
		size_t dsz = pre + offsetof(Tail, val) + (size_t) std::max(g_idlen, 4);
		std::vector<uint8_t> snapb((uint8_t *) hd, (uint8_t *) hd + dsz);
		Tail snap = *cx; Head snaph = *hd;
		mpt::reply_data *d = 0; mpt::reply_context *c = 0;
		int c1 = LIB(mt->convert(mpt::TypeReplyDataPtr, &d));
		if (c1 >= 0 && d) LIB(mt->convert(mpt::TypeReplyPtr, &c));
		if (!c) { cnt("arm: no reply context available (not flagged)"); return false; }
		int s = LIB(mpt::mpt_reply_set(d, len, q.id.data()));
		std::string changed;
		if (hd->send != snaph.send) changed += " send-callback";
		if (hd->ptr != snaph.ptr) changed += " send-target";
		if (hd->ref != snaph.ref || (pre > 3 * sizeof(void *) && hd->users != snaph.users)) changed += " refcount";
		if (cx->mt_vptr != snap.mt_vptr) changed += " metatype-vptr";
		if (cx->ctx_vptr != snap.ctx_vptr) changed += " reply_context-vptr";
		if (cx->max != snap.max) changed += " id-capacity";
		if (!changed.empty()) { attached = true; addr = -1; fail("context-disturbed", fmt("arming %d-byte id ", len) + hex(q.id.data(), len) + " through the TypeReplyDataPtr conversion + mpt_reply_set changed the context's own fields:" + changed); return true; }
		if (mem()) return true;
		if (alt >= 0) altused = true;
		if (s < 0) {
			// a refused arm must leave the pending request (length and id bytes) alone; besides this snapshot the canonical state
			// carries the context's id bytes, so a silently replaced id is also followed to the next reply by the transport oracle
			if (memcmp(snapb.data(), hd, dsz)) {
				bad = true;
				r.violation(std::string("arm|") + (armed >= 0 ? "armed" : "no-request") + "|refused-arm-changed-reply-data", fmt("idlen=%d target=%s ", g_idlen, g_target ? "set" : "NULL") + history() + ": " + fmt("mpt_reply_set(%d-byte id %s) on a %d-byte context returned %d but changed the stored request: len %u -> %u, id %s -> %s", len, hex(q.id.data(), len).c_str(), g_idlen, s,
				     (unsigned) snap.len, (unsigned) cx->len, hex(snapb.data() + pre + offsetof(Tail, val), snap.len).c_str(), hex(cx->val, std::min<size_t>(cx->len, std::max(g_idlen, 4))).c_str()));
				return true;
			}
			cnt(alt < 0 ? "arm: mpt_reply_set refused (not flagged)" : "arm with a too long id refused, pending request untouched");
			return alt >= 0;
		}
		rd = d; rc = c;
		if (armed >= 0) { req[armed].state = DROPPED; cnt("arm over an unanswered request (overwritten, not flagged)"); }
		if (!len) { armed = -1; ctx_answered = false; cnt("arm with an empty id accepted: nothing armed"); return true; }
		req.push_back(q); armed = k; ctx_answered = false;
		cnt(alt < 0 ? "armed" : "armed with a shorter id than the context width");
		return true;
	}

	// kind 0: reply(msg)  1: reply(NULL)  2: mpt_context_reply
	bool do_reply(int kind, bool acc)
	{
		if (refs < 1 || !rc) return false;
		begin("reply", armed, acc);
		mpt::msgtype hdr(mpt::msgtype::Answer, 0);
		mpt::message m(&hdr, sizeof(hdr));
		int ret;
		if (kind == 0) { opmsg = &m; ret = LIB(rc->reply(&m)); }
		else if (kind == 1) ret = LIB(rc->reply(0));
		else ret = LIB(mpt::mpt_context_reply(rc, 3, "%s", "text"));
		if (mem()) return true;
		bool expect = addr >= 0 && attached && g_target;
		if (addr < 0) {
			if (!calls) {
				if (ctx_answered) { if (ret >= 0) fail("further-attempt-not-refused", fmt("request already answered, but another reply attempt returned %d", ret)); else cnt("further reply attempt after the answer refused"); }
				else cnt("reply without armed request refused or ignored");
			}
			return true;
		}
		Req &q = req[addr];
		if (!calls) {
			if (expect) {
				if (q.attempts) fail("retry-not-sent", fmt("the transport rejected the earlier send; the retry was not passed to the transport (returned %d)", ret));
				else cnt("first attempt never reached the attached transport (request stays unanswered; its default reply is demanded at release)");
			}
			else if (!attached) { cnt("reply on detached transport dropped"); q.state = DROPPED; armed = -1; }
			else cnt("reply without target: nothing sent");
			return true;
		}
		if (q.state == ANSWERED) {
			armed = -1; ctx_answered = true;
			cnt(q.attempts > 1 ? "retry after rejected send accepted" : "reply accepted");
			if (ret < 0) cnt("transport accepted but reply() reported failure (not flagged)");
			if (kind == 0 && msg_forwarded) cnt("reply message forwarded to transport");
			if (kind == 2 && creply_wellformed) cnt("mpt_context_reply: Answer header + text delivered");
		} else {
			cnt("reply rejected by transport");
			if (ret >= 0) cnt("transport rejected but reply() reported success (not flagged)");
		}
		return true;
	}

	bool do_defer()
	{
		if (refs < 1 || !rc) return false;
		begin("defer", armed, true);
		mpt::reply_context_detached *h = LIB(rc->defer());
		if (mem()) return true;
		if (calls) cnt("defer invoked the transport (not flagged)");
		if (addr < 0) {
			if (h) { cnt("defer without armed request returned a handle (not flagged)"); hs.push_back(H{h, -1}); }
			else cnt("defer without armed request refused");
			return true;
		}
		if (!h) { cnt("defer refused (not flagged)"); return true; }
		hs.push_back(H{h, addr}); req[addr].state = DEFERRED; armed = -1; ctx_answered = false;
		cnt("deferred");
		return true;
	}

	bool do_addref()
	{
		if (refs < 1 || refs >= g_maxref) return false;
		begin("addref", -1, true);
		uintptr_t n = LIB(mt->addref());
		if (mem()) return true;
		if (!n) { cnt("addref refused (not flagged)"); return true; }
		++refs; cnt("addref");
		return true;
	}

	// The transport stays attached as long as a metatype reference (the connection, copies of its reference) is held; deferred
	// handles alone do not keep it.  Releasing the last metatype reference releases the context: a request still armed on it gets
	// its default reply while the transport is still valid, afterwards the remaining handles are detached.
	bool do_unref(bool acc)
	{
		if (refs < 1) return false;
		bool last = refs == 1;
		begin("unref", last ? armed : -1, acc);
		bool expect = last && armed >= 0 && attached && g_target;
		LIB(mt->unref());
		--refs;
		if (mem()) return true;
		if (expect) {
			if (calls == 0) fail("no-default-reply", std::string("context released with an unanswered armed request and attached transport") + (hs.empty() ? "" : " (deferred handles remain)") + ": no default reply was sent");
			else if (calls > 1) fail("default-reply-repeated", fmt("%d default replies were sent", calls));
			else cnt(accept ? "context released: one default reply accepted" : "context released: one default reply attempted, transport rejected");
			if (!bad && !hs.empty()) cnt("context released while handles remain: armed request got its default reply first");
		} else if (last) cnt("context released, nothing to answer");
		else cnt("unref of a further metatype reference: transport stays attached");
		if (refs == 0) {
			if (!hs.empty()) { cnt("last metatype reference released while handles remain: transport detached"); attached = false; }
			if (armed >= 0 && req[armed].state == ARMED) req[armed].state = DROPPED;
			armed = -1; mt = 0; rc = 0; rd = 0;
		}
		return true;
	}

	bool do_handle(int i, bool release, bool acc)
	{
		if (i >= (int) hs.size()) return false;
		H hh = hs[i];
		begin(release ? "handle.release" : "handle.reply", hh.req, acc);
		mpt::msgtype hdr(mpt::msgtype::Answer, 0);
		mpt::message m(&hdr, sizeof(hdr));
		int ret;
		if (release) ret = LIB(hh.h->reply(0));
		else { opmsg = &m; ret = LIB(hh.h->reply(&m)); }
		if (mem()) return true;
		bool live = ledger_is_live(hh.h);
		bool expect = addr >= 0 && attached && g_target;
		if (expect && !calls) {
			if (release) fail("no-default-reply", "deferred handle released without answer and attached transport: no default reply was sent");
			else if (req[addr].attempts) fail("retry-not-sent", fmt("the transport rejected the earlier send; the retry was not passed to the transport (returned %d)", ret));
			else cnt("first attempt never reached the transport (not flagged)");
		}
		if (release && calls > 1) fail("default-reply-repeated", fmt("%d default replies were sent", calls));
		if (bad) return true;
		if (release) {
			if (live) { fail("handle-not-released", "released handle is still allocated"); return true; }
		}
		else if (ret < 0 && !live && calls && !accepted_now) { fail("retry-impossible", "the transport rejected the send and the handle was destroyed: the reply cannot be retried"); return true; }
		if (!live) {
			hs.erase(hs.begin() + i);
			if (addr >= 0 && req[addr].state != ANSWERED) req[addr].state = DROPPED;
		}
		if (addr >= 0) {
			if (calls && accepted_now) {
				cnt(release ? "handle released: one default reply accepted" : (req[addr].attempts > 1 ? "deferred retry after rejected send accepted" : "deferred reply accepted"));
				if (!release && msg_forwarded) cnt("reply message forwarded to transport");
				if (live) cnt("handle still allocated after accepted reply (leak checked at the end)");
			}
			else if (calls) cnt(release ? "handle released: one default reply attempted, transport rejected" : "deferred reply rejected by transport, handle kept");
			else if (!attached) cnt("deferred reply on detached transport dropped");
		}
		return true;
	}

	std::string canon()
	{
		std::string s = fmt("refs=%d att=%d armed=%d ca=%d alt=%d |", refs, attached, armed, ctx_answered, altused);
		size_t cap = (size_t) std::max(g_idlen, 4);
		for (auto &q : req) s += fmt(" %s/%d/%d/L%zu", stn[q.state], q.accepted, q.attempts ? 1 : 0, q.id.size());
		s += " | handles:";
		for (auto &h : hs) { s += fmt(" #%d", h.req); if (ledger_is_live(h.h)) { HMirror *m = (HMirror *) h.h; s += fmt("(len=%u id=%s)", (unsigned) m->len, hex(m->val, std::min<size_t>(m->len, cap)).c_str()); } else s += "(dead)"; }
		// the stored id bytes are part of the state: a request id replaced behind the model's back yields a new state that is explored up to its reply
		if (hd && ledger_is_live(hd)) s += fmt(" | ctx: ref=%lu len=%u id=%s send=%d", (unsigned long) hd->ref, (unsigned) cx->len, hex(cx->val, std::min<size_t>(cx->len, cap)).c_str(), hd->send != 0);
		else s += " | ctx: freed";
		return s;
	}
};
static int transport(void *ptr, const mpt::reply_data *rd, const mpt::message *msg)
{
	if (!g_sys) return mpt::BadOperation;
	return g_sys->on_send(ptr, rd, msg);
}


// =====================================================================
// Part C: the same promise on the stream input (stream_input.c: streamMessage / streamReply / mpt_stream_reply),
// driven over an AF_UNIX socketpair; the oracle reads the peer's end of the wire.
// =====================================================================
// struct streamInput (file-local in stream_input.c)
struct SMirror { const void *in_vptr; uintptr_t ref; mpt::stream data; const void *rc_vptr; uint16_t max, len; uint8_t val[4]; };

enum Script { S_NONE, S_REPLY, S_REPLY_TWICE, S_BUSY, S_BUSY_RETRY, S_DEFER, S_CREPLY, S_NSCRIPT };
static const char *scriptnm[] = {"no answer", "reply(msg)", "reply(msg) twice", "reply(msg) while an outgoing message is open", "reply(msg) while busy, finish message, retry", "defer() then no answer", "mpt_context_reply"};

struct SReq { std::vector<uint8_t> id; bool wants; int script; bool fail; int r1, r2; bool handled, had_ctx, deferred_handle; int onwire, delivered; };
struct SCase { Run *r; int idlen; std::vector<SReq> rq; size_t next; SMirror *sm; bool layout_bad; bool busy_left; int stray; mpt::reply_context *saved; int late_ret, late_calls; };

static std::vector<uint8_t> cobs(const std::vector<uint8_t> &in)
{
	std::vector<uint8_t> out; size_t code_at = 0; out.push_back(0); uint8_t code = 1;
	for (uint8_t b : in) {
		if (b) { out.push_back(b); if (++code == 0xff) { out[code_at] = code; code_at = out.size(); out.push_back(0); code = 1; } }
		else { out[code_at] = code; code_at = out.size(); out.push_back(0); code = 1; }
	}
	out[code_at] = code; out.push_back(0);
	return out;
}
static bool uncobs(const uint8_t *p, size_t n, std::vector<uint8_t> &out)
{
	size_t i = 0;
	while (i < n) {
		uint8_t c = p[i++]; if (!c || i + c - 1 > n) return false;
		out.insert(out.end(), p + i, p + i + c - 1); i += c - 1;
		if (c != 0xff && i < n) out.push_back(0);
	}
	return true;
}
static int stream_handler(void *arg, mpt::event *ev)
{
	SCase &c = *(SCase *) arg;
	// the payload names the request, so a message that is dispatched again is attributed to the same request and handled the same way again
	uint8_t pl[2] = {0, 0};
	if (!ev->msg) return 0;
	mpt::message body = *ev->msg;
	if (mpt::mpt_message_read(&body, 2, pl) < 2 || pl[0] != 'r' || pl[1] < '0' || (size_t) (pl[1] - '0') >= c.rq.size()) { ++c.stray; return 0; }
	SReq &q = c.rq[pl[1] - '0'];
	q.handled = true; ++q.delivered;
	mpt::reply_context *rc = ev->reply;
	q.had_ctx = rc != 0;
	if (!rc) return q.fail ? mpt::BadOperation : 0;
	if ((void *) rc != (void *) &c.sm->rc_vptr || c.sm->max != c.idlen) { c.layout_bad = true; return 0; }
	c.saved = rc;
	mpt::msgtype hdr(mpt::msgtype::Answer, 0);
	mpt::message m(&hdr, sizeof(hdr));
	switch (q.script) {
	case S_REPLY: q.r1 = LIB(rc->reply(&m)); break;
	case S_REPLY_TWICE: q.r1 = LIB(rc->reply(&m)); q.r2 = LIB(rc->reply(&m)); break;
	case S_BUSY: LIB(mpt::mpt_stream_push(&c.sm->data, 2, "zz")); q.r1 = LIB(rc->reply(&m)); c.busy_left = true; break;
	case S_BUSY_RETRY: LIB(mpt::mpt_stream_push(&c.sm->data, 2, "zz")); q.r1 = LIB(rc->reply(&m)); LIB(mpt::mpt_stream_push(&c.sm->data, 0, 0)); q.r2 = LIB(rc->reply(&m)); break;
	case S_DEFER: q.deferred_handle = LIB(rc->defer()) != 0; break;
	case S_CREPLY: q.r1 = LIB(mpt::mpt_context_reply(rc, 3, "%s", "text")); break;
	}
	return q.fail ? mpt::BadOperation : 0;
}
static void stream_case(Run &r, Ctx &x, int idlen)
{
	SCase c; c.r = &r; c.idlen = idlen; c.next = 0; c.sm = 0; c.layout_bad = false; c.busy_left = false; c.stray = 0; c.saved = 0; c.late_ret = 1; c.late_calls = 0;
	bool enc_mode = x.choose(2) != 0;               // 0: RdWr|Buffer as every caller in the tree passes it; 1: Write|RdWr|Buffer (installs the output encoder)
	size_t n = 1 + x.choose(2);
	for (size_t k = 0; k < n; ++k) {
		SReq q; q.wants = x.choose(2) == 0; q.script = (int) x.choose(S_NSCRIPT); q.fail = x.choose(2) != 0; q.r1 = q.r2 = 1; q.handled = q.had_ctx = q.deferred_handle = false; q.onwire = 0; q.delivered = 0;
		q.id.assign(idlen, 0);
		if (q.wants) { for (int i = 0; i < idlen; ++i) q.id[i] = (uint8_t) (0x11 * (i + 1) + k); q.id[0] = idlen > 1 ? (k ? 0x7f : 0x00) : (uint8_t) (k ? 0x7e : 0x01); q.id[idlen - 1] = idlen > 1 ? (uint8_t) (5 + k) : q.id[0]; }
		c.rq.push_back(q);
	}
	bool together = n > 1 && x.choose(2) != 0;
	bool late = x.choose(2) != 0;                   // another reply(msg) through the context the handler was given, after the dispatch returned
	std::string desc = fmt("stream input idlen=%d mode=%s%s%s:", idlen, enc_mode ? "Write|RdWr|Buffer" : "RdWr|Buffer", together ? " both requests queued before dispatch" : "", late ? ", late reply(msg) after dispatch" : "");
	for (auto &q : c.rq) desc += " [id " + hex(q.id.data(), idlen) + ", handler: " + scriptnm[q.script] + (q.fail ? ", returns an error" : "") + "]";
	r.note("%s", desc.c_str());
	++r.transitions;
	int sv[2];
	if (socketpair(AF_UNIX, SOCK_STREAM, 0, sv) < 0) { r.incomplete("socketpair failed"); return; }
	fcntl(sv[0], F_SETFL, O_NONBLOCK); fcntl(sv[1], F_SETFL, O_NONBLOCK);
	ledger_reset(); asan_error();
	r.hint("stream.dispatch");
	mpt::socket sock; sock._id = sv[0];
	mpt::input *in = LIB(mpt::mpt_stream_input(&sock, (enc_mode ? 0x3 : mpt::stream::RdWr) | mpt::stream::Buffer, mpt::EncodingCobs, idlen));
	if (!in) { close(sv[0]); close(sv[1]); r.incomplete("mpt_stream_input failed"); return; }
	c.sm = (SMirror *) in;
	auto send = [&](const SReq &q) { std::vector<uint8_t> m(q.id); m.push_back('r'); m.push_back((uint8_t) ('0' + (&q - &c.rq[0]))); std::vector<uint8_t> e = cobs(m); return write(sv[1], e.data(), e.size()) == (ssize_t) e.size(); };
	auto round = [&](bool poll) {
		if (poll) LIB(in->next(POLLIN));
		int ret = LIB(in->dispatch(stream_handler, &c));
		if (c.busy_left) { LIB(mpt::mpt_stream_push(&c.sm->data, 0, 0)); c.busy_left = false; }   // the handler's own message ends after the dispatch
		return ret;
	};
	auto pump = [&]() {
		for (int guard = 0; guard < 8; ++guard) { int ret = round(true); if (ret < 0 || !(ret & mpt::event::Retry)) break; }
		// the event loop comes back: further dispatch rounds without new input must not deliver (and answer) anything again
		for (int extra = 0; extra < 2; ++extra) round(false);
		if (late && c.saved) { mpt::msgtype hdr(mpt::msgtype::Answer, 0); mpt::message m(&hdr, sizeof(hdr)); c.late_ret = LIB(c.saved->reply(&m)); ++c.late_calls; }
	};
	bool ok = true;
	if (together) { for (auto &q : c.rq) ok = ok && send(q); pump(); }
	else for (auto &q : c.rq) { ok = ok && send(q); pump(); }
	LIB(mpt::mpt_stream_flush(&c.sm->data));
	bool has_enc = c.sm->data._wd._enc != 0;
	uint8_t wire[4096]; ssize_t got = read(sv[1], wire, sizeof wire); if (got < 0) got = 0;
	LIB(in->unref());
	close(sv[1]);
	bool mem = asan_error();
	size_t leaked = ledger_live();
	if (!ok || c.layout_bad) { r.incomplete(c.layout_bad ? "struct streamInput layout differs from the harness mirror" : "short write on the socketpair"); return; }
	if (mem) { r.violation("stream.dispatch|any|memory", desc + " invalid memory access (AddressSanitizer)"); return; }
	// split the wire into messages
	std::vector<std::vector<uint8_t>> msgs; bool garbled = false;
	for (ssize_t i = 0, b = 0; i < got; ++i) {
		if (wire[i] != (has_enc ? 0x00 : 0x0a)) continue;
		std::vector<uint8_t> m;
		if (has_enc) { if (!uncobs(wire + b, i - b, m)) garbled = true; } else m.assign(wire + b, wire + i);
		msgs.push_back(m); b = i + 1;
	}
	std::string wtxt = " wire: " + hex(wire, got);
	for (auto &m : msgs) {
		if (m.size() == 2 && m[0] == 'z' && m[1] == 'z') continue;       // the handler's own outgoing message
		if ((int) m.size() < idlen) { r.violation("stream.reply|any|unknown-id", desc + " message shorter than an id on the wire;" + wtxt); return; }
		std::vector<uint8_t> id(m.begin(), m.begin() + idlen);
		bool marked = id[0] & 0x80; id[0] &= 0x7f;
		SReq *hit = 0;
		for (auto &q : c.rq) if (q.wants && q.id == id) hit = &q;
		if (!hit) { r.violation("stream.reply|any|unknown-id", desc + " reply id " + hex(m.data(), idlen) + " belongs to no request that asked for a reply;" + wtxt); return; }
		if (!marked) { r.violation(std::string("stream.reply|") + (hit->script == S_NONE || hit->script == S_DEFER ? "default" : "explicit") + "|reply-marker-missing", desc + " reply id " + hex(m.data(), idlen) + " is the request id without the reply bit;" + wtxt); return; }
		if (++hit->onwire > 1) { r.violation("stream.reply|answered|second-reply-accepted", desc + " two replies for request id " + hex(hit->id.data(), idlen) + ";" + wtxt); return; }
	}
	bool nontriv = n > 1;
	for (auto &q : c.rq) {
		if (!q.handled) {
			if (q.wants) { r.violation("stream.dispatch|pending|request-starved", desc + " request id " + hex(q.id.data(), idlen) + " was never dispatched (no reply context, no default reply);" + wtxt); return; }
			r.count("stream: zero-id request not delivered to the handler (not flagged)"); continue;
		}
		if (q.delivered > 1) r.count("stream: request dispatched more than once (replies checked on the wire)");
		if (q.fail) { nontriv = true; r.count(q.onwire ? "stream: handler returned an error, exactly one reply on the wire" : "stream: handler returned an error, no reply on the wire"); }
		if (!q.wants) { r.count(q.had_ctx ? "stream: zero id got a reply context (not flagged)" : "stream: zero id, no reply context, nothing sent"); continue; }
		if (!q.had_ctx) { r.count("stream: no reply context offered (not flagged)"); continue; }
		if (q.script != S_NONE && q.script != S_REPLY) nontriv = true;
		switch (q.script) {
		case S_NONE: case S_DEFER:
			if (!q.onwire) { r.violation("stream.dispatch|armed|no-default-reply", desc + " handler left id " + hex(q.id.data(), idlen) + " unanswered, transport idle: no default reply on the wire;" + wtxt); return; }
			r.count(q.script == S_NONE ? "stream: unanswered request got exactly one default reply" : "stream: defer unsupported (NULL), one default reply");
			if (q.deferred_handle) r.count("stream: defer returned a handle (not flagged)");
			break;
		case S_REPLY: case S_CREPLY:
			if (q.r1 >= 0 && q.onwire) r.count(q.script == S_REPLY ? "stream: explicit reply on the wire once, marked" : "stream: mpt_context_reply on the wire once, marked");
			else if (q.r1 >= 0) r.count("stream: accepted reply missing on the wire (not flagged)");
			break;
		case S_REPLY_TWICE:
			if (q.r1 >= 0 && q.r2 >= 0) { r.violation("stream.reply|answered|further-attempt-not-refused", desc + fmt(" second reply() after an accepted one returned %d;", q.r2) + wtxt); return; }
			if (q.r1 >= 0 && q.onwire == 1) r.count("stream: second reply attempt refused, one reply on the wire");
			break;
		case S_BUSY:
			if (q.r1 < 0) r.count(q.onwire ? "stream: busy transport rejected, default reply sent later" : "stream: busy transport rejected reply and default reply");
			break;
		case S_BUSY_RETRY:
			if (!q.onwire) { r.violation("stream.reply|armed,rejected-before|retry-not-sent", desc + fmt(" reply rejected while busy (%d), retry returned %d: nothing on the wire;", q.r1, q.r2) + wtxt); return; }
			if (q.r1 < 0 && q.r2 >= 0) r.count("stream: retry after busy transport accepted, one reply on the wire");
			break;
		}
	}
	if (c.late_calls) { nontriv = true; r.count(c.late_ret < 0 ? "stream: late reply attempt after the dispatch refused" : "stream: late reply attempt after the dispatch accepted (at most one reply on the wire)"); }
	if (garbled) r.count("stream: undecodable bytes on the wire (not flagged)");
	if (leaked) { r.violation("stream.release|all-released|leak", desc + fmt(" %zu block(s) still allocated after the input was released", leaked)); return; }
	if (nontriv) r.count("nontrivial");
	++r.states;
}

// =====================================================================
// Part D: mpt_connection_dispatch() — the dispatcher that arms the deferrable reply context with its real transports
// (replyConnection -> mpt_stream_reply for a stream backed connection, mpt_outdata_reply for a datagram socket).
// =====================================================================
enum CScript { C_NONE, C_REPLY, C_REPLY_TWICE, C_CREPLY, C_DEFER_REPLY, C_DEFER_RELEASE, C_DISCARD, C_REPLY_BIG, C_ECHO, C_NSCRIPT };
static const char *cscriptnm[] = {"no answer", "reply(msg)", "reply(msg) twice", "mpt_context_reply", "defer(), handle.reply(msg) after the dispatch", "defer(), handle released after the dispatch", "dispatch without handler (discard)", "reply(300 byte msg)", "reply(the request message itself)"};
struct CReq { std::vector<uint8_t> id; bool wants; int script; bool fail; int r1, r2; bool handled, had_ctx; int onwire, delivered; mpt::reply_context_detached *handle; };
struct CCase { std::vector<CReq> rq; int stray; };
static int conn_handler(void *arg, mpt::event *ev)
{
	CCase &c = *(CCase *) arg;
	uint8_t pl[2] = {0, 0};
	if (!ev->msg) { ++c.stray; return 0; }
	mpt::message body = *ev->msg;
	if (mpt::mpt_message_read(&body, 2, pl) < 2 || pl[0] != 'r' || pl[1] < '0' || (size_t) (pl[1] - '0') >= c.rq.size()) { ++c.stray; return 0; }
	CReq &q = c.rq[pl[1] - '0'];
	q.handled = true; ++q.delivered;
	mpt::reply_context *rc = ev->reply;
	q.had_ctx = rc != 0;
	if (!rc) return q.fail ? mpt::BadOperation : 0;
	mpt::msgtype hdr(mpt::msgtype::Answer, 0);
	mpt::message m(&hdr, sizeof(hdr));
	switch (q.script) {
	case C_REPLY: q.r1 = LIB(rc->reply(&m)); break;
	case C_REPLY_TWICE: q.r1 = LIB(rc->reply(&m)); q.r2 = LIB(rc->reply(&m)); break;
	case C_CREPLY: q.r1 = LIB(mpt::mpt_context_reply(rc, 3, "%s", "text")); break;
	case C_REPLY_BIG: { static uint8_t big[300]; memset(big, 'B', sizeof big); big[0] = mpt::msgtype::Answer; big[1] = 0; mpt::message mb(big, sizeof big); q.r1 = LIB(rc->reply(&mb)); break; }
	case C_ECHO: q.r1 = LIB(rc->reply(ev->msg)); break;
	case C_DEFER_REPLY: case C_DEFER_RELEASE: q.handle = LIB(rc->defer()); break;
	}
	return q.fail ? mpt::BadOperation : 0;
}
static int own_reply_handler(void *, const mpt::message *) { return 0; }
static void conn_case(Run &r, Ctx &x, int idlen, bool dgram)
{
	CCase c; c.stray = 0;
	size_t n = 1 + x.choose(2);
	for (size_t k = 0; k < n; ++k) {
		CReq q; q.wants = x.choose(2) == 0; q.script = (int) x.choose(C_NSCRIPT); q.fail = x.choose(2) != 0; q.r1 = q.r2 = 1; q.handled = q.had_ctx = false; q.onwire = q.delivered = 0; q.handle = 0;
		q.id.assign(idlen, 0);
		if (q.wants) { for (int i = 0; i < idlen; ++i) q.id[i] = (uint8_t) (0x11 * (i + 1) + k); q.id[0] = idlen > 1 ? (k ? 0x7f : 0x00) : (uint8_t) (k ? 0x7e : 0x01); q.id[idlen - 1] = idlen > 1 ? (uint8_t) (5 + k) : q.id[0]; }
		c.rq.push_back(q);
	}
	bool together = !dgram && n > 1 && x.choose(2) != 0;
	static const size_t pads[] = {0, 98, 39998};
	size_t pad = dgram ? pads[x.choose(3)] : 0;    // request content of 2, 100 or 40000 bytes
	bool own = dgram && x.choose(2) != 0;           // afterwards the connection sends a request of its own (await + push) and a one-way message
	// before that a datagram arrives that the connection refuses: a reply nobody waits for / a datagram shorter than the id
	int stale = own ? (int) x.choose(3) : 0;
	if (stale == 2 && idlen < 2) stale = 0;
	bool handles_first = x.choose(2) != 0;          // deferred handles are used before / after the connection dispatched everything
	const char *grp = dgram ? "dgram" : "conn";
	std::string desc = fmt("%s connection idlen=%d%s%s%s:", dgram ? "datagram" : "stream backed", idlen, together ? " both requests queued before dispatch" : "", handles_first ? "" : ", handles used after all dispatches", pad ? fmt(", %zu byte requests", pad + 2).c_str() : "");
	if (own) desc += std::string(stale == 1 ? " then an unregistered reply arrives" : (stale == 2 ? " then a 1-byte datagram arrives" : "")) + " then own request 'ping' and one-way message 'pong'";
	for (auto &q : c.rq) desc += " [id " + hex(q.id.data(), idlen) + ", " + cscriptnm[q.script] + (q.fail && q.script != C_DISCARD ? ", handler returns an error" : "") + "]";
	r.note("%s", desc.c_str());
	++r.transitions;
	int sv[2];
	if (socketpair(AF_UNIX, dgram ? SOCK_DGRAM : SOCK_STREAM, 0, sv) < 0) { r.incomplete("socketpair failed"); return; }
	fcntl(sv[0], F_SETFL, O_NONBLOCK); fcntl(sv[1], F_SETFL, O_NONBLOCK);
	ledger_reset(); asan_error();
	r.hint(dgram ? "dgram.dispatch" : "conn.dispatch");
	mpt::connection *con = (mpt::connection *) calloc(1, sizeof(mpt::connection));
	con->out.sock._id = -1;
	mpt::stream *srm = 0;
	mpt::socket sock; sock._id = sv[0];
	if (dgram) {
		if (LIB(mpt::mpt_connection_assign(con, &sock)) < 0) { close(sv[0]); close(sv[1]); free(con); r.incomplete("mpt_connection_assign failed"); return; }
		close(sv[0]);      // the connection works on its own duplicate
	} else {
		// what mpt_connection_open() builds for a stream target
		srm = (mpt::stream *) LIB(calloc(1, sizeof(mpt::stream)));
		srm->_rd._state.data.msg = -1;
		srm->_wd._enc = mpt::mpt_message_encoder(mpt::EncodingCobs);
		srm->_rd._dec = mpt::mpt_message_decoder(mpt::EncodingCobs);
		if (LIB(mpt::mpt_stream_dopen(srm, &sock, mpt::stream::RdWr | mpt::stream::Buffer)) < 0) { close(sv[0]); close(sv[1]); free(srm); free(con); r.incomplete("mpt_stream_dopen failed"); return; }
		*(void **) &con->out.buf = srm;
	}
	con->out._idlen = (uint8_t) idlen;
	auto send = [&](const CReq &q) { std::vector<uint8_t> m(q.id); m.push_back('r'); m.push_back((uint8_t) ('0' + (&q - &c.rq[0]))); m.insert(m.end(), pad, (uint8_t) 'p'); if (!dgram) m = cobs(m); return write(sv[1], m.data(), m.size()) == (ssize_t) m.size(); };
	auto use_handle = [&](CReq &q) {
		if (!q.handle) return;
		mpt::msgtype hdr(mpt::msgtype::Answer, 0); mpt::message m(&hdr, sizeof(hdr));
		if (q.script == C_DEFER_REPLY) { q.r1 = LIB(q.handle->reply(&m)); if (q.r1 < 0) LIB(q.handle->reply(0)); }
		else LIB(q.handle->reply(0));
		q.handle = 0;
	};
	auto dispatch_one = [&](const CReq &q) {
		if (dgram) LIB(mpt::mpt_outdata_recv(&con->out)); else LIB(mpt::mpt_stream_poll(srm, POLLIN, 0));
		return LIB(mpt::mpt_connection_dispatch(con, q.script == C_DISCARD ? 0 : conn_handler, &c));
	};
	bool ok = true;
	if (together) {
		for (auto &q : c.rq) ok = ok && send(q);
		for (auto &q : c.rq) { dispatch_one(q); if (q.script == C_DISCARD) { q.handled = true; ++q.delivered; } }
		for (int extra = 0; extra < 2; ++extra) LIB(mpt::mpt_connection_dispatch(con, conn_handler, &c));
		for (auto &q : c.rq) use_handle(q);
	} else {
		for (auto &q : c.rq) {
			ok = ok && send(q);
			dispatch_one(q); if (q.script == C_DISCARD) { q.handled = true; ++q.delivered; }
			for (int extra = 0; extra < 2; ++extra) LIB(mpt::mpt_connection_dispatch(con, conn_handler, &c));
			if (handles_first) use_handle(q);
		}
		for (auto &q : c.rq) use_handle(q);
	}
	int own_ret = 0, oneway_ret = -1, await2 = 0; uint32_t own_id = 0;
	if (own) {
		if (stale) {
			std::vector<uint8_t> m(idlen, 0); m[idlen - 1] = 7; m[0] |= 0x80; m.push_back('o'); m.push_back('k');
			if (stale == 2) m.assign(1, 0x05);
			ok = ok && write(sv[1], m.data(), m.size()) == (ssize_t) m.size();
			LIB(mpt::mpt_outdata_recv(&con->out));
			LIB(mpt::mpt_connection_dispatch(con, conn_handler, &c));
		}
		own_ret = LIB(mpt::mpt_connection_await(con, own_reply_handler, 0));
		own_id = con->cid;
		if (own_ret >= 0 && (own_ret = (int) LIB(mpt::mpt_connection_push(con, 4, "ping"))) >= 0) own_ret = (int) LIB(mpt::mpt_connection_push(con, 0, 0));
		// a message without await is one-way: its header is the zero id
		if ((oneway_ret = (int) LIB(mpt::mpt_connection_push(con, 4, "pong"))) >= 0) oneway_ret = (int) LIB(mpt::mpt_connection_push(con, 0, 0));
		await2 = LIB(mpt::mpt_connection_await(con, own_reply_handler, 0));
	}
	if (srm) LIB(mpt::mpt_stream_flush(srm));
	std::vector<std::vector<uint8_t>> msgs; bool garbled = false; std::string wtxt = " wire:";
	if (dgram) {
		for (int i = 0; i < 8; ++i) { uint8_t b[2048]; ssize_t g = read(sv[1], b, sizeof b); if (g < 0) break; msgs.push_back(std::vector<uint8_t>(b, b + g)); wtxt += " [" + hex(b, std::min<ssize_t>(g, 32)) + (g > 32 ? fmt("..%zd bytes", g) : std::string()) + "]"; }
	} else {
		uint8_t wire[4096]; ssize_t got = read(sv[1], wire, sizeof wire); if (got < 0) got = 0;
		wtxt += " " + hex(wire, got);
		for (ssize_t i = 0, b = 0; i < got; ++i) { if (wire[i]) continue; std::vector<uint8_t> m; if (!uncobs(wire + b, i - b, m)) garbled = true; msgs.push_back(m); b = i + 1; }
	}
	LIB(mpt::mpt_connection_fini(con));
	free(con);
	if (!dgram) close(sv[0]);       // harmless if the stream closed it already
	close(sv[1]);
	bool mem = asan_error();
	size_t leaked = ledger_live();
	if (!ok) { r.incomplete("short write on the socketpair"); return; }
	if (mem) { r.violation(std::string(grp) + ".dispatch|any|memory", desc + " invalid memory access (AddressSanitizer)"); return; }
	if (own) {
		// the last two datagrams are the connection's own messages: request (new id, unmarked, readable back with the header width) and one-way message (zero id)
		std::vector<uint8_t> pong, ping; bool have_pong = false, have_ping = false;
		if (oneway_ret >= 0 && !msgs.empty()) { pong = msgs.back(); msgs.pop_back(); have_pong = true; }
		if (own_ret >= 0 && own_id && !msgs.empty()) { ping = msgs.back(); msgs.pop_back(); have_ping = true; }
		const char *st = stale == 1 ? "after-refused-reply" : (stale == 2 ? "after-short-datagram" : "after-dispatch");
		if (own_ret < 0 || !own_id) r.count("dgram: own request after the dispatch refused (not flagged)");
		else if (!have_ping || (int) ping.size() < idlen) { flag(r, std::string("dgram.request|") + st + "|not-sent", desc + " own request was accepted but no datagram with an id arrived;" + wtxt); return; }
		else {
			uint64_t back = ~(uint64_t) 0;
			mpt::mpt_message_buf2id(ping.data(), idlen, &back);
			if ((ping[0] & 0x80) || back != own_id || ping.size() != (size_t) idlen + 4 || memcmp(ping.data() + idlen, "ping", 4)) {
				flag(r, std::string("dgram.request|") + st + "|wrong-header", desc + fmt(" own request id %u + 'ping' went out as ", own_id) + hex(ping.data(), std::min<size_t>(ping.size(), 24)) + fmt("%s (%zu bytes): header reads back as id 0x%llx", ping.size() > 24 ? ".." : "", ping.size(), (unsigned long long) back)); return;
			}
			r.count("dgram: own request after the dispatches carries its own id");
		}
		if (oneway_ret < 0) r.count("dgram: one-way message refused (not flagged)");
		else if (!have_pong) { flag(r, "dgram.request|after-request|not-sent", desc + " one-way message was accepted but no datagram arrived;" + wtxt); return; }
		else {
			std::vector<uint8_t> zero(idlen, 0);
			if (pong.size() != (size_t) idlen + 4 || memcmp(pong.data(), zero.data(), idlen) || memcmp(pong.data() + idlen, "pong", 4)) {
				flag(r, "dgram.request|after-request|wrong-header", desc + " one-way message 'pong' (zero id) went out as " + hex(pong.data(), std::min<size_t>(pong.size(), 24)) + fmt("%s (%zu bytes)", pong.size() > 24 ? ".." : "", pong.size())); return;
			}
			r.count("dgram: one-way message after an own request carries the zero id");
			r.count(await2 >= 0 ? "dgram: next await accepted" : "dgram: next await refused (not flagged)");
		}
	}
	for (auto &m : msgs) {
		if ((int) m.size() < idlen) { r.violation(std::string(grp) + ".reply|any|unknown-id", desc + " message shorter than an id on the wire;" + wtxt); return; }
		std::vector<uint8_t> id(m.begin(), m.begin() + idlen);
		bool marked = id[0] & 0x80; id[0] &= 0x7f;
		CReq *hit = 0;
		for (auto &q : c.rq) if (q.wants && q.id == id) hit = &q;
		if (!hit) { r.violation(std::string(grp) + ".reply|any|unknown-id", desc + " reply id " + hex(m.data(), idlen) + " belongs to no request that asked for a reply;" + wtxt); return; }
		if (!marked) { r.violation(std::string(grp) + ".reply|any|reply-marker-missing", desc + " reply id " + hex(m.data(), idlen) + " is the request id without the reply bit;" + wtxt); return; }
		if (++hit->onwire > 1) { r.violation(std::string(grp) + ".reply|answered|second-reply-accepted", desc + " two replies for request id " + hex(hit->id.data(), idlen) + ";" + wtxt); return; }
	}
	bool nontriv = n > 1;
	for (auto &q : c.rq) {
		std::string pfx = std::string(grp) + ": ";
		if (!q.handled) {
			if (q.wants) { r.violation(std::string(grp) + ".dispatch|pending|request-starved", desc + " request id " + hex(q.id.data(), idlen) + " was never dispatched;" + wtxt); return; }
			r.count(pfx + "request not delivered to the handler (not flagged)"); continue;
		}
		if (!q.wants) { r.count(pfx + "zero id request dispatched, nothing on the wire for it"); continue; }
		if (q.script != C_DISCARD && !q.had_ctx) { r.violation(std::string(grp) + ".dispatch|pending|request-not-armed", desc + " request id " + hex(q.id.data(), idlen) + " reached the handler without reply context (and got no default reply);" + wtxt); return; }
		if (q.script != C_NONE && q.script != C_REPLY) nontriv = true;
		if (q.script == C_REPLY_TWICE && q.r1 >= 0 && q.r2 >= 0) { r.violation(std::string(grp) + ".reply|answered|further-attempt-not-refused", desc + fmt(" second reply() after an accepted one returned %d;", q.r2) + wtxt); return; }
		// the transport is attached and idle in every script: every request with an id ends with exactly one reply
		if (!q.onwire) {
			{ r.violation(std::string(grp) + ".dispatch|armed|no-default-reply", desc + " request id " + hex(q.id.data(), idlen) + " (" + cscriptnm[q.script] + ") ended without any reply on the wire;" + wtxt); return; }
		}
		r.count(pfx + cscriptnm[q.script] + ": exactly one reply on the wire, full id, marked");
		if (q.fail && q.script != C_DISCARD) r.count(pfx + "handler returned an error, exactly one reply on the wire");
	}
	if (c.stray) r.count(std::string(grp) + ": dispatch without a recognisable request (not flagged)");
	if (garbled) r.count(std::string(grp) + ": undecodable bytes on the wire (not flagged)");
	if (leaked) { r.violation(std::string(grp) + ".release|all-released|leak", desc + fmt(" %zu block(s) still allocated after mpt_connection_fini", leaked)); return; }
	if (nontriv) r.count("nontrivial");
	++r.states;
}

// =====================================================================
// Part E: the requesting side ("to the right requester").  Requests wait in a command array (mpt_command_set, as
// mpt_connection_await does); replies arrive on a stream and are delivered by mpt_connection_dispatch (stream branch)
// or by mpt_stream_sync.  Every case runs in a forked child (a spinning sync would otherwise stall the explorer).
// =====================================================================
enum RLetter { R_ID1, R_ID2, R_UNKNOWN, R_ID1_AGAIN, R_SHORT, R_EMPTY, R_TOOWIDE, R_IDQ, R_NLETTER };
static const char *rletternm[] = {"reply for request 1", "reply for request 2", "reply for an id nobody waits for", "another reply for request 1", "frame of the single byte 80 (shorter than an id)", "empty frame", "reply whose id needs more than 64 bit", "reply for the request waiting behind requests 1 and 2 in the wait list"};
static const char *g_failwho = 0;          // the requester whose reply handler reports an error (0 = none)
static const uint64_t PATTERN_ID = 0xAAAAAAAAAAAAAAAAULL;    // what an uninitialised 64 bit local holds in this build
struct RCase { std::string log; };
static RCase *g_rcase = 0;
static int wait_handler(void *arg, void *msgp)
{
	const char *who = (const char *) arg;
	if (!msgp) { g_rcase->log += std::string(who) + ":cancel;"; return 0; }
	mpt::message m = *(const mpt::message *) msgp;
	uint8_t tag[2] = {'?', '?'};
	mpt::mpt_message_read(&m, 2, tag);
	g_rcase->log += std::string(who) + ":" + (char) tag[0] + (char) tag[1] + ";";
	if (g_failwho && !strcmp(g_failwho, who)) { g_rcase->log += "handler-error;"; return -1; }
	return 0;
}
static int generic_handler(void *, mpt::event *) { g_rcase->log += "generic;"; return 0; }
static std::string req_child(int idlen, bool sync, const std::vector<int> &letters, bool rereg, int failing)
{
	RCase c; g_rcase = &c; g_failwho = failing == 1 ? "A1" : (failing == 2 ? "A2" : 0);
	int sv[2];
	if (socketpair(AF_UNIX, SOCK_STREAM, 0, sv) < 0) return "setup-failed";
	fcntl(sv[0], F_SETFL, O_NONBLOCK);
	mpt::connection *con = (mpt::connection *) calloc(1, sizeof(mpt::connection));
	con->out.sock._id = -1;
	mpt::stream *srm = (mpt::stream *) calloc(1, sizeof(mpt::stream));
	srm->_rd._state.data.msg = -1;
	srm->_wd._enc = mpt::mpt_message_encoder(mpt::EncodingCobs);
	srm->_rd._dec = mpt::mpt_message_decoder(mpt::EncodingCobs);
	mpt::socket sock; sock._id = sv[0];
	if (mpt::mpt_stream_dopen(srm, &sock, mpt::stream::RdWr | mpt::stream::Buffer) < 0) return "setup-failed";
	*(void **) &con->out.buf = srm;
	con->out._idlen = (uint8_t) idlen;
	mpt::array *wait = (mpt::array *) &con->_wait;
	static char A[] = "A1", B[] = "A2", P[] = "AP", N[] = "B1";
	mpt::mpt_command_set((decltype(&con->_wait)) wait, 1, wait_handler, A);
	mpt::mpt_command_set((decltype(&con->_wait)) wait, 2, wait_handler, B);
	// requests whose ids are what uninitialised id bytes (pattern filled in this build) decode to
	static char Q[] = "AQ";
	if (idlen >= 9) mpt::mpt_command_set((decltype(&con->_wait)) wait, (uintptr_t) PATTERN_ID, wait_handler, P);
	else {
		uint64_t p1 = 0, p2 = 0;                      // frame 80 + (idlen-1) pattern bytes / idlen pattern bytes with the mark removed
		for (int i = 1; i < idlen; ++i) p1 = p1 << 8 | 0xAA;
		p2 = 0x2A; for (int i = 1; i < idlen; ++i) p2 = p2 << 8 | 0xAA;
		if (p1) mpt::mpt_command_set((decltype(&con->_wait)) wait, (uintptr_t) p1, wait_handler, P);
		mpt::mpt_command_set((decltype(&con->_wait)) wait, (uintptr_t) p2, wait_handler, Q);
	}
	// the peer's replies: header = id with reply mark, content = tag "t<k>"
	int k = 0;
	for (int l : letters) {
		std::vector<uint8_t> m(idlen, 0);
		uint64_t id = l == R_ID2 ? 2 : (l == R_UNKNOWN ? 7 : 1);
		if (l == R_IDQ) { if (idlen >= 9) id = PATTERN_ID; else { id = 0x2A; for (int i = 1; i < idlen; ++i) id = id << 8 | 0xAA; } }
		for (int i = 0; i < idlen && i < 8; ++i) m[idlen - 1 - i] = (uint8_t) (id >> 8 * i);
		if (l == R_TOOWIDE) { std::fill(m.begin(), m.end(), 0); m[0] = 0x01; m[1] = 0x80; }
		m[0] |= 0x80;
		m.push_back('t'); m.push_back((uint8_t) ('0' + k++));
		if (l == R_SHORT) { m.assign(1, 0x80); }
		if (l == R_EMPTY) m.clear();
		std::vector<uint8_t> e = cobs(m);
		if (write(sv[1], e.data(), e.size()) != (ssize_t) e.size()) return "setup-failed";
	}
	auto rounds = [&](int n) {
		for (int i = 0; i < n; ++i) {
			if (sync) {
				// wait list before the call: entries still waiting and whether one of them sits behind an answered slot (compaction must move it)
				auto waiting = [&]() -> size_t { const mpt::buffer *wb = *(const mpt::buffer **) wait; return wb ? wb->_used / sizeof(mpt::command) : 0; };
				size_t wn = waiting();
				int ret = mpt::mpt_stream_sync(srm, idlen, &con->_wait, 0);
				size_t wn2 = waiting();
				if (wn2 && wn2 < wn) c.log += "compacted-live;";
				c.log += fmt("sync=%d;", ret < 0 ? -1 : (ret > 0 ? 1 : 0));
			}
			else { mpt::mpt_stream_poll(srm, POLLIN, 0); mpt::mpt_connection_dispatch(con, generic_handler, 0); }
		}
	};
	rounds((int) letters.size() + 2);
	if (rereg) {
		c.log += "rereg;";
		// a later request takes the lowest free id again (what mpt_command_reserve does): it was never answered by the peer
		mpt::mpt_command_set((decltype(&con->_wait)) wait, 1, wait_handler, N);
		rounds(2);
	}
	c.log += "end;";
	return c.log;
}
static void req_case(Run &r, Ctx &x, int idlen)
{
	bool sync = x.choose(2) != 0;
	size_t n = 1 + x.choose(3);
	std::vector<int> alpha = {R_ID1, R_ID2, R_UNKNOWN, R_ID1_AGAIN, R_SHORT, R_EMPTY, R_IDQ}; if (idlen >= 9) alpha.push_back(R_TOOWIDE);
	std::vector<int> letters;
	for (size_t i = 0; i < n; ++i) letters.push_back(alpha[x.choose(alpha.size())]);
	bool rereg = x.choose(2) != 0;
	int failing = (int) x.choose(3);          // 0: every reply handler returns 0, 1/2: the handler of request 1/2 reports an error
	std::string desc = fmt("requester idlen=%d via %s:", idlen, sync ? "mpt_stream_sync" : "mpt_connection_dispatch");
	for (int l : letters) desc += std::string(" [") + rletternm[l] + "]";
	if (rereg) desc += " then a new request reuses id 1";
	if (failing) desc += fmt("; the reply handler of request %d returns an error", failing);
	r.note("%s", desc.c_str());
	++r.transitions;
	const char *grp = sync ? "sync" : "connreq";
	r.hint(grp);
	std::string out = in_child([&]() { return req_child(idlen, sync, letters, rereg, failing); }, 2);
	r.note("deliveries: %s", out.c_str());
	if (out == "setup-failed") { r.incomplete("requester setup failed"); return; }
	if (!out.empty() && out[0] == '\x01') { r.violation(std::string(grp) + "|" + (out == "\x01HANG" ? "HANG" : (out.compare(1, 3, "SIG") == 0 ? "SIGNAL" : "EXIT")), desc + " child ended with " + out.substr(1)); return; }
	// expected receiver of each tag
	std::map<std::string, std::string> owner; std::map<std::string, int> seen; std::map<std::string, int> got;
	int first1 = -1, firstq = -1; bool compacted = out.find("compacted-live;") != std::string::npos;
	for (size_t i = 0; i < letters.size(); ++i) {
		std::string tag = fmt("t%zu", i);
		if (letters[i] == R_ID2) owner[tag] = "A2";
		else if (letters[i] == R_IDQ) { owner[tag] = firstq < 0 ? (idlen >= 9 ? "AP" : "AQ") : ""; if (firstq < 0) firstq = (int) i; }
		else if (letters[i] == R_ID1 || letters[i] == R_ID1_AGAIN) { owner[tag] = first1 < 0 ? "A1" : ""; if (first1 < 0) first1 = (int) i; }   // a second reply for request 1 has no requester left
		else owner[tag] = "";
	}
	size_t p = 0; bool after_rereg = false;
	while (p < out.size()) {
		size_t e = out.find(';', p); if (e == std::string::npos) break;
		std::string ev = out.substr(p, e - p); p = e + 1;
		if (ev == "rereg") { after_rereg = true; continue; }
		size_t c2 = ev.find(':'); if (c2 == std::string::npos) continue;
		std::string who = ev.substr(0, c2), tag = ev.substr(c2 + 1);
		if (tag == "cancel") continue;
		if (tag == "??") { r.violation(std::string(grp) + "|" + (letters.size() > 1 ? "two-replies" : "one-reply") + "|frame-without-id-delivered", desc + " a frame that carries no complete id was handed to request " + who + "; deliveries: " + out); return; }
		std::string cls = letters.size() > 2 ? "three-replies" : (letters.size() > 1 ? "two-replies" : "one-reply");
		if (compacted) cls += "+compaction";
		if (who == "B1") { r.violation(std::string(grp) + "|" + (after_rereg ? "id-reused" : cls) + "|delivered-to-later-request", desc + " the new request, which the peer never answered, received reply " + tag + "; deliveries: " + out); return; }
		if (++seen[tag] > 1) { r.violation(std::string(grp) + "|" + cls + "|reply-delivered-twice", desc + " reply " + tag + " was delivered twice; deliveries: " + out); return; }
		if (!owner.count(tag) || owner[tag] != who) {
			bool wide = false; for (size_t i = 0; i < letters.size(); ++i) if (fmt("t%zu", i) == tag && letters[i] == R_TOOWIDE) wide = true;
			r.violation(std::string(grp) + "|" + cls + (wide ? "|id-too-wide-delivered" : (owner.count(tag) && owner[tag].empty() && who == "A1" ? "|request-answered-twice" : "|wrong-requester")), desc + " reply " + tag + " was handed to request " + who + "; deliveries: " + out); return;
		}
		++got[who];
		if (compacted && (who == "AQ" || who == "AP") && out.find("compacted-live;") < out.find(who + ":" + tag)) r.count(std::string(grp) + ": request moved by the wait list compaction received its own reply");
	}
	if (compacted) r.count(std::string(grp) + ": wait list compacted while requests were still waiting");
	if (failing && out.find("handler-error;") != std::string::npos) r.count(std::string(grp) + ": reply handler reported an error");
	for (auto &o : owner) if (!o.second.empty() && !seen.count(o.first)) r.count(std::string(grp) + ": reply not delivered to its waiting request (not flagged)");
	for (auto &g : got) r.count(std::string(grp) + ": reply delivered exactly once to the request with its id", g.second);
	if (rereg) r.count(std::string(grp) + ": later request reusing the id received nothing");
	r.count("nontrivial"); ++r.states;
}
// =====================================================================
static const int quick_idlen[] = {1, 2, 3, 4, 5, 8, 9};
static const int thorough_idlen[] = {1, 2, 3, 4, 5, 8, 9, 16, 255};
void mc_jobs(Tier t, std::vector<std::string> &jobs)
{
	if (t == Quick) for (int l : quick_idlen) for (int tg = 1; tg >= 0; --tg) jobs.push_back(fmt("proto:idlen=%d:target=%d", l, tg));
	else for (int l : thorough_idlen) for (int tg = 1; tg >= 0; --tg) jobs.push_back(fmt("proto:idlen=%d:target=%d", l, tg));
	// same alphabet plus one arm attempt per history with a foreign id length (0, width-1, width+1, 4, 5), one request less
	if (t == Quick) for (int l : quick_idlen) for (int tg = 1; tg >= 0; --tg) jobs.push_back(fmt("proto:idlen=%d:target=%d:altarm", l, tg));
	else for (int l : thorough_idlen) for (int tg = 1; tg >= 0; --tg) jobs.push_back(fmt("proto:idlen=%d:target=%d:altarm", l, tg));
	for (int w = 0; w <= 9; ++w) jobs.push_back(fmt("ids:w=%d", w));
	for (int l : {1, 2, 4, 5, 8, 9, 12, 16}) jobs.push_back(fmt("stream:idlen=%d", l));
	for (int l : {1, 2, 4, 5, 9}) jobs.push_back(fmt("conn:idlen=%d", l));
	for (int l : {1, 2, 5}) jobs.push_back(fmt("dgram:idlen=%d", l));
	for (int l : {2, 9}) jobs.push_back(fmt("requester:idlen=%d", l));
}
static int proto_setup(Tier t, const std::string &job)
{
	int l = 4, tg = 1;
	sscanf(job.c_str(), "proto:idlen=%d:target=%d", &l, &tg);
	g_idlen = l; g_target = tg != 0; g_alt = job.find(":altarm") != std::string::npos;
	// quick: two requests (three for the jobs idlen 1 and 3 with target), two metatype references; thorough: four requests, three references
	// jobs with the foreign-length arm letters: two (thorough three) requests
	g_R = t == Quick ? ((l == 1 || l == 3) && tg && !g_alt ? 3 : 2) : (g_alt ? 3 : 4); g_maxref = t == Quick ? 2 : 3;
	return t == Quick ? 16 : 24;
}
static void id_body(Run &r, ACnt &c, const std::string &job, const std::vector<uint64_t> &ids, Ctx &x)
{
	size_t w = strtoul(job.c_str() + 6, 0, 10);
	size_t i = x.choose(ids.size());
	unsigned lead = 0;
	static const unsigned leads[] = {0, 0x01, 0x7f, 0xff};
	if (w == 9) lead = leads[x.choose(4)];
	bool nullp = x.choose(2) != 0;
	r.note("width=%zu id=0x%llx lead=%02x iptr=%s", w, (unsigned long long) ids[i], lead, nullp ? "NULL" : "set");
	if (!lead && !nullp) ++r.states;
	++r.transitions;
	id_case(r, c, w, ids[i], lead, nullp);
}
void mc_explore(Run &r, const std::string &job)
{
	r.require("nontrivial");
	if (job.compare(0, 4, "ids:") == 0) {
		ACnt c; memset(&c, 0, sizeof c);
		std::vector<uint64_t> ids = idset(r.tier);
		size_t w = strtoul(job.c_str() + 6, 0, 10);
		if (w == 2) r.sample(fmt("width=2 x %zu ids (0, 2^k-1, 2^k, 2^k+1, all < 2^16, sparse byte patterns): encode, compare with big-endian bytes, decode independently built header", ids.size()));
		dfs(r, [&](Ctx &x) { id_body(r, c, job, ids, x); });
		r.count("nontrivial", c.nontrivial);
		r.count("ids: encoded + header bytes exact", c.accepted); r.count("ids: decoded back to the same id", c.roundtrip);
		r.count("ids: too wide value refused by encoder", c.toowide_refused); r.count("ids: value needing the marker bit refused by encoder", c.marker_refused);
		r.count("ids: 9-byte header above 2^64 refused by decoder", c.widebuf_refused); r.count("ids: decode with NULL id pointer ok", c.nullptr_ok);
		r.count("ids: fitting id refused (flagged)", c.refused);
		if (w >= 1) { r.require("ids: decoded back to the same id"); r.require("ids: encoded + header bytes exact"); }
		if (w >= 1 && w <= 8) r.require("ids: value needing the marker bit refused by encoder");
		if (w <= 7) r.require("ids: too wide value refused by encoder");
		if (w == 9) r.require("ids: 9-byte header above 2^64 refused by decoder");
		return;
	}
	if (job.compare(0, 10, "requester:") == 0) {
		int l = atoi(job.c_str() + 16);
		r.require("sync: reply delivered exactly once to the request with its id"); r.require("connreq: reply delivered exactly once to the request with its id");
		r.require("sync: later request reusing the id received nothing"); r.require("sync: wait list compacted while requests were still waiting"); r.require("sync: request moved by the wait list compaction received its own reply"); r.require("sync: reply handler reported an error"); r.require("connreq: reply handler reported an error"); r.require("connreq: later request reusing the id received nothing");
		if (l == 2) r.sample("requester idlen=2: requests 1 and 2 wait in the command array; 1-2 replies from {for 1, for 2, unknown id, second for 1, id > 64 bit} arrive and are delivered by mpt_connection_dispatch or mpt_stream_sync; then optionally a new request reuses id 1");
		dfs(r, [&](Ctx &x) { req_case(r, x, l); });
		return;
	}
	if (job.compare(0, 5, "conn:") == 0 || job.compare(0, 6, "dgram:") == 0) {
		bool dg = job[0] == 'd';
		int l = atoi(job.c_str() + (dg ? 12 : 11));
		for (int k = 0; k < C_NSCRIPT; ++k) r.require(std::string(dg ? "dgram: " : "conn: ") + cscriptnm[k] + ": exactly one reply on the wire, full id, marked");
		r.require(std::string(dg ? "dgram: " : "conn: ") + "handler returned an error, exactly one reply on the wire");
		if (dg) { r.require("dgram: own request after the dispatches carries its own id"); r.require("dgram: one-way message after an own request carries the zero id"); r.require("dgram: next await accepted"); }
		if (l == 2) r.sample(fmt("%s connection idlen=2: 1..2 requests x {zero id, id} x 9 scripts (no answer, reply, reply twice, mpt_context_reply, defer+late reply, defer+release, dispatch without handler, 300 byte reply, echo of the request) x handler result {0, error} through mpt_connection_dispatch; replies read at the peer", dg ? "datagram" : "stream backed"));
		dfs(r, [&](Ctx &x) { conn_case(r, x, l, dg); });
		return;
	}
	if (job.compare(0, 7, "stream:") == 0) {
		int l = atoi(job.c_str() + 13);
		static const char *need[] = {"stream: unanswered request got exactly one default reply", "stream: explicit reply on the wire once, marked", "stream: mpt_context_reply on the wire once, marked",
			"stream: second reply attempt refused, one reply on the wire", "stream: retry after busy transport accepted, one reply on the wire", "stream: zero id, no reply context, nothing sent",
			"stream: defer unsupported (NULL), one default reply", "stream: handler returned an error, exactly one reply on the wire", "stream: late reply attempt after the dispatch refused"};
		for (const char *k : need) r.require(k);
		if (l == 2) r.sample("stream input idlen=2: 1..2 COBS requests over a socketpair x handler scripts {no answer, reply, reply twice, reply while busy, busy+retry, defer, mpt_context_reply}; replies read back from the peer's end");
		dfs(r, [&](Ctx &x) { stream_case(r, x, l); });
		return;
	}
	int depth = proto_setup(r.tier, job);
	static const char *need_t[] = {"armed", "reply accepted", "reply rejected by transport", "retry after rejected send accepted", "deferred", "deferred reply accepted",
		"deferred reply rejected by transport, handle kept", "deferred retry after rejected send accepted", "handle released: one default reply accepted",
		"handle released: one default reply attempted, transport rejected", "context released: one default reply accepted", "context released: one default reply attempted, transport rejected",
		"further reply attempt after the answer refused", "everything released: ledger checked", "two requests outstanding at once", "reply message forwarded to transport",
		"mpt_context_reply: Answer header + text delivered", "last metatype reference released while handles remain: transport detached", "deferred reply on detached transport dropped",
		"unref of a further metatype reference: transport stays attached", "context released while handles remain: armed request got its default reply first"};
	static const char *need_n[] = {"armed", "deferred", "reply without target: nothing sent", "everything released: ledger checked"};
	if (g_target) for (const char *k : need_t) r.require(k); else for (const char *k : need_n) r.require(k);
	if (g_alt) { r.require("arm with a too long id refused, pending request untouched"); r.require("arm with an empty id accepted: nothing armed"); if (g_idlen > 1) r.require("armed with a shorter id than the context width"); }
	std::vector<uint64_t> inits(1, 0);
	g_canon.clear(); g_depth = depth;
	bfs_histories<Sys>(r, inits, depth);
	// closure: the two longest history lengths produced no new canonical state, so every longer history only revisits explored states
	if (!r.counters.count(fmt("new canonical states at history length %02d", depth)) && !r.counters.count(fmt("new canonical states at history length %02d", depth - 1)))
		r.count("closure reached below the depth bound");
	r.require("closure reached below the depth bound");
}
void mc_replay(Run &r, const std::string &job, const Vec &v)
{
	if (job.compare(0, 4, "ids:") == 0) {
		ACnt c; memset(&c, 0, sizeof c);
		std::vector<uint64_t> ids = idset(r.tier);
		dfs_replay(r, [&](Ctx &x) { id_body(r, c, job, ids, x); }, v);
		return;
	}
	if (job.compare(0, 10, "requester:") == 0) { int l = atoi(job.c_str() + 16); dfs_replay(r, [&](Ctx &x) { req_case(r, x, l); }, v); return; }
	if (job.compare(0, 5, "conn:") == 0 || job.compare(0, 6, "dgram:") == 0) { bool dg = job[0] == 'd'; int l = atoi(job.c_str() + (dg ? 12 : 11)); dfs_replay(r, [&](Ctx &x) { conn_case(r, x, l, dg); }, v); return; }
	if (job.compare(0, 7, "stream:") == 0) { int l = atoi(job.c_str() + 13); dfs_replay(r, [&](Ctx &x) { stream_case(r, x, l); }, v); return; }
	proto_setup(r.tier, job);
	bfs_replay<Sys>(r, v);
}
